import Mathlib.Tactic.Linarith
import Mathlib.Tactic.Ring
import Mathlib.Tactic.FieldSimp
import Mathlib.Algebra.Order.Field.Rat
import Mathlib.Data.Rat.Cast.Order
import PyrexVerif.D.AntennaSM
/-!
Helper lemmas for C09 (numeric part): `np.interp` at its own sample points and outside its span, the
long-times grid of `full_waveform` is strictly increasing, and `full_waveform = noise + Σ interp0`.
-/
namespace Ant

/-! ### interpolation -/

theorem interpFrom_own : ∀ (w : Wave), (timesOf w).Pairwise (· < ·) → ∀ p ∈ w, interpFrom w p.1 = p.2
  | [], _, p, hp => by simp at hp
  | [(x0, y0)], _, p, hp => by
      simp only [List.mem_singleton] at hp
      subst hp; simp [interpFrom]
  | (x0, y0) :: (x1, y1) :: rest, hs, p, hp => by
      have hs' : (timesOf ((x1, y1) :: rest)).Pairwise (· < ·) := by
        simp only [timesOf, List.map_cons, List.pairwise_cons] at hs ⊢
        exact hs.2
      have h01 : x0 < x1 := by
        simp only [timesOf, List.map_cons, List.pairwise_cons] at hs
        exact hs.1 x1 (by simp)
      rcases List.mem_cons.1 hp with rfl | hp'
      · simp [interpFrom, h01]
      · have hge : ¬ p.1 < x1 := by
          rcases List.mem_cons.1 hp' with rfl | hp''
          · simp
          · simp only [timesOf, List.map_cons, List.pairwise_cons] at hs'
            have := hs'.1 p.1 (List.mem_map_of_mem hp'')
            exact not_lt.2 (le_of_lt this)
        simp only [interpFrom, hge, if_false]
        exact interpFrom_own ((x1, y1) :: rest) hs' p hp'

/-- re-gridding onto one's own sample points is exact -/
theorem interp0_own (w : Wave) (hs : (timesOf w).Pairwise (· < ·)) (p : Time × Val) (hp : p ∈ w) :
    interp0 w p.1 = p.2 := by
  cases w with
  | nil => simp at hp
  | cons q r =>
    obtain ⟨x0, y0⟩ := q
    have hge : ¬ p.1 < x0 := by
      rcases List.mem_cons.1 hp with rfl | hp'
      · simp
      · simp only [timesOf, List.map_cons, List.pairwise_cons] at hs
        exact not_lt.2 (le_of_lt (hs.1 p.1 (List.mem_map_of_mem hp')))
    simp only [interp0, hge, if_false]
    exact interpFrom_own _ hs p hp

theorem interpFrom_right : ∀ (w : Wave) (x : Time), (∀ p ∈ w, p.1 < x) → interpFrom w x = 0
  | [], _, _ => rfl
  | [(x0, y0)], x, h => by
      have : x0 < x := h (x0, y0) (by simp)
      simp [interpFrom, ne_of_gt this]
  | (x0, y0) :: (x1, y1) :: rest, x, h => by
      have : ¬ x < x1 := not_lt.2 (le_of_lt (h (x1, y1) (by simp)))
      simp only [interpFrom, this, if_false]
      exact interpFrom_right _ x (fun p hp => h p (List.mem_cons_of_mem _ hp))

theorem interp0_right (w : Wave) (x : Time) (h : ∀ p ∈ w, p.1 < x) : interp0 w x = 0 := by
  cases w with
  | nil => rfl
  | cons q r =>
    obtain ⟨x0, y0⟩ := q
    simp only [interp0]
    split
    · rfl
    · exact interpFrom_right _ x h

theorem interp0_left (w : Wave) (x : Time) (h : w ≠ [] → x < firstT w) : interp0 w x = 0 := by
  cases w with
  | nil => rfl
  | cons q r =>
    obtain ⟨x0, y0⟩ := q
    have : x < x0 := by simpa [firstT] using h (by simp)
    simp [interp0, this]

/-! ### sorted lists -/
theorem head_le_of_sorted : ∀ (l : List Rat), l.Pairwise (· < ·) → ∀ t ∈ l, l.head?.getD 0 ≤ t
  | [], _, t, ht => by simp at ht
  | a :: r, hs, t, ht => by
      simp only [List.head?_cons, Option.getD_some]
      rcases List.mem_cons.1 ht with rfl | ht'
      · exact le_refl _
      · exact le_of_lt ((List.pairwise_cons.1 hs).1 t ht')

theorem le_last_of_sorted : ∀ (l : List Rat), l.Pairwise (· < ·) → ∀ t ∈ l, t ≤ l.getLast?.getD 0
  | [], _, t, ht => by simp at ht
  | [a], _, t, ht => by simp at ht; subst ht; simp
  | a :: b :: r, hs, t, ht => by
      have hs' := (List.pairwise_cons.1 hs).2
      have ih := le_last_of_sorted (b :: r) hs'
      have hl : (a :: b :: r).getLast?.getD 0 = (b :: r).getLast?.getD 0 := by
        simp [List.getLast?_cons_cons]
      rw [hl]
      rcases List.mem_cons.1 ht with rfl | ht'
      · have h1 : t < b := (List.pairwise_cons.1 hs).1 b (by simp)
        exact le_trans (le_of_lt h1) (ih b (by simp))
      · exact ih t ht'

theorem lastT_ge (w : Wave) (hs : (timesOf w).Pairwise (· < ·)) (p : Time × Val) (hp : p ∈ w) :
    p.1 ≤ lastT w := by
  have := le_last_of_sorted (timesOf w) hs p.1 (List.mem_map_of_mem hp)
  simpa [lastT, timesOf, List.getLast?_map] using this

/-! ### the long grid -/
theorem dt_pos (ts : List Time) (h : WF ts) : 0 < dtOf ts := by
  obtain ⟨hl, hs⟩ := h
  match ts, hl, hs with
  | a :: b :: r, _, hs =>
    have : a < b := (List.pairwise_cons.1 hs).1 b (by simp)
    simp only [dtOf, List.getElem?_cons_succ, List.getElem?_cons_zero, Option.getD_some]
    linarith

theorem longTimes_sorted (ts : List Time) (n : Nat) (dt : Rat) (hs : ts.Pairwise (· < ·))
    (hne : ts ≠ []) (hdt : 0 < dt) : (longTimes ts n dt).Pairwise (· < ·) := by
  unfold longTimes
  have hcast : ∀ {i j : Nat}, i < j → (i : Rat) * dt < (j : Rat) * dt := by
    intro i j hij
    exact mul_lt_mul_of_pos_right (by exact_mod_cast hij) hdt
  have hhead : ts.head?.getD 0 ∈ ts := by
    cases ts with
    | nil => exact absurd rfl hne
    | cons a r => simp
  have hlast : ts.getLast?.getD 0 ∈ ts := by
    rw [List.getLast?_eq_some_getLast hne]; simp
  rw [List.pairwise_append, List.pairwise_append]
  refine ⟨⟨?_, hs, ?_⟩, ?_, ?_⟩
  · rw [List.pairwise_map]
    refine List.Pairwise.imp_of_mem ?_ List.pairwise_lt_range
    intro i j _ _ hij
    have := hcast hij
    linarith
  · intro a ha b hb
    simp only [List.mem_map, List.mem_range] at ha
    obtain ⟨k, hk, rfl⟩ := ha
    have h1 := hcast hk
    have h2 := head_le_of_sorted ts hs b hb
    linarith
  · rw [List.pairwise_map]
    refine List.Pairwise.imp_of_mem ?_ List.pairwise_lt_range
    intro i j _ _ hij
    have := hcast (Nat.succ_lt_succ hij)
    simp only [Nat.succ_eq_add_one] at this
    linarith
  · intro a ha b hb
    simp only [List.mem_map, List.mem_range] at hb
    obtain ⟨k, hk, rfl⟩ := hb
    have hpos : 0 < ((k + 1 : Nat) : Rat) * dt := by
      have := hcast (Nat.succ_pos k)
      simpa using this
    have h3 : a ≤ ts.getLast?.getD 0 := by
      rcases List.mem_append.1 ha with ha | ha
      · simp only [List.mem_map, List.mem_range] at ha
        obtain ⟨i, hi, rfl⟩ := ha
        have h1 := hcast hi
        have h2 := head_le_of_sorted ts hs _ hlast
        linarith
      · exact le_last_of_sorted ts hs a ha
    linarith

theorem mem_longTimes (ts : List Time) (n : Nat) (dt : Rat) (t : Time) (ht : t ∈ ts) :
    t ∈ longTimes ts n dt := by
  unfold longTimes
  simp only [List.mem_append]
  exact Or.inl (Or.inr ht)

/-! ### pointwise accumulation -/
theorem addW_map (l : List Time) (f g : Time → Val) :
    addW (l.map (fun t => (t, f t))) (l.map (fun t => (t, g t))) = l.map (fun t => (t, f t + g t)) := by
  unfold addW
  induction l with
  | nil => rfl
  | cons a r ih => simp [ih]

/-- sum of the signals interpolated at `t` -/
def sumAt (sigs : List Wave) (t : Time) : Val := (sigs.map (fun s => interp0 s t)).sum

theorem foldl_acc (long : List Time) (lo hi : Time) : ∀ (sigs : List Wave) (f : Time → Val),
    sigs.foldl (fun w s => if skipped s lo hi then w else addW w (withTimes s long))
      (long.map (fun t => (t, f t))) =
    long.map (fun t => (t, f t + sumAt (sigs.filter (fun s => !skipped s lo hi)) t))
  | [], f => by simp [sumAt]
  | s :: r, f => by
      simp only [List.foldl_cons]
      by_cases hk : skipped s lo hi = true
      · simp only [hk, if_true]
        rw [foldl_acc long lo hi r f]
        simp [hk]
      · simp only [hk]
        have : addW (long.map (fun t => (t, f t))) (withTimes s long) =
            long.map (fun t => (t, f t + interp0 s t)) := by
          unfold withTimes; exact addW_map long f _
        simp only [Bool.false_eq_true, if_false, this]
        rw [foldl_acc long lo hi r (fun t => f t + interp0 s t)]
        apply List.map_congr_left
        intro t _
        have hk' : (!skipped s lo hi) = true := by simpa using hk
        simp only [List.filter_cons, hk', if_true, sumAt, List.map_cons, List.sum_cons]
        congr 1
        ring

/-- skipped signals contribute nothing inside `[lo, hi]` -/
theorem sumAt_filter (sigs : List Wave) (lo hi t : Time) (hlo : lo ≤ t) (hhi : t ≤ hi)
    (hs : ∀ s ∈ sigs, (timesOf s).Pairwise (· < ·)) :
    sumAt (sigs.filter (fun s => !skipped s lo hi)) t = sumAt sigs t := by
  induction sigs with
  | nil => rfl
  | cons s r ih =>
    have ih' := ih (fun s hs' => hs s (List.mem_cons_of_mem _ hs'))
    by_cases hk : skipped s lo hi = true
    · have hz : interp0 s t = 0 := by
        simp only [skipped, Bool.or_eq_true, decide_eq_true_eq] at hk
        rcases hk with hk | hk
        · apply interp0_right
          intro p hp
          have := lastT_ge s (hs s (by simp)) p hp
          linarith
        · apply interp0_left
          intro _
          linarith
      simp only [List.filter_cons, hk, Bool.not_true, Bool.false_eq_true, if_false]
      rw [ih']
      simp [sumAt, hz]
    · have hk' : (!skipped s lo hi) = true := by simpa using hk
      simp only [List.filter_cons, hk', if_true]
      simp only [sumAt, List.map_cons, List.sum_cons] at ih' ⊢
      rw [ih']

/-- `Antenna.full_waveform(times)` = noise at the absolute times + the sum of all received signals
interpolated onto `times`; the intermediate long grid is irrelevant. -/
theorem fullWave_eq (cfg : Cfg) (m : Option Nat) (sigs : List Wave) (ts : List Time) (hts : WF ts)
    (hs : ∀ s ∈ sigs, (timesOf s).Pairwise (· < ·)) :
    fullWave cfg m sigs ts = ts.map (fun t => (t, noiseVal cfg m t + sumAt sigs t)) := by
  have hne : ts ≠ [] := by
    intro h; have := hts.1; simp [h] at this
  have hdt := dt_pos ts hts
  unfold fullWave
  simp only
  generalize hn : (nPts (maxSpan sigs) (dtOf ts)).toNat = n
  have hsorted := longTimes_sorted ts n (dtOf ts) hts.2 hne hdt
  rw [foldl_acc]
  unfold withTimes
  apply List.map_congr_left
  intro t ht
  have hmem := mem_longTimes ts n (dtOf ts) t ht
  have hW : (timesOf ((longTimes ts n (dtOf ts)).map (fun t => (t, noiseVal cfg m t +
      sumAt (sigs.filter (fun s => !skipped s ((longTimes ts n (dtOf ts)).head?.getD 0)
        ((longTimes ts n (dtOf ts)).getLast?.getD 0))) t)))) = longTimes ts n (dtOf ts) := by
    simp [timesOf, List.map_map, Function.comp_def]
  have := interp0_own _ (by rw [hW]; exact hsorted)
    (t, noiseVal cfg m t + sumAt (sigs.filter (fun s => !skipped s ((longTimes ts n (dtOf ts)).head?.getD 0)
        ((longTimes ts n (dtOf ts)).getLast?.getD 0))) t)
    (List.mem_map.2 ⟨t, hmem, rfl⟩)
  simp only at this
  rw [this, sumAt_filter sigs _ _ t (head_le_of_sorted _ hsorted t hmem)
    (le_last_of_sorted _ hsorted t hmem) hs]

/-! ### the system: lead-in grid and linear front ends -/

theorem leadInTimes_sorted (lead : Rat) (ts : List Time) (hts : WF ts) :
    WF (leadInTimes lead ts) := by
  have hdt := dt_pos ts hts
  have hne : ts ≠ [] := by
    intro h; have := hts.1; simp [h] at this
  unfold leadInTimes
  simp only
  generalize leadInN lead ts = n
  refine ⟨by have := hts.1; simp; omega, ?_⟩
  rw [List.pairwise_append]
  by_cases hn : n ≤ 0
  · have : n.toNat = 0 := by omega
    simp [this, hts.2]
  · have hnpos : (0 : Rat) < (n : Rat) := by exact_mod_cast (by omega : 0 < n)
    have hstep : (ts[0]?.getD 0 - (ts[0]?.getD 0 - (n : Rat) * dtOf ts)) / (n : Rat) = dtOf ts := by
      field_simp
      ring
    rw [hstep]
    have hcast : ∀ {i j : Nat}, i < j → (i : Rat) * dtOf ts < (j : Rat) * dtOf ts := by
      intro i j hij
      exact mul_lt_mul_of_pos_right (by exact_mod_cast hij) hdt
    refine ⟨?_, hts.2, ?_⟩
    · rw [List.pairwise_map]
      refine List.Pairwise.imp_of_mem ?_ List.pairwise_lt_range
      intro i j _ _ hij
      have := hcast hij
      linarith
    · intro a ha b hb
      simp only [List.mem_map, List.mem_range] at ha
      obtain ⟨k, hk, rfl⟩ := ha
      have hk' : (k : Rat) < (n : Rat) := by
        have : (k : Int) < n := by omega
        exact_mod_cast this
      have h1 : (k : Rat) * dtOf ts < (n : Rat) * dtOf ts := mul_lt_mul_of_pos_right hk' hdt
      have h0 : ts[0]?.getD 0 = ts.head?.getD 0 := by
        cases ts <;> simp
      have h2 := head_le_of_sorted ts hts.2 b hb
      rw [h0]
      linarith

theorem mem_leadInTimes (lead : Rat) (ts : List Time) (t : Time) (ht : t ∈ ts) :
    t ∈ leadInTimes lead ts := by
  unfold leadInTimes
  simp only [List.mem_append]
  exact Or.inr ht

/-- a wave on a strictly increasing grid is determined by its interpolant at its own sample times -/
theorem wave_eq_map_interp (w : Wave) (hs : (timesOf w).Pairwise (· < ·)) :
    w = (timesOf w).map (fun t => (t, interp0 w t)) := by
  unfold timesOf
  rw [List.map_map]
  conv => lhs; rw [← List.map_id w]
  apply List.map_congr_left
  intro p hp
  simp only [Function.comp, id]
  rw [interp0_own w hs p hp]

/-- a front end that keeps the grid and is additive (e.g. scaling, any FIR/IIR filter on the grid) -/
structure LinearFE (fe : Wave → Wave) : Prop where
  grid : ∀ w, timesOf (fe w) = timesOf w
  add  : ∀ a b, timesOf a = timesOf b → fe (addW a b) = addW (fe a) (fe b)
  zero : ∀ ts, fe (zeroW ts) = zeroW ts

theorem foldr_addW_map (long : List Time) (gs : List (Time → Val)) :
    gs.foldr (fun g acc => addW (long.map (fun t => (t, g t))) acc) (zeroW long) =
    long.map (fun t => (t, (gs.map (fun g => g t)).sum)) := by
  induction gs with
  | nil => simp [zeroW]
  | cons g r ih =>
    simp only [List.foldr_cons, ih, List.map_cons, List.sum_cons]
    exact addW_map long g _

theorem timesOf_map_pair (l : List Time) (f : Time → Val) : timesOf (l.map (fun t => (t, f t))) = l := by
  simp [timesOf, List.map_map, Function.comp_def]

theorem fe_foldr (fe : Wave → Wave) (h : LinearFE fe) (long : List Time) (gs : List (Time → Val)) :
    fe (gs.foldr (fun g acc => addW (long.map (fun t => (t, g t))) acc) (zeroW long)) =
    gs.foldr (fun g acc => addW (fe (long.map (fun t => (t, g t)))) acc) (zeroW long) := by
  induction gs with
  | nil => simpa using h.zero long
  | cons g r ih =>
    simp only [List.foldr_cons]
    rw [h.add, ih]
    rw [foldr_addW_map, timesOf_map_pair, timesOf_map_pair]

/-- `AntennaSystem.full_waveform(times)` without noise and with a linear front end = the sum over the
received signals of (front end applied to the signal on the lead-in grid), read off at `times`. -/
theorem sysFull_eq (c : SysCfg) (hl : LinearFE c.fe) (hn : c.ant.noisy = false) (m : Option Nat)
    (sigs : List Wave) (ts : List Time) (hts : WF ts)
    (hs : ∀ s ∈ sigs, (timesOf s).Pairwise (· < ·)) :
    sysFull c m sigs ts = ts.map (fun t =>
      (t, (sigs.map (fun s => interp0 (c.fe (withTimes s (leadInTimes c.leadIn ts))) t)).sum)) := by
  have hlong := leadInTimes_sorted c.leadIn ts hts
  unfold sysFull
  rw [fullWave_eq c.ant m sigs _ hlong hs]
  have hmem : ∀ t ∈ ts, t ∈ leadInTimes c.leadIn ts := fun t ht => mem_leadInTimes _ _ t ht
  generalize leadInTimes c.leadIn ts = long at hlong hmem ⊢
  -- the antenna waveform on the long grid as a pointwise sum of the re-gridded signals
  have h1 : long.map (fun t => (t, noiseVal c.ant m t + sumAt sigs t)) =
      (sigs.map (fun s => fun t => interp0 s t)).foldr
        (fun g acc => addW (long.map (fun t => (t, g t))) acc) (zeroW long) := by
    rw [foldr_addW_map]
    apply List.map_congr_left
    intro t _
    simp [noiseVal, hn, sumAt, List.map_map, Function.comp_def]
  rw [h1, fe_foldr c.fe hl]
  -- each processed signal is again a map over the long grid
  have h2 : ∀ s : Wave, c.fe (long.map (fun t => (t, interp0 s t))) =
      long.map (fun t => (t, interp0 (c.fe (withTimes s long)) t)) := by
    intro s
    have hg : timesOf (c.fe (withTimes s long)) = long := by
      rw [hl.grid]; exact timesOf_map_pair long _
    have := wave_eq_map_interp (c.fe (withTimes s long)) (by rw [hg]; exact hlong.2)
    rw [hg] at this
    exact this
  have h3 : (sigs.map (fun s => fun t => interp0 s t)).foldr
      (fun g acc => addW (c.fe (long.map (fun t => (t, g t)))) acc) (zeroW long) =
      (sigs.map (fun s => fun t => interp0 (c.fe (withTimes s long)) t)).foldr
      (fun g acc => addW (long.map (fun t => (t, g t))) acc) (zeroW long) := by
    clear h1
    induction sigs with
    | nil => rfl
    | cons s r ih =>
      simp only [List.map_cons, List.foldr_cons]
      rw [ih (fun s' hs' => hs s' (List.mem_cons_of_mem _ hs')), h2 s]
  rw [h3, foldr_addW_map]
  unfold withTimes
  apply List.map_congr_left
  intro t ht
  have := interp0_own (long.map (fun t => (t, ((sigs.map (fun s => fun t =>
      interp0 (c.fe (List.map (fun t => (t, interp0 s t)) long)) t)).map (fun g => g t)).sum)))
    (by rw [timesOf_map_pair]; exact hlong.2)
    (t, ((sigs.map (fun s => fun t =>
      interp0 (c.fe (List.map (fun t => (t, interp0 s t)) long)) t)).map (fun g => g t)).sum)
    (List.mem_map.2 ⟨t, hmem t ht, rfl⟩)
  simp only at this
  rw [this]
  simp [List.map_map, Function.comp_def]

theorem linearFE_half : LinearFE halfFe := by
  refine ⟨?_, ?_, ?_⟩
  · intro w; simp [halfFe, timesOf, List.map_map, Function.comp_def]
  · intro a b _
    have key : ∀ a b : Wave, halfFe (addW a b) = addW (halfFe a) (halfFe b) := by
      intro a
      unfold halfFe addW
      induction a with
      | nil => simp
      | cons p r ih =>
        intro b
        cases b with
        | nil => simp
        | cons q r' =>
          simp only [List.zipWith_cons_cons, List.map_cons, ih r']
          congr 2
          ring
    exact key a b
  · intro ts; simp [halfFe, zeroW, List.map_map, Function.comp_def]

theorem linearFE_id : LinearFE idFe := ⟨fun _ => rfl, fun _ _ _ => rfl, fun _ => rfl⟩

/-! ### the lead-in grid of a uniform grid -/
def uniformGrid (a dt : Rat) (L : Nat) : List Time :=
  (List.range L).map (fun (k : Nat) => a + (k : Rat) * dt)

theorem leadIn_uniform (a dt lead : Rat) (L : Nat) (hL : 2 ≤ L) (hdt : 0 < dt) (hlead : 0 ≤ lead) :
    leadInN lead (uniformGrid a dt L) = (lead / dt).floor + 1 ∧
    leadInTimes lead (uniformGrid a dt L) =
      uniformGrid (a - (((lead / dt).floor + 1 : Int) : Rat) * dt) dt (((lead / dt).floor + 1).toNat + L) ∧
    lead / dt < (((lead / dt).floor + 1 : Int) : Rat) ∧ 0 < (lead / dt).floor + 1 := by
  obtain ⟨L', rfl⟩ : ∃ L', L = L' + 2 := ⟨L - 2, by omega⟩
  have hq0 : 0 ≤ lead / dt := div_nonneg hlead (le_of_lt hdt)
  have hf0 : 0 ≤ (lead / dt).floor := Rat.le_floor_iff.2 (by simpa using hq0)
  have h0 : (uniformGrid a dt (L' + 2))[0]? = some (a + ((0 : Nat) : Rat) * dt) := by
    simp [uniformGrid]
  have h1 : (uniformGrid a dt (L' + 2))[1]? = some (a + ((1 : Nat) : Rat) * dt) := by
    simp [uniformGrid]
  have hlast : (uniformGrid a dt (L' + 2)).getLast? = some (a + ((L' + 1 : Nat) : Rat) * dt) := by
    simp [uniformGrid, List.range_succ]
  have hlen : (uniformGrid a dt (L' + 2)).length = L' + 2 := by simp [uniformGrid]
  have hdtOf : dtOf (uniformGrid a dt (L' + 2)) = dt := by
    simp only [dtOf, h0, h1, Option.getD_some]; push_cast; ring
  have hne : dt ≠ 0 := ne_of_gt hdt
  have hquot : (a + ((L' + 1 : Nat) : Rat) * dt - (a + ((0 : Nat) : Rat) * dt - lead)) / dt
      = lead / dt + (((L' + 1 : Nat) : Int) : Rat) := by
    push_cast; field_simp; ring
  have hN : leadInN lead (uniformGrid a dt (L' + 2)) = (lead / dt).floor + 1 := by
    simp only [leadInN, h0, hlast, hlen, hdtOf, Option.getD_some, hquot]
    have hnn : 0 ≤ lead / dt + (((L' + 1 : Nat) : Int) : Rat) := by
      have : (0 : Rat) ≤ (((L' + 1 : Nat) : Int) : Rat) := by exact_mod_cast Nat.zero_le _
      linarith
    simp only [pyTrunc, hnn, if_true, Rat.floor_add_intCast]
    push_cast; omega
  have hlt : lead / dt < (((lead / dt).floor + 1 : Int) : Rat) := Rat.lt_floor_add_one _
  refine ⟨hN, ?_, hlt, by omega⟩
  unfold leadInTimes
  simp only [hN, h0, hdtOf, Option.getD_some]
  generalize hn : (lead / dt).floor + 1 = n at *
  have hnpos : (0 : Rat) < (n : Rat) := by exact_mod_cast (by omega : 0 < n)
  have hstep : (a + ((0 : Nat) : Rat) * dt - (a + ((0 : Nat) : Rat) * dt - (n : Rat) * dt)) / (n : Rat) = dt := by
    field_simp; ring
  rw [hstep]
  have hcast : ((n.toNat : Nat) : Rat) = (n : Rat) := by
    have : ((n.toNat : Nat) : Int) = n := Int.toNat_of_nonneg (by omega)
    exact_mod_cast this
  unfold uniformGrid
  rw [List.range_add (n := n.toNat) (m := L' + 2), List.map_append, List.map_map]
  congr 1
  · apply List.map_congr_left
    intro k _
    push_cast; ring
  · apply List.map_congr_left
    intro k _
    simp only [Function.comp]
    push_cast
    rw [hcast]; ring

/-! ### every front end: the system waveform is the front end applied to the summed antenna waveform -/

/-- for EVERY front end (additive or not): `AntennaSystem.full_waveform(times)` is the front end applied
to the antenna's full waveform (noise + sum of all received signals) on the lead-in grid, re-gridded -/
theorem sysFull_unconditional (c : SysCfg) (m : Option Nat) (sigs : List Wave) (ts : List Time) (hts : WF ts)
    (hs : ∀ s ∈ sigs, (timesOf s).Pairwise (· < ·)) :
    sysFull c m sigs ts = withTimes (c.fe ((leadInTimes c.leadIn ts).map
      (fun t => (t, noiseVal c.ant m t + sumAt sigs t)))) ts := by
  unfold sysFull
  rw [fullWave_eq c.ant m sigs _ (leadInTimes_sorted c.leadIn ts hts) hs]

/-! ### the accepted region contains everything the theorems assume -/

theorem span_nonneg (s : Wave) (hne : s ≠ []) (hs : (timesOf s).Pairwise (· < ·)) : 0 ≤ span s := by
  cases s with
  | nil => exact absurd rfl hne
  | cons p r =>
    have h := lastT_ge (p :: r) hs p (by simp)
    have hf : firstT (p :: r) = p.1 := by simp [firstT]
    unfold span
    rw [hf]
    linarith

theorem foldl_max_ge (l : List Wave) (m : Rat) : m ≤ l.foldl (fun m x => max m (span x)) m := by
  induction l generalizing m with
  | nil => exact le_refl _
  | cons x r ih => exact le_trans (le_max_left _ _) (ih _)

theorem maxSpan_nonneg (sigs : List Wave) (h : ∀ s ∈ sigs, s ≠ [] ∧ (timesOf s).Pairwise (· < ·)) :
    0 ≤ maxSpan sigs := by
  cases sigs with
  | nil => simp [maxSpan]
  | cons s r =>
    have := span_nonneg s (h s (by simp)).1 (h s (by simp)).2
    exact le_trans this (foldl_max_ge r _)

theorem nPts_nonneg (L dt : Rat) (hL : 0 ≤ L) (hdt : 0 < dt) : 0 ≤ nPts L dt := by
  have hq : 0 ≤ L / dt := div_nonneg hL (le_of_lt hdt)
  have hf : 0 ≤ (L / dt).floor := Rat.le_floor_iff.2 (by simpa using hq)
  unfold nPts pyTrunc
  simp only [hq, if_true]
  split <;> omega

/-- a well-formed window and non-empty, time-ordered signals are never rejected by `full_waveform` -/
theorem wf_not_rejected (sigs : List Wave) (ts : List Time) (hts : WF ts)
    (h : ∀ s ∈ sigs, s ≠ [] ∧ (timesOf s).Pairwise (· < ·)) : fullWaveRejects sigs ts = false := by
  have hdt := dt_pos ts hts
  have h1 : ¬ ts.length < 2 := by have := hts.1; omega
  have h2 : sigs.any (·.isEmpty) = false := by
    rw [List.any_eq_false]
    intro s hs
    have := (h s hs).1
    cases s <;> simp_all
  have h3 : ¬ dtOf ts = 0 := ne_of_gt hdt
  have h4 : ¬ nPts (maxSpan sigs) (dtOf ts) < 0 := not_lt.2 (nPts_nonneg _ _ (maxSpan_nonneg sigs h) hdt)
  simp [fullWaveRejects, h1, h2, h3, h4]

theorem dtOf_uniform (a dt : Rat) (L : Nat) (hL : 2 ≤ L) : dtOf (uniformGrid a dt L) = dt := by
  obtain ⟨L', rfl⟩ : ∃ L', L = L' + 2 := ⟨L - 2, by omega⟩
  have h0 : (uniformGrid a dt (L' + 2))[0]? = some (a + ((0 : Nat) : Rat) * dt) := by simp [uniformGrid]
  have h1 : (uniformGrid a dt (L' + 2))[1]? = some (a + ((1 : Nat) : Rat) * dt) := by simp [uniformGrid]
  simp only [dtOf, h0, h1, Option.getD_some]; push_cast; ring

/-- uniform grids with a non-negative lead-in time are never rejected by `_calculate_lead_in_times` -/
theorem leadIn_uniform_not_rejected (a dt lead : Rat) (L : Nat) (hL : 2 ≤ L) (hdt : 0 < dt) (hlead : 0 ≤ lead) :
    leadInRejects lead (uniformGrid a dt L) = false := by
  obtain ⟨hN, _, _, hpos⟩ := leadIn_uniform a dt lead L hL hdt hlead
  have h1 : ¬ (uniformGrid a dt L).length < 2 := by simp [uniformGrid]; omega
  have h2 : ¬ dtOf (uniformGrid a dt L) = 0 := by rw [dtOf_uniform a dt L hL]; exact ne_of_gt hdt
  have h3 : ¬ leadInN lead (uniformGrid a dt L) < 0 := by rw [hN]; omega
  simp [leadInRejects, h1, h2, h3]

end Ant
