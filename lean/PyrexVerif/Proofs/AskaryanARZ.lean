import PyrexVerif.Proofs.AskaryanZHS
import Mathlib.Analysis.SpecialFunctions.Trigonometric.Inverse
/-! ARZ lemmas for C07: scaling in `dist`, joint shift, zero energy, linearity on the cone -/
open PyrexR PyrexGen
namespace PyrexR

theorem Arr.toList_map (a : Arr) (f : ℝ → ℝ) : (a.map f).toList = a.toList.map f := by
  simp [Arr.toList, Arr.map, tab_map]

theorem Arr.toList_length (a : Arr) : a.toList.length = a.len := by
  simp [Arr.toList, tab_length]

theorem addL_map_mul (xs ys : List ℝ) (c : ℝ) :
    addL (xs.map (fun v => c * v)) (ys.map (fun v => c * v)) = (addL xs ys).map (fun v => c * v) := by
  unfold addL
  rw [List.zipWith_map, List.map_zipWith]
  congr 1
  funext a b
  ring

theorem addL_zeros (n : ℕ) : addL (zerosL n) (zerosL n) = zerosL n := by
  simp [addL, zerosL]

theorem arzOffCone_dist (ix : ArzIdx) (Q RAC : Arr) (theta dist n zToT : ℝ) :
    arzOffCone ix Q RAC theta dist n zToT
      = (arzOffCone ix Q RAC theta 1 n zToT).map (fun v => dist⁻¹ * v) := by
  unfold arzOffCone
  simp only []
  rw [Arr.toList_map, Arr.toList_map, List.map_map]
  apply List.map_congr_left
  intro v _
  simp only [Function.comp, div_one]
  ring

theorem showerSignal_dist (times : List ℝ) (energy : ℝ) (prof rac : ℝ → ℝ → ℝ) (theta dist n t0 : ℝ) :
    showerSignal times energy prof rac theta dist n t0
      = (showerSignal times energy prof rac theta 1 n t0).map (fun v => dist⁻¹ * v) := by
  unfold showerSignal
  simp only []
  split_ifs
  · rw [zerosL_map_mul]
  · simp only [Arr.toList, Arr.map, Arr.diff, tab_map]
    apply tab_congr
    intro i _
    simp only [div_one]
    ring
  · rw [zerosL_map_mul]
  · rw [zerosL_map_mul]
  · exact arzOffCone_dist _ _ _ _ _ _ _

theorem arz_scale_dist (times : List ℝ) (E em had psi dist n t0 : ℝ) :
    arzValues times E em had psi dist n t0
      = (arzValues times E em had psi 1 n t0).map (fun v => dist⁻¹ * v) := by
  unfold arzValues
  simp only []
  rw [showerSignal_dist times (E * em), showerSignal_dist times (E * had), addL_map_mul]

theorem showerSignal_joint_shift (times : List ℝ) (energy : ℝ) (prof rac : ℝ → ℝ → ℝ) (theta dist n t0 s : ℝ)
    (h : 2 ≤ times.length) :
    showerSignal (times.map (· + s)) energy prof rac theta dist n (t0 + s)
      = showerSignal times energy prof rac theta dist n t0 := by
  unfold showerSignal
  simp only [List.length_map, gridDt_shift times s h, first_shift times s (by omega),
    add_sub_add_right_eq_sub]
  split_ifs
  · rfl
  · simp only [Arr.toList, Arr.map, Arr.diff, Arr.append, Arr.ofList, List.length_map]
    apply tab_congr
    intro i hi
    have e : ∀ j, j < times.length + 1 →
        (if j < times.length then (times.map (· + s)).getD j 0
          else (times.map (· + s)).getD (times.length - 1) 0 + gridDt times) - (t0 + s)
        = (if j < times.length then times.getD j 0 else times.getD (times.length - 1) 0 + gridDt times) - t0 := by
      intro j _
      split_ifs with hj
      · rw [getD_shift _ _ _ hj]; ring
      · rw [getD_shift _ _ _ (by omega)]; ring
    have hi' : i < times.length + 1 - 1 := by simpa using hi
    rw [e (i + 1) (by omega), e i (by omega)]
    rfl
  · rfl
  · rfl
  · rfl

theorem arz_joint_shift (times : List ℝ) (E em had psi dist n t0 s : ℝ) (h : 2 ≤ times.length) :
    arzValues (times.map (· + s)) E em had psi dist n (t0 + s) = arzValues times E em had psi dist n t0 := by
  unfold arzValues
  simp only []
  rw [showerSignal_joint_shift _ _ _ _ _ _ _ _ _ h, showerSignal_joint_shift _ _ _ _ _ _ _ _ _ h]

theorem showerSignal_zero (times : List ℝ) (prof rac : ℝ → ℝ → ℝ) (theta dist n t0 : ℝ) :
    showerSignal times 0 prof rac theta dist n t0 = zerosL times.length := by
  unfold showerSignal
  simp

theorem arz_zero_energy (times : List ℝ) (E em had psi dist n t0 : ℝ) (h1 : E * em = 0) (h2 : E * had = 0) :
    arzValues times E em had psi dist n t0 = zerosL times.length := by
  unfold arzValues
  simp only [h1, h2, showerSignal_zero, addL_zeros]

/-! on the cone -/
theorem onconeRange_nonneg : 0 ≤ onconeRange := by
  unfold onconeRange
  rw [sub_nonneg]
  apply Real.arccos_le_arccos
  simp only [Askc.arz_oncone_n1, Askc.arz_oncone_n2, cLight, floatEps]
  norm_num

theorem emRAC_linear (lam t e : ℝ) : emRAC t (lam * e) = lam * emRAC t e := by
  unfold emRAC
  simp only []
  split_ifs <;> ring

theorem hadRAC_linear (lam t e : ℝ) : hadRAC t (lam * e) = lam * hadRAC t e := by
  unfold hadRAC
  simp only []
  split_ifs <;> ring

/-- on the cone the shower signal is `-diff(RAC(times - t0))/dt / R`, hence linear in the energy whenever the
potential is -/
theorem showerSignal_oncone_linear (times : List ℝ) (lam energy : ℝ) (prof rac : ℝ → ℝ → ℝ)
    (theta dist n t0 : ℝ) (hl : lam ≠ 0) (hrac : ∀ t e, rac t (lam * e) = lam * rac t e)
    (hc : Rabs (theta - Racos (1 / n)) ≤ onconeRange) :
    showerSignal times (lam * energy) prof rac theta dist n t0
      = (showerSignal times energy prof rac theta dist n t0).map (fun v => lam * v) := by
  unfold showerSignal
  simp only []
  have hz : (lam * energy ≤ 0 ∧ 0 ≤ lam * energy) ↔ (energy ≤ 0 ∧ 0 ≤ energy) := by
    constructor
    · intro ⟨a, b⟩
      have h0 : lam * energy = 0 := le_antisymm a b
      rcases mul_eq_zero.mp h0 with h | h
      · exact absurd h hl
      · rw [h]; exact ⟨le_refl _, le_refl _⟩
    · intro ⟨a, b⟩
      have h0 : energy = 0 := le_antisymm a b
      rw [h0]; simp
  by_cases hE : (energy ≤ 0 ∧ 0 ≤ energy)
  · rw [if_pos hE, if_pos (hz.mpr hE), zerosL_map_mul]
  · rw [if_neg hE, if_neg (fun h => hE (hz.mp h)), if_pos hc, if_pos hc]
    simp only [Arr.toList, Arr.map, Arr.diff, tab_map]
    apply tab_congr
    intro i _
    rw [hrac, hrac]
    ring

theorem arz_oncone_linear (times : List ℝ) (lam E em psi dist n t0 : ℝ) (hl : lam ≠ 0)
    (hpsi : Rabs psi = thetaC n) :
    arzValues times (lam * E) em 0 psi dist n t0 = (arzValues times E em 0 psi dist n t0).map (fun v => lam * v) := by
  unfold arzValues
  simp only [mul_zero, showerSignal_zero]
  have hc : Rabs (Rabs psi - Racos (1 / n)) ≤ onconeRange := by
    rw [hpsi]; unfold thetaC; simp only [sub_self, Rabs, abs_zero]; exact onconeRange_nonneg
  rw [mul_assoc, showerSignal_oncone_linear times lam (E * em) emProfile emRAC (Rabs psi) dist n t0 hl
    (fun t e => emRAC_linear lam t e) hc]
  have hlen : (showerSignal times (E * em) emProfile emRAC (Rabs psi) dist n t0).length = times.length := by
    unfold showerSignal
    simp only []
    rw [if_pos hc]
    split_ifs
    · exact zerosL_length _
    · simp [Arr.toList, Arr.map, Arr.diff, Arr.append, Arr.ofList, tab_length]
  rw [← addL_map_mul, zerosL_map_mul]

/-- on the cone every shower (EM and hadronic) is linear in the energy, hence so is their sum -/
theorem arz_oncone_linear_all (times : List ℝ) (lam E em had psi dist n t0 : ℝ) (hl : lam ≠ 0)
    (hpsi : Rabs psi = thetaC n) :
    arzValues times (lam * E) em had psi dist n t0
      = (arzValues times E em had psi dist n t0).map (fun v => lam * v) := by
  unfold arzValues
  simp only []
  have hc : Rabs (Rabs psi - Racos (1 / n)) ≤ onconeRange := by
    rw [hpsi]; unfold thetaC; simp only [sub_self, Rabs, abs_zero]; exact onconeRange_nonneg
  rw [mul_assoc, mul_assoc,
    showerSignal_oncone_linear times lam (E * em) emProfile emRAC (Rabs psi) dist n t0 hl
      (fun t e => emRAC_linear lam t e) hc,
    showerSignal_oncone_linear times lam (E * had) hadProfile hadRAC (Rabs psi) dist n t0 hl
      (fun t e => hadRAC_linear lam t e) hc, addL_map_mul]

end PyrexR
