import PyrexVerif.Proofs.AskaryanARZPlace
/-! ARZ whole-sample moves: exact on the cone -/
open PyrexR PyrexGen
namespace PyrexR

/-- the extended grid `concatenate((times, [times[-1]+dt]))` of a uniform grid is uniform -/
theorem ext_uniform (times : List ℝ) (hlen : 1 ≤ times.length)
    (hgrid : ∀ k, k < times.length → times.getD k 0 = times.getD 0 0 + k * gridDt times)
    (j : ℕ) (hj : j ≤ times.length) :
    ((Arr.ofList times).append ⟨1, fun _ => times.getD (times.length - 1) 0 + gridDt times⟩).get j
      = times.getD 0 0 + j * gridDt times := by
  simp only [Arr.append_get, Arr.ofList]
  split_ifs with h
  · exact hgrid j h
  · have : j = times.length := by omega
    rw [hgrid (times.length - 1) (by omega), this]
    have : ((times.length - 1 : ℕ) : ℝ) = (times.length : ℝ) - 1 := by
      rw [Nat.cast_sub hlen]; simp
    rw [this]; ring

theorem showerSignal_oncone_move (times : List ℝ) (energy : ℝ) (prof rac : ℝ → ℝ → ℝ)
    (theta dist n t0 : ℝ) (m i : ℕ)
    (hgrid : ∀ k, k < times.length → times.getD k 0 = times.getD 0 0 + k * gridDt times)
    (hc : Rabs (theta - Racos (1 / n)) ≤ onconeRange) (hmi : m ≤ i) (hi : i < times.length) :
    (showerSignal times energy prof rac theta dist n (t0 + m * gridDt times)).getD i 0
      = (showerSignal times energy prof rac theta dist n t0).getD (i - m) 0 := by
  unfold showerSignal
  simp only []
  split_ifs
  · rw [zerosL_getD, zerosL_getD]
  · have hlen : 1 ≤ times.length := by omega
    simp only [Arr.toList, Arr.map, Arr.diff]
    have hl : ((Arr.ofList times).append ⟨1, fun _ => times.getD (times.length - 1) 0 + gridDt times⟩).len - 1
        = times.length := by
      simp [Arr.append_len, Arr.ofList]
    rw [hl, tab_getD _ _ _ hi, tab_getD _ _ _ (by omega : i - m < times.length)]
    rw [ext_uniform times hlen hgrid (i + 1) (by omega), ext_uniform times hlen hgrid i (by omega),
        ext_uniform times hlen hgrid (i - m + 1) (by omega), ext_uniform times hlen hgrid (i - m) (by omega)]
    have e1 : ((i - m + 1 : ℕ) : ℝ) = (i : ℝ) - m + 1 := by
      rw [Nat.cast_add, Nat.cast_sub hmi]; simp
    have e2 : ((i - m : ℕ) : ℝ) = (i : ℝ) - m := by rw [Nat.cast_sub hmi]
    have e3 : ((i + 1 : ℕ) : ℝ) = (i : ℝ) + 1 := by push_cast; ring
    rw [e1, e2, e3]
    have a1 : times.getD 0 0 + ((i : ℝ) + 1) * gridDt times - (t0 + m * gridDt times)
        = times.getD 0 0 + ((i : ℝ) - m + 1) * gridDt times - t0 := by ring
    have a2 : times.getD 0 0 + (i : ℝ) * gridDt times - (t0 + m * gridDt times)
        = times.getD 0 0 + ((i : ℝ) - m) * gridDt times - t0 := by ring
    rw [a1, a2]

end PyrexR

namespace PyrexR

/-- the placed convolution moves by `k` sub-samples when `n_shift` decreases by `k` -/
theorem arzPlace_move (conv : Arr) (s e : ℤ) (k j : ℕ) (h1 : s < conv.len) (hkj : k ≤ j)
    (hj : (j : ℤ) < conv.len - e) :
    (arzPlace conv (s - k) e).get j = (arzPlace conv s e).get (j - k) := by
  rw [arzPlace_get conv (s - k) e (by omega) j hj, arzPlace_get conv s e h1 (j - k) (by omega)]
  have : ((j - k : ℕ) : ℤ) + s = (j : ℤ) + (s - k) := by
    rw [Nat.cast_sub hkj]; ring
  rw [this]

/-- `int()` commutes with a whole-number shift as long as the argument does not cross zero -/
theorem rtrunc_sub_nat (x : ℝ) (k : ℕ) (h : 0 ≤ x - k ∨ x ≤ 0) : Rtrunc (x - k) = Rtrunc x - k := by
  simp only [Rtrunc]
  rcases h with h | h
  · have hx : 0 ≤ x := by
      have : (0 : ℝ) ≤ k := Nat.cast_nonneg k
      linarith
    rw [if_pos h, if_pos hx, Int.floor_sub_natCast]
  · by_cases hk : k = 0
    · subst hk; simp
    · have hkpos : (0 : ℝ) < k := by exact_mod_cast Nat.pos_of_ne_zero hk
      have hneg : ¬ (0 ≤ x - k) := by linarith
      rw [if_neg hneg, Int.ceil_sub_natCast]
      by_cases hx : 0 ≤ x
      · have : x = 0 := le_antisymm h hx
        subst this; simp
      · rw [if_neg hx]

/-- the sampling times of RAC do not move with the shower time: the window stays centred on the peak -/
theorem arz_tRAC_invariant (i : ℕ) (nShift d : ℤ) (m : ℕ) (dt zToT tStart : ℝ) (hd : (d : ℝ) ≠ 0) (hz : zToT ≠ 0) :
    RofInt ((i : ℤ) - (nShift - m * d)) * (dt / RofInt d / zToT) * zToT + (tStart - m * dt)
      = RofInt ((i : ℤ) - nShift) * (dt / RofInt d / zToT) * zToT + tStart := by
  simp only [RofInt]
  push_cast
  field_simp
  ring

end PyrexR
