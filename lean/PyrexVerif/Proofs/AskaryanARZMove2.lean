import PyrexVerif.Proofs.AskaryanARZMove
/-! ARZ off the cone: the output moves by `m` samples when `n_shift` decreases by `m·dt_divider` -/
open PyrexR PyrexGen
namespace PyrexR

theorem Arr.memo_len (a : Arr) : a.memo.len = a.len := rfl

theorem Arr.memo_get (a : Arr) (i : ℕ) (h : i < a.len) : a.memo.get i = a.get i := by
  unfold Arr.memo
  simp only []
  simp [Array.getD, tab]
  intro h'; omega

/-- the decimated, placed convolution `A` before scaling: length `N`, sample `j` is `placed[j·d]` -/
theorem decimated_len (P : Arr) (d : ℤ) (N : ℕ) (hd : 1 ≤ d) (hP : (P.len : ℤ) = N * d) :
    ((if d = 1 then P else P.step d.toNat).memo).len = N := by
  rw [Arr.memo_len]
  split_ifs with h
  · subst h; omega
  · simp only [Arr.step]
    have hd' : 0 < d.toNat := by omega
    have : P.len = N * d.toNat := by
      have : (P.len : ℤ) = ((N * d.toNat : ℕ) : ℤ) := by
        rw [hP]; push_cast; rw [Int.toNat_of_nonneg (by omega)]
      exact_mod_cast this
    rw [this]
    have : N * d.toNat + d.toNat - 1 = d.toNat * N + (d.toNat - 1) := by
      rw [Nat.mul_comm]; omega
    rw [this, Nat.mul_add_div hd', Nat.div_eq_of_lt (by omega)]
    simp

theorem decimated_get (P : Arr) (d : ℤ) (N j : ℕ) (hd : 1 ≤ d) (hP : (P.len : ℤ) = N * d) (hj : j < N) :
    ((if d = 1 then P else P.step d.toNat).memo).get j = P.get (j * d.toNat) := by
  have hl := decimated_len P d N hd hP
  rw [Arr.memo_get _ _ (by rw [Arr.memo_len] at hl; omega)]
  split_ifs with h
  · subst h; simp
  · rfl

/-- off the cone: when `n_shift` decreases by `m·dt_divider` (and nothing else changes) every output
sample that stays inside moves by `m` samples -/
theorem arzOffCone_move (ix : ArzIdx) (Q RAC : Arr) (theta dist n zToT : ℝ) (N m i : ℕ)
    (hd : 1 ≤ ix.dtDiv)
    (hlen : ((Q.convolve RAC).len : ℤ) = N * ix.dtDiv + ix.nExtra)
    (hs : ix.nShift + ix.nQneg < (Q.convolve RAC).len)
    (hs1 : -(ix.nShift + ix.nQneg) < N * ix.dtDiv)
    (hs1' : -(ix.nShift - m * ix.dtDiv + ix.nQneg) < N * ix.dtDiv)
    (hmi : m ≤ i) (hi : i + 1 < N) :
    (arzOffCone { ix with nShift := ix.nShift - m * ix.dtDiv } Q RAC theta dist n zToT).getD i 0
      = (arzOffCone ix Q RAC theta dist n zToT).getD (i - m) 0 := by
  unfold arzOffCone
  simp only []
  set conv := Q.convolve RAC with hconv
  set d := ix.dtDiv with hdd
  set s := ix.nShift + ix.nQneg with hss
  have hs' : ix.nShift - m * d + ix.nQneg = s - ((m * d.toNat : ℕ) : ℤ) := by
    rw [hss]; push_cast; rw [Int.toNat_of_nonneg (by omega)]; ring
  rw [hs']
  have hmd : (0 : ℤ) ≤ m * d := by positivity
  have hP : ((arzPlace conv s ix.nExtra).len : ℤ) = N * d := by
    rw [arzPlace_len conv s ix.nExtra hs (by omega) (by rw [hlen]; nlinarith)]; omega
  have hP' : ((arzPlace conv (s - ((m * d.toNat : ℕ) : ℤ)) ix.nExtra).len : ℤ) = N * d := by
    have e : ((m * d.toNat : ℕ) : ℤ) = m * d := by
      push_cast; rw [Int.toNat_of_nonneg (by omega)]
    rw [arzPlace_len conv _ ix.nExtra (by rw [e]; omega) (by rw [e]; omega) (by rw [hlen]; nlinarith)]; omega
  have hN := decimated_len _ d N hd hP
  have hN' := decimated_len _ d N hd hP'
  simp only [Arr.toList, Arr.map, Arr.diff, hN, hN']
  rw [tab_getD _ _ _ (by omega : i < N - 1), tab_getD _ _ _ (by omega : i - m < N - 1)]
  have key : ∀ j, m ≤ j → j < N →
      ((if d = 1 then arzPlace conv (s - ((m * d.toNat : ℕ) : ℤ)) ix.nExtra
          else (arzPlace conv (s - ((m * d.toNat : ℕ) : ℤ)) ix.nExtra).step d.toNat).memo).get j
      = ((if d = 1 then arzPlace conv s ix.nExtra else (arzPlace conv s ix.nExtra).step d.toNat).memo).get (j - m) := by
    intro j hmj hjN
    rw [decimated_get _ d N j hd hP' hjN, decimated_get _ d N (j - m) hd hP (by omega)]
    have hjd : (j : ℤ) * d < N * d := by nlinarith
    rw [arzPlace_move conv s ix.nExtra (m * d.toNat) (j * d.toNat) hs
      (Nat.mul_le_mul_right _ hmj)
      (by rw [hlen]; push_cast; rw [Int.toNat_of_nonneg (by omega)]; omega)]
    congr 1
    rw [Nat.sub_mul]
  rw [key (i + 1) (by omega) (by omega), key i hmi (by omega)]
  have : i + 1 - m = i - m + 1 := by omega
  rw [this]

end PyrexR
