import PyrexVerif.Proofs.AskaryanARZMove2
import PyrexVerif.Proofs.AskaryanFinite
/-! ARZ off the cone, composed up to `showerSignal`: moving only the shower time by `m` whole samples -/
open PyrexR PyrexGen
namespace PyrexR

theorem Arr.memo_congr (a b : Arr) (hl : a.len = b.len) (h : ∀ i, i < a.len → a.get i = b.get i) :
    a.memo = b.memo := by
  unfold Arr.memo
  simp only []
  have : tab a.len a.get = tab b.len b.get := by
    rw [← hl]; exact tab_congr h
  rw [this, hl]

/-- the index bookkeeping at `t_start - m·dt`: everything is unchanged except `n_shift`, which decreases by
`m·dt_divider` provided `int()`'s argument does not cross zero -/
theorem arzIdx_move (N : ℕ) (dt tStart maxLen z : ℝ) (m : ℕ) (hdt : dt ≠ 0) (hz : z ≠ 0)
    (htr : 0 ≤ (tStart + Askc.arz_t_tol) / (arzIdx N dt tStart maxLen z).dz / z
              - ((m * (arzIdx N dt tStart maxLen z).dtDiv.toNat : ℕ) : ℝ)
          ∨ (tStart + Askc.arz_t_tol) / (arzIdx N dt tStart maxLen z).dz / z ≤ 0) :
    arzIdx N dt (tStart - m * dt) maxLen z
      = { arzIdx N dt tStart maxLen z with
          nShift := (arzIdx N dt tStart maxLen z).nShift - m * (arzIdx N dt tStart maxLen z).dtDiv } := by
  have hd := arzIdx_dtDiv_pos N dt tStart maxLen z
  unfold arzIdx at hd htr ⊢
  simp only [] at hd htr ⊢
  set d : ℤ := max (Rtrunc (Rabs (100 * dt / maxLen / z)) + 1) (Rtrunc (Rabs (dt / Askc.arz_rac_step)) + 1) with hdd
  have hdR : (RofInt d : ℝ) ≠ 0 := by
    simp only [RofInt]
    have : (0 : ℤ) < d := by omega
    exact_mod_cast this.ne'
  congr 1
  have hx : (tStart - m * dt + Askc.arz_t_tol) / (dt / RofInt d / z) / z
      = (tStart + Askc.arz_t_tol) / (dt / RofInt d / z) / z - ((m * d.toNat : ℕ) : ℝ) := by
    have : ((m * d.toNat : ℕ) : ℝ) = m * RofInt d := by
      simp only [RofInt]
      push_cast
      congr 1
      have : ((d.toNat : ℤ) : ℝ) = (d : ℝ) := by
        rw [Int.toNat_of_nonneg (by omega)]
      exact_mod_cast this
    rw [this]
    field_simp
    ring
  rw [hx, rtrunc_sub_nat _ _ htr]
  push_cast
  rw [Int.toNat_of_nonneg (by omega)]

theorem arzIdx_nQ_nonneg (N : ℕ) (dt tStart maxLen z : ℝ) : 0 ≤ (arzIdx N dt tStart maxLen z).nQ := by
  unfold arzIdx
  simp only []
  have := rtrunc_nonneg (Rabs (5 * maxLen / (dt / RofInt (max (Rtrunc (Rabs (100 * dt / maxLen / z)) + 1)
    (Rtrunc (Rabs (dt / Askc.arz_rac_step)) + 1)) / z))) (abs_nonneg _)
  omega

theorem arzIdx_nRAC_eq (N : ℕ) (dt tStart maxLen z : ℝ) :
    (arzIdx N dt tStart maxLen z).nRAC
      = (N : ℤ) * (arzIdx N dt tStart maxLen z).dtDiv + 1 - (arzIdx N dt tStart maxLen z).nQ
        + (arzIdx N dt tStart maxLen z).nExtra := by
  unfold arzIdx; simp only []

/-- off the cone, for a shower time moved by `m` whole samples: same profile samples, same potential samples,
`n_shift` decreased by `m·dt_divider`, hence `new[i] = old[i-m]` -/
theorem showerSignal_offcone_move (times : List ℝ) (energy : ℝ) (prof rac : ℝ → ℝ → ℝ)
    (theta dist n t0 : ℝ) (m i : ℕ)
    (hne : ¬(energy ≤ 0 ∧ 0 ≤ energy))
    (hoff : ¬ Rabs (theta - Racos (1 / n)) ≤ onconeRange)
    (hdt : gridDt times ≠ 0) (hz : (1 - n * Rcos theta) / cLight ≠ 0)
    (htr : 0 ≤ (times.getD 0 0 - t0 + Askc.arz_t_tol)
                / (arzIdx (times.length + 1) (gridDt times) (times.getD 0 0 - t0) (maxLength energy)
                    ((1 - n * Rcos theta) / cLight)).dz / ((1 - n * Rcos theta) / cLight)
              - ((m * (arzIdx (times.length + 1) (gridDt times) (times.getD 0 0 - t0) (maxLength energy)
                    ((1 - n * Rcos theta) / cLight)).dtDiv.toNat : ℕ) : ℝ)
          ∨ (times.getD 0 0 - t0 + Askc.arz_t_tol)
                / (arzIdx (times.length + 1) (gridDt times) (times.getD 0 0 - t0) (maxLength energy)
                    ((1 - n * Rcos theta) / cLight)).dz / ((1 - n * Rcos theta) / cLight) ≤ 0)
    (hsk : (arzIdx (times.length + 1) (gridDt times) (times.getD 0 0 - t0) (maxLength energy)
              ((1 - n * Rcos theta) / cLight)).skip (times.length + 1) = false)
    (hsk' : (arzIdx (times.length + 1) (gridDt times) (times.getD 0 0 - (t0 + m * gridDt times))
              (maxLength energy) ((1 - n * Rcos theta) / cLight)).skip (times.length + 1) = false)
    (hrac : 1 ≤ (arzIdx (times.length + 1) (gridDt times) (times.getD 0 0 - t0) (maxLength energy)
              ((1 - n * Rcos theta) / cLight)).nRAC)
    (hmi : m ≤ i) (hi : i < times.length) :
    (showerSignal times energy prof rac theta dist n (t0 + m * gridDt times)).getD i 0
      = (showerSignal times energy prof rac theta dist n t0).getD (i - m) 0 := by
  have hts : times.getD 0 0 - (t0 + m * gridDt times) = (times.getD 0 0 - t0) - m * gridDt times := by ring
  rw [hts] at hsk'
  have hmove := arzIdx_move (times.length + 1) (gridDt times) (times.getD 0 0 - t0) (maxLength energy)
    ((1 - n * Rcos theta) / cLight) m hdt hz htr
  unfold showerSignal
  simp only []
  rw [if_neg hne, if_neg hoff, hts]
  set z := (1 - n * Rcos theta) / cLight with hzz
  set tS := times.getD 0 0 - t0 with htS
  set ix := arzIdx (times.length + 1) (gridDt times) tS (maxLength energy) z with hix
  rw [hmove] at hsk' ⊢
  simp only [hsk, hsk', Bool.false_eq_true, if_false]
  have hd := arzIdx_dtDiv_pos (times.length + 1) (gridDt times) tS (maxLength energy) z
  rw [← hix] at hd
  have hdz : ix.dz = gridDt times / RofInt ix.dtDiv / z := by rw [hix]; unfold arzIdx; simp only []
  have hdR : ((ix.dtDiv : ℤ) : ℝ) ≠ 0 := by
    have : (0 : ℤ) < ix.dtDiv := by omega
    exact_mod_cast this.ne'
  -- the sampled potential is the same array
  have hRAC : (Arr.map ⟨ix.nRAC.toNat, fun j => RofInt ((j : ℤ) - (ix.nShift - m * ix.dtDiv)) * ix.dz * z
                  + (tS - m * gridDt times)⟩ (fun t => rac t energy)).memo
      = (Arr.map ⟨ix.nRAC.toNat, fun j => RofInt ((j : ℤ) - ix.nShift) * ix.dz * z + tS⟩ (fun t => rac t energy)).memo := by
    refine Arr.memo_congr _ _ ?_ ?_
    · rfl
    · intro j _
      simp only [Arr.map]
      rw [hdz, arz_tRAC_invariant j ix.nShift ix.dtDiv m (gridDt times) z tS hdR hz]
  rw [hRAC]
  set Q := (Arr.map ⟨ix.nQ.toNat, fun j => RofInt ((j : ℤ) - ix.nQneg) * Rabs ix.dz⟩
    (fun zz => prof (askSign z * zz) energy)).memo with hQ
  set RAC := (Arr.map ⟨ix.nRAC.toNat, fun j => RofInt ((j : ℤ) - ix.nShift) * ix.dz * z + tS⟩
    (fun t => rac t energy)).memo with hR
  split_ifs
  · rw [zerosL_getD, zerosL_getD]
  · -- the index facts needed by `arzOffCone_move`
    have hnQ := arzIdx_nQ_nonneg (times.length + 1) (gridDt times) tS (maxLength energy) z
    have hnR := arzIdx_nRAC_eq (times.length + 1) (gridDt times) tS (maxLength energy) z
    rw [← hix] at hnQ hnR
    have hlenQ : Q.len = ix.nQ.toNat := rfl
    have hlenR : RAC.len = ix.nRAC.toNat := rfl
    have hlen : ((Q.convolve RAC).len : ℤ) = ((times.length + 1 : ℕ) : ℤ) * ix.dtDiv + ix.nExtra := by
      simp only [Arr.convolve, hlenQ, hlenR]
      omega
    simp only [ArzIdx.skip, decide_eq_false_iff_not, not_or, not_le] at hsk hsk'
    have hconv : ((Q.convolve RAC).len : ℤ) = ix.nQ + ix.nRAC - 1 := by
      simp only [Arr.convolve, hlenQ, hlenR]; omega
    exact arzOffCone_move ix Q RAC theta dist n z (times.length + 1) m i hd hlen (by omega) (by omega)
      (by have := hsk'.1; omega) hmi (by omega)

/-- the index bookkeeping of `shower_signal` for the grid `times`, shower time `t0` -/
noncomputable def arzIdxOf (times : List ℝ) (energy theta n t0 : ℝ) : ArzIdx :=
  arzIdx (times.length + 1) (gridDt times) (times.getD 0 0 - t0) (maxLength energy) ((1 - n * Rcos theta) / cLight)

/-- off-cone side conditions under which the pulse provably moves by `m` samples when `t0` moves by `m·dt`:
`dt ≠ 0`, `z_to_t ≠ 0`, the argument of `n_shift = int(…)` does not cross zero, neither shower time is "skipped",
and the potential array is non-empty -/
def ArzMoveHyp (times : List ℝ) (energy theta n t0 : ℝ) (m : ℕ) : Prop :=
  gridDt times ≠ 0 ∧ (1 - n * Rcos theta) / cLight ≠ 0 ∧
  (0 ≤ (times.getD 0 0 - t0 + Askc.arz_t_tol) / (arzIdxOf times energy theta n t0).dz / ((1 - n * Rcos theta) / cLight)
        - ((m * (arzIdxOf times energy theta n t0).dtDiv.toNat : ℕ) : ℝ)
    ∨ (times.getD 0 0 - t0 + Askc.arz_t_tol) / (arzIdxOf times energy theta n t0).dz / ((1 - n * Rcos theta) / cLight) ≤ 0) ∧
  (arzIdxOf times energy theta n t0).skip (times.length + 1) = false ∧
  (arzIdxOf times energy theta n (t0 + m * gridDt times)).skip (times.length + 1) = false ∧
  1 ≤ (arzIdxOf times energy theta n t0).nRAC

/-- one shower: zero energy, or seen on the cone (uniform grid), or off the cone under `ArzMoveHyp` -/
def ArzShowerMoves (times : List ℝ) (energy theta n t0 : ℝ) (m : ℕ) : Prop :=
  (energy ≤ 0 ∧ 0 ≤ energy) ∨
  (Rabs (theta - Racos (1 / n)) ≤ onconeRange ∧
    ∀ k, k < times.length → times.getD k 0 = times.getD 0 0 + k * gridDt times) ∨
  (¬(energy ≤ 0 ∧ 0 ≤ energy) ∧ ¬ Rabs (theta - Racos (1 / n)) ≤ onconeRange ∧ ArzMoveHyp times energy theta n t0 m)

theorem showerSignal_move (times : List ℝ) (energy : ℝ) (prof rac : ℝ → ℝ → ℝ) (theta dist n t0 : ℝ) (m i : ℕ)
    (h : ArzShowerMoves times energy theta n t0 m) (hmi : m ≤ i) (hi : i < times.length) :
    (showerSignal times energy prof rac theta dist n (t0 + m * gridDt times)).getD i 0
      = (showerSignal times energy prof rac theta dist n t0).getD (i - m) 0 := by
  rcases h with h0 | ⟨hc, hgrid⟩ | ⟨hne, hoff, hdt, hz, htr, hsk, hsk', hrac⟩
  · unfold showerSignal
    simp only [if_pos h0, zerosL_getD]
  · exact showerSignal_oncone_move times energy prof rac theta dist n t0 m i hgrid hc hmi hi
  · exact showerSignal_offcone_move times energy prof rac theta dist n t0 m i hne hoff hdt hz htr hsk hsk' hrac hmi hi

theorem arzOffCone_length (ix : ArzIdx) (Q RAC : Arr) (theta dist n zToT : ℝ) (N : ℕ) (hd : 1 ≤ ix.dtDiv)
    (hlen : ((Q.convolve RAC).len : ℤ) = N * ix.dtDiv + ix.nExtra)
    (hs : ix.nShift + ix.nQneg < (Q.convolve RAC).len) (hs1 : -(ix.nShift + ix.nQneg) < N * ix.dtDiv) :
    (arzOffCone ix Q RAC theta dist n zToT).length = N - 1 := by
  unfold arzOffCone
  simp only []
  have hP : ((arzPlace (Q.convolve RAC) (ix.nShift + ix.nQneg) ix.nExtra).len : ℤ) = N * ix.dtDiv := by
    rw [arzPlace_len _ _ _ hs (by omega) (by rw [hlen]; nlinarith)]; omega
  have hN := decimated_len _ ix.dtDiv N hd hP
  simp only [Arr.toList_length, Arr.map, Arr.diff, hN]

theorem showerSignal_length (times : List ℝ) (energy : ℝ) (prof rac : ℝ → ℝ → ℝ) (theta dist n t0 : ℝ)
    (hr : ¬(energy ≤ 0 ∧ 0 ≤ energy) → ¬ Rabs (theta - Racos (1 / n)) ≤ onconeRange →
      1 ≤ (arzIdxOf times energy theta n t0).nRAC) :
    (showerSignal times energy prof rac theta dist n t0).length = times.length := by
  unfold showerSignal
  simp only []
  split_ifs with h0 hc hsk hq
  · exact zerosL_length _
  · simp [Arr.toList_length, Arr.map, Arr.diff, Arr.append_len, Arr.ofList]
  · exact zerosL_length _
  · exact zerosL_length _
  · have hrac := hr h0 hc
    unfold arzIdxOf at hrac
    set z := (1 - n * Rcos theta) / cLight with hzz
    set ix := arzIdx (times.length + 1) (gridDt times) (times.getD 0 0 - t0) (maxLength energy) z with hix
    have hd := arzIdx_dtDiv_pos (times.length + 1) (gridDt times) (times.getD 0 0 - t0) (maxLength energy) z
    have hnQ := arzIdx_nQ_nonneg (times.length + 1) (gridDt times) (times.getD 0 0 - t0) (maxLength energy) z
    have hnR := arzIdx_nRAC_eq (times.length + 1) (gridDt times) (times.getD 0 0 - t0) (maxLength energy) z
    rw [← hix] at hd hnQ hnR
    have hsk' : ix.skip (times.length + 1) = false := by simpa using hsk
    simp only [ArzIdx.skip, decide_eq_false_iff_not, not_or, not_le] at hsk'
    rw [arzOffCone_length ix _ _ theta dist n z (times.length + 1) hd]
    · simp
    · simp only [Arr.convolve, Arr.memo_len, Arr.map]; omega
    · simp only [Arr.convolve, Arr.memo_len, Arr.map]; omega
    · omega

theorem arzIdx_nRAC_indep (N : ℕ) (dt t1 t2 maxLen z : ℝ) :
    (arzIdx N dt t1 maxLen z).nRAC = (arzIdx N dt t2 maxLen z).nRAC := by
  unfold arzIdx; simp only []

theorem addL_getD (xs ys : List ℝ) (i : ℕ) (hx : i < xs.length) (hy : i < ys.length) :
    (addL xs ys).getD i 0 = xs.getD i 0 + ys.getD i 0 := by
  simp [addL, List.getD_eq_getElem?_getD, hx, hy]

theorem ArzShowerMoves.nRAC (times : List ℝ) (energy theta n t0 : ℝ) (m : ℕ)
    (h : ArzShowerMoves times energy theta n t0 m) (t1 : ℝ) :
    ¬(energy ≤ 0 ∧ 0 ≤ energy) → ¬ Rabs (theta - Racos (1 / n)) ≤ onconeRange →
      1 ≤ (arzIdxOf times energy theta n t1).nRAC := by
  intro h0 hc
  rcases h with h | ⟨h, _⟩ | ⟨_, _, _, _, _, _, _, hrac⟩
  · exact absurd h h0
  · exact absurd h hc
  · unfold arzIdxOf at hrac ⊢
    rw [arzIdx_nRAC_indep _ _ _ (times.getD 0 0 - t0)]; exact hrac

theorem arzValues_move (times : List ℝ) (E em had psi dist n t0 : ℝ) (m i : ℕ)
    (hem : ArzShowerMoves times (E * em) (Rabs psi) n t0 m)
    (hhad : ArzShowerMoves times (E * had) (Rabs psi) n t0 m) (hmi : m ≤ i) (hi : i < times.length) :
    (arzValues times E em had psi dist n (t0 + m * gridDt times)).getD i 0
      = (arzValues times E em had psi dist n t0).getD (i - m) 0 := by
  unfold arzValues
  simp only []
  have l1 := showerSignal_length times (E * em) emProfile emRAC (Rabs psi) dist n t0 (hem.nRAC _ _ _ _ _ _ t0)
  have l2 := showerSignal_length times (E * had) hadProfile hadRAC (Rabs psi) dist n t0 (hhad.nRAC _ _ _ _ _ _ t0)
  have l3 := showerSignal_length times (E * em) emProfile emRAC (Rabs psi) dist n (t0 + m * gridDt times)
    (hem.nRAC _ _ _ _ _ _ _)
  have l4 := showerSignal_length times (E * had) hadProfile hadRAC (Rabs psi) dist n (t0 + m * gridDt times)
    (hhad.nRAC _ _ _ _ _ _ _)
  rw [addL_getD _ _ i (by omega) (by omega), addL_getD _ _ (i - m) (by omega) (by omega),
      showerSignal_move _ _ _ _ _ _ _ _ m i hem hmi hi, showerSignal_move _ _ _ _ _ _ _ _ m i hhad hmi hi]

end PyrexR
