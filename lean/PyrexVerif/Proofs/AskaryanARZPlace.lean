import PyrexVerif.Proofs.AskaryanARZ
import Mathlib.Tactic.Ring
/-! The four-way shift / zero-pad / crop of `shower_signal` is one index formula -/
open PyrexR PyrexGen
namespace PyrexR

@[simp] theorem Arr.append_len (a b : Arr) : (a.append b).len = a.len + b.len := rfl
@[simp] theorem Arr.append_get (a b : Arr) (i : ℕ) :
    (a.append b).get i = if i < a.len then a.get i else b.get (i - a.len) := rfl
@[simp] theorem Arr.drop_len (a : Arr) (k : ℕ) : (a.drop k).len = a.len - k := rfl
@[simp] theorem Arr.drop_get (a : Arr) (k i : ℕ) : (a.drop k).get i = a.get (i + k) := rfl
@[simp] theorem Arr.take_len (a : Arr) (k : ℕ) : (a.take k).len = min k a.len := rfl
@[simp] theorem Arr.take_get (a : Arr) (k i : ℕ) : (a.take k).get i = a.get i := rfl
@[simp] theorem Arr.zeros_len (n : ℕ) : (Arr.zeros n).len = n := rfl
@[simp] theorem Arr.zeros_get (n i : ℕ) : (Arr.zeros n).get i = 0 := rfl
@[simp] theorem Arr.sliceNegStop_len (a : Arr) (k : ℕ) (stop : ℤ) :
    (a.sliceNegStop k stop).len = min ((a.len : ℤ) + stop).toNat a.len - k := rfl
@[simp] theorem Arr.sliceNegStop_get (a : Arr) (k : ℕ) (stop : ℤ) (i : ℕ) :
    (a.sliceNegStop k stop).get i = a.get (i + k) := rfl

theorem arzPlace_len (conv : Arr) (s e : ℤ) (h1 : s < conv.len) (h2 : -s < conv.len - e)
    (h3 : 0 ≤ (conv.len : ℤ) - e) :
    ((arzPlace conv s e).len : ℤ) = (conv.len : ℤ) - e := by
  unfold arzPlace
  split_ifs <;> simp only [Arr.append_len, Arr.drop_len, Arr.zeros_len, Arr.sliceNegStop_len] <;> omega

theorem arzPlace_get (conv : Arr) (s e : ℤ) (h1 : s < conv.len)
    (j : ℕ) (hj : (j : ℤ) < conv.len - e) :
    (arzPlace conv s e).get j
      = if 0 ≤ (j : ℤ) + s ∧ (j : ℤ) + s < conv.len then conv.get ((j : ℤ) + s).toNat else 0 := by
  unfold arzPlace
  have l1 := Arr.drop_len conv s.toNat
  have l2 := Arr.zeros_len (-s).toNat
  have l3 := Arr.append_len (Arr.zeros (-s).toNat) conv
  by_cases hs : 0 < s <;> by_cases hse : 0 ≤ s - e
  · simp only [if_pos hs, if_pos hse, Arr.append_get, Arr.drop_get, Arr.zeros_get]
    split_ifs <;> first | rfl | (congr 1; omega)
  · simp only [if_pos hs, if_neg hse, Arr.sliceNegStop_get]
    split_ifs <;> first | rfl | (congr 1; omega)
  · simp only [if_neg hs, if_pos hse, Arr.append_get, Arr.zeros_get]
    split_ifs <;> first | rfl | (congr 1; omega)
  · simp only [if_neg hs, if_neg hse, Arr.append_get, Arr.zeros_get, Arr.sliceNegStop_get]
    split_ifs <;> first | rfl | (congr 1; omega)

end PyrexR
