import PyrexVerif.Proofs.AskaryanZHS
import Mathlib.Algebra.Order.Floor.Ring
/-! AVZ lemmas for C07 -/
open PyrexR PyrexGen
namespace PyrexR

theorem askIrfftAt_scale (m : ℕ) (re im : ℕ → ℝ) (c : ℝ) (j : ℕ) :
    askIrfftAt m (fun k => c * re k) (fun k => c * im k) j = c * askIrfftAt m re im j := by
  unfold askIrfftAt
  simp only []
  rw [← mul_div_assoc, mul_add, mul_add, ← sumN_mul_left]
  congr 2
  · congr 1
    apply sumN_congr
    intro i _
    ring
  · ring

theorem avzCentred_length (N : ℕ) (dt : ℝ) (spec : ℕ → ℝ) : (avzCentred N dt spec).length = 2 * (N / 2) := by
  unfold avzCentred
  simp only [askRoll_length, tab_length]
  omega

theorem avzCentred_scale (N : ℕ) (dt c : ℝ) (spec : ℕ → ℝ) :
    avzCentred N dt (fun k => c * spec k) = (avzCentred N dt spec).map (fun v => c * v) := by
  unfold avzCentred
  simp only []
  rw [← askRoll_map_mul, tab_map]
  congr 1
  apply tab_congr
  intro j _
  rw [show (fun k => c * spec k * Rcos (0.5 * Rpi)) = (fun k => c * (spec k * Rcos (0.5 * Rpi))) from
        funext (fun k => by ring),
      show (fun k => c * spec k * Rsin (0.5 * Rpi)) = (fun k => c * (spec k * Rsin (0.5 * Rpi))) from
        funext (fun k => by ring),
      askIrfftAt_scale]
  ring

theorem avzCentred_congr (N : ℕ) (dt : ℝ) (s1 s2 : ℕ → ℝ) (h : ∀ k, s1 k = s2 k) :
    avzCentred N dt s1 = avzCentred N dt s2 := by
  rw [show s1 = s2 from funext h]

theorem place_tail_scale (N L a b : ℕ) (p : List ℝ) (c : ℝ) :
    (if L + 1 = N then p.map (fun v => c * v) ++ [2 * (p.map (fun v => c * v)).getD a 0 - (p.map (fun v => c * v)).getD b 0]
      else p.map (fun v => c * v))
    = (if L + 1 = N then p ++ [2 * p.getD a 0 - p.getD b 0] else p).map (fun v => c * v) := by
  split_ifs
  · rw [List.map_append, ask_getD_map_mul, ask_getD_map_mul]
    congr 1
    simp only [List.map_cons, List.map_nil]
    congr 1
    ring
  · rfl

theorem avzPlace_scale (N : ℕ) (trace : List ℝ) (x c : ℝ) :
    avzPlace N (trace.map (fun v => c * v)) x = (avzPlace N trace x).map (fun v => c * v) := by
  unfold avzPlace
  simp only [List.length_map]
  have hplaced : (if (Rfloor x - ((trace.length / 2 : ℕ) : ℤ)).natAbs > trace.length then zerosL trace.length
        else (askRoll (trace.map (fun v => c * v) ++ zerosL trace.length) (Rfloor x - ((trace.length / 2 : ℕ) : ℤ))).take trace.length)
      = (if (Rfloor x - ((trace.length / 2 : ℕ) : ℤ)).natAbs > trace.length then zerosL trace.length
        else (askRoll (trace ++ zerosL trace.length) (Rfloor x - ((trace.length / 2 : ℕ) : ℤ))).take trace.length).map (fun v => c * v) := by
    split_ifs
    · rw [zerosL_map_mul]
    · rw [List.map_take, ← askRoll_map_mul, List.map_append, zerosL_map_mul]
  rw [hplaced]
  exact place_tail_scale _ _ _ _ _ _

/-- `dist` enters the AVZ spectrum as an overall factor -/
theorem avzShower_dist (amp tev pw mhz energy dist theta thc width f : ℝ) :
    avzShower amp tev pw mhz energy dist theta thc width f
      = dist⁻¹ * avzShower amp tev pw mhz energy 1 theta thc width f := by
  unfold avzShower
  simp only [div_one]
  ring

theorem avzSpectrum_dist (M : ℕ) (freq : ℕ → ℝ) (E em had dist theta thc : ℝ) (k : ℕ) :
    avzSpectrum M freq E em had dist theta thc k = dist⁻¹ * avzSpectrum M freq E em had 1 theta thc k := by
  unfold avzSpectrum
  simp only []
  rw [avzShower_dist Askc.avz_em_amp, avzShower_dist Askc.avz_had_amp]
  split_ifs <;> ring

theorem avz_scale_dist (times : List ℝ) (E em had psi dist n t0 : ℝ) :
    avzValues times E em had psi dist n t0
      = (avzValues times E em had psi 1 n t0).map (fun v => dist⁻¹ * v) := by
  unfold avzValues
  simp only []
  rw [← avzPlace_scale, ← avzCentred_scale]
  congr 1
  apply avzCentred_congr
  intro k
  rw [avzSpectrum_dist]

theorem avz_joint_shift (times : List ℝ) (E em had psi dist n t0 s : ℝ) (h : 2 ≤ times.length) :
    avzValues (times.map (· + s)) E em had psi dist n (t0 + s) = avzValues times E em had psi dist n t0 := by
  unfold avzValues
  simp only [List.length_map, gridDt_shift times s h, first_shift times s (by omega),
    add_sub_add_right_eq_sub]

end PyrexR
