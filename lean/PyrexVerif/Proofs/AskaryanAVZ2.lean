import PyrexVerif.Proofs.AskaryanAVZ
/-! AVZ: whole-sample move, zero energy, linearity on the cone -/
open PyrexR PyrexGen
namespace PyrexR

theorem map_zero_mul (xs : List ℝ) : xs.map (fun v => (0 : ℝ) * v) = zerosL xs.length := by
  unfold zerosL
  rw [List.eq_replicate_iff]
  constructor
  · simp
  · intro b hb
    rw [List.mem_map] at hb
    obtain ⟨a, _, rfl⟩ := hb
    ring

theorem take_askRoll_length (trace : List ℝ) (s : ℤ) :
    ((askRoll (trace ++ zerosL trace.length) s).take trace.length).length = trace.length := by
  rw [List.length_take, askRoll_length, List.length_append, zerosL_length]
  omega

theorem tail_length (c : Prop) [Decidable c] (p : List ℝ) (e : ℝ) :
    (if c then p ++ [e] else p).length = if c then p.length + 1 else p.length := by
  split_ifs <;> simp

theorem avzPlace_length (N : ℕ) (trace : List ℝ) (x : ℝ) :
    (avzPlace N trace x).length = if trace.length + 1 = N then trace.length + 1 else trace.length := by
  unfold avzPlace
  simp only []
  have hp : (if (Rfloor x - ((trace.length / 2 : ℕ) : ℤ)).natAbs > trace.length then zerosL trace.length
      else (askRoll (trace ++ zerosL trace.length) (Rfloor x - ((trace.length / 2 : ℕ) : ℤ))).take trace.length).length
      = trace.length := by
    split_ifs
    · exact zerosL_length _
    · exact take_askRoll_length _ _
  rw [tail_length, hp]

theorem avzValues_length (times : List ℝ) (E em had psi dist n t0 : ℝ) :
    (avzValues times E em had psi dist n t0).length = times.length := by
  unfold avzValues
  simp only []
  rw [avzPlace_length, avzCentred_length]
  split_ifs <;> omega

theorem getD_tail (c : Prop) [Decidable c] (p : List ℝ) (e : ℝ) (i : ℕ) (h : i < p.length) :
    (if c then p ++ [e] else p).getD i 0 = p.getD i 0 := by
  split_ifs
  · simp [List.getD_eq_getElem?_getD, List.getElem?_append_left h]
  · rfl

theorem getD_take_askRoll (trace : List ℝ) (s : ℤ) (i : ℕ) (h : i < trace.length) :
    ((askRoll (trace ++ zerosL trace.length) s).take trace.length).getD i 0
      = (trace ++ zerosL trace.length).getD ((((i : ℕ) : ℤ) - s) % ((2 * trace.length : ℕ) : ℤ)).toNat 0 := by
  have hlen : (trace ++ zerosL trace.length).length = 2 * trace.length := by
    rw [List.length_append, zerosL_length]; omega
  have h2 : i < (trace ++ zerosL trace.length).length := by omega
  rw [← hlen, ← askRoll_getD _ _ _ h2]
  simp [List.getD_eq_getElem?_getD, h]

/-- roll/crop lemma: moving the placement by `m` whole samples moves every sample that stays inside -/
theorem avzPlace_move (N : ℕ) (trace : List ℝ) (x : ℝ) (m i : ℕ) (hmi : m ≤ i) (hi : i < trace.length)
    (h1 : ¬ (Rfloor x - ((trace.length / 2 : ℕ) : ℤ)).natAbs > trace.length)
    (h2 : ¬ (Rfloor (x + m) - ((trace.length / 2 : ℕ) : ℤ)).natAbs > trace.length) :
    (avzPlace N trace (x + m)).getD i 0 = (avzPlace N trace x).getD (i - m) 0 := by
  unfold avzPlace
  simp only []
  rw [if_neg h1, if_neg h2]
  have hi' : i - m < trace.length := by omega
  rw [getD_tail _ _ _ _ (by rw [take_askRoll_length]; exact hi),
      getD_tail _ _ _ _ (by rw [take_askRoll_length]; exact hi'),
      getD_take_askRoll _ _ _ hi, getD_take_askRoll _ _ _ hi']
  congr 2
  have : Rfloor (x + (m : ℝ)) = Rfloor x + (m : ℤ) := by
    simp only [Rfloor]
    exact Int.floor_add_natCast x m
  rw [this, Nat.cast_sub hmi]
  ring_nf

/-- `np.round(·, 6)` commutes with adding a whole number of samples -/
theorem askRound6_add_nat (q : ℝ) (m : ℕ) : askRound6 (q + m) = askRound6 q + m := by
  unfold askRound6
  simp only [Rfloor, RofInt]
  have : (q + (m : ℝ)) * 1000000 + 0.5 = (q * 1000000 + 0.5) + ((m * 1000000 : ℕ) : ℝ) := by
    push_cast; ring
  rw [this, Int.floor_add_natCast]
  push_cast
  ring

/-- the repair F21: within half a micro-sample of a whole sample `k` the rounded quotient is exactly `k`, so its
floor is `k` (whereas `⌊k - ε⌋ = k - 1` for every `0 < ε ≤ 1`) -/
theorem floor_askRound6_near_int (k : ℤ) (e : ℝ) (h1 : -(5e-7 : ℝ) ≤ e) (h2 : e < 5e-7) :
    Rfloor (askRound6 ((k : ℝ) + e)) = k := by
  unfold askRound6
  simp only [Rfloor, RofInt]
  have hf : ⌊((k : ℝ) + e) * 1000000 + 0.5⌋ = k * 1000000 := by
    rw [Int.floor_eq_iff]
    push_cast
    constructor <;> nlinarith
  rw [hf]
  push_cast
  rw [mul_div_assoc, div_self (by norm_num), mul_one]
  exact Int.floor_intCast k

theorem floor_sub_small (k : ℤ) (e : ℝ) (h1 : 0 < e) (h2 : e ≤ 1) : Rfloor ((k : ℝ) - e) = k - 1 := by
  simp only [Rfloor]
  rw [Int.floor_eq_iff]
  push_cast
  constructor <;> linarith

theorem avz_move (times : List ℝ) (E em had psi dist n t0 : ℝ) (m i : ℕ)
    (hdt : gridDt times ≠ 0) (hmi : m ≤ i) (hi : i < 2 * (times.length / 2))
    (h1 : ¬ (Rfloor (askRound6 ((t0 - times.getD 0 0) / gridDt times))
              - ((2 * (times.length / 2) / 2 : ℕ) : ℤ)).natAbs > 2 * (times.length / 2))
    (h2 : ¬ (Rfloor (askRound6 ((t0 + m * gridDt times - times.getD 0 0) / gridDt times))
              - ((2 * (times.length / 2) / 2 : ℕ) : ℤ)).natAbs > 2 * (times.length / 2)) :
    (avzValues times E em had psi dist n (t0 + m * gridDt times)).getD i 0
      = (avzValues times E em had psi dist n t0).getD (i - m) 0 := by
  unfold avzValues
  simp only []
  have hx : (t0 + m * gridDt times - times.getD 0 0) / gridDt times
      = (t0 - times.getD 0 0) / gridDt times + (m : ℝ) := by
    field_simp
    ring
  rw [hx, askRound6_add_nat] at h2 ⊢
  apply avzPlace_move
  · exact hmi
  · rw [avzCentred_length]; exact hi
  · rw [avzCentred_length]; exact h1
  · rw [avzCentred_length]; exact h2

/-! zero energy -/
theorem avzShower_zero (amp tev pw mhz dist theta thc width f : ℝ) :
    avzShower amp tev pw mhz 0 dist theta thc width f = 0 := by
  unfold avzShower
  simp

theorem avzSpectrum_zero (M : ℕ) (freq : ℕ → ℝ) (E em had dist theta thc : ℝ) (k : ℕ)
    (h1 : E * em = 0) (h2 : E * had = 0) : avzSpectrum M freq E em had dist theta thc k = 0 := by
  unfold avzSpectrum
  simp only [h1, h2, avzShower_zero]
  simp

theorem avz_zero_energy (times : List ℝ) (E em had psi dist n t0 : ℝ) (h1 : E * em = 0) (h2 : E * had = 0) :
    avzValues times E em had psi dist n t0 = zerosL times.length := by
  have hl := avzValues_length times E em had psi dist n t0
  unfold avzValues at hl ⊢
  simp only [] at hl ⊢
  have hs : avzSpectrum (times.length / 2 + 1) (askRfftfreq times.length (gridDt times)) E em had dist (Rabs psi) (thetaC n)
      = fun k => 0 * avzSpectrum (times.length / 2 + 1) (askRfftfreq times.length (gridDt times)) E em had dist (Rabs psi) (thetaC n) k := by
    funext k
    rw [avzSpectrum_zero _ _ _ _ _ _ _ _ _ h1 h2]; ring
  rw [hs, avzCentred_scale, avzPlace_scale, map_zero_mul]
  rw [hs, avzCentred_scale, avzPlace_scale, List.length_map] at hl
  rw [hl]

/-! linearity in the energy for an EM shower seen on the cone -/
theorem avzShower_oncone (amp tev pw mhz energy dist thc width f : ℝ) :
    avzShower amp tev pw mhz energy dist thc thc width f
      = energy * (amp / tev * f / Askc.avz_f0 / (1 + Rpow (f / Askc.avz_f0) pw) / mhz * (Rsin thc / Rsin thc) / dist) := by
  unfold avzShower avzConeFactor
  simp only [sub_self, zero_div, mul_zero, Rexp, Real.exp_zero]
  ring

theorem avzSpectrum_oncone_linear (M : ℕ) (freq : ℕ → ℝ) (lam E em dist thc : ℝ) (k : ℕ) :
    avzSpectrum M freq (lam * E) em 0 dist thc thc k = lam * avzSpectrum M freq E em 0 dist thc thc k := by
  unfold avzSpectrum
  simp only [lt_irrefl, false_and, if_false, avzShower_oncone]
  split_ifs <;> ring

theorem avz_oncone_linear (times : List ℝ) (lam E em psi dist n t0 : ℝ) (hpsi : Rabs psi = thetaC n) :
    avzValues times (lam * E) em 0 psi dist n t0 = (avzValues times E em 0 psi dist n t0).map (fun v => lam * v) := by
  unfold avzValues
  simp only [hpsi]
  rw [← avzPlace_scale, ← avzCentred_scale]
  congr 1
  apply avzCentred_congr
  intro k
  rw [avzSpectrum_oncone_linear]

/-- `not (np.abs(shift) > len(trace))` in `AVZAskaryanSignal.get_signal` (`len(trace) = 2⌊N/2⌋`) -/
def avzInRange (times : List ℝ) (t0 : ℝ) : Prop :=
  ¬ (Rfloor (askRound6 ((t0 - times.getD 0 0) / gridDt times)) - ((2 * (times.length / 2) / 2 : ℕ) : ℤ)).natAbs
      > 2 * (times.length / 2)

end PyrexR
