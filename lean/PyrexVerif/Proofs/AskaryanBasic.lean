import PyrexVerif.R.Askaryan
import Mathlib.Algebra.BigOperators.Group.Finset.Basic
import Mathlib.Algebra.BigOperators.Ring.Finset
import Mathlib.Algebra.BigOperators.Field
import Mathlib.Tactic.Ring
import Mathlib.Tactic.FieldSimp
import Mathlib.Tactic.Linarith
/-! Helper lemmas for C07: sums, tabulated lists, `roll`, index-function arrays. -/
open PyrexR
namespace PyrexR

theorem sumN_eq_sum (n : ℕ) (f : ℕ → ℝ) : sumN n f = ∑ k ∈ Finset.range n, f k := by
  unfold sumN
  induction n with
  | zero => simp
  | succ n ih => rw [List.range_succ, List.foldl_append, ih, Finset.sum_range_succ]; simp

theorem sumN_congr {n : ℕ} {f g : ℕ → ℝ} (h : ∀ k, k < n → f k = g k) : sumN n f = sumN n g := by
  rw [sumN_eq_sum, sumN_eq_sum]
  exact Finset.sum_congr rfl (fun k hk => h k (Finset.mem_range.mp hk))

theorem sumN_mul_left (n : ℕ) (c : ℝ) (f : ℕ → ℝ) : sumN n (fun k => c * f k) = c * sumN n f := by
  rw [sumN_eq_sum, sumN_eq_sum, Finset.mul_sum]

theorem sumN_zero (n : ℕ) : sumN n (fun _ => (0 : ℝ)) = 0 := by
  rw [sumN_eq_sum]; simp

theorem tab_length (n : ℕ) (f : ℕ → ℝ) : (tab n f).length = n := by simp [tab]

theorem tab_getElem (n : ℕ) (f : ℕ → ℝ) (i : ℕ) (h : i < (tab n f).length) : (tab n f)[i] = f i := by
  simp [tab]

theorem tab_getD (n : ℕ) (f : ℕ → ℝ) (i : ℕ) (h : i < n) : (tab n f).getD i 0 = f i := by
  simp [tab, List.getD_eq_getElem?_getD, h]

theorem tab_congr {n : ℕ} {f g : ℕ → ℝ} (h : ∀ i, i < n → f i = g i) : tab n f = tab n g := by
  unfold tab
  apply List.map_congr_left
  intro i hi
  exact h i (List.mem_range.mp hi)

theorem tab_map (n : ℕ) (f : ℕ → ℝ) (g : ℝ → ℝ) : (tab n f).map g = tab n (fun i => g (f i)) := by
  simp [tab, Function.comp_def]

theorem tab_zero (n : ℕ) : tab n (fun _ => (0 : ℝ)) = zerosL n := by
  simp [tab, zerosL]

theorem zerosL_map_mul (n : ℕ) (c : ℝ) : (zerosL n).map (fun v => c * v) = zerosL n := by
  simp [zerosL]

theorem zerosL_length (n : ℕ) : (zerosL n).length = n := by simp [zerosL]

end PyrexR

namespace PyrexR

theorem zerosL_getD (n i : ℕ) : (zerosL n).getD i 0 = 0 := by
  simp only [zerosL, List.getD_eq_getElem?_getD, List.getElem?_replicate]
  split_ifs <;> simp

theorem ask_getD_map_mul (xs : List ℝ) (c : ℝ) (i : ℕ) : (xs.map (fun v => c * v)).getD i 0 = c * xs.getD i 0 := by
  by_cases h : i < xs.length
  · simp [List.getD_eq_getElem?_getD, h]
  · have h' : xs.length ≤ i := Nat.le_of_not_lt h
    simp [List.getD_eq_getElem?_getD, h']

theorem askRoll_length (xs : List ℝ) (s : ℤ) : (askRoll xs s).length = xs.length := by
  simp [askRoll, tab]

theorem askRoll_getD (xs : List ℝ) (s : ℤ) (i : ℕ) (h : i < xs.length) :
    (askRoll xs s).getD i 0 = xs.getD ((((i : ℕ) : ℤ) - s) % ((xs.length : ℕ) : ℤ)).toNat 0 := by
  unfold askRoll
  rw [tab_getD _ _ _ h]

theorem askRoll_map_mul (xs : List ℝ) (c : ℝ) (s : ℤ) :
    askRoll (xs.map (fun v => c * v)) s = (askRoll xs s).map (fun v => c * v) := by
  unfold askRoll
  rw [List.length_map, tab_map]
  apply tab_congr
  intro i _
  rw [ask_getD_map_mul]

theorem askRoll_zeros (n : ℕ) (s : ℤ) : askRoll (zerosL n) s = zerosL n := by
  unfold askRoll
  rw [zerosL_length, ← tab_zero]
  apply tab_congr
  intro i _
  rw [tab_zero, zerosL_getD]

end PyrexR
