import PyrexVerif.Proofs.AskaryanBasic
import Mathlib.Analysis.SpecialFunctions.Trigonometric.Inverse
import Mathlib.Analysis.SpecialFunctions.Exp
import Mathlib.Tactic.Positivity
/-! Cone factors and the time-compression factor -/
open PyrexR PyrexGen
namespace PyrexR

/-- a Gaussian-type factor `exp(-c x²)` is `1` at `0` and strictly decreasing in `|x|` -/
theorem gauss_one (c : ℝ) : Real.exp (-c * ((0 : ℝ) * 0)) = 1 := by simp

theorem gauss_strict (c : ℝ) (hc : 0 < c) (a b : ℝ) (h : |a| < |b|) :
    Real.exp (-c * (b * b)) < Real.exp (-c * (a * a)) := by
  apply Real.exp_lt_exp.mpr
  have h1 : a * a < b * b := by
    rw [← abs_mul_abs_self a, ← abs_mul_abs_self b]
    exact mul_self_lt_mul_self (abs_nonneg a) h
  nlinarith

theorem cos_thetaC (n : ℝ) (hn : 1 < n) : Real.cos (thetaC n) = 1 / n := by
  unfold thetaC
  have hpos : 0 < n := by linarith
  have h1 : 1 / n ≤ 1 := by rw [div_le_one hpos]; linarith
  have h2 : -1 ≤ 1 / n := by
    have : 0 < 1 / n := by positivity
    linarith
  exact Real.cos_arccos h2 h1

theorem thetaC_mem (n : ℝ) : 0 ≤ thetaC n ∧ thetaC n ≤ Real.pi :=
  ⟨Real.arccos_nonneg _, Real.arccos_le_pi _⟩

theorem sin_thetaC_pos (n : ℝ) (hn : 1 < n) : 0 < Real.sin (thetaC n) := by
  unfold thetaC
  rw [Real.sin_arccos]
  apply Real.sqrt_pos.mpr
  have hpos : 0 < n := by linarith
  have : (1 / n) ^ 2 < 1 := by
    rw [div_pow, one_pow, div_lt_one (by positivity)]
    nlinarith
  linarith

theorem sqrt_thetaC_pos (n : ℝ) (hn : 1 < n) : 0 < Real.sqrt (1 - 1 / (n * n)) := by
  apply Real.sqrt_pos.mpr
  have hpos : 0 < n * n := by nlinarith
  have : 1 / (n * n) < 1 := by
    rw [div_lt_one hpos]; nlinarith
  linarith

/-- the time-compression factor `z_to_t = (1 - n cos θ)/c` -/
noncomputable def zToT (n theta : ℝ) : ℝ := (1 - n * Real.cos theta) / cLight

theorem cLight_pos : 0 < cLight := by unfold cLight; norm_num

theorem zToT_thetaC (n : ℝ) (hn : 1 < n) : zToT n (thetaC n) = 0 := by
  unfold zToT
  rw [cos_thetaC n hn]
  have : n ≠ 0 := by linarith
  field_simp
  simp

theorem zToT_strictMono (n : ℝ) (hn : 1 < n) (t1 t2 : ℝ) (h0 : 0 ≤ t1) (h12 : t1 < t2) (hpi : t2 ≤ Real.pi) :
    zToT n t1 < zToT n t2 := by
  unfold zToT
  have hcos : Real.cos t2 < Real.cos t1 :=
    Real.strictAntiOn_cos ⟨h0, by linarith⟩ ⟨by linarith, hpi⟩ h12
  apply div_lt_div_of_pos_right _ cLight_pos
  have : 0 < n := by linarith
  nlinarith

theorem zToT_ne_zero (n theta : ℝ) (hn : 1 < n) (h0 : 0 ≤ theta) (hpi : theta ≤ Real.pi)
    (hoff : onconeRange < |theta - Real.arccos (1 / n)|) (hr : 0 ≤ onconeRange) : zToT n theta ≠ 0 := by
  intro hz
  unfold zToT at hz
  have hc : (1 - n * Real.cos theta) = 0 := by
    rcases div_eq_zero_iff.mp hz with h | h
    · exact h
    · exact absurd h cLight_pos.ne'
  have hn0 : n ≠ 0 := by linarith
  have hcos : Real.cos theta = 1 / n := by
    field_simp
    linarith
  have : Real.arccos (1 / n) = theta := by
    rw [← hcos]; exact Real.arccos_cos h0 hpi
  rw [this, sub_self, abs_zero] at hoff
  linarith

end PyrexR
