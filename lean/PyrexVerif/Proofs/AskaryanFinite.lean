import PyrexVerif.Proofs.AskaryanCone
import Mathlib.Analysis.SpecialFunctions.Pow.Real
import Mathlib.Analysis.SpecialFunctions.Log.Basic
import Mathlib.Analysis.SpecialFunctions.Sqrt
import Mathlib.Tactic.NormNum
/-! Non-vanishing of the denominators of the three models -/
open PyrexR PyrexGen
namespace PyrexR

theorem askRadians_pos (d : ℝ) (hd : 0 < d) : 0 < askRadians d := by
  unfold askRadians
  have := Real.pi_pos
  positivity

/-! ZHS -/
theorem zhs_nu0_pos : (0 : ℝ) < Askc.zhs_nu0 := by simp only [Askc.zhs_nu0]; norm_num
theorem zhs_denominator_pos (r : ℝ) : 0 < 1 + (Askc.zhs_q : ℝ) * (r * r) := by
  simp only [Askc.zhs_q]
  nlinarith [mul_self_nonneg r]
theorem zhs_width_pos : 0 < askRadians (Askc.zhs_width_deg : ℝ) := by
  apply askRadians_pos; simp only [Askc.zhs_width_deg]; norm_num
theorem zhs_half_pos : (0 : ℝ) < Askc.zhs_half := by simp only [Askc.zhs_half]; norm_num

/-! AVZ -/
theorem askRfftfreq_pos (N : ℕ) (dt : ℝ) (k : ℕ) (hN : 0 < N) (hdt : 0 < dt) (hk : 0 < k) : 0 < askRfftfreq N dt k := by
  unfold askRfftfreq
  simp only [RofNat]
  have h1 : (0 : ℝ) < N := by exact_mod_cast hN
  have h2 : (0 : ℝ) < k := by exact_mod_cast hk
  positivity

theorem avz_f0_pos : (0 : ℝ) < Askc.avz_f0 := by simp only [Askc.avz_f0]; norm_num

theorem avz_denominator_pos (f pw : ℝ) (hf : 0 < f) : 0 < 1 + Rpow (f / Askc.avz_f0) pw := by
  have : 0 < f / (Askc.avz_f0 : ℝ) := div_pos hf avz_f0_pos
  have := Real.rpow_pos_of_pos this pw
  simp only [Rpow]
  linarith

theorem avzWidthEM_pos (emE f : ℝ) (hE : 0 ≤ emE) (hf : 0 < f) : 0 < avzWidthEM emE f := by
  unfold avzWidthEM
  have hw : 0 < askRadians (Askc.avz_em_width_deg : ℝ) := by
    apply askRadians_pos; simp only [Askc.avz_em_width_deg]; norm_num
  have hr : (0 : ℝ) < Askc.avz_em_fref := by simp only [Askc.avz_em_fref]; norm_num
  have hl : (0 : ℝ) < Askc.avz_Elpm := by simp only [Askc.avz_Elpm]; norm_num
  have hden : (0 : ℝ) < Askc.avz_lpm_a * emE * Askc.avz_gev_to_ev + Askc.avz_Elpm := by
    simp only [Askc.avz_lpm_a, Askc.avz_gev_to_ev]
    nlinarith
  have hb : 0 < (Askc.avz_Elpm : ℝ) / (Askc.avz_lpm_a * emE * Askc.avz_gev_to_ev + Askc.avz_Elpm) :=
    div_pos hl hden
  have hp := Real.rpow_pos_of_pos hb (Askc.avz_lpm_pow : ℝ)
  simp only [Rpow]
  positivity

theorem avzHadCoef_pos (hadE : ℝ) (hne : ¬(hadE ≤ 0 ∧ 0 ≤ hadE))
    (heps : 0 ≤ askLog10 (hadE / Askc.avz_eps_ref)) : 0 < avzHadCoef hadE := by
  unfold avzHadCoef
  rw [if_neg hne]
  simp only []
  set eps := askLog10 (hadE / Askc.avz_eps_ref) with he
  simp only [Askc.avz_h1_c0, Askc.avz_h1_c1, Askc.avz_h1_c2, Askc.avz_h2_c0, Askc.avz_h2_c1, Askc.avz_h3_c0,
    Askc.avz_h3_c1, Askc.avz_h3_c2, Askc.avz_h4_c0, Askc.avz_h4_c1, Askc.avz_h4_c2, Askc.avz_h4_slope]
  split_ifs with h1 h2 h3 h4
  · nlinarith [sq_nonneg (eps - 2.2)]
  · linarith [h2.2]
  · nlinarith [sq_nonneg (eps - 7.136)]
  · have : 0 < 1 + (eps - 7) * 0.075 := by nlinarith
    have h0 : (0 : ℝ) < 4.23 - 0.785 * 7 + 5.5e-2 * 49 := by norm_num
    positivity
  · exfalso
    by_cases a : eps ≤ 2
    · exact h1 ⟨heps, a⟩
    · by_cases b : eps ≤ 5
      · exact h2 ⟨by linarith, b⟩
      · by_cases c : eps ≤ 7
        · exact h3 ⟨by linarith, c⟩
        · exact h4 (by linarith)

theorem avzWidthHad_pos (hadE f : ℝ) (hne : ¬(hadE ≤ 0 ∧ 0 ≤ hadE))
    (heps : 0 ≤ askLog10 (hadE / Askc.avz_eps_ref)) (hf : 0 < f) : 0 < avzWidthHad hadE f := by
  unfold avzWidthHad
  apply askRadians_pos
  have hr : (0 : ℝ) < Askc.avz_h1_fref := by simp only [Askc.avz_h1_fref]; norm_num
  have := avzHadCoef_pos hadE hne heps
  positivity

/-! ARZ -/
theorem maxLength_pos (energy : ℝ) (hE : (Askc.maxlen_crit : ℝ) < energy) : 0 < maxLength energy := by
  unfold maxLength
  simp only [Rlog]
  have hc : (0 : ℝ) < Askc.maxlen_crit := by simp only [Askc.maxlen_crit]; norm_num
  have h1 : 1 < energy / (Askc.maxlen_crit : ℝ) := by rw [one_lt_div hc]; exact hE
  have hl : 0 < Real.log (energy / (Askc.maxlen_crit : ℝ)) := Real.log_pos h1
  have hl2 : 0 < Real.log 2 := Real.log_pos (by norm_num)
  have a : (0 : ℝ) < Askc.maxlen_radlen := by simp only [Askc.maxlen_radlen]; norm_num
  have b : (0 : ℝ) < Askc.maxlen_cm := by simp only [Askc.maxlen_cm]; norm_num
  have c : (0 : ℝ) < Askc.maxlen_density := by simp only [Askc.maxlen_density]; norm_num
  positivity

theorem rtrunc_nonneg (x : ℝ) (hx : 0 ≤ x) : 0 ≤ Rtrunc x := by
  simp only [Rtrunc, if_pos hx]
  exact Int.floor_nonneg.mpr hx

theorem arzIdx_dtDiv_pos (N : ℕ) (dt tStart maxLen zToT : ℝ) : 1 ≤ (arzIdx N dt tStart maxLen zToT).dtDiv := by
  unfold arzIdx
  simp only []
  have := rtrunc_nonneg (Rabs (dt / Askc.arz_rac_step)) (abs_nonneg _)
  omega

theorem emProfile_pos (z energy : ℝ) (hz : 0 < z) (hE : (Askc.emprof_crit : ℝ) < energy) :
    0 < emProfile z energy := by
  unfold emProfile
  rw [if_neg (not_le.mpr hE)]
  simp only [if_pos hz, Rexp, Rsqrt, Rlog]
  have hc : (0 : ℝ) < Askc.emprof_crit := by simp only [Askc.emprof_crit]; norm_num
  have h1 : 1 < energy / (Askc.emprof_crit : ℝ) := by rw [one_lt_div hc]; exact hE
  have hl : 0 < Real.log (energy / (Askc.emprof_crit : ℝ)) := Real.log_pos h1
  have hs := Real.sqrt_pos.mpr hl
  have ha : (0 : ℝ) < Askc.emprof_amp := by simp only [Askc.emprof_amp]; norm_num
  have he := Real.exp_pos (100 * z * (Askc.emprof_density : ℝ) / Askc.emprof_radlen *
    (1 - Askc.emprof_age * Real.log (3 * (100 * z * (Askc.emprof_density : ℝ) / Askc.emprof_radlen) /
      (100 * z * (Askc.emprof_density : ℝ) / Askc.emprof_radlen + 2 * Real.log (energy / (Askc.emprof_crit : ℝ))))))
  positivity

/-- the Gaisser-Hillas profile is positive when `X_max` exceeds the interaction length (shower energy above
2.96 GeV); below that the code raises a negative number to a fractional power (finding K6) -/
theorem hadProfile_pos (z energy : ℝ) (hz : 0 < z) (hE : (Askc.hadprof_crit : ℝ) < energy)
    (hX : (Askc.hadprof_intlen : ℝ) < Askc.hadprof_radlen * Rlog (energy / Askc.hadprof_crit)) :
    0 < hadProfile z energy := by
  unfold hadProfile
  rw [if_neg (not_le.mpr hE)]
  simp only [if_pos hz, Rexp, Rpow, Rlog] at hX ⊢
  have hc : (0 : ℝ) < Askc.hadprof_crit := by simp only [Askc.hadprof_crit]; norm_num
  have hi : (0 : ℝ) < Askc.hadprof_intlen := by simp only [Askc.hadprof_intlen]; norm_num
  have hd : (0 : ℝ) < Askc.hadprof_density := by simp only [Askc.hadprof_density]; norm_num
  have hs : (0 : ℝ) < Askc.hadprof_scale := by simp only [Askc.hadprof_scale]; norm_num
  have he : 0 < energy / (Askc.hadprof_crit : ℝ) := div_pos (by linarith) hc
  set xMax := (Askc.hadprof_radlen : ℝ) * Real.log (energy / Askc.hadprof_crit) with hx
  have hxm : 0 < xMax := by linarith
  have hdiff : 0 < xMax - Askc.hadprof_intlen := by linarith
  have hbase : 0 < 100 * z * (Askc.hadprof_density : ℝ) / (xMax - Askc.hadprof_intlen) := by positivity
  have hp := Real.rpow_pos_of_pos hbase (xMax / Askc.hadprof_intlen)
  have hexp := Real.exp_pos ((xMax - 100 * z * (Askc.hadprof_density : ℝ)) / Askc.hadprof_intlen - 1)
  positivity

/-- trapezoid sum of a non-negative array with a positive interior sample is positive -/
theorem trapz_pos (Q : Arr) (dx : ℝ) (hdx : 0 < dx) (hQ : ∀ i, i < Q.len → 0 ≤ Q.get i)
    (i0 : ℕ) (hi0 : i0 + 1 < Q.len) (hpos : 0 < Q.get i0) : 0 < Q.trapz dx := by
  unfold Arr.trapz
  rw [sumN_eq_sum]
  apply Finset.sum_pos'
  · intro i hi
    have hi' := Finset.mem_range.mp hi
    have a := hQ i (by omega)
    have b := hQ (i + 1) (by omega)
    positivity
  · refine ⟨i0, Finset.mem_range.mpr (by omega), ?_⟩
    have b := hQ (i0 + 1) hi0
    positivity

theorem trapz_scale (Q : Arr) (dx : ℝ) : Q.trapz dx = dx * Q.trapz 1 := by
  unfold Arr.trapz
  rw [← sumN_mul_left]
  apply sumN_congr
  intro i _
  ring

theorem trapz_ne_zero (Q : Arr) (dx : ℝ) (hdx : dx ≠ 0) (hQ : ∀ i, i < Q.len → 0 ≤ Q.get i)
    (i0 : ℕ) (hi0 : i0 + 1 < Q.len) (hpos : 0 < Q.get i0) : Q.trapz dx ≠ 0 := by
  rw [trapz_scale]
  exact mul_ne_zero hdx (trapz_pos Q 1 one_pos hQ i0 hi0 hpos).ne'

end PyrexR
