import PyrexVerif.Proofs.AskaryanARZMove3
import PyrexVerif.Proofs.AskaryanAVZ2
import PyrexVerif.Proofs.AskaryanZHSMove
import Mathlib.Analysis.SpecialFunctions.Trigonometric.Inverse
import Mathlib.Analysis.SpecialFunctions.Sqrt
/-! Round-4 lemmas for C07: far-away shower times, the zero crossing of `int()`, an off-cone witness -/
open PyrexR PyrexGen
namespace PyrexR

/-- ZHS: a shower time outside the placement range gives the all-zero trace (`np.zeros(len(times))`) -/
theorem zhs_far_zero (times : List ℝ) (E em had psi dist n t0 : ℝ) (h : ¬ zhsInRange times t0) :
    zhsValues times E em had psi dist n t0 = zerosL times.length := by
  unfold zhsInRange at h
  rw [not_not] at h
  unfold zhsValues
  simp only []
  split_ifs
  · rfl
  · rfl

/-- AVZ: likewise, including the extrapolated last sample of odd-length grids (`2·0 - 0`) -/
theorem avz_far_zero (times : List ℝ) (E em had psi dist n t0 : ℝ) (h : ¬ avzInRange times t0) :
    avzValues times E em had psi dist n t0 = zerosL times.length := by
  unfold avzInRange at h
  rw [not_not] at h
  have hl := avzValues_length times E em had psi dist n t0
  unfold avzValues avzPlace at hl ⊢
  simp only [avzCentred_length] at hl ⊢
  rw [if_pos h] at hl ⊢
  split_ifs at hl ⊢ with hodd
  · rw [zerosL_getD, zerosL_getD]
    have : (2 : ℝ) * 0 - 0 = 0 := by ring
    rw [this]
    conv_rhs => rw [← hodd]
    simp [zerosL, List.replicate_succ']
  · rw [zerosL_length] at hl
    rw [hl]

/-- the zero crossing of `int()`: for a non-integer `x > 0` with `x - k < 0` truncation gives one more than a
pure shift would, `int(x - k) = int(x) - k + 1` -/
theorem rtrunc_sub_nat_crossing (x : ℝ) (k : ℕ) (hx : 0 < x) (hxk : x - k < 0) (hni : (⌊x⌋ : ℝ) ≠ x) :
    Rtrunc (x - k) = Rtrunc x - k + 1 := by
  simp only [Rtrunc]
  rw [if_pos hx.le, if_neg (not_le.mpr hxk), Int.ceil_sub_natCast]
  have hlt : (⌊x⌋ : ℝ) < x := lt_of_le_of_ne (Int.floor_le x) hni
  have : ⌈x⌉ = ⌊x⌋ + 1 := by
    rw [Int.ceil_eq_iff]
    constructor
    · push_cast; linarith
    · push_cast; linarith [Int.lt_floor_add_one x]
  rw [this]; ring

/-- … and then the RAC sampling grid of the moved shower is the old grid advanced by one sub-sample:
`t_RAC'[i+1] = t_RAC[i]` (one tail sample enters at the low end, one leaves at the high end) -/
theorem arz_tRAC_crossing (i : ℕ) (nShift d : ℤ) (m : ℕ) (dt zToT tStart : ℝ) (hd : (d : ℝ) ≠ 0) (hz : zToT ≠ 0) :
    RofInt (((i + 1 : ℕ) : ℤ) - (nShift - m * d + 1)) * (dt / RofInt d / zToT) * zToT + (tStart - m * dt)
      = RofInt ((i : ℤ) - nShift) * (dt / RofInt d / zToT) * zToT + tStart := by
  simp only [RofInt]
  push_cast
  field_simp
  ring

/-- an angle off the cone exists: the shower axis itself (`θ = 0`) for `n = 1.78` -/
theorem offcone_witness : ¬ Rabs ((0 : ℝ) - Racos (1 / 1.78)) ≤ onconeRange := by
  simp only [Rabs, Racos, zero_sub, abs_neg]
  have hpos : (0 : ℝ) ≤ Real.arccos (1 / 1.78) := Real.arccos_nonneg _
  rw [abs_of_nonneg hpos, not_le]
  have h4 : Real.pi / 4 < Real.arccos (1 / 1.78) := by
    by_contra hcon
    rw [not_lt] at hcon
    have hc : Real.cos (Real.pi / 4) ≤ Real.cos (Real.arccos (1 / 1.78)) :=
      Real.cos_le_cos_of_nonneg_of_le_pi hpos (by linarith [Real.pi_pos]) hcon
    rw [Real.cos_pi_div_four, Real.cos_arccos (by norm_num) (by norm_num)] at hc
    have hs : (1.2 : ℝ) < Real.sqrt 2 := by
      rw [show (1.2 : ℝ) = Real.sqrt (1.2 ^ 2) from (Real.sqrt_sq (by norm_num)).symm]
      exact Real.sqrt_lt_sqrt (by norm_num) (by norm_num)
    norm_num at hc
    linarith
  have h2 : Real.arccos ((1 - 10 * cLight * floatEps) / Askc.arz_oncone_n1) ≤ Real.pi / 2 := by
    rw [Real.arccos_le_pi_div_two]
    simp only [Askc.arz_oncone_n1, cLight, floatEps]
    norm_num
  unfold onconeRange
  simp only [Racos, Askc.arz_oncone_n2]
  linarith [Real.pi_pos]

end PyrexR
