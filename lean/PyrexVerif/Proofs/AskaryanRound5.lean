import PyrexVerif.Proofs.AskaryanRound4
import PyrexVerif.Proofs.AskaryanFinite
/-! Hypothesis-audit lemmas for C07: what happens at the points the other theorems exclude -/
open PyrexR PyrexGen
namespace PyrexR

theorem lt_rtrunc_add_one (x : ℝ) (hx : 0 ≤ x) : x < ((Rtrunc x + 1 : ℤ) : ℝ) := by
  simp only [Rtrunc, if_pos hx]
  push_cast
  exact Int.lt_floor_add_one x

/-- the number of sub-samples per sample exceeds `100·dt/(max_length·z_to_t)` in absolute value: it is unbounded
as `max_length → 0` (shower energy → critical energy) and as `z_to_t → 0` (angle → edge of the on-cone window) -/
theorem arzIdx_dtDiv_lower (N : ℕ) (dt tStart maxLen z : ℝ) :
    Rabs (100 * dt / maxLen / z) < (((arzIdx N dt tStart maxLen z).dtDiv : ℤ) : ℝ) := by
  unfold arzIdx
  simp only []
  have h := lt_rtrunc_add_one (Rabs (100 * dt / maxLen / z)) (abs_nonneg _)
  have hm : ((Rtrunc (Rabs (100 * dt / maxLen / z)) + 1 : ℤ) : ℝ)
      ≤ ((max (Rtrunc (Rabs (100 * dt / maxLen / z)) + 1) (Rtrunc (Rabs (dt / Askc.arz_rac_step)) + 1) : ℤ) : ℝ) := by
    exact_mod_cast le_max_left _ _
  linarith

/-- at the critical energy itself `max_length` is zero (the code divides by it) -/
theorem maxLength_crit : maxLength (Askc.maxlen_crit : ℝ) = 0 := by
  unfold maxLength
  have hc : (Askc.maxlen_crit : ℝ) ≠ 0 := by simp only [Askc.maxlen_crit]; norm_num
  simp [Rlog, div_self hc]

/-- `n_RAC = int(20 ns / (dt/dt_divider)) + 2 ≥ 2` whenever `dt > 0` -/
theorem arzIdx_nRAC_ge_two (N : ℕ) (dt tStart maxLen z : ℝ) (hdt : 0 < dt) (hz : z ≠ 0) :
    2 ≤ (arzIdx N dt tStart maxLen z).nRAC := by
  have hd := arzIdx_dtDiv_pos N dt tStart maxLen z
  unfold arzIdx at hd ⊢
  simp only [] at hd ⊢
  set d : ℤ := max (Rtrunc (Rabs (100 * dt / maxLen / z)) + 1) (Rtrunc (Rabs (dt / Askc.arz_rac_step)) + 1) with hdd
  have hdR : (0 : ℝ) < RofInt d := by
    simp only [RofInt]
    have : (0 : ℤ) < d := by omega
    exact_mod_cast this
  have harg : 0 ≤ 2 * (Askc.arz_t_tol : ℝ) / (dt / RofInt d / z) / z := by
    have : 2 * (Askc.arz_t_tol : ℝ) / (dt / RofInt d / z) / z = 2 * Askc.arz_t_tol * RofInt d / dt := by
      field_simp
    rw [this]
    have ht : (0 : ℝ) < Askc.arz_t_tol := by simp only [Askc.arz_t_tol]; norm_num
    positivity
  have := rtrunc_nonneg _ harg
  omega

/-- for index of refraction 1 (vertex above the surface) the Cherenkov angle is 0 and both `sin θ_c` and
`√(1-1/n²)` vanish: the AVZ and ARZ prefactors `sin θ / sin θ_c` are undefined (the code returns NaN) -/
theorem cone_undefined_at_index_one :
    thetaC 1 = 0 ∧ Rsin (thetaC 1) = 0 ∧ Rsqrt (1 - 1 / ((1 : ℝ) * 1)) = 0 := by
  have h : thetaC 1 = 0 := by simp [thetaC, Racos]
  refine ⟨h, by rw [h]; simp [Rsin], by simp [Rsqrt]⟩

theorem zhsAmp_pos (energy dist theta thc f : ℝ) (hE : 0 < energy) (hR : 0 < dist) (hf : f ≠ 0) :
    0 < zhsAmp energy dist theta thc f := by
  unfold zhsAmp zhsConeFactor
  simp only [Rexp]
  have hr : 0 < Rabs f / (Askc.zhs_nu0 : ℝ) := div_pos (abs_pos.mpr hf) zhs_nu0_pos
  have hd := zhs_denominator_pos (Rabs f / (Askc.zhs_nu0 : ℝ))
  have ha : (0 : ℝ) < Askc.zhs_amp := by simp only [Askc.zhs_amp]; norm_num
  have hm : (0 : ℝ) < Askc.zhs_mhz := by simp only [Askc.zhs_mhz]; norm_num
  have he := Real.exp_pos (-(Askc.zhs_half : ℝ) * ((theta - thc) * (Rabs f / Askc.zhs_nu0) / askRadians Askc.zhs_width_deg *
    ((theta - thc) * (Rabs f / Askc.zhs_nu0) / askRadians Askc.zhs_width_deg)))
  positivity

theorem zhsAmp_zero_freq (energy dist theta thc : ℝ) : zhsAmp energy dist theta thc 0 = 0 := by
  unfold zhsAmp
  simp [Rabs]

/-- K24 in the model: two-sample grid `[0, 1]`; the shower time `3` is the last one inside the placement range,
`4 = 3 + 1·dt` is outside; the moved trace is zero at sample 1 although the original sample 0 is not -/
theorem zhs_cut_breaks_move (E em had psi dist n : ℝ) (hE : 0 < E * (em + had)) (hR : 0 < dist) :
    zhsInRange [0, 1] 3 ∧ ¬ zhsInRange [0, 1] 4 ∧
    (zhsValues [0, 1] E em had psi dist n 4).getD 1 0 = 0 ∧
    (zhsValues [0, 1] E em had psi dist n 3).getD (1 - 1) 0 < 0 := by
  have hd : gridDt [0, (1 : ℝ)] = 1 := by simp [gridDt]
  have t3 : Rtrunc (3 : ℝ) = 3 := by
    simp only [Rtrunc]; rw [if_pos (by norm_num), Int.floor_eq_iff]; norm_num
  have t4 : Rtrunc (4 : ℝ) = 4 := by
    simp only [Rtrunc]; rw [if_pos (by norm_num), Int.floor_eq_iff]; norm_num
  have e3 : ((3 : ℝ) - [0, (1 : ℝ)].getD 0 0) / 1 = 3 := by simp
  have e4 : ((4 : ℝ) - [0, (1 : ℝ)].getD 0 0) / 1 = 4 := by simp
  have r3 : zhsInRange [0, 1] 3 := by unfold zhsInRange; rw [hd, e3, t3]; decide
  have r4 : ¬ zhsInRange [0, 1] 4 := by unfold zhsInRange; rw [hd, e4, t4, not_not]; decide
  refine ⟨r3, r4, ?_, ?_⟩
  · have := zhs_far_zero [0, 1] E em had psi dist n 4 r4
    rw [this, zerosL_getD]
  · unfold zhsInRange at r3
    unfold zhsValues
    simp only []
    have hne : ¬(E * (em + had) ≤ 0 ∧ 0 ≤ E * (em + had)) := fun h => absurd h.1 (not_le.mpr hE)
    rw [if_neg hne, if_neg r3]
    rw [tab_getD _ _ _ (by simp)]
    simp only [hd, List.length_cons, List.length_nil]
    have hτ : (3 : ℝ) - [0, (1 : ℝ)].getD 0 0 = 3 := by simp
    rw [hτ, div_one]
    unfold ifftShiftedRe
    rw [sumN_eq_sum]
    simp only [Finset.sum_range_succ, Finset.sum_range_zero, zero_add]
    have f0 : askFftfreq (2 * (0 + 1 + 1)) 1 0 = 0 := by simp [askFftfreq, RofNat]
    have f1 : askFftfreq (2 * (0 + 1 + 1)) 1 1 = 1 / 4 := by
      simp [askFftfreq, RofNat]
    have f2 : askFftfreq (2 * (0 + 1 + 1)) 1 2 = -1 / 2 := by
      simp [askFftfreq, RofNat, RofInt]; norm_num
    have f3 : askFftfreq (2 * (0 + 1 + 1)) 1 3 = -1 / 4 := by
      simp [askFftfreq, RofNat, RofInt]; norm_num
    rw [f0, f1, f2, f3, zhsAmp_zero_freq]
    simp only [RofNat, Rcos, Rsin, Rpi, Nat.cast_zero, mul_zero, zero_mul, zero_div, Real.cos_zero, Real.sin_zero,
      mul_one, sub_zero, neg_zero]
    have c1 : Real.cos (2 * Real.pi * (1 / 4) * 3) = 0 := by
      have : 2 * Real.pi * (1 / 4) * 3 = Real.pi / 2 + Real.pi := by ring
      rw [this, Real.cos_add_pi, Real.cos_pi_div_two, neg_zero]
    have c2 : Real.cos (2 * Real.pi * (-1 / 2) * 3) = -1 := by
      have : 2 * Real.pi * (-1 / 2) * 3 = -(Real.pi + 2 * Real.pi) := by ring
      rw [this, Real.cos_neg, Real.cos_add_two_pi, Real.cos_pi]
    have c3 : Real.cos (2 * Real.pi * (-1 / 4) * 3) = 0 := by
      have : 2 * Real.pi * (-1 / 4) * 3 = -(Real.pi / 2 + Real.pi) := by ring
      rw [this, Real.cos_neg, Real.cos_add_pi, Real.cos_pi_div_two, neg_zero]
    rw [c1, c2, c3]
    have hb := zhsAmp_pos (E * (em + had)) dist (Rabs psi) (thetaC n) (-1 / 2) hE hR (by norm_num)
    norm_num
    linarith

end PyrexR
