import PyrexVerif.Proofs.AskaryanBasic
import Mathlib.Analysis.SpecialFunctions.Trigonometric.Basic
/-! ZHS lemmas for C07 -/
open PyrexR
namespace PyrexR

theorem zhsAmp_dist (energy dist theta thc f : ℝ) :
    zhsAmp energy dist theta thc f = dist⁻¹ * zhsAmp energy 1 theta thc f := by
  unfold zhsAmp
  simp only [div_one]
  ring

theorem zhsAmp_energy (lam energy dist theta thc f : ℝ) :
    zhsAmp (lam * energy) dist theta thc f = lam * zhsAmp energy dist theta thc f := by
  unfold zhsAmp
  ring

theorem ifftShiftedRe_scale (n : ℕ) (freq amp : ℕ → ℝ) (c tau : ℝ) (j : ℕ) :
    ifftShiftedRe n freq (fun k => c * amp k) tau j = c * ifftShiftedRe n freq amp tau j := by
  unfold ifftShiftedRe
  rw [← mul_div_assoc, ← sumN_mul_left]
  congr 1
  apply sumN_congr
  intro k _
  ring

/-- the grid quantities that enter the three models are unchanged by a joint shift -/
theorem gridDt_shift (times : List ℝ) (s : ℝ) (h : 2 ≤ times.length) :
    gridDt (times.map (· + s)) = gridDt times := by
  unfold gridDt
  have h0 : 0 < times.length := by omega
  have h1 : 1 < times.length := by omega
  simp [List.getD_eq_getElem?_getD, h0, h1]

theorem first_shift (times : List ℝ) (s : ℝ) (h : 1 ≤ times.length) :
    (times.map (· + s)).getD 0 0 = times.getD 0 0 + s := by
  have h0 : 0 < times.length := by omega
  simp [List.getD_eq_getElem?_getD, h0]

theorem getD_shift (times : List ℝ) (s : ℝ) (i : ℕ) (h : i < times.length) :
    (times.map (· + s)).getD i 0 = times.getD i 0 + s := by
  simp [List.getD_eq_getElem?_getD, h]

theorem zhs_scale_dist (times : List ℝ) (E em had psi dist n t0 : ℝ) :
    zhsValues times E em had psi dist n t0
      = (zhsValues times E em had psi 1 n t0).map (fun v => dist⁻¹ * v) := by
  unfold zhsValues
  simp only []
  split_ifs
  · rw [zerosL_map_mul]
  · rw [zerosL_map_mul]
  · rw [tab_map]
    apply tab_congr
    intro j _
    rw [show (fun k => zhsAmp (E * (em + had)) dist (Rabs psi) (thetaC n) (askFftfreq (2 * times.length) (gridDt times) k))
        = (fun k => dist⁻¹ * zhsAmp (E * (em + had)) 1 (Rabs psi) (thetaC n) (askFftfreq (2 * times.length) (gridDt times) k))
        from funext (fun k => zhsAmp_dist _ _ _ _ _)]
    rw [ifftShiftedRe_scale]
    ring

theorem zhs_scale_energy (times : List ℝ) (lam E em had psi dist n t0 : ℝ) (hl : lam ≠ 0) :
    zhsValues times (lam * E) em had psi dist n t0
      = (zhsValues times E em had psi dist n t0).map (fun v => lam * v) := by
  unfold zhsValues
  simp only []
  have hz : (lam * E * (em + had) ≤ 0 ∧ 0 ≤ lam * E * (em + had)) ↔ (E * (em + had) ≤ 0 ∧ 0 ≤ E * (em + had)) := by
    constructor
    · intro ⟨a, b⟩
      have h0 : lam * (E * (em + had)) = 0 := by linarith [mul_assoc lam E (em + had)]
      rcases mul_eq_zero.mp h0 with h | h
      · exact absurd h hl
      · rw [h]; exact ⟨le_refl _, le_refl _⟩
    · intro ⟨a, b⟩
      have h0 : E * (em + had) = 0 := le_antisymm a b
      rw [mul_assoc, h0]; simp
  by_cases hE : (E * (em + had) ≤ 0 ∧ 0 ≤ E * (em + had))
  · rw [if_pos hE, if_pos (hz.mpr hE), zerosL_map_mul]
  · rw [if_neg hE, if_neg (fun h => hE (hz.mp h))]
    split_ifs
    · rw [zerosL_map_mul]
    · rw [tab_map]
      apply tab_congr
      intro j _
      rw [show (fun k => zhsAmp (lam * E * (em + had)) dist (Rabs psi) (thetaC n) (askFftfreq (2 * times.length) (gridDt times) k))
          = (fun k => lam * zhsAmp (E * (em + had)) dist (Rabs psi) (thetaC n) (askFftfreq (2 * times.length) (gridDt times) k))
          from funext (fun k => by rw [mul_assoc, zhsAmp_energy])]
      rw [ifftShiftedRe_scale]
      ring

theorem zhs_joint_shift (times : List ℝ) (E em had psi dist n t0 s : ℝ) (h : 2 ≤ times.length) :
    zhsValues (times.map (· + s)) E em had psi dist n (t0 + s) = zhsValues times E em had psi dist n t0 := by
  unfold zhsValues
  simp only [List.length_map, gridDt_shift times s h, first_shift times s (by omega),
    add_sub_add_right_eq_sub]

end PyrexR
