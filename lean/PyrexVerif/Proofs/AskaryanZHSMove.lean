import PyrexVerif.Proofs.AskaryanZHS
/-! DFT shift theorem for the ZHS inverse transform -/
open PyrexR
namespace PyrexR

theorem askFftfreq_even (N : ℕ) (hN : 0 < N) (d : ℝ) (k : ℕ) :
    askFftfreq (2 * N) d k = (if k < N then (k : ℝ) else (k : ℝ) - 2 * N) * (1 / ((2 * N : ℕ) * d)) := by
  unfold askFftfreq
  have : (2 * N - 1) / 2 + 1 = N := by omega
  rw [this]
  split_ifs <;> simp [RofNat, RofInt]

theorem ifft_term_move (N : ℕ) (hN : 0 < N) (dt : ℝ) (hdt : dt ≠ 0) (a tau : ℝ) (m j k : ℕ) (hj : m ≤ j) :
    (let ph := 2 * Real.pi * askFftfreq (2 * N) dt k * (tau + m * dt)
     let re := a * Real.cos ph
     let im := -(a * Real.sin ph)
     let w := 2 * Real.pi * (j : ℝ) * (k : ℝ) / ((2 * N : ℕ) : ℝ)
     re * Real.cos w - im * Real.sin w)
    = (let ph := 2 * Real.pi * askFftfreq (2 * N) dt k * tau
       let re := a * Real.cos ph
       let im := -(a * Real.sin ph)
       let w := 2 * Real.pi * ((j - m : ℕ) : ℝ) * (k : ℝ) / ((2 * N : ℕ) : ℝ)
       re * Real.cos w - im * Real.sin w) := by
  simp only []
  have hN' : ((2 * N : ℕ) : ℝ) ≠ 0 := by
    have : 0 < 2 * N := by omega
    exact_mod_cast this.ne'
  have e1 : ∀ ph w : ℝ, a * Real.cos ph * Real.cos w - -(a * Real.sin ph) * Real.sin w = a * Real.cos (w - ph) := by
    intro ph w; rw [Real.cos_sub]; ring
  rw [e1, e1]
  congr 1
  rw [askFftfreq_even N hN]
  have hjm : ((j - m : ℕ) : ℝ) = (j : ℝ) - (m : ℝ) := by
    rw [Nat.cast_sub hj]
  rw [hjm]
  by_cases hk : k < N
  · rw [if_pos hk]
    congr 1
    field_simp
    ring
  · rw [if_neg hk]
    have : 2 * Real.pi * (j : ℝ) * (k : ℝ) / ((2 * N : ℕ) : ℝ)
          - 2 * Real.pi * (((k : ℝ) - 2 * N) * (1 / (((2 * N : ℕ) : ℝ) * dt))) * (tau + m * dt)
        = (2 * Real.pi * ((j : ℝ) - (m : ℝ)) * (k : ℝ) / ((2 * N : ℕ) : ℝ)
          - 2 * Real.pi * (((k : ℝ) - 2 * N) * (1 / (((2 * N : ℕ) : ℝ) * dt))) * tau) + (m : ℕ) * (2 * Real.pi) := by
      have h2 : ((2 * N : ℕ) : ℝ) = 2 * (N : ℝ) := by push_cast; ring
      rw [h2] at hN' ⊢
      field_simp
      ring
    rw [this, Real.cos_add_nat_mul_two_pi]

theorem ifftShiftedRe_move (N : ℕ) (hN : 0 < N) (dt : ℝ) (hdt : dt ≠ 0) (amp : ℕ → ℝ) (tau : ℝ)
    (m j : ℕ) (hj : m ≤ j) :
    ifftShiftedRe (2 * N) (askFftfreq (2 * N) dt) amp (tau + m * dt) j
      = ifftShiftedRe (2 * N) (askFftfreq (2 * N) dt) amp tau (j - m) := by
  unfold ifftShiftedRe
  congr 1
  apply sumN_congr
  intro k _
  exact ifft_term_move N hN dt hdt (amp k) tau m j k hj

/-- `not (np.abs(shift) > len(times))` in `ZHSAskaryanSignal.get_signal` -/
def zhsInRange (times : List ℝ) (t0 : ℝ) : Prop :=
  ¬ (Rtrunc ((t0 - times.getD 0 0) / gridDt times) - ((times.length / 2 : ℕ) : ℤ)).natAbs > times.length

end PyrexR
