import PyrexVerif.D.Detector
/-! Nested `build_antennas` keyword routing: when every detector below a node shares one build
signature, every leaf receives exactly the caller's keywords. -/
namespace Det

mutual
theorem bsig_uniform (ps : List String) : (n : BNode) → uniformB ps n = true → bsig n = some ps
  | .leaf _ qs, h => by
      simp only [uniformB, beq_iff_eq] at h
      simp [bsig, h]
  | .comb s, h => by
      simp only [uniformB, Bool.and_eq_true, Bool.not_eq_true'] at h
      have hl := bsigL_uniform ps s h.2
      cases s with
      | nil => simp at h
      | cons x r =>
        simp only [bsig]
        rw [hl]
        simp [List.replicate]
theorem bsigL_uniform (ps : List String) : (s : List BNode) → uniformBL ps s = true →
    bsigL s = List.replicate s.length (some ps)
  | [], _ => by simp [bsigL]
  | n :: r, h => by
      simp only [uniformBL, Bool.and_eq_true] at h
      simp [bsigL, bsig_uniform ps n h.1, bsigL_uniform ps r h.2, List.replicate]
end

theorem sigsMatch_replicate (k : Nat) (x : Option (List String)) :
    sigsMatch (List.replicate k x) = true := by
  cases k with
  | zero => rfl
  | succ k => simp [List.replicate, sigsMatch]

mutual
theorem bbuild_uniform_ok (ps kw : List String) (hk : kw.all (ps.contains ·) = true) :
    (n : BNode) → uniformB ps n = true → bbuild n kw = some ((bleaves n).map (fun t => (t, kw)))
  | .leaf t qs, h => by
      simp only [uniformB, beq_iff_eq] at h
      subst h
      simp only [bbuild, bleaves, hk, if_true, List.map_cons, List.map_nil]
  | .comb s, h => by
      simp only [uniformB, Bool.and_eq_true, Bool.not_eq_true'] at h
      simp only [bbuild, bleaves]
      rw [bsigL_uniform ps s h.2, sigsMatch_replicate]
      exact bbuildL_uniform_ok ps kw hk s h.2
theorem bbuildL_uniform_ok (ps kw : List String) (hk : kw.all (ps.contains ·) = true) :
    (s : List BNode) → uniformBL ps s = true →
    bbuildL s true kw = some ((bleavesL s).map (fun t => (t, kw)))
  | [], _ => by simp [bbuildL, bleavesL]
  | n :: r, h => by
      simp only [uniformBL, Bool.and_eq_true] at h
      simp only [bbuildL, if_true, bleavesL]
      rw [bbuild_uniform_ok ps kw hk n h.1, bbuildL_uniform_ok ps kw hk r h.2]
      simp
end

mutual
theorem bbuild_uniform_err (ps kw : List String) (hk : kw.all (ps.contains ·) = false) :
    (n : BNode) → uniformB ps n = true → bbuild n kw = none
  | .leaf t qs, h => by
      simp only [uniformB, beq_iff_eq] at h
      subst h
      simp only [bbuild, hk]; rfl
  | .comb s, h => by
      simp only [uniformB, Bool.and_eq_true, Bool.not_eq_true'] at h
      simp only [bbuild]
      rw [bsigL_uniform ps s h.2, sigsMatch_replicate]
      cases s with
      | nil => simp at h
      | cons x r =>
        simp only [uniformBL, Bool.and_eq_true] at h
        simp only [bbuildL, if_true]
        rw [bbuild_uniform_err ps kw hk x h.2.1]
end

end Det
