import PyrexVerif.D.Detector
/-! The exact call semantics `Det.trig` (what the driver runs, with `TypeError` propagation and the
keyword-stripping retry loop) agrees with the structural any-hit model `Det.triggered` on every tree
whose detectors keep the default trigger, whenever it does not run out of fuel. -/
namespace Det

def allDefault : Node → Bool
  | .ant _ => true
  | .lst _ => true
  | .det _ s _ st => st && allDefaultL s
  | .comb s => allDefaultL s
where allDefaultL : List Node → Bool
  | [] => true
  | n :: r => allDefault n && allDefaultL r

/-- the run either ran out of fuel or returned `b` -/
def Agrees (res : R × Log) (b : Bool) : Prop := res.1 = .fuel ∨ res.1 = .ok b

private theorem contains_append_rmt (kw : List String) :
    (kw.filter (· ≠ rmt) ++ [rmt]).contains rmt = true := by simp

theorem trig_agrees : ∀ f : Nat,
    (∀ n kw mc, allDefault n = true → isDetector n = true →
        Agrees (trig f n kw mc) (triggered (mc && kw.contains rmt) n)) ∧
    (∀ c subs log, allDefault.allDefaultL subs = true → c.kwargs.contains rmt = true →
        Agrees (go f c subs log) (triggeredL c.mc subs)) ∧
    (∀ c sub k log, allDefault sub = true → isDetector sub = true → k.contains rmt = true →
        Agrees (retry f c sub k log) (triggered c.mc sub)) := by
  intro f
  induction f with
  | zero =>
    refine ⟨?_, ?_, ?_⟩
    · intro n kw mc _ _; left; simp [trig]
    · intro c subs log _ _; left; simp [go]
    · intro c sub k log _ _ _; left; simp [retry]
  | succ f ih =>
    obtain ⟨ihT, ihG, ihR⟩ := ih
    refine ⟨?_, ?_, ?_⟩
    · -- trig
      intro n kw mc hd hdet
      cases n with
      | ant a => simp [isDetector] at hdet
      | lst xs => simp [isDetector] at hdet
      | det tag s acc st =>
        simp only [allDefault, Bool.and_eq_true] at hd
        right
        simp [trig, hd.1, triggered, detMC]
      | comb subs =>
        simp only [allDefault] at hd
        simp only [trig, triggered]
        exact ihG _ subs [] hd (contains_append_rmt kw)
    · -- go
      intro c subs log hd hk
      cases subs with
      | nil => right; simp [go, triggeredL]
      | cons sub rest =>
        simp only [allDefault.allDefaultL, Bool.and_eq_true] at hd
        cases sub with
        | ant a =>
          simp only [go, triggeredL, triggered]
          by_cases h : hitOf c.mc a = true
          · right; simp [h]
          · have h' : hitOf c.mc a = false := by simpa using h
            simp only [h', Bool.false_eq_true, if_false, Bool.false_or]
            exact ihG c rest log hd.2 hk
        | lst xs =>
          simp only [go, triggeredL, triggered]
          by_cases h : xs.any (hitOf c.mc) = true
          · right; simp [h]
          · have h' : xs.any (hitOf c.mc) = false := by simpa using h
            simp only [h', Bool.false_eq_true, if_false, Bool.false_or]
            exact ihG c rest log hd.2 hk
        | det tag s acc st =>
          have hsub := ihT (.det tag s acc st) c.kwargs c.mc hd.1 rfl
          have hret := ihR c (.det tag s acc st) c.kwargs log hd.1 rfl hk
          simp only [hk, Bool.and_true] at hsub
          simp only [go, triggeredL]
          by_cases hs : c.same = true
          · simp only [hs, if_true]
            rcases hsub with hf | hok
            · left; revert hf; generalize trig f (.det tag s acc st) c.kwargs c.mc = res
              intro hf; obtain ⟨r, l⟩ := res; simp only at hf; subst hf; rfl
            · revert hok; generalize trig f (.det tag s acc st) c.kwargs c.mc = res
              intro hok; obtain ⟨r, l⟩ := res; simp only at hok; subst hok
              cases hb : triggered c.mc (.det tag s acc st)
              · simp only [Bool.false_or]; exact ihG c rest (log ++ l) hd.2 hk
              · right; simp
          · have hs' : c.same = false := by simpa using hs
            simp only [hs', Bool.false_eq_true, if_false]
            rcases hret with hf | hok
            · left; revert hf; generalize retry f c (.det tag s acc st) c.kwargs log = res
              intro hf; obtain ⟨r, l⟩ := res; simp only at hf; subst hf; rfl
            · revert hok; generalize retry f c (.det tag s acc st) c.kwargs log = res
              intro hok; obtain ⟨r, l⟩ := res; simp only at hok; subst hok
              cases hb : triggered c.mc (.det tag s acc st)
              · simp only [Bool.false_or]; exact ihG c rest l hd.2 hk
              · right; simp
        | comb s =>
          have hsub := ihT (.comb s) c.kwargs c.mc hd.1 rfl
          have hret := ihR c (.comb s) c.kwargs log hd.1 rfl hk
          simp only [hk, Bool.and_true] at hsub
          simp only [go, triggeredL]
          by_cases hs : c.same = true
          · simp only [hs, if_true]
            rcases hsub with hf | hok
            · left; revert hf; generalize trig f (.comb s) c.kwargs c.mc = res
              intro hf; obtain ⟨r, l⟩ := res; simp only at hf; subst hf; rfl
            · revert hok; generalize trig f (.comb s) c.kwargs c.mc = res
              intro hok; obtain ⟨r, l⟩ := res; simp only at hok; subst hok
              cases hb : triggered c.mc (.comb s)
              · simp only [Bool.false_or]; exact ihG c rest (log ++ l) hd.2 hk
              · right; simp
          · have hs' : c.same = false := by simpa using hs
            simp only [hs', Bool.false_eq_true, if_false]
            rcases hret with hf | hok
            · left; revert hf; generalize retry f c (.comb s) c.kwargs log = res
              intro hf; obtain ⟨r, l⟩ := res; simp only at hf; subst hf; rfl
            · revert hok; generalize retry f c (.comb s) c.kwargs log = res
              intro hok; obtain ⟨r, l⟩ := res; simp only at hok; subst hok
              cases hb : triggered c.mc (.comb s)
              · simp only [Bool.false_or]; exact ihG c rest l hd.2 hk
              · right; simp
    · -- retry
      intro c sub k log hd hdet hk
      have hsub := ihT sub k c.mc hd hdet
      simp only [hk, Bool.and_true] at hsub
      simp only [retry]
      rcases hsub with hf | hok
      · left; revert hf; generalize trig f sub k c.mc = res
        intro hf; obtain ⟨r, l⟩ := res; simp only at hf; subst hf; rfl
      · right; revert hok; generalize trig f sub k c.mc = res
        intro hok; obtain ⟨r, l⟩ := res; simp only at hok; subst hok; rfl

end Det
