import PyrexVerif.Proofs.DftModel
/-!
# `FunctionSignal._apply_filters` with one filter is `Signal.filter_frequencies`
-/
noncomputable section
namespace DftApply
open PyrexR

lemma cmul_one_left (r : Cx) : cmul ((1, 0) : Cx) r = r := by
  simp [cmul]

lemma zipWith_cmul_replicate_one : ∀ (n : ℕ) (l : List Cx), l.length ≤ n →
    List.zipWith cmul (List.replicate n ((1, 0) : Cx)) l = l
  | _, [], _ => by simp
  | 0, _ :: _, h => by simp at h
  | n + 1, r :: l, h => by
    rw [List.replicate_succ, List.zipWith_cons_cons, cmul_one_left,
      zipWith_cmul_replicate_one n l (by simpa using h)]

/-- a `FunctionSignal` carrying a single filter is filtered exactly like a `Signal` -/
theorem apply_filters_single (times vals : List ℝ) (H : ℝ → Cx) (fr vec : Bool)
    (ht : times.length = vals.length) :
    applyFilters vals (sigDt times) [(H, fr, vec)] = filterFrequencies times vals H fr vec := by
  unfold applyFilters filterFrequencies
  simp only [List.foldl_cons, List.foldl_nil]
  rw [zipWith_cmul_replicate_one _ _ (by simp), ht]

end DftApply
end
