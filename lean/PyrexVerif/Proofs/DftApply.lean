import PyrexVerif.Proofs.DftModel
/-!
# `FunctionSignal._apply_filters`: stacked filters multiply their response tables;
# complex homogeneity of the un-forced filter
-/
open scoped ZMod
noncomputable section
namespace DftApply
open PyrexR DftBridge DftFilter DftModel

lemma cmul_one_left (r : Cx) : cmul ((1, 0) : Cx) r = r := by
  simp [cmul]

lemma zipWith_cmul_replicate_one : ∀ (n : ℕ) (l : List Cx), l.length ≤ n →
    List.zipWith cmul (List.replicate n ((1, 0) : Cx)) l = l
  | _, [], _ => by simp
  | 0, _ :: _, h => by simp at h
  | n + 1, r :: l, h => by
    rw [List.replicate_succ, List.zipWith_cons_cons, cmul_one_left,
      zipWith_cmul_replicate_one n l (by simpa using h)]

/-- a `FunctionSignal` carrying a single filter is filtered exactly like a `Signal` -/
theorem apply_filters_single (times vals : List ℝ) (H : ℝ → Cx) (fr vec : Bool)
    (ht : times.length = vals.length) :
    applyFilters vals (sigDt times) [(H, fr, vec)] = filterFrequencies times vals H fr vec := by
  unfold applyFilters filterFrequencies
  simp only [List.foldl_cons, List.foldl_nil]
  rw [zipWith_cmul_replicate_one _ _ (by simp), ht]

/-! ### stacked filters -/

abbrev Flt := (ℝ → Cx) × Bool × Bool

/-- the table-combining step of `_apply_filters` -/
def tableStep (freqs : List ℝ) (acc : List Cx) (flt : Flt) : List Cx :=
  List.zipWith cmul acc (getFilterResponse freqs flt.1 flt.2.1 flt.2.2)

lemma length_foldl_table (freqs : List ℝ) : ∀ (filters : List Flt) (acc : List Cx),
    acc.length = freqs.length → (filters.foldl (tableStep freqs) acc).length = freqs.length
  | [], _, h => h
  | flt :: r, acc, h => by
    rw [List.foldl_cons]
    exact length_foldl_table freqs r _ (by simp [tableStep, h])

/-- bin `m` of the combined table is the product of the filters' responses in that bin -/
lemma getD_foldl_table (freqs : List ℝ) (m : ℕ) (hm : m < freqs.length) : ∀ (filters : List Flt)
    (acc : List Cx), acc.length = freqs.length →
    (filters.foldl (tableStep freqs) acc).getD m 0
      = filters.foldl (fun a flt => cmul a (respAt flt.1 flt.2.1 (freqs.getD m 0))) (acc.getD m 0)
  | [], _, _ => rfl
  | flt :: r, acc, h => by
    rw [List.foldl_cons, List.foldl_cons, getD_foldl_table freqs m hm r _ (by simp [tableStep, h])]
    congr 1
    unfold tableStep
    rw [List.getD_eq_getElem _ _ (by simp [h, hm]), List.getElem_zipWith,
      ← List.getD_eq_getElem _ (0 : Cx) (by omega), ← List.getD_eq_getElem _ (0 : Cx) (by simp [hm]),
      getD_getFilterResponse _ _ _ _ _ hm]

lemma cconj_cmul (a b : Cx) : cconj (cmul a b) = cmul (cconj a) (cconj b) := by
  simp only [cconj, cmul]; refine Prod.ext ?_ ?_ <;> (simp <;> ring)

lemma cconj_foldl (g : Flt → Cx) : ∀ (filters : List Flt) (a : Cx),
    cconj (filters.foldl (fun a flt => cmul a (g flt)) a)
      = filters.foldl (fun a flt => cmul a (cconj (g flt))) (cconj a)
  | [], _ => rfl
  | flt :: r, a => by
    rw [List.foldl_cons, List.foldl_cons, cconj_foldl g r, cconj_cmul]

/-- the response of the product function, in one bin, with a common `force_real` flag -/
lemma respAt_prod (filters : List Flt) (fr : Bool) (hfr : ∀ flt ∈ filters, flt.2.1 = fr) (f : ℝ) :
    respAt (fun f => filters.foldl (fun a flt => cmul a (flt.1 f)) ((1, 0) : Cx)) fr f
      = filters.foldl (fun a flt => cmul a (respAt flt.1 flt.2.1 f)) ((1, 0) : Cx) := by
  have hcongr : ∀ (g₁ g₂ : Flt → Cx) (l : List Flt) (a : Cx), (∀ flt ∈ l, g₁ flt = g₂ flt) →
      l.foldl (fun a flt => cmul a (g₁ flt)) a = l.foldl (fun a flt => cmul a (g₂ flt)) a := by
    intro g₁ g₂ l
    induction l with
    | nil => intro a _; rfl
    | cons x l ih =>
      intro a h
      rw [List.foldl_cons, List.foldl_cons, h x (by simp)]
      exact ih _ (fun y hy => h y (List.mem_cons_of_mem _ hy))
  cases fr
  · simp only [respAt, Bool.false_eq_true, if_false]
    apply hcongr
    intro flt hflt
    simp [hfr flt hflt]
  · simp only [respAt, if_true]
    split_ifs with hneg
    · rw [cconj_foldl (fun flt => flt.1 |f|)]
      have h1 : cconj ((1, 0) : Cx) = (1, 0) := by simp [cconj]
      rw [h1]
      apply hcongr
      intro flt hflt
      simp [hfr flt hflt]
    · apply hcongr
      intro flt hflt
      simp [hfr flt hflt]

lemma list_ext_getD_cx (a b : List Cx) (hl : a.length = b.length)
    (h : ∀ k, k < a.length → a.getD k 0 = b.getD k 0) : a = b := by
  apply List.ext_getElem hl
  intro i h1 h2
  have := h i h1
  rwa [List.getD_eq_getElem _ _ h1, List.getD_eq_getElem _ _ h2] at this

/-- **stacked filters**: a `FunctionSignal` carrying several filters with the same `force_real` flag is
filtered exactly like a `Signal` with the product of the response functions (the code multiplies the
response tables); hence every C05 theorem applies to it -/
theorem apply_filters_stacked (times vals : List ℝ) (filters : List Flt) (fr : Bool)
    (hfr : ∀ flt ∈ filters, flt.2.1 = fr) (ht : times.length = vals.length) :
    applyFilters vals (sigDt times) filters
      = filterFrequencies times vals
          (fun f => filters.foldl (fun a flt => cmul a (flt.1 f)) ((1, 0) : Cx)) fr true := by
  unfold applyFilters filterFrequencies
  simp only
  rw [ht]
  congr 3
  set freqs := fftfreqs (2 * vals.length) (sigDt times) with hfreqs
  have hfl : freqs.length = 2 * vals.length := by simp [hfreqs]
  have hrep : (List.replicate (2 * vals.length) ((1, 0) : Cx)).length = freqs.length := by simp [hfl]
  apply list_ext_getD_cx
  · rw [show (fun acc (flt : Flt) => List.zipWith cmul acc (getFilterResponse freqs flt.1 flt.2.1 flt.2.2))
        = tableStep freqs from rfl, length_foldl_table freqs filters _ hrep, length_getFilterResponse]
  · intro m hm
    rw [show (fun acc (flt : Flt) => List.zipWith cmul acc (getFilterResponse freqs flt.1 flt.2.1 flt.2.2))
        = tableStep freqs from rfl] at hm ⊢
    rw [length_foldl_table freqs filters _ hrep] at hm
    rw [getD_foldl_table freqs m hm filters _ hrep, getD_getFilterResponse _ _ _ _ _ hm,
      respAt_prod filters fr hfr]
    congr 1
    rw [List.getD_eq_getElem _ _ (by simp; omega)]
    simp

/-! ### complex homogeneity without `force_real` -/

/-- before the real part is taken, the un-forced filter is homogeneous in the response for COMPLEX factors:
sample `k` of the complex output for `c·H` is `c` times that for `H` -/
theorem filter_homog_complex (x : List ℝ) (c : Cx) (H : ℝ → Cx) (dt : ℝ) (vec : Bool) (k : ℕ)
    (hk : k < 2 * x.length) :
    (filterCore x (getFilterResponse (fftfreqs (2 * x.length) dt) (fun f => cmul c (H f)) false vec)).getD k 0
      = cmul c ((filterCore x (getFilterResponse (fftfreqs (2 * x.length) dt) H false vec)).getD k 0) := by
  have : NeZero (2 * x.length) := ⟨by omega⟩
  apply toC_injective
  have h1 := congrFun (filterCore_bridge (M := 2 * x.length) x
    (getFilterResponse (fftfreqs (2 * x.length) dt) (fun f => cmul c (H f)) false vec) (by omega) (by simp))
    (k : ZMod (2 * x.length))
  have h2 := congrFun (filterCore_bridge (M := 2 * x.length) x
    (getFilterResponse (fftfreqs (2 * x.length) dt) H false vec) (by omega) (by simp))
    (k : ZMod (2 * x.length))
  have e1 : ∀ l : List Cx, fnOf (M := 2 * x.length) l (k : ZMod (2 * x.length)) = toC (l.getD k 0) := by
    intro l; simp only [fnOf]; rw [ZMod.val_natCast_of_lt hk]
  rw [e1] at h1 h2
  rw [toC_cmul, h1, h2]
  have hfun : fnOf (M := 2 * x.length)
      (getFilterResponse (fftfreqs (2 * x.length) dt) (fun f => cmul c (H f)) false vec)
      = fun m => toC c * fnOf (M := 2 * x.length)
          (getFilterResponse (fftfreqs (2 * x.length) dt) H false vec) m
        + 0 * (fun _ => (0 : ℂ)) m := by
    funext m
    have hm : m.val < 2 * x.length := ZMod.val_lt m
    simp only [fnOf]
    rw [getD_getFilterResponse _ _ _ _ _ (by simp [hm]), getD_getFilterResponse _ _ _ _ _ (by simp [hm])]
    simp [respAt]
  rw [hfun, filtZ_resp_lin]
  simp only [Pi.add_apply, Pi.smul_apply, smul_eq_mul, zero_mul, add_zero]

end DftApply
end
