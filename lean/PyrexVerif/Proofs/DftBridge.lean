import PyrexVerif.R.Dft
import PyrexVerif.Proofs.DftCore
import Mathlib.Analysis.SpecialFunctions.Complex.CircleAddChar
import Mathlib.Tactic.Ring
import Mathlib.Tactic.Linarith
import Mathlib.Tactic.NormNum
/-!
# Bridge: the pair-DFT of `twin/Dft.body` (ℝ reading) *is* Mathlib's `ZMod.dft`

Under `toC : (re, im) ↦ re + im·I` the naive double sum `PyrexR.dft` on a list of length `M` is
`𝓕 : (ZMod M → ℂ) → (ZMod M → ℂ)`, and `PyrexR.idft` is `𝓕⁻`.
-/
open Finset ZMod
open scoped ZMod ComplexConjugate

namespace DftBridge
open PyrexR DftCore

/-- `(re, im) ↦ re + im·I` -/
def toC (p : ℝ × ℝ) : ℂ := ⟨p.1, p.2⟩

@[simp] lemma toC_re (p : ℝ × ℝ) : (toC p).re = p.1 := rfl
@[simp] lemma toC_im (p : ℝ × ℝ) : (toC p).im = p.2 := rfl
@[simp] lemma toC_zero : toC (0, 0) = 0 := by apply Complex.ext <;> simp
@[simp] lemma toC_zero' : toC (0 : ℝ × ℝ) = 0 := by apply Complex.ext <;> simp
lemma toC_injective : Function.Injective toC := by
  intro a b h
  have h1 := congrArg Complex.re h
  have h2 := congrArg Complex.im h
  simp only [toC_re, toC_im] at h1 h2
  exact Prod.ext h1 h2

@[simp] lemma toC_cadd (a b : Cx) : toC (cadd a b) = toC a + toC b := by
  apply Complex.ext <;> simp [cadd]
@[simp] lemma toC_cmul (a b : Cx) : toC (cmul a b) = toC a * toC b := by
  apply Complex.ext <;> simp [cmul]
@[simp] lemma toC_cscale (s : ℝ) (a : Cx) : toC (cscale s a) = (s : ℂ) * toC a := by
  apply Complex.ext <;> simp [cscale]
@[simp] lemma toC_cconj (a : Cx) : toC (cconj a) = conj (toC a) := by
  apply Complex.ext <;> simp [cconj]
@[simp] lemma toC_cofReal (x : ℝ) : toC (cofReal x) = (x : ℂ) := by
  apply Complex.ext <;> simp [cofReal]
lemma toC_cis (t : ℝ) : toC (cis t) = Complex.exp ((t : ℂ) * Complex.I) := by
  apply Complex.ext
  · simp [cis, Complex.exp_ofReal_mul_I_re]
  · simp [cis, Complex.exp_ofReal_mul_I_im]
lemma normSq_toC (a : Cx) : Complex.normSq (toC a) = cnormSq a := by
  simp [Complex.normSq_apply, cnormSq]

/-- the inner loop is a finite sum -/
lemma toC_dftAcc (s : ℝ) (M k : ℕ) (xs : List Cx) (j : ℕ) :
    toC (dftAcc s M k j xs) = ∑ i ∈ range xs.length,
      toC (xs.getD i 0) * Complex.exp (((s * (2 * Real.pi * (((j + i) * k % M : ℕ) : ℝ) / (M : ℝ)) : ℝ) : ℂ) * Complex.I) := by
  induction xs generalizing j with
  | nil => simp [dftAcc]
  | cons x xs ih =>
    rw [dftAcc, toC_cadd, toC_cmul, toC_cis, ih (j + 1), List.length_cons, Finset.sum_range_succ']
    rw [add_comm]
    refine congrArg₂ (· + ·) ?_ ?_
    · refine Finset.sum_congr rfl fun i _ => ?_
      rw [List.getD_cons_succ]
      have : j + 1 + i = j + (i + 1) := by ring
      rw [this]
    · simp [Rpi, RofNat]

variable {M : ℕ} [NeZero M]

/-- value of the standard character at `±(i·k)` in terms of the reduced exponent used by the model -/
lemma stdAddChar_mul (s : ℝ) (hs : s = 1 ∨ s = -1) (i k : ℕ) :
    Complex.exp (((s * (2 * Real.pi * ((i * k % M : ℕ) : ℝ) / (M : ℝ)) : ℝ) : ℂ) * Complex.I)
      = (stdAddChar (if s = 1 then ((i : ZMod M) * (k : ZMod M)) else -((i : ZMod M) * (k : ZMod M))) : ℂ) := by
  have hM : ((M : ℕ) : ℂ) ≠ 0 := Nat.cast_ne_zero.mpr (NeZero.ne M)
  have hcast : ((i * k % M : ℕ) : ZMod M) = (i : ZMod M) * (k : ZMod M) := by
    rw [ZMod.natCast_mod]; push_cast; ring
  rcases hs with rfl | rfl
  · simp only [if_true]
    rw [← hcast]
    have := ZMod.stdAddChar_coe (N := M) ((i * k % M : ℕ) : ℤ)
    simp only [Int.cast_natCast] at this
    rw [this]
    congr 1
    push_cast
    ring
  · have hne : ¬ ((-1 : ℝ) = 1) := by norm_num
    simp only [hne, if_false]
    rw [← hcast]
    have := ZMod.stdAddChar_coe (N := M) (-((i * k % M : ℕ) : ℤ))
    simp only [Int.cast_neg, Int.cast_natCast] at this
    rw [this]
    congr 1
    push_cast
    ring

/-- a list of pairs read as a function on `ZMod M` -/
def fnOf (l : List Cx) : ZMod M → ℂ := fun j => toC (l.getD j.val 0)

lemma getD_dft (xs : List Cx) (k : ℕ) (hk : k < xs.length) :
    (dft xs).getD k 0 = dftAcc (-1) xs.length k 0 xs := by
  simp [PyrexR.dft, List.getD_eq_getElem?_getD, hk]

lemma getD_idft (xs : List Cx) (k : ℕ) (hk : k < xs.length) :
    (idft xs).getD k 0 = cscale (1 / RofNat xs.length) (dftAcc 1 xs.length k 0 xs) := by
  simp [PyrexR.idft, List.getD_eq_getElem?_getD, hk]

@[simp] lemma length_dft (xs : List Cx) : (dft xs).length = xs.length := by simp [PyrexR.dft]
@[simp] lemma length_idft (xs : List Cx) : (idft xs).length = xs.length := by simp [PyrexR.idft]

/-- **Bridge, forward transform** -/
theorem dft_bridge (xs : List Cx) (hM : xs.length = M) : fnOf (M := M) (dft xs) = 𝓕 (fnOf (M := M) xs) := by
  funext k
  have hk : k.val < xs.length := hM ▸ ZMod.val_lt k
  simp only [fnOf]
  rw [getD_dft xs _ hk, toC_dftAcc, ZMod.dft_apply, sum_zmod_eq_sum_range, hM]
  refine Finset.sum_congr rfl fun i hi => ?_
  have hi' : i < M := Finset.mem_range.mp hi
  rw [zero_add, stdAddChar_mul (M := M) (-1) (Or.inr rfl) i k.val]
  have hne : ¬ ((-1 : ℝ) = 1) := by norm_num
  simp only [hne, if_false, ZMod.natCast_zmod_val, smul_eq_mul, fnOf]
  rw [ZMod.val_natCast_of_lt hi', mul_comm]

/-- **Bridge, inverse transform** -/
theorem idft_bridge (xs : List Cx) (hM : xs.length = M) : fnOf (M := M) (idft xs) = 𝓕⁻ (fnOf (M := M) xs) := by
  funext k
  have hk : k.val < xs.length := hM ▸ ZMod.val_lt k
  simp only [fnOf]
  rw [getD_idft xs _ hk, toC_cscale, toC_dftAcc, ZMod.invDFT_apply, sum_zmod_eq_sum_range, hM]
  simp only [smul_eq_mul]
  congr 1
  · simp [RofNat]
  · refine Finset.sum_congr rfl fun i hi => ?_
    have hi' : i < M := Finset.mem_range.mp hi
    rw [zero_add, stdAddChar_mul (M := M) 1 (Or.inl rfl) i k.val]
    simp only [if_true, ZMod.natCast_zmod_val, fnOf]
    rw [ZMod.val_natCast_of_lt hi', mul_comm]

end DftBridge
