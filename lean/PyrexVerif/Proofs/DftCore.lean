import Mathlib.Analysis.Fourier.ZMod
import Mathlib.NumberTheory.LegendreSymbol.AddCharacter
import Mathlib.Tactic.Ring
import Mathlib.Tactic.Linarith
import Mathlib.Tactic.FieldSimp
/-!
# Facts about Mathlib's discrete Fourier transform `ZMod.dft` used by C05 / C03

Parseval (from character orthogonality), the shift theorem, the delay filter, conjugation symmetry.
Everything is about `𝓕 : (ZMod M → ℂ) ≃ₗ[ℂ] (ZMod M → ℂ)`.
-/
open Finset AddChar ZMod
open scoped ZMod ComplexConjugate

namespace DftCore
variable {M : ℕ} [NeZero M]

lemma char_sum (t : ZMod M) :
    ∑ i : ZMod M, (stdAddChar (t * i) : ℂ) = if t = 0 then (M : ℂ) else 0 := by
  split_ifs with h
  · simp [h]
  · exact AddChar.sum_eq_zero_of_ne_one (isPrimitive_stdAddChar M h)

lemma conj_stdAddChar (x : ZMod M) : conj (stdAddChar x : ℂ) = stdAddChar (-x) := by
  rw [AddChar.map_neg_eq_inv]
  have h : ‖(stdAddChar x : ℂ)‖ = 1 := by
    simp
  exact (Complex.inv_eq_conj h).symm

/-- Parseval, product form -/
theorem parsevalC (Φ : ZMod M → ℂ) :
    ∑ k, 𝓕 Φ k * conj (𝓕 Φ k) = M * ∑ j, Φ j * conj (Φ j) := by
  simp only [dft_apply, smul_eq_mul, map_sum, map_mul, conj_stdAddChar, Finset.sum_mul,
    Finset.mul_sum]
  rw [Finset.sum_comm]
  refine Finset.sum_congr rfl fun j _ => ?_
  rw [Finset.sum_comm]
  have : ∀ l k : ZMod M,
      (stdAddChar (-(l * k)) : ℂ) * Φ l * (stdAddChar (-(-(j * k))) * conj (Φ j))
      = (Φ l * conj (Φ j)) * stdAddChar ((j - l) * k) := by
    intro l k
    rw [show (j - l) * k = -(l * k) + -(-(j * k)) by ring, AddChar.map_add_eq_mul]
    ring
  simp only [this, ← Finset.mul_sum, char_sum, sub_eq_zero]
  simp [Finset.sum_ite_eq, mul_comm]

/-- Parseval, squared-modulus form -/
theorem parseval_normSq (Φ : ZMod M → ℂ) :
    ∑ k, Complex.normSq (𝓕 Φ k) = M * ∑ j, Complex.normSq (Φ j) := by
  have h := parsevalC Φ
  simp only [Complex.mul_conj] at h
  have h2 : ((∑ k, Complex.normSq (𝓕 Φ k) : ℝ) : ℂ) = ((M * ∑ j, Complex.normSq (Φ j) : ℝ) : ℂ) := by
    push_cast
    exact h
  exact_mod_cast h2

theorem parseval_inv_normSq (Ψ : ZMod M → ℂ) :
    (M : ℝ) * ∑ k, Complex.normSq (𝓕⁻ Ψ k) = ∑ m, Complex.normSq (Ψ m) := by
  have h := parseval_normSq (𝓕⁻ Ψ)
  rw [LinearEquiv.apply_symm_apply] at h
  exact h.symm

theorem dft_shift (Φ : ZMod M → ℂ) (d : ZMod M) :
    𝓕 (fun j => Φ (j - d)) = fun k => (stdAddChar (-(d * k)) : ℂ) * 𝓕 Φ k := by
  ext k
  simp only [dft_apply, smul_eq_mul, Finset.mul_sum]
  refine Fintype.sum_equiv (Equiv.subRight d) _ _ fun j => ?_
  simp only [Equiv.subRight_apply]
  rw [← mul_assoc, ← AddChar.map_add_eq_mul]
  congr 2
  ring

theorem delay_filter (Φ : ZMod M → ℂ) (d : ZMod M) :
    𝓕⁻ (fun k => (stdAddChar (-(d * k)) : ℂ) * 𝓕 Φ k) = fun j => Φ (j - d) := by
  rw [LinearEquiv.symm_apply_eq, dft_shift]

/-- the transform of a real sequence is Hermitian -/
theorem dft_conj (Φ : ZMod M → ℂ) (m : ZMod M) :
    conj (𝓕 Φ m) = 𝓕 (fun j => conj (Φ j)) (-m) := by
  simp only [dft_apply, smul_eq_mul, map_sum, map_mul, conj_stdAddChar]
  refine Finset.sum_congr rfl fun j _ => ?_
  congr 2
  ring

theorem dft_real_herm (Φ : ZMod M → ℂ) (hΦ : ∀ j, conj (Φ j) = Φ j) (m : ZMod M) :
    conj (𝓕 Φ m) = 𝓕 Φ (-m) := by
  rw [dft_conj]; simp only [hΦ]

theorem invDFT_conj (Ψ : ZMod M → ℂ) (k : ZMod M) :
    conj (𝓕⁻ Ψ k) = 𝓕⁻ (fun m => conj (Ψ (-m))) k := by
  simp only [invDFT_apply, smul_eq_mul, map_mul, map_sum, conj_stdAddChar, map_inv₀, Complex.conj_natCast]
  congr 1
  refine Fintype.sum_equiv (Equiv.neg _) _ _ fun j => ?_
  simp only [Equiv.neg_apply, neg_neg]
  congr 2
  ring

lemma sum_zmod_eq_sum_range (f : ZMod M → ℂ) : ∑ j : ZMod M, f j = ∑ i ∈ range M, f (i : ZMod M) := by
  obtain ⟨n, rfl⟩ : ∃ n, M = n + 1 := Nat.exists_eq_succ_of_ne_zero (NeZero.ne M)
  have h := Fin.sum_univ_eq_sum_range (fun i => f (i : ZMod (n + 1))) (n + 1)
  rw [← h]
  refine Finset.sum_congr rfl fun j _ => ?_
  congr 1
  exact (ZMod.natCast_zmod_val (n := n + 1) j).symm

lemma sum_zmod_eq_sum_range_real (f : ZMod M → ℝ) : ∑ j : ZMod M, f j = ∑ i ∈ range M, f (i : ZMod M) := by
  obtain ⟨n, rfl⟩ : ∃ n, M = n + 1 := Nat.exists_eq_succ_of_ne_zero (NeZero.ne M)
  have h := Fin.sum_univ_eq_sum_range (fun i => f (i : ZMod (n + 1))) (n + 1)
  rw [← h]
  refine Finset.sum_congr rfl fun j _ => ?_
  congr 1
  exact (ZMod.natCast_zmod_val (n := n + 1) j).symm

end DftCore
