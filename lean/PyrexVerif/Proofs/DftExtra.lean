import PyrexVerif.Proofs.DftProps
/-!
# C05 extras: the zero signal, and `force_real` on an already Hermitian response
-/
noncomputable section
namespace DftExtra
open PyrexR DftModel DftProps

/-- filtering the all-zero signal gives the all-zero signal (no early exit can be observed) -/
theorem filter_zero (times : List ℝ) (H : ℝ → Cx) (fr vec : Bool) :
    filterFrequencies times (List.replicate times.length (0 : ℝ)) H fr vec
      = List.replicate times.length (0 : ℝ) := by
  have hz : List.replicate times.length (0 : ℝ)
      = List.zipWith (fun u v => (0 : ℝ) * u + 0 * v) (List.replicate times.length (0 : ℝ))
          (List.replicate times.length (0 : ℝ)) := by
    apply List.ext_getElem (by simp)
    intro i h1 h2
    simp
  have h := filter_linear times (List.replicate times.length (0 : ℝ)) (List.replicate times.length (0 : ℝ))
    0 0 H fr vec (by simp) (by simp)
  rw [← hz] at h
  rw [h]
  apply List.ext_getElem
  · simp [length_filterFrequencies]
  · intro i h1 h2
    simp

/-- for a response that is already Hermitian (`H(−f) = conj H(f)`, e.g. a real even attenuation), `force_real`
changes nothing: the response table is the same bin by bin -/
theorem respAt_hermitian (H : ℝ → Cx) (hH : ∀ f, H (-f) = cconj (H f)) (f : ℝ) :
    respAt H true f = respAt H false f := by
  simp only [respAt, if_true, Bool.false_eq_true, if_false]
  split_ifs with h
  · rw [abs_of_neg h, hH]
    simp [cconj]
  · rw [abs_of_nonneg (not_lt.mp h)]

theorem force_real_noop_of_hermitian (times x : List ℝ) (H : ℝ → Cx) (vec : Bool)
    (hH : ∀ f, H (-f) = cconj (H f)) :
    filterFrequencies times x H true vec = filterFrequencies times x H false vec := by
  unfold filterFrequencies
  simp only
  congr 3
  apply List.ext_getElem (by simp)
  intro m h1 h2
  have hm : m < (fftfreqs (2 * x.length) (sigDt times)).length := by simpa using h1
  have e1 := getD_getFilterResponse (fftfreqs (2 * x.length) (sigDt times)) H true vec m hm
  have e2 := getD_getFilterResponse (fftfreqs (2 * x.length) (sigDt times)) H false vec m hm
  rw [List.getD_eq_getElem _ _ h1] at e1
  rw [List.getD_eq_getElem _ _ h2] at e2
  rw [e1, e2, respAt_hermitian H hH]

end DftExtra
end
