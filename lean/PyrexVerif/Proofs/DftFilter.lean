import PyrexVerif.Proofs.DftCore
import Mathlib.Analysis.SpecialFunctions.Complex.CircleAddChar
import Mathlib.Tactic.Ring
import Mathlib.Tactic.Linarith
import Mathlib.Tactic.NormNum
import Mathlib.Tactic.Positivity
/-!
# The zero-padded frequency filter on `ZMod M`, abstractly

`filtZ N x Hb = 𝓕⁻ (Hb · 𝓕 (pad_N x))`: the complex, uncropped output of filtering the real sequence `x`
(`N` samples, zero-padded to `M`) with the per-bin response `Hb`.
-/
open Finset ZMod
open scoped ZMod ComplexConjugate

noncomputable section
namespace DftFilter
open DftCore
variable {M : ℕ} [NeZero M]

/-- `N` real samples followed by zeros, as a function on `ZMod M` -/
def padZ (N : ℕ) (x : ℕ → ℝ) : ZMod M → ℂ := fun j => if j.val < N then (x j.val : ℂ) else 0

/-- complex, uncropped output of the filter with per-bin response `Hb` -/
def filtZ (N : ℕ) (x : ℕ → ℝ) (Hb : ZMod M → ℂ) : ZMod M → ℂ :=
  𝓕⁻ (fun m => Hb m * 𝓕 (padZ (M := M) N x) m)

omit [NeZero M] in
lemma padZ_conj (N : ℕ) (x : ℕ → ℝ) (j : ZMod M) : conj (padZ (M := M) N x j) = padZ N x j := by
  unfold padZ; split_ifs <;> simp

omit [NeZero M] in
lemma padZ_lin (N : ℕ) (x y : ℕ → ℝ) (a b : ℝ) :
    padZ (M := M) N (fun i => a * x i + b * y i) = (a : ℂ) • padZ N x + (b : ℂ) • padZ N y := by
  funext j
  simp only [padZ, Pi.add_apply, Pi.smul_apply, smul_eq_mul]
  split_ifs <;> simp

/-- linear in the response -/
theorem filtZ_resp_lin (N : ℕ) (x : ℕ → ℝ) (H₁ H₂ : ZMod M → ℂ) (a b : ℂ) :
    filtZ N x (fun m => a * H₁ m + b * H₂ m) = a • filtZ N x H₁ + b • filtZ N x H₂ := by
  unfold filtZ
  have h : (fun m => (fun m => a * H₁ m + b * H₂ m) m * 𝓕 (padZ (M := M) N x) m)
      = a • (fun m => H₁ m * 𝓕 (padZ (M := M) N x) m) + b • (fun m => H₂ m * 𝓕 (padZ (M := M) N x) m) := by
    funext m
    simp only [Pi.add_apply, Pi.smul_apply, smul_eq_mul]
    ring
  rw [h, map_add, _root_.map_smul, _root_.map_smul]

/-- linear in the signal -/
theorem filtZ_lin (N : ℕ) (x y : ℕ → ℝ) (a b : ℝ) (Hb : ZMod M → ℂ) :
    filtZ N (fun i => a * x i + b * y i) Hb = (a : ℂ) • filtZ N x Hb + (b : ℂ) • filtZ N y Hb := by
  unfold filtZ
  have h : (fun m => Hb m * 𝓕 ((a : ℂ) • padZ (M := M) N x + (b : ℂ) • padZ (M := M) N y) m)
      = (a : ℂ) • (fun m => Hb m * 𝓕 (padZ (M := M) N x) m)
        + (b : ℂ) • (fun m => Hb m * 𝓕 (padZ (M := M) N y) m) := by
    funext m
    simp only [map_add, _root_.map_smul, Pi.add_apply, Pi.smul_apply, smul_eq_mul]
    ring
  rw [padZ_lin, h, map_add, _root_.map_smul, _root_.map_smul]

theorem filtZ_one (N : ℕ) (x : ℕ → ℝ) : filtZ (M := M) N x (fun _ => 1) = padZ N x := by
  unfold filtZ
  simp only [one_mul]
  exact LinearEquiv.symm_apply_apply _ _

/-- conjugating the output = filtering with the reflected, conjugated response (the signal is real) -/
theorem filtZ_conj (N : ℕ) (x : ℕ → ℝ) (Hb : ZMod M → ℂ) (k : ZMod M) :
    conj (filtZ N x Hb k) = filtZ N x (fun m => conj (Hb (-m))) k := by
  unfold filtZ
  rw [invDFT_conj]
  have : (fun m => conj (Hb (-m) * 𝓕 (padZ (M := M) N x) (-m)))
      = fun m => (fun m => conj (Hb (-m))) m * 𝓕 (padZ (M := M) N x) m := by
    funext m
    rw [map_mul, dft_real_herm _ (padZ_conj N x), neg_neg]
  rw [this]

/-- **Hermitian symmetrisation**: the real part of the output is the output of the response
`m ↦ (Hb m + conj (Hb (−m)))/2`, which is therefore real. -/
theorem filtZ_re (N : ℕ) (x : ℕ → ℝ) (Hb : ZMod M → ℂ) (k : ZMod M) :
    ((filtZ N x Hb k).re : ℂ) = filtZ N x (fun m => (Hb m + conj (Hb (-m))) / 2) k := by
  have h1 : ((filtZ N x Hb k).re : ℂ) = (filtZ N x Hb k + conj (filtZ N x Hb k)) / 2 := by
    rw [Complex.add_conj]; push_cast; ring
  rw [h1, filtZ_conj]
  have h2 : (fun m => (Hb m + conj (Hb (-m))) / 2)
      = fun m => (1 / 2 : ℂ) * Hb m + (1 / 2 : ℂ) * (fun m => conj (Hb (-m))) m := by
    funext m; ring
  rw [h2, filtZ_resp_lin]
  simp only [Pi.add_apply, Pi.smul_apply, smul_eq_mul]
  ring

/-- energy of the zero-padded sequence -/
lemma sum_normSq_padZ (N : ℕ) (hN : N ≤ M) (x : ℕ → ℝ) :
    ∑ j : ZMod M, Complex.normSq (padZ (M := M) N x j) = ∑ i ∈ range N, (x i) ^ 2 := by
  rw [sum_zmod_eq_sum_range_real]
  have h : ∀ i ∈ range M, Complex.normSq (padZ (M := M) N x (i : ZMod M))
      = if i < N then (x i) ^ 2 else 0 := by
    intro i hi
    have hi' : i < M := Finset.mem_range.mp hi
    unfold padZ
    rw [ZMod.val_natCast_of_lt hi']
    split_ifs <;> simp [Complex.normSq_ofReal, sq]
  rw [Finset.sum_congr rfl h, Finset.sum_ite, Finset.sum_const_zero, add_zero]
  congr 1
  ext i
  simp only [Finset.mem_filter, Finset.mem_range]
  omega

/-- **Passivity**: a response of modulus ≤ 1 in every bin does not increase the energy, even before
cropping and before the imaginary part is dropped. -/
theorem filtZ_passive (N : ℕ) (hN : N ≤ M) (x : ℕ → ℝ) (Hb : ZMod M → ℂ)
    (hH : ∀ m, Complex.normSq (Hb m) ≤ 1) :
    ∑ k : ZMod M, Complex.normSq (filtZ N x Hb k) ≤ ∑ i ∈ range N, (x i) ^ 2 := by
  have hMpos : (0 : ℝ) < M := Nat.cast_pos.mpr (Nat.pos_of_ne_zero (NeZero.ne M))
  have h1 := parseval_inv_normSq (fun m => Hb m * 𝓕 (padZ (M := M) N x) m)
  have h2 := parseval_normSq (padZ (M := M) N x)
  rw [sum_normSq_padZ N hN] at h2
  have h3 : ∑ m, Complex.normSq (Hb m * 𝓕 (padZ (M := M) N x) m)
      ≤ ∑ m, Complex.normSq (𝓕 (padZ (M := M) N x) m) := by
    refine Finset.sum_le_sum fun m _ => ?_
    rw [Complex.normSq_mul]
    have := Complex.normSq_nonneg (𝓕 (padZ (M := M) N x) m)
    nlinarith [hH m]
  have h4 : (M : ℝ) * ∑ k, Complex.normSq (filtZ N x Hb k) ≤ (M : ℝ) * ∑ i ∈ range N, (x i) ^ 2 := by
    unfold filtZ
    rw [h1, ← h2]
    exact h3
  exact le_of_mul_le_mul_left h4 hMpos

/-- **Whole-sample delay** -/
theorem filtZ_delay (N : ℕ) (x : ℕ → ℝ) (d : ZMod M) :
    filtZ N x (fun m => (stdAddChar (-(d * m)) : ℂ)) = fun j => padZ (M := M) N x (j - d) := by
  unfold filtZ
  exact delay_filter _ d

end DftFilter
end
