import PyrexVerif.Proofs.DftBridge
import PyrexVerif.Proofs.DftFilter
import Mathlib.Data.List.GetD
/-!
# The list model `PyrexR.filterFrequencies` expressed through `DftFilter.filtZ`
-/
open Finset ZMod
open scoped ZMod ComplexConjugate

noncomputable section
namespace DftModel
open PyrexR DftCore DftBridge DftFilter

/-- the scalar fall-back loop computes the same table as the vectorised call -/
lemma respScalar_eq_respVec (H : ℝ → Cx) (fs : List ℝ) : respScalar H fs = respVec H fs := by
  induction fs with
  | nil => rfl
  | cons f fs ih => simp [respScalar, respVec, ih] at *

lemma getFilterResponse_vec_irrelevant (freqs : List ℝ) (H : ℝ → Cx) (fr vec : Bool) :
    getFilterResponse freqs H fr vec = getFilterResponse freqs H fr true := by
  cases vec <;> simp [getFilterResponse, respScalar_eq_respVec]

@[simp] lemma length_fftfreqs (M : ℕ) (d : ℝ) : (fftfreqs M d).length = M := by simp [fftfreqs]

lemma getD_fftfreqs (M : ℕ) (d : ℝ) (m : ℕ) (hm : m < M) : (fftfreqs M d).getD m 0 = fftfreq M d m := by
  simp [fftfreqs, List.getD_eq_getElem?_getD, hm]

@[simp] lemma length_getFilterResponse (freqs : List ℝ) (H : ℝ → Cx) (fr vec : Bool) :
    (getFilterResponse freqs H fr vec).length = freqs.length := by
  rw [getFilterResponse_vec_irrelevant]
  cases fr <;> simp [getFilterResponse, respVec]

/-- the response table, bin by bin -/
def respAt (H : ℝ → Cx) (fr : Bool) (f : ℝ) : Cx :=
  if fr then (if f < 0 then cconj (H |f|) else H |f|) else H f

lemma getD_getFilterResponse (freqs : List ℝ) (H : ℝ → Cx) (fr vec : Bool) (m : ℕ) (hm : m < freqs.length) :
    (getFilterResponse freqs H fr vec).getD m 0 = respAt H fr (freqs.getD m 0) := by
  rw [getFilterResponse_vec_irrelevant]
  cases fr
  · simp [getFilterResponse, respVec, respAt, List.getD_eq_getElem?_getD, hm]
  · simp only [getFilterResponse, respVec, respAt, if_true]
    rw [List.getD_eq_getElem _ _ (by simp [hm]), List.getD_eq_getElem _ _ hm]
    simp only [List.getElem_zipWith, List.getElem_map, Rabs, cconj]

variable {M : ℕ} [NeZero M]

lemma fnOf_zipWith_cmul (a b : List Cx) (ha : a.length = M) (hb : b.length = M) :
    fnOf (M := M) (List.zipWith cmul a b) = fun m => fnOf (M := M) a m * fnOf (M := M) b m := by
  funext m
  have hm : m.val < M := ZMod.val_lt m
  simp only [fnOf]
  rw [List.getD_eq_getElem _ _ (by simp [ha, hb, hm]), List.getD_eq_getElem _ _ (by omega),
    List.getD_eq_getElem _ _ (by omega), List.getElem_zipWith, toC_cmul]

lemma fnOf_padded (vals : List ℝ) (hM : vals.length + vals.length = M) :
    fnOf (M := M) ((vals ++ List.replicate vals.length (0 : ℝ)).map cofReal)
      = padZ (M := M) vals.length (fun i => vals.getD i 0) := by
  funext j
  have hj : j.val < M := ZMod.val_lt j
  simp only [fnOf, padZ]
  have h0 : (0 : Cx) = cofReal 0 := by simp [cofReal]; rfl
  rw [h0, List.getD_map, toC_cofReal]
  split_ifs with h
  · rw [List.getD_append _ _ _ _ h]
  · rw [List.getD_append_right _ _ _ _ (by omega), List.getD_replicate (h := by omega)]
    simp

@[simp] lemma length_filterCore (vals : List ℝ) (resp : List Cx) :
    (filterCore vals resp).length = min resp.length (vals.length + vals.length) := by
  simp [filterCore]

/-- **the complex, uncropped output of the model is `filtZ`** -/
theorem filterCore_bridge (vals : List ℝ) (resp : List Cx) (hM : vals.length + vals.length = M)
    (hr : resp.length = M) :
    fnOf (M := M) (filterCore vals resp)
      = filtZ (M := M) vals.length (fun i => vals.getD i 0) (fnOf (M := M) resp) := by
  unfold filterCore filtZ
  have hp : ((vals ++ List.replicate vals.length (0 : ℝ)).map cofReal).length = M := by simp [hM]
  rw [idft_bridge _ (by simp [hr, hM]), fnOf_zipWith_cmul _ _ hr (by simp [hM]), dft_bridge _ hp,
    fnOf_padded vals hM]

lemma getD_take_map_fst (l : List Cx) (n k : ℕ) (hk : k < n) (hl : n ≤ l.length) :
    ((l.take n).map (·.1)).getD k 0 = (l.getD k 0).1 := by
  rw [List.getD_eq_getElem _ _ (by simp; omega), List.getD_eq_getElem _ _ (by omega)]
  simp

/-- **the model output, sample by sample** -/
theorem getD_filterFrequencies (times vals : List ℝ) (H : ℝ → Cx) (fr vec : Bool)
    (ht : times.length = vals.length) (hM : 2 * vals.length = M) (k : ℕ) (hk : k < vals.length) :
    (filterFrequencies times vals H fr vec).getD k 0
      = (filtZ (M := M) vals.length (fun i => vals.getD i 0)
          (fun m => toC (respAt H fr (fftfreq M (sigDt times) m.val))) (k : ZMod M)).re := by
  have hM' : vals.length + vals.length = M := by omega
  unfold filterFrequencies
  rw [getD_take_map_fst _ _ _ (by omega) (by simp; omega)]
  have hr : (getFilterResponse (fftfreqs (2 * vals.length) (sigDt times)) H fr vec).length = M := by
    simp [hM]
  have hb := filterCore_bridge (M := M) vals _ hM' hr
  have hkM : k < M := by omega
  have h1 := congrFun hb (k : ZMod M)
  simp only [fnOf] at h1
  rw [ZMod.val_natCast_of_lt hkM] at h1
  rw [← toC_re, h1]
  congr 3
  funext m
  have hm : m.val < M := ZMod.val_lt m
  simp only [fnOf]
  rw [getD_getFilterResponse _ _ _ _ _ (by simp [hM, hm]), hM, getD_fftfreqs _ _ _ hm]

lemma length_filterFrequencies (times vals : List ℝ) (H : ℝ → Cx) (fr vec : Bool)
    (ht : times.length = vals.length) :
    (filterFrequencies times vals H fr vec).length = vals.length := by
  simp [filterFrequencies, ht]
  omega

/-- list sum = finite sum over positions -/
lemma sum_map_eq_sum_range {α : Type} (f : α → ℝ) (d : α) (l : List α) :
    (l.map f).sum = ∑ i ∈ range l.length, f (l.getD i d) := by
  induction l with
  | nil => simp
  | cons a l ih =>
    rw [List.map_cons, List.sum_cons, ih, List.length_cons, Finset.sum_range_succ']
    simp [add_comm]

end DftModel
end
