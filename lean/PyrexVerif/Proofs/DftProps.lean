import PyrexVerif.Proofs.DftModel
/-!
# C05: the property statements about the list model, proved through `filtZ`
-/
open Finset ZMod
open scoped ZMod ComplexConjugate

noncomputable section
namespace DftProps
open PyrexR DftCore DftBridge DftFilter DftModel

lemma list_ext_getD (a b : List ℝ) (hl : a.length = b.length)
    (h : ∀ k, k < a.length → a.getD k 0 = b.getD k 0) : a = b := by
  apply List.ext_getElem hl
  intro i h1 h2
  have := h i h1
  rwa [List.getD_eq_getElem _ _ h1, List.getD_eq_getElem _ _ h2] at this

lemma filterFrequencies_nil (times : List ℝ) (H : ℝ → Cx) (fr vec : Bool) (vals : List ℝ)
    (h : times.length = 0) : filterFrequencies times vals H fr vec = [] := by
  simp [filterFrequencies, h]

lemma getD_zipWith_lin (a b : ℝ) (x y : List ℝ) (hxy : x.length = y.length) (i : ℕ) :
    (List.zipWith (fun u v => a * u + b * v) x y).getD i 0 = a * x.getD i 0 + b * y.getD i 0 := by
  by_cases hi : i < x.length
  · rw [List.getD_eq_getElem _ _ (by simp; omega), List.getD_eq_getElem _ _ hi,
      List.getD_eq_getElem _ _ (by omega), List.getElem_zipWith]
  · rw [List.getD_eq_default _ _ (by simp; omega), List.getD_eq_default _ _ (by omega),
      List.getD_eq_default _ _ (by omega)]
    ring

lemma filter_linear_aux (times x y z : List ℝ) (a b : ℝ) (H : ℝ → Cx) (fr vec : Bool)
    (hx : x.length = times.length) (hy : y.length = times.length) (hz : z.length = times.length)
    (hzv : ∀ i, z.getD i 0 = a * x.getD i 0 + b * y.getD i 0) :
    filterFrequencies times z H fr vec
      = List.zipWith (fun u v => a * u + b * v)
          (filterFrequencies times x H fr vec) (filterFrequencies times y H fr vec) := by
  rcases Nat.eq_zero_or_pos times.length with h0 | hpos
  · simp [filterFrequencies_nil _ _ _ _ _ h0]
  have : NeZero (2 * x.length) := ⟨by omega⟩
  have lx := length_filterFrequencies times x H fr vec hx.symm
  have ly := length_filterFrequencies times y H fr vec hy.symm
  have lz := length_filterFrequencies times z H fr vec hz.symm
  apply list_ext_getD
  · rw [lz, List.length_zipWith, lx, ly]
    omega
  intro k hk
  rw [lz] at hk
  rw [getD_zipWith_lin _ _ _ _ (by rw [lx, ly]; omega)]
  rw [getD_filterFrequencies (M := 2 * x.length) times z H fr vec hz.symm (by omega) k hk,
    getD_filterFrequencies (M := 2 * x.length) times x H fr vec hx.symm rfl k (by omega),
    getD_filterFrequencies (M := 2 * x.length) times y H fr vec hy.symm (by omega) k (by omega)]
  have hfun : (fun i => z.getD i 0)
      = fun i => a * (fun i => x.getD i 0) i + b * (fun i => y.getD i 0) i := by
    funext i; exact hzv i
  rw [hfun, filtZ_lin, show y.length = x.length by omega, show z.length = x.length by omega]
  simp [Pi.add_apply, Pi.smul_apply]

/-- **linear in the signal** -/
theorem filter_linear (times x y : List ℝ) (a b : ℝ) (H : ℝ → Cx) (fr vec : Bool)
    (hx : x.length = times.length) (hy : y.length = times.length) :
    filterFrequencies times (List.zipWith (fun u v => a * u + b * v) x y) H fr vec
      = List.zipWith (fun u v => a * u + b * v)
          (filterFrequencies times x H fr vec) (filterFrequencies times y H fr vec) := by
  apply filter_linear_aux times x y _ a b H fr vec hx hy
  · simp; omega
  · intro i; exact getD_zipWith_lin a b x y (by omega) i

lemma toC_respAt_scale (c : ℝ) (H : ℝ → Cx) (fr : Bool) (f : ℝ) :
    toC (respAt (fun f => cscale c (H f)) fr f) = (c : ℂ) * toC (respAt H fr f) := by
  unfold respAt
  cases fr
  · simp
  · simp only [if_true]
    split_ifs <;> simp

/-- **homogeneous in the response** (real factor; the real part is taken after filtering) -/
theorem filter_homog (times x : List ℝ) (c : ℝ) (H : ℝ → Cx) (fr vec : Bool)
    (hx : x.length = times.length) :
    filterFrequencies times x (fun f => cscale c (H f)) fr vec
      = (filterFrequencies times x H fr vec).map (fun v => c * v) := by
  rcases Nat.eq_zero_or_pos times.length with h0 | hpos
  · simp [filterFrequencies_nil _ _ _ _ _ h0]
  have : NeZero (2 * x.length) := ⟨by omega⟩
  apply list_ext_getD
  · rw [length_filterFrequencies _ _ _ _ _ hx.symm, List.length_map,
      length_filterFrequencies _ _ _ _ _ hx.symm]
  intro k hk
  rw [length_filterFrequencies _ _ _ _ _ hx.symm] at hk
  have h0 : (0 : ℝ) = (fun v => c * v) 0 := by simp
  rw [h0, List.getD_map, ← h0]
  rw [getD_filterFrequencies (M := 2 * x.length) times x _ fr vec hx.symm rfl k hk,
    getD_filterFrequencies (M := 2 * x.length) times x H fr vec hx.symm rfl k hk]
  have hfun : (fun m : ZMod (2 * x.length) =>
      toC (respAt (fun f => cscale c (H f)) fr (fftfreq (2 * x.length) (sigDt times) m.val)))
      = fun m => (c : ℂ) * (fun m : ZMod (2 * x.length) =>
          toC (respAt H fr (fftfreq (2 * x.length) (sigDt times) m.val))) m
        + 0 * (fun _ => (0 : ℂ)) m := by
    funext m; rw [toC_respAt_scale]; ring
  rw [hfun, filtZ_resp_lin]
  simp [Pi.add_apply, Pi.smul_apply]

lemma toC_respAt_one (fr : Bool) (f : ℝ) : toC (respAt (fun _ => ((1, 0) : Cx)) fr f) = 1 := by
  unfold respAt
  cases fr
  · apply Complex.ext <;> simp
  · simp only [if_true]
    split_ifs <;> apply Complex.ext <;> simp [cconj]

lemma padZ_natCast {M : ℕ} [NeZero M] (N : ℕ) (x : ℕ → ℝ) (k : ℕ) (hk : k < N) (hN : N ≤ M) :
    padZ (M := M) N x (k : ZMod M) = (x k : ℂ) := by
  unfold padZ
  rw [ZMod.val_natCast_of_lt (by omega)]
  simp [hk]

/-- **the unit response is the identity** -/
theorem filter_one (times x : List ℝ) (fr vec : Bool) (hx : x.length = times.length) :
    filterFrequencies times x (fun _ => ((1, 0) : Cx)) fr vec = x := by
  rcases Nat.eq_zero_or_pos times.length with h0 | hpos
  · rw [filterFrequencies_nil _ _ _ _ _ h0]
    exact (List.length_eq_zero_iff.mp (by omega)).symm
  have : NeZero (2 * x.length) := ⟨by omega⟩
  apply list_ext_getD
  · rw [length_filterFrequencies _ _ _ _ _ hx.symm]
  intro k hk
  rw [length_filterFrequencies _ _ _ _ _ hx.symm] at hk
  rw [getD_filterFrequencies (M := 2 * x.length) times x _ fr vec hx.symm rfl k hk]
  have hfun : (fun m : ZMod (2 * x.length) =>
      toC (respAt (fun _ => ((1, 0) : Cx)) fr (fftfreq (2 * x.length) (sigDt times) m.val)))
      = fun _ => (1 : ℂ) := by
    funext m; exact toC_respAt_one _ _
  rw [hfun, filtZ_one, padZ_natCast _ _ _ hk (by omega)]
  simp

/-- **no dependence on the absolute position of the time grid** -/
theorem filter_offset_free (times times' x : List ℝ) (H : ℝ → Cx) (fr vec : Bool)
    (hl : times.length = times'.length) (hdt : sigDt times = sigDt times') :
    filterFrequencies times x H fr vec = filterFrequencies times' x H fr vec := by
  simp [filterFrequencies, hl, hdt]

end DftProps
end
