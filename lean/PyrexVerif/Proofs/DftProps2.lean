import PyrexVerif.Proofs.DftProps
import Mathlib.Tactic.FieldSimp
/-!
# C05, second part: Parseval, passivity, whole-sample delays
-/
open Finset ZMod
open scoped ZMod ComplexConjugate

noncomputable section
namespace DftProps
open PyrexR DftCore DftBridge DftFilter DftModel

section
variable {M : ℕ} [NeZero M]

lemma sum_cnormSq_list (l : List Cx) (hl : l.length = M) :
    (l.map cnormSq).sum = ∑ j : ZMod M, Complex.normSq (fnOf (M := M) l j) := by
  rw [sum_map_eq_sum_range cnormSq (0 : Cx), sum_zmod_eq_sum_range_real, hl]
  refine Finset.sum_congr rfl fun i hi => ?_
  have hi' : i < M := Finset.mem_range.mp hi
  simp only [fnOf]
  rw [ZMod.val_natCast_of_lt hi', normSq_toC]

end

/-- **Parseval** for the model's transform -/
theorem parseval_list (xs : List Cx) (hpos : 0 < xs.length) :
    ((PyrexR.dft xs).map cnormSq).sum = (xs.length : ℝ) * (xs.map cnormSq).sum := by
  have : NeZero xs.length := ⟨by omega⟩
  rw [sum_cnormSq_list (M := xs.length) _ (by simp), sum_cnormSq_list (M := xs.length) xs rfl,
    dft_bridge xs rfl, parseval_normSq]

lemma normSq_respAt_le (H : ℝ → Cx) (hH : ∀ f, cnormSq (H f) ≤ 1) (fr : Bool) (f : ℝ) :
    Complex.normSq (toC (respAt H fr f)) ≤ 1 := by
  rw [normSq_toC]
  unfold respAt
  cases fr
  · simpa using hH f
  · simp only [if_true]
    split_ifs
    · have := hH |f|
      simpa [cnormSq, cconj] using this
    · exact hH |f|

/-- **passivity**: a response of modulus at most one never increases `Σ v²` -/
theorem filter_passive (times x : List ℝ) (H : ℝ → Cx) (fr vec : Bool)
    (hx : x.length = times.length) (hH : ∀ f, cnormSq (H f) ≤ 1) :
    ((filterFrequencies times x H fr vec).map (fun v => v ^ 2)).sum ≤ (x.map (fun v => v ^ 2)).sum := by
  rcases Nat.eq_zero_or_pos times.length with h0 | hpos
  · rw [filterFrequencies_nil _ _ _ _ _ h0]
    have : x = [] := List.length_eq_zero_iff.mp (by omega)
    simp [this]
  have : NeZero (2 * x.length) := ⟨by omega⟩
  rw [sum_map_eq_sum_range (fun v => v ^ 2) (0 : ℝ), sum_map_eq_sum_range (fun v => v ^ 2) (0 : ℝ),
    length_filterFrequencies _ _ _ _ _ hx.symm]
  set Hb : ZMod (2 * x.length) → ℂ :=
    fun m => toC (respAt H fr (fftfreq (2 * x.length) (sigDt times) m.val)) with hHb
  have h1 : ∀ k ∈ range x.length, ((filterFrequencies times x H fr vec).getD k 0) ^ 2
      ≤ Complex.normSq (filtZ (M := 2 * x.length) x.length (fun i => x.getD i 0) Hb (k : ZMod (2 * x.length))) := by
    intro k hk
    have hk' : k < x.length := Finset.mem_range.mp hk
    rw [getD_filterFrequencies (M := 2 * x.length) times x H fr vec hx.symm rfl k hk',
      Complex.normSq_apply]
    nlinarith [mul_self_nonneg (filtZ (M := 2 * x.length) x.length (fun i => x.getD i 0) Hb (k : ZMod (2 * x.length))).im]
  refine le_trans (Finset.sum_le_sum h1) ?_
  refine le_trans ?_ (filtZ_passive (M := 2 * x.length) x.length (by omega) (fun i => x.getD i 0) Hb
    (fun m => normSq_respAt_le H hH fr _))
  rw [sum_zmod_eq_sum_range_real]
  exact Finset.sum_le_sum_of_subset_of_nonneg (Finset.range_mono (by omega))
    (fun i _ _ => Complex.normSq_nonneg _)

/-! ### whole-sample delays -/

/-- signed bin index of `fftfreq` -/
def binIdx (M m : ℕ) : ℤ := if m < (M - 1) / 2 + 1 then (m : ℤ) else (m : ℤ) - (M : ℤ)

lemma fftfreq_eq (M : ℕ) (d : ℝ) (m : ℕ) : fftfreq M d m = (binIdx M m : ℝ) * (1 / ((M : ℝ) * d)) := by
  unfold fftfreq binIdx
  split_ifs <;> simp [RofNat, RofInt]

lemma binIdx_cast (M m : ℕ) : ((binIdx M m : ℤ) : ZMod M) = (m : ZMod M) := by
  unfold binIdx
  split_ifs <;> simp

section
variable {M : ℕ} [NeZero M]

/-- the delay response `exp(−2πi f d dt)` on the grid of `fftfreq` is the character `e(−d·m/M)` -/
lemma toC_delay_bin (dt : ℝ) (hdt : dt ≠ 0) (d m : ℕ) :
    toC (cis (-(2 * Rpi * fftfreq M dt m * (RofNat d * dt))))
      = (stdAddChar (-((d : ZMod M) * (m : ZMod M))) : ℂ) := by
  have hM : (M : ℝ) ≠ 0 := Nat.cast_ne_zero.mpr (NeZero.ne M)
  have hMc : (M : ℂ) ≠ 0 := Nat.cast_ne_zero.mpr (NeZero.ne M)
  have hdtc : (dt : ℂ) ≠ 0 := Complex.ofReal_ne_zero.mpr hdt
  rw [toC_cis, fftfreq_eq]
  have hz : -((d : ZMod M) * (m : ZMod M)) = ((-(binIdx M m * (d : ℤ)) : ℤ) : ZMod M) := by
    push_cast
    rw [binIdx_cast]
    ring
  rw [hz, ZMod.stdAddChar_coe]
  congr 1
  simp only [Rpi, RofNat]
  push_cast
  field_simp

omit [NeZero M] in
lemma val_sub_cast (k d : ℕ) (hk : k < M) (hd : d ≤ M) :
    ((k : ZMod M) - (d : ZMod M)).val = if d ≤ k then k - d else M + k - d := by
  split_ifs with h
  · rw [← Nat.cast_sub h, ZMod.val_natCast_of_lt (by omega)]
  · have : (k : ZMod M) - (d : ZMod M) = ((M + k - d : ℕ) : ZMod M) := by
      rw [Nat.cast_sub (by omega), Nat.cast_add, ZMod.natCast_self, zero_add]
    rw [this, ZMod.val_natCast_of_lt (by omega)]

end

lemma respAt_delay (τ : ℝ) (fr : Bool) (f : ℝ) :
    respAt (fun f => cis (-(2 * Rpi * f * τ))) fr f = cis (-(2 * Rpi * f * τ)) := by
  unfold respAt
  cases fr
  · simp
  · simp only [if_true]
    split_ifs with h
    · rw [abs_of_neg h]
      simp only [cconj, cis, Rcos, Rsin]
      refine Prod.ext ?_ ?_
      · simp only
        rw [show -(2 * Rpi * -f * τ) = -(-(2 * Rpi * f * τ)) by ring, Real.cos_neg]
      · simp only
        rw [show -(2 * Rpi * -f * τ) = -(-(2 * Rpi * f * τ)) by ring, Real.sin_neg, neg_neg]
    · rw [abs_of_nonneg (not_lt.mp h)]

/-- **a pure delay of `d ≤ 2N` samples**: sample `k` of the output is the sample `k−d` of the zero-padded,
`2N`-periodic input -/
theorem filter_delay_general (times x : List ℝ) (d : ℕ) (fr vec : Bool)
    (hx : x.length = times.length) (hdt : sigDt times ≠ 0) (hd : d ≤ 2 * x.length)
    (k : ℕ) (hk : k < x.length) :
    (filterFrequencies times x (fun f => cis (-(2 * Rpi * f * (RofNat d * sigDt times)))) fr vec).getD k 0
      = if d ≤ k then x.getD (k - d) 0
        else if 2 * x.length + k - d < x.length then x.getD (2 * x.length + k - d) 0 else 0 := by
  have : NeZero (2 * x.length) := ⟨by omega⟩
  rw [getD_filterFrequencies (M := 2 * x.length) times x _ fr vec hx.symm rfl k hk]
  have hfun : (fun m : ZMod (2 * x.length) =>
      toC (respAt (fun f => cis (-(2 * Rpi * f * (RofNat d * sigDt times)))) fr
        (fftfreq (2 * x.length) (sigDt times) m.val)))
      = fun m => (stdAddChar (-((d : ZMod (2 * x.length)) * m)) : ℂ) := by
    funext m
    rw [respAt_delay, toC_delay_bin (M := 2 * x.length) _ hdt, ZMod.natCast_zmod_val]
  rw [hfun, filtZ_delay]
  simp only [padZ]
  rw [val_sub_cast (M := 2 * x.length) k d (by omega) hd]
  split_ifs with h1 h2 h3
  all_goals first | omega | simp

end DftProps
end
