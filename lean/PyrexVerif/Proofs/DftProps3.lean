import PyrexVerif.Proofs.DftProps2
/-!
# C05, third part: `force_real` = Hermitian symmetrisation
-/
open Finset ZMod
open scoped ZMod ComplexConjugate

noncomputable section
namespace DftProps
open PyrexR DftCore DftBridge DftFilter DftModel

/-- a response table with its two self-conjugate bins (DC `0`, Nyquist `N`) replaced by their real parts -/
def hermTable (N : ℕ) (resp : List Cx) : List Cx :=
  (List.range resp.length).map fun m =>
    if m = 0 ∨ m = N then (((resp.getD m 0).1, 0) : Cx) else resp.getD m 0

@[simp] lemma length_hermTable (N : ℕ) (resp : List Cx) : (hermTable N resp).length = resp.length := by
  simp [hermTable]

lemma getD_hermTable (N : ℕ) (resp : List Cx) (m : ℕ) (hm : m < resp.length) :
    (hermTable N resp).getD m 0
      = if m = 0 ∨ m = N then (((resp.getD m 0).1, 0) : Cx) else resp.getD m 0 := by
  simp [hermTable, List.getD_eq_getElem?_getD, hm]

lemma binIdx_neg (N v : ℕ) (hN : 0 < N) (_hv0 : v ≠ 0) (hvN : v ≠ N) (hv : v < 2 * N) :
    binIdx (2 * N) (2 * N - v) = -binIdx (2 * N) v := by
  unfold binIdx
  have h1 : (2 * N - 1) / 2 + 1 = N := by omega
  rw [h1]
  split_ifs <;> push_cast [Nat.cast_sub (le_of_lt hv)] <;> omega

lemma binIdx_ne_zero (N v : ℕ) (hN : 0 < N) (hv0 : v ≠ 0) (hv : v < 2 * N) : binIdx (2 * N) v ≠ 0 := by
  unfold binIdx
  split_ifs <;> omega

lemma toC_respAt_neg (H : ℝ → Cx) (f : ℝ) (hf : f ≠ 0) :
    toC (respAt H true (-f)) = conj (toC (respAt H true f)) := by
  unfold respAt
  simp only [if_true, abs_neg]
  rcases lt_or_gt_of_ne hf with h | h
  · have h' : ¬ (-f < 0) := by linarith
    simp [h, h']
  · have h' : -f < 0 := by linarith
    have h'' : ¬ (f < 0) := by linarith
    simp [h', h'']

/-- **`force_real` yields exactly the real signal of the Hermitian-symmetrised response**: filtering with the
`force_real` table whose DC and Nyquist bins are replaced by their real parts gives, sample by sample, a
complex number whose real part is the `force_real` output and whose imaginary part is zero. -/
theorem force_real_hermitian (times x : List ℝ) (H : ℝ → Cx) (vec : Bool)
    (hx : x.length = times.length) (hdt : sigDt times ≠ 0) (k : ℕ) (hk : k < x.length) :
    (filterCore x (hermTable x.length
        (getFilterResponse (fftfreqs (2 * x.length) (sigDt times)) H true vec))).getD k 0
      = ((filterFrequencies times x H true vec).getD k 0, 0) := by
  have hNpos : 0 < x.length := by omega
  have : NeZero (2 * x.length) := ⟨by omega⟩
  set N := x.length with hNdef
  set resp := getFilterResponse (fftfreqs (2 * N) (sigDt times)) H true vec with hresp
  have hrl : resp.length = 2 * N := by simp [hresp]
  set Hb : ZMod (2 * N) → ℂ := fun m => toC (respAt H true (fftfreq (2 * N) (sigDt times) m.val)) with hHb
  have hHb' : fnOf (M := 2 * N) resp = Hb := by
    funext m
    have hm : m.val < 2 * N := ZMod.val_lt m
    simp only [fnOf, hHb]
    rw [getD_getFilterResponse _ _ _ _ _ (by simp [hm]), getD_fftfreqs _ _ _ hm]
  -- the table read as a function is the symmetrised response
  have hT : fnOf (M := 2 * N) (hermTable N resp) = fun m => (Hb m + conj (Hb (-m))) / 2 := by
    funext m
    have hm : m.val < 2 * N := ZMod.val_lt m
    have hfn : toC (resp.getD m.val 0) = Hb m := congrFun hHb' m
    simp only [fnOf]
    rw [getD_hermTable _ _ _ (by omega)]
    by_cases h0 : m.val = 0
    · have hm0 : m = 0 := (ZMod.val_eq_zero m).mp h0
      simp only [h0, true_or, if_true]
      rw [hm0, neg_zero, Complex.add_conj]
      have hfn0 : toC (resp.getD 0 0) = Hb 0 := by
        have := hfn
        rwa [hm0, ZMod.val_zero] at this
      have : (resp.getD 0 0).1 = (Hb 0).re := by rw [← hfn0]; rfl
      rw [this]
      apply Complex.ext <;> simp
    by_cases hN : m.val = N
    · have hmm : -m = m := by
        have h2 : m + m = 0 := by
          rw [← ZMod.natCast_zmod_val m, hN, ← Nat.cast_add, show N + N = 2 * N by ring,
            ZMod.natCast_self]
        exact neg_eq_of_add_eq_zero_left h2
      simp only [hN, or_true, if_true]
      rw [hmm, Complex.add_conj]
      have : (resp.getD N 0).1 = (Hb m).re := by
        rw [← hfn, hN]; rfl
      rw [this]
      apply Complex.ext <;> simp
    · have hne : m ≠ 0 := fun h => h0 ((ZMod.val_eq_zero m).mpr h)
      simp only [h0, hN, or_self, if_false]
      rw [hfn]
      have hneg : (-m).val = 2 * N - m.val := by rw [ZMod.neg_val, if_neg hne]
      have hconj : conj (Hb (-m)) = Hb m := by
        simp only [hHb]
        rw [hneg, fftfreq_eq, binIdx_neg N m.val hNpos h0 hN hm]
        have hf : fftfreq (2 * N) (sigDt times) m.val ≠ 0 := by
          rw [fftfreq_eq]
          have h1 : (binIdx (2 * N) m.val : ℝ) ≠ 0 :=
            Int.cast_ne_zero.mpr (binIdx_ne_zero N m.val hNpos h0 hm)
          have h2 : ((2 * N : ℕ) : ℝ) ≠ 0 := Nat.cast_ne_zero.mpr (by omega)
          have h3 : (1 / (((2 * N : ℕ) : ℝ) * sigDt times)) ≠ 0 :=
            one_div_ne_zero (mul_ne_zero h2 hdt)
          exact mul_ne_zero h1 h3
        have hfe : ((-binIdx (2 * N) m.val : ℤ) : ℝ) * (1 / (((2 * N : ℕ) : ℝ) * sigDt times))
            = -fftfreq (2 * N) (sigDt times) m.val := by
          rw [fftfreq_eq]; push_cast; ring
        rw [hfe, toC_respAt_neg H _ hf, Complex.conj_conj]
      rw [hconj]
      ring
  -- assemble
  have hb := filterCore_bridge (M := 2 * N) x (hermTable N resp) (by omega) (by simp [hrl])
  have h1 := congrFun hb (k : ZMod (2 * N))
  simp only [fnOf] at h1
  rw [ZMod.val_natCast_of_lt (by omega)] at h1
  apply toC_injective
  rw [h1, hT, ← filtZ_re]
  rw [getD_filterFrequencies (M := 2 * N) times x H true vec hx.symm rfl k hk]
  apply Complex.ext
  · simp only [Complex.ofReal_re, toC_re]; rfl
  · simp

/-- the symmetrised table is Hermitian: bin `2N−m` is the conjugate of bin `m`, bins `0` and `N` are real -/
theorem hermTable_hermitian (times : List ℝ) (N : ℕ) (H : ℝ → Cx) (vec : Bool) (hN : 0 < N)
    (hdt : sigDt times ≠ 0) (m : ℕ) (hm : m < 2 * N) :
    (hermTable N (getFilterResponse (fftfreqs (2 * N) (sigDt times)) H true vec)).getD ((2 * N - m) % (2 * N)) 0
      = cconj ((hermTable N (getFilterResponse (fftfreqs (2 * N) (sigDt times)) H true vec)).getD m 0) := by
  set resp := getFilterResponse (fftfreqs (2 * N) (sigDt times)) H true vec with hresp
  have hrl : resp.length = 2 * N := by simp [hresp]
  have hlt : (2 * N - m) % (2 * N) < 2 * N := Nat.mod_lt _ (by omega)
  rw [getD_hermTable _ _ _ (by omega), getD_hermTable _ _ _ (by omega)]
  by_cases h0 : m = 0
  · subst h0
    simp [cconj]
  by_cases hmN : m = N
  · subst hmN
    have : (2 * m - m) % (2 * m) = m := by
      rw [show 2 * m - m = m by omega, Nat.mod_eq_of_lt (by omega)]
    simp [this, cconj]
  · have hmod : (2 * N - m) % (2 * N) = 2 * N - m := Nat.mod_eq_of_lt (by omega)
    have c1 : ¬ ((2 * N - m) % (2 * N) = 0 ∨ (2 * N - m) % (2 * N) = N) := by
      rw [hmod]; omega
    have c2 : ¬ (m = 0 ∨ m = N) := by omega
    rw [if_neg c1, if_neg c2, hmod]
    rw [hresp, getD_getFilterResponse _ _ _ _ _ (by simp; omega), getD_getFilterResponse _ _ _ _ _ (by simp [hm]),
      getD_fftfreqs _ _ _ (by omega), getD_fftfreqs _ _ _ hm]
    apply toC_injective
    rw [toC_cconj, fftfreq_eq, binIdx_neg N m hN h0 hmN hm]
    have hf : fftfreq (2 * N) (sigDt times) m ≠ 0 := by
      rw [fftfreq_eq]
      have h1 : (binIdx (2 * N) m : ℝ) ≠ 0 := Int.cast_ne_zero.mpr (binIdx_ne_zero N m hN h0 hm)
      have h2 : ((2 * N : ℕ) : ℝ) ≠ 0 := Nat.cast_ne_zero.mpr (by omega)
      exact mul_ne_zero h1 (one_div_ne_zero (mul_ne_zero h2 hdt))
    have hfe : ((-binIdx (2 * N) m : ℤ) : ℝ) * (1 / (((2 * N : ℕ) : ℝ) * sigDt times))
        = -fftfreq (2 * N) (sigDt times) m := by
      rw [fftfreq_eq]; push_cast; ring
    rw [hfe, toC_respAt_neg H _ hf]

end DftProps
end
