import PyrexVerif.R.Earth
import Mathlib.Analysis.SpecialFunctions.Sqrt
import Mathlib.Analysis.SpecialFunctions.Pow.Real
import Mathlib.Tactic.Linarith
import Mathlib.Tactic.NormNum
import Mathlib.Tactic.Ring
import Mathlib.Tactic.FieldSimp
import Mathlib.Tactic.LinearCombination
import Mathlib.Tactic.Positivity
/-! Helper lemmas for C15: line/sphere geometry, rotations about the vertical, trapezoid weights. -/
noncomputable section
namespace PyrexR

/-- rotation about the vertical axis through the Earth's centre (`c = cos φ`, `s = sin φ`) -/
def rotZ (c s : ℝ) (v : EV3) : EV3 := ⟨c * v.x - s * v.y, s * v.x + c * v.y, v.z⟩
def smul3 (k : ℝ) (v : EV3) : EV3 := ⟨k * v.x, k * v.y, k * v.z⟩

theorem sq_sqrt_disc {D : ℝ} (h : 0 ≤ D) : Real.sqrt D * Real.sqrt D = D := Real.mul_self_sqrt h

theorem norm3_eq (v : EV3) : norm3 v = Real.sqrt (dot3 v v) := rfl

theorem dot3_rotZ (c s : ℝ) (h : c * c + s * s = 1) (a b : EV3) : dot3 (rotZ c s a) (rotZ c s b) = dot3 a b := by
  simp only [dot3, rotZ]
  linear_combination (a.x * b.x + a.y * b.y) * h

theorem norm3_rotZ (c s : ℝ) (h : c * c + s * s = 1) (a : EV3) : norm3 (rotZ c s a) = norm3 a := by
  rw [norm3_eq, norm3_eq, dot3_rotZ c s h]

theorem normalize_rotZ (c s : ℝ) (h : c * c + s * s = 1) (d : EV3) :
    normalizeE (rotZ c s d) = rotZ c s (normalizeE d) := by
  unfold normalizeE
  rw [norm3_rotZ c s h]
  by_cases hz : norm3 d ≤ 0
  · simp [hz]
  · simp only [hz, if_false]
    have : norm3 d ≠ 0 := fun h0 => hz (le_of_eq h0)
    simp only [rotZ, EV3.mk.injEq]
    refine ⟨?_, ?_, trivial⟩ <;> field_simp

theorem samplePoint_rotZ (c s : ℝ) (e u : EV3) (dist t : ℝ) :
    samplePoint (rotZ c s e) (rotZ c s u) dist t = rotZ c s (samplePoint e u dist t) := by
  simp only [samplePoint, rotZ, EV3.mk.injEq]
  refine ⟨?_, ?_, trivial⟩ <;> ring

theorem sampleRadius_rotZ (c s : ℝ) (h : c * c + s * s = 1) (e u : EV3) (dist t : ℝ) :
    sampleRadius (rotZ c s e) (rotZ c s u) dist t = sampleRadius e u dist t := by
  unfold sampleRadius
  rw [samplePoint_rotZ, norm3_rotZ c s h]

theorem chordDisc_rotZ (c s : ℝ) (h : c * c + s * s = 1) (rad : ℝ) (e u : EV3) :
    chordDisc rad (rotZ c s e) (rotZ c s u) = chordDisc rad e u := by
  unfold chordDisc; rw [dot3_rotZ c s h, dot3_rotZ c s h]

theorem chordDist_rotZ (c s : ℝ) (h : c * c + s * s = 1) (rad : ℝ) (e u : EV3) :
    chordDist rad (rotZ c s e) (rotZ c s u) = chordDist rad e u := by
  unfold chordDist; rw [dot3_rotZ c s h, chordDisc_rotZ c s h]

/-- squared radius along the line for a unit direction -/
theorem dot3_samplePoint (e u : EV3) (hu : dot3 u u = 1) (dist t : ℝ) :
    dot3 (samplePoint e u dist t) (samplePoint e u dist t)
      = dot3 e e + 2 * (t * dist) * dot3 e u + (t * dist) ^ 2 := by
  simp only [dot3, samplePoint] at *
  linear_combination ((t * dist) ^ 2) * hu

/-- `|e + τ u|² − R² = (τ − τ₁)(τ − τ₂)` with `τ₁,₂ = −d ∓ √disc` -/
theorem line_sphere_factor (rad : ℝ) (e u : EV3) (hu : dot3 u u = 1) (hD : 0 ≤ chordDisc rad e u) (τ : ℝ) :
    dot3 e e + 2 * τ * dot3 e u + τ ^ 2 - rad * rad
      = (τ - (-(dot3 e u) - Real.sqrt (chordDisc rad e u))) * (τ - chordDist rad e u) := by
  have hs := sq_sqrt_disc hD
  unfold chordDist
  simp only [Rsqrt]
  have hd : chordDisc rad e u = dot3 e u * dot3 e u - dot3 e e + rad * rad := rfl
  linear_combination hs + hd

theorem normalize_unit (d : EV3) (h : 0 < norm3 d) : dot3 (normalizeE d) (normalizeE d) = 1 := by
  have hn : ¬ norm3 d ≤ 0 := not_le.mpr h
  have hne : norm3 d ≠ 0 := ne_of_gt h
  have hsq : norm3 d * norm3 d = dot3 d d := by
    rw [norm3_eq]; exact Real.mul_self_sqrt (by simp only [dot3]; nlinarith [mul_self_nonneg d.x, mul_self_nonneg d.y, mul_self_nonneg d.z])
  simp only [normalizeE, hn, if_false, dot3] at *
  field_simp
  linarith

theorem norm3_smul (k : ℝ) (hk : 0 < k) (d : EV3) : norm3 (smul3 k d) = k * norm3 d := by
  rw [norm3_eq, norm3_eq]
  have : dot3 (smul3 k d) (smul3 k d) = k ^ 2 * dot3 d d := by simp only [dot3, smul3]; ring
  rw [this, Real.sqrt_mul (by positivity), Real.sqrt_sq hk.le]

theorem normalize_smul (k : ℝ) (hk : 0 < k) (d : EV3) (h : 0 < norm3 d) :
    normalizeE (smul3 k d) = normalizeE d := by
  have hn : ¬ norm3 d ≤ 0 := not_le.mpr h
  have hkn : ¬ k * norm3 d ≤ 0 := not_le.mpr (mul_pos hk h)
  have hne : norm3 d ≠ 0 := ne_of_gt h
  unfold normalizeE
  rw [norm3_smul k hk]
  simp only [hn, hkn, if_false, smul3, EV3.mk.injEq]
  refine ⟨?_, ?_, ?_⟩ <;> field_simp

/-- trapezoid rule on a uniform grid `t_i = (k+i)·h`: `T = h·(½y₀ + y₁ + … + y_{n−2} + ½y_{n−1})` -/
theorem trapz_uniform (h : ℝ) (ys : List ℝ) (y0 yl : ℝ) (k : ℕ) :
    trapz (y0 :: (ys ++ [yl])) ((List.range' k (ys.length + 2)).map (fun (i : ℕ) => (i : ℝ) * h))
      = h * (y0 / 2 + ys.sum + yl / 2) := by
  induction ys generalizing y0 k with
  | nil =>
    simp [trapz, List.range']
    ring
  | cons y ys ih =>
    have hr : List.range' k ((y :: ys).length + 2) = k :: List.range' (k + 1) (ys.length + 2) := by
      simp [List.range'_succ]
    rw [hr]
    have hr2 : List.range' (k + 1) (ys.length + 2) = (k + 1) :: List.range' (k + 2) (ys.length + 1) := by
      simp [List.range'_succ]
    have step : trapz (y0 :: ((y :: ys) ++ [yl])) ((k :: List.range' (k + 1) (ys.length + 2)).map (fun (i : ℕ) => (i : ℝ) * h))
        = (((k + 1 : ℕ) : ℝ) * h - (k : ℝ) * h) * (y + y0) / 2
          + trapz (y :: (ys ++ [yl])) ((List.range' (k + 1) (ys.length + 2)).map (fun (i : ℕ) => (i : ℝ) * h)) := by
      rw [hr2]; simp [trapz]
    rw [step, ih y (k + 1)]
    simp only [List.sum_cons]
    push_cast
    ring

end PyrexR
end
