import PyrexVerif.R.Earth
import Mathlib.Tactic.Linarith
import Mathlib.Tactic.NormNum
import Mathlib.Tactic.Ring
/-! Helper lemmas for C15: shell tables built by `mkShells` from sorted bounds, `np.piecewise` fold. -/
namespace PyrexR

/-- the fold of `density`, from an arbitrary start value -/
noncomputable def densFold (rad r : ℝ) (shells : List Shell) (y0 : ℝ) : ℝ :=
  shells.foldl (fun y s => if s.lower ≤ r ∧ r < s.upper then evalPoly s.coeffs (r / rad) else y) y0

theorem density_eq_densFold (M : EarthModel) (r : ℝ) : M.density r = densFold M.radius r M.shells 0 := rfl

theorem densFold_none (rad r : ℝ) (shells : List Shell) (y0 : ℝ) (h : ∀ s ∈ shells, ¬ s.holds r) :
    densFold rad r shells y0 = y0 := by
  induction shells generalizing y0 with
  | nil => rfl
  | cons s rest ih =>
    have hs : ¬ (s.lower ≤ r ∧ r < s.upper) := h s (List.mem_cons_self)
    simp only [densFold, List.foldl_cons, if_neg hs]
    exact ih y0 (fun t ht => h t (List.mem_cons_of_mem _ ht))

theorem densFold_last (rad r : ℝ) (pre post : List Shell) (s : Shell) (y0 : ℝ) (hs : s.holds r)
    (hpost : ∀ t ∈ post, ¬ t.holds r) :
    densFold rad r (pre ++ s :: post) y0 = evalPoly s.coeffs (r / rad) := by
  have hs' : s.lower ≤ r ∧ r < s.upper := hs
  simp only [densFold, List.foldl_append, List.foldl_cons, if_pos hs']
  exact densFold_none rad r post _ hpost

/-- every shell made by `mkShells lo us ps` from sorted bounds starts at or above `lo` -/
theorem mkShells_lower_ge (lo : ℝ) (us : List ℝ) (ps : List (List ℝ))
    (hs : (lo :: us).Pairwise (· ≤ ·)) : ∀ t ∈ mkShells lo us ps, lo ≤ t.lower := by
  induction us generalizing lo ps with
  | nil => intro t ht; simp [mkShells] at ht
  | cons u us ih =>
    cases ps with
    | nil => intro t ht; simp [mkShells] at ht
    | cons p ps =>
      intro t ht
      simp only [mkShells, List.mem_cons] at ht
      rcases ht with rfl | ht
      · exact le_refl _
      · have h1 : lo ≤ u := (List.pairwise_cons.mp hs).1 u (List.mem_cons_self)
        have h2 := ih u ps (List.pairwise_cons.mp hs).2 t ht
        linarith

/-- every shell ends at or below the last bound -/
theorem mkShells_upper_le (lo top : ℝ) (us : List ℝ) (ps : List (List ℝ))
    (htop : ∀ u ∈ us, u ≤ top) : ∀ t ∈ mkShells lo us ps, t.upper ≤ top := by
  induction us generalizing lo ps with
  | nil => intro t ht; simp [mkShells] at ht
  | cons u us ih =>
    cases ps with
    | nil => intro t ht; simp [mkShells] at ht
    | cons p ps =>
      intro t ht
      simp only [mkShells, List.mem_cons] at ht
      rcases ht with rfl | ht
      · exact htop u (List.mem_cons_self)
      · exact ih u ps (fun v hv => htop v (List.mem_cons_of_mem _ hv)) t ht

/-- the shell conditions of a sorted table are pairwise exclusive -/
theorem mkShells_exclusive (lo : ℝ) (us : List ℝ) (ps : List (List ℝ))
    (hs : (lo :: us).Pairwise (· ≤ ·)) (r : ℝ) :
    (mkShells lo us ps).Pairwise (fun s t => ¬ (s.holds r ∧ t.holds r)) := by
  induction us generalizing lo ps with
  | nil => simp [mkShells]
  | cons u us ih =>
    cases ps with
    | nil => simp [mkShells]
    | cons p ps =>
      simp only [mkShells]
      refine List.pairwise_cons.mpr ⟨?_, ih u ps (List.pairwise_cons.mp hs).2⟩
      intro t ht ⟨h1, h2⟩
      have := mkShells_lower_ge u us ps (List.pairwise_cons.mp hs).2 t ht
      have h3 : r < u := h1.2
      have h4 : t.lower ≤ r := h2.1
      linarith

/-- … and cover `[lo, last bound)` -/
theorem mkShells_cover (lo : ℝ) (us : List ℝ) (ps : List (List ℝ)) (hlen : us.length = ps.length)
    (hne : us ≠ []) (r : ℝ) (h1 : lo ≤ r) (h2 : r < us.getLast hne) :
    ∃ s ∈ mkShells lo us ps, s.holds r := by
  induction us generalizing lo ps with
  | nil => exact absurd rfl hne
  | cons u us ih =>
    cases ps with
    | nil => simp at hlen
    | cons p ps =>
      by_cases hr : r < u
      · exact ⟨⟨lo, u, p⟩, by simp [mkShells], ⟨h1, hr⟩⟩
      · have hne' : us ≠ [] := by
          intro h; subst h; simp at h2; exact hr h2
        have hl : us.length = ps.length := by simpa using hlen
        have h2' : r < us.getLast hne' := by rwa [List.getLast_cons hne'] at h2
        obtain ⟨s, hs, hh⟩ := ih u ps hl hne' (not_lt.mp hr) h2'
        exact ⟨s, by simp [mkShells, hs], hh⟩

theorem sorted_le_getLast (l : List ℝ) (h : l.Pairwise (· ≤ ·)) (hne : l ≠ []) :
    ∀ u ∈ l, u ≤ l.getLast hne := by
  induction l with
  | nil => exact absurd rfl hne
  | cons x xs ih =>
    intro u hu
    by_cases hx : xs = []
    · subst hx; simp at hu; subst hu; simp
    · rw [List.getLast_cons hx]
      rcases List.mem_cons.mp hu with rfl | hu
      · exact (List.pairwise_cons.mp h).1 _ (List.getLast_mem hx)
      · exact ih (List.pairwise_cons.mp h).2 hx u hu

/-- value of `density` on the (unique) shell that contains `r` -/
theorem density_of_mem (M : EarthModel) (r : ℝ)
    (hex : M.shells.Pairwise (fun s t => ¬ (s.holds r ∧ t.holds r)))
    (s : Shell) (hs : s ∈ M.shells) (hr : s.holds r) :
    M.density r = evalPoly s.coeffs (r / M.radius) := by
  obtain ⟨pre, post, hsplit⟩ := List.append_of_mem hs
  rw [density_eq_densFold, hsplit]
  apply densFold_last _ _ _ _ _ _ hr
  intro t ht ⟨h1, h2⟩
  rw [hsplit] at hex
  have := (List.pairwise_append.mp hex).2.1
  exact (List.pairwise_cons.mp this).1 t ht ⟨hr, ⟨h1, h2⟩⟩

end PyrexR
