import PyrexVerif.Proofs.EarthShells
import Mathlib.Tactic.Positivity
import Mathlib.Analysis.SpecialFunctions.Sqrt
/-! Facts about the two extracted shell tables (re-checked whenever the constants are regenerated). -/
noncomputable section
namespace PyrexR

/-- bounds of a generated model as reals -/
def genBounds (g : PyrexGen.Earth.Model) : List ℝ := g.bounds.map (boundR (decR g.radius))
def genPolys (g : PyrexGen.Earth.Model) : List (List ℝ) := g.polys.map (fun p => p.map decR)

theorem ofGen_shells (g : PyrexGen.Earth.Model) :
    (EarthModel.ofGen g).shells = mkShells 0 (genBounds g) (genPolys g) := rfl
theorem ofGen_radius (g : PyrexGen.Earth.Model) : (EarthModel.ofGen g).radius = decR g.radius := rfl

theorem prem_radius : prem.radius = 6371000 := by
  simp [prem, ofGen_radius, PyrexGen.Earth.prem, decR]

theorem prem_bounds : genBounds PyrexGen.Earth.prem =
    [1221500, 3480000, 5701000, 5771000, 5971000, 6151000, 6346600, 6356000, 6368000, 6371000] := by
  simp [genBounds, PyrexGen.Earth.prem, boundR, decR]

theorem cmc_radius : coreMantleCrust.radius = 6378140 := by
  simp [coreMantleCrust, ofGen_radius, PyrexGen.Earth.coreMantleCrust, decR]

theorem cmc_bounds : genBounds PyrexGen.Earth.coreMantleCrust =
    [Real.sqrt 12000000000000, 6378140 - 40000, 6378140] := by
  simp [genBounds, PyrexGen.Earth.coreMantleCrust, boundR, decR]

theorem prem_sorted : ((0:ℝ) :: genBounds PyrexGen.Earth.prem).Pairwise (· < ·) := by
  rw [prem_bounds]; simp only [List.pairwise_cons, List.mem_cons, List.not_mem_nil, or_false, forall_eq_or_imp,
    forall_eq, List.Pairwise.nil, and_true, IsEmpty.forall_iff, implies_true]; norm_num

theorem sqrt12e12_bounds : (3464101:ℝ) < Real.sqrt 12000000000000 ∧ Real.sqrt 12000000000000 < 3464102 := by
  constructor
  · rw [Real.lt_sqrt (by norm_num)]; norm_num
  · rw [Real.sqrt_lt' (by norm_num)]; norm_num

theorem cmc_sorted : ((0:ℝ) :: genBounds PyrexGen.Earth.coreMantleCrust).Pairwise (· < ·) := by
  rw [cmc_bounds]
  have := sqrt12e12_bounds
  simp only [List.pairwise_cons, List.mem_cons, List.not_mem_nil, or_false, forall_eq_or_imp,
    forall_eq, List.Pairwise.nil, and_true, IsEmpty.forall_iff, implies_true]
  refine ⟨⟨?_, ?_, ?_⟩, ⟨?_, ?_⟩, ?_⟩ <;> linarith [this.1, this.2]

theorem prem_shells_explicit : prem.shells =
    [⟨0, 1221500, [130885/10^4, 0, -88381/10^4]⟩,
     ⟨1221500, 3480000, [125815/10^4, -12638/10^4, -36426/10^4, -55281/10^4]⟩,
     ⟨3480000, 5701000, [79565/10^4, -64761/10^4, 55283/10^4, -30807/10^4]⟩,
     ⟨5701000, 5771000, [53197/10^4, -14836/10^4]⟩,
     ⟨5771000, 5971000, [112494/10^4, -80298/10^4]⟩,
     ⟨5971000, 6151000, [71089/10^4, -38045/10^4]⟩,
     ⟨6151000, 6346600, [2691/10^3, 6924/10^4]⟩,
     ⟨6346600, 6356000, [29/10]⟩,
     ⟨6356000, 6368000, [26/10]⟩,
     ⟨6368000, 6371000, [102/10^2]⟩] := by
  rw [prem, ofGen_shells, prem_bounds]
  simp [genPolys, PyrexGen.Earth.prem, decR, mkShells]
  norm_num

/-- every PREM polynomial is positive on its own shell -/
theorem prem_shell_pos : ∀ s ∈ prem.shells, ∀ r : ℝ, s.holds r → 0 < evalPoly s.coeffs (r / prem.radius) := by
  rw [prem_shells_explicit, prem_radius]
  intro s hs r hr
  obtain ⟨x, hx⟩ : ∃ x : ℝ, r = x * 6371000 := ⟨r / 6371000, by ring⟩
  subst hx
  have hxx : x * 6371000 / 6371000 = x := by ring
  rw [hxx]
  simp only [List.mem_cons, List.not_mem_nil, or_false] at hs
  rcases hs with rfl | rfl | rfl | rfl | rfl | rfl | rfl | rfl | rfl | rfl <;>
    obtain ⟨h1, h2⟩ := hr <;> simp only at h1 h2 <;>
    simp only [evalPoly, evalPolyFrom]
  · have : x < 0.2 := by linarith
    have : 0 ≤ x := by linarith
    nlinarith
  · have h3 : x < 0.55 := by linarith
    have h4 : 0.19 < x := by linarith
    have h5 : x * x < 0.55 * 0.55 := by nlinarith
    have h6 : x * x * x < 0.55 * 0.55 * 0.55 := by nlinarith
    nlinarith
  · have h3 : x < 0.895 := by linarith
    have h4 : 0.546 < x := by linarith
    have h5 : 0.546 * 0.546 < x * x := by nlinarith
    have h6 : x * x * x < 0.895 * 0.895 * 0.895 := by nlinarith
    nlinarith
  · have : x < 1 := by linarith
    linarith
  · have : x < 1 := by linarith
    linarith
  · have : x < 1 := by linarith
    linarith
  · have : 0 < x := by linarith
    linarith
  · norm_num
  · norm_num
  · norm_num

end PyrexR
end
