import PyrexVerif.R.Earth
import Mathlib.MeasureTheory.Integral.IntervalIntegral.Basic
import Mathlib.Tactic.Linarith
import Mathlib.Tactic.Ring
/-! Trapezoid rule versus the integral: per-cell oscillation bound (for C15). -/
noncomputable section
namespace PyrexR
open MeasureTheory

/-- `Σ (t_{i+1} − t_i)·(hi − lo)` over the cells of the partition -/
def cellErr (lo hi : ℝ → ℝ → ℝ) : List ℝ → ℝ
  | t0 :: t1 :: ts => (t1 - t0) * (hi t0 t1 - lo t0 t1) + cellErr lo hi (t1 :: ts)
  | _ => 0

/-- sum of the per-cell oscillation bounds -/
def oscSum (lo hi : ℝ → ℝ → ℝ) : List ℝ → ℝ
  | t0 :: t1 :: ts => (hi t0 t1 - lo t0 t1) + oscSum lo hi (t1 :: ts)
  | _ => 0

theorem cell_bounds (f : ℝ → ℝ) (a b l h : ℝ) (hab : a ≤ b) (hint : IntervalIntegrable f volume a b)
    (hb : ∀ x, a ≤ x → x ≤ b → l ≤ f x ∧ f x ≤ h) :
    (b - a) * l ≤ ∫ x in a..b, f x ∧ ∫ x in a..b, f x ≤ (b - a) * h := by
  constructor
  · have := intervalIntegral.integral_mono_on hab (intervalIntegrable_const (c := l)) hint
      (fun x hx => (hb x hx.1 hx.2).1)
    simpa [intervalIntegral.integral_const] using this
  · have := intervalIntegral.integral_mono_on hab hint (intervalIntegrable_const (c := h))
      (fun x hx => (hb x hx.1 hx.2).2)
    simpa [intervalIntegral.integral_const] using this

/-- trapezoid sum minus integral, bounded cell by cell -/
theorem trapz_cell_error (f : ℝ → ℝ) (lo hi : ℝ → ℝ → ℝ)
    (hint : ∀ a b, IntervalIntegrable f volume a b)
    (hb : ∀ a b x, a ≤ x → x ≤ b → lo a b ≤ f x ∧ f x ≤ hi a b)
    (t0 : ℝ) (ts : List ℝ) (hs : (t0 :: ts).Pairwise (· ≤ ·)) :
    |trapz ((t0 :: ts).map f) (t0 :: ts) - ∫ x in t0..((t0 :: ts).getLast (by simp)), f x|
      ≤ cellErr lo hi (t0 :: ts) := by
  induction ts generalizing t0 with
  | nil => simp [trapz, cellErr]
  | cons t1 ts ih =>
    have h01 : t0 ≤ t1 := (List.pairwise_cons.mp hs).1 t1 (List.mem_cons_self)
    have ih' := ih t1 (List.pairwise_cons.mp hs).2
    have hlast : (t0 :: t1 :: ts).getLast (by simp) = (t1 :: ts).getLast (by simp) := by
      rw [List.getLast_cons (by simp)]
    rw [hlast]
    have hsplit := intervalIntegral.integral_add_adjacent_intervals (hint t0 t1)
      (hint t1 ((t1 :: ts).getLast (by simp)))
    have hc := cell_bounds f t0 t1 (lo t0 t1) (hi t0 t1) h01 (hint t0 t1) (hb t0 t1)
    have hf0 := hb t0 t1 t0 (le_refl _) h01
    have hf1 := hb t0 t1 t1 h01 (le_refl _)
    have hw : 0 ≤ t1 - t0 := by linarith
    have htr : trapz ((t0 :: t1 :: ts).map f) (t0 :: t1 :: ts)
        = (t1 - t0) * (f t1 + f t0) / 2 + trapz ((t1 :: ts).map f) (t1 :: ts) := by
      simp [trapz]
    rw [htr, ← hsplit]
    simp only [cellErr]
    have hA : |(t1 - t0) * (f t1 + f t0) / 2 - ∫ x in t0..t1, f x| ≤ (t1 - t0) * (hi t0 t1 - lo t0 t1) := by
      rw [abs_le]
      constructor <;> nlinarith [hc.1, hc.2, hf0.1, hf0.2, hf1.1, hf1.2]
    have := abs_add_le ((t1 - t0) * (f t1 + f t0) / 2 - ∫ x in t0..t1, f x)
      (trapz ((t1 :: ts).map f) (t1 :: ts) - ∫ x in t1..((t1 :: ts).getLast (by simp)), f x)
    have heq : (t1 - t0) * (f t1 + f t0) / 2 + trapz ((t1 :: ts).map f) (t1 :: ts)
        - ((∫ x in t0..t1, f x) + ∫ x in t1..((t1 :: ts).getLast (by simp)), f x)
        = ((t1 - t0) * (f t1 + f t0) / 2 - ∫ x in t0..t1, f x)
          + (trapz ((t1 :: ts).map f) (t1 :: ts) - ∫ x in t1..((t1 :: ts).getLast (by simp)), f x) := by ring
    rw [heq]
    linarith

/-- cells no wider than `h` and non-negative oscillation bounds: `cellErr ≤ h · oscSum` -/
theorem cellErr_le (lo hi : ℝ → ℝ → ℝ) (h : ℝ) (hosc : ∀ a b, a ≤ b → lo a b ≤ hi a b)
    (t0 : ℝ) (ts : List ℝ) (hs : (t0 :: ts).Pairwise (· ≤ ·))
    (hgap : (t0 :: ts).IsChain (fun a b => b - a ≤ h)) :
    cellErr lo hi (t0 :: ts) ≤ h * oscSum lo hi (t0 :: ts) := by
  induction ts generalizing t0 with
  | nil => simp [cellErr, oscSum]
  | cons t1 ts ih =>
    simp only [cellErr, oscSum]
    have h1 := ih t1 (List.pairwise_cons.mp hs).2 (List.isChain_cons_cons.mp hgap).2
    have h2 : t1 - t0 ≤ h := (List.isChain_cons_cons.mp hgap).1
    have h3 := hosc t0 t1 ((List.pairwise_cons.mp hs).1 t1 (List.mem_cons_self))
    nlinarith

/-- the uniform grid `(k+i)·h`, `i = 0..m`: sorted, gaps `≤ h`, first and last element -/
theorem uniform_grid_facts (h : ℝ) (hh : 0 ≤ h) (m k : ℕ) :
    ∃ (t0 : ℝ) (ts : List ℝ), (List.range' k (m + 1)).map (fun (i : ℕ) => (i : ℝ) * h) = t0 :: ts ∧
      t0 = (k : ℝ) * h ∧ (t0 :: ts).getLast (by simp) = ((k + m : ℕ) : ℝ) * h ∧
      (t0 :: ts).Pairwise (· ≤ ·) ∧ (t0 :: ts).IsChain (fun a b => b - a ≤ h) := by
  induction m generalizing k with
  | zero => exact ⟨(k : ℝ) * h, [], by simp, rfl, by simp, by simp, by simp⟩
  | succ m ih =>
    obtain ⟨t1, ts, heq, ht1, hlast, hp, hc⟩ := ih (k + 1)
    refine ⟨(k : ℝ) * h, t1 :: ts, ?_, rfl, ?_, ?_, ?_⟩
    · rw [List.range'_succ, List.map_cons, heq]
    · rw [List.getLast_cons (by simp), hlast]; congr 2; omega
    · refine List.pairwise_cons.mpr ⟨?_, hp⟩
      intro x hx
      have h1 : t1 ≤ x := by
        rcases List.mem_cons.mp hx with rfl | hx'
        · exact le_refl _
        · exact (List.pairwise_cons.mp hp).1 x hx'
      have : (k : ℝ) * h ≤ t1 := by rw [ht1]; push_cast; nlinarith
      linarith
    · refine List.isChain_cons_cons.mpr ⟨?_, hc⟩
      rw [ht1]; push_cast; nlinarith

end PyrexR
end

noncomputable section
namespace PyrexR
open MeasureTheory

/-- for an antitone function the per-cell oscillation bounds `f b ≤ · ≤ f a` telescope -/
theorem oscSum_antitone (f : ℝ → ℝ) (t0 : ℝ) (ts : List ℝ) :
    oscSum (fun _ b => f b) (fun a _ => f a) (t0 :: ts) = f t0 - f ((t0 :: ts).getLast (by simp)) := by
  induction ts generalizing t0 with
  | nil => simp [oscSum]
  | cons t1 ts ih =>
    simp only [oscSum]
    have hl : (t0 :: t1 :: ts).getLast (by simp) = (t1 :: ts).getLast (by simp) := List.getLast_cons (by simp)
    rw [ih t1, hl]
    ring

theorem oscSum_monotone (f : ℝ → ℝ) (t0 : ℝ) (ts : List ℝ) :
    oscSum (fun a _ => f a) (fun _ b => f b) (t0 :: ts) = f ((t0 :: ts).getLast (by simp)) - f t0 := by
  induction ts generalizing t0 with
  | nil => simp [oscSum]
  | cons t1 ts ih =>
    simp only [oscSum]
    have hl : (t0 :: t1 :: ts).getLast (by simp) = (t1 :: ts).getLast (by simp) := List.getLast_cons (by simp)
    rw [ih t1, hl]
    ring

/-- clamp to `[0,1]` -/
def clamp01 (x : ℝ) : ℝ := max 0 (min x 1)

theorem clamp01_mono : Monotone clamp01 := by
  intro a b h; unfold clamp01; exact max_le_max (le_refl _) (min_le_min h (le_refl _))

theorem clamp01_mem (x : ℝ) : clamp01 x ∈ Set.Icc (0:ℝ) 1 := by
  unfold clamp01; constructor
  · exact le_max_left _ _
  · exact max_le (by norm_num) (min_le_right _ _)

theorem clamp01_of_mem {x : ℝ} (h : x ∈ Set.Icc (0:ℝ) 1) : clamp01 x = x := by
  unfold clamp01; rw [min_eq_left h.2, max_eq_right h.1]

end PyrexR
end
