import PyrexVerif.D.EventTree
/-! Helper lemmas for the event-tree part of C14 (core Lean only). -/
namespace PyrexD.Tree

theorem flatten_empties {α β : Type} (cs : List β) : (cs.map (fun _ => ([] : List α))).flatten = [] := by
  induction cs with
  | nil => rfl
  | cons c cs ih => simp [ih]

theorem flatten_modify_perm {α : Type} (l : List (List α)) (pi : Nat) (x : List α) (h : pi < l.length) :
    (l.modify pi (· ++ x)).flatten.Perm (l.flatten ++ x) := by
  induction l generalizing pi with
  | nil => simp at h
  | cons a l ih =>
    cases pi with
    | zero =>
      simp only [List.modify_zero_cons, List.flatten_cons, List.append_assoc]
      exact List.Perm.append_left a List.perm_append_comm
    | succ pi =>
      simp only [List.modify_succ_cons, List.flatten_cons, List.append_assoc]
      exact List.Perm.append_left a (ih pi (by simpa using h))

theorem addChildren_all (e e' : Ev) (p : Nat) (cs : List Nat) (h : addChildren e p cs = some e') :
    e'.all = e.all ++ cs ∧ e'.roots = e.roots := by
  unfold addChildren at h
  cases hi : e.all.idxOf? p with
  | none => simp [hi] at h
  | some pi => simp [hi] at h; rw [← h]; exact ⟨rfl, rfl⟩

theorem init_all (roots : List Nat) : (init roots).all = roots ∧ (init roots).roots = roots := ⟨rfl, rfl⟩

/-- `iter` after a history = the roots followed by every child list that was passed, in order -/
theorem foldlM_all (ops : List (Nat × List Nat)) (e e' : Ev)
    (h : ops.foldlM (fun e op => addChildren e op.1 op.2) e = some e') :
    e'.all = e.all ++ (ops.map (·.2)).flatten ∧ e'.roots = e.roots := by
  induction ops generalizing e with
  | nil => simp at h; rw [h]; simp
  | cons op ops ih =>
    simp only [List.foldlM_cons] at h
    cases h1 : addChildren e op.1 op.2 with
    | none => simp [h1] at h
    | some e1 =>
      simp [h1] at h
      have := ih e1 h
      have ha := addChildren_all e e1 op.1 op.2 h1
      rw [this.1, this.2, ha.1, ha.2]
      simp

/-- distinct positions of a list of lists whose concatenation has no duplicates share no element -/
theorem flatten_nodup_disjoint {α : Type} (L : List (List α)) (h : L.flatten.Nodup) (i j : Nat) (hi : i < L.length)
    (hj : j < L.length) (hij : i < j) (x : α) (hx : x ∈ L[i]) : x ∉ L[j] := by
  induction L generalizing i j with
  | nil => simp at hi
  | cons a L ih =>
    rw [List.flatten_cons, List.nodup_append] at h
    obtain ⟨_, hL, hdis⟩ := h
    cases j with
    | zero => omega
    | succ j =>
      cases i with
      | zero =>
        intro hx'
        simp only [List.getElem_cons_zero] at hx
        simp only [List.getElem_cons_succ] at hx'
        have hjl : j < L.length := by simpa using hj
        exact hdis x hx x (List.mem_flatten.mpr ⟨L[j], List.getElem_mem hjl, hx'⟩) rfl
      | succ i =>
        simp only [List.getElem_cons_succ] at hx ⊢
        exact ih hL i j (by simpa using hi) (by simpa using hj) (by omega) hx

/-- `findParentIdx` finds a list containing `ci` whenever there is one -/
theorem findParentIdx_complete (ci : Nat) (ch : List (List Nat)) (k j : Nat) (hj : j < ch.length) (h : ci ∈ ch[j]) :
    ∃ pi, findParentIdx ci ch k = some pi := by
  induction ch generalizing k j with
  | nil => simp at hj
  | cons l rest ih =>
    by_cases hc : ci ∈ l
    · exact ⟨k, by simp [findParentIdx, hc]⟩
    · cases j with
      | zero => simp at h; exact absurd h hc
      | succ j =>
        simp only [List.getElem_cons_succ] at h
        obtain ⟨pi, hpi⟩ := ih (k + 1) j (by simpa using hj) h
        exact ⟨pi, by simp [findParentIdx, hc, hpi]⟩

end PyrexD.Tree
