import PyrexVerif.Proofs.SignalsThms
set_option linter.unusedVariables false
set_option linter.unusedSimpArgs false
/-! Value algebra of function-backed signals with the filters as *abstract linear operators*
(`FilterSem`), the buffer window counts, and the effect of appending a filter.  The scalar-gain
semantics of `D/Signals.lean` is one instance (`gainSem`), for which the abstract evaluation is
literally `Sig.fnValues`. -/
namespace Sig

/-! ## window counts -/
/-- `int(b/dt) + (1 if b % dt else 0)` is the ceiling of `b/dt` (for a non-negative quotient) -/
theorem nbuf_eq_ceil {b dt : Rat} (hq : 0 ≤ b / dt) : nbuf b dt = (b / dt).ceil := by
  unfold nbuf
  simp only [hq, if_true]
  split
  · rename_i hint
    rw [← hint, Rat.ceil_intCast, Rat.floor_intCast]
  · rename_i hne
    have h1 : (b / dt).ceil ≤ (b / dt).floor + 1 :=
      Rat.ceil_le_iff.2 (Rat.le_of_lt (Rat.lt_floor_add_one _))
    have h2 : (b / dt).floor < (b / dt).ceil := by
      apply Rat.lt_ceil_iff.2
      have := Rat.floor_le (b / dt)
      exact Rat.lt_of_le_of_ne this hne
    omega

/-- the buffer-extended grid has `n_before + len(times) + n_after` points and the value window is
`[n_before, n_before + len(times))`: whenever a component is defined, its window has exactly one
value per time sample (this is `compVals_length`, restated next to the counts) -/
theorem window_length {ts : Arr} {fn t0 fac : Rat} {buf filt w : Arr}
    (h : compVals ts fn t0 fac buf filt = some w) : w.length = ts.length := compVals_length h

/-! ## filters as abstract linear operators -/
/-- semantics of a filter list applied to a (buffer-extended) value array: a length-preserving
linear operator; the empty list is the identity -/
structure FilterSem where
  app : Arr → Arr → Arr
  app_length : ∀ fs a, (app fs a).length = a.length
  app_nil : ∀ a, app [] a = a
  app_scale : ∀ fs q a, app fs (scale q a) = scale q (app fs a)
  app_add : ∀ fs a b, a.length = b.length → app fs (addArr a b) = addArr (app fs a) (app fs b)

/-- `FunctionSignal.values`, one component, for an arbitrary filter semantics -/
def compValsA (F : FilterSem) (ts : Arr) (fn t0 fac : Rat) (buf filt : Arr) : Option Arr :=
  match ts with
  | ta :: tb :: _ =>
    let dt := tb - ta
    if dt = 0 then none else
    let nb := nbuf (buf.getD 0 0) dt
    let na := nbuf (buf.getD 1 0) dt
    if nb < 0 ∨ na < -1 then none else
    let nb := nb.toNat
    let na := na.toNat
    let tl := ts.getLastD 0
    let lead := (List.range nb).map (fun k => ta - ((nb - k : Nat) : Rat) * dt)
    let trail := (List.range na).map (fun k => tl + ((k + 1 : Nat) : Rat) * dt)
    let full := lead ++ ts ++ trail
    let fv := full.map (fun t => fnEval (code fn) (t - t0) * fac)
    let fv := F.app filt fv
    some ((fv.drop nb).take ts.length)
  | _ => none

def compWindowsA (F : FilterSem) (ts : Arr) : Arr → Arr → Arr → List Arr → List Arr → Option (List Arr)
  | fn :: fns, t0 :: t0s, fac :: facs, buf :: bufs, filt :: filts =>
      match compValsA F ts fn t0 fac buf filt, compWindowsA F ts fns t0s facs bufs filts with
      | some w, some ws => some (w :: ws)
      | _, _ => none
  | _, _, _, _, _ => some []

def fnValuesA (F : FilterSem) (d : FData) : Option Arr :=
  match d.ts with
  | _ :: _ :: _ =>
    match compWindowsA F d.ts d.fns d.t0s d.facs d.bufs d.filts with
    | some ws => some (ws.foldl addArr (zeros d.ts.length))
    | none => none
  | _ => none

/-- the scalar-gain semantics of the executable model -/
def gainSem : FilterSem where
  app := fun fs a => a.map (· * gainProd fs)
  app_length := by intro fs a; simp
  app_nil := by
    intro a
    have : gainProd [] = 1 := rfl
    rw [this]
    conv => rhs; rw [← List.map_id a]
    apply List.map_congr_left; intro x _; simp [Rat.mul_one]
  app_scale := by
    intro fs q a
    simp only [scale, List.map_map]
    apply List.map_congr_left; intro x _; simp only [Function.comp]; grind
  app_add := by
    intro fs a b _
    induction a generalizing b with
    | nil => simp [addArr]
    | cons x xs ih =>
      cases b with
      | nil => simp [addArr]
      | cons y ys =>
        have := ih ys (by simp_all)
        simp only [addArr, List.zipWith_cons_cons, List.map_cons] at this ⊢
        rw [this]; congr 1; grind

theorem compValsA_gain (ts : Arr) (fn t0 fac : Rat) (buf filt : Arr) :
    compValsA gainSem ts fn t0 fac buf filt = compVals ts fn t0 fac buf filt := rfl

theorem compWindowsA_gain (ts : Arr) : ∀ (fns t0s facs : Arr) (bufs filts : List Arr),
    compWindowsA gainSem ts fns t0s facs bufs filts = compWindows ts fns t0s facs bufs filts := by
  intro fns
  induction fns with
  | nil => intro t0s facs bufs filts; simp [compWindowsA, compWindows]
  | cons fn fns ih =>
    intro t0s facs bufs filts
    cases t0s <;> cases facs <;> cases bufs <;> cases filts <;>
      simp only [compWindowsA, compWindows, compValsA_gain, ih]
    rename_i t0 t0s fac facs buf bufs filt filts
    cases compVals ts fn t0 fac buf filt <;> cases compWindows ts fns t0s facs bufs filts <;> rfl

/-- the abstract evaluation instantiated with scalar gains is the executable model -/
theorem fnValuesA_gain (d : FData) : fnValuesA gainSem d = fnValues d := by
  obtain ⟨ts, fns, t0s, facs, bufs, filts⟩ := d
  cases ts with
  | nil => rfl
  | cons x ts =>
    cases ts with
    | nil => rfl
    | cons y r =>
      simp only [fnValuesA, fnValues, compWindowsA_gain]
      cases compWindows (x :: y :: r) fns t0s facs bufs filts <;> rfl

/-- every window has one value per time sample, for any filter semantics -/
theorem compValsA_length (F : FilterSem) {ts : Arr} {fn t0 fac : Rat} {buf filt w : Arr}
    (h : compValsA F ts fn t0 fac buf filt = some w) : w.length = ts.length := by
  unfold compValsA at h
  split at h
  · rename_i ta tb rest
    simp only at h
    split at h
    · cases h
    · split at h
      · cases h
      · cases h
        simp only [List.length_take, List.length_drop, F.app_length, List.length_map, List.length_append,
          List.length_range, List.length_cons]
        omega
  · cases h

/-- homogeneity in the factor, from linearity of the filter operator -/
theorem compValsA_scale (F : FilterSem) {ts : Arr} {fn t0 fac : Rat} {buf filt w : Arr} (q : Rat)
    (h : compValsA F ts fn t0 fac buf filt = some w) :
    compValsA F ts fn t0 (fac * q) buf filt = some (scale q w) := by
  unfold compValsA at h ⊢
  split at h
  · rename_i ta tb rest
    simp only at h ⊢
    split at h
    · cases h
    · rename_i hdt
      rw [if_neg hdt]
      split at h
      · cases h
      · rename_i hneg
        rw [if_neg hneg]
        cases h
        congr 1
        have key : ∀ (full : Arr), full.map (fun t => fnEval (code fn) (t - t0) * (fac * q))
            = scale q (full.map (fun t => fnEval (code fn) (t - t0) * fac)) := by
          intro full
          simp only [scale, List.map_map]
          apply List.map_congr_left; intro t _; simp only [Function.comp]; grind
        rw [key, F.app_scale]
        simp only [scale, List.map_take, List.map_drop]
  · cases h

/-- without filters the buffers are irrelevant: the window is the direct evaluation on `times` -/
theorem compValsA_nil_direct (F : FilterSem) {ts : Arr} {fn t0 fac : Rat} {buf w : Arr}
    (h : compValsA F ts fn t0 fac buf [] = some w) :
    w = ts.map (fun t => fnEval (code fn) (t - t0) * fac) := by
  unfold compValsA at h
  split at h
  · rename_i ta tb rest
    simp only at h
    split at h
    · cases h
    · split at h
      · cases h
      · cases h
        rw [F.app_nil]
        simp only [List.map_append]
        rw [List.drop_append_of_le_length (by simp), List.drop_append_of_le_length (by simp)]
        simp only [List.length_map, List.length_range, List.drop_length, List.nil_append, List.drop_of_length_le,
          Nat.le_refl]
        rw [List.take_append_of_le_length (by simp)]
        simp only [List.length_cons, List.length_map, List.take_length]
        rw [List.take_of_length_le (by simp)]
  · cases h

theorem compWindowsA_scale (F : FilterSem) {ts : Arr} (q : Rat) :
    ∀ {fns t0s facs : Arr} {bufs filts ws : List Arr},
      compWindowsA F ts fns t0s facs bufs filts = some ws →
      compWindowsA F ts fns t0s (scale q facs) bufs filts = some (ws.map (scale q)) := by
  intro fns
  induction fns with
  | nil => intro t0s facs bufs filts ws h; simp [compWindowsA] at h ⊢; subst h; rfl
  | cons fn fns ih =>
    intro t0s facs bufs filts ws h
    cases t0s with
    | nil => simp [compWindowsA] at h ⊢; subst h; rfl
    | cons t0 t0s =>
    cases facs with
    | nil => simp [compWindowsA, scale] at h ⊢; subst h; rfl
    | cons fac facs =>
    cases bufs with
    | nil => simp [compWindowsA, scale] at h ⊢; subst h; rfl
    | cons buf bufs =>
    cases filts with
    | nil => simp [compWindowsA, scale] at h ⊢; subst h; rfl
    | cons filt filts =>
      simp only [compWindowsA] at h
      split at h
      · rename_i w0 ws0 h1 h2
        cases h
        have e1 := compValsA_scale F q h1
        have e2 := ih h2
        rw [scale_cons]
        simp only [compWindowsA, e1, e2, List.map_cons]
      · cases h

/-- `values` is homogeneous in the factors, for any linear filter semantics -/
theorem fnValuesA_scale (F : FilterSem) {d : FData} {vs : Arr} (q : Rat) (h : fnValuesA F d = some vs) :
    fnValuesA F { d with facs := scale q d.facs } = some (scale q vs) := by
  obtain ⟨ts, fns, t0s, facs, bufs, filts⟩ := d
  cases ts with
  | nil => simp [fnValuesA] at h
  | cons x ts =>
  cases ts with
  | nil => simp [fnValuesA] at h
  | cons y r =>
    simp only [fnValuesA] at h ⊢
    split at h
    · rename_i ws hws
      cases h
      rw [compWindowsA_scale F q hws]
      simp only
      rw [← foldl_addArr_scale, scale_zeros]
    · cases h

theorem compWindowsA_append (F : FilterSem) {ts : Arr} :
    ∀ {f1 t1 c1 : Arr} {b1 l1 : List Arr} (f2 t2 c2 : Arr) (b2 l2 : List Arr),
      t1.length = f1.length → c1.length = f1.length → b1.length = f1.length → l1.length = f1.length →
      compWindowsA F ts (f1 ++ f2) (t1 ++ t2) (c1 ++ c2) (b1 ++ b2) (l1 ++ l2) =
        match compWindowsA F ts f1 t1 c1 b1 l1, compWindowsA F ts f2 t2 c2 b2 l2 with
        | some w1, some w2 => some (w1 ++ w2)
        | _, _ => none := by
  intro f1
  induction f1 with
  | nil =>
    intro t1 c1 b1 l1 f2 t2 c2 b2 l2 h1 h2 h3 h4
    simp at h1 h2 h3 h4; subst h1 h2 h3 h4
    simp only [List.nil_append, compWindowsA]
    cases compWindowsA F ts f2 t2 c2 b2 l2 <;> rfl
  | cons fn f1 ih =>
    intro t1 c1 b1 l1 f2 t2 c2 b2 l2 h1 h2 h3 h4
    cases t1 with
    | nil => simp at h1
    | cons t0 t1 =>
    cases c1 with
    | nil => simp at h2
    | cons fac c1 =>
    cases b1 with
    | nil => simp at h3
    | cons buf b1 =>
    cases l1 with
    | nil => simp at h4
    | cons filt l1 =>
      simp only [List.cons_append, compWindowsA]
      rw [ih f2 t2 c2 b2 l2 (by simpa using h1) (by simpa using h2) (by simpa using h3) (by simpa using h4)]
      cases compValsA F ts fn t0 fac buf filt <;> cases compWindowsA F ts f1 t1 c1 b1 l1 <;>
        cases compWindowsA F ts f2 t2 c2 b2 l2 <;> rfl

/-- `values` of the concatenated component lists is the pointwise sum, for any filter semantics -/
theorem fnValuesA_append (F : FilterSem) {d e : FData} {va vb : Arr} (hts : d.ts = e.ts)
    (h1 : d.t0s.length = d.fns.length) (h2 : d.facs.length = d.fns.length)
    (h3 : d.bufs.length = d.fns.length) (h4 : d.filts.length = d.fns.length)
    (ha : fnValuesA F d = some va) (hb : fnValuesA F e = some vb) :
    fnValuesA F (d.append e) = some (addArr va vb) := by
  obtain ⟨ts, fns, t0s, facs, bufs, filts⟩ := d
  obtain ⟨ts', fns', t0s', facs', bufs', filts'⟩ := e
  simp only at hts h1 h2 h3 h4
  subst hts
  cases ts with
  | nil => simp [fnValuesA] at ha
  | cons x ts =>
  cases ts with
  | nil => simp [fnValuesA] at ha
  | cons y r =>
    simp only [fnValuesA, FData.append] at ha hb ⊢
    split at ha
    · rename_i w1 hw1
      cases ha
      split at hb
      · rename_i w2 hw2
        cases hb
        rw [compWindowsA_append F _ _ _ _ _ h1 h2 h3 h4, hw1, hw2]
        simp only
        rw [foldl_addArr_append]
      · cases hb
    · cases ha

/-! ## appending a filter (`filter_frequencies`) in the scalar-gain model -/
theorem gainProd_append (l : Arr) (c : Rat) : gainProd (l ++ [c]) = gainProd l * gain (code c) := by
  simp [gainProd, List.foldl_append]

/-- appending the gain filter `c` to a component is the same as multiplying its factor by the gain -/
theorem compVals_filter_append (ts : Arr) (fn t0 fac : Rat) (buf filt : Arr) (c : Rat) :
    compVals ts fn t0 fac buf (filt ++ [c]) = compVals ts fn t0 (fac * gain (code c)) buf filt := by
  unfold compVals
  split
  · simp only
    split
    · rfl
    · split
      · rfl
      · congr 3
        simp only [List.map_map]
        apply List.map_congr_left; intro t _
        simp only [Function.comp, gainProd_append]; grind
  · rfl

theorem compWindows_filter_append (ts : Arr) (c : Rat) :
    ∀ (fns t0s facs : Arr) (bufs filts : List Arr),
      compWindows ts fns t0s facs bufs (filts.map (· ++ [c])) =
        compWindows ts fns t0s (scale (gain (code c)) facs) bufs filts := by
  intro fns
  induction fns with
  | nil => intro t0s facs bufs filts; simp [compWindows]
  | cons fn fns ih =>
    intro t0s facs bufs filts
    cases t0s with
    | nil => simp [compWindows]
    | cons t0 t0s =>
    cases facs with
    | nil => simp [compWindows, scale]
    | cons fac facs =>
    cases bufs with
    | nil => simp [compWindows, scale]
    | cons buf bufs =>
    cases filts with
    | nil => simp [compWindows, scale]
    | cons filt filts =>
      simp only [List.map_cons, scale_cons, compWindows]
      rw [compVals_filter_append, ih]

/-- `filter_frequencies(h)` appends `h` to the filter list of every component; with the gain filter
`c` every value is multiplied by the gain -/
theorem fnValues_filter_append {d : FData} {vs : Arr} (c : Rat) (h : fnValues d = some vs) :
    fnValues { d with filts := d.filts.map (· ++ [c]) } = some (scale (gain (code c)) vs) := by
  have := fnValues_scale (gain (code c)) h
  obtain ⟨ts, fns, t0s, facs, bufs, filts⟩ := d
  simp only [fnValues] at this ⊢
  rw [compWindows_filter_append]
  exact this

end Sig

namespace Sig

theorem code_natCast (c : Nat) : code (c : Rat) = c := by
  simp [code]

/-- `filter_frequencies` on a function-backed signal of the object graph: the same object, every
inner filter list grown in place by the new filter, all other cells untouched, and every value
multiplied by the gain -/
theorem filter_step_spec {st : St} (hinv : Inv st) {k : Nat} {s : Sig} {a b c d e : Nat} {bi fi : List Nat}
    (hs : st.objs k = some s) (hb : s.body = .fn a b c d e bi fi) (g : Nat) {vs : Arr}
    (hv : valuesOf st.heap s = some vs) :
    (step st (.filter k g)).2 = .unit ∧ (step st (.filter k g)).1.objs = st.objs ∧
    (∀ id, id ∉ fi → (step st (.filter k g)).1.heap.cell id = st.heap.cell id) ∧
    (∀ id ∈ fi, (step st (.filter k g)).1.heap.cell id = st.heap.cell id ++ [(g : Rat)]) ∧
    valuesOf (step st (.filter k g)).1.heap s = some (scale (gain g) vs) := by
  have facts := fn_nodup_facts hb (hinv.nodup k s hs)
  simp only [step, hs, hb]
  refine ⟨trivial, trivial, fun id hid => setAll_cell_not_mem hid, fun id hid => setAll_cell_mem hid, ?_⟩
  have hv' : fnValues (readF st.heap s) = some vs := by simpa [valuesOf, hb] using hv
  have := fnValues_filter_append (g : Rat) hv'
  rw [code_natCast] at this
  simp only [valuesOf, hb]
  rw [← this]
  congr 1
  simp only [readF, hb]
  have ht : s.times ∉ fi := facts.2.2.2.2.2.2.2.1
  rw [setAll_cell_not_mem ht, setAll_cell_not_mem facts.2.2.2.1, setAll_cell_not_mem facts.2.2.2.2.1,
    setAll_cell_not_mem facts.2.2.2.2.2.1]
  congr 1
  · apply List.map_congr_left
    intro id hid
    have : id ∉ fi := by
      have hn := hinv.nodup k s hs
      simp only [Sig.reach, hb] at hn
      simp only [List.nodup_cons, List.nodup_append, List.mem_cons, List.mem_append, List.cons_append,
        List.nil_append] at hn
      grind
    exact setAll_cell_not_mem this
  · rw [List.map_map]
    apply List.map_congr_left
    intro id hid
    simp only [Function.comp]
    exact setAll_cell_mem hid

end Sig

namespace Sig

/-- `values` only looks at the cells reachable from the object -/
theorem valuesOf_congr {h h' : Heap} {s : Sig} (hc : ∀ id ∈ s.reach, h'.cell id = h.cell id) :
    valuesOf h' s = valuesOf h s := by
  unfold valuesOf
  cases hb : s.body with
  | arr v => simp only; rw [hc v (by simp [Sig.reach, hb])]
  | fn a b c d e bi fi =>
    simp only
    congr 1
    simp only [readF, hb]
    rw [hc s.times (by simp [Sig.reach]), hc a (by simp [Sig.reach, hb]), hc b (by simp [Sig.reach, hb]),
      hc d (by simp [Sig.reach, hb])]
    congr 1
    · apply List.map_congr_left
      intro id hid; exact hc id (by simp [Sig.reach, hb, hid])
    · apply List.map_congr_left
      intro id hid; exact hc id (by simp [Sig.reach, hb, hid])

end Sig

namespace Sig

/-! ## deep copies of stateful generating functions -/
theorem deepcopyFns_mono : ∀ (fs : List FnRef) (h : Heap),
    h.next ≤ (deepcopyFns h fs).1.next ∧ ∀ id, id < h.next → (deepcopyFns h fs).1.cell id = h.cell id := by
  intro fs
  induction fs with
  | nil => intro h; exact ⟨Nat.le_refl _, fun _ _ => rfl⟩
  | cons f r ih =>
    intro h
    cases f with
    | plain k => exact ih h
    | object k c =>
      have := ih (h.allocs [h.cell c])
      simp only [deepcopyFns, allocs_next, List.length_cons, List.length_nil] at this ⊢
      refine ⟨by omega, fun id hid => ?_⟩
      rw [this.2 id (by omega)]; exact allocs_cell_old hid

/-- the copy has as many functions, every state cell of the copy is freshly allocated, and every
function of the copy evaluates like the original one -/
theorem deepcopyFns_spec : ∀ (fs : List FnRef) (h : Heap), (∀ f ∈ fs, ∀ c ∈ f.stateIds, c < h.next) →
    (deepcopyFns h fs).2.length = fs.length ∧
    (∀ f ∈ (deepcopyFns h fs).2, ∀ c ∈ f.stateIds, h.next ≤ c ∧ c < (deepcopyFns h fs).1.next) ∧
    (∀ (i : Nat) (t : Rat), ((deepcopyFns h fs).2[i]?).map (fun f => fnRefEval (deepcopyFns h fs).1 f t) =
            (fs[i]?).map (fun f => fnRefEval h f t)) := by
  intro fs
  induction fs with
  | nil => intro h _; simp [deepcopyFns]
  | cons f r ih =>
    intro h hlt
    cases f with
    | plain k =>
      have hr := ih h (fun f hf => hlt f (by simp [hf]))
      refine ⟨by simp [deepcopyFns, hr.1], ?_, ?_⟩
      · intro f hf c hc
        simp only [deepcopyFns, List.mem_cons] at hf
        rcases hf with rfl | hf
        · simp [FnRef.stateIds] at hc
        · exact hr.2.1 f hf c hc
      · intro i t
        cases i with
        | zero => simp [deepcopyFns, fnRefEval]
        | succ j => simpa [deepcopyFns] using hr.2.2 j t
    | object k c =>
      have hc : c < h.next := hlt (.object k c) (by simp) c (by simp [FnRef.stateIds])
      have hr := ih (h.allocs [h.cell c]) (fun f hf c' hc' => by
        have := hlt f (by simp [hf]) c' hc'; simp; omega)
      have hm := deepcopyFns_mono r (h.allocs [h.cell c])
      simp only [allocs_next, List.length_cons, List.length_nil] at hr hm
      refine ⟨by simp [deepcopyFns, hr.1], ?_, ?_⟩
      · intro f hf c' hc'
        simp only [deepcopyFns, List.mem_cons] at hf ⊢
        rcases hf with rfl | hf
        · simp only [FnRef.stateIds, List.mem_singleton] at hc'
          subst hc'; exact ⟨Nat.le_refl _, by omega⟩
        · have := hr.2.1 f hf c' hc'; exact ⟨by omega, this.2⟩
      · intro i t
        cases i with
        | zero =>
          simp only [deepcopyFns, List.getElem?_cons_zero, Option.map_some, fnRefEval]
          have e1 : (deepcopyFns (h.allocs [h.cell c]) r).1.cell h.next = h.cell c := by
            rw [hm.2 h.next (by omega)]
            have := allocs_cell_new (h := h) (cs := [h.cell c]) (k := 0) (by simp)
            simpa using this
          rw [e1]
        | succ j =>
          simp only [deepcopyFns, List.getElem?_cons_succ]
          rw [hr.2.2 j t]
          cases hj : r[j]? with
          | none => rfl
          | some f =>
            simp only [Option.map_some]
            congr 1
            cases f with
            | plain k' => rfl
            | object k' c' =>
              have hc' : c' < h.next :=
                hlt (.object k' c') (by simp [List.mem_of_getElem? hj]) c' (by simp [FnRef.stateIds])
              simp only [fnRefEval]
              rw [allocs_cell_old hc']

/-- a function only looks at its own state cell -/
theorem fnRefEval_congr {h h' : Heap} {f : FnRef} (hc : ∀ c ∈ f.stateIds, h'.cell c = h.cell c) (t : Rat) :
    fnRefEval h' f t = fnRefEval h f t := by
  cases f with
  | plain k => rfl
  | object k c => simp only [fnRefEval]; rw [hc c (by simp [FnRef.stateIds])]

end Sig
