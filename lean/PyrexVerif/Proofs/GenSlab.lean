import PyrexVerif.R.Gen
import Mathlib.Data.Finset.Max
import Mathlib.Data.Fintype.Basic
import Mathlib.Tactic.Linarith
import Mathlib.Tactic.NormNum
import Mathlib.Tactic.Ring
import Mathlib.Tactic.FieldSimp
import Mathlib.Tactic.IntervalCases
import Mathlib.Tactic.FinCases
/-! Helper lemmas for C13: the slab method always finds an entry and an exit face. -/
noncomputable section
namespace PyrexR

/-- one axis: the side the particle moves towards / comes from -/
def exitSide (lo hi d : ℝ) : ℝ := if 0 < d then hi else lo
def entrySide (lo hi d : ℝ) : ℝ := if 0 < d then lo else hi

theorem texit_nonneg (lo hi v d : ℝ) (hd : d ≠ 0) (h1 : lo ≤ v) (h2 : v ≤ hi) : 0 ≤ (exitSide lo hi d - v) / d := by
  unfold exitSide
  by_cases h : 0 < d
  · rw [if_pos h]; exact div_nonneg (by linarith) h.le
  · rw [if_neg h]
    have : d < 0 := lt_of_le_of_ne (not_lt.mp h) hd
    exact div_nonneg_of_nonpos (by linarith) this.le

theorem tentry_nonpos (lo hi v d : ℝ) (hd : d ≠ 0) (h1 : lo ≤ v) (h2 : v ≤ hi) : (entrySide lo hi d - v) / d ≤ 0 := by
  unfold entrySide
  by_cases h : 0 < d
  · rw [if_pos h]; exact div_nonpos_of_nonpos_of_nonneg (by linarith) h.le
  · rw [if_neg h]
    have : d < 0 := lt_of_le_of_ne (not_lt.mp h) hd
    exact div_nonpos_of_nonneg_of_nonpos (by linarith) this.le

/-- between 0 and the exit parameter the coordinate stays within the slab -/
theorem within_exit (lo hi v d t : ℝ) (hd : d ≠ 0) (h1 : lo ≤ v) (h2 : v ≤ hi) (ht0 : 0 ≤ t)
    (ht : t ≤ (exitSide lo hi d - v) / d) : lo ≤ v + d * t ∧ v + d * t ≤ hi := by
  unfold exitSide at ht
  by_cases h : 0 < d
  · rw [if_pos h, le_div_iff₀ h] at ht
    constructor <;> nlinarith
  · rw [if_neg h] at ht
    have hneg : d < 0 := lt_of_le_of_ne (not_lt.mp h) hd
    rw [le_div_iff_of_neg hneg] at ht
    constructor <;> nlinarith

theorem within_entry (lo hi v d t : ℝ) (hd : d ≠ 0) (h1 : lo ≤ v) (h2 : v ≤ hi) (ht0 : t ≤ 0)
    (ht : (entrySide lo hi d - v) / d ≤ t) : lo ≤ v + d * t ∧ v + d * t ≤ hi := by
  unfold entrySide at ht
  by_cases h : 0 < d
  · rw [if_pos h, div_le_iff₀ h] at ht
    constructor <;> nlinarith
  · rw [if_neg h] at ht
    have hneg : d < 0 := lt_of_le_of_ne (not_lt.mp h) hd
    rw [div_le_iff_of_neg hneg] at ht
    constructor <;> nlinarith

theorem comp_boxIntersection (dx dy dz : ℝ) (v d : EV3) (i mm j : ℕ) :
    comp (boxIntersection dx dy dz v d i mm) j
      = comp v j + comp d j * ((boxSide dx dy dz i mm - comp v i) / comp d i) := by
  by_cases h0 : j = 0
  · subst h0; simp [comp, boxIntersection]
  · by_cases h1 : j = 1
    · subst h1; simp [comp, boxIntersection]
    · simp [comp, boxIntersection, h0, h1]

/-- vertex inside the closed box, by index -/
def InBoxIdx (dx dy dz : ℝ) (v : EV3) : Prop :=
  ∀ j, j < 3 → boxSide dx dy dz j 0 ≤ comp v j ∧ comp v j ≤ boxSide dx dy dz j 1

theorem boxValid_of_idx (dx dy dz : ℝ) (p : EV3) (i : ℕ)
    (h : ∀ j, j < 3 → j ≠ i → boxSide dx dy dz j 0 ≤ comp p j ∧ comp p j ≤ boxSide dx dy dz j 1) :
    boxValid dx dy dz p i := by
  unfold boxValid
  refine ⟨?_, ?_, ?_⟩
  · by_cases hi : i = 0
    · exact Or.inl hi
    · right
      have := h 0 (by norm_num) (Ne.symm hi)
      simp [comp, boxSide] at this
      push Not; exact this
  · by_cases hi : i = 1
    · exact Or.inl hi
    · right
      have := h 1 (by norm_num) (Ne.symm hi)
      simp [comp, boxSide] at this
      push Not; exact this
  · by_cases hi : i = 2
    · exact Or.inl hi
    · right
      have := h 2 (by norm_num) (Ne.symm hi)
      simp [comp, boxSide] at this
      push Not; exact this

theorem exitSide_eq_boxSide (dx dy dz : ℝ) (i : ℕ) (di : ℝ) :
    exitSide (boxSide dx dy dz i 0) (boxSide dx dy dz i 1) di = boxSide dx dy dz i (if 0 < di then 1 else 0) := by
  unfold exitSide; split_ifs <;> rfl

theorem entrySide_eq_boxSide (dx dy dz : ℝ) (i : ℕ) (di : ℝ) :
    entrySide (boxSide dx dy dz i 0) (boxSide dx dy dz i 1) di = boxSide dx dy dz i (if 0 < di then 0 else 1) := by
  unfold entrySide; split_ifs <;> rfl

/-- the axis with the smallest exit parameter gives a valid exit face -/
theorem exists_exit_face (dx dy dz : ℝ) (v d : EV3) (hv : InBoxIdx dx dy dz v) (hd : ∃ j, j < 3 ∧ comp d j ≠ 0) :
    ∃ i, i < 3 ∧ comp d i ≠ 0 ∧
      boxValid dx dy dz (boxIntersection dx dy dz v d i (if 0 < comp d i then 1 else 0)) i := by
  set A := (Finset.range 3).filter (fun j => comp d j ≠ 0) with hA
  have hne : A.Nonempty := by
    obtain ⟨j, hj, hdj⟩ := hd
    exact ⟨j, by simp [hA, hj, hdj]⟩
  set f : ℕ → ℝ := fun j => (exitSide (boxSide dx dy dz j 0) (boxSide dx dy dz j 1) (comp d j) - comp v j) / comp d j with hf
  obtain ⟨i, hiA, hmin⟩ := Finset.exists_min_image A f hne
  have hi3 : i < 3 := by simp [hA] at hiA; exact hiA.1
  have hdi : comp d i ≠ 0 := by simp [hA] at hiA; exact hiA.2
  refine ⟨i, hi3, hdi, ?_⟩
  apply boxValid_of_idx
  intro j hj hne'
  rw [comp_boxIntersection, ← exitSide_eq_boxSide]
  have h0 : 0 ≤ f i := texit_nonneg _ _ _ _ hdi (hv i hi3).1 (hv i hi3).2
  by_cases hdj : comp d j = 0
  · rw [hdj, zero_mul, add_zero]; exact hv j hj
  · have hjA : j ∈ A := by simp [hA, hj, hdj]
    exact within_exit _ _ _ _ _ hdj (hv j hj).1 (hv j hj).2 h0 (hmin j hjA)

/-- the axis with the largest entry parameter gives a valid entry face -/
theorem exists_entry_face (dx dy dz : ℝ) (v d : EV3) (hv : InBoxIdx dx dy dz v) (hd : ∃ j, j < 3 ∧ comp d j ≠ 0) :
    ∃ i, i < 3 ∧ comp d i ≠ 0 ∧
      boxValid dx dy dz (boxIntersection dx dy dz v d i (if 0 < comp d i then 0 else 1)) i := by
  set A := (Finset.range 3).filter (fun j => comp d j ≠ 0) with hA
  have hne : A.Nonempty := by
    obtain ⟨j, hj, hdj⟩ := hd
    exact ⟨j, by simp [hA, hj, hdj]⟩
  set f : ℕ → ℝ := fun j => (entrySide (boxSide dx dy dz j 0) (boxSide dx dy dz j 1) (comp d j) - comp v j) / comp d j with hf
  obtain ⟨i, hiA, hmax⟩ := Finset.exists_max_image A f hne
  have hi3 : i < 3 := by simp [hA] at hiA; exact hiA.1
  have hdi : comp d i ≠ 0 := by simp [hA] at hiA; exact hiA.2
  refine ⟨i, hi3, hdi, ?_⟩
  apply boxValid_of_idx
  intro j hj hne'
  rw [comp_boxIntersection, ← entrySide_eq_boxSide]
  have h0 : f i ≤ 0 := tentry_nonpos _ _ _ _ hdi (hv i hi3).1 (hv i hi3).2
  by_cases hdj : comp d j = 0
  · rw [hdj, zero_mul, add_zero]; exact hv j hj
  · have hjA : j ∈ A := by simp [hA, hj, hdj]
    exact within_entry _ _ _ _ _ hdj (hv j hj).1 (hv j hj).2 h0 (hmax j hjA)

/-! the loop -/

theorem boxStep_keeps (dx dy dz : ℝ) (v d : EV3) (st : Option EV3 × Option EV3) (c : ℕ) :
    (st.1.isSome → (boxStep dx dy dz v d st c).1.isSome) ∧ (st.2.isSome → (boxStep dx dy dz v d st c).2.isSome) := by
  unfold boxStep
  split_ifs <;> simp

theorem foldl_keeps (dx dy dz : ℝ) (v d : EV3) (cs : List ℕ) (st : Option EV3 × Option EV3) :
    (st.1.isSome → (cs.foldl (boxStep dx dy dz v d) st).1.isSome) ∧
    (st.2.isSome → (cs.foldl (boxStep dx dy dz v d) st).2.isSome) := by
  induction cs generalizing st with
  | nil => simp
  | cons c cs ih =>
    simp only [List.foldl_cons]
    have h1 := boxStep_keeps dx dy dz v d st c
    have h2 := ih (boxStep dx dy dz v d st c)
    exact ⟨fun h => h2.1 (h1.1 h), fun h => h2.2 (h1.2 h)⟩

/-- if the loop falls through, the state after all steps does not have both points -/
theorem boxLoop_none (dx dy dz : ℝ) (v d : EV3) (cs : List ℕ) (st : Option EV3 × Option EV3)
    (hst : bothSet st = none) (h : boxLoop dx dy dz v d cs st = none) :
    bothSet (cs.foldl (boxStep dx dy dz v d) st) = none := by
  induction cs generalizing st with
  | nil => simpa using hst
  | cons c cs ih =>
    simp only [List.foldl_cons]
    simp only [boxLoop] at h
    by_cases hnz : comp d (c / 2) < 0 ∨ 0 < comp d (c / 2)
    · rw [if_pos hnz] at h
      cases hb : bothSet (boxStep dx dy dz v d st c) with
      | some r => simp [hb] at h
      | none =>
        simp only [hb] at h
        exact ih _ hb h
    · rw [if_neg hnz] at h
      have hsame : boxStep dx dy dz v d st c = st := by unfold boxStep; rw [if_neg hnz]
      rw [hsame]
      exact ih st hst h

theorem bothSet_none_iff (st : Option EV3 × Option EV3) : bothSet st = none ↔ ¬ (st.1.isSome ∧ st.2.isSome) := by
  obtain ⟨a, b⟩ := st
  cases a <;> cases b <;> simp [bothSet]

/-- the step at the entry (resp. exit) face sets the entry (resp. exit) point -/
theorem boxStep_sets_exit (dx dy dz : ℝ) (v d : EV3) (st : Option EV3 × Option EV3) (i : ℕ) (hdi : comp d i ≠ 0)
    (hval : boxValid dx dy dz (boxIntersection dx dy dz v d i (if 0 < comp d i then 1 else 0)) i) :
    (boxStep dx dy dz v d st (2 * i + (if 0 < comp d i then 1 else 0))).2.isSome := by
  have hnz : comp d i < 0 ∨ 0 < comp d i := lt_or_gt_of_ne hdi
  by_cases hpos : 0 < comp d i
  · have h1 : (2 * i + 1) / 2 = i := by omega
    have h2 : (2 * i + 1) % 2 = 1 := by omega
    simp only [hpos, if_true] at hval ⊢
    unfold boxStep
    simp only [h1, h2, if_pos hnz, if_pos hval, if_true]
    have : ¬ comp d i < 0 := by linarith
    rw [if_neg this]; simp
  · have h1 : (2 * i + 0) / 2 = i := by omega
    have h2 : (2 * i + 0) % 2 = 0 := by omega
    simp only [hpos, if_false] at hval ⊢
    unfold boxStep
    simp only [h1, h2, if_pos hnz, if_pos hval]
    have hneg : comp d i < 0 := by rcases hnz with h | h <;> [exact h; exact absurd h hpos]
    have : ¬ -(comp d i) < 0 := by linarith
    simp [this]

theorem boxStep_sets_entry (dx dy dz : ℝ) (v d : EV3) (st : Option EV3 × Option EV3) (i : ℕ) (hdi : comp d i ≠ 0)
    (hval : boxValid dx dy dz (boxIntersection dx dy dz v d i (if 0 < comp d i then 0 else 1)) i) :
    (boxStep dx dy dz v d st (2 * i + (if 0 < comp d i then 0 else 1))).1.isSome := by
  have hnz : comp d i < 0 ∨ 0 < comp d i := lt_or_gt_of_ne hdi
  by_cases hpos : 0 < comp d i
  · have h1 : (2 * i + 0) / 2 = i := by omega
    have h2 : (2 * i + 0) % 2 = 0 := by omega
    simp only [hpos, if_true] at hval ⊢
    unfold boxStep
    simp only [h1, h2, if_pos hnz, if_pos hval]
    have : -(comp d i) < 0 := by linarith
    simp [this]
  · have h1 : (2 * i + 1) / 2 = i := by omega
    have h2 : (2 * i + 1) % 2 = 1 := by omega
    simp only [hpos, if_false] at hval ⊢
    unfold boxStep
    simp only [h1, h2, if_pos hnz, if_pos hval, if_true]
    have hneg : comp d i < 0 := by rcases hnz with h | h <;> [exact h; exact absurd h hpos]
    rw [if_pos hneg]; simp

/-- a state component set at some step of the fold stays set -/
theorem foldl_sets (dx dy dz : ℝ) (v d : EV3) (cs : List ℕ) (c : ℕ) (hc : c ∈ cs) :
    ((∀ st, (boxStep dx dy dz v d st c).1.isSome) → ∀ st, (cs.foldl (boxStep dx dy dz v d) st).1.isSome) ∧
    ((∀ st, (boxStep dx dy dz v d st c).2.isSome) → ∀ st, (cs.foldl (boxStep dx dy dz v d) st).2.isSome) := by
  induction cs with
  | nil => simp at hc
  | cons c' cs ih =>
    rcases List.mem_cons.mp hc with rfl | hc'
    · constructor
      · intro h st; simp only [List.foldl_cons]; exact (foldl_keeps dx dy dz v d cs _).1 (h st)
      · intro h st; simp only [List.foldl_cons]; exact (foldl_keeps dx dy dz v d cs _).2 (h st)
    · constructor
      · intro h st; simp only [List.foldl_cons]; exact (ih hc').1 h _
      · intro h st; simp only [List.foldl_cons]; exact (ih hc').2 h _

/-- totality of the slab method: vertex in the closed box, some direction component non-zero -/
theorem boxExit_total (dx dy dz : ℝ) (v d : EV3) (hv : InBoxIdx dx dy dz v) (hd : ∃ j, j < 3 ∧ comp d j ≠ 0) :
    ∃ r, boxExit dx dy dz v d = some r := by
  by_contra hcon
  have hnone : boxExit dx dy dz v d = none := by
    cases h : boxExit dx dy dz v d with
    | none => rfl
    | some r => exact absurd ⟨r, h⟩ hcon
  unfold boxExit at hnone
  have hfin := boxLoop_none dx dy dz v d _ (none, none) rfl hnone
  rw [bothSet_none_iff] at hfin
  apply hfin
  obtain ⟨i, hi, hdi, hval⟩ := exists_exit_face dx dy dz v d hv hd
  obtain ⟨i', hi', hdi', hval'⟩ := exists_entry_face dx dy dz v d hv hd
  constructor
  · refine (foldl_sets dx dy dz v d [0, 1, 2, 3, 4, 5] (2 * i' + (if 0 < comp d i' then 0 else 1)) ?_).1
      (fun st => boxStep_sets_entry dx dy dz v d st i' hdi' hval') _
    split_ifs <;> interval_cases i' <;> simp
  · refine (foldl_sets dx dy dz v d [0, 1, 2, 3, 4, 5] (2 * i + (if 0 < comp d i then 1 else 0)) ?_).2
      (fun st => boxStep_sets_exit dx dy dz v d st i hdi hval) _
    split_ifs <;> interval_cases i <;> simp

end PyrexR
end
