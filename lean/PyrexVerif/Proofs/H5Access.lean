import PyrexVerif.Proofs.H5Iter
/-! Every access path of the reader equals the sequential pass. -/
namespace H5

/-- everything the reader theorems need to know about a file -/
structure Good (o : Opts) (f : File) : Prop where
  inv : Inv o f
  col : ColInv f
  thr : ThrInv f

/-- what the READER theorems need: tables without an index column have zero cells, and a file that
holds an event has the particle group with its `total_thrown` — nothing about the index cells -/
structure Rd (f : File) : Prop where
  col : ColInv f
  thr : ThrInv f

theorem Good.rd {o : Opts} {f : File} (h : Good o f) : Rd f := ⟨h.col, h.thr⟩

theorem good_run {o : Opts} (hA : AlwaysParticles o) (ops : List Op) : Good o (run o ops) :=
  ⟨inv_run hA ops, (aux_run hA ops).1, (aux_run hA ops).2⟩

def it0 (sr : Int) (a b c n : Nat) : It :=
  { sr := sr, s := a, e := a, step := c, ctr := -1, stop := b, maxEv := n, data := fun _ => none }

theorem mkIterCore_ok (n : Nat) (sr : Int) {a b c : Nat} (ha : a < n) (hb0 : 0 < b) (hb : b ≤ n) (hc : 0 < c) :
    mkIterCore n sr a b c = .ok (it0 sr a b c n) := by
  unfold mkIterCore
  rw [if_neg (by omega), if_neg (by omega)]
  simp [it0]

theorem mkIter_ok {f : File} (hg : Rd f) (sr : Int) (oa ob oc : Option Int) {a b c : Nat}
    (ha : normIdx (oa.getD 0) f.index.length = a) (hb : normIdx (ob.getD f.index.length) f.index.length = b)
    (hc : oc.getD 1 = c) (h1 : a < f.index.length) (h2 : 0 < b) (h3 : b ≤ f.index.length) (h4 : 0 < c) :
    mkIter f sr oa ob oc = .ok (it0 sr a b c f.index.length) := by
  have ht := hg.thr (by omega)
  unfold mkIter
  rw [if_neg (by
    intro h
    rcases h with h | h
    · rw [ht.1] at h; cases h
    · have h2 := ht.2; rw [h] at h2; simp at h2), ha, hb, hc]
  exact mkIterCore_ok _ sr h1 h2 h3 h4

theorem pre_it0 (f : File) {sr : Int} {a b c n : Nat} (hsr : 1 ≤ sr) (ha : a ≤ n) :
    Pre f n b c (it0 sr a b c n) a :=
  ⟨rfl, hsr, rfl, rfl, by simp [it0], ha, fun _ _ => rfl, fun h => by simp [it0] at h⟩

theorem strided_length_le {a b c : Nat} (hc : 0 < c) : (strided a b c).length ≤ b - a := by
  rw [strided_length]
  generalize hq : (b - a + c - 1) / c = q
  by_cases h0 : q = 0
  · omega
  · have hk : q - 1 < (b - a + c - 1) / c := by omega
    have := (strided_lt_iff hc).mp hk
    have h2 : q - 1 ≤ (q - 1) * c := Nat.le_mul_of_pos_right _ hc
    omega

/-- the chunked iterator over `[a, b)` with step `c` and any chunk size `sr ≥ 1` -/
theorem collect_it0 {f : File} (hg : Rd f) {sr : Int} {a b c : Nat} (hsr : 1 ≤ sr)
    (hb : b ≤ f.index.length) (hc : 0 < c) (ha : a ≤ f.index.length) :
    collect f (f.index.length + 1) (it0 sr a b c f.index.length) =
      ((strided a b c).map (fun i t => getEvent f i t), Err.stop) := by
  apply collect_eq hg.col rfl hc hb _ _ a (pre_it0 f hsr ha)
  have := strided_length_le (a := a) (b := b) hc
  omega

theorem strided_one (n : Nat) : strided 0 n 1 = List.range n := by
  unfold strided
  simp

theorem normIdx_nonneg {x : Int} (n : Int) (h : 0 ≤ x) : normIdx x n = x := by
  unfold normIdx; rw [if_neg (by omega)]

theorem normIdx_neg {x : Int} (n : Int) (h : x < 0) : normIdx x n = x + n := by
  unfold normIdx; rw [if_pos h]

/-- `for ev in File(fn, slice_range=sr)` -/
theorem iterAll_eq {f : File} (hg : Rd f) (sr : Option Int)
    (hsr : ∀ k, sr = some k → 1 ≤ k) :
    iterAll f sr = ((List.range f.index.length).map (fun i t => getEvent f i t), Err.stop) := by
  unfold iterAll
  by_cases hn : f.index.length = 0
  · rw [if_pos hn, hn]; rfl
  · rw [if_neg hn]
    have hsr' : 1 ≤ fileSr f sr := by
      unfold fileSr
      cases sr with
      | none => simp; omega
      | some k => exact hsr k rfl
    rw [mkIter_ok hg (fileSr f sr) none none none (a := 0) (b := f.index.length) (c := 1)
      (by simp [normIdx]) (by simp [normIdx]; omega) rfl (by omega) (by omega) (Nat.le_refl _) (by decide)]
    simp only []
    rw [collect_it0 hg hsr' (Nat.le_refl _) (by decide) (by omega), strided_one]

/-- `f[a:b:c]` -/
theorem getitemSlice_eq {f : File} (hg : Rd f) (sr : Option Int) (oa ob oc : Option Int)
    {a b c : Nat} (hsr : ∀ k, sr = some k → 1 ≤ k)
    (ha : normIdx (oa.getD 0) f.index.length = a) (hb : normIdx (ob.getD f.index.length) f.index.length = b)
    (hc : oc.getD 1 = c) (hab : a < b) (hbn : b ≤ f.index.length) (hc0 : 0 < c) :
    getitemSlice f sr oa ob oc = ((strided a b c).map (fun i t => getEvent f i t), Err.stop) := by
  unfold getitemSlice
  simp only [ha, hb]
  have hsr' : 1 ≤ min (fileSr f sr) ((b : Int) - (a : Int)) := by
    have : 1 ≤ fileSr f sr := by
      unfold fileSr
      cases sr with
      | none => simp; omega
      | some k => exact hsr k rfl
    omega
  rw [mkIter_ok hg _ oa ob oc ha hb hc (by omega) (by omega) hbn hc0]
  simp only []
  exact collect_it0 hg hsr' hbn hc0 (by omega)

/-- one event through the iterator with chunk size 1 -/
theorem collect_two {f : File} {it : It} {x : Tbl → List Row}
    (h : collect f 2 it = ([x], Err.stop)) : ∃ it', next f it = .ok it' ∧ current it' = x := by
  unfold collect at h
  cases hn : next f it with
  | error e => rw [hn] at h; simp at h
  | ok it' =>
    rw [hn] at h
    simp only [] at h
    have h1 := congrArg Prod.fst h
    simp only [List.cons.injEq] at h1
    exact ⟨it', rfl, h1.1⟩

/-- `f[key]` for `-n ≤ key < n` -/
theorem getitemInt_eq {f : File} (hg : Rd f) (key : Int)
    (h1 : -(f.index.length : Int) ≤ key) (h2 : key < f.index.length) :
    getitemInt f key = .ok (fun t => getEvent f (key % (f.index.length : Int)).toNat t) := by
  have hn : 0 < f.index.length := by omega
  let a : Nat := (key % (f.index.length : Int)).toNat
  have ha : normIdx key f.index.length = (a : Int) := by
    show _ = (((key % (f.index.length : Int)).toNat : Nat) : Int)
    by_cases hk : key < 0
    · rw [normIdx_neg _ hk]
      have : key % (f.index.length : Int) = key + f.index.length := by
        rw [← Int.add_emod_right, Int.emod_eq_of_lt (by omega) (by omega)]
      rw [this]; omega
    · rw [normIdx_nonneg _ (by omega)]
      have : key % (f.index.length : Int) = key := Int.emod_eq_of_lt (by omega) (by omega)
      rw [this]; omega
  have han : a < f.index.length := by
    have : normIdx key f.index.length < f.index.length := by unfold normIdx; split <;> omega
    omega
  have hb : normIdx (if key = -1 then (f.index.length : Int) else key + 1) f.index.length = ((a + 1 : Nat) : Int) := by
    by_cases hk1 : key = -1
    · rw [if_pos hk1, normIdx_nonneg _ (by omega)]
      rw [hk1, normIdx_neg _ (by decide)] at ha; omega
    · rw [if_neg hk1]
      by_cases hk : key < 0
      · rw [normIdx_neg _ (by omega)]; rw [normIdx_neg _ hk] at ha; omega
      · rw [normIdx_nonneg _ (by omega)]; rw [normIdx_nonneg _ (by omega)] at ha; omega
  unfold getitemInt
  simp only []
  rw [mkIter_ok hg 1 (some key) (some (if key = -1 then (f.index.length : Int) else key + 1)) (some 1)
    (a := a) (b := a + 1) (c := 1) ha hb rfl han (by omega) (by omega) (by decide)]
  simp only []
  have hcol := collect_eq hg.col (n := f.index.length) (b := a + 1) (c := 1) rfl (by decide) (by omega) 2
    (it0 1 a (a + 1) 1 f.index.length) a (pre_it0 f (Int.le_refl 1) (by omega))
    (by have := strided_length_le (a := a) (b := a + 1) (c := 1) (by decide); omega)
  have hs : strided a (a + 1) 1 = [a] := by
    rw [strided_cons (by decide) (by omega), strided_nil (by omega) (by decide)]
  rw [hs] at hcol
  obtain ⟨it', hnx, hcur⟩ := collect_two hcol
  rw [hnx]
  simp only []
  rw [hcur]

/-- `f[key]` outside `-n … n-1` raises IndexError (for a file that holds at least one event) -/
theorem getitemInt_out {f : File} (hg : Rd f) (hn : 0 < f.index.length) (key : Int)
    (h : key < -(f.index.length : Int) ∨ (f.index.length : Int) ≤ key) :
    getitemInt f key = .error .index := by
  have ht := hg.thr hn
  unfold getitemInt mkIter
  simp only []
  rw [if_neg (by
    intro h
    rcases h with h | h
    · rw [ht.1] at h; cases h
    · have h2 := ht.2; rw [h] at h2; simp at h2)]
  unfold mkIterCore
  rw [if_pos (by
    rcases h with h | h
    · left; unfold normIdx; simp only [Option.getD_some]; rw [if_pos (by omega)]; omega
    · right; left; unfold normIdx; simp only [Option.getD_some]; rw [if_neg (by omega)]; omega)]

end H5
