import PyrexVerif.Proofs.H5Basic
/-! Closed form of one `add` on the per-table views. -/
namespace H5

theorem Tbl.all_nodup : Tbl.all.Nodup := by decide
theorem Tbl.presetOrder_nodup : Tbl.presetOrder.Nodup := by decide
theorem Tbl.mem_all (t : Tbl) : t ∈ Tbl.all := by cases t <;> decide
theorem Tbl.mem_presetOrder (t : Tbl) : t ∈ Tbl.presetOrder := by cases t <;> decide
theorem Tbl.nOps_le (t : Tbl) : t.nOps ≤ 4 := by cases t <;> decide
theorem Tbl.nOps_ge (t : Tbl) : 3 ≤ t.nOps := by cases t <;> decide

/-- effect of the preset on a view -/
def P (v : View) : View := if v.ex then { v with cell := (v.counter, 0) } else v

theorem foldPreset : ∀ (L : List Tbl), L.Nodup → ∀ (f : File),
    Frame f (L.foldl (fun f t => writeIdx f f.nEvents t (f.counter t, 0)) f) ∧
    (∀ t, t ∉ L → view (L.foldl (fun f t => writeIdx f f.nEvents t (f.counter t, 0)) f) t = view f t) ∧
    (∀ t, t ∈ L → view (L.foldl (fun f t => writeIdx f f.nEvents t (f.counter t, 0)) f) t = P (view f t)) := by
  intro L
  induction L with
  | nil => intro _ f; exact ⟨Frame.refl f, fun _ _ => rfl, fun _ h => by simp at h⟩
  | cons t0 L ih =>
    intro hnd f
    have hnd' := List.nodup_cons.mp hnd
    obtain ⟨h1, h2, h3⟩ := ih hnd'.2 (writeIdx f f.nEvents t0 (f.counter t0, 0))
    simp only [List.foldl_cons]
    refine ⟨Frame.trans (writeIdx_frame f t0 _) h1, ?_, ?_⟩
    · intro t ht
      have ht' : t ≠ t0 ∧ t ∉ L := by simpa using ht
      rw [h2 t ht'.2, writeIdx_view_ne f _ ht'.1]
    · intro t ht
      by_cases h0 : t = t0
      · subst h0
        rw [h2 t hnd'.1, writeIdx_view_eq]
        rfl
      · have hL : t ∈ L := by simpa [h0] using ht
        rw [h3 t hL, writeIdx_view_ne f _ h0]

theorem preset_spec (f : File) : Frame f (preset f) ∧ ∀ t, view (preset f) t = P (view f t) := by
  obtain ⟨h1, _, h3⟩ := foldPreset Tbl.presetOrder Tbl.presetOrder_nodup f
  exact ⟨h1, fun t => h3 t (Tbl.mem_presetOrder t)⟩

/-- what the cut-point rule guarantees about a stage -/
def StageOK (o : Opts) (e : Ev) (t : Tbl) (b s : Nat) : Prop :=
  (s = 1 → t = .triggers ∧ o.trigOnly .triggers = false) ∧
  (records o e t = false → s = 0) ∧
  (4 ≤ b → s = if records o e t then t.nOps else 0)

theorem stageOf_ok (o : Opts) (e : Ev) (t : Tbl) (b : Nat) (h : records o e t = true) :
    StageOK o e t b (stageOf o t b) := by
  have := Tbl.nOps_le t; have := Tbl.nOps_ge t
  refine ⟨?_, ?_, ?_⟩
  · intro hs
    unfold stageOf at hs
    split at hs
    · omega
    · rename_i hc
      have : ¬¬(t = Tbl.triggers ∧ o.trigOnly Opt.triggers = false) := fun hn => hc ⟨hs, hn⟩
      exact Classical.not_not.mp this
  · intro h'; rw [h] at h'; cases h'
  · intro hb
    rw [h]; simp only [if_true]
    unfold stageOf
    have : min b t.nOps = t.nOps := by omega
    rw [this]
    split
    · omega
    · rfl

theorem foldStep (o : Opts) (e : Ev) : ∀ (L : List Tbl), L.Nodup → ∀ (f : File) (b : Nat),
    Frame f (L.foldl (step o e) (f, b)).1 ∧
    (∀ t, t ∉ L → view (L.foldl (step o e) (f, b)).1 t = view f t) ∧
    (∀ t, t ∈ L → ∃ s, view (L.foldl (step o e) (f, b)).1 t = W f.calls (view f t) (e.len t) s ∧
        (s = 1 → t = .triggers ∧ o.trigOnly .triggers = false) ∧
        (records o e t = false → s = 0) ∧
        (4 * L.length ≤ b → s = if records o e t then t.nOps else 0)) := by
  intro L
  induction L with
  | nil => intro _ f b; exact ⟨Frame.refl f, fun _ _ => rfl, fun _ h => by simp at h⟩
  | cons t0 L ih =>
    intro hnd f b
    have hnd' := List.nodup_cons.mp hnd
    simp only [List.foldl_cons]
    by_cases hr : records o e t0 = true
    · have hstep : step o e (f, b) t0 = (writeTbl f t0 (e.len t0) e.thrown (stageOf o t0 b), b - t0.nOps) := by
        simp [step, hr]
      rw [hstep]
      obtain ⟨h1, h2, h3⟩ := ih hnd'.2 (writeTbl f t0 (e.len t0) e.thrown (stageOf o t0 b)) (b - t0.nOps)
      have hfr := writeTbl_frame f t0 (e.len t0) e.thrown (stageOf o t0 b)
      refine ⟨Frame.trans hfr h1, ?_, ?_⟩
      · intro t ht
        have ht' : t ≠ t0 ∧ t ∉ L := by simpa using ht
        rw [h2 t ht'.2, writeTbl_view_ne f _ _ _ ht'.1]
      · intro t ht
        by_cases h0 : t = t0
        · subst h0
          refine ⟨stageOf o t b, ?_, ?_⟩
          · rw [h2 t hnd'.1, writeTbl_view_eq]
          · have hok := stageOf_ok o e t b hr
            refine ⟨hok.1, hok.2.1, fun hb => hok.2.2 ?_⟩
            simp only [List.length_cons] at hb; omega
        · have hL : t ∈ L := by simpa [h0] using ht
          obtain ⟨s, hs, hs1, hs2, hs3⟩ := h3 t hL
          refine ⟨s, ?_, hs1, hs2, ?_⟩
          · rw [hs, writeTbl_view_ne f _ _ _ h0, hfr.calls]
          · intro hb
            apply hs3
            have := Tbl.nOps_le t0
            simp only [List.length_cons] at hb; omega
    · have hr' : records o e t0 = false := by simpa using hr
      have hstep : step o e (f, b) t0 = (f, b) := by simp [step, hr']
      rw [hstep]
      obtain ⟨h1, h2, h3⟩ := ih hnd'.2 f b
      refine ⟨h1, ?_, ?_⟩
      · intro t ht
        have ht' : t ≠ t0 ∧ t ∉ L := by simpa using ht
        exact h2 t ht'.2
      · intro t ht
        by_cases h0 : t = t0
        · subst h0
          refine ⟨0, ?_, by omega, fun _ => rfl, fun _ => by simp [hr']⟩
          rw [h2 t hnd'.1]; simp [W]
        · have hL : t ∈ L := by simpa [h0] using ht
          obtain ⟨s, hs, hs1, hs2, hs3⟩ := h3 t hL
          exact ⟨s, hs, hs1, hs2, fun hb => hs3 (by simp only [List.length_cons] at hb; omega)⟩

/-- the state of the tables and of the row being written after the body of `_add_event_data`
ran with budget `b` -/
def body (o : Opts) (e : Ev) (f : File) (b : Nat) : File := (Tbl.all.foldl (step o e) (preset f, b)).1

theorem body_spec (o : Opts) (e : Ev) (f : File) (b : Nat) :
    Frame f (body o e f b) ∧
    ∀ t, ∃ s, view (body o e f b) t = W f.calls (P (view f t)) (e.len t) s ∧
        (s = 1 → t = .triggers ∧ o.trigOnly .triggers = false) ∧
        (records o e t = false → s = 0) ∧
        (24 ≤ b → s = if records o e t then t.nOps else 0) := by
  obtain ⟨p1, p2⟩ := preset_spec f
  obtain ⟨h1, _, h3⟩ := foldStep o e Tbl.all Tbl.all_nodup (preset f) b
  refine ⟨Frame.trans p1 h1, fun t => ?_⟩
  obtain ⟨s, hs, hs1, hs2, hs3⟩ := h3 t (Tbl.mem_all t)
  refine ⟨s, ?_, hs1, hs2, fun hb => hs3 (by simp [Tbl.all]; omega)⟩
  show view (Tbl.all.foldl (step o e) (preset f, b)).1 t = _
  rw [hs, p2 t, p1.calls]

theorem add_none (o : Opts) (f : File) (e : Ev) : add o f e none = finishOk (body o e f fullBudget) := rfl
theorem add_zero (o : Opts) (f : File) (e : Ev) : add o f e (some 0) = { f with calls := f.calls + 1 } := rfl
theorem add_succ (o : Opts) (f : File) (e : Ev) (k : Nat) :
    add o f e (some (k+1)) = finishRej (body o e f k) := rfl

end H5
