import PyrexVerif.Proofs.H5Chunk
/-! Two further invariants needed by the reader: tables without an index column have only zero
cells, and once an event was accepted the particle group and its `total_thrown` exist. -/
namespace H5

def ColInv (f : File) : Prop := ∀ t, t ∉ f.cols → ∀ i, cell f i t = (0, 0)

structure ThrLe (f f' : File) : Prop where
  ex : f.exists_ .particles = true → f'.exists_ .particles = true
  thr : f.thrown.isSome = true → f'.thrown.isSome = true

def Thr (f : File) : Prop := f.exists_ .particles = true ∧ f.thrown.isSome = true

theorem ThrLe.refl (f : File) : ThrLe f f := ⟨id, id⟩
theorem ThrLe.trans {a b c : File} (h1 : ThrLe a b) (h2 : ThrLe b c) : ThrLe a c :=
  ⟨fun h => h2.ex (h1.ex h), fun h => h2.thr (h1.thr h)⟩
theorem ThrLe.keep {f f' : File} (h : ThrLe f f') (ht : Thr f) : Thr f' := ⟨h.ex ht.1, h.thr ht.2⟩

theorem colInv_writeIdx {f : File} (h : ColInv f) (g : Nat) (t : Tbl) (v : Cell) : ColInv (writeIdx f g t v) := by
  by_cases hx : f.exists_ t = true
  · intro t' ht' i
    have hcols : (writeIdx f g t v).cols = if t ∈ f.cols then f.cols else f.cols ++ [t] := by
      simp [writeIdx, hx]
    rw [hcols] at ht'
    have hne : t' ≠ t := by
      intro he; subst he
      by_cases hm : t' ∈ f.cols <;> simp [hm] at ht'
    have hnc : t' ∉ f.cols := by
      intro hm
      by_cases hm2 : t ∈ f.cols <;> simp [hm2, hm] at ht'
    rw [writeIdx_cell hx]
    simp [hne]
    exact h t' hnc i
  · have hx' : f.exists_ t = false := by simpa using hx
    rw [writeIdx_of_not_exists hx']; exact h

theorem thrLe_writeIdx (f : File) (g : Nat) (t : Tbl) (v : Cell) : ThrLe f (writeIdx f g t v) := by
  have hf := writeIdx_fields f g t v
  exact ⟨fun h => by rw [hf.2.1]; exact h, fun h => by rw [hf.2.2.2.2.1]; exact h⟩

theorem colInv_same {f f' : File} (h : ColInv f) (hc : f'.cols = f.cols) (hi : f'.index = f.index) : ColInv f' := by
  intro t ht i
  have : cell f' i t = cell f i t := by unfold cell; rw [hi]
  rw [this]; exact h t (by rw [← hc]; exact ht) i

theorem colInv_writeTbl {f : File} (h : ColInv f) (t : Tbl) (n th s : Nat) : ColInv (writeTbl f t n th s) := by
  have hig : ColInv (igFile f t n) := colInv_same h rfl rfl
  have hiw : ColInv (iwFile f t n) := colInv_writeIdx hig _ _ _
  rw [writeTbl_eq]
  split; · exact h
  split; · exact colInv_same h rfl rfl
  split; · exact hig
  split; · exact hiw
  split
  · exact colInv_same hiw rfl rfl
  · exact hiw

theorem thrLe_writeTbl (f : File) (t : Tbl) (n th s : Nat) : ThrLe f (writeTbl f t n th s) := by
  have hig : ThrLe f (igFile f t n) :=
    ⟨fun h => by simp [igFile, growTbl, incCounter, h], fun h => h⟩
  have hiw : ThrLe f (iwFile f t n) := ThrLe.trans hig (thrLe_writeIdx _ _ _ _)
  rw [writeTbl_eq]
  split; · exact ThrLe.refl f
  split; · exact ⟨fun h => h, fun h => h⟩
  split; · exact hig
  split; · exact hiw
  split
  · exact ThrLe.trans hiw ⟨fun h => h, fun _ => by simp [bumpThrown]⟩
  · exact hiw

theorem aux_foldStep (o : Opts) (e : Ev) : ∀ (L : List Tbl) (f : File) (b : Nat),
    (ColInv f → ColInv (L.foldl (step o e) (f, b)).1) ∧ ThrLe f (L.foldl (step o e) (f, b)).1 := by
  intro L
  induction L with
  | nil => intro f b; exact ⟨id, ThrLe.refl f⟩
  | cons t0 L ih =>
    intro f b
    simp only [List.foldl_cons]
    by_cases hr : records o e t0 = true
    · have hstep : step o e (f, b) t0 = (writeTbl f t0 (e.len t0) e.thrown (stageOf o t0 b), b - t0.nOps) := by
        simp [step, hr]
      rw [hstep]
      obtain ⟨h1, h2⟩ := ih (writeTbl f t0 (e.len t0) e.thrown (stageOf o t0 b)) (b - t0.nOps)
      exact ⟨fun h => h1 (colInv_writeTbl h _ _ _ _), ThrLe.trans (thrLe_writeTbl _ _ _ _ _) h2⟩
    · have hr' : records o e t0 = false := by simpa using hr
      have hstep : step o e (f, b) t0 = (f, b) := by simp [step, hr']
      rw [hstep]; exact ih f b

theorem aux_preset (f : File) : (ColInv f → ColInv (preset f)) ∧ ThrLe f (preset f) := by
  unfold preset
  generalize Tbl.presetOrder = L
  induction L generalizing f with
  | nil => exact ⟨id, ThrLe.refl f⟩
  | cons t0 L ih =>
    simp only [List.foldl_cons]
    obtain ⟨h1, h2⟩ := ih (writeIdx f f.nEvents t0 (f.counter t0, 0))
    exact ⟨fun h => h1 (colInv_writeIdx h _ _ _), ThrLe.trans (thrLe_writeIdx _ _ _ _) h2⟩

theorem aux_body (o : Opts) (e : Ev) (f : File) (b : Nat) :
    (ColInv f → ColInv (body o e f b)) ∧ ThrLe f (body o e f b) := by
  obtain ⟨p1, p2⟩ := aux_preset f
  obtain ⟨s1, s2⟩ := aux_foldStep o e Tbl.all (preset f) b
  exact ⟨fun h => s1 (p1 h), ThrLe.trans p2 s2⟩

theorem thr_body_ok {o : Opts} (hA : AlwaysParticles o) (e : Ev) (f : File) : Thr (body o e f fullBudget) := by
  unfold body
  have hall : Tbl.all = .particles :: [.triggers, .mcTriggers, .rays, .noise, .waveforms] := rfl
  rw [hall, List.foldl_cons]
  have hr := records_particles hA e
  have hstep : step o e (preset f, fullBudget) .particles =
      (writeTbl (preset f) .particles (e.len .particles) e.thrown 4, fullBudget - 4) := by
    simp [step, hr, stageOf, fullBudget, Tbl.nOps]
  rw [hstep]
  refine (aux_foldStep o e _ _ _).2.keep ?_
  rw [writeTbl_eq]
  simp only [show (4:Nat) ≠ 0 by decide, show (4:Nat) ≠ 1 by decide, show (4:Nat) ≠ 2 by decide,
    show (4:Nat) ≠ 3 by decide, if_false, if_true]
  refine ⟨?_, by simp [bumpThrown]⟩
  show (iwFile (preset f) .particles (e.len .particles)).exists_ .particles = true
  unfold iwFile
  rw [(writeIdx_fields _ _ _ _).2.1]
  simp [igFile, growTbl]

theorem cell_finishRej (f2 : File) (i : Nat) (t : Tbl) :
    cell (finishRej f2) i t = if i < f2.nEvents then cell f2 i t else (0, 0) :=
  cell_take f2 f2.nEvents i t _ rfl

theorem aux_applyOp {o : Opts} (hA : AlwaysParticles o) (f : File) (op : Op) :
    (ColInv f → ColInv (applyOp o f op)) ∧ ThrLe f (applyOp o f op) ∧
    (∀ e, op = .ok e → Thr (applyOp o f op)) := by
  cases op with
  | ok e =>
    obtain ⟨h1, h2⟩ := aux_body o e f fullBudget
    refine ⟨fun h => colInv_same (f := body o e f fullBudget) (h1 h) rfl rfl, ⟨h2.ex, h2.thr⟩, fun _ _ => ?_⟩
    exact thr_body_ok hA e f
  | rejected e k =>
    cases k with
    | zero => exact ⟨fun h => colInv_same h rfl rfl, ⟨id, id⟩, fun _ h => by cases h⟩
    | succ k =>
      obtain ⟨h1, h2⟩ := aux_body o e f k
      refine ⟨fun h => ?_, ⟨h2.ex, h2.thr⟩, fun _ h => by cases h⟩
      intro t ht i
      show cell (finishRej (body o e f k)) i t = _
      rw [cell_finishRej]
      split
      · exact h1 h t ht i
      · rfl
  | reopen => exact ⟨fun h => colInv_same h rfl rfl, ⟨id, id⟩, fun _ h => by cases h⟩

/-- a file is readable by `EventIterator` as soon as it holds an event -/
def ThrInv (f : File) : Prop := 0 < f.index.length → Thr f

theorem colInv_empty : ColInv File.empty := fun t _ i => by simp [cell, File.empty, IxRow.default]

theorem aux_foldl {o : Opts} (hA : AlwaysParticles o) (ops : List Op) :
    ∀ f, Inv o f → ColInv f → ThrInv f →
      ColInv (ops.foldl (applyOp o) f) ∧ ThrInv (ops.foldl (applyOp o) f) := by
  induction ops with
  | nil => intro f _ h1 h2; exact ⟨h1, h2⟩
  | cons op r ih =>
    intro f hi h1 h2
    obtain ⟨a1, a2, a3⟩ := aux_applyOp hA f op
    refine ih _ (inv_applyOp hA hi op) (a1 h1) ?_
    intro hpos
    cases op with
    | ok e => exact a3 e rfl
    | rejected e k =>
      apply a2.keep (h2 _)
      cases k with
      | zero => exact hpos
      | succ k =>
        have := (add_rej_cells (o := o) (e := e) (k := k) hi).1
        have hl : (applyOp o f (.rejected e (k+1))).index.length = f.nEvents := this
        rw [hl, ← hi.ixlen] at hpos; exact hpos
    | reopen => exact a2.keep (h2 hpos)

theorem aux_run {o : Opts} (hA : AlwaysParticles o) (ops : List Op) :
    ColInv (run o ops) ∧ ThrInv (run o ops) :=
  aux_foldl hA ops _ (Inv.empty o) colInv_empty (fun h => by simp [File.empty] at h)

end H5
