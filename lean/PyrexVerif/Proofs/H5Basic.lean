import PyrexVerif.D.H5
/-! Helper lemmas for the HDF5 writer model: index cells, frames, per-table views. -/
namespace H5

/-- the cell of event `i`, table `t`; `(0,0)` outside the table -/
def cell (f : File) (i : Nat) (t : Tbl) : Cell := (f.index.getD i IxRow.default) t

theorem cell_of_length_le {f : File} {i : Nat} (h : f.index.length ≤ i) (t : Tbl) : cell f i t = (0, 0) := by
  unfold cell
  rw [List.getD_eq_getElem?_getD, List.getElem?_eq_none h]
  rfl

theorem getEvent_eq (f : File) (i : Nat) (t : Tbl) :
    getEvent f i t = ((f.rows t).drop (cell f i t).1).take (cell f i t).2 := by
  unfold getEvent cell
  rw [List.getD_eq_getElem?_getD]
  cases h : f.index[i]? with
  | none => simp [IxRow.default]
  | some ix => simp

theorem padIx_getD (ix : List IxRow) (n i : Nat) :
    (padIx ix n).getD i IxRow.default = ix.getD i IxRow.default := by
  unfold padIx
  rw [List.getD_eq_getElem?_getD, List.getD_eq_getElem?_getD]
  by_cases h : i < ix.length
  · rw [List.getElem?_append_left h]
  · have h' : ix.length ≤ i := Nat.le_of_not_lt h
    rw [List.getElem?_append_right h', List.getElem?_eq_none h', List.getElem?_replicate]
    split <;> rfl

theorem padIx_length (ix : List IxRow) (n : Nat) : (padIx ix n).length = max ix.length n := by
  unfold padIx; simp; omega

theorem upd_same (r : IxRow) (t : Tbl) (v : Cell) : upd r t v t = v := by simp [upd]
theorem upd_other (r : IxRow) {t t' : Tbl} (v : Cell) (h : t' ≠ t) : upd r t v t' = r t' := by simp [upd, h]

/-! ### `writeIdx` -/

theorem writeIdx_of_not_exists {f : File} {g : Nat} {t : Tbl} {v : Cell} (h : f.exists_ t = false) :
    writeIdx f g t v = f := by simp [writeIdx, h]

theorem writeIdx_cell {f : File} {g : Nat} {t : Tbl} {v : Cell} (h : f.exists_ t = true) (i : Nat) (t' : Tbl) :
    cell (writeIdx f g t v) i t' = if i = g ∧ t' = t then v else cell f i t' := by
  unfold cell
  simp only [writeIdx, h, if_true]
  rw [List.getD_eq_getElem?_getD, List.getElem?_set]
  have hg : g < (padIx f.index (g + 1)).length := by rw [padIx_length]; omega
  by_cases hi : g = i
  · subst hi
    simp only [hg, if_true, Option.getD_some, true_and]
    by_cases ht : t' = t
    · subst ht; simp [upd]
    · simp only [ht, if_false, upd]
      rw [padIx_getD]
  · have hi' : ¬ i = g := fun h => hi h.symm
    simp only [hi, hi', if_false, false_and]
    rw [← List.getD_eq_getElem?_getD, padIx_getD]

theorem writeIdx_length {f : File} {g : Nat} {t : Tbl} {v : Cell} (h : f.exists_ t = true) :
    (writeIdx f g t v).index.length = max f.index.length (g + 1) := by
  simp [writeIdx, h, padIx_length]

theorem writeIdx_fields (f : File) (g : Nat) (t : Tbl) (v : Cell) :
    (writeIdx f g t v).rows = f.rows ∧ (writeIdx f g t v).exists_ = f.exists_ ∧
    (writeIdx f g t v).counter = f.counter ∧ (writeIdx f g t v).nEvents = f.nEvents ∧
    (writeIdx f g t v).thrown = f.thrown ∧ (writeIdx f g t v).calls = f.calls := by
  unfold writeIdx; split <;> simp

theorem writeIdx_cols (f : File) (g : Nat) (t : Tbl) (v : Cell) :
    ∃ ext, (writeIdx f g t v).cols = f.cols ++ ext := by
  unfold writeIdx
  split
  · by_cases h : t ∈ f.cols
    · exact ⟨[], by simp [h]⟩
    · exact ⟨[t], by simp [h]⟩
  · exact ⟨[], by simp⟩

/-! ### Frames: what an `add` in progress never touches -/

structure Frame (f f' : File) : Prop where
  nEvents : f'.nEvents = f.nEvents
  calls : f'.calls = f.calls
  cells : ∀ i, i ≠ f.nEvents → ∀ t, cell f' i t = cell f i t
  len_le : f.index.length ≤ f'.index.length
  len_ub : f'.index.length ≤ max f.index.length (f.nEvents + 1)
  cols : ∃ ext, f'.cols = f.cols ++ ext
  len_cases : f'.index.length = f.index.length ∨ f'.index.length = max f.index.length (f.nEvents + 1)
  ex_mono : ∀ t, f.exists_ t = true → f'.exists_ t = true
  len_ex : f'.index.length ≠ f.index.length → ∃ t, f'.exists_ t = true

theorem Frame.refl (f : File) : Frame f f :=
  ⟨rfl, rfl, fun _ _ _ => rfl, Nat.le_refl _, by omega, ⟨[], by simp⟩, Or.inl rfl, fun _ h => h, fun h => absurd rfl h⟩

theorem Frame.trans {a b c : File} (h1 : Frame a b) (h2 : Frame b c) : Frame a c := by
  refine ⟨h2.nEvents.trans h1.nEvents, h2.calls.trans h1.calls, ?_, Nat.le_trans h1.len_le h2.len_le, ?_, ?_, ?_,
    fun t h => h2.ex_mono t (h1.ex_mono t h), ?_⟩
  · intro i hi t
    rw [h2.cells i (by rw [h1.nEvents]; exact hi) t, h1.cells i hi t]
  · have := h2.len_ub; have := h1.len_ub; rw [h1.nEvents] at *; omega
  · obtain ⟨e1, h1'⟩ := h1.cols
    obtain ⟨e2, h2'⟩ := h2.cols
    exact ⟨e1 ++ e2, by rw [h2', h1', List.append_assoc]⟩
  · have := h1.len_cases; have := h2.len_cases; have := h1.nEvents; omega
  · intro hne
    by_cases hbc : c.index.length = b.index.length
    · obtain ⟨t, ht⟩ := h1.len_ex (by rw [← hbc]; exact hne)
      exact ⟨t, h2.ex_mono t ht⟩
    · exact h2.len_ex hbc

theorem writeIdx_frame (f : File) (t : Tbl) (v : Cell) : Frame f (writeIdx f f.nEvents t v) := by
  have hf := writeIdx_fields f f.nEvents t v
  by_cases h : f.exists_ t = true
  · refine ⟨hf.2.2.2.1, hf.2.2.2.2.2, ?_, ?_, ?_, writeIdx_cols _ _ _ _, Or.inr (writeIdx_length h),
      fun t' h' => by rw [hf.2.1]; exact h', fun _ => ⟨t, by rw [hf.2.1]; exact h⟩⟩
    · intro i hi t'
      rw [writeIdx_cell h]; simp [hi]
    · rw [writeIdx_length h]; omega
    · rw [writeIdx_length h]; omega
  · have h' : f.exists_ t = false := by simpa using h
    rw [writeIdx_of_not_exists h']; exact Frame.refl f

/-! ### Views: everything about one table and the row being written -/

structure View where
  counter : Nat
  rows : List Row
  ex : Bool
  cell : Cell

def view (f : File) (t : Tbl) : View := ⟨f.counter t, f.rows t, f.exists_ t, cell f f.nEvents t⟩

theorem writeIdx_view_ne (f : File) {t t' : Tbl} (v : Cell) (h : t' ≠ t) :
    view (writeIdx f f.nEvents t v) t' = view f t' := by
  have hf := writeIdx_fields f f.nEvents t v
  unfold view
  rw [hf.1, hf.2.1, hf.2.2.1, hf.2.2.2.1]
  congr 1
  by_cases hx : f.exists_ t = true
  · rw [writeIdx_cell hx]; simp [h]
  · have h' : f.exists_ t = false := by simpa using hx
    rw [writeIdx_of_not_exists h']

theorem writeIdx_view_eq (f : File) (t : Tbl) (v : Cell) :
    view (writeIdx f f.nEvents t v) t =
      if f.exists_ t then { view f t with cell := v } else view f t := by
  have hf := writeIdx_fields f f.nEvents t v
  by_cases hx : f.exists_ t = true
  · simp only [hx, if_true]
    unfold view
    rw [hf.1, hf.2.1, hf.2.2.1, hf.2.2.2.1, writeIdx_cell hx]; simp
  · have h' : f.exists_ t = false := by simpa using hx
    rw [writeIdx_of_not_exists h']; simp [h']

/-- the closed form of `writeTbl` on the view of its own table -/
def W (c : Nat) (v : View) (n stage : Nat) : View :=
  if stage = 0 then v else
  if stage = 1 then { v with counter := v.counter + n } else
  if stage = 2 then ⟨v.counter + n, resize v.rows v.counter ++ (List.range n).map (Row.data c), true, v.cell⟩ else
  ⟨v.counter + n, resize v.rows v.counter ++ (List.range n).map (Row.data c), true, (v.counter, n)⟩

def igFile (f : File) (t : Tbl) (n : Nat) : File := growTbl (incCounter f t n) t (f.counter t) n

theorem ig_frame (f : File) (t : Tbl) (n : Nat) : Frame f (igFile f t n) :=
  ⟨rfl, rfl, fun _ _ _ => rfl, Nat.le_refl _, by simp [igFile, growTbl, incCounter]; omega, ⟨[], by simp [igFile, growTbl, incCounter]⟩, Or.inl rfl,
    fun t' h' => by simp [igFile, growTbl, incCounter, h'], fun h => absurd rfl h⟩

theorem ig_view_ne (f : File) {t t' : Tbl} (n : Nat) (h : t' ≠ t) : view (igFile f t n) t' = view f t' := by
  simp [view, igFile, growTbl, incCounter, h, cell]

theorem ig_view_eq (f : File) (t : Tbl) (n : Nat) :
    view (igFile f t n) t =
      ⟨f.counter t + n, resize (f.rows t) (f.counter t) ++ (List.range n).map (Row.data f.calls), true, cell f f.nEvents t⟩ := by
  simp [view, igFile, growTbl, incCounter, cell]

theorem bump_frame (f : File) (th : Nat) : Frame f (bumpThrown f th) :=
  ⟨rfl, rfl, fun _ _ _ => rfl, Nat.le_refl _, Nat.le_max_left _ _, ⟨[], by simp [bumpThrown]⟩, Or.inl rfl, fun _ h => h, fun h => absurd rfl h⟩

theorem inc_frame (f : File) (t : Tbl) (n : Nat) : Frame f (incCounter f t n) :=
  ⟨rfl, rfl, fun _ _ _ => rfl, Nat.le_refl _, Nat.le_max_left _ _, ⟨[], by simp [incCounter]⟩, Or.inl rfl, fun _ h => h, fun h => absurd rfl h⟩

/-- stage 3 of `writeTbl` -/
def iwFile (f : File) (t : Tbl) (n : Nat) : File := writeIdx (igFile f t n) f.nEvents t (f.counter t, n)

theorem iw_frame (f : File) (t : Tbl) (n : Nat) : Frame f (iwFile f t n) :=
  Frame.trans (ig_frame f t n) (writeIdx_frame (igFile f t n) t (f.counter t, n))

theorem iw_view_ne (f : File) {t t' : Tbl} (n : Nat) (h : t' ≠ t) : view (iwFile f t n) t' = view f t' :=
  (writeIdx_view_ne (igFile f t n) (f.counter t, n) h).trans (ig_view_ne f n h)

theorem iw_view_eq (f : File) (t : Tbl) (n : Nat) :
    view (iwFile f t n) t =
      ⟨f.counter t + n, resize (f.rows t) (f.counter t) ++ (List.range n).map (Row.data f.calls), true, (f.counter t, n)⟩ := by
  have h := writeIdx_view_eq (igFile f t n) t (f.counter t, n)
  rw [ig_view_eq] at h
  have e : (igFile f t n).exists_ t = true := by simp [igFile, growTbl]
  rw [e] at h
  exact h

theorem writeTbl_eq (f : File) (t : Tbl) (n th s : Nat) :
    writeTbl f t n th s =
      if s = 0 then f else if s = 1 then incCounter f t n else if s = 2 then igFile f t n else
      if s = 3 then iwFile f t n else if t = .particles then bumpThrown (iwFile f t n) th else iwFile f t n := rfl

theorem writeTbl_frame (f : File) (t : Tbl) (n th s : Nat) : Frame f (writeTbl f t n th s) := by
  rw [writeTbl_eq]
  split
  · exact Frame.refl f
  split
  · exact inc_frame f t n
  split
  · exact ig_frame f t n
  split
  · exact iw_frame f t n
  split
  · exact Frame.trans (iw_frame f t n) (bump_frame _ th)
  · exact iw_frame f t n

theorem writeTbl_view_ne (f : File) {t t' : Tbl} (n th s : Nat) (h : t' ≠ t) :
    view (writeTbl f t n th s) t' = view f t' := by
  rw [writeTbl_eq]
  split
  · rfl
  split
  · simp [view, incCounter, h, cell]
  split
  · exact ig_view_ne f n h
  split
  · exact iw_view_ne f n h
  split
  · exact (show view (bumpThrown (iwFile f t n) th) t' = view (iwFile f t n) t' from rfl).trans (iw_view_ne f n h)
  · exact iw_view_ne f n h

theorem writeTbl_view_eq (f : File) (t : Tbl) (n th s : Nat) :
    view (writeTbl f t n th s) t = W f.calls (view f t) n s := by
  rw [writeTbl_eq]
  unfold W
  split
  · rfl
  split
  · simp [view, incCounter, cell]
  split
  · exact ig_view_eq f t n
  split
  · exact iw_view_eq f t n
  split
  · exact (show view (bumpThrown (iwFile f t n) th) t = view (iwFile f t n) t from rfl).trans (iw_view_eq f t n)
  · exact iw_view_eq f t n

end H5
