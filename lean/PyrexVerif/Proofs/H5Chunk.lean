import PyrexVerif.Proofs.H5Round
/-! Chunk loading (`_load_data`) returns, for every event of the chunk, the rows the index table
addresses — the list lemma behind C12. -/
namespace H5

/-- the slicing lemma: cutting event rows out of a loaded block at `start - block_start` -/
theorem block_slice (rows : List Row) {ts te s l : Nat} (h1 : ts ≤ s) (h2 : s + l ≤ te) :
    ((((rows.drop ts).take (te - ts)).drop (s - ts)).take l) = (rows.drop s).take l := by
  rw [List.drop_take, List.drop_drop, List.take_take]
  have e1 : ts + (s - ts) = s := by omega
  have e2 : min l (te - ts - (s - ts)) = l := by omega
  rw [e1, e2]

/-! ### strided ranges -/

theorem strided_lt_iff {s e c k : Nat} (hc : 0 < c) : k < (e - s + c - 1) / c ↔ s + k * c < e := by
  rw [Nat.lt_iff_add_one_le, Nat.le_div_iff_mul_le hc, Nat.succ_mul]
  omega

theorem strided_length (s e c : Nat) : (strided s e c).length = (e - s + c - 1) / c := by
  simp [strided]

theorem strided_getElem? {s e c k : Nat} (hc : 0 < c) :
    (strided s e c)[k]? = if s + k * c < e then some (s + k * c) else none := by
  unfold strided
  by_cases h : s + k * c < e
  · have hk := (strided_lt_iff hc).mpr h
    rw [List.getElem?_map, List.getElem?_range hk, if_pos h]; rfl
  · have hk : ¬ k < (e - s + c - 1) / c := fun h' => h ((strided_lt_iff hc).mp h')
    rw [List.getElem?_map, List.getElem?_eq_none (by simp; omega), if_neg h]; rfl

theorem mem_strided {s e c x : Nat} (hc : 0 < c) : x ∈ strided s e c ↔ ∃ k, x = s + k * c ∧ x < e := by
  unfold strided
  simp only [List.mem_map, List.mem_range]
  constructor
  · rintro ⟨k, hk, rfl⟩; exact ⟨k, rfl, (strided_lt_iff hc).mp hk⟩
  · rintro ⟨k, rfl, hk⟩; exact ⟨k, (strided_lt_iff hc).mpr hk, rfl⟩

theorem strided_cons {s e c : Nat} (hc : 0 < c) (h : s < e) : strided s e c = s :: strided (s + c) e c := by
  apply List.ext_getElem?
  intro k
  cases k with
  | zero => rw [strided_getElem? hc]; simp [h]
  | succ k =>
    rw [List.getElem?_cons_succ, strided_getElem? hc, strided_getElem? hc]
    have : s + (k + 1) * c = s + c + k * c := by rw [Nat.succ_mul]; omega
    rw [this]

theorem strided_nil {s e c : Nat} (h : e ≤ s) (hc : 0 < c) : strided s e c = [] := by
  apply List.ext_getElem?
  intro k
  rw [strided_getElem? hc]
  have : ¬ s + k * c < e := by omega
  simp [this]

/-! ### block bounds: no assumption on the cells -/

theorem minStart_le : ∀ (L : List Cell) (m : Nat), minStart L = some m → ∀ x ∈ L, m ≤ x.1 := by
  intro L
  induction L with
  | nil => intro m h; simp [minStart] at h
  | cons c cs ih =>
    intro m h x hx
    simp only [minStart] at h
    cases hcs : minStart cs with
    | none =>
      rw [hcs] at h
      have : cs = [] := by
        cases cs with
        | nil => rfl
        | cons d ds => simp only [minStart] at hcs; cases hd : minStart ds <;> rw [hd] at hcs <;> cases hcs
      subst this
      simp at hx; subst hx
      have := Option.some.inj h; omega
    | some m' =>
      rw [hcs] at h
      have hm := Option.some.inj h
      rcases List.mem_cons.mp hx with rfl | hx
      · omega
      · have := ih m' hcs x hx; omega

theorem maxEnd_ge : ∀ (L : List Cell) (M : Nat), maxEnd L = some M → ∀ x ∈ L, x.1 + x.2 ≤ M := by
  intro L
  induction L with
  | nil => intro m h; simp [maxEnd] at h
  | cons c cs ih =>
    intro M h x hx
    simp only [maxEnd] at h
    cases hcs : maxEnd cs with
    | none =>
      rw [hcs] at h
      have : cs = [] := by
        cases cs with
        | nil => rfl
        | cons d ds => simp only [maxEnd] at hcs; cases hd : maxEnd ds <;> rw [hd] at hcs <;> cases hcs
      subst this
      simp at hx; subst hx
      have := Option.some.inj h; omega
    | some m' =>
      rw [hcs] at h
      have hm := Option.some.inj h
      rcases List.mem_cons.mp hx with rfl | hx
      · omega
      · have := ih m' hcs x hx; omega

theorem minStart_some (c : Cell) (cs : List Cell) : ∃ m, minStart (c :: cs) = some m := by
  simp only [minStart]; cases minStart cs <;> exact ⟨_, rfl⟩

theorem maxEnd_some (c : Cell) (cs : List Cell) : ∃ m, maxEnd (c :: cs) = some m := by
  simp only [maxEnd]; cases maxEnd cs <;> exact ⟨_, rfl⟩

/-- `_load_data` for one table, for ARBITRARY index cells (shared rows, cells pointing back to earlier
rows, overlapping ranges, zero cells): every event of the chunk gets exactly the rows its cell
addresses -/
theorem loadTable_eq (f : File) (t : Tbl) (s e c : Nat) (hne : strided s e c ≠ []) :
    loadTable f t s e c = some ((strided s e c).map (fun i => getEvent f i t)) := by
  unfold loadTable
  show (match minStart ((strided s e c).map (fun i => cell f i t)),
              maxEnd ((strided s e c).map (fun i => cell f i t)) with
        | some ts, some te =>
          some (((strided s e c).map (fun i => cell f i t)).map (fun (sl : Cell) =>
            ((((f.rows t).drop ts).take (te - ts)).drop (sl.1 - ts)).take sl.2))
        | _, _ => none) = _
  cases hE : strided s e c with
  | nil => exact absurd hE hne
  | cons i0 E =>
    simp only [List.map_cons]
    obtain ⟨ts, hts⟩ := minStart_some (cell f i0 t) (E.map (fun i => cell f i t))
    obtain ⟨te, hte⟩ := maxEnd_some (cell f i0 t) (E.map (fun i => cell f i t))
    rw [hts, hte]
    have hlo := minStart_le _ _ hts
    have hhi := maxEnd_ge _ _ hte
    simp only [Option.some.injEq, List.cons.injEq]
    refine ⟨?_, ?_⟩
    · rw [getEvent_eq]
      exact block_slice _ (hlo _ (by simp)) (hhi _ (by simp))
    · rw [List.map_map]
      apply List.map_congr_left
      intro i hi
      simp only [Function.comp]
      rw [getEvent_eq]
      have hm : cell f i t ∈ cell f i0 t :: E.map (fun i => cell f i t) :=
        List.mem_cons_of_mem _ (List.mem_map.mpr ⟨i, hi, rfl⟩)
      exact block_slice _ (hlo _ hm) (hhi _ hm)

end H5
