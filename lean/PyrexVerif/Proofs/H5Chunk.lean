import PyrexVerif.Proofs.H5Round
/-! Chunk loading (`_load_data`) returns, for every event of the chunk, the rows the index table
addresses — the list lemma behind C12. -/
namespace H5

/-- the slicing lemma: cutting event rows out of a loaded block at `start - block_start` -/
theorem block_slice (rows : List Row) {ts te s l : Nat} (h1 : ts ≤ s) (h2 : s + l ≤ te) :
    ((((rows.drop ts).take (te - ts)).drop (s - ts)).take l) = (rows.drop s).take l := by
  rw [List.drop_take, List.drop_drop, List.take_take]
  have e1 : ts + (s - ts) = s := by omega
  have e2 : min l (te - ts - (s - ts)) = l := by omega
  rw [e1, e2]

/-! ### strided ranges -/

theorem strided_lt_iff {s e c k : Nat} (hc : 0 < c) : k < (e - s + c - 1) / c ↔ s + k * c < e := by
  rw [Nat.lt_iff_add_one_le, Nat.le_div_iff_mul_le hc, Nat.succ_mul]
  omega

theorem strided_length (s e c : Nat) : (strided s e c).length = (e - s + c - 1) / c := by
  simp [strided]

theorem strided_getElem? {s e c k : Nat} (hc : 0 < c) :
    (strided s e c)[k]? = if s + k * c < e then some (s + k * c) else none := by
  unfold strided
  by_cases h : s + k * c < e
  · have hk := (strided_lt_iff hc).mpr h
    rw [List.getElem?_map, List.getElem?_range hk, if_pos h]; rfl
  · have hk : ¬ k < (e - s + c - 1) / c := fun h' => h ((strided_lt_iff hc).mp h')
    rw [List.getElem?_map, List.getElem?_eq_none (by simp; omega), if_neg h]; rfl

theorem mem_strided {s e c x : Nat} (hc : 0 < c) : x ∈ strided s e c ↔ ∃ k, x = s + k * c ∧ x < e := by
  unfold strided
  simp only [List.mem_map, List.mem_range]
  constructor
  · rintro ⟨k, hk, rfl⟩; exact ⟨k, rfl, (strided_lt_iff hc).mp hk⟩
  · rintro ⟨k, rfl, hk⟩; exact ⟨k, (strided_lt_iff hc).mpr hk, rfl⟩

theorem strided_cons {s e c : Nat} (hc : 0 < c) (h : s < e) : strided s e c = s :: strided (s + c) e c := by
  apply List.ext_getElem?
  intro k
  cases k with
  | zero => rw [strided_getElem? hc]; simp [h]
  | succ k =>
    rw [List.getElem?_cons_succ, strided_getElem? hc, strided_getElem? hc]
    have : s + (k + 1) * c = s + c + k * c := by rw [Nat.succ_mul]; omega
    rw [this]

theorem strided_nil {s e c : Nat} (h : e ≤ s) (hc : 0 < c) : strided s e c = [] := by
  apply List.ext_getElem?
  intro k
  rw [strided_getElem? hc]
  have : ¬ s + k * c < e := by omega
  simp [this]

/-! ### sorted cells -/

def Srt (L : List Cell) : Prop := L.Pairwise (fun a b => a.1 + a.2 ≤ b.1)

theorem minStart_sorted : ∀ (cs : List Cell) (c : Cell), Srt (c :: cs) → minStart (c :: cs) = some c.1 := by
  intro cs
  induction cs with
  | nil => intro c _; simp [minStart]
  | cons d ds ih =>
    intro c h
    have h' := List.pairwise_cons.mp h
    have hd := ih d h'.2
    have hcd := h'.1 d (by simp)
    show (match minStart (d :: ds) with | none => some c.1 | some m => some (min c.1 m)) = _
    rw [hd]
    show some (min c.1 d.1) = _
    congr 1
    omega

theorem head_le_sorted {c : Cell} {cs : List Cell} (h : Srt (c :: cs)) : ∀ x ∈ c :: cs, c.1 ≤ x.1 := by
  intro x hx
  rcases List.mem_cons.mp hx with rfl | hx
  · exact Nat.le_refl _
  · have := (List.pairwise_cons.mp h).1 x hx; omega

theorem pickEnd_sorted : ∀ (cs : List Cell) (c : Cell), Srt (c :: cs) →
    ∃ d, pickEnd (c :: cs) = some d ∧ d ∈ c :: cs ∧ ∀ x ∈ c :: cs, x.1 + x.2 ≤ d.1 + d.2 := by
  intro cs
  induction cs with
  | nil => intro c _; exact ⟨c, by simp [pickEnd], by simp, fun x hx => by simp at hx; subst hx; exact Nat.le_refl _⟩
  | cons c' cs ih =>
    intro c h
    have h' := List.pairwise_cons.mp h
    obtain ⟨d, hd, hdm, hdall⟩ := ih c' h'.2
    have hcd := h'.1 d hdm
    refine ⟨d, ?_, List.mem_cons_of_mem _ hdm, ?_⟩
    · show (match pickEnd (c' :: cs) with | none => some c | some d => if c.1 > d.1 then some c else some d) = _
      rw [hd]
      show (if c.1 > d.1 then some c else some d) = _
      rw [if_neg (by omega)]
    · intro x hx
      rcases List.mem_cons.mp hx with rfl | hx
      · omega
      · exact hdall x hx

/-- `_load_data` for one table: when the chunk's cells are sorted, every event of the chunk gets
exactly the rows its cell addresses -/
theorem loadTable_eq (f : File) (t : Tbl) (s e c : Nat) (hne : strided s e c ≠ [])
    (hs : Srt ((strided s e c).map (fun i => cell f i t))) :
    loadTable f t s e c = some ((strided s e c).map (fun i => getEvent f i t)) := by
  unfold loadTable
  show (match minStart ((strided s e c).map (fun i => cell f i t)),
              pickEnd ((strided s e c).map (fun i => cell f i t)) with
        | some ts, some c' =>
          some (((strided s e c).map (fun i => cell f i t)).map (fun (sl : Cell) =>
            ((((f.rows t).drop ts).take (c'.1 + c'.2 - ts)).drop (sl.1 - ts)).take sl.2))
        | _, _ => none) = _
  cases hE : strided s e c with
  | nil => exact absurd hE hne
  | cons i0 E =>
    rw [hE] at hs
    simp only [List.map_cons] at hs ⊢
    rw [minStart_sorted _ _ hs]
    obtain ⟨d, hd, _, hdall⟩ := pickEnd_sorted _ _ hs
    rw [hd]
    simp only [Option.some.injEq, List.cons.injEq]
    have hhead := head_le_sorted hs
    refine ⟨?_, ?_⟩
    · rw [getEvent_eq]
      exact block_slice _ (Nat.le_refl _) (hdall _ (by simp))
    · rw [List.map_map]
      apply List.map_congr_left
      intro i hi
      simp only [Function.comp]
      rw [getEvent_eq]
      have hm : cell f i t ∈ cell f i0 t :: E.map (fun i => cell f i t) :=
        List.mem_cons_of_mem _ (List.mem_map.mpr ⟨i, hi, rfl⟩)
      exact block_slice _ (hhead _ hm) (hdall _ hm)

/-- the cells of a strided chunk inside the file are sorted -/
theorem srt_strided {o : Opts} {f : File} (hi : Inv o f) (t : Tbl) {s e c : Nat} (hc : 0 < c)
    (he : e ≤ f.index.length) : Srt ((strided s e c).map (fun i => cell f i t)) := by
  unfold Srt strided
  rw [List.map_map, List.pairwise_map]
  apply List.Pairwise.imp_of_mem _ List.pairwise_lt_range
  intro k1 k2 h1 h2 hlt
  simp only [Function.comp]
  apply hi.mono
  · have := Nat.mul_lt_mul_of_pos_right hlt hc; omega
  · have := (strided_lt_iff hc).mp (List.mem_range.mp h2); omega

end H5
