import PyrexVerif.Proofs.H5Top
/-! `FileGenerator`: successive `create_event()` calls replay the files' sequential passes. -/
namespace H5

/-- the particle tables of the sequential pass of a file -/
def pevs (f : File) : List (List Row) := (List.range f.index.length).map (fun i => getEvent f i .particles)

/-- a file the generator can read: written by some add/reject/reopen history with particles always
recorded, holding at least one event -/
def GoodF (f : File) : Prop := (∃ o, Good o f) ∧ 0 < f.index.length

theorem strided_split {a m b : Nat} (h1 : a ≤ m) (h2 : m ≤ b) :
    strided a b 1 = strided a m 1 ++ strided m b 1 := by
  generalize hd : m - a = d
  induction d generalizing a with
  | zero =>
    have : a = m := by omega
    subst this
    rw [strided_nil (Nat.le_refl _) (by decide)]; rfl
  | succ d ih =>
    rw [strided_cons (by decide) (by omega : a < b), strided_cons (by decide) (by omega : a < m),
      ih (by omega) (by omega)]
    rfl

theorem fg_chunk {f : File} (hg : GoodF f) (sr p : Nat) (hsr : 1 ≤ sr) (hp : p < f.index.length) :
    getitemSlice f (some (sr : Int)) (some (p : Int)) (some ((min (p + sr) f.index.length : Nat) : Int)) none =
      ((strided p (min (p + sr) f.index.length) 1).map (fun i t => getEvent f i t), Err.stop) := by
  obtain ⟨⟨o, hgood⟩, _⟩ := hg
  exact getitemSlice_eq hgood.rd (some (sr : Int)) (some (p : Int)) _ none
    (by intro k h; cases h; omega) (by simp [normIdx]; omega) (by simp [normIdx]; omega) rfl
    (by omega) (by omega) (by decide)

theorem fgReadFile_eq {f : File} (hf : GoodF f) (sr : Nat) (frac : Frac) (g : FG) (hsr : 1 ≤ sr)
    (hp : g.evIdx < f.index.length) :
    fgReadFile f sr frac g = .ok ⟨g.fileIdx, g.evIdx + sr,
      (strided g.evIdx (min (g.evIdx + sr) f.index.length) 1).map (fun i => getEvent f i .particles),
      (strided g.evIdx (min (g.evIdx + sr) f.index.length) 1).map (fun i => frac i f.index.length (f.thrown.getD 0)),
      g.counts⟩ := by
  unfold fgReadFile
  simp only [fg_chunk hf sr g.evIdx hsr hp]
  simp [List.map_map, Function.comp_def]

/-- `_load_events` inside the current file -/
theorem fgLoad_same (files : List File) (sr : Nat) (frac : Frac) (g : FG) (k : Nat) (f : File)
    (hsr : 1 ≤ sr) (hf : GoodF f) (hk : g.fileIdx = k + 1) (hfile : files[k]? = some f)
    (hp : g.evIdx < f.index.length) :
    fgLoad files sr frac g = .ok ⟨k + 1, g.evIdx + sr,
      (strided g.evIdx (min (g.evIdx + sr) f.index.length) 1).map (fun i => getEvent f i .particles),
      (strided g.evIdx (min (g.evIdx + sr) f.index.length) 1).map (fun i => frac i f.index.length (f.thrown.getD 0)),
      g.counts⟩ := by
  have h1 : files[g.fileIdx - 1]? = some f := by rw [hk]; simpa using hfile
  have hnn : fgNeedNext files g = false := by
    unfold fgNeedNext; rw [h1, hk]; simp; omega
  unfold fgLoad
  rw [hnn]
  simp only [Bool.false_eq_true, if_false]
  unfold fgRead
  rw [h1]
  simp only []
  rw [fgReadFile_eq hf sr frac g hsr hp, hk]

theorem fgNeedNext_true (files : List File) (g : FG)
    (hneed : g.fileIdx = 0 ∨ ∃ f0, files[g.fileIdx - 1]? = some f0 ∧ f0.index.length ≤ g.evIdx) :
    fgNeedNext files g = true := by
  unfold fgNeedNext
  rcases hneed with h | ⟨f0, h1, h2⟩
  · simp [h]
  · rw [h1]; simp; right; exact h2

/-- `_load_events` moving on to the next file -/
theorem fgLoad_next (files : List File) (sr : Nat) (frac : Frac) (g : FG) (f : File)
    (hsr : 1 ≤ sr) (hf : GoodF f)
    (hneed : g.fileIdx = 0 ∨ ∃ f0, files[g.fileIdx - 1]? = some f0 ∧ f0.index.length ≤ g.evIdx)
    (hfile : files[g.fileIdx]? = some f) :
    fgLoad files sr frac g = .ok ⟨g.fileIdx + 1, sr,
      (strided 0 (min sr f.index.length) 1).map (fun i => getEvent f i .particles),
      (strided 0 (min sr f.index.length) 1).map (fun i => frac i f.index.length (f.thrown.getD 0)),
      g.counts⟩ := by
  unfold fgLoad
  rw [fgNeedNext_true files g hneed]
  simp only [if_true]
  unfold fgRead
  have h2 : files[(fgAdvance g).fileIdx - 1]? = some f := by simpa [fgAdvance] using hfile
  rw [h2]
  simp only []
  rw [fgReadFile_eq hf sr frac (fgAdvance g) hsr (by simpa [fgAdvance] using hf.2)]
  simp [fgAdvance]

theorem fgLoad_end (files : List File) (sr : Nat) (frac : Frac) (g : FG)
    (hneed : g.fileIdx = 0 ∨ ∃ f0, files[g.fileIdx - 1]? = some f0 ∧ f0.index.length ≤ g.evIdx)
    (hfile : files[g.fileIdx]? = none) :
    fgLoad files sr frac g = .error .stop := by
  unfold fgLoad
  rw [fgNeedNext_true files g hneed]
  simp only [if_true]
  unfold fgRead
  have h2 : files[(fgAdvance g).fileIdx - 1]? = none := by simpa [fgAdvance] using hfile
  rw [h2]

/-- what is still to come from file `k` after its event `q`, and from the later files -/
def restOf (files : List File) (k : Nat) (f : File) (q : Nat) : List (List Row) :=
  (strided q f.index.length 1).map (fun i => getEvent f i .particles) ++ ((files.drop (k+1)).map pevs).flatten

structure FGI (files : List File) (g : FG) (k : Nat) (f : File) (p q : Nat) : Prop where
  fidx : g.fileIdx = k + 1
  file : files[k]? = some f
  evs : g.events = (strided p q 1).map (fun i => getEvent f i .particles)
  cnt : g.evCounts.length = g.events.length
  q_eq : q = min g.evIdx f.index.length
  pq : p ≤ q

theorem fgCreate_pop (files : List File) (sr : Nat) (frac : Frac) (g : FG) (ev : List Row) (evs : List (List Row))
    (c : Nat) (cs : List Nat) (h1 : g.events = ev :: evs) (h2 : g.evCounts = c :: cs) :
    fgCreate files sr frac g = .ok (ev, ⟨g.fileIdx, g.evIdx, evs, cs, g.counts.set g.fileIdx c⟩) := by
  unfold fgCreate
  simp [h1, h2]

theorem fgCreate_load (files : List File) (sr : Nat) (frac : Frac) (g g1 : FG) (ev : List Row)
    (evs : List (List Row)) (c : Nat) (cs : List Nat) (h0 : g.events = [])
    (hl : fgLoad files sr frac g = .ok g1) (h1 : g1.events = ev :: evs) (h2 : g1.evCounts = c :: cs) :
    fgCreate files sr frac g = .ok (ev, ⟨g1.fileIdx, g1.evIdx, evs, cs, g1.counts.set g1.fileIdx c⟩) := by
  unfold fgCreate
  simp [h0, hl, h1, h2]

theorem fgCreate_stop (files : List File) (sr : Nat) (frac : Frac) (g : FG) (h0 : g.events = [])
    (hl : fgLoad files sr frac g = .error .stop) : fgCreate files sr frac g = .error .stop := by
  unfold fgCreate
  simp [h0, hl]

theorem map_strided_cons {α : Type} (h : Nat → α) {a b : Nat} (hab : a < b) :
    (strided a b 1).map h = h a :: (strided (a + 1) b 1).map h := by
  rw [strided_cons (by decide) hab]; rfl

/-- one `create_event()`: either the lists are exhausted and it raises `StopIteration`, or it returns
the next event of the concatenated sequential passes -/
theorem fgCreate_spec {files : List File} {sr : Nat} (frac : Frac) (hfiles : ∀ f ∈ files, GoodF f) (hsr : 1 ≤ sr)
    {g : FG} {k : Nat} {f : File} {p q : Nat} (h : FGI files g k f p q) :
    (fgCreate files sr frac g = .error .stop ∧ g.events ++ restOf files k f q = []) ∨
    (∃ ev g' k' f' p' q', fgCreate files sr frac g = .ok (ev, g') ∧ FGI files g' k' f' p' q' ∧
        g.events ++ restOf files k f q = ev :: (g'.events ++ restOf files k' f' q')) := by
  have hf : GoodF f := hfiles f (List.mem_of_getElem? h.file)
  by_cases hpq : p < q
  · -- an event is still loaded
    right
    have hev := h.evs
    rw [map_strided_cons _ hpq] at hev
    have hcl := h.cnt
    rw [hev] at hcl
    cases hc : g.evCounts with
    | nil => rw [hc] at hcl; simp at hcl
    | cons c cs =>
      refine ⟨_, _, k, f, p + 1, q, fgCreate_pop files sr frac g _ _ c cs hev hc, ?_, ?_⟩
      · refine ⟨h.fidx, h.file, rfl, ?_, h.q_eq, by omega⟩
        rw [hc] at hcl; simpa using hcl
      · rw [hev]; rfl
  · have hpq' : p = q := by have := h.pq; omega
    have hev0 : g.events = [] := by rw [h.evs, strided_nil (by omega) (by decide)]; rfl
    rw [hev0, List.nil_append]
    by_cases hin : g.evIdx < f.index.length
    · -- next chunk of the same file
      right
      have hq : q = g.evIdx := by have := h.q_eq; omega
      have hl := fgLoad_same files sr frac g k f hsr hf h.fidx h.file hin
      have hq' : g.evIdx < min (g.evIdx + sr) f.index.length := by omega
      refine ⟨_, _, k, f, g.evIdx + 1, min (g.evIdx + sr) f.index.length,
        fgCreate_load files sr frac g _ _ _ _ _ hev0 hl (map_strided_cons _ hq') (map_strided_cons _ hq'), ?_, ?_⟩
      · exact ⟨rfl, h.file, rfl, by simp, rfl, by omega⟩
      · unfold restOf
        rw [hq, strided_split (Nat.le_of_lt hq') (Nat.min_le_right _ _), List.map_append,
          map_strided_cons _ hq']
        simp
    · have hq : q = f.index.length := by have := h.q_eq; omega
      have hneed : g.fileIdx = 0 ∨ ∃ f0, files[g.fileIdx - 1]? = some f0 ∧ f0.index.length ≤ g.evIdx :=
        Or.inr ⟨f, by rw [h.fidx]; simpa using h.file, by omega⟩
      cases hnext : files[g.fileIdx]? with
      | none =>
        left
        refine ⟨fgCreate_stop files sr frac g hev0 (fgLoad_end files sr frac g hneed hnext), ?_⟩
        unfold restOf
        rw [hq, strided_nil (Nat.le_refl _) (by decide)]
        have : files.length ≤ k + 1 := by
          rw [h.fidx] at hnext; exact List.getElem?_eq_none_iff.mp hnext
        rw [List.drop_eq_nil_of_le this]; rfl
      | some f' =>
        right
        have hf' : GoodF f' := hfiles f' (List.mem_of_getElem? hnext)
        have hl := fgLoad_next files sr frac g f' hsr hf' hneed hnext
        have hq' : 0 < min sr f'.index.length := by have := hf'.2; omega
        refine ⟨_, _, k + 1, f', 0 + 1, min sr f'.index.length,
          fgCreate_load files sr frac g _ _ _ _ _ hev0 hl (map_strided_cons _ hq') (map_strided_cons _ hq'), ?_, ?_⟩
        · refine ⟨by simp [h.fidx], by rw [h.fidx] at hnext; exact hnext, rfl, by simp, rfl, by omega⟩
        · unfold restOf
          rw [hq, strided_nil (Nat.le_refl _) (by decide)]
          have hlt : k + 1 < files.length := by
            rw [h.fidx] at hnext
            exact (List.getElem?_eq_some_iff.mp hnext).1
          have hget : files[k + 1] = f' := by
            rw [h.fidx] at hnext
            exact (List.getElem?_eq_some_iff.mp hnext).2
          rw [List.drop_eq_getElem_cons hlt, hget]
          simp only [List.map_nil, List.nil_append, List.map_cons, List.flatten_cons]
          unfold pevs
          rw [← strided_one, strided_split (Nat.zero_le _) (Nat.min_le_right sr f'.index.length),
            List.map_append, map_strided_cons _ hq']
          simp

theorem fgAll_eq {files : List File} {sr : Nat} (frac : Frac) (hfiles : ∀ f ∈ files, GoodF f) (hsr : 1 ≤ sr) :
    ∀ (fuel : Nat) (g : FG) (k : Nat) (f : File) (p q : Nat), FGI files g k f p q →
      (g.events ++ restOf files k f q).length < fuel →
      (fgAll files sr frac fuel g).1.map Prod.fst = g.events ++ restOf files k f q ∧
      (fgAll files sr frac fuel g).2 = Err.stop := by
  intro fuel
  induction fuel with
  | zero => intro g k f p q _ h; omega
  | succ fuel ih =>
    intro g k f p q hI hfuel
    unfold fgAll
    rcases fgCreate_spec frac hfiles hsr hI with ⟨hc, hr⟩ | ⟨ev, g', k', f', p', q', hc, hI', hr⟩
    · rw [hc, hr]; exact ⟨rfl, rfl⟩
    · rw [hc]
      simp only []
      rw [hr] at hfuel ⊢
      simp only [List.length_cons] at hfuel
      obtain ⟨h1, h2⟩ := ih g' k' f' p' q' hI' (by omega)
      exact ⟨by simp [h1], h2⟩

/-- `FileGenerator(files, slice_range=sr)` followed by `create_event()` until it raises -/
theorem filegen_replays {files : List File} {sr : Nat} (frac : Frac) (hfiles : ∀ f ∈ files, GoodF f)
    (hne : files ≠ []) (hsr : 1 ≤ sr) :
    ∃ g, fgInit files sr frac = .ok g ∧
      ∀ fuel, ((files.map pevs).flatten).length < fuel →
        (fgAll files sr frac fuel g).1.map Prod.fst = (files.map pevs).flatten ∧
        (fgAll files sr frac fuel g).2 = Err.stop := by
  cases files with
  | nil => exact absurd rfl hne
  | cons f0 rest =>
    have hf0 : GoodF f0 := hfiles f0 (by simp)
    have hl := fgLoad_next (f0 :: rest) sr frac
      ⟨0, 0, [], [], List.replicate ((f0 :: rest).length + 1) 0⟩ f0 hsr hf0 (Or.inl rfl) rfl
    refine ⟨_, hl, fun fuel hfuel => ?_⟩
    have hI : FGI (f0 :: rest) ⟨0 + 1, sr,
        (strided 0 (min sr f0.index.length) 1).map (fun i => getEvent f0 i .particles),
        (strided 0 (min sr f0.index.length) 1).map (fun i => frac i f0.index.length (f0.thrown.getD 0)),
        List.replicate ((f0 :: rest).length + 1) 0⟩ 0 f0 0 (min sr f0.index.length) :=
      ⟨rfl, rfl, rfl, by simp, rfl, Nat.zero_le _⟩
    have hrest : (strided 0 (min sr f0.index.length) 1).map (fun i => getEvent f0 i .particles) ++
        restOf (f0 :: rest) 0 f0 (min sr f0.index.length) = ((f0 :: rest).map pevs).flatten := by
      unfold restOf
      simp only [List.map_cons, List.flatten_cons, List.drop_succ_cons, List.drop_zero]
      rw [← List.append_assoc, ← List.map_append, ← strided_split (Nat.zero_le _) (Nat.min_le_right _ _),
        strided_one]
      rfl
    have := fgAll_eq frac hfiles hsr fuel _ 0 f0 0 _ hI (by rw [hrest]; exact hfuel)
    rw [hrest] at this
    exact this

end H5
