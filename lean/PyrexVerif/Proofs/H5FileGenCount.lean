import PyrexVerif.Proofs.H5FileGen
/-! `FileGenerator.count` after every `create_event()`. -/
namespace H5

/-- `total_events_thrown` of the events of a file, in order -/
def pcnts (frac : Frac) (f : File) : List Nat :=
  (List.range f.index.length).map (fun i => frac i f.index.length (f.thrown.getD 0))

/-- what a finished file contributes to `count`: the share of its last event -/
def lastc (frac : Frac) (f : File) : Nat := frac (f.index.length - 1) f.index.length (f.thrown.getD 0)

def lsum (l : List Nat) : Nat := l.foldl (· + ·) 0

/-- `count` after each event: finished files contribute `lastc`, the current one its running share -/
def cntSpec (frac : Frac) : Nat → List File → List Nat
  | _, [] => []
  | base, f :: r => (pcnts frac f).map (base + ·) ++ cntSpec frac (base + lastc frac f) r

theorem lsum_cons (a : Nat) (l : List Nat) : lsum (a :: l) = a + lsum l := by
  unfold lsum
  simp only [List.foldl_cons, Nat.zero_add]
  suffices ∀ (x : Nat), List.foldl (· + ·) x l = x + List.foldl (· + ·) 0 l from this a
  induction l with
  | nil => intro x; rfl
  | cons b l ih => intro x; simp only [List.foldl_cons]; rw [ih (x + b), ih (0 + b)]; omega

theorem lsum_append (a b : List Nat) : lsum (a ++ b) = lsum a + lsum b := by
  induction a with
  | nil => simp [lsum]
  | cons x a ih => rw [List.cons_append, lsum_cons, lsum_cons, ih]; omega

theorem lsum_replicate_zero (n : Nat) : lsum (List.replicate n 0) = 0 := by
  induction n with
  | zero => rfl
  | succ n ih => rw [List.replicate_succ, lsum_cons, ih]

/-- the shape of `_file_counts` while file `k` is being replayed -/
structure CI (frac : Frac) (files : List File) (g : FG) (k : Nat) (f : File) (p q : Nat) : Prop where
  shape : ∃ cur zeros, g.counts = 0 :: ((files.take k).map (lastc frac) ++ cur :: zeros) ∧ lsum zeros = 0 ∧
            (p = 0 → cur = 0) ∧ (0 < p → cur = frac (p - 1) f.index.length (f.thrown.getD 0)) ∧
            zeros.length = files.length - (k + 1)
  evc : g.evCounts = (strided p q 1).map (fun i => frac i f.index.length (f.thrown.getD 0))

theorem set_shape (done : List Nat) (cur c : Nat) (zeros : List Nat) :
    (0 :: (done ++ cur :: zeros)).set (done.length + 1) c = 0 :: (done ++ c :: zeros) := by
  rw [List.set_cons_succ, List.set_append_right _ _ (Nat.le_refl _)]
  simp

theorem set_shape' (done : List Nat) (cur c : Nat) (zeros : List Nat) (n : Nat) (hn : done.length = n) :
    (0 :: (done ++ cur :: zeros)).set (n + 1) c = 0 :: (done ++ c :: zeros) := by
  rw [← hn]; exact set_shape done cur c zeros

theorem lsum_shape (done : List Nat) (c : Nat) (zeros : List Nat) (hz : lsum zeros = 0) :
    lsum (0 :: (done ++ c :: zeros)) = lsum done + c := by
  rw [lsum_cons, lsum_append, lsum_cons, hz]; omega

def baseOf (frac : Frac) (files : List File) (k : Nat) : Nat := lsum ((files.take k).map (lastc frac))

/-- the values `count` still has to take -/
def cntRest (frac : Frac) (files : List File) (k : Nat) (f : File) (p : Nat) : List Nat :=
  (strided p f.index.length 1).map (fun i => baseOf frac files k + frac i f.index.length (f.thrown.getD 0)) ++
    cntSpec frac (baseOf frac files k + lastc frac f) (files.drop (k + 1))

theorem baseOf_succ (frac : Frac) (files : List File) (k : Nat) (f : File) (h : files[k]? = some f) :
    baseOf frac files (k + 1) = baseOf frac files k + lastc frac f := by
  unfold baseOf
  rw [List.take_add_one, h]
  simp only [Option.toList, List.map_append, List.map_cons, List.map_nil]
  rw [lsum_append, lsum_cons]; simp [lsum]

theorem take_len {files : List File} {k : Nat} {f : File} (h : files[k]? = some f) :
    ((files.take k).map (lastc frac)).length = k := by
  have := (List.getElem?_eq_some_iff.mp h).1
  simp; omega

/-- one `create_event()` with the `count` bookkeeping -/
theorem fgCreate_cnt {files : List File} {sr : Nat} (frac : Frac) (hfiles : ∀ f ∈ files, GoodF f) (hsr : 1 ≤ sr)
    {g : FG} {k : Nat} {f : File} {p q : Nat} (h : FGI files g k f p q) (hc : CI frac files g k f p q) :
    (fgCreate files sr frac g = .error .stop ∧ cntRest frac files k f p = []) ∨
    (∃ ev g' k' f' p' q', fgCreate files sr frac g = .ok (ev, g') ∧ FGI files g' k' f' p' q' ∧
        CI frac files g' k' f' p' q' ∧
        cntRest frac files k f p = lsum g'.counts :: cntRest frac files k' f' p') := by
  have hf : GoodF f := hfiles f (List.mem_of_getElem? h.file)
  have hqn : q ≤ f.index.length := by have := h.q_eq; omega
  obtain ⟨cur, zeros, hcounts, hz, hcur0, hcur1, hzl⟩ := hc.shape
  have hdl := take_len (frac := frac) h.file
  by_cases hpq : p < q
  · right
    have hev := h.evs
    rw [map_strided_cons _ hpq] at hev
    have hcv := hc.evc
    rw [map_strided_cons _ hpq] at hcv
    refine ⟨_, _, k, f, p + 1, q, fgCreate_pop files sr frac g _ _ _ _ hev hcv, ?_, ?_, ?_⟩
    · exact ⟨h.fidx, h.file, rfl, by simp, h.q_eq, by omega⟩
    · refine ⟨⟨_, zeros, ?_, hz, by omega, fun _ => rfl, hzl⟩, rfl⟩
      show g.counts.set g.fileIdx _ = _
      rw [hcounts, h.fidx, set_shape' _ _ _ _ k hdl]; simp
    · show _ = lsum (g.counts.set g.fileIdx _) :: _
      rw [hcounts, h.fidx, set_shape' _ _ _ _ k hdl, lsum_shape _ _ _ hz]
      unfold cntRest
      rw [map_strided_cons _ (by omega : p < f.index.length)]
      rfl
  · have hpq' : p = q := by have := h.pq; omega
    have hev0 : g.events = [] := by rw [h.evs, strided_nil (by omega) (by decide)]; rfl
    by_cases hin : g.evIdx < f.index.length
    · right
      have hq : q = g.evIdx := by have := h.q_eq; omega
      have hl := fgLoad_same files sr frac g k f hsr hf h.fidx h.file hin
      have hq' : g.evIdx < min (g.evIdx + sr) f.index.length := by omega
      refine ⟨_, _, k, f, g.evIdx + 1, min (g.evIdx + sr) f.index.length,
        fgCreate_load files sr frac g _ _ _ _ _ hev0 hl (map_strided_cons _ hq') (map_strided_cons _ hq'), ?_, ?_, ?_⟩
      · exact ⟨rfl, h.file, rfl, by simp, rfl, by omega⟩
      · refine ⟨⟨_, zeros, ?_, hz, by omega, fun _ => rfl, hzl⟩, rfl⟩
        show g.counts.set (k + 1) _ = _
        rw [hcounts, set_shape' _ _ _ _ k hdl]; simp
      · show _ = lsum (g.counts.set (k + 1) _) :: _
        rw [hcounts, set_shape' _ _ _ _ k hdl, lsum_shape _ _ _ hz]
        unfold cntRest
        rw [hpq', hq, map_strided_cons _ hin]
        rfl
    · have hq : q = f.index.length := by have := h.q_eq; omega
      have hneed : g.fileIdx = 0 ∨ ∃ f0, files[g.fileIdx - 1]? = some f0 ∧ f0.index.length ≤ g.evIdx :=
        Or.inr ⟨f, by rw [h.fidx]; simpa using h.file, by omega⟩
      cases hnext : files[g.fileIdx]? with
      | none =>
        left
        refine ⟨fgCreate_stop files sr frac g hev0 (fgLoad_end files sr frac g hneed hnext), ?_⟩
        unfold cntRest
        rw [hpq', hq, strided_nil (Nat.le_refl _) (by decide)]
        have : files.length ≤ k + 1 := by
          rw [h.fidx] at hnext; exact List.getElem?_eq_none_iff.mp hnext
        rw [List.drop_eq_nil_of_le this]; rfl
      | some f' =>
        right
        have hf' : GoodF f' := hfiles f' (List.mem_of_getElem? hnext)
        have hl := fgLoad_next files sr frac g f' hsr hf' hneed hnext
        have hq' : 0 < min sr f'.index.length := by have := hf'.2; omega
        have hnext' : files[k + 1]? = some f' := by rw [h.fidx] at hnext; exact hnext
        have hlt : k + 1 < files.length := (List.getElem?_eq_some_iff.mp hnext').1
        have hget : files[k + 1] = f' := (List.getElem?_eq_some_iff.mp hnext').2
        -- the current file is finished: its slot holds the share of its last event
        have hpn : 0 < p := by have := hf.2; omega
        have hcur : cur = lastc frac f := by rw [hcur1 hpn, hpq', hq]; rfl
        cases zeros with
        | nil => simp at hzl; omega
        | cons z0 zeros' =>
          have hz0 : z0 = 0 ∧ lsum zeros' = 0 := by rw [lsum_cons] at hz; omega
          have htake : (files.take (k + 1)).map (lastc frac) = (files.take k).map (lastc frac) ++ [cur] := by
            rw [List.take_add_one, h.file, hcur]; simp
          have hcounts' : g.counts = 0 :: ((files.take (k + 1)).map (lastc frac) ++ z0 :: zeros') := by
            rw [hcounts, htake, List.append_assoc]; rfl
          have hdl' := take_len (frac := frac) hnext'
          refine ⟨_, _, k + 1, f', 0 + 1, min sr f'.index.length,
            fgCreate_load files sr frac g _ _ _ _ _ hev0 hl (map_strided_cons _ hq') (map_strided_cons _ hq'), ?_, ?_, ?_⟩
          · exact ⟨by simp [h.fidx], hnext', rfl, by simp, rfl, by omega⟩
          · refine ⟨⟨_, zeros', ?_, hz0.2, by omega, fun _ => rfl, by simp at hzl; omega⟩, rfl⟩
            show g.counts.set (g.fileIdx + 1) _ = _
            rw [hcounts', h.fidx, set_shape' _ _ _ _ (k + 1) hdl']
          · show _ = lsum (g.counts.set (g.fileIdx + 1) _) :: _
            rw [hcounts', h.fidx, set_shape' _ _ _ _ (k + 1) hdl', lsum_shape _ _ _ hz0.2]
            unfold cntRest
            rw [hpq', hq, strided_nil (Nat.le_refl _) (by decide), List.drop_eq_getElem_cons hlt, hget]
            simp only [List.map_nil, List.nil_append, cntSpec]
            rw [← baseOf_succ frac files k f h.file]
            unfold pcnts
            rw [← strided_one, map_strided_cons _ hf'.2, List.map_cons, List.map_map]
            rfl

theorem fgAll_cnt {files : List File} {sr : Nat} (frac : Frac) (hfiles : ∀ f ∈ files, GoodF f) (hsr : 1 ≤ sr) :
    ∀ (fuel : Nat) (g : FG) (k : Nat) (f : File) (p q : Nat), FGI files g k f p q → CI frac files g k f p q →
      (cntRest frac files k f p).length < fuel →
      (fgAll files sr frac fuel g).1.map Prod.snd = cntRest frac files k f p := by
  intro fuel
  induction fuel with
  | zero => intro g k f p q _ _ h; omega
  | succ fuel ih =>
    intro g k f p q hI hC hfuel
    unfold fgAll
    rcases fgCreate_cnt frac hfiles hsr hI hC with ⟨hc, hr⟩ | ⟨ev, g', k', f', p', q', hc, hI', hC', hr⟩
    · rw [hc, hr]; rfl
    · rw [hc]
      simp only []
      rw [hr] at hfuel ⊢
      simp only [List.length_cons] at hfuel
      have h1 := ih g' k' f' p' q' hI' hC' (by omega)
      simp only [List.map_cons, h1]
      rfl

theorem cntSpec_length (frac : Frac) : ∀ (files : List File) (base : Nat),
    (cntSpec frac base files).length = ((files.map pevs).flatten).length := by
  intro files
  induction files with
  | nil => intro _; rfl
  | cons f r ih => intro base; simp [cntSpec, pcnts, pevs, ih]

/-- `count` after every `create_event()` -/
theorem filegen_count {files : List File} {sr : Nat} (frac : Frac) (hfiles : ∀ f ∈ files, GoodF f)
    (hne : files ≠ []) (hsr : 1 ≤ sr) :
    ∃ g, fgInit files sr frac = .ok g ∧
      ∀ fuel, ((files.map pevs).flatten).length < fuel →
        (fgAll files sr frac fuel g).1.map Prod.snd = cntSpec frac 0 files := by
  cases files with
  | nil => exact absurd rfl hne
  | cons f0 rest =>
    have hf0 : GoodF f0 := hfiles f0 (by simp)
    have hl := fgLoad_next (f0 :: rest) sr frac
      ⟨0, 0, [], [], List.replicate ((f0 :: rest).length + 1) 0⟩ f0 hsr hf0 (Or.inl rfl) rfl
    refine ⟨_, hl, fun fuel hfuel => ?_⟩
    have hI : FGI (f0 :: rest) ⟨0 + 1, sr,
        (strided 0 (min sr f0.index.length) 1).map (fun i => getEvent f0 i .particles),
        (strided 0 (min sr f0.index.length) 1).map (fun i => frac i f0.index.length (f0.thrown.getD 0)),
        List.replicate ((f0 :: rest).length + 1) 0⟩ 0 f0 0 (min sr f0.index.length) :=
      ⟨rfl, rfl, rfl, by simp, rfl, Nat.zero_le _⟩
    have hC : CI frac (f0 :: rest) ⟨0 + 1, sr,
        (strided 0 (min sr f0.index.length) 1).map (fun i => getEvent f0 i .particles),
        (strided 0 (min sr f0.index.length) 1).map (fun i => frac i f0.index.length (f0.thrown.getD 0)),
        List.replicate ((f0 :: rest).length + 1) 0⟩ 0 f0 0 (min sr f0.index.length) := by
      refine ⟨⟨0, List.replicate rest.length 0, ?_, lsum_replicate_zero _, fun _ => rfl, fun h => by omega, by simp⟩, rfl⟩
      simp [List.replicate_succ]
    have hrest : cntRest frac (f0 :: rest) 0 f0 0 = cntSpec frac 0 (f0 :: rest) := by
      have hb : baseOf frac (f0 :: rest) 0 = 0 := rfl
      unfold cntRest
      rw [hb, strided_one]
      simp only [cntSpec, pcnts, List.map_map, List.drop_succ_cons, List.drop_zero]
      rfl
    have := fgAll_cnt frac hfiles hsr fuel _ 0 f0 0 _ hI hC
      (by rw [hrest, cntSpec_length]; exact hfuel)
    rw [hrest] at this
    exact this

end H5
