import PyrexVerif.Proofs.H5Add
/-! Invariants of the writer under every add / reject / reopen history. -/
namespace H5

theorem resize_length (l : List Row) (c : Nat) : (resize l c).length = c := by
  unfold resize; simp; omega

theorem resize_of_le {l : List Row} {c : Nat} (h : l.length ≤ c) :
    resize l c = l ++ List.replicate (c - l.length) Row.gap := by
  unfold resize; rw [List.take_of_length_le h]

theorem slice_append {l ext : List Row} {s n : Nat} (h : s + n ≤ l.length) :
    ((l ++ ext).drop s).take n = (l.drop s).take n := by
  rw [List.drop_append_of_le_length (by omega), List.take_append_of_le_length (by simp; omega)]

theorem slice_new (l d rest : List Row) : ((l ++ d ++ rest).drop l.length).take d.length = d := by
  rw [List.append_assoc, List.drop_left', List.take_left']
  all_goals rfl

theorem cell_take (f : File) (g i : Nat) (t : Tbl) (idx : List IxRow) (h : idx = f.index.take g) :
    (idx.getD i IxRow.default) t = if i < g then cell f i t else (0, 0) := by
  subst h
  unfold cell
  rw [List.getD_eq_getElem?_getD, List.getD_eq_getElem?_getD, List.getElem?_take]
  split <;> rfl

/-- `Mat f`: the row of the event being written exists in `/event_indices` -/
def Mat (f : File) : Prop := f.nEvents < f.index.length

theorem Frame.mat {f f' : File} (h : Frame f f') (hm : Mat f) : Mat f' := by
  unfold Mat at *; rw [h.nEvents]; exact Nat.lt_of_lt_of_le hm h.len_le

theorem writeTbl_mat (f : File) (t : Tbl) (n th s : Nat) (hs : 3 ≤ s) : Mat (writeTbl f t n th s) := by
  have hiw : Mat (iwFile f t n) := by
    unfold Mat iwFile
    have e : (igFile f t n).exists_ t = true := by simp [igFile, growTbl]
    rw [writeIdx_length e, (writeIdx_fields _ _ _ _).2.2.2.1]
    show f.nEvents < _
    omega
  rw [writeTbl_eq]
  split; · omega
  split; · omega
  split; · omega
  split; · exact hiw
  split
  · exact hiw
  · exact hiw

theorem foldStep_mat (o : Opts) (e : Ev) : ∀ (L : List Tbl), L.Nodup → ∀ (f : File) (b : Nat),
    (∃ t, t ∈ L ∧ records o e t = true) → 4 * L.length ≤ b → Mat (L.foldl (step o e) (f, b)).1 := by
  intro L
  induction L with
  | nil => intro _ f b h; obtain ⟨t, ht, _⟩ := h; simp at ht
  | cons t0 L ih =>
    intro hnd f b hex hb
    have hnd' := List.nodup_cons.mp hnd
    simp only [List.foldl_cons]
    have := Tbl.nOps_le t0; have := Tbl.nOps_ge t0
    simp only [List.length_cons] at hb
    by_cases hr : records o e t0 = true
    · have hstep : step o e (f, b) t0 = (writeTbl f t0 (e.len t0) e.thrown (stageOf o t0 b), b - t0.nOps) := by
        simp [step, hr]
      rw [hstep]
      have hs := (stageOf_ok o e t0 b hr).2.2 (by omega)
      rw [hr] at hs; simp only [if_true] at hs
      have hm := writeTbl_mat f t0 (e.len t0) e.thrown (stageOf o t0 b) (by omega)
      exact (foldStep o e L hnd'.2 _ _).1.mat hm
    · have hr' : records o e t0 = false := by simpa using hr
      have hstep : step o e (f, b) t0 = (f, b) := by simp [step, hr']
      rw [hstep]
      obtain ⟨t, ht, hrt⟩ := hex
      have : t ∈ L := by
        rcases List.mem_cons.mp ht with h | h
        · subst h; rw [hrt] at hr'; cases hr'
        · exact h
      exact ih hnd'.2 f b ⟨t, this, hrt⟩ (by omega)

theorem body_mat (o : Opts) (e : Ev) (f : File) (t : Tbl) (h : records o e t = true) :
    Mat (body o e f fullBudget) :=
  foldStep_mat o e Tbl.all Tbl.all_nodup (preset f) fullBudget ⟨t, Tbl.mem_all t, h⟩ (by decide)

theorem records_particles {o : Opts} (h : AlwaysParticles o) (e : Ev) : records o e .particles = true := by
  simp [records, gate, h.1, h.2]

/-! ### The invariant -/

structure Inv (o : Opts) (f : File) : Prop where
  lenc : ∀ t, (f.rows t).length ≤ f.counter t
  lenc_eq : ∀ t, (t = .triggers ∧ o.write .triggers = true ∧ o.trigOnly .triggers = false) ∨
                 f.counter t = (f.rows t).length
  inb : ∀ i t, (cell f i t).1 + (cell f i t).2 ≤ (f.rows t).length
  ixlen : f.index.length = f.nEvents
  mono : ∀ i j t, i < j → j < f.index.length → (cell f i t).1 + (cell f i t).2 ≤ (cell f j t).1
  noex : ∀ t, f.exists_ t = false → f.rows t = [] ∧ ∀ i, cell f i t = (0, 0)

theorem Inv.empty (o : Opts) : Inv o File.empty :=
  ⟨fun _ => Nat.le_refl _, fun _ => Or.inr rfl, fun i t => by simp [cell, File.empty, IxRow.default],
   rfl, fun i j t _ h => by simp [File.empty] at h, fun t _ => ⟨rfl, fun i => by simp [cell, File.empty, IxRow.default]⟩⟩

/-- everything the closed form says about one table after the body of an `add` -/
structure TblFacts (o : Opts) (e : Ev) (f0 f2 : File) (t : Tbl) (s : Nat) : Prop where
  counter : f2.counter t = if s = 0 then f0.counter t else f0.counter t + e.len t
  rows : f2.rows t = if s ≤ 1 then f0.rows t
                     else resize (f0.rows t) (f0.counter t) ++ (List.range (e.len t)).map (Row.data f0.calls)
  ex : f2.exists_ t = if s ≤ 1 then f0.exists_ t else true
  cellg : cell f2 f0.nEvents t = if 3 ≤ s then (f0.counter t, e.len t)
                                 else if f0.exists_ t then (f0.counter t, 0) else cell f0 f0.nEvents t

theorem P_counter (v : View) : (P v).counter = v.counter := by unfold P; split <;> rfl
theorem P_rows (v : View) : (P v).rows = v.rows := by unfold P; split <;> rfl
theorem P_ex (v : View) : (P v).ex = v.ex := by unfold P; split <;> rfl
theorem P_cell (v : View) : (P v).cell = if v.ex then (v.counter, 0) else v.cell := by
  unfold P; split <;> rfl

theorem W_counter (c : Nat) (v : View) (n s : Nat) :
    (W c v n s).counter = if s = 0 then v.counter else v.counter + n := by
  unfold W
  by_cases h0 : s = 0
  · simp [h0]
  by_cases h1 : s = 1
  · simp [h1]
  by_cases h2 : s = 2 <;> simp [h0, h1, h2]

theorem W_rows (c : Nat) (v : View) (n s : Nat) :
    (W c v n s).rows = if s ≤ 1 then v.rows else resize v.rows v.counter ++ (List.range n).map (Row.data c) := by
  unfold W
  by_cases h0 : s = 0
  · simp [h0]
  by_cases h1 : s = 1
  · simp [h1]
  have h3 : ¬ s ≤ 1 := by omega
  by_cases h2 : s = 2 <;> simp [h0, h1, h2, h3]

theorem W_ex (c : Nat) (v : View) (n s : Nat) : (W c v n s).ex = if s ≤ 1 then v.ex else true := by
  unfold W
  by_cases h0 : s = 0
  · simp [h0]
  by_cases h1 : s = 1
  · simp [h1]
  have h3 : ¬ s ≤ 1 := by omega
  by_cases h2 : s = 2 <;> simp [h0, h1, h2, h3]

theorem W_cell (c : Nat) (v : View) (n s : Nat) :
    (W c v n s).cell = if 3 ≤ s then (v.counter, n) else v.cell := by
  unfold W
  by_cases h0 : s = 0
  · simp [h0]
  by_cases h1 : s = 1
  · simp [h1]
  by_cases h2 : s = 2
  · simp [h2]
  have h3 : 3 ≤ s := by omega
  simp [h0, h1, h2, h3]

theorem tblFacts_of_view {o : Opts} {e : Ev} {f0 f2 : File} {t : Tbl} {s : Nat}
    (hn : f2.nEvents = f0.nEvents)
    (hv : view f2 t = W f0.calls (P (view f0 t)) (e.len t) s) : TblFacts o e f0 f2 t s := by
  have h1 := congrArg View.counter hv
  have h2 := congrArg View.rows hv
  have h3 := congrArg View.ex hv
  have h4 := congrArg View.cell hv
  rw [W_counter, P_counter] at h1
  rw [W_rows, P_rows, P_counter] at h2
  rw [W_ex, P_ex] at h3
  rw [W_cell, P_cell, P_counter] at h4
  refine ⟨h1, h2, h3, ?_⟩
  have : cell f2 f0.nEvents t = (view f2 t).cell := by simp [view, hn]
  rw [this, h4]; rfl

/-- facts about the whole file after the body of `_add_event_data` ran with budget `b` -/
theorem body_facts (o : Opts) (e : Ev) (f : File) (b : Nat) :
    Frame f (body o e f b) ∧
    ∀ t, ∃ s, TblFacts o e f (body o e f b) t s ∧
        (s = 1 → t = .triggers ∧ o.trigOnly .triggers = false) ∧
        (records o e t = false → s = 0) ∧
        (24 ≤ b → s = if records o e t then t.nOps else 0) := by
  obtain ⟨hf, ht⟩ := body_spec o e f b
  refine ⟨hf, fun t => ?_⟩
  obtain ⟨s, hv, h1, h2, h3⟩ := ht t
  exact ⟨s, tblFacts_of_view hf.nEvents hv, h1, h2, h3⟩

theorem records_triggers_write {o : Opts} {e : Ev} (h : records o e .triggers = true) : o.write .triggers = true := by
  simp [records, gate] at h; exact h.1

/-- rows only grow, and what was there stays -/
theorem TblFacts.rows_ext {o : Opts} {e : Ev} {f0 f2 : File} {t : Tbl} {s : Nat}
    (h : TblFacts o e f0 f2 t s) (hl : (f0.rows t).length ≤ f0.counter t) :
    ∃ ext, f2.rows t = f0.rows t ++ ext := by
  rw [h.rows]
  split
  · exact ⟨[], by simp⟩
  · rw [resize_of_le hl, List.append_assoc]; exact ⟨_, rfl⟩

theorem TblFacts.len {o : Opts} {e : Ev} {f0 f2 : File} {t : Tbl} {s : Nat}
    (h : TblFacts o e f0 f2 t s) :
    (f2.rows t).length = if s ≤ 1 then (f0.rows t).length else f0.counter t + e.len t := by
  rw [h.rows]; split
  · rfl
  · simp [resize_length]

/-- the part of the invariant that does not involve the new row -/
theorem body_tables {o : Opts} {e : Ev} {f : File} {b : Nat}
    (hlenc : ∀ t, (f.rows t).length ≤ f.counter t)
    (hlenc_eq : ∀ t, (t = .triggers ∧ o.write .triggers = true ∧ o.trigOnly .triggers = false) ∨
                     f.counter t = (f.rows t).length) :
    (∀ t, ((body o e f b).rows t).length ≤ (body o e f b).counter t) ∧
    (∀ t, (t = .triggers ∧ o.write .triggers = true ∧ o.trigOnly .triggers = false) ∨
          (body o e f b).counter t = ((body o e f b).rows t).length) ∧
    (∀ t, (f.rows t).length ≤ ((body o e f b).rows t).length) ∧
    (∀ t, ∃ ext, (body o e f b).rows t = f.rows t ++ ext) ∧
    (∀ t, (body o e f b).exists_ t = false → f.exists_ t = false ∧ (body o e f b).rows t = f.rows t) := by
  obtain ⟨_, ht⟩ := body_facts o e f b
  refine ⟨fun t => ?_, fun t => ?_, fun t => ?_, fun t => ?_, fun t => ?_⟩
  all_goals obtain ⟨s, tf, h1, h2, _⟩ := ht t
  all_goals have hl := hlenc t
  · rw [tf.len, tf.counter]; split <;> split <;> omega
  · by_cases hs1 : s = 1
    · left
      obtain ⟨e1, e2⟩ := h1 hs1
      subst e1
      refine ⟨rfl, ?_, e2⟩
      apply records_triggers_write (e := e)
      by_cases hr : records o e .triggers = true
      · exact hr
      · have := h2 (by simpa using hr); omega
    · rcases hlenc_eq t with h | h
      · exact Or.inl h
      · right; rw [tf.len, tf.counter]; split <;> split <;> omega
  · rw [tf.len]; split <;> omega
  · exact tf.rows_ext hl
  · intro hx
    rw [tf.ex] at hx
    split at hx
    · refine ⟨hx, ?_⟩
      rw [tf.rows]; simp [*]
    · cases hx

end H5
