import PyrexVerif.Proofs.H5Top
/-! The bookkeeping invariant for EVERY option set (no `AlwaysParticles`): the index table may then be
shorter than the event counter (events for which nothing at all was written), but every cell still
addresses rows inside its dataset and the columns stay ordered. -/
namespace H5

structure InvG (o : Opts) (f : File) : Prop where
  lenc : ∀ t, (f.rows t).length ≤ f.counter t
  lenc_eq : ∀ t, (t = .triggers ∧ o.write .triggers = true ∧ o.trigOnly .triggers = false) ∨
                 f.counter t = (f.rows t).length
  inb : ∀ i t, (cell f i t).1 + (cell f i t).2 ≤ (f.rows t).length
  ixle : f.index.length ≤ f.nEvents
  ixz : f.index.length = f.nEvents ∨ f.index.length = 0
  ixe : 0 < f.index.length → ∃ t, f.exists_ t = true
  mono : ∀ i j t, i < j → j < f.index.length → (cell f i t).1 + (cell f i t).2 ≤ (cell f j t).1
  noex : ∀ t, f.exists_ t = false → f.rows t = [] ∧ ∀ i, cell f i t = (0, 0)

theorem InvG.empty (o : Opts) : InvG o File.empty :=
  ⟨fun _ => Nat.le_refl _, fun _ => Or.inr rfl, fun i t => by simp [cell, File.empty, IxRow.default],
   Nat.le_refl _, Or.inl rfl, fun h => by simp [File.empty] at h,
   fun i j t _ h => by simp [File.empty] at h, fun t _ => ⟨rfl, fun i => by simp [cell, File.empty, IxRow.default]⟩⟩

theorem presetFold_frame : ∀ (L : List Tbl) (f : File),
    Frame f (L.foldl (fun f t => writeIdx f f.nEvents t (f.counter t, 0)) f) := by
  intro L
  induction L with
  | nil => intro f; exact Frame.refl f
  | cons t0 L ih => intro f; exact Frame.trans (writeIdx_frame f t0 _) (ih _)

theorem preset_mat_aux : ∀ (L : List Tbl) (f : File), (∃ t, t ∈ L ∧ f.exists_ t = true) →
    Mat (L.foldl (fun f t => writeIdx f f.nEvents t (f.counter t, 0)) f) := by
  intro L
  induction L with
  | nil => intro f h; obtain ⟨t, ht, _⟩ := h; simp at ht
  | cons t0 L ih =>
    intro f hex
    simp only [List.foldl_cons]
    by_cases hx : f.exists_ t0 = true
    · have hm : Mat (writeIdx f f.nEvents t0 (f.counter t0, 0)) := by
        unfold Mat
        rw [writeIdx_length hx, (writeIdx_fields _ _ _ _).2.2.2.1]; omega
      exact (presetFold_frame L _).mat hm
    · have hx' : f.exists_ t0 = false := by simpa using hx
      rw [writeIdx_of_not_exists hx']
      obtain ⟨t, ht, hxt⟩ := hex
      have : t ∈ L := by
        rcases List.mem_cons.mp ht with h | h
        · subst h; rw [hxt] at hx'; cases hx'
        · exact h
      exact ih f ⟨t, this, hxt⟩

/-- as soon as any dataset exists, the preset materialises the row of the event being written -/
theorem body_mat_of_exists (o : Opts) (e : Ev) (f : File) (b : Nat) (h : ∃ t, f.exists_ t = true) :
    Mat (body o e f b) := by
  obtain ⟨t, ht⟩ := h
  have hp : Mat (preset f) := preset_mat_aux Tbl.presetOrder f ⟨t, Tbl.mem_presetOrder t, ht⟩
  exact (foldStep o e Tbl.all Tbl.all_nodup (preset f) b).1.mat hp

/-- the cells of the row an accepted add writes, for any option set -/
theorem add_ok_cells_gen {o : Opts} {f : File} {e : Ev}
    (hlenc_eq : ∀ t, (t = .triggers ∧ o.write .triggers = true ∧ o.trigOnly .triggers = false) ∨
                     f.counter t = (f.rows t).length)
    (hle : f.index.length ≤ f.nEvents) :
    ∀ t, (records o e t = true ∧ cell (body o e f fullBudget) f.nEvents t = (f.counter t, e.len t) ∧
            (body o e f fullBudget).rows t = resize (f.rows t) (f.counter t) ++ (List.range (e.len t)).map (Row.data f.calls)) ∨
         (records o e t = false ∧ (body o e f fullBudget).rows t = f.rows t ∧
            ((f.exists_ t = true ∧ cell (body o e f fullBudget) f.nEvents t = (f.counter t, 0) ∧ f.counter t = (f.rows t).length) ∨
             (f.exists_ t = false ∧ cell (body o e f fullBudget) f.nEvents t = (0, 0)))) := by
  obtain ⟨hf, ht⟩ := body_facts o e f fullBudget
  intro t
  obtain ⟨s, tf, _, _, h3⟩ := ht t
  have hs := h3 (by decide)
  have := Tbl.nOps_ge t
  by_cases hr : records o e t = true
  · left
    rw [hr] at hs; simp only [if_true] at hs
    refine ⟨hr, ?_, ?_⟩
    · rw [tf.cellg]; simp [show 3 ≤ s by omega]
    · rw [tf.rows]; simp [show ¬ s ≤ 1 by omega]
  · right
    have hr' : records o e t = false := by simpa using hr
    rw [hr'] at hs; simp at hs
    subst hs
    refine ⟨hr', by rw [tf.rows]; simp, ?_⟩
    by_cases hx : f.exists_ t = true
    · left
      refine ⟨hx, by rw [tf.cellg]; simp [hx], ?_⟩
      rcases hlenc_eq t with ⟨q1, q2, q3⟩ | h
      · subst q1
        rw [records_triggers_of_ungated e q2 q3] at hr'; cases hr'
      · exact h
    · right
      have hx' : f.exists_ t = false := by simpa using hx
      refine ⟨hx', ?_⟩
      rw [tf.cellg]; simp [hx']
      exact cell_of_length_le hle t

/-- rows beyond the current table are zero; with `ixz` a row index between the table length and the
event counter can only occur while the table is still empty -/
theorem InvG.mono_ext {o : Opts} {f : File} (hi : InvG o f) (i j : Nat) (t : Tbl) (hij : i < j)
    (hj : j < f.nEvents) : (cell f i t).1 + (cell f i t).2 ≤ (cell f j t).1 := by
  by_cases hjl : j < f.index.length
  · exact hi.mono i j t hij hjl
  · have h0 : f.index.length = 0 := by
      rcases hi.ixz with h | h
      · omega
      · exact h
    rw [cell_of_length_le (by omega) t]; simp

theorem invG_add_ok {o : Opts} {f : File} {e : Ev} (hi : InvG o f) : InvG o (add o f e none) := by
  rw [add_none]
  have hnew := add_ok_cells_gen (e := e) hi.lenc_eq hi.ixle
  obtain ⟨b1, b2, b3, b4, b5⟩ := body_tables (e := e) (b := fullBudget) hi.lenc hi.lenc_eq
  obtain ⟨hf, _⟩ := body_facts o e f fullBudget
  have hcells := hf.cells
  have hcell : ∀ i t, cell (finishOk (body o e f fullBudget)) i t = cell (body o e f fullBudget) i t :=
    fun _ _ => rfl
  have hlen : (finishOk (body o e f fullBudget)).index.length = (body o e f fullBudget).index.length := rfl
  have hne : (finishOk (body o e f fullBudget)).nEvents = f.nEvents + 1 := by
    show (body o e f fullBudget).nEvents + 1 = _; rw [hf.nEvents]
  have hex : (finishOk (body o e f fullBudget)).exists_ = (body o e f fullBudget).exists_ := rfl
  have hub := hf.len_ub
  have hixle := hi.ixle
  have hinb : ∀ i t, (cell (body o e f fullBudget) i t).1 + (cell (body o e f fullBudget) i t).2
      ≤ ((body o e f fullBudget).rows t).length := by
    intro i t
    by_cases hig : i = f.nEvents
    · subst hig
      rcases hnew t with ⟨_, hc, hr⟩ | ⟨_, hr, ⟨_, hc, he⟩ | ⟨_, hc⟩⟩
      · rw [hc, hr]; simp [resize_length]
      · rw [hc, hr]; simp; omega
      · rw [hc]; simp
    · rw [hcells i hig t]
      exact Nat.le_trans (hi.inb i t) (b3 t)
  refine ⟨b1, b2, fun i t => by rw [hcell]; exact hinb i t, by rw [hlen, hne]; omega, ?_, ?_, ?_, ?_⟩
  · rw [hlen, hne]
    by_cases hx : ∃ t, f.exists_ t = true
    · left
      have hm := body_mat_of_exists o e f fullBudget hx
      unfold Mat at hm; rw [hf.nEvents] at hm; omega
    · have h0 : f.index.length = 0 := by
        by_cases h : 0 < f.index.length
        · exact absurd (hi.ixe h) hx
        · omega
      rcases hf.len_cases with h | h
      · right; omega
      · left; omega
  · intro hpos
    rw [hlen] at hpos
    rw [hex]
    by_cases h0 : 0 < f.index.length
    · obtain ⟨t, ht⟩ := hi.ixe h0
      exact ⟨t, hf.ex_mono t ht⟩
    · exact hf.len_ex (by omega)
  · intro i j t hij hj
    rw [hcell, hcell]
    rw [hlen] at hj
    by_cases hjg : j = f.nEvents
    · subst hjg
      rw [hcells i (by omega) t]
      have h1 := hi.inb i t
      have h2 := hi.lenc t
      rcases hnew t with ⟨_, hc, _⟩ | ⟨_, _, ⟨_, hc, _⟩ | ⟨hx, hc⟩⟩
      · rw [hc]; simp; omega
      · rw [hc]; simp; omega
      · rw [hc, (hi.noex t hx).2 i]; simp
    · rw [hcells i (by omega) t, hcells j hjg t]
      exact hi.mono_ext i j t hij (by omega)
  · intro t hx
    have hx2 : (body o e f fullBudget).exists_ t = false := hx
    obtain ⟨hx0, hr⟩ := b5 t hx2
    have hrows : (finishOk (body o e f fullBudget)).rows t = (body o e f fullBudget).rows t := rfl
    refine ⟨by rw [hrows, hr]; exact (hi.noex t hx0).1, fun i => ?_⟩
    rw [hcell]
    by_cases hig : i = f.nEvents
    · subst hig
      rcases hnew t with ⟨_, hc, hr2⟩ | ⟨_, _, ⟨hx1, _, _⟩ | ⟨_, hc⟩⟩
      · have hl := congrArg List.length hr2
        rw [hr, (hi.noex t hx0).1] at hl
        simp [resize_length] at hl
        have h0 : f.counter t = 0 ∧ e.len t = 0 := by omega
        rw [hc, h0.1, h0.2]
      · rw [hx0] at hx1; cases hx1
      · exact hc
    · rw [hcells i hig t]; exact (hi.noex t hx0).2 i

theorem invG_add_rej {o : Opts} {f : File} {e : Ev} {k : Nat} (hi : InvG o f) :
    InvG o (add o f e (some (k+1))) := by
  rw [add_succ]
  obtain ⟨b1, b2, b3, b4, b5⟩ := body_tables (e := e) (b := k) hi.lenc hi.lenc_eq
  obtain ⟨hf, _⟩ := body_facts o e f k
  have hixle := hi.ixle
  have hlen : (finishRej (body o e f k)).index.length = min f.nEvents (body o e f k).index.length := by
    show ((body o e f k).index.take (body o e f k).nEvents).length = _
    rw [List.length_take, hf.nEvents]
  have hcells : ∀ i t, cell (finishRej (body o e f k)) i t = cell f i t := by
    intro i t
    rw [cell_finishRej, hf.nEvents]
    split
    · exact hf.cells i (by omega) t
    · exact (cell_of_length_le (by omega) t).symm
  have hne : (finishRej (body o e f k)).nEvents = f.nEvents := hf.nEvents
  have hle := hf.len_le
  refine ⟨b1, b2, fun i t => by rw [hcells]; exact Nat.le_trans (hi.inb i t) (b3 t),
    by rw [hlen, hne]; omega, ?_, ?_, ?_, ?_⟩
  · rw [hlen, hne]
    rcases hf.len_cases with h | h
    · rcases hi.ixz with h' | h'
      · left; omega
      · right; omega
    · left; omega
  · intro hpos
    rw [hlen] at hpos
    show ∃ t, (body o e f k).exists_ t = true
    by_cases h0 : 0 < f.index.length
    · obtain ⟨t, ht⟩ := hi.ixe h0
      exact ⟨t, hf.ex_mono t ht⟩
    · exact hf.len_ex (by omega)
  · intro i j t hij hj
    rw [hcells, hcells]
    rw [hlen] at hj
    exact hi.mono_ext i j t hij (by omega)
  · intro t hx
    have hx2 : (body o e f k).exists_ t = false := hx
    obtain ⟨hx0, hr⟩ := b5 t hx2
    have hrows : (finishRej (body o e f k)).rows t = (body o e f k).rows t := rfl
    refine ⟨by rw [hrows, hr]; exact (hi.noex t hx0).1, fun i => ?_⟩
    rw [hcells]; exact (hi.noex t hx0).2 i

theorem invG_reopen {o : Opts} {f : File} (hi : InvG o f) : InvG o (reopen f) := by
  have hcell : ∀ i t, cell (reopen f) i t = cell f i t := fun _ _ => rfl
  refine ⟨?_, ?_, fun i t => by rw [hcell]; exact hi.inb i t, Nat.le_refl _, Or.inl rfl, hi.ixe, ?_, ?_⟩
  · intro t
    show (f.rows t).length ≤ if f.exists_ t then (f.rows t).length else 0
    by_cases hx : f.exists_ t = true
    · simp [hx]
    · have hx' : f.exists_ t = false := by simpa using hx
      simp [hx', (hi.noex t hx').1]
  · intro t
    right
    show (if f.exists_ t then (f.rows t).length else 0) = (f.rows t).length
    by_cases hx : f.exists_ t = true
    · simp [hx]
    · have hx' : f.exists_ t = false := by simpa using hx
      simp [hx', (hi.noex t hx').1]
  · intro i j t hij hj; rw [hcell, hcell]; exact hi.mono i j t hij hj
  · intro t hx; exact ⟨(hi.noex t hx).1, fun i => by rw [hcell]; exact (hi.noex t hx).2 i⟩

theorem invG_applyOp {o : Opts} {f : File} (hi : InvG o f) (op : Op) : InvG o (applyOp o f op) := by
  cases op with
  | ok e => exact invG_add_ok hi
  | rejected e k =>
    cases k with
    | zero =>
      show InvG o (add o f e (some 0))
      rw [add_zero]
      exact ⟨hi.lenc, hi.lenc_eq, hi.inb, hi.ixle, hi.ixz, hi.ixe, hi.mono, hi.noex⟩
    | succ k => exact invG_add_rej hi
  | reopen => exact invG_reopen hi

theorem invG_run (o : Opts) (ops : List Op) : InvG o (run o ops) := by
  unfold run
  have : ∀ (ops : List Op) f, InvG o f → InvG o (ops.foldl (applyOp o) f) := by
    intro ops
    induction ops with
    | nil => intro f h; exact h
    | cons op r ih => intro f h; exact ih _ (invG_applyOp h op)
  exact this ops _ (InvG.empty o)

/-- the event counter of the writer: for a history without reopen it counts the accepted adds,
whatever the options record -/
theorem nEvents_foldl (o : Opts) (ops : List Op) (hno : ∀ op ∈ ops, isReopen op = false) :
    ∀ f, (ops.foldl (applyOp o) f).nEvents = f.nEvents + (acceptedFrom f.calls ops).length := by
  induction ops with
  | nil => intro f; simp [acceptedFrom]
  | cons op r ih =>
    intro f
    have hr := ih (fun op' h => hno op' (List.mem_cons_of_mem _ h)) (applyOp o f op)
    simp only [List.foldl_cons]
    rw [hr, calls_applyOp]
    cases op with
    | ok e =>
      have : (applyOp o f (.ok e)).nEvents = f.nEvents + 1 := by
        show (add o f e none).nEvents = _
        rw [add_none]; show (body o e f fullBudget).nEvents + 1 = _
        rw [(body_facts o e f fullBudget).1.nEvents]
      rw [this]; simp only [acceptedFrom, List.length_cons]; omega
    | rejected e k =>
      have : (applyOp o f (.rejected e k)).nEvents = f.nEvents := by
        cases k with
        | zero => rfl
        | succ k =>
          show (add o f e (some (k+1))).nEvents = _
          rw [add_succ]; exact (body_facts o e f k).1.nEvents
      rw [this]; simp only [acceptedFrom]
    | reopen => have := hno .reopen (by simp); simp [isReopen] at this

/-! ### Round trip for EVERY option set (histories without reopen): events are numbered by the writer's
event counter; an event for which no index row exists recorded nothing in any table -/

/-- the file reads back as the list `L`, events numbered by `nEvents` -/
def RTG (o : Opts) (f : File) (L : List (Nat × Ev)) : Prop :=
  f.nEvents = L.length ∧ ∀ i c e, L[i]? = some (c, e) → ∀ t, getEvent f i t = expected o c e t

theorem rtg_add_ok {o : Opts} {f : File} {e : Ev} {L : List (Nat × Ev)}
    (hi : InvG o f) (h : RTG o f L) : RTG o (add o f e none) (L ++ [(f.calls, e)]) := by
  have hnew := add_ok_cells_gen (e := e) hi.lenc_eq hi.ixle
  obtain ⟨_, _, _, b4, _⟩ := body_tables (e := e) (b := fullBudget) hi.lenc hi.lenc_eq
  obtain ⟨hf, _⟩ := body_facts o e f fullBudget
  rw [add_none]
  have hget : ∀ i t, getEvent (finishOk (body o e f fullBudget)) i t = getEvent (body o e f fullBudget) i t :=
    fun _ _ => rfl
  have hL : L.length = f.nEvents := h.1.symm
  refine ⟨?_, fun i c e' hi' t => ?_⟩
  · show (body o e f fullBudget).nEvents + 1 = _
    rw [hf.nEvents]; simp [hL]
  · rw [hget]
    by_cases hlt : i < L.length
    · rw [List.getElem?_append_left hlt] at hi'
      rw [← h.2 i c e' hi' t]
      exact getEvent_congr (hf.cells i (by omega) t) (b4 t) (hi.inb i t)
    · have hge : L.length ≤ i := Nat.le_of_not_lt hlt
      rw [List.getElem?_append_right hge] at hi'
      have hi0 : i - L.length = 0 := by
        by_cases h0 : i - L.length = 0
        · exact h0
        · rw [List.getElem?_eq_none (by simp; omega)] at hi'; cases hi'
      rw [hi0] at hi'
      simp at hi'
      obtain ⟨hc, he⟩ := hi'
      subst hc; subst he
      have hig : i = f.nEvents := by omega
      subst hig
      rw [getEvent_eq]
      unfold expected
      rcases hnew t with ⟨hr, hc, hrows⟩ | ⟨hr, _, ⟨_, hc, _⟩ | ⟨_, hc⟩⟩
      · rw [hc, hrows, hr]
        simp only [if_true]
        have := slice_new (resize (f.rows t) (f.counter t)) ((List.range (e.len t)).map (Row.data f.calls)) []
        simp only [List.append_nil, resize_length, List.length_map, List.length_range] at this
        exact this
      · rw [hc, hr]; simp
      · rw [hc, hr]; simp

theorem rtg_add_rej {o : Opts} {f : File} {e : Ev} {k : Nat} {L : List (Nat × Ev)}
    (hi : InvG o f) (h : RTG o f L) : RTG o (add o f e (some (k+1))) L := by
  rw [add_succ]
  obtain ⟨_, _, _, b4, _⟩ := body_tables (e := e) (b := k) hi.lenc hi.lenc_eq
  obtain ⟨hf, _⟩ := body_facts o e f k
  have hixle := hi.ixle
  have hcells : ∀ i t, cell (finishRej (body o e f k)) i t = cell f i t := by
    intro i t
    rw [cell_finishRej, hf.nEvents]
    split
    · exact hf.cells i (by omega) t
    · exact (cell_of_length_le (by omega) t).symm
  refine ⟨by show (body o e f k).nEvents = _; rw [hf.nEvents]; exact h.1, fun i c e' hi' t => ?_⟩
  rw [← h.2 i c e' hi' t]
  exact getEvent_congr (hcells i t) (b4 t) (hi.inb i t)

theorem rtg_foldl {o : Opts} (ops : List Op) (hno : ∀ op ∈ ops, isReopen op = false) :
    ∀ f L, InvG o f → RTG o f L → RTG o (ops.foldl (applyOp o) f) (L ++ acceptedFrom f.calls ops) := by
  induction ops with
  | nil => intro f L _ h; simpa [acceptedFrom] using h
  | cons op r ih =>
    intro f L hi h
    have hr := ih (fun op' hm => hno op' (List.mem_cons_of_mem _ hm))
    have h1 : RTG o (applyOp o f op) (L ++ acceptedFrom f.calls [op]) := by
      cases op with
      | ok e => exact rtg_add_ok hi h
      | rejected e k =>
        simp only [acceptedFrom, List.append_nil]
        cases k with
        | zero => exact h
        | succ k => exact rtg_add_rej hi h
      | reopen => have := hno .reopen (by simp); simp [isReopen] at this
    have h2 := hr _ _ (invG_applyOp hi op) h1
    rw [calls_applyOp] at h2
    rw [acceptedFrom_cons, ← List.append_assoc]
    exact h2

theorem rtg_run (o : Opts) (ops : List Op) (hno : ∀ op ∈ ops, isReopen op = false) :
    RTG o (run o ops) (accepted ops) := by
  have := rtg_foldl ops hno File.empty [] (InvG.empty o) ⟨rfl, fun i c e h => by simp at h⟩
  simpa [run, accepted, File.empty] using this

end H5
