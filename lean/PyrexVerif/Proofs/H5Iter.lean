import PyrexVerif.Proofs.H5Aux
/-! The chunked iterator yields `getEvent` at `m, m+c, … < stop` for every chunk size. -/
namespace H5

/-- what `_load_data` leaves in `_data` for the chunk `[s, e)` with stride `c` -/
def chunkData (f : File) (s e c : Nat) (t : Tbl) : Option (List (List Row)) :=
  if t ∈ f.cols then some ((strided s e c).map (fun i => getEvent f i t)) else none

def withData (it : It) (d : Tbl → Option (List (List Row))) : It := { it with data := d }

/-- the iterator state after `__next__` decided to load the chunk starting at event `m` -/
def reloaded (it : It) (m : Nat) : It :=
  { it with ctr := 0, s := m, e := (min ((m : Int) + it.sr) it.maxEv).toNat }

theorem loadData_eq {f : File} (it : It) (hc : 0 < it.step) (hse : it.s < it.e)
    (he : it.e ≤ f.index.length) (hn : ∀ t, t ∉ f.cols → it.data t = none) :
    loadData f it = .ok (withData it (chunkData f it.s it.e it.step)) := by
  have hne : strided it.s it.e it.step ≠ [] := by rw [strided_cons hc hse]; simp
  have hgo : ∀ t, (if t ∈ f.cols then (loadTable f t it.s it.e it.step).map some else some (it.data t))
      = some (chunkData f it.s it.e it.step t) := by
    intro t
    unfold chunkData
    by_cases ht : t ∈ f.cols
    · rw [if_pos ht, if_pos ht, loadTable_eq f t _ _ _ hne]; rfl
    · rw [if_neg ht, if_neg ht, hn t ht]
  simp only [loadData, hgo, withData]
  congr 2
  funext t; cases t <;> rfl

theorem next_stop (f : File) (it : It) (m : Nat)
    (hevn : (it.ctr + 1) * (it.step : Int) + (it.s : Int) = (m : Int)) (h : it.stop ≤ m) :
    next f it = .error .stop := by
  simp only [next, hevn]
  rw [if_pos (by omega)]

theorem next_reload (f : File) (it : It) (m : Nat)
    (hevn : (it.ctr + 1) * (it.step : Int) + (it.s : Int) = (m : Int)) (h1 : m < it.stop) (h2 : it.e ≤ m) :
    next f it = loadData f (reloaded it m) := by
  simp only [next, hevn, reloaded]
  rw [if_neg (by omega), if_pos (by omega)]
  simp

theorem next_step (f : File) (it : It) (m : Nat)
    (hevn : (it.ctr + 1) * (it.step : Int) + (it.s : Int) = (m : Int)) (h1 : m < it.stop) (h2 : m < it.e) :
    next f it = .ok { it with ctr := it.ctr + 1 } := by
  simp only [next, hevn]
  rw [if_neg (by omega), if_neg (by omega)]

structure Pre (f : File) (n b c : Nat) (it : It) (m : Nat) : Prop where
  step : it.step = c
  sr : 1 ≤ it.sr
  maxEv : it.maxEv = n
  stop : it.stop = b
  evn : (it.ctr + 1) * (it.step : Int) + (it.s : Int) = (m : Int)
  e_le : it.e ≤ n
  nocol : ∀ t, t ∉ f.cols → it.data t = none
  loaded : m < it.e → ∃ k : Nat, it.ctr + 1 = (k : Int) ∧ ∀ t, it.data t = chunkData f it.s it.e c t

theorem getEvent_nocol {f : File} (hc : ColInv f) {t : Tbl} (ht : t ∉ f.cols) (i : Nat) : getEvent f i t = [] := by
  rw [getEvent_eq, hc t ht i]; simp

theorem collect_eq {f : File} (hcol : ColInv f) {n b c : Nat}
    (hn : n = f.index.length) (hc : 0 < c) (hb : b ≤ n) :
    ∀ (fuel : Nat) (it : It) (m : Nat), Pre f n b c it m → (strided m b c).length < fuel →
      collect f fuel it = ((strided m b c).map (fun i t => getEvent f i t), Err.stop) := by
  intro fuel
  induction fuel with
  | zero => intro it m _ h; omega
  | succ fuel ih =>
    intro it m hp hfuel
    unfold collect
    by_cases hstop : b ≤ m
    · rw [next_stop f it m hp.evn (by rw [hp.stop]; exact hstop), strided_nil hstop hc]; rfl
    · have hmb : m < b := Nat.lt_of_not_le hstop
      have hcons := strided_cons (e := b) hc hmb
      rw [hcons] at hfuel ⊢
      simp only [List.length_cons] at hfuel
      by_cases hre : it.e ≤ m
      · -- reload
        rw [next_reload f it m hp.evn (by rw [hp.stop]; exact hmb) hre]
        have hsr := hp.sr
        have hmax := hp.maxEv
        have he1 : m < (min ((m : Int) + it.sr) it.maxEv).toNat := by omega
        have he2 : (min ((m : Int) + it.sr) it.maxEv).toNat ≤ n := by omega
        rw [loadData_eq (reloaded it m) (by show 0 < it.step; rw [hp.step]; exact hc) he1
          (by rw [← hn]; exact he2) hp.nocol]
        simp only []
        have hpre : Pre f n b c (withData (reloaded it m) (chunkData f m (reloaded it m).e it.step)) (m + c) := by
          refine ⟨hp.step, hp.sr, hp.maxEv, hp.stop, ?_, he2, ?_, ?_⟩
          · show ((0 : Int) + 1) * (it.step : Int) + (m : Int) = ((m + c : Nat) : Int)
            rw [hp.step]; omega
          · intro t ht; show chunkData f _ _ _ t = none; simp [chunkData, ht]
          · intro _; exact ⟨1, rfl, fun t => by show chunkData f _ _ it.step t = _; rw [hp.step]; rfl⟩
        have hsame : withData (reloaded it m) (chunkData f (reloaded it m).s (reloaded it m).e (reloaded it m).step)
            = withData (reloaded it m) (chunkData f m (reloaded it m).e it.step) := rfl
        rw [hsame]
        rw [ih _ (m + c) hpre (by omega)]
        simp only [List.map_cons]
        congr 2
        funext t
        show (match chunkData f m (reloaded it m).e it.step t with
              | none => [] | some d => d.getD (0 : Int).toNat []) = _
        unfold chunkData
        by_cases ht : t ∈ f.cols
        · rw [if_pos ht, strided_cons (by rw [hp.step]; exact hc) (show m < (reloaded it m).e from he1)]; simp
        · rw [if_neg ht, getEvent_nocol hcol ht]
      · -- next event inside the loaded chunk
        have hlt : m < it.e := Nat.lt_of_not_le hre
        rw [next_step f it m hp.evn (by rw [hp.stop]; exact hmb) hlt]
        simp only []
        obtain ⟨k, hk, hdata⟩ := hp.loaded hlt
        have hkm : it.s + k * c = m := by
          have := hp.evn; rw [hk, hp.step] at this
          have h2 : ((k * c : Nat) : Int) = (k : Int) * (c : Int) := by simp
          omega
        have hpre : Pre f n b c { it with ctr := it.ctr + 1 } (m + c) := by
          refine ⟨hp.step, hp.sr, hp.maxEv, hp.stop, ?_, hp.e_le, hp.nocol, ?_⟩
          · show (it.ctr + 1 + 1) * (it.step : Int) + (it.s : Int) = ((m + c : Nat) : Int)
            have := hp.evn
            rw [Int.add_mul (it.ctr + 1) 1, hp.step] at *
            omega
          · intro _; exact ⟨k + 1, by show it.ctr + 1 + 1 = ((k + 1 : Nat) : Int); omega, hdata⟩
        rw [ih _ (m + c) hpre (by omega)]
        simp only [List.map_cons]
        congr 2
        funext t
        show (match it.data t with | none => [] | some d => d.getD (it.ctr + 1).toNat []) = _
        rw [hdata t]
        unfold chunkData
        by_cases ht : t ∈ f.cols
        · rw [if_pos ht]
          have : (it.ctr + 1).toNat = k := by omega
          simp only [this]
          rw [List.getD_eq_getElem?_getD, List.getElem?_map, strided_getElem? hc, hkm, if_pos hlt]; rfl
        · rw [if_neg ht, getEvent_nocol hcol ht]

end H5
