import PyrexVerif.D.H5Mc
/-! Component flags read back under the names they were recorded under, for any order of column creation. -/
namespace H5Mc

theorem writeCol_get (c : Cells) (r k : Nat) (vals : List Bool) (r' k' : Nat) :
    writeCol c r k vals r' k' =
      if k' = k ∧ r ≤ r' ∧ r' < r + vals.length then vals.getD (r' - r) false else c r' k' := by
  induction vals generalizing c r with
  | nil => simp only [writeCol, List.length_nil, Nat.add_zero]; rw [if_neg (fun h => by have := h.2; omega)]
  | cons v vs ih =>
    simp only [writeCol, ih, List.length_cons]
    by_cases hk : k' = k
    · by_cases h1 : r + 1 ≤ r' ∧ r' < r + 1 + vs.length
      · rw [if_pos ⟨hk, h1⟩, if_pos ⟨hk, by omega, by omega⟩]
        have : r' - r = (r' - (r + 1)) + 1 := by omega
        rw [this, List.getD_cons_succ]
      · rw [if_neg (fun h => h1 h.2)]
        by_cases h2 : r' = r
        · subst h2
          rw [if_pos ⟨hk, by omega, by omega⟩]
          simp [setCell, hk]
        · rw [if_neg (by intro h; omega)]
          simp [setCell, h2]
    · rw [if_neg (fun h => hk h.1), if_neg (fun h => hk h.1)]
      simp [setCell, hk]

theorem writeMatches_get (c : Cells) (start : Nat) (name : String) (vals : List Bool) (ks : List String)
    (k0 r' k' : Nat) :
    writeMatches c start name vals ks k0 r' k' =
      if k0 ≤ k' ∧ ks[k' - k0]? = some name ∧ start ≤ r' ∧ r' < start + vals.length
      then vals.getD (r' - start) false else c r' k' := by
  induction ks generalizing c k0 with
  | nil => simp [writeMatches]
  | cons key ks ih =>
    simp only [writeMatches, ih]
    by_cases h0 : k' = k0
    · subst h0
      rw [if_neg (by omega)]
      simp only [Nat.le_refl, Nat.sub_self, List.getElem?_cons_zero, true_and]
      by_cases hkey : key = name
      · simp only [hkey, if_true, writeCol_get]
      · rw [if_neg hkey, if_neg (by intro h; exact hkey (Option.some.inj h.1))]
    · by_cases h1 : k0 + 1 ≤ k'
      · have e : k' - k0 = (k' - (k0 + 1)) + 1 := by omega
        rw [e, List.getElem?_cons_succ]
        have hcell : (if key = name then writeCol c start k0 vals else c) r' k' = c r' k' := by
          split
          · rw [writeCol_get, if_neg (by intro h; omega)]
          · rfl
        rw [hcell]
        by_cases hh : ks[k' - (k0 + 1)]? = some name ∧ start ≤ r' ∧ r' < start + vals.length
        · rw [if_pos ⟨h1, hh⟩, if_pos ⟨by omega, hh⟩]
        · rw [if_neg (fun h => hh h.2), if_neg (fun h => hh h.2)]
      · have e1 : ¬ (k0 + 1 ≤ k' ∧ ks[k' - (k0 + 1)]? = some name ∧ start ≤ r' ∧ r' < start + vals.length) :=
          fun h => h1 h.1
        have e2 : ¬ (k0 ≤ k' ∧ (key :: ks)[k' - k0]? = some name ∧ start ≤ r' ∧ r' < start + vals.length) :=
          fun h => by have := h.1; omega
        rw [if_neg e1, if_neg e2]
        split
        · rw [writeCol_get, if_neg (fun h => by have := h.1; omega)]
        · rfl

/-! ### column lookup -/

theorem colOf_some {name : String} {ks : List String} {k : Nat} (h : colOf name ks = some k) :
    ks[k]? = some name := by
  induction ks generalizing k with
  | nil => simp [colOf] at h
  | cons key ks ih =>
    simp only [colOf] at h
    by_cases hk : key = name
    · rw [if_pos hk] at h; cases h; simp [hk]
    · simp only [hk, if_false, Option.map_eq_some_iff] at h
      obtain ⟨k1, h1, rfl⟩ := h
      simpa using ih h1

theorem colOf_none {name : String} {ks : List String} : colOf name ks = none ↔ name ∉ ks := by
  induction ks with
  | nil => simp [colOf]
  | cons key ks ih =>
    simp only [colOf]
    by_cases hk : key = name
    · simp [hk]
    · simp only [hk, if_false, Option.map_eq_none_iff, ih, List.mem_cons]
      constructor
      · intro h h'; rcases h' with h' | h'
        · exact hk h'.symm
        · exact h h'
      · intro h h'; exact h (Or.inr h')

theorem colOf_append_some {name : String} {ks l : List String} {k : Nat} (h : colOf name ks = some k) :
    colOf name (ks ++ l) = some k := by
  induction ks generalizing k with
  | nil => simp [colOf] at h
  | cons key ks ih =>
    simp only [colOf, List.cons_append] at h ⊢
    by_cases hk : key = name
    · simpa [hk] using h
    · simp only [hk, if_false, Option.map_eq_some_iff] at h ⊢
      obtain ⟨k1, h1, rfl⟩ := h
      exact ⟨k1, ih h1, rfl⟩

theorem colOf_append_none {name : String} {ks l : List String} (h : colOf name ks = none) :
    colOf name (ks ++ l) = (colOf name l).map (· + ks.length) := by
  induction ks with
  | nil => simp
  | cons key ks ih =>
    simp only [colOf, List.cons_append] at h ⊢
    by_cases hk : key = name
    · simp [hk] at h
    · simp only [hk, if_false, Option.map_eq_none_iff] at h ⊢
      rw [ih h]
      cases colOf name l <;> simp; omega

theorem addKeys_ext (keys names : List String) : ∃ ext, addKeys keys names = keys ++ ext := by
  induction names generalizing keys with
  | nil => exact ⟨[], by simp [addKeys]⟩
  | cons n ns ih =>
    simp only [addKeys]
    split
    · exact ih keys
    · obtain ⟨ext, h⟩ := ih (keys ++ [n])
      exact ⟨[n] ++ ext, by rw [h, List.append_assoc]⟩

theorem addKeys_mem (keys names : List String) (n : String) (h : n ∈ names) : n ∈ addKeys keys names := by
  induction names generalizing keys with
  | nil => simp at h
  | cons a ns ih =>
    simp only [addKeys]
    rcases List.mem_cons.mp h with rfl | h
    · split
      · rename_i hm
        obtain ⟨ext, he⟩ := addKeys_ext keys ns
        rw [he]; exact List.mem_append_left _ hm
      · obtain ⟨ext, he⟩ := addKeys_ext (keys ++ [n]) ns
        rw [he]; simp
    · exact ih _ h

/-! ### one `_write_trigger` -/

/-- no flag outside the written region: columns beyond the key list and rows beyond the counter are
still fill -/
def Clean (m : Mc) : Prop := ∀ r k, (m.keys.length ≤ k ∨ m.counter ≤ r) → m.cell r k = false

/-- the cells after the column loop of one event, at a column whose key is `name'` -/
theorem foldCols_get (keys : List String) (start : Nat) (cols : List (String × List Bool))
    (hnd : (cols.map (·.1)).Nodup) (c : Cells) (r' k' : Nat) (name' : String) (hk : keys[k']? = some name') :
    (cols.foldl (fun c col => writeMatches c start col.1 col.2 keys 0) c) r' k' =
      match findVals name' cols with
      | some vals => if start ≤ r' ∧ r' < start + vals.length then vals.getD (r' - start) false else c r' k'
      | none => c r' k' := by
  induction cols generalizing c with
  | nil => simp [findVals]
  | cons col rest ih =>
    simp only [List.map_cons, List.nodup_cons] at hnd
    simp only [List.foldl_cons, findVals]
    rw [ih hnd.2]
    by_cases hn : col.1 = name'
    · have hnone : findVals name' rest = none := by
        have : name' ∉ rest.map (·.1) := by rw [← hn]; exact hnd.1
        clear ih hnd
        induction rest with
        | nil => rfl
        | cons a as iha =>
          simp only [List.map_cons, List.mem_cons, not_or] at this
          simp only [findVals]
          rw [if_neg (fun h => this.1 h.symm)]
          exact iha this.2
      rw [hnone, if_pos hn]
      simp only []
      rw [writeMatches_get]
      simp only [Nat.zero_le, Nat.sub_zero, true_and, hk, hn]
    · rw [if_neg hn]
      have hsame : writeMatches c start col.1 col.2 keys 0 r' k' = c r' k' := by
        rw [writeMatches_get, if_neg]
        intro h
        simp only [Nat.sub_zero, hk] at h
        exact hn (Option.some.inj h.2.1).symm
      cases findVals name' rest with
      | none => exact hsame
      | some vals => simp only []; rw [hsame]

/-- columns without a key are never written -/
theorem foldCols_nokey (keys : List String) (start : Nat) (cols : List (String × List Bool)) (c : Cells)
    (r' k' : Nat) (hk : keys.length ≤ k') :
    (cols.foldl (fun c col => writeMatches c start col.1 col.2 keys 0) c) r' k' = c r' k' := by
  induction cols generalizing c with
  | nil => rfl
  | cons col rest ih =>
    simp only [List.foldl_cons]
    rw [ih, writeMatches_get, if_neg]
    intro h
    rw [List.getElem?_eq_none (by omega)] at h
    cases h.2.1

structure ValidWrite (n : Nat) (cols : List (String × List Bool)) : Prop where
  nodup : (cols.map (·.1)).Nodup
  short : ∀ col ∈ cols, col.2.length ≤ n

theorem findVals_mem {name : String} {cols : List (String × List Bool)} {vals : List Bool}
    (h : findVals name cols = some vals) : (name, vals) ∈ cols := by
  induction cols with
  | nil => simp [findVals] at h
  | cons c cs ih =>
    simp only [findVals] at h
    by_cases hc : c.1 = name
    · rw [if_pos hc] at h
      have : c = (name, vals) := by cases c; simp at hc h; simp [hc, h]
      simp [this]
    · rw [if_neg hc] at h; exact List.mem_cons_of_mem _ (ih h)

theorem findVals_some_of_mem {name : String} {cols : List (String × List Bool)}
    (h : name ∈ cols.map (·.1)) : ∃ vals, findVals name cols = some vals := by
  induction cols with
  | nil => simp at h
  | cons c cs ih =>
    simp only [findVals]
    by_cases hc : c.1 = name
    · exact ⟨c.2, by rw [if_pos hc]⟩
    · rw [if_neg hc]
      simp only [List.map_cons, List.mem_cons] at h
      rcases h with h | h
      · exact absurd h.symm hc
      · exact ih h

/-- the flag of any row under any name after one write -/
theorem flag_writeEvent (m : Mc) (hc : Clean m) (n : Nat) (cols : List (String × List Bool))
    (hv : ValidWrite n cols) (r : Nat) (name : String) :
    flag (writeEvent m n cols) r name =
      match findVals name cols with
      | some vals => if m.counter ≤ r ∧ r < m.counter + vals.length then vals.getD (r - m.counter) false
                     else flag m r name
      | none => flag m r name := by
  obtain ⟨ext, hext⟩ := addKeys_ext m.keys (cols.map (·.1))
  have hkeys : (writeEvent m n cols).keys = m.keys ++ ext := hext
  unfold flag
  rw [hkeys]
  cases hcol : colOf name m.keys with
  | some k =>
    rw [colOf_append_some hcol]
    simp only []
    have hk : (addKeys m.keys (cols.map (·.1)))[k]? = some name := by
      rw [hext]; exact colOf_some (colOf_append_some hcol)
    exact foldCols_get _ _ cols hv.nodup m.cell r k name hk
  | none =>
    rw [colOf_append_none hcol]
    cases hcol2 : colOf name ext with
    | none =>
      simp only [Option.map_none]
      have hnot : name ∉ cols.map (·.1) := by
        intro hmem
        have := addKeys_mem m.keys _ name hmem
        rw [hext, List.mem_append] at this
        rcases this with h | h
        · exact (colOf_none.mp hcol) h
        · exact (colOf_none.mp hcol2) h
      have : findVals name cols = none := by
        cases hf : findVals name cols with
        | none => rfl
        | some vals =>
          exact absurd (List.mem_map.mpr ⟨(name, vals), findVals_mem hf, rfl⟩) hnot
      rw [this]
    | some k2 =>
      simp only [Option.map_some]
      have hk : (addKeys m.keys (cols.map (·.1)))[k2 + m.keys.length]? = some name := by
        rw [hext, List.getElem?_append_right (by omega)]
        simpa using colOf_some hcol2
      have := foldCols_get _ m.counter cols hv.nodup m.cell r (k2 + m.keys.length) name hk
      show (cols.foldl _ m.cell) r (k2 + m.keys.length) = _
      rw [this, hc r (k2 + m.keys.length) (Or.inl (by omega))]

theorem clean_writeEvent (m : Mc) (hc : Clean m) (n : Nat) (cols : List (String × List Bool))
    (hv : ValidWrite n cols) : Clean (writeEvent m n cols) := by
  obtain ⟨ext, hext⟩ := addKeys_ext m.keys (cols.map (·.1))
  intro r k h
  show (cols.foldl _ m.cell) r k = false
  have hkl : (writeEvent m n cols).keys.length = m.keys.length + ext.length := by
    show (addKeys m.keys (cols.map (·.1))).length = _; rw [hext]; simp
  have hcnt : (writeEvent m n cols).counter = m.counter + n := rfl
  by_cases hk : (addKeys m.keys (cols.map (·.1))).length ≤ k
  · rw [foldCols_nokey _ _ _ _ _ _ hk]
    exact hc r k (Or.inl (by rw [hext] at hk; simp at hk; omega))
  · have hr : m.counter + n ≤ r := by
      rcases h with h | h
      · rw [hkl] at h; rw [hext] at hk; simp at hk; omega
      · rw [hcnt] at h; exact h
    have hlt : k < (addKeys m.keys (cols.map (·.1))).length := by omega
    have hkk : (addKeys m.keys (cols.map (·.1)))[k]? = some ((addKeys m.keys (cols.map (·.1)))[k]) :=
      List.getElem?_eq_getElem hlt
    rw [foldCols_get _ _ cols hv.nodup m.cell r k _ hkk]
    have hbase : m.cell r k = false := hc r k (Or.inr (by omega))
    cases hf : findVals ((addKeys m.keys (cols.map (·.1)))[k]) cols with
    | none => exact hbase
    | some vals =>
      simp only []
      have := hv.short _ (findVals_mem hf)
      simp only at this
      rw [if_neg (by intro h; omega)]
      exact hbase

end H5Mc

namespace H5Mc

/-- what row `j` of an event must read under `name`: the value handed in, `False` for a name the event
did not carry and for waveforms the antenna did not have -/
def expectedFlag (cols : List (String × List Bool)) (j : Nat) (name : String) : Bool :=
  match findVals name cols with
  | some vals => vals.getD j false
  | none => false

theorem clean_empty : Clean Mc.empty := fun _ _ _ => rfl

theorem flag_clean_beyond {m : Mc} (hc : Clean m) {r : Nat} (hr : m.counter ≤ r) (name : String) :
    flag m r name = false := by
  unfold flag
  cases colOf name m.keys with
  | none => rfl
  | some k => exact hc r k (Or.inr hr)

theorem foldl_frame (post : List (Nat × List (String × List Bool))) :
    ∀ (m : Mc), Clean m → (∀ w ∈ post, ValidWrite w.1 w.2) →
      Clean (post.foldl (fun m w => writeEvent m w.1 w.2) m) ∧
      m.counter ≤ (post.foldl (fun m w => writeEvent m w.1 w.2) m).counter ∧
      ∀ r name, r < m.counter → flag (post.foldl (fun m w => writeEvent m w.1 w.2) m) r name = flag m r name := by
  induction post with
  | nil => intro m hc _; exact ⟨hc, Nat.le_refl _, fun _ _ _ => rfl⟩
  | cons w rest ih =>
    intro m hc hv
    have hw := hv w (by simp)
    have hc1 := clean_writeEvent m hc w.1 w.2 hw
    obtain ⟨h1, h2, h3⟩ := ih (writeEvent m w.1 w.2) hc1 (fun w' h => hv w' (List.mem_cons_of_mem _ h))
    have hcnt : (writeEvent m w.1 w.2).counter = m.counter + w.1 := rfl
    refine ⟨h1, by simp only [List.foldl_cons]; omega, fun r name hr => ?_⟩
    simp only [List.foldl_cons]
    rw [h3 r name (by omega), flag_writeEvent m hc w.1 w.2 hw]
    cases findVals name w.2 with
    | none => rfl
    | some vals => simp only []; rw [if_neg (by intro h; omega)]

/-- component flags read back under the names they were recorded under, whatever was written before
(in particular whichever columns existed already, in whatever order) and after -/
theorem mc_round_trip (pre post : List (Nat × List (String × List Bool))) (n : Nat)
    (cols : List (String × List Bool))
    (hv : ∀ w ∈ pre ++ (n, cols) :: post, ValidWrite w.1 w.2) (j : Nat) (hj : j < n) (name : String) :
    flag (runMc (pre ++ (n, cols) :: post)) ((runMc pre).counter + j) name = expectedFlag cols j name := by
  unfold runMc
  rw [List.foldl_append, List.foldl_cons]
  have hpre := foldl_frame pre Mc.empty clean_empty (fun w h => hv w (by simp [h]))
  have hw : ValidWrite n cols := hv (n, cols) (by simp)
  have hc1 := clean_writeEvent _ hpre.1 n cols hw
  have hpost := foldl_frame post _ hc1 (fun w h => hv w (by simp [h]))
  rw [hpost.2.2 _ name (by show _ < _ + n; omega), flag_writeEvent _ hpre.1 n cols hw]
  unfold expectedFlag
  cases hf : findVals name cols with
  | none => exact flag_clean_beyond hpre.1 (by omega) name
  | some vals =>
    simp only []
    by_cases hlen : j < vals.length
    · rw [if_pos ⟨by omega, by omega⟩]; congr 1; omega
    · rw [if_neg (by intro h; omega), flag_clean_beyond hpre.1 (by omega) name]
      rw [List.getD_eq_getElem?_getD, List.getElem?_eq_none (by omega)]; rfl

end H5Mc
