import PyrexVerif.Proofs.H5Inv
/-! Preservation of the invariant by every operation, and the round-trip refinement. -/
namespace H5

theorem records_triggers_of_ungated {o : Opts} (e : Ev) (hw : o.write .triggers = true)
    (hg : o.trigOnly .triggers = false) : records o e .triggers = true := by
  simp [records, gate, hw, hg]

/-- what an accepted add does to the row it writes (`g = f.nEvents`) and to nothing else -/
theorem add_ok_cells {o : Opts} {f : File} {e : Ev} (hA : AlwaysParticles o) (hi : Inv o f) :
    (body o e f fullBudget).index.length = f.nEvents + 1 ∧
    (∀ i, i ≠ f.nEvents → ∀ t, cell (body o e f fullBudget) i t = cell f i t) ∧
    ∀ t, (records o e t = true ∧ cell (body o e f fullBudget) f.nEvents t = (f.counter t, e.len t) ∧
            (body o e f fullBudget).rows t = resize (f.rows t) (f.counter t) ++ (List.range (e.len t)).map (Row.data f.calls)) ∨
         (records o e t = false ∧ (body o e f fullBudget).rows t = f.rows t ∧
            ((f.exists_ t = true ∧ cell (body o e f fullBudget) f.nEvents t = (f.counter t, 0) ∧ f.counter t = (f.rows t).length) ∨
             (f.exists_ t = false ∧ cell (body o e f fullBudget) f.nEvents t = (0, 0)))) := by
  obtain ⟨hf, ht⟩ := body_facts o e f fullBudget
  have hm : Mat (body o e f fullBudget) := body_mat o e f .particles (records_particles hA e)
  refine ⟨?_, hf.cells, fun t => ?_⟩
  · have h1 := hf.len_ub
    have h2 : f.nEvents < (body o e f fullBudget).index.length := by
      have := hm; unfold Mat at this; rw [hf.nEvents] at this; exact this
    have := hi.ixlen
    omega
  · obtain ⟨s, tf, _, _, h3⟩ := ht t
    have hs := h3 (by decide)
    have := Tbl.nOps_ge t
    by_cases hr : records o e t = true
    · left
      rw [hr] at hs; simp only [if_true] at hs
      refine ⟨hr, ?_, ?_⟩
      · rw [tf.cellg]; simp [show 3 ≤ s by omega]
      · rw [tf.rows]; simp [show ¬ s ≤ 1 by omega]
    · right
      have hr' : records o e t = false := by simpa using hr
      rw [hr'] at hs; simp at hs
      subst hs
      refine ⟨hr', by rw [tf.rows]; simp, ?_⟩
      by_cases hx : f.exists_ t = true
      · left
        refine ⟨hx, by rw [tf.cellg]; simp [hx], ?_⟩
        rcases hi.lenc_eq t with ⟨q1, q2, q3⟩ | h
        · subst q1
          rw [records_triggers_of_ungated e q2 q3] at hr'; cases hr'
        · exact h
      · right
        have hx' : f.exists_ t = false := by simpa using hx
        refine ⟨hx', ?_⟩
        rw [tf.cellg]; simp [hx']
        exact cell_of_length_le (by rw [hi.ixlen]; exact Nat.le_refl _) t

theorem inv_add_ok {o : Opts} {f : File} {e : Ev} (hA : AlwaysParticles o) (hi : Inv o f) :
    Inv o (add o f e none) := by
  rw [add_none]
  obtain ⟨hlen, hcells, hnew⟩ := add_ok_cells (e := e) hA hi
  obtain ⟨b1, b2, b3, b4, b5⟩ := body_tables (e := e) (b := fullBudget) hi.lenc hi.lenc_eq
  obtain ⟨hf, _⟩ := body_facts o e f fullBudget
  have hcell : ∀ i t, cell (finishOk (body o e f fullBudget)) i t = cell (body o e f fullBudget) i t :=
    fun _ _ => rfl
  have hinb : ∀ i t, (cell (body o e f fullBudget) i t).1 + (cell (body o e f fullBudget) i t).2
      ≤ ((body o e f fullBudget).rows t).length := by
    intro i t
    by_cases hig : i = f.nEvents
    · subst hig
      rcases hnew t with ⟨_, hc, hr⟩ | ⟨_, hr, ⟨_, hc, he⟩ | ⟨_, hc⟩⟩
      · rw [hc, hr]; simp [resize_length]
      · rw [hc, hr]; simp; omega
      · rw [hc]; simp
    · rw [hcells i hig t]
      exact Nat.le_trans (hi.inb i t) (b3 t)
  refine ⟨b1, b2, fun i t => by rw [hcell]; exact hinb i t, ?_, ?_, ?_⟩
  · show (body o e f fullBudget).index.length = (body o e f fullBudget).nEvents + 1
    rw [hlen, hf.nEvents]
  · intro i j t hij hj
    rw [hcell, hcell]
    have hj' : j < f.nEvents + 1 := by rw [← hlen]; exact hj
    by_cases hjg : j = f.nEvents
    · subst hjg
      rw [hcells i (by omega) t]
      have h1 := hi.inb i t
      have h2 := hi.lenc t
      rcases hnew t with ⟨_, hc, _⟩ | ⟨_, _, ⟨_, hc, _⟩ | ⟨hx, hc⟩⟩
      · rw [hc]; simp; omega
      · rw [hc]; simp; omega
      · rw [hc, (hi.noex t hx).2 i]; simp
    · rw [hcells i (by omega) t, hcells j hjg t]
      exact hi.mono i j t hij (by rw [hi.ixlen]; omega)
  · intro t hx
    have hx2 : (body o e f fullBudget).exists_ t = false := hx
    obtain ⟨hx0, hr⟩ := b5 t hx2
    have hrows : (finishOk (body o e f fullBudget)).rows t = (body o e f fullBudget).rows t := rfl
    refine ⟨by rw [hrows, hr]; exact (hi.noex t hx0).1, fun i => ?_⟩
    rw [hcell]
    by_cases hig : i = f.nEvents
    · subst hig
      rcases hnew t with ⟨_, hc, hr2⟩ | ⟨_, _, ⟨hx1, _, _⟩ | ⟨_, hc⟩⟩
      · have hl := congrArg List.length hr2
        rw [hr, (hi.noex t hx0).1] at hl
        simp [resize_length] at hl
        have h0 : f.counter t = 0 ∧ e.len t = 0 := by omega
        rw [hc, h0.1, h0.2]
      · rw [hx0] at hx1; cases hx1
      · exact hc
    · rw [hcells i hig t]; exact (hi.noex t hx0).2 i

/-- a rejected add leaves every index cell as it was -/
theorem add_rej_cells {o : Opts} {f : File} {e : Ev} {k : Nat} (hi : Inv o f) :
    (add o f e (some (k+1))).index.length = f.nEvents ∧
    ∀ i t, cell (add o f e (some (k+1))) i t = cell f i t := by
  rw [add_succ]
  obtain ⟨hf, _⟩ := body_facts o e f k
  refine ⟨?_, fun i t => ?_⟩
  · show ((body o e f k).index.take (body o e f k).nEvents).length = _
    rw [List.length_take, hf.nEvents]
    have := hf.len_le; have := hi.ixlen; omega
  · show (((body o e f k).index.take (body o e f k).nEvents).getD i IxRow.default) t = _
    rw [cell_take (body o e f k) _ i t _ rfl, hf.nEvents]
    split
    · exact hf.cells i (by omega) t
    · exact (cell_of_length_le (by rw [hi.ixlen]; omega) t).symm

theorem inv_add_rej {o : Opts} {f : File} {e : Ev} {k : Nat} (hi : Inv o f) :
    Inv o (add o f e (some (k+1))) := by
  obtain ⟨hlen, hcells⟩ := add_rej_cells (e := e) (k := k) hi
  obtain ⟨b1, b2, b3, b4, b5⟩ := body_tables (e := e) (b := k) hi.lenc hi.lenc_eq
  obtain ⟨hf, _⟩ := body_facts o e f k
  have hrows : (add o f e (some (k+1))).rows = (body o e f k).rows := rfl
  have hctr : (add o f e (some (k+1))).counter = (body o e f k).counter := rfl
  have hex : (add o f e (some (k+1))).exists_ = (body o e f k).exists_ := rfl
  have hne : (add o f e (some (k+1))).nEvents = f.nEvents := hf.nEvents
  refine ⟨?_, ?_, ?_, ?_, ?_, ?_⟩
  · intro t; rw [hrows, hctr]; exact b1 t
  · intro t; rw [hrows, hctr]; exact b2 t
  · intro i t; rw [hcells, hrows]; exact Nat.le_trans (hi.inb i t) (b3 t)
  · rw [hlen, hne]
  · intro i j t hij hj
    rw [hcells, hcells]
    exact hi.mono i j t hij (by rw [hi.ixlen]; rw [hlen] at hj; exact hj)
  · intro t hx
    rw [hex] at hx
    obtain ⟨hx0, hr⟩ := b5 t hx
    refine ⟨by rw [hrows, hr]; exact (hi.noex t hx0).1, fun i => ?_⟩
    rw [hcells]; exact (hi.noex t hx0).2 i

theorem inv_add_zero {o : Opts} {f : File} {e : Ev} (hi : Inv o f) : Inv o (add o f e (some 0)) := by
  rw [add_zero]
  exact ⟨hi.lenc, hi.lenc_eq, hi.inb, hi.ixlen, hi.mono, hi.noex⟩

theorem inv_reopen {o : Opts} {f : File} (hi : Inv o f) : Inv o (reopen f) := by
  have hcell : ∀ i t, cell (reopen f) i t = cell f i t := fun _ _ => rfl
  refine ⟨?_, ?_, fun i t => by rw [hcell]; exact hi.inb i t, rfl, ?_, ?_⟩
  · intro t
    show (f.rows t).length ≤ if f.exists_ t then (f.rows t).length else 0
    by_cases hx : f.exists_ t = true
    · simp [hx]
    · have hx' : f.exists_ t = false := by simpa using hx
      simp [hx', (hi.noex t hx').1]
  · intro t
    right
    show (if f.exists_ t then (f.rows t).length else 0) = (f.rows t).length
    by_cases hx : f.exists_ t = true
    · simp [hx]
    · have hx' : f.exists_ t = false := by simpa using hx
      simp [hx', (hi.noex t hx').1]
  · intro i j t hij hj; rw [hcell, hcell]; exact hi.mono i j t hij hj
  · intro t hx; exact ⟨(hi.noex t hx).1, fun i => by rw [hcell]; exact (hi.noex t hx).2 i⟩

theorem inv_applyOp {o : Opts} (hA : AlwaysParticles o) {f : File} (hi : Inv o f) (op : Op) :
    Inv o (applyOp o f op) := by
  cases op with
  | ok e => exact inv_add_ok hA hi
  | rejected e k =>
    cases k with
    | zero => exact inv_add_zero (e := e) hi
    | succ k => exact inv_add_rej hi
  | reopen => exact inv_reopen hi

theorem inv_foldl {o : Opts} (hA : AlwaysParticles o) (ops : List Op) :
    ∀ f, Inv o f → Inv o (ops.foldl (applyOp o) f) := by
  induction ops with
  | nil => intro f h; exact h
  | cons op r ih => intro f h; exact ih _ (inv_applyOp hA h op)

theorem inv_run {o : Opts} (hA : AlwaysParticles o) (ops : List Op) : Inv o (run o ops) :=
  inv_foldl hA ops _ (Inv.empty o)

/-! ### Round trip -/

/-- the rows an accepted call `c` carrying `e` must read back as -/
def expected (o : Opts) (c : Nat) (e : Ev) (t : Tbl) : List Row :=
  if records o e t then (List.range (e.len t)).map (Row.data c) else []

/-- the file reads back as the list `L` of (call number, event) -/
def RT (o : Opts) (f : File) (L : List (Nat × Ev)) : Prop :=
  f.index.length = L.length ∧
  ∀ i c e, L[i]? = some (c, e) → ∀ t, getEvent f i t = expected o c e t

theorem getEvent_congr {f f' : File} {i : Nat} {t : Tbl} (hc : cell f' i t = cell f i t)
    (hr : ∃ ext, f'.rows t = f.rows t ++ ext)
    (hb : (cell f i t).1 + (cell f i t).2 ≤ (f.rows t).length) : getEvent f' i t = getEvent f i t := by
  obtain ⟨ext, hr⟩ := hr
  rw [getEvent_eq, getEvent_eq, hc, hr, slice_append hb]

theorem rt_add_ok {o : Opts} {f : File} {e : Ev} {L : List (Nat × Ev)} (hA : AlwaysParticles o)
    (hi : Inv o f) (h : RT o f L) : RT o (add o f e none) (L ++ [(f.calls, e)]) := by
  obtain ⟨hlen, hcells, hnew⟩ := add_ok_cells (e := e) hA hi
  obtain ⟨_, _, _, b4, _⟩ := body_tables (e := e) (b := fullBudget) hi.lenc hi.lenc_eq
  rw [add_none]
  have hget : ∀ i t, getEvent (finishOk (body o e f fullBudget)) i t = getEvent (body o e f fullBudget) i t :=
    fun _ _ => rfl
  have hL : L.length = f.nEvents := by rw [← h.1, hi.ixlen]
  refine ⟨?_, fun i c e' hi' t => ?_⟩
  · show (body o e f fullBudget).index.length = _
    rw [hlen]; simp [hL]
  · rw [hget]
    by_cases hlt : i < L.length
    · rw [List.getElem?_append_left hlt] at hi'
      rw [← h.2 i c e' hi' t]
      exact getEvent_congr (hcells i (by omega) t) (b4 t) (hi.inb i t)
    · have hge : L.length ≤ i := Nat.le_of_not_lt hlt
      rw [List.getElem?_append_right hge] at hi'
      have hi0 : i - L.length = 0 := by
        by_cases h0 : i - L.length = 0
        · exact h0
        · rw [List.getElem?_eq_none (by simp; omega)] at hi'; cases hi'
      rw [hi0] at hi'
      simp at hi'
      obtain ⟨hc, he⟩ := hi'
      subst hc; subst he
      have hig : i = f.nEvents := by omega
      subst hig
      rw [getEvent_eq]
      unfold expected
      rcases hnew t with ⟨hr, hc, hrows⟩ | ⟨hr, _, ⟨_, hc, _⟩ | ⟨_, hc⟩⟩
      · rw [hc, hrows, hr]
        simp only [if_true]
        have := slice_new (resize (f.rows t) (f.counter t)) ((List.range (e.len t)).map (Row.data f.calls)) []
        simp only [List.append_nil, resize_length, List.length_map, List.length_range] at this
        exact this
      · rw [hc, hr]; simp
      · rw [hc, hr]; simp

theorem rt_add_rej {o : Opts} {f : File} {e : Ev} {k : Nat} {L : List (Nat × Ev)}
    (hi : Inv o f) (h : RT o f L) : RT o (add o f e (some (k+1))) L := by
  obtain ⟨hlen, hcells⟩ := add_rej_cells (e := e) (k := k) hi
  obtain ⟨_, _, _, b4, _⟩ := body_tables (e := e) (b := k) hi.lenc hi.lenc_eq
  refine ⟨by rw [hlen, ← hi.ixlen]; exact h.1, fun i c e' hi' t => ?_⟩
  rw [← h.2 i c e' hi' t]
  exact getEvent_congr (hcells i t) (b4 t) (hi.inb i t)

theorem rt_applyOp {o : Opts} (hA : AlwaysParticles o) {f : File} (hi : Inv o f) {L : List (Nat × Ev)}
    (h : RT o f L) (op : Op) :
    RT o (applyOp o f op) (L ++ acceptedFrom f.calls [op]) := by
  cases op with
  | ok e => exact rt_add_ok hA hi h
  | rejected e k =>
    simp only [acceptedFrom, List.append_nil]
    cases k with
    | zero => exact h
    | succ k => exact rt_add_rej hi h
  | reopen => simp only [acceptedFrom, List.append_nil]; exact h

theorem calls_applyOp (o : Opts) (f : File) (op : Op) :
    (applyOp o f op).calls = match op with | .reopen => f.calls | _ => f.calls + 1 := by
  cases op with
  | ok e =>
    show (add o f e none).calls = _
    rw [add_none]; show (body o e f fullBudget).calls + 1 = _
    rw [(body_facts o e f fullBudget).1.calls]
  | rejected e k =>
    cases k with
    | zero => rfl
    | succ k =>
      show (add o f e (some (k+1))).calls = _
      rw [add_succ]; show (body o e f k).calls + 1 = _
      rw [(body_facts o e f k).1.calls]
  | reopen => rfl

theorem acceptedFrom_cons (n : Nat) (op : Op) (r : List Op) :
    acceptedFrom n (op :: r) =
      acceptedFrom n [op] ++ acceptedFrom (match op with | .reopen => n | _ => n + 1) r := by
  cases op <;> simp [acceptedFrom]

theorem rt_foldl {o : Opts} (hA : AlwaysParticles o) (ops : List Op) :
    ∀ f L, Inv o f → RT o f L → RT o (ops.foldl (applyOp o) f) (L ++ acceptedFrom f.calls ops) := by
  induction ops with
  | nil => intro f L _ h; simpa [acceptedFrom] using h
  | cons op r ih =>
    intro f L hi h
    have h1 := rt_applyOp hA hi h op
    have h2 := ih _ _ (inv_applyOp hA hi op) h1
    rw [calls_applyOp] at h2
    rw [acceptedFrom_cons, ← List.append_assoc]
    exact h2

theorem rt_run {o : Opts} (hA : AlwaysParticles o) (ops : List Op) : RT o (run o ops) (accepted ops) := by
  have := rt_foldl hA ops File.empty [] (Inv.empty o) ⟨rfl, fun i c e h => by simp at h⟩
  simpa [run, accepted, File.empty] using this

end H5
