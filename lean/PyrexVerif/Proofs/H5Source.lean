import PyrexVerif.D.H5
import PyrexVerif.Gen.H5Steps
/-! The step tables the model `PyrexVerif/D/H5.lean` stands for, computed FROM the model's own
definitions (`Tbl.all`, `records`/`gate`, `Tbl.nOps`, `stageOf`, `Tbl.presetOrder`), to be compared
with the tables regenerated from `pyrex/io.py` (`PyrexVerif/Gen/H5Steps.lean`). -/
namespace H5

/-- key of `self._counters` / `self._data_locs` of a table -/
def Tbl.key : Tbl → String
  | .particles => "particles_meta" | .triggers => "triggers" | .mcTriggers => "mc_triggers"
  | .rays => "rays_meta" | .noise => "noise" | .waveforms => "waveforms"

/-- key of `self._write_data` / `self._trig_only` -/
def Opt.key : Opt → String
  | .particles => "particles" | .triggers => "triggers" | .antennaTriggers => "antenna_triggers"
  | .rays => "rays" | .noise => "noise" | .waveforms => "waveforms"

/-- the option that gates a table with its own branch in `_add_event_data` (component triggers are
written inside `_write_trigger`) -/
def Tbl.gateOpt : Tbl → Option Opt
  | .particles => some .particles | .triggers => some .triggers | .mcTriggers => none
  | .rays => some .rays | .noise => some .noise | .waveforms => some .waveforms

def Tbl.writer : Tbl → String
  | .particles => "_write_particles" | .triggers => "_write_trigger" | .mcTriggers => "_write_trigger"
  | .rays => "_write_ray_data" | .noise => "_write_noise_data" | .waveforms => "_write_waveforms"

/-- `_add_event_data` as the model runs it: the preset, then `Tbl.all` in order, each table under the
gate `records` uses -/
def modelAddEventData : List (String × String × String) :=
  ("preset", "", "") :: Tbl.all.filterMap (fun t => t.gateOpt.map (fun x => (t.writer, x.key, x.key)))

/-- the micro-operations of one table writer in the order `writeTbl` executes them; a `check` between
the increment and the resize exactly where `stageOf` lets a budget of one micro-operation stop -/
def modelTblOps (t : Tbl) : List String :=
  let ungated : Opts := { write := fun _ => true, trigOnly := fun _ => false }
  ["inc:" ++ t.key] ++ (if stageOf ungated t 1 = 1 then ["check"] else []) ++
    ["resize:" ++ t.key, "idx:" ++ t.key] ++ (if t.nOps = 4 then ["thrown"] else [])

/-- per writer method: argument checks that raise before anything is touched (`raise`), then the
tables it writes -/
def modelWriterOps : List (String × List String) :=
  [(Tbl.particles.writer, modelTblOps .particles),
   (Tbl.triggers.writer, modelTblOps .triggers ++ ["raise"] ++ modelTblOps .mcTriggers),
   (Tbl.rays.writer, "raise" :: modelTblOps .rays),
   (Tbl.noise.writer, "raise" :: modelTblOps .noise),
   (Tbl.waveforms.writer, "raise" :: modelTblOps .waveforms)]

/-- `add`: `some 0` = the argument checks, then the body, `finishRej` = the except block (shrink to
`counters['indices']`, re-raise), `finishOk` = the increment -/
def modelAddShape : List String :=
  ["pre:raise", "try:_add_event_data",
   "except:indices = self._file[self._data_locs['indices']]",
   "except:if indices.shape[0] > self._counters['indices']: indices.resize(self._counters['indices'], axis=0)",
   "except:raise", "inc:indices:1"]

/-- `_load_data` as `loadTable` models it: smallest start, furthest end of any cell, one block read,
every event cut at `start - tmp_start` -/
def modelLoadCut : List String :=
  ["self._data[key] = []",
   "tmp_indices = self._object[self._locations['indices']][slc, index]",
   "tmp_start = np.min(tmp_indices[:, 0])",
   "tmp_end = np.max(tmp_indices[:, 0] + tmp_indices[:, 1])",
   "tmp = self._object[val][tmp_start:tmp_end]",
   "for start, length in tmp_indices:\n    start -= tmp_start\n    self._data[key].append(tmp[start:start + length])"]

/-- `__next__` as `next` models it -/
def modelNextShape : List String :=
  ["self._iter_counter += 1",
   "event_number = self._iter_counter * self._slice_step + self._slice_start_event",
   "if event_number >= self._iter_stop_event:\n    raise StopIteration",
   "if event_number >= self._slice_end_event:\n    self._iter_counter = 0\n    self._slice_start_event = event_number\n    self._slice_end_event = min(self._slice_start_event + self._slice_range, self._max_events)\n    self._load_data()",
   "return self"]

end H5
