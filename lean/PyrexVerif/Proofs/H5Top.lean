import PyrexVerif.Proofs.H5Access
/-! Glue lemmas between the invariants and the property statements of C11 / C12. -/
namespace H5

theorem cell_of_getElem? {f : File} {i : Nat} {ix : IxRow} (h : f.index[i]? = some ix) (t : Tbl) :
    cell f i t = ix t := by
  unfold cell; rw [List.getD_eq_getElem?_getD, h]; rfl

/-- position of a row inside the `add` call that wrote it (`none` for a fill row) -/
def Row.pos : Row → Option Nat
  | .gap => none
  | .data _ k => some k

def isReopen : Op → Bool
  | .reopen => true
  | _ => false

/-- number of `add` calls (accepted or rejected) in a history -/
def nAdds (ops : List Op) : Nat := (ops.filter (fun op => !isReopen op)).length

theorem nAdds_ok (e : Ev) (r : List Op) : nAdds (.ok e :: r) = nAdds r + 1 := by simp [nAdds, isReopen]
theorem nAdds_rej (e : Ev) (k : Nat) (r : List Op) : nAdds (.rejected e k :: r) = nAdds r + 1 := by
  simp [nAdds, isReopen]
theorem nAdds_reopen (r : List Op) : nAdds (.reopen :: r) = nAdds r := by simp [nAdds, isReopen]

theorem acceptedFrom_append (n : Nat) (a b : List Op) :
    acceptedFrom n (a ++ b) = acceptedFrom n a ++ acceptedFrom (n + nAdds a) b := by
  induction a generalizing n with
  | nil => simp [acceptedFrom, nAdds]
  | cons op r ih =>
    cases op with
    | ok e =>
      rw [nAdds_ok, show n + (nAdds r + 1) = n + 1 + nAdds r by omega]
      simp only [List.cons_append, acceptedFrom, ih]
    | rejected e k =>
      rw [nAdds_rej, show n + (nAdds r + 1) = n + 1 + nAdds r by omega]
      simp only [List.cons_append, acceptedFrom, ih]
    | reopen =>
      rw [nAdds_reopen]
      simp only [List.cons_append, acceptedFrom, ih]

theorem acceptedFrom_snd (n m : Nat) (ops : List Op) :
    (acceptedFrom n ops).map Prod.snd = (acceptedFrom m ops).map Prod.snd := by
  induction ops generalizing n m with
  | nil => rfl
  | cons op r ih =>
    cases op with
    | ok e => simp only [acceptedFrom, List.map_cons]; rw [ih (n+1) (m+1)]
    | rejected e k => simp only [acceptedFrom]; exact ih _ _
    | reopen => simp only [acceptedFrom]; exact ih _ _

theorem accepted_reject_snd (ops1 ops2 : List Op) (e : Ev) (k : Nat) :
    (accepted (ops1 ++ .rejected e k :: ops2)).map Prod.snd = (accepted (ops1 ++ ops2)).map Prod.snd := by
  unfold accepted
  rw [acceptedFrom_append, acceptedFrom_append, List.map_append, List.map_append]
  congr 1
  simp only [acceptedFrom]
  exact acceptedFrom_snd _ _ _

theorem accepted_filter_reopen (n : Nat) (ops : List Op) :
    acceptedFrom n (ops.filter (fun op => !isReopen op)) = acceptedFrom n ops := by
  induction ops generalizing n with
  | nil => rfl
  | cons op r ih =>
    cases op with
    | ok e =>
      rw [List.filter_cons_of_pos (by rfl)]
      simp only [acceptedFrom, ih]
    | rejected e k =>
      rw [List.filter_cons_of_pos (by rfl)]
      simp only [acceptedFrom, ih]
    | reopen =>
      rw [List.filter_cons_of_neg (by simp [isReopen])]
      simp only [acceptedFrom, ih]

theorem expected_pos (o : Opts) (c c' : Nat) (e : Ev) (t : Tbl) :
    (expected o c e t).map Row.pos = (expected o c' e t).map Row.pos := by
  unfold expected; split <;> simp [Row.pos, Function.comp_def]

theorem getEvent_beyond {f : File} {i : Nat} (h : f.index.length ≤ i) (t : Tbl) : getEvent f i t = [] := by
  rw [getEvent_eq, cell_of_length_le h]; simp

/-- two files that read back as lists with the same events read back the same, position by position -/
theorem rt_same_pos {o : Opts} {f f' : File} {L L' : List (Nat × Ev)} (h : RT o f L) (h' : RT o f' L')
    (hs : L.map Prod.snd = L'.map Prod.snd) (i : Nat) (t : Tbl) :
    (getEvent f i t).map Row.pos = (getEvent f' i t).map Row.pos := by
  have hlen : L.length = L'.length := by have := congrArg List.length hs; simpa using this
  by_cases hi : i < L.length
  · have h1 : L[i]? = some L[i] := List.getElem?_eq_getElem hi
    have h2 : L'[i]? = some (L'[i]'(by omega)) := List.getElem?_eq_getElem (by omega)
    have hsnd : (L[i]).2 = (L'[i]'(by omega)).2 := by
      have := congrArg (fun l => l[i]?) hs
      simp only [List.getElem?_map, h1, h2, Option.map_some] at this
      exact Option.some.inj this
    rw [h.2 i (L[i]).1 (L[i]).2 h1 t, h'.2 i (L'[i]'(by omega)).1 (L'[i]'(by omega)).2 h2 t, hsnd]
    exact expected_pos _ _ _ _ _
  · rw [getEvent_beyond (by rw [h.1]; omega), getEvent_beyond (by rw [h'.1]; omega)]

/-- same events *and* same call numbers: identical rows -/
theorem rt_same {o : Opts} {f f' : File} {L : List (Nat × Ev)} (h : RT o f L) (h' : RT o f' L)
    (i : Nat) (t : Tbl) : getEvent f i t = getEvent f' i t := by
  by_cases hi : i < L.length
  · have h1 : L[i]? = some L[i] := List.getElem?_eq_getElem hi
    rw [h.2 i (L[i]).1 (L[i]).2 h1 t, h'.2 i (L[i]).1 (L[i]).2 h1 t]
  · rw [getEvent_beyond (by rw [h.1]; omega), getEvent_beyond (by rw [h'.1]; omega)]

theorem applyOp_cols (o : Opts) (f : File) (op : Op) : ∃ ext, (applyOp o f op).cols = f.cols ++ ext := by
  cases op with
  | ok e => exact (body_facts o e f fullBudget).1.cols
  | rejected e k =>
    cases k with
    | zero => exact ⟨[], by simp [applyOp, add_zero]⟩
    | succ k => exact (body_facts o e f k).1.cols
  | reopen => exact ⟨[], by simp [applyOp, reopen]⟩

theorem run_snoc (o : Opts) (ops : List Op) (op : Op) : run o (ops ++ [op]) = applyOp o (run o ops) op := by
  simp [run, List.foldl_append]

end H5
