import PyrexVerif.R.IceAtten
import Mathlib.Tactic.Linarith
import Mathlib.Tactic.Positivity
import Mathlib.Tactic.NormNum
import Mathlib.Tactic.FieldSimp
import Mathlib.Tactic.Ring
/-! Helper lemmas for C16: a decreasing table interpolated/extrapolated linearly stays above an
explicit bound (used for the AraSim attenuation table). -/
open PyrexR

namespace IceTable

/-- knots strictly increasing, values non-increasing, equal lengths ≥ 1 -/
def goodTable : List ℝ → List ℝ → Prop
  | [_], [_] => True
  | x0 :: x1 :: xs, y0 :: y1 :: ys => x0 < x1 ∧ y1 ≤ y0 ∧ goodTable (x1 :: xs) (y1 :: ys)
  | _, _ => False

/-- value of the last segment's line at `B` -/
noncomputable def lastBound : List ℝ → List ℝ → ℝ → ℝ
  | [x0, x1], [y0, y1], B => interpSeg x0 y0 x1 y1 B
  | _ :: x1 :: x2 :: xs, _ :: y1 :: y2 :: ys, B => lastBound (x1 :: x2 :: xs) (y1 :: y2 :: ys) B
  | _, _, _ => 0

noncomputable def lastKnot : List ℝ → ℝ
  | [] => 0
  | [x] => x
  | _ :: x :: xs => lastKnot (x :: xs)

noncomputable def lastVal : List ℝ → ℝ := lastKnot

theorem seg_ge_right {x0 y0 x1 y1 x : ℝ} (hx : x0 < x1) (hy : y1 ≤ y0) (h : x ≤ x1) :
    y1 ≤ interpSeg x0 y0 x1 y1 x := by
  unfold interpSeg
  have hd : 0 < x1 - x0 := by linarith
  have : y0 + (y1 - y0) * (x - x0) / (x1 - x0) - y1 = (y0 - y1) * (x1 - x) / (x1 - x0) := by
    field_simp; ring
  have h2 : 0 ≤ (y0 - y1) * (x1 - x) / (x1 - x0) :=
    div_nonneg (mul_nonneg (by linarith) (by linarith)) (le_of_lt hd)
  linarith

theorem seg_antitone {x0 y0 x1 y1 x B : ℝ} (hx : x0 < x1) (hy : y1 ≤ y0) (h : x ≤ B) :
    interpSeg x0 y0 x1 y1 B ≤ interpSeg x0 y0 x1 y1 x := by
  unfold interpSeg
  have hd : 0 < x1 - x0 := by linarith
  have : y0 + (y1 - y0) * (x - x0) / (x1 - x0) - (y0 + (y1 - y0) * (B - x0) / (x1 - x0))
      = (y0 - y1) * (B - x) / (x1 - x0) := by
    field_simp; ring
  have h2 : 0 ≤ (y0 - y1) * (B - x) / (x1 - x0) :=
    div_nonneg (mul_nonneg (by linarith) (by linarith)) (le_of_lt hd)
  linarith

/-- the bound is below every later table value's … -/
theorem lastBound_le_head : ∀ (xs ys : List ℝ) (B : ℝ), goodTable xs ys → 2 ≤ xs.length →
    lastKnot xs ≤ B → lastBound xs ys B ≤ ys.head!
  | [x0, x1], [y0, y1], B, hg, _, hB => by
      simp only [goodTable, and_true] at hg
      simp only [lastKnot] at hB
      simp only [lastBound, List.head!_cons]
      -- line at B ≥ x1 is ≤ y1 ≤ y0
      have h1 : interpSeg x0 y0 x1 y1 B ≤ interpSeg x0 y0 x1 y1 x1 := seg_antitone hg.1 hg.2 hB
      have h2 : interpSeg x0 y0 x1 y1 x1 = y1 := by
        unfold interpSeg
        have : x1 - x0 ≠ 0 := by linarith [hg.1]
        field_simp; ring
      linarith [hg.2]
  | x0 :: x1 :: x2 :: xs, y0 :: y1 :: y2 :: ys, B, hg, _, hB => by
      simp only [goodTable] at hg
      have ih := lastBound_le_head (x1 :: x2 :: xs) (y1 :: y2 :: ys) B
        (by simpa [goodTable] using hg.2.2) (by simp) (by simpa [lastKnot] using hB)
      simp only [lastBound, List.head!_cons] at ih ⊢
      linarith [hg.2.1]
  | [], _, _, _, hl, _ => by simp at hl
  | [_], _, _, _, hl, _ => by simp at hl
  | [_, _], [], _, hg, _, _ => by simp [goodTable] at hg
  | [_, _], [_], _, hg, _, _ => by simp [goodTable] at hg
  | [_, _], _ :: _ :: _ :: _, _, hg, _, _ => by simp [goodTable] at hg
  | _ :: _ :: _ :: _, [], _, hg, _, _ => by simp [goodTable] at hg
  | _ :: _ :: _ :: _, [_], _, hg, _, _ => by simp [goodTable] at hg
  | _ :: _ :: _ :: _, [_, _], _, hg, _, _ => by simp [goodTable] at hg

/-- main lemma: for every `x ≤ B` (with `B` at or beyond the last knot) the interpolated /
extrapolated value is at least the last segment's line evaluated at `B` -/
theorem interp_ge_lastBound : ∀ (xs ys : List ℝ) (B x : ℝ), goodTable xs ys → 2 ≤ xs.length →
    lastKnot xs ≤ B → x ≤ B → lastBound xs ys B ≤ interpExtrap xs ys x
  | [x0, x1], [y0, y1], B, x, hg, _, _, hx => by
      simp only [goodTable, and_true] at hg
      have : interpExtrap [x0, x1] [y0, y1] x = interpSeg x0 y0 x1 y1 x := by
        simp [interpExtrap]
      rw [this]
      simpa [lastBound] using seg_antitone hg.1 hg.2 hx
  | x0 :: x1 :: x2 :: xs, y0 :: y1 :: y2 :: ys, B, x, hg, _, hB, hx => by
      simp only [goodTable] at hg
      have hg' : goodTable (x1 :: x2 :: xs) (y1 :: y2 :: ys) := by simpa [goodTable] using hg.2.2
      have hB' : lastKnot (x1 :: x2 :: xs) ≤ B := by simpa [lastKnot] using hB
      by_cases hlt : x < x1
      · have : interpExtrap (x0 :: x1 :: x2 :: xs) (y0 :: y1 :: y2 :: ys) x = interpSeg x0 y0 x1 y1 x := by
          simp [interpExtrap, hlt]
        rw [this]
        have h1 := seg_ge_right hg.1 hg.2.1 (le_of_lt hlt)
        have h2 := lastBound_le_head (x1 :: x2 :: xs) (y1 :: y2 :: ys) B hg' (by simp) hB'
        simp only [lastBound, List.head!_cons] at h2 ⊢
        linarith
      · have : interpExtrap (x0 :: x1 :: x2 :: xs) (y0 :: y1 :: y2 :: ys) x
            = interpExtrap (x1 :: x2 :: xs) (y1 :: y2 :: ys) x := by
          simp [interpExtrap, hlt]
        rw [this]
        simpa [lastBound] using interp_ge_lastBound (x1 :: x2 :: xs) (y1 :: y2 :: ys) B x hg' (by simp) hB' hx
  | [], _, _, _, _, hl, _, _ => by simp at hl
  | [_], _, _, _, _, hl, _, _ => by simp at hl
  | [_, _], [], _, _, hg, _, _, _ => by simp [goodTable] at hg
  | [_, _], [_], _, _, hg, _, _, _ => by simp [goodTable] at hg
  | [_, _], _ :: _ :: _ :: _, _, _, hg, _, _, _ => by simp [goodTable] at hg
  | _ :: _ :: _ :: _, [], _, _, hg, _, _, _ => by simp [goodTable] at hg
  | _ :: _ :: _ :: _, [_], _, _, hg, _, _, _ => by simp [goodTable] at hg
  | _ :: _ :: _ :: _, [_, _], _, _, hg, _, _, _ => by simp [goodTable] at hg

/-- in a good table the first knot is at most the last one -/
theorem head_le_lastKnot : ∀ (xs ys : List ℝ), goodTable xs ys → 1 ≤ xs.length → xs.head! ≤ lastKnot xs
  | [x0], _, _, _ => by simp [lastKnot]
  | x0 :: x1 :: xs, y0 :: y1 :: ys, hg, _ => by
      simp only [goodTable] at hg
      have ih := head_le_lastKnot (x1 :: xs) (y1 :: ys) hg.2.2 (by simp)
      simp only [List.head!_cons, lastKnot] at ih ⊢
      linarith [hg.1]
  | [], _, _, hl => by simp at hl
  | _ :: _ :: _, [], hg, _ => by simp [goodTable] at hg
  | _ :: _ :: _, [_], hg, _ => by simp [goodTable] at hg

/-- at and beyond the last knot the interpolant IS the last segment's line (linear extrapolation) -/
theorem interp_eq_lastBound : ∀ (xs ys : List ℝ) (x : ℝ), goodTable xs ys → 2 ≤ xs.length →
    lastKnot xs ≤ x → interpExtrap xs ys x = lastBound xs ys x
  | [x0, x1], [y0, y1], x, _, _, hx => by
      simp only [lastKnot] at hx
      have : ¬ x < x1 := not_lt.mpr hx
      simp [interpExtrap, lastBound, this]
  | x0 :: x1 :: x2 :: xs, y0 :: y1 :: y2 :: ys, x, hg, _, hx => by
      simp only [goodTable] at hg
      have hg' : goodTable (x1 :: x2 :: xs) (y1 :: y2 :: ys) := by simpa [goodTable] using hg.2.2
      have hx' : lastKnot (x1 :: x2 :: xs) ≤ x := by simpa [lastKnot] using hx
      have h1 : x1 ≤ lastKnot (x1 :: x2 :: xs) := by
        simpa using head_le_lastKnot (x1 :: x2 :: xs) (y1 :: y2 :: ys) hg' (by simp)
      have hlt : ¬ x < x1 := not_lt.mpr (le_trans h1 hx')
      have : interpExtrap (x0 :: x1 :: x2 :: xs) (y0 :: y1 :: y2 :: ys) x
          = interpExtrap (x1 :: x2 :: xs) (y1 :: y2 :: ys) x := by
        simp [interpExtrap, hlt]
      rw [this]
      simpa [lastBound] using interp_eq_lastBound (x1 :: x2 :: xs) (y1 :: y2 :: ys) x hg' (by simp) hx'
  | [], _, _, _, hl, _ => by simp at hl
  | [_], _, _, _, hl, _ => by simp at hl
  | [_, _], [], _, hg, _, _ => by simp [goodTable] at hg
  | [_, _], [_], _, hg, _, _ => by simp [goodTable] at hg
  | [_, _], _ :: _ :: _ :: _, _, hg, _, _ => by simp [goodTable] at hg
  | _ :: _ :: _ :: _, [], _, hg, _, _ => by simp [goodTable] at hg
  | _ :: _ :: _ :: _, [_], _, hg, _, _ => by simp [goodTable] at hg
  | _ :: _ :: _ :: _, [_, _], _, hg, _, _ => by simp [goodTable] at hg

end IceTable
