import PyrexVerif.R.Interaction
import Mathlib.Analysis.SpecialFunctions.Pow.Real
import Mathlib.Analysis.SpecialFunctions.Log.Basic
import Mathlib.Analysis.SpecialFunctions.Sqrt
import Mathlib.Tactic.Linarith
import Mathlib.Tactic.NormNum
import Mathlib.Tactic.Ring
import Mathlib.Tactic.FieldSimp
import Mathlib.Tactic.Positivity
/-! Helper lemmas for C14: weighted geometric / power means, polynomial-in-log monotonicity. -/
noncomputable section
namespace PyrexR

/-- Equation 15 is a weighted geometric mean of `ymin − c1` and `ymax − c1`, shifted back by `c1` -/
theorem yHigh_range (c1 ymin ymax r : ℝ) (hc : c1 < ymin) (hy : ymin ≤ ymax) (hr0 : 0 ≤ r) (hr1 : r ≤ 1) :
    ymin ≤ ctwYHighBranch c1 ymin ymax r ∧ ctwYHighBranch c1 ymin ymax r ≤ ymax := by
  unfold ctwYHighBranch
  simp only [Rpow]
  set A := ymax - c1 with hA
  set B := ymin - c1 with hB
  have hBpos : 0 < B := by rw [hB]; linarith
  have hAB : B ≤ A := by rw [hA, hB]; linarith
  have hApos : 0 < A := lt_of_lt_of_le hBpos hAB
  have hdiv : A ^ r / B ^ (r - 1) = A ^ r * B ^ (1 - r) := by
    rw [div_eq_mul_inv, ← Real.rpow_neg hBpos.le]; congr 2; ring
  rw [hdiv]
  have hBsplit : B ^ r * B ^ (1 - r) = B := by
    rw [← Real.rpow_add hBpos]; simp
  have hAsplit : A ^ r * A ^ (1 - r) = A := by
    rw [← Real.rpow_add hApos]; simp
  have h1 : B ^ r ≤ A ^ r := Real.rpow_le_rpow hBpos.le hAB hr0
  have h2 : B ^ (1 - r) ≤ A ^ (1 - r) := Real.rpow_le_rpow hBpos.le hAB (by linarith)
  have hBr : 0 < B ^ (1 - r) := Real.rpow_pos_of_pos hBpos _
  have hAr : 0 < A ^ r := Real.rpow_pos_of_pos hApos _
  constructor
  · have : B ^ r * B ^ (1 - r) ≤ A ^ r * B ^ (1 - r) := mul_le_mul_of_nonneg_right h1 hBr.le
    linarith
  · have : A ^ r * B ^ (1 - r) ≤ A ^ r * A ^ (1 - r) := mul_le_mul_of_nonneg_left h2 hAr.le
    linarith

/-- Equation 14 is a power mean (exponent `p = 1 − 1/c2 ∈ (0,1)`) of `ymin − c1` and `ymax − c1` -/
theorem yLow_range (c1 c2 ymin ymax r : ℝ) (hc : c1 < ymin) (hy : ymin ≤ ymax) (hr0 : 0 ≤ r) (hr1 : r ≤ 1)
    (hc2 : 1 < c2) :
    ymin ≤ ctwYLowBranch c1 c2 ymin ymax r ∧ ctwYLowBranch c1 c2 ymin ymax r ≤ ymax := by
  unfold ctwYLowBranch
  simp only [Rpow]
  set A := ymax - c1 with hA
  set B := ymin - c1 with hB
  have hBpos : 0 < B := by rw [hB]; linarith
  have hAB : B ≤ A := by rw [hA, hB]; linarith
  have hApos : 0 < A := lt_of_lt_of_le hBpos hAB
  have hc2pos : 0 < c2 := by linarith
  have hc2m : 0 < c2 - 1 := by linarith
  set p := 1 - 1 / c2 with hp
  have hppos : 0 < p := by
    rw [hp]; have : 1 / c2 < 1 := by rw [div_lt_one hc2pos]; exact hc2
    linarith
  have hq : p * (c2 / (c2 - 1)) = 1 := by rw [hp]; field_simp
  have hqpos : 0 < c2 / (c2 - 1) := div_pos hc2pos hc2m
  have hBp : 0 < B ^ p := Real.rpow_pos_of_pos hBpos _
  have hAp : 0 < A ^ p := Real.rpow_pos_of_pos hApos _
  have hBA : B ^ p ≤ A ^ p := Real.rpow_le_rpow hBpos.le hAB hppos.le
  set S := r * A ^ p + (1 - r) * B ^ p with hS
  have hSlo : B ^ p ≤ S := by rw [hS]; nlinarith
  have hShi : S ≤ A ^ p := by rw [hS]; nlinarith
  have hBq : (B ^ p) ^ (c2 / (c2 - 1)) = B := by rw [← Real.rpow_mul hBpos.le, hq, Real.rpow_one]
  have hAq : (A ^ p) ^ (c2 / (c2 - 1)) = A := by rw [← Real.rpow_mul hApos.le, hq, Real.rpow_one]
  have h1 : B ≤ S ^ (c2 / (c2 - 1)) := by
    rw [← hBq]; exact Real.rpow_le_rpow hBp.le hSlo hqpos.le
  have h2 : S ^ (c2 / (c2 - 1)) ≤ A := by
    rw [← hAq]; exact Real.rpow_le_rpow (le_trans hBp.le hSlo) hShi hqpos.le
  constructor <;> linarith

/-- `c1 + c2 L + c3 L² + c4/L` is strictly increasing on `L > 0` as soon as the cubic
`2 c3 g³ + c2 g² − c4` is positive for every `g > 0` (and `c3 ≥ 0`) -/
theorem polyLog_strictMono (c1 c2 c3 c4 : ℝ) (hc3 : 0 ≤ c3)
    (hcubic : ∀ g : ℝ, 0 < g → 0 < 2 * c3 * g ^ 3 + c2 * g ^ 2 - c4)
    (L1 L2 : ℝ) (h1 : 0 < L1) (h12 : L1 < L2) :
    c1 + c2 * L1 + c3 * (L1 * L1) + c4 / L1 < c1 + c2 * L2 + c3 * (L2 * L2) + c4 / L2 := by
  have h2 : 0 < L2 := lt_trans h1 h12
  have hP : 0 < L1 * L2 := mul_pos h1 h2
  set g := Real.sqrt (L1 * L2) with hg
  have hgpos : 0 < g := Real.sqrt_pos.mpr hP
  have hgg : g * g = L1 * L2 := Real.mul_self_sqrt hP.le
  have hsum : 2 * g ≤ L1 + L2 := by
    by_contra hcon
    push Not at hcon
    nlinarith [sq_nonneg (L1 - L2)]
  have hcub := hcubic g hgpos
  have hbr : 0 < c2 * (L1 * L2) + c3 * (L1 + L2) * (L1 * L2) - c4 := by
    have e1 : c2 * g ^ 2 = c2 * (L1 * L2) := by rw [pow_two, hgg]
    have e2 : 2 * c3 * g ^ 3 = c3 * (2 * g) * (L1 * L2) := by rw [pow_succ, pow_two, hgg]; ring
    have e3 : c3 * (2 * g) * (L1 * L2) ≤ c3 * (L1 + L2) * (L1 * L2) := by
      apply mul_le_mul_of_nonneg_right _ hP.le
      exact mul_le_mul_of_nonneg_left hsum hc3
    linarith
  have hdiff : (c1 + c2 * L2 + c3 * (L2 * L2) + c4 / L2) - (c1 + c2 * L1 + c3 * (L1 * L1) + c4 / L1)
      = (L2 - L1) * (c2 * (L1 * L2) + c3 * (L1 + L2) * (L1 * L2) - c4) / (L1 * L2) := by
    field_simp; ring
  have : 0 < (L2 - L1) * (c2 * (L1 * L2) + c3 * (L1 + L2) * (L1 * L2) - c4) / (L1 * L2) :=
    div_pos (mul_pos (by linarith) hbr) hP
  linarith

theorem log10R_lt (E1 E2 : ℝ) (h1 : 0 < E1) (h12 : E1 < E2) : log10R E1 < log10R E2 := by
  unfold log10R; simp only [Rlog]
  have h10 : 0 < Real.log 10 := Real.log_pos (by norm_num)
  exact div_lt_div_of_pos_right (Real.log_lt_log h1 h12) h10

theorem log10R_bounds (E : ℝ) (h1 : (10:ℝ) ^ (3:ℕ) ≤ E) (h2 : E ≤ (10:ℝ) ^ (12:ℕ)) :
    3 ≤ log10R E ∧ log10R E ≤ 12 := by
  unfold log10R; simp only [Rlog]
  have h10 : 0 < Real.log 10 := Real.log_pos (by norm_num)
  have hE : 0 < E := lt_of_lt_of_le (by norm_num) h1
  have ha : Real.log ((10:ℝ) ^ (3:ℕ)) ≤ Real.log E := Real.log_le_log (by norm_num) h1
  have hb : Real.log E ≤ Real.log ((10:ℝ) ^ (12:ℕ)) := Real.log_le_log hE h2
  rw [Real.log_pow] at ha hb
  constructor
  · rw [le_div_iff₀ h10]; push_cast at ha; linarith
  · rw [div_le_iff₀ h10]; push_cast at hb; linarith

end PyrexR
end
