import PyrexVerif.D.Kernel
/-! Helper lemmas for C10: the three nested loops of `EventKernel.event` computed in closed form. Core Lean only. -/
namespace Kern

/-- the solutions the tracer reports for (particle, antenna `i`); none = `[]` -/
def sols (c : Comp) (p : Particle) (i : Nat) : List Path := (c.tracer p i).getD []

def offcone (c : Comp) (p : Particle) (path : Path) : Bool :=
  decide (absR (c.psi p path - c.thetaC p) > c.offconeMax)

/-- what the antenna is handed for one (particle, path) -/
def recvOf (c : Comp) (p : Particle) (path : Path) : Recv :=
  if offcone c p path || !c.sigOk p path then .empty (shift c.times path.tof)
  else .pulse p.id path.id (c.propGrid path c.times)

def passing (c : Comp) (ps : List Particle) : List Particle := ps.filter (fun p => !skip c.weightMin p)

/-- closed form of the bookkeeping of antenna `i` after one event -/
def spec (c : Comp) (ps : List Particle) (i : Nat) : AntAcc :=
  ⟨(passing c ps).flatMap (fun p => (sols c p i).map (recvOf c p)),
   (passing c ps).flatMap (fun p => sols c p i),
   (passing c ps).flatMap (fun p => (sols c p i).map (fun path => (p.id, path.id)))⟩

theorem pathStep_eq (c : Comp) (p : Particle) (a : AntAcc) (x : Path) :
    pathStep c p a x = ⟨a.received ++ [recvOf c p x], a.rayPaths, a.pols ++ [(p.id, x.id)]⟩ := by
  unfold pathStep recvOf offcone
  generalize (decide (absR (c.psi p x - c.thetaC p) > c.offconeMax) || !c.sigOk p x) = b
  cases b <;> simp

theorem pathFold (c : Comp) (p : Particle) (l : List Path) (a : AntAcc) :
    l.foldl (pathStep c p) a =
      ⟨a.received ++ l.map (recvOf c p), a.rayPaths, a.pols ++ l.map (fun path => (p.id, path.id))⟩ := by
  induction l generalizing a with
  | nil => simp
  | cons x r ih =>
    simp only [List.foldl_cons, ih, pathStep_eq]
    simp

theorem antennaStep_eq (c : Comp) (p : Particle) (i : Nat) (a : AntAcc) :
    antennaStep c p i a =
      ⟨a.received ++ (sols c p i).map (recvOf c p), a.rayPaths ++ sols c p i,
       a.pols ++ (sols c p i).map (fun path => (p.id, path.id))⟩ := by
  unfold antennaStep sols
  cases h : c.tracer p i with
  | none => simp
  | some l => simp [pathFold]

/-- the per-antenna view of the particle loop -/
def antFold (c : Comp) (i : Nat) (a : AntAcc) (ps : List Particle) : AntAcc :=
  ps.foldl (fun a p => if skip c.weightMin p then a else antennaStep c p i a) a

theorem antFold_eq (c : Comp) (i : Nat) (ps : List Particle) (a : AntAcc) :
    antFold c i a ps =
      ⟨a.received ++ (spec c ps i).received, a.rayPaths ++ (spec c ps i).rayPaths,
       a.pols ++ (spec c ps i).pols⟩ := by
  induction ps generalizing a with
  | nil => simp [antFold, spec, passing]
  | cons p r ih =>
    unfold antFold at ih ⊢
    simp only [List.foldl_cons]
    by_cases hs : skip c.weightMin p = true
    · simp only [hs, if_true, ih]
      simp [spec, passing, hs]
    · have hs' : skip c.weightMin p = false := by simpa using hs
      simp only [hs', Bool.false_eq_true, if_false]
      rw [ih]
      simp [antennaStep_eq, spec, passing, hs', List.append_assoc]

theorem loops_length (c : Comp) (n : Nat) (ps : List Particle) : (loops c n ps).length = n := by
  have : ∀ accs : List AntAcc, (ps.foldl (particleStep c) accs).length = accs.length := by
    induction ps with
    | nil => intro accs; rfl
    | cons p r ih =>
      intro accs
      simp only [List.foldl_cons, ih]
      unfold particleStep
      split <;> simp
  unfold loops
  rw [this]; simp

theorem loops_get (c : Comp) (n : Nat) (ps : List Particle) (i : Nat) (hi : i < n) :
    (loops c n ps)[i]? = some (spec c ps i) := by
  have key : ∀ (accs : List AntAcc) (a : AntAcc), accs[i]? = some a →
      (ps.foldl (particleStep c) accs)[i]? = some (antFold c i a ps) := by
    induction ps with
    | nil => intro accs a h; exact h
    | cons p r ih =>
      intro accs a h
      simp only [List.foldl_cons]
      have : antFold c i a (p :: r) =
          antFold c i (if skip c.weightMin p then a else antennaStep c p i a) r := rfl
      rw [this]
      apply ih
      unfold particleStep
      split
      · exact h
      · simp [List.getElem?_mapIdx, h]
  have h0 : (List.replicate n AntAcc.empty)[i]? = some AntAcc.empty := by
    simp [hi]
  unfold loops
  rw [key _ _ h0, antFold_eq]
  simp [AntAcc.empty]

/-! ### identity layer -/
theorem alloc_wf (h : Heap) (hw : h.WF) : h.alloc.WF ∧ h.next < h.alloc.next ∧
    (∃ l, h.alloc.ids = h.ids ++ l ∧ ∀ x ∈ l, h.next ≤ x) := by
  obtain ⟨hn, hl⟩ := hw
  refine ⟨⟨?_, ?_⟩, by simp [Heap.alloc], ⟨[h.next], rfl, by simp⟩⟩
  · simp only [Heap.alloc]
    rw [List.nodup_append]
    refine ⟨hn, by simp, ?_⟩
    intro a ha b hb
    simp only [List.mem_singleton] at hb
    subst hb
    exact Nat.ne_of_lt (hl a ha)
  · intro x hx
    simp only [Heap.alloc, List.mem_append, List.mem_singleton] at hx ⊢
    rcases hx with hx | hx
    · exact Nat.lt_succ_of_lt (hl x hx)
    · omega

/-- the relation "h' extends h by objects that are all new": well-formed, later, old ids kept as a prefix -/
def Ext (h h' : Heap) : Prop :=
  h'.WF ∧ h.next ≤ h'.next ∧ ∃ l, h'.ids = h.ids ++ l ∧ ∀ x ∈ l, h.next ≤ x

theorem ext_refl (h : Heap) (hw : h.WF) : Ext h h := ⟨hw, Nat.le_refl _, [], by simp, by simp⟩

theorem ext_alloc (h h' : Heap) (he : Ext h h') : Ext h h'.alloc := by
  obtain ⟨hw, hle, l, hl, hge⟩ := he
  obtain ⟨hw', hlt, l', hl', hge'⟩ := alloc_wf h' hw
  refine ⟨hw', by omega, l ++ l', by rw [hl', hl, List.append_assoc], ?_⟩
  intro x hx
  rcases List.mem_append.1 hx with hx | hx
  · exact hge x hx
  · have := hge' x hx; omega

theorem ext_allocN (n : Nat) (h h' : Heap) (he : Ext h h') : Ext h (allocN n h') := by
  induction n generalizing h' with
  | zero => exact he
  | succ n ih => exact ih _ (ext_alloc h h' he)

theorem ext_paths (cuts : List Bool) (h h' : Heap) (he : Ext h h') :
    Ext h (cuts.foldl allocPath h') := by
  induction cuts generalizing h' with
  | nil => exact he
  | cons c r ih =>
    apply ih
    unfold allocPath
    split
    · exact ext_alloc h _ (ext_alloc h h' he)
    · exact ext_alloc h h' he


end Kern
