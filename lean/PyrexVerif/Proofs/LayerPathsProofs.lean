import PyrexVerif.D.LayerPaths
/-! Soundness and completeness of the `_build_path` enumeration against the acceptance test `isBounce`. -/
namespace PyrexD.LayerPaths

theorem isBounce_single (M l : Nat) (d : Bool) (r : Nat) :
    isBounce M [l] d r = (atEdge M l d && r == 0 && decide (l ≤ M)) := by
  simp [isBounce]

theorem isBounce_cons2 (M l l' : Nat) (rest : List Nat) (d : Bool) (r : Nat) :
    isBounce M (l :: l' :: rest) d r =
      (decide (l ≤ M) &&
        ((l' == l && decide (0 < r) && isBounce M (l' :: rest) (!d) (r - 1)) ||
         (!atEdge M l d && l' == nextLevel l d && isBounce M (l' :: rest) d r))) := by
  simp [isBounce]

/-- the enumeration produces exactly the walks accepted by `isBounce` -/
theorem mem_buildPath (M : Nat) : ∀ (pre : List Nat) (l : Nat) (d : Bool) (r : Nat) (p : List Nat),
    p ∈ buildPath M pre l d r ↔ ∃ w, p = pre ++ l :: w ∧ isBounce M (l :: w) d r = true := by
  intro pre l d r
  induction pre, l, d, r using buildPath.induct M with
  | case1 pre l d r hgt =>
    intro p
    rw [buildPath.eq_def]; simp only [hgt, if_true, List.not_mem_nil, false_iff]
    rintro ⟨w, _, hw⟩
    have hle : ¬ l ≤ M := by omega
    cases w with
    | nil => simp [isBounce_single, hle] at hw
    | cons l' rest => simp [isBounce_cons2, hle] at hw
  | case2 pre l d hgt hedge =>
    intro p
    have hle : l ≤ M := by omega
    rw [buildPath.eq_def]; simp only [hgt, if_false, hedge, if_true, List.mem_singleton]
    constructor
    · intro hp; exact ⟨[], hp, by simp [isBounce_single, hedge, hle]⟩
    · rintro ⟨w, hp, hw⟩
      cases w with
      | nil => exact hp
      | cons l' rest => simp [isBounce_cons2, hedge] at hw
  | case3 pre l d hgt hedge r ih =>
    intro p
    have hle : l ≤ M := by omega
    rw [buildPath.eq_def]; simp only [hgt, if_false, hedge, if_true]
    rw [ih p]
    constructor
    · rintro ⟨w', hp, hw'⟩
      refine ⟨l :: w', by simp [hp], ?_⟩
      simp [isBounce_cons2, hle, hw']
    · rintro ⟨w, hp, hw⟩
      cases w with
      | nil => simp [isBounce_single] at hw
      | cons l' rest =>
        simp only [isBounce_cons2, hedge, Bool.not_true, Bool.false_and, Bool.or_false, Bool.and_eq_true,
          decide_eq_true_eq, beq_iff_eq] at hw
        obtain ⟨_, ⟨hl', _⟩, hb⟩ := hw
        subst hl'
        exact ⟨rest, by simp [hp], hb⟩
  | case4 pre l d hgt hedge ih =>
    intro p
    have hle : l ≤ M := by omega
    have hedge' : atEdge M l d = false := by simpa using hedge
    rw [buildPath.eq_def]; simp only [hgt, if_false, hedge', Bool.false_eq_true]
    rw [ih p]
    constructor
    · rintro ⟨w', hp, hw'⟩
      refine ⟨nextLevel l d :: w', by simp [hp], ?_⟩
      simp [isBounce_cons2, hle, hedge', hw']
    · rintro ⟨w, hp, hw⟩
      cases w with
      | nil => simp [isBounce_single, hedge'] at hw
      | cons l' rest =>
        simp only [isBounce_cons2, hedge', Bool.not_false, Bool.true_and, Bool.and_eq_true, Bool.or_eq_true,
          decide_eq_true_eq, beq_iff_eq, Nat.lt_irrefl, false_and, and_false, false_or] at hw
        obtain ⟨_, hl', hb⟩ := hw
        subst hl'
        exact ⟨rest, by simp [hp], hb⟩
  | case5 pre l d hgt hedge r ih1 ih2 =>
    intro p
    have hle : l ≤ M := by omega
    have hedge' : atEdge M l d = false := by simpa using hedge
    rw [buildPath.eq_def]; simp only [hgt, if_false, hedge', Bool.false_eq_true, List.mem_append]
    rw [ih1 p, ih2 p]
    constructor
    · rintro (⟨w', hp, hw'⟩ | ⟨w', hp, hw'⟩)
      · refine ⟨nextLevel l d :: w', by simp [hp], ?_⟩
        simp [isBounce_cons2, hle, hedge', hw']
      · refine ⟨l :: w', by simp [hp], ?_⟩
        simp [isBounce_cons2, hle, hw']
    · rintro ⟨w, hp, hw⟩
      cases w with
      | nil => simp [isBounce_single, hedge'] at hw
      | cons l' rest =>
        simp only [isBounce_cons2, hedge', Bool.not_false, Bool.true_and, Bool.and_eq_true, Bool.or_eq_true,
          decide_eq_true_eq, beq_iff_eq] at hw
        obtain ⟨_, (⟨⟨hl', _⟩, hb⟩ | ⟨hl', hb⟩)⟩ := hw
        · subst hl'; exact Or.inr ⟨rest, by simp [hp], hb⟩
        · subst hl'; exact Or.inl ⟨rest, by simp [hp], hb⟩

/-- accepted walks stay inside the stack, move at most one layer per step, and repeat a level exactly `r` times -/
theorem isBounce_valid (M : Nat) : ∀ (w : List Nat) (d : Bool) (r : Nat), isBounce M w d r = true →
    stepsOK w = true ∧ (∀ x ∈ w, x ≤ M) ∧ repeats w = r := by
  intro w
  induction w with
  | nil => intro d r h; simp [isBounce] at h
  | cons l rest ih =>
    intro d r h
    cases rest with
    | nil =>
      simp only [isBounce_single, Bool.and_eq_true, beq_iff_eq, decide_eq_true_eq] at h
      obtain ⟨⟨_, hr⟩, hle⟩ := h
      simp [stepsOK, repeats, hle, hr]
    | cons l' rest' =>
      simp only [isBounce_cons2, Bool.and_eq_true, Bool.or_eq_true, decide_eq_true_eq, beq_iff_eq] at h
      obtain ⟨hle, (⟨⟨hl', hr⟩, hb⟩ | ⟨⟨hne, hl'⟩, hb⟩)⟩ := h
      · obtain ⟨i1, i2, i3⟩ := ih (!d) (r - 1) hb
        subst hl'
        refine ⟨by simp [stepsOK, i1], ?_, ?_⟩
        · intro x hx
          rcases List.mem_cons.mp hx with rfl | hx
          · exact hle
          · exact i2 x hx
        · simp only [repeats, beq_self_eq_true, if_true, i3]; omega
      · obtain ⟨i1, i2, i3⟩ := ih d r hb
        have hedge : atEdge M l d = false := by simpa using hne
        have hstep : (l == l' || l + 1 == l' || l' + 1 == l) = true ∧ (l == l') = false := by
          subst hl'
          unfold nextLevel
          cases d
          · have : l ≠ 0 := by
              intro h0; subst h0; simp [atEdge] at hedge
            simp only [Bool.false_eq_true, if_false]
            constructor
            · simp; omega
            · simp; omega
          · simp only [if_true]
            constructor
            · simp
            · simp
        refine ⟨by simp [stepsOK, hstep.1, i1], ?_, ?_⟩
        · intro x hx
          rcases List.mem_cons.mp hx with rfl | hx
          · exact hle
          · exact i2 x hx
        · simp [repeats, hstep.2, i3]

end PyrexD.LayerPaths
