import PyrexVerif.D.Lazy
set_option linter.unusedVariables false
set_option linter.unusedSimpArgs false
/-! Generic lemmas of the lazy-cache model (C06). -/
namespace Lazy

variable {compute : Name → (Name → Val) → Val}

@[simp] theorem step_static (o : Obj) (s : Step) : (step compute o s).static = o.static := by
  cases s <;> rfl

@[simp] theorem run_static (o : Obj) (m : List Step) : (run compute o m).static = o.static := by
  induction m generalizing o with
  | nil => rfl
  | cons s m ih => simp [run, List.foldl_cons] at ih ⊢; rw [ih]; simp

theorem coherent_of_empty {o : Obj} (h : CacheEmpty o) : Coherent compute o := by
  intro p v hp; rw [h p] at hp; cases hp

theorem assign_static_coherent (o : Obj) (n : Name) (v : Val) (hn : n ∈ o.static) :
    Coherent compute (step compute o (.assign n v)) ∧ CacheEmpty (step compute o (.assign n v)) := by
  have : CacheEmpty (step compute o (.assign n v)) := by intro p; simp [step, hn]
  exact ⟨coherent_of_empty this, this⟩

theorem clear_coherent (o : Obj) :
    Coherent compute (step compute o .clear) ∧ CacheEmpty (step compute o .clear) := by
  have : CacheEmpty (step compute o .clear) := by intro p; simp [step]
  exact ⟨coherent_of_empty this, this⟩

theorem read_coherent (o : Obj) (p : Name) (h : Coherent compute o) :
    Coherent compute (step compute o (.read p)) := by
  intro q v hq
  simp only [step] at hq ⊢
  split at hq
  · rename_i hqp; subst hqp
    cases hc : o.cache q with
    | none => simp [hc] at hq; exact hq.symm
    | some w => simp [hc] at hq; subst hq; exact h q w hc
  · exact h q v hq

/-- the value read is the fresh value -/
theorem read_value (o : Obj) (p : Name) (h : Coherent compute o) :
    (step compute o (.read p)).cache p = some (compute p o.attrs) := by
  simp only [step, if_true]
  cases hc : o.cache p with
  | none => rfl
  | some w => simp [h p w hc]

theorem respects_upd {deps : List Name} (hr : Respects compute deps) {n : Name} (hn : deps.contains n = false)
    (a : Name → Val) (v : Val) (p : Name) : compute p (upd a n v) = compute p a := by
  apply hr
  intro m hm
  simp only [upd]
  split
  · rename_i h; subst h
    have : deps.contains m = true := by simpa using hm
    rw [this] at hn; cases hn
  · rfl

/-- a method that passes the safety check preserves coherence (and "known empty" is sound) -/
theorem safe_preserves {deps : List Name} (hr : Respects compute deps) :
    ∀ (m : List Step) (e : Bool) (o : Obj), safe o.static deps e (m.map Step.eff) = true →
      (e = true → CacheEmpty o) → Coherent compute o → Coherent compute (run compute o m) := by
  intro m
  induction m with
  | nil => intro e o _ _ hc; exact hc
  | cons s m ih =>
    intro e o hs he hc
    simp only [run, List.foldl_cons]
    cases s with
    | assign n v =>
      simp only [List.map_cons, Step.eff, safe] at hs
      by_cases hn : n ∈ o.static
      · simp only [hn, if_true] at hs
        have := assign_static_coherent (compute := compute) o n v hn
        exact ih true _ (by simpa using hs) (fun _ => this.2) this.1
      · simp only [hn, if_false, Bool.and_eq_true, Bool.or_eq_true, Bool.not_eq_true'] at hs
        refine ih e _ (by simpa using hs.2) ?_ ?_
        · intro he'; intro p; simp [step, hn]; exact he he' p
        · rcases hs.1 with he' | hdep
          · exact coherent_of_empty (fun p => by simp [step, hn]; exact he he' p)
          · intro p w hp
            simp only [step, hn, if_false] at hp ⊢
            rw [respects_upd hr hdep]; exact hc p w hp
    | mutate n f =>
      simp only [List.map_cons, Step.eff, safe, Bool.and_eq_true, Bool.or_eq_true, Bool.not_eq_true'] at hs
      refine ih e _ (by simpa using hs.2) ?_ ?_
      · intro he'; intro p; simp [step]; exact he he' p
      · rcases hs.1 with he' | hdep
        · exact coherent_of_empty (fun p => by simp [step]; exact he he' p)
        · intro p w hp
          simp only [step] at hp ⊢
          rw [respects_upd hr hdep]; exact hc p w hp
    | clear =>
      simp only [List.map_cons, Step.eff, safe] at hs
      have := clear_coherent (compute := compute) o
      exact ih true _ (by simpa using hs) (fun _ => this.2) this.1
    | read p =>
      simp only [List.map_cons, Step.eff, safe] at hs
      exact ih false _ (by simpa using hs) (fun h => by cases h) (read_coherent o p hc)

/-- assigning a public attribute: either it clears, or no lazy property depends on it -/
theorem assign_public_coherent {deps : List Name} (hr : Respects compute deps) (o : Obj) (n : Name) (v : Val)
    (hd : ∀ d ∈ deps, d ∈ o.static ∨ isPrivate d = true) (hpub : isPrivate n = false)
    (hc : Coherent compute o) : Coherent compute (step compute o (.assign n v)) := by
  by_cases hn : n ∈ o.static
  · exact (assign_static_coherent o n v hn).1
  · have hdep : deps.contains n = false := by
      cases hcn : deps.contains n with
      | false => rfl
      | true =>
        have : n ∈ deps := by simpa using hcn
        rcases hd n this with h | h
        · exact absurd h hn
        · rw [hpub] at h; cases h
    intro p w hp
    simp only [step, hn, if_false] at hp ⊢
    rw [respects_upd hr hdep]; exact hc p w hp

/-- coherence along any admissible public history -/
theorem history_coherent {deps : List Name} (hr : Respects compute deps) (ms : List Method) (clearing : List Name)
    (hsafe : ∀ e ∈ ms, safe clearing deps e.fresh e.effs = true)
    (hd : ∀ d ∈ deps, d ∈ clearing ∨ isPrivate d = true) :
    ∀ (hist : List Action) (o : Obj), o.static = clearing → (∀ a ∈ hist, Admissible ms a) →
      Coherent compute o → Coherent compute (hist.foldl (act compute) o) := by
  intro hist
  induction hist with
  | nil => intro o _ _ hc; exact hc
  | cons a hist ih =>
    intro o hst hadm hc
    simp only [List.foldl_cons]
    have ha := hadm a (by simp)
    have hrest : ∀ b ∈ hist, Admissible ms b := fun b hb => hadm b (by simp [hb])
    cases a with
    | call m =>
      obtain ⟨e, hem, hfresh, heff⟩ := ha
      refine ih _ (by simp [act, hst]) hrest ?_
      have := hsafe e hem
      rw [hfresh, ← heff, ← hst] at this
      exact safe_preserves hr m false o this (fun h => by cases h) hc
    | assignPublic n v =>
      refine ih _ (by simp [act, hst]) hrest ?_
      exact assign_public_coherent hr o n v (by rw [hst]; exact hd) ha hc
    | read p =>
      exact ih _ (by simp [act, hst]) hrest (read_coherent o p hc)

/-! ## in-place mutation without a clear loses coherence -/
def demoCompute : Name → (Name → Val) → Val := fun _ a => a "_buffers"
def demoObj : Obj := ⟨fun _ => 0, fun _ => none, ["_buffers"]⟩

theorem mutate_breaks_demo :
    Coherent demoCompute (run demoCompute demoObj [.read "values"]) ∧
    ¬ Coherent demoCompute (run demoCompute demoObj [.read "values", .mutate "_buffers" (· + 1)]) := by
  constructor
  · exact read_coherent _ _ (coherent_of_empty (fun _ => rfl))
  · intro h
    have := h "values" 0 (by simp [run, step, demoObj, demoCompute])
    simp [run, step, demoObj, demoCompute, upd] at this

/-! ## augmented assignment and "assign the same object back"

`obj.x += d` on an ndarray attribute mutates the array in place and then calls `__setattr__` with
the very same object; `p = obj.x; p[2] = z; obj.x = p` does the same in two statements.  In the
model this is `mutate x f` followed by `assign x v` where `v` is the (already mutated) current value.
`__setattr__` clears on the *name*, not on the value, so the pair behaves exactly like one
assignment. -/

/-- the in-place mutation followed by the assignment of a clearing attribute is the assignment -/
theorem mutate_assign_eq_assign (o : Obj) (n : Name) (f : Val → Val) (v : Val) (hn : n ∈ o.static) :
    step compute (step compute o (.mutate n f)) (.assign n v) = step compute o (.assign n v) := by
  cases o with
  | mk attrs cache static =>
    simp only [step, hn, if_true]
    congr 1
    funext m
    simp only [upd]
    split <;> rfl

/-- assigning the value the attribute already holds still clears the cache -/
theorem assign_same_value_clears (o : Obj) (n : Name) (hn : n ∈ o.static) :
    CacheEmpty (step compute o (.assign n (o.attrs n))) := by
  intro p; simp [step, hn]

/-- the variant of `__setattr__` that keeps the cache when the assigned value is the one the
attribute already holds (the "same object, nothing changed" short-cut) -/
def stepShortcut (compute : Name → (Name → Val) → Val) (o : Obj) : Step → Obj
  | .assign n v => { o with attrs := upd o.attrs n v,
                            cache := if n ∈ o.static ∧ o.attrs n ≠ v then fun _ => none else o.cache }
  | s => step compute o s

/-- … is not coherent: read, mutate in place, hand the same (mutated) value back, and the cached
value is stale, while the real `__setattr__` leaves an empty cache -/
theorem identity_shortcut_breaks :
    let o1 := step demoCompute (step demoCompute demoObj (.read "values")) (.mutate "_buffers" (· + 1))
    ¬ Coherent demoCompute (stepShortcut demoCompute o1 (.assign "_buffers" (o1.attrs "_buffers"))) ∧
    Coherent demoCompute (step demoCompute o1 (.assign "_buffers" (o1.attrs "_buffers"))) := by
  constructor
  · intro h
    have := h "values" 0 (by simp [stepShortcut, step, demoObj, demoCompute, upd])
    simp [stepShortcut, step, demoObj, demoCompute, upd] at this
  · exact (assign_static_coherent _ _ _ (by simp [step, demoObj])).1

/-! ## methods that stop early (exception, early return) -/

/-- the safety check is closed under prefixes: a method that raises or returns after some of its
effects has performed a prefix of the extracted list -/
theorem safe_take (clearing deps : List Name) :
    ∀ (l : List Eff) (e : Bool) (k : Nat), safe clearing deps e l = true → safe clearing deps e (l.take k) = true := by
  intro l
  induction l with
  | nil => intro e k h; simp [safe]
  | cons x xs ih =>
    intro e k h
    cases k with
    | zero => simp [safe]
    | succ k =>
      simp only [List.take_succ_cons]
      cases x with
      | assign n =>
        simp only [safe] at h ⊢
        split
        · rename_i hn; simp only [hn, if_true] at h; exact ih true k h
        · rename_i hn
          simp only [hn, if_false, Bool.and_eq_true] at h ⊢
          exact ⟨h.1, ih e k h.2⟩
      | mutate n =>
        simp only [safe, Bool.and_eq_true] at h ⊢
        exact ⟨h.1, ih e k h.2⟩
      | clear => simp only [safe] at h ⊢; exact ih true k h
      | read p => simp only [safe] at h ⊢; exact ih false k h

/-! ## two live handles sharing one attribute object

A ray path stores the very array object its tracer holds (`path.from_point is tracer.from_point`).
`tracer.from_point += d` mutates that array in place and then goes through the TRACER's
`__setattr__` only: the tracer's cache is cleared, the path's is not, although the path's
attribute changed as well. -/

/-- in-place mutation of an attribute object shared by two handles, followed by the assignment on
the first handle only -/
def sharedAugAssign (compute : Name → (Name → Val) → Val) (a b : Obj) (n : Name) (f : Val → Val) : Obj × Obj :=
  (step compute (step compute a (.mutate n f)) (.assign n (f (a.attrs n))), step compute b (.mutate n f))

theorem shared_attribute_breaks :
    let a := step demoCompute demoObj (.read "values")
    let b := step demoCompute demoObj (.read "values")
    Coherent demoCompute a ∧ Coherent demoCompute b ∧
    Coherent demoCompute (sharedAugAssign demoCompute a b "_buffers" (· + 1)).1 ∧
    ¬ Coherent demoCompute (sharedAugAssign demoCompute a b "_buffers" (· + 1)).2 := by
  refine ⟨read_coherent _ _ (coherent_of_empty (fun _ => rfl)), read_coherent _ _ (coherent_of_empty (fun _ => rfl)), ?_, ?_⟩
  · exact (assign_static_coherent _ _ _ (by simp [step, demoObj])).1
  · intro h
    have := h "values" 0 (by simp [sharedAugAssign, step, demoObj, demoCompute])
    simp [sharedAugAssign, step, demoObj, demoCompute, upd] at this

/-! ## a lazy read whose evaluation raises

`lazy_property` evaluates `fn(self)` BEFORE it stores anything (`setattr(self, attr_name, fn(self))`):
when `fn` raises, no `_lazy_<name>` entry is created; lazy properties that were evaluated on the way
have been stored by their own (successful) reads.  In the model a failing read is therefore a
sequence of successful reads of other properties followed by no effect at all. -/

/-- the effect of a read of `p` whose evaluation raises after having read the lazy properties `qs` -/
def failedRead (compute : Name → (Name → Val) → Val) (o : Obj) (qs : List Name) : Obj :=
  qs.foldl (fun o q => step compute o (.read q)) o

theorem failedRead_coherent (o : Obj) (qs : List Name) (h : Coherent compute o) :
    Coherent compute (failedRead compute o qs) := by
  induction qs generalizing o with
  | nil => exact h
  | cons q qs ih => exact ih _ (read_coherent o q h)

theorem failedRead_nil (o : Obj) : failedRead compute o [] = o := rfl

/-- the variant that reserves the cache slot before evaluating (a "being evaluated" marker, here the
value −1 that no evaluation returns) and leaves it behind when the evaluation raises -/
def failedReadMarker (o : Obj) (p : Name) : Obj :=
  { o with cache := fun q => if q = p then some (-1) else o.cache q }

theorem failedReadMarker_breaks :
    Coherent demoCompute demoObj ∧ ¬ Coherent demoCompute (failedReadMarker demoObj "values") := by
  refine ⟨coherent_of_empty (fun _ => rfl), ?_⟩
  intro h
  have := h "values" (-1) (by simp [failedReadMarker])
  simp [failedReadMarker, demoObj, demoCompute] at this

end Lazy
