import PyrexVerif.R.Noise
import Mathlib.Tactic.LinearCombination
import Mathlib.Tactic.Ring
import Mathlib.Tactic.FieldSimp
import Mathlib.Tactic.Linarith
import Mathlib.Tactic.Positivity
import Mathlib.Algebra.BigOperators.Group.List.Basic
import Mathlib.Algebra.BigOperators.Group.Finset.Basic
import Mathlib.Algebra.BigOperators.Fin
import Mathlib.Analysis.SpecialFunctions.Sqrt
import Mathlib.Analysis.SpecialFunctions.Trigonometric.Basic
/-! Helper lemmas for C17: list sums, the one-sided expansion of the inverse real FFT over the
in-band bins, band membership. -/
namespace PyrexR.Nz
theorem nsum_eq_sum (xs : List ℝ) : nsum xs = xs.sum := by
  unfold nsum; exact (List.sum_eq_foldl).symm

theorem getD_of_lt {α : Type} (l : List α) (i : Nat) (d : α) (h : i < l.length) : l.getD i d = l[i] := by
  simp [List.getD_eq_getElem?_getD, List.getElem?_eq_getElem h]

theorem nsum_nil : nsum [] = 0 := rfl
theorem nsum_cons (x : ℝ) (xs : List ℝ) : nsum (x :: xs) = x + nsum xs := by
  simp [nsum_eq_sum]

/-- indices of the `true` entries of a mask whose first entry has index `k` -/
def bandIdxFrom : Nat → List Bool → List Nat
  | _, [] => []
  | k, true :: m => k :: bandIdxFrom (k + 1) m
  | k, false :: m => bandIdxFrom (k + 1) m

/-- `w_k·A·cos(2π·j·k/n − φ)` over the in-band bins -/
noncomputable def bandTerms (n j : Nat) : List Nat → List ℝ → List ℝ → List ℝ
  | k :: ks, a :: as, p :: ps =>
    irfftWeight n k * (a * Real.cos (2 * Real.pi * ((j * k : Nat) : ℝ) / (n : ℝ) - p)) :: bandTerms n j ks as ps
  | _, _, _ => []

def countTrue : List Bool → Nat
  | [] => 0
  | true :: m => countTrue m + 1
  | false :: m => countTrue m

theorem scatter_length (m : List Bool) (vs : List ℝ) : (scatter m vs).length = m.length := by
  induction m generalizing vs with
  | nil => rfl
  | cons b m ih =>
    cases b <;> cases vs <;> simp [scatter, ih]

/-- the inverse-real-FFT terms over the scattered spectrum are the in-band terms -/
theorem irfftTerms_scatter (n j : Nat) (m : List Bool) (k : Nat) (as ps : List ℝ)
    (ha : as.length = countTrue m) (hp : ps.length = countTrue m) :
    nsum (irfftTerms n j k
        (List.zipWith (fun a p => a * Rcos p) (scatter m as) (scatter m ps))
        (List.zipWith (fun a p => a * (-Rsin p)) (scatter m as) (scatter m ps)))
      = nsum (bandTerms n j (bandIdxFrom k m) as ps) := by
  induction m generalizing k as ps with
  | nil => simp [scatter, irfftTerms, bandIdxFrom, bandTerms]
  | cons b m ih =>
    cases b with
    | false =>
      simp only [scatter, List.zipWith_cons_cons, irfftTerms, bandIdxFrom, nsum_cons]
      rw [ih (k + 1) as ps (by simpa [countTrue] using ha) (by simpa [countTrue] using hp)]
      simp
    | true =>
      cases as with
      | nil => simp [countTrue] at ha
      | cons a as =>
        cases ps with
        | nil => simp [countTrue] at hp
        | cons p ps =>
          simp only [scatter, List.zipWith_cons_cons, irfftTerms, bandIdxFrom, bandTerms, nsum_cons]
          rw [ih (k + 1) as ps (by simpa [countTrue] using ha) (by simpa [countTrue] using hp)]
          congr 1
          simp only [Rcos, Rsin, Rpi, RofNat, Real.cos_sub]
          ring


theorem selectMask_map_range' (g : Nat → ℝ) (m : List Bool) (k : Nat) :
    selectMask m ((List.range' k m.length).map g) = (bandIdxFrom k m).map g := by
  induction m generalizing k with
  | nil => simp [selectMask, bandIdxFrom]
  | cons b m ih =>
    cases b <;> simp [List.range'_succ, selectMask, bandIdxFrom, ih]

theorem bandIdxFrom_length (m : List Bool) (k : Nat) : (bandIdxFrom k m).length = countTrue m := by
  induction m generalizing k with
  | nil => rfl
  | cons b m ih => cases b <;> simp [bandIdxFrom, countTrue, ih]

theorem bandIdxFrom_mem (m : List Bool) (k i : Nat) (h : i ∈ bandIdxFrom k m) :
    k ≤ i ∧ i < k + m.length ∧ m[i - k]? = some true := by
  induction m generalizing k with
  | nil => simp [bandIdxFrom] at h
  | cons b m ih =>
    cases b with
    | false =>
      simp only [bandIdxFrom] at h
      obtain ⟨h1, h2, h3⟩ := ih (k + 1) h
      refine ⟨by omega, by simp; omega, ?_⟩
      have : i - k = (i - (k + 1)) + 1 := by omega
      rw [this]; simpa using h3
    | true =>
      simp only [bandIdxFrom, List.mem_cons] at h
      rcases h with rfl | h
      · simp
      · obtain ⟨h1, h2, h3⟩ := ih (k + 1) h
        refine ⟨by omega, by simp; omega, ?_⟩
        have : i - k = (i - (k + 1)) + 1 := by omega
        rw [this]; simpa using h3

/-- the frequency of bin `k` -/
noncomputable def binFreq (n : Nat) (dt : ℝ) (k : Nat) : ℝ := (k : ℝ) * (1 / ((n : ℝ) * dt))

theorem rfftfreq_eq (n : Nat) (dt : ℝ) :
    rfftfreq n dt = (List.range' 0 (n / 2 + 1)).map (binFreq n dt) := by
  simp [rfftfreq, binFreq, List.range_eq_range']

theorem two_sqrt_half (x : ℝ) : 2 * Real.sqrt (1 / (2 * x)) = Real.sqrt (2 / x) := by
  have h4 : Real.sqrt 4 = 2 := by
    rw [show (4 : ℝ) = 2 * 2 by norm_num]; exact Real.sqrt_mul_self (by norm_num)
  have : (2 : ℝ) / x = 4 * (1 / (2 * x)) := by
    by_cases hx : x = 0
    · simp [hx]
    · field_simp; ring
  rw [this, Real.sqrt_mul (by norm_num), h4]

/-- with weight 2 on every listed bin, the in-band terms are twice the cosine terms of the
published basis at `t = j·dt` (sign convention `−φ`) -/
theorem bandTerms_interior (n j : Nat) (dt : ℝ) (hn : (n : ℝ) ≠ 0) (hdt : dt ≠ 0)
    (ks : List Nat) (as ps : List ℝ) (hw : ∀ k ∈ ks, 0 < k ∧ 2 * k ≠ n) :
    bandTerms n j ks as ps
      = (cosTerms (-1) ((j : ℝ) * dt) (ks.map (binFreq n dt)) as ps).map (fun x => 2 * x) := by
  induction ks generalizing as ps with
  | nil => simp [bandTerms, cosTerms]
  | cons k ks ih =>
    cases as with
    | nil => simp [bandTerms, cosTerms]
    | cons a as =>
      cases ps with
      | nil => simp [bandTerms, cosTerms]
      | cons p ps =>
        have hk := hw k (by simp)
        have hwk : irfftWeight n k = 2 := by
          unfold irfftWeight
          have : ¬ (k = 0 ∨ 2 * k = n) := by omega
          simp [this]
        simp only [bandTerms, List.map_cons, cosTerms, hwk]
        rw [ih as ps (fun k' hk' => hw k' (by simp [hk']))]
        congr 2
        simp only [Rcos, Rpi, binFreq]
        congr 2
        push_cast
        field_simp
        ring


theorem nsum_append_singleton (l : List ℝ) (x : ℝ) : nsum (l ++ [x]) = nsum l + x := by
  simp [nsum_eq_sum]

theorem nsum_map_mul (c : ℝ) (l : List ℝ) : nsum (l.map (fun x => c * x)) = c * nsum l := by
  simp only [nsum_eq_sum]
  induction l with
  | nil => simp
  | cons a l ih => simp [ih, mul_add]

/-- the cosine terms as an indexed finite sum -/
theorem nsum_cosTerms (sgn t : ℝ) (fs as ps : List ℝ) (ha : as.length = fs.length)
    (hp : ps.length = fs.length) :
    nsum (cosTerms sgn t fs as ps)
      = ∑ i ∈ Finset.range fs.length,
          as.getD i 0 * Real.cos (2 * Real.pi * fs.getD i 0 * t + sgn * ps.getD i 0) := by
  induction fs generalizing as ps with
  | nil => simp [cosTerms, nsum_nil]
  | cons f fs ih =>
    cases as with
    | nil => simp at ha
    | cons a as =>
      cases ps with
      | nil => simp at hp
      | cons p ps =>
        simp only [cosTerms, nsum_cons, List.length_cons, Finset.sum_range_succ']
        rw [ih as ps (by simpa using ha) (by simpa using hp)]
        simp [Rcos, Rpi, add_comm]

/-- the in-band terms as an indexed finite sum -/
theorem nsum_bandTerms (n j : Nat) (ks : List Nat) (as ps : List ℝ) (ha : as.length = ks.length)
    (hp : ps.length = ks.length) :
    nsum (bandTerms n j ks as ps)
      = ∑ i ∈ Finset.range ks.length, irfftWeight n (ks.getD i 0)
          * (as.getD i 0 * Real.cos (2 * Real.pi * ((j * ks.getD i 0 : Nat) : ℝ) / (n : ℝ) - ps.getD i 0)) := by
  induction ks generalizing as ps with
  | nil => simp [bandTerms, nsum_nil]
  | cons k ks ih =>
    cases as with
    | nil => simp at ha
    | cons a as =>
      cases ps with
      | nil => simp at hp
      | cons p ps =>
        simp only [bandTerms, nsum_cons, List.length_cons, Finset.sum_range_succ']
        rw [ih as ps (by simpa using ha) (by simpa using hp)]
        simp [add_comm]

theorem bandTerms_append (n j : Nat) (ks : List Nat) (as ps : List ℝ) (k : Nat) (a p : ℝ)
    (ha : as.length = ks.length) (hp : ps.length = ks.length) :
    bandTerms n j (ks ++ [k]) (as ++ [a]) (ps ++ [p])
      = bandTerms n j ks as ps
        ++ [irfftWeight n k * (a * Real.cos (2 * Real.pi * ((j * k : Nat) : ℝ) / (n : ℝ) - p))] := by
  induction ks generalizing as ps with
  | nil =>
    cases as with
    | nil => cases ps with
      | nil => simp [bandTerms]
      | cons _ _ => simp at hp
    | cons _ _ => simp at ha
  | cons k0 ks ih =>
    cases as with
    | nil => simp at ha
    | cons a0 as =>
      cases ps with
      | nil => simp at hp
      | cons p0 ps =>
        simp only [List.cons_append, bandTerms]
        rw [ih as ps (by simpa using ha) (by simpa using hp)]

theorem cosTerms_append (sgn t : ℝ) (fs as ps : List ℝ) (f a p : ℝ)
    (ha : as.length = fs.length) (hp : ps.length = fs.length) :
    cosTerms sgn t (fs ++ [f]) (as ++ [a]) (ps ++ [p])
      = cosTerms sgn t fs as ps ++ [a * Real.cos (2 * Real.pi * f * t + sgn * p)] := by
  induction fs generalizing as ps with
  | nil =>
    cases as with
    | nil => cases ps with
      | nil => simp [cosTerms, Rcos, Rpi]
      | cons _ _ => simp at hp
    | cons _ _ => simp at ha
  | cons f0 fs ih =>
    cases as with
    | nil => simp at ha
    | cons a0 as =>
      cases ps with
      | nil => simp at hp
      | cons p0 ps =>
        simp only [List.cons_append, cosTerms]
        rw [ih as ps (by simpa using ha) (by simpa using hp)]

theorem bandIdxFrom_sorted (m : List Bool) (k : Nat) : (bandIdxFrom k m).Pairwise (· < ·) := by
  induction m generalizing k with
  | nil => exact List.Pairwise.nil
  | cons b m ih =>
    cases b with
    | false => exact ih (k + 1)
    | true =>
      simp only [bandIdxFrom]
      refine List.Pairwise.cons ?_ (ih (k + 1))
      intro i hi
      have := (bandIdxFrom_mem m (k + 1) i hi).1
      omega

theorem selectMask_length_map (g : Nat → ℝ) (m : List Bool) (k : Nat) :
    (selectMask m ((List.range' k m.length).map g)).length = countTrue m := by
  rw [selectMask_map_range', List.length_map, bandIdxFrom_length]

/-- what the constructor guarantees about a basis: the published frequencies are the in-band bins,
one amplitude and one phase per frequency -/
structure FFTNoise.WellFormed (N : FFTNoise) : Prop where
  freqs_eq : N.basis.freqs = selectMask N.mask (rfftfreq N.nAll N.dt)
  amps_len : N.basis.amps.length = N.basis.freqs.length
  phases_len : N.basis.phases.length = N.basis.freqs.length

theorem FFTNoise.mask_length (N : FFTNoise) : N.mask.length = N.nAll / 2 + 1 := by
  simp [FFTNoise.mask, bandMask, rfftfreq]

theorem FFTNoise.WellFormed.freqs_map {N : FFTNoise} (h : N.WellFormed) :
    N.basis.freqs = (bandIdxFrom 0 N.mask).map (binFreq N.nAll N.dt) := by
  rw [h.freqs_eq, rfftfreq_eq, ← N.mask_length, selectMask_map_range']

theorem FFTNoise.WellFormed.freqs_len {N : FFTNoise} (h : N.WellFormed) :
    N.basis.freqs.length = countTrue N.mask := by
  rw [h.freqs_map, List.length_map, bandIdxFrom_length]

/-- one-sided expansion of the normalised inverse real FFT over the in-band bins -/
theorem FFTNoise.gridValue_expansion (N : FFTNoise) (h : N.WellFormed) (hn : 0 < N.nAll) (j : Nat) :
    N.gridValue j = nsum (bandTerms N.nAll j (bandIdxFrom 0 N.mask) N.basis.amps N.basis.phases)
      * Real.sqrt (1 / (2 * (N.basis.freqs.length : ℝ))) := by
  unfold FFTNoise.gridValue irfftAt FFTNoise.specRe FFTNoise.specIm
  rw [irfftTerms_scatter _ _ _ _ _ _ (by rw [h.amps_len, h.freqs_len]) (by rw [h.phases_len, h.freqs_len])]
  have hnR : (N.nAll : ℝ) ≠ 0 := by exact_mod_cast hn.ne'
  simp only [RofNat, Rsqrt]
  field_simp


/-- the object `mkFFT` builds, for a given `rms` -/
noncomputable def fftObject (n : Nat) (t0 t1 tL fmin fmax : ℝ) (spec : AmpSpec) (uq : ℝ) (tape : List ℝ)
    (rms : ℝ) : FFTNoise :=
  let u := if uq < 1 then 1 else uq
  let unique := (Rtrunc u).toNat
  let nAll := unique * n
  let dt := t1 - t0
  let allFreqs := rfftfreq nAll dt
  let freqs := selectMask (bandMask fmin fmax allFreqs) allFreqs
  ⟨⟨freqs, dcZero (spec.eval freqs) freqs, phasesOf tape freqs.length, rms⟩, fmin, fmax, unique, nAll,
    dt, t0, tL⟩

theorem mkFFT_eq_some (n : Nat) (t0 t1 tL fmin fmax : ℝ) (spec : AmpSpec) (rv tp rs : Option ℝ)
    (uq : ℝ) (tape : List ℝ) (N : FFTNoise)
    (h : mkFFT n t0 t1 tL fmin fmax spec rv tp rs uq tape = some N) :
    ¬ fmax ≤ fmin ∧ ∃ rms, rmsOf rv tp rs fmin fmax = some rms ∧
      N = fftObject n t0 t1 tL fmin fmax spec uq tape rms := by
  unfold mkFFT at h
  by_cases hb : fmax ≤ fmin
  · simp [hb] at h
  · simp only [hb, if_false] at h
    cases hr : rmsOf rv tp rs fmin fmax with
    | none => simp [hr] at h
    | some r =>
      simp only [hr, Option.some.injEq] at h
      exact ⟨hb, r, rfl, h.symm⟩

theorem mkFull_eq_some (tF tL fmin fmax : ℝ) (spec : AmpSpec) (rv tp rs : Option ℝ) (uq : ℝ)
    (tape : List ℝ) (B : NoiseBasis) (h : mkFull tF tL fmin fmax spec rv tp rs uq tape = some B) :
    ¬ fmax ≤ fmin ∧ ∃ rms, rmsOf rv tp rs fmin fmax = some rms ∧
      B = ⟨linspaceOpen fmin fmax (fullNFreqs tF tL fmin fmax uq),
           dcZero (spec.eval (linspaceOpen fmin fmax (fullNFreqs tF tL fmin fmax uq)))
             (linspaceOpen fmin fmax (fullNFreqs tF tL fmin fmax uq)),
           phasesOf tape (linspaceOpen fmin fmax (fullNFreqs tF tL fmin fmax uq)).length, rms⟩ := by
  unfold mkFull at h
  by_cases hb : fmax ≤ fmin
  · simp [hb] at h
  · simp only [hb, if_false] at h
    cases hr : rmsOf rv tp rs fmin fmax with
    | none => simp [hr] at h
    | some r =>
      simp only [hr, Option.some.injEq] at h
      exact ⟨hb, r, rfl, h.symm⟩

theorem selectMask_mem_band (fmin fmax : ℝ) (xs : List ℝ) (f : ℝ)
    (h : f ∈ selectMask (bandMask fmin fmax xs) xs) : fmin ≤ f ∧ f ≤ fmax := by
  induction xs with
  | nil => simp [bandMask, selectMask] at h
  | cons x xs ih =>
    simp only [bandMask, List.map_cons] at h ih
    by_cases hx : fmin ≤ x ∧ x ≤ fmax
    · simp only [hx.1, hx.2, decide_true, Bool.and_self, selectMask, List.mem_cons] at h
      rcases h with rfl | h
      · exact hx
      · exact ih h
    · have : (decide (fmin ≤ x) && decide (x ≤ fmax)) = false := by
        simpa [Bool.and_eq_false_iff, not_and_or] using hx
      simp only [this, selectMask] at h
      exact ih h


end PyrexR.Nz