import PyrexVerif.Proofs.NoiseInterp
/-! C17: the knot collision of `np.interp(period=(n−1)·dt)` on a regular grid of `n ≥ 2` knots:
the first and the last knot have the same residue, the stable sort puts the first knot in front of
the last one, and `np.interp` (last interval containing `x`) reads the LAST grid value at sample 0. -/
namespace PyrexR.Nz
/-- stable insertion in front of the first knot with a key `≥` the new key -/
theorem insertKnot_split (a k : ℝ × ℝ) (A B : List (ℝ × ℝ)) (hA : ∀ p ∈ A, p.1 < a.1)
    (hk : a.1 ≤ k.1) : insertKnot a (A ++ k :: B) = A ++ a :: k :: B := by
  induction A with
  | nil => simp [insertKnot, hk]
  | cons p A ih =>
    have hp : ¬ a.1 ≤ p.1 := not_le.mpr (hA p (by simp))
    simp only [List.cons_append, insertKnot, hp, if_false]
    rw [ih (fun q hq => hA q (by simp [hq]))]

/-- `interpSorted` walks over every knot whose key is `≤ x` and stops at the last one -/
theorem interpSorted_walk (pre post : List (ℝ × ℝ)) (k q : ℝ × ℝ) (x : ℝ)
    (hpre : ∀ p ∈ pre, p.1 ≤ x) (hk : k.1 = x) (hq : x < q.1) :
    interpSorted (pre ++ k :: q :: post) x = k.2 := by
  induction pre with
  | nil =>
    simp only [List.nil_append]
    rw [interpSorted]
    simp [hq, hk]
  | cons p pre ih =>
    have ih' := ih (fun p' hp' => hpre p' (by simp [hp']))
    cases pre with
    | nil =>
      simp only [List.cons_append, List.nil_append] at ih' ⊢
      rw [interpSorted]
      have : ¬ x < k.1 := by rw [hk]; exact lt_irrefl _
      simp only [this, if_false]
      exact ih'
    | cons p' pre' =>
      simp only [List.cons_append] at ih' ⊢
      rw [interpSorted]
      have : ¬ x < p'.1 := not_lt.mpr (hpre p' (by simp))
      simp only [this, if_false]
      exact ih'

/-- shape of the padded knot table when the sorted table is not empty -/
theorem periodicKnots_pad (P : ℝ) (xp fp : List ℝ) (ks : List (ℝ × ℝ))
    (hks : sortKnots (List.zipWith (fun x y => (pmod x P, y)) xp fp) = ks) (hne : ks ≠ []) :
    ∃ first last, first ∈ ks ∧ last ∈ ks ∧
      periodicKnots P xp fp = (last.1 - P, last.2) :: ks ++ [(first.1 + P, first.2)] := by
  cases ks with
  | nil => exact absurd rfl hne
  | cons k0 tl =>
    refine ⟨k0, (k0 :: tl).getLast hne, by simp, List.getLast_mem hne, ?_⟩
    unfold periodicKnots
    simp only [hks, List.getLast?_eq_some_getLast hne]

/-- if the first reduced knot `a` has the same key as a later knot `k`, and the later knots have
pairwise distinct keys, then `np.interp(period=P)` at that key returns the value of `k` -/
theorem interp_collision_core (P : ℝ) (hP : 0 < P) (xp fp : List ℝ) (a : ℝ × ℝ)
    (rest : List (ℝ × ℝ)) (hraw : List.zipWith (fun x y => (pmod x P, y)) xp fp = a :: rest)
    (hd : rest.Pairwise (fun p q => p.1 ≠ q.1)) (k : ℝ × ℝ) (hk : k ∈ rest) (hka : k.1 = a.1) :
    interpSorted (periodicKnots P xp fp) a.1 = k.2 := by
  have hrange : ∀ p ∈ a :: rest, 0 ≤ p.1 ∧ p.1 < P := by
    intro p hp
    rw [← hraw] at hp
    obtain ⟨i, hi, rfl⟩ := List.getElem_of_mem hp
    simp only [List.getElem_zipWith]
    exact ⟨pmod_nonneg _ _ hP, pmod_lt _ _ hP⟩
  have hstrict := sortKnots_strict rest hd
  have hperm := sortKnots_perm rest
  obtain ⟨A, B, hAB⟩ := List.append_of_mem (hperm.mem_iff.mpr hk)
  rw [hAB] at hstrict
  have hA : ∀ p ∈ A, p.1 < a.1 := by
    intro p hp
    rw [← hka]
    exact (List.pairwise_append.mp hstrict).2.2 p hp k (by simp)
  have hB : ∀ q ∈ B, a.1 < q.1 := by
    intro q hq
    rw [← hka]
    exact (List.pairwise_cons.mp (List.pairwise_append.mp hstrict).2.1).1 q hq
  have hks : sortKnots (List.zipWith (fun x y => (pmod x P, y)) xp fp) = A ++ a :: k :: B := by
    rw [hraw]
    show insertKnot a (sortKnots rest) = _
    rw [hAB]
    exact insertKnot_split a k A B hA (le_of_eq hka.symm)
  have hmemrange : ∀ p ∈ A ++ a :: k :: B, 0 ≤ p.1 ∧ p.1 < P := by
    intro p hp
    rw [← hks] at hp
    have := (sortKnots_perm _).mem_iff.mp hp
    rw [hraw] at this
    exact hrange p this
  obtain ⟨first, last, hf, hl, hpk⟩ := periodicKnots_pad P xp fp _ hks (by simp)
  rw [hpk]
  have ha0 := hrange a (by simp)
  have hfr := hmemrange first hf
  have hlr := hmemrange last hl
  obtain ⟨q, post, hqp, hq⟩ : ∃ q post, B ++ [(first.1 + P, first.2)] = q :: post ∧ a.1 < q.1 := by
    cases B with
    | nil => exact ⟨_, [], rfl, by simp only; linarith⟩
    | cons b B' => exact ⟨b, B' ++ [(first.1 + P, first.2)], rfl, hB b (by simp)⟩
  have hshape : (last.1 - P, last.2) :: (A ++ a :: k :: B) ++ [(first.1 + P, first.2)]
      = ((last.1 - P, last.2) :: (A ++ [a])) ++ k :: q :: post := by
    rw [← hqp]; simp
  rw [hshape]
  refine interpSorted_walk _ _ _ _ _ ?_ hka hq
  intro p hp
  rcases List.mem_cons.mp hp with rfl | hp
  · simp only; linarith
  · rcases List.mem_append.mp hp with hp | hp
    · exact le_of_lt (hA p hp)
    · rw [List.mem_singleton] at hp; rw [hp]

/-- the collision for any knot list that is the regular grid `t0 + j·dt`, `j < n` -/
theorem interp_collision_aux (t0 dt : ℝ) (hdt : 0 < dt) (n : Nat) (hn : 2 ≤ n) (xp g : List ℝ)
    (hxl : xp.length = n) (hg : g.length = n)
    (hget : ∀ (j : Nat) (hj : j < n), xp[j]'(by omega) = t0 + (j : ℝ) * dt) :
    interpPeriodic (((n : ℝ) - 1) * dt) xp g t0 = g.getD (n - 1) 0 := by
  obtain ⟨m, rfl⟩ : ∃ m, n = m + 2 := ⟨n - 2, by omega⟩
  have hPeq : (((m + 2 : Nat) : ℝ) - 1) * dt = ((m : ℝ) + 1) * dt := by push_cast; ring
  rw [hPeq]
  have hm0 : (0 : ℝ) ≤ m := Nat.cast_nonneg m
  have hP : 0 < ((m : ℝ) + 1) * dt := mul_pos (by linarith) hdt
  set P := ((m : ℝ) + 1) * dt with hPdef
  rcases xp with _ | ⟨x0, xs⟩
  · simp at hxl
  rcases g with _ | ⟨g0, gs⟩
  · simp at hg
  have hxs : xs.length = m + 1 := by simpa using hxl
  have hgs : gs.length = m + 1 := by simpa using hg
  have hx0 : x0 = t0 := by simpa using hget 0 (by omega)
  have hxs_get : ∀ (j : Nat) (hj : j < m + 1), xs[j]'(by omega) = t0 + ((j : ℝ) + 1) * dt := by
    intro j hj
    have := hget (j + 1) (by omega)
    simpa using this
  subst hx0
  set rest := List.zipWith (fun x y => (pmod x P, y)) xs gs with hrest
  have hraw : List.zipWith (fun x y => (pmod x P, y)) (x0 :: xs) (g0 :: gs)
      = (pmod x0 P, g0) :: rest := rfl
  have hrl : rest.length = m + 1 := by simp [hrest, hxs, hgs]
  have hd : rest.Pairwise (fun p q => p.1 ≠ q.1) := by
    rw [List.pairwise_iff_getElem]
    intro a b ha hb hab
    rw [hrl] at ha hb
    simp only [hrest, List.getElem_zipWith, hxs_get a ha, hxs_get b hb]
    intro heq
    obtain ⟨z, hz⟩ := pmod_eq_imp _ _ _ heq
    have h1 : ((a : ℝ) - b) * dt = (z * ((m : ℝ) + 1)) * dt := by rw [hPdef] at hz; linarith
    have h2 : (a : ℝ) - b = z * ((m : ℝ) + 1) := mul_right_cancel₀ (ne_of_gt hdt) h1
    have h3 : (a : ℤ) - b = z * ((m : ℤ) + 1) := by exact_mod_cast h2
    have hz0 : z = 0 := by
      by_contra hne
      rcases lt_or_gt_of_ne hne with hneg | hpos
      · have : z * ((m : ℤ) + 1) ≤ -1 * ((m : ℤ) + 1) :=
          Int.mul_le_mul_of_nonneg_right (by omega) (by omega)
        omega
      · have : 1 * ((m : ℤ) + 1) ≤ z * ((m : ℤ) + 1) :=
          Int.mul_le_mul_of_nonneg_right (by omega) (by omega)
        omega
    rw [hz0] at h3
    omega
  have hkmem : rest[m]'(by omega) ∈ rest := List.getElem_mem _
  have hk1 : (rest[m]'(by omega)).1 = pmod x0 P := by
    simp only [hrest, List.getElem_zipWith, hxs_get m (by omega)]
    have := pmod_add_int_mul x0 P hP 1
    rw [← this, hPdef]
    congr 1
    push_cast; ring
  have hk2 : (rest[m]'(by omega)).2 = (g0 :: gs).getD (m + 2 - 1) 0 := by
    simp only [hrest, List.getElem_zipWith]
    have : m + 2 - 1 = m + 1 := by omega
    rw [this]
    simp [List.getD_eq_getElem?_getD, hgs]
  unfold interpPeriodic
  rw [← hk2]
  exact interp_collision_core P hP (x0 :: xs) (g0 :: gs) (pmod x0 P, g0) rest hraw hd _ hkmem hk1

/-- with the unrepaired period `(n−1)·dt` the first and the last knot of the regular grid collide
mod the period, and sample 0 reads the LAST grid value -/
theorem interp_collision_general (t0 dt : ℝ) (hdt : 0 < dt) (n : Nat) (hn : 2 ≤ n) (g : List ℝ)
    (hg : g.length = n) :
    interpPeriodic (((n : ℝ) - 1) * dt) (linspaceClosed t0 (t0 + ((n : ℝ) - 1) * dt) n) g t0
      = g.getD (n - 1) 0 :=
  interp_collision_aux t0 dt hdt n hn _ g (linspaceClosed_length _ _ _) hg
    (fun j hj => linspaceClosed_getElem t0 dt n j hj)

end PyrexR.Nz