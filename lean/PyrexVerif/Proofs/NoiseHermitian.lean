import PyrexVerif.Proofs.Noise
import Mathlib.Algebra.BigOperators.Intervals
import Mathlib.Analysis.SpecialFunctions.Trigonometric.Basic
/-! Justification of the one-sided weighted form of `irfftAt`: it is the real part of the ordinary
inverse DFT of the Hermitian completion of the one-sided spectrum. -/
namespace PyrexR.Nz
open Finset

/-- real / imaginary part of bin `k` (0 ≤ k < n) of the Hermitian completion: bins up to n/2 as
given, bin k > n/2 is the complex conjugate of bin n − k -/
noncomputable def hermRe (n : Nat) (re : List ℝ) (k : Nat) : ℝ :=
  if 2 * k ≤ n then re.getD k 0 else re.getD (n - k) 0
noncomputable def hermIm (n : Nat) (im : List ℝ) (k : Nat) : ℝ :=
  if 2 * k ≤ n then im.getD k 0 else -(im.getD (n - k) 0)

/-- real part of the inverse DFT `(1/n)·Σ_{k<n} X_k·e^{2πi·jk/n}` of the completed spectrum -/
noncomputable def hermitianIDFT (n : Nat) (re im : List ℝ) (j : Nat) : ℝ :=
  (∑ k ∈ Finset.range n,
      (hermRe n re k * Real.cos (2 * Real.pi * ((j * k : Nat) : ℝ) / (n : ℝ))
        - hermIm n im k * Real.sin (2 * Real.pi * ((j * k : Nat) : ℝ) / (n : ℝ)))) / (n : ℝ)

/-- `Re(c_k·e^{2πi·jk/n})` for the one-sided bin `k` -/
noncomputable def binTerm (n j : Nat) (re im : List ℝ) (k : Nat) : ℝ :=
  re.getD k 0 * Real.cos (2 * Real.pi * ((j * k : Nat) : ℝ) / (n : ℝ))
    - im.getD k 0 * Real.sin (2 * Real.pi * ((j * k : Nat) : ℝ) / (n : ℝ))

/-- the recursive list of terms as an indexed finite sum -/
theorem nsum_irfftTerms (n j : Nat) (re im : List ℝ) (k0 : Nat) (h : im.length = re.length) :
    nsum (irfftTerms n j k0 re im)
      = ∑ i ∈ range re.length, irfftWeight n (k0 + i)
          * (re.getD i 0 * Real.cos (2 * Real.pi * ((j * (k0 + i) : Nat) : ℝ) / (n : ℝ))
            - im.getD i 0 * Real.sin (2 * Real.pi * ((j * (k0 + i) : Nat) : ℝ) / (n : ℝ))) := by
  induction re generalizing im k0 with
  | nil => simp [irfftTerms, nsum_nil]
  | cons r rs ih =>
    cases im with
    | nil => simp at h
    | cons i is =>
      simp only [irfftTerms, nsum_cons, List.length_cons, Finset.sum_range_succ']
      rw [ih is (k0 + 1) (by simpa using h)]
      simp only [Rcos, Rsin, Rpi, RofNat, List.getD_cons_succ, List.getD_cons_zero, Nat.add_zero]
      rw [add_comm]
      congr 1
      refine Finset.sum_congr rfl fun x _ => ?_
      rw [show k0 + 1 + x = k0 + (x + 1) by omega]

theorem nsum_irfftTerms_zero (n j : Nat) (re im : List ℝ) (h : im.length = re.length) :
    nsum (irfftTerms n j 0 re im)
      = ∑ k ∈ range re.length, irfftWeight n k * binTerm n j re im k := by
  rw [nsum_irfftTerms n j re im 0 h]
  refine Finset.sum_congr rfl fun k _ => ?_
  simp only [Nat.zero_add, binTerm]

/-- reflection `k ↦ n − k` of the phase: `cos` is kept -/
theorem cos_reflect (n j k : Nat) (hn : 0 < n) (hk : k ≤ n) :
    Real.cos (2 * Real.pi * ((j * (n - k) : Nat) : ℝ) / (n : ℝ))
      = Real.cos (2 * Real.pi * ((j * k : Nat) : ℝ) / (n : ℝ)) := by
  have hnR : (n : ℝ) ≠ 0 := by exact_mod_cast hn.ne'
  have : 2 * Real.pi * ((j * (n - k) : Nat) : ℝ) / (n : ℝ)
      = (j : ℝ) * (2 * Real.pi) - 2 * Real.pi * ((j * k : Nat) : ℝ) / (n : ℝ) := by
    push_cast [Nat.cast_sub hk]
    field_simp
  rw [this, Real.cos_nat_mul_two_pi_sub]

/-- reflection `k ↦ n − k` of the phase: `sin` changes sign -/
theorem sin_reflect (n j k : Nat) (hn : 0 < n) (hk : k ≤ n) :
    Real.sin (2 * Real.pi * ((j * (n - k) : Nat) : ℝ) / (n : ℝ))
      = -Real.sin (2 * Real.pi * ((j * k : Nat) : ℝ) / (n : ℝ)) := by
  have hnR : (n : ℝ) ≠ 0 := by exact_mod_cast hn.ne'
  have : 2 * Real.pi * ((j * (n - k) : Nat) : ℝ) / (n : ℝ)
      = (j : ℝ) * (2 * Real.pi) - 2 * Real.pi * ((j * k : Nat) : ℝ) / (n : ℝ) := by
    push_cast [Nat.cast_sub hk]
    field_simp
  rw [this, Real.sin_nat_mul_two_pi_sub]

/-- a bin of the completed spectrum is the one-sided bin `k` or the reflected bin `n − k` -/
theorem herm_term (n j : Nat) (hn : 0 < n) (re im : List ℝ) (k : Nat) (hk : k < n) :
    hermRe n re k * Real.cos (2 * Real.pi * ((j * k : Nat) : ℝ) / (n : ℝ))
        - hermIm n im k * Real.sin (2 * Real.pi * ((j * k : Nat) : ℝ) / (n : ℝ))
      = if 2 * k ≤ n then binTerm n j re im k else binTerm n j re im (n - k) := by
  unfold hermRe hermIm binTerm
  split_ifs with h
  · rfl
  · rw [cos_reflect n j k hn hk.le, sin_reflect n j k hn hk.le]
    ring

/-- the full inverse DFT sum of the completed spectrum is the weighted one-sided sum -/
theorem herm_sum (n j : Nat) (hn : 0 < n) (re im : List ℝ) :
    ∑ k ∈ range n,
        (hermRe n re k * Real.cos (2 * Real.pi * ((j * k : Nat) : ℝ) / (n : ℝ))
          - hermIm n im k * Real.sin (2 * Real.pi * ((j * k : Nat) : ℝ) / (n : ℝ)))
      = ∑ k ∈ range (n / 2 + 1), irfftWeight n k * binTerm n j re im k := by
  rw [Finset.sum_congr rfl fun k hk => herm_term n j hn re im k (Finset.mem_range.mp hk)]
  rw [Finset.sum_ite]
  -- lower half
  have hlow : (range n).filter (fun k => 2 * k ≤ n) = range (n / 2 + 1) := by
    ext k; simp only [mem_filter, mem_range]; omega
  -- upper half, reflected
  have hup : ∑ k ∈ (range n).filter (fun k => ¬ 2 * k ≤ n), binTerm n j re im (n - k)
      = ∑ k ∈ (range (n / 2 + 1)).filter (fun k => 0 < k ∧ 2 * k ≠ n), binTerm n j re im k := by
    refine Finset.sum_nbij' (fun k => n - k) (fun k => n - k) ?_ ?_ ?_ ?_ ?_
    · intro k hk; simp only [mem_filter, mem_range] at hk ⊢; omega
    · intro k hk; simp only [mem_filter, mem_range] at hk ⊢; omega
    · intro k hk; simp only [mem_filter, mem_range] at hk ⊢; omega
    · intro k hk; simp only [mem_filter, mem_range] at hk ⊢; omega
    · intro k _; rfl
  rw [hlow, hup, Finset.sum_filter, ← Finset.sum_add_distrib]
  refine Finset.sum_congr rfl fun k _ => ?_
  unfold irfftWeight
  by_cases h : k = 0 ∨ 2 * k = n
  · have h' : ¬ (0 < k ∧ 2 * k ≠ n) := by omega
    rw [if_neg h', if_pos h]
    ring
  · have h' : 0 < k ∧ 2 * k ≠ n := by omega
    rw [if_pos h', if_neg h]
    ring

theorem irfftAt_eq_hermitianIDFT (n : Nat) (hn : 0 < n) (re im : List ℝ)
    (hre : re.length = n / 2 + 1) (him : im.length = n / 2 + 1) (j : Nat) :
    irfftAt n re im j = hermitianIDFT n re im j := by
  unfold irfftAt hermitianIDFT
  rw [nsum_irfftTerms_zero n j re im (by rw [hre, him]), hre, herm_sum n j hn re im]

end PyrexR.Nz