import PyrexVerif.Proofs.NoiseCollision
import Mathlib.Data.List.Chain
/-! C17: impulse lemma for `np.interp(period=P)`: with the unit impulse at knot 0 as data (and at
least two knots) the interpolant takes the value 1 only at the residue of knot 0. -/
namespace PyrexR.Nz

/-- "not both of value 1" -/
def notBothOne (a b : ℝ × ℝ) : Prop := ¬ (a.2 = 1 ∧ b.2 = 1)

/-- on a table with values in `{0,1}` and no two consecutive entries of value 1, whose first key
is `≤ y` and which has a later key `> y`, the interpolant is 1 at `y` only if `y` is the key of an
entry of value 1 -/
theorem interpSorted_eq_one_core (rest : List (ℝ × ℝ)) : ∀ (k0 : ℝ × ℝ) (y : ℝ),
    (∀ k ∈ k0 :: rest, k.2 = 0 ∨ k.2 = 1) →
    (k0 :: rest).IsChain notBothOne →
    k0.1 ≤ y → (∃ k ∈ rest, y < k.1) →
    interpSorted (k0 :: rest) y = 1 → ∃ k ∈ k0 :: rest, k.1 = y ∧ k.2 = 1 := by
  induction rest with
  | nil =>
    intro k0 y _ _ _ hex _
    obtain ⟨k, hk, _⟩ := hex
    simp at hk
  | cons k1 rest ih =>
    intro k0 y hv hc h0 hex h
    rw [interpSorted] at h
    rw [List.isChain_cons_cons] at hc
    split_ifs at h with h1 h2
    · exact ⟨k0, by simp, le_antisymm h0 h2, h⟩
    · exfalso
      have h2' : k0.1 < y := not_le.mp h2
      have hv0 := hv k0 (by simp)
      have hv1 := hv k1 (by simp)
      have hd : 0 < k1.1 - k0.1 := by linarith
      have hdne : k1.1 - k0.1 ≠ 0 := ne_of_gt hd
      rcases hv0 with e0 | e0 <;> rcases hv1 with e1 | e1
      · rw [e0, e1] at h; simp at h
      · rw [e0, e1] at h
        field_simp at h
        linarith
      · rw [e0, e1] at h
        field_simp at h
        linarith
      · exact hc.1 ⟨e0, e1⟩
    · have hex' : ∃ k ∈ rest, y < k.1 := by
        obtain ⟨k, hk, hky⟩ := hex
        rcases List.mem_cons.mp hk with rfl | hk
        · exact absurd hky h1
        · exact ⟨k, hk, hky⟩
      obtain ⟨k, hk, hk1, hk2⟩ := ih k1 y (fun k hk => hv k (List.mem_cons_of_mem _ hk)) hc.2
        (not_lt.mp h1) hex' h
      exact ⟨k, List.mem_cons_of_mem _ hk, hk1, hk2⟩

/-- at most one entry of value 1: no two consecutive entries of value 1 -/
theorem isChain_of_countP_le_one (l : List (ℝ × ℝ))
    (h : l.countP (fun k => decide (k.2 = 1)) ≤ 1) : l.IsChain notBothOne := by
  induction l with
  | nil => exact List.IsChain.nil
  | cons a l ih =>
    cases l with
    | nil => exact List.isChain_singleton a
    | cons b l' =>
      rw [List.isChain_cons_cons]
      refine ⟨?_, ih ?_⟩
      · rintro ⟨ha, hb⟩
        simp only [List.countP_cons, ha, hb, decide_true, if_true] at h
        omega
      · rw [List.countP_cons] at h
        omega

/-- general form: the first datum is 1, all others are 0, and there is at least one other knot -/
theorem interp_impulse_general (P : ℝ) (hP : 0 < P) (x0 : ℝ) (xs zs : List ℝ)
    (hz : ∀ z ∈ zs, z = 0) (hxs : xs ≠ []) (hzs : zs ≠ []) (x : ℝ)
    (h : interpPeriodic P (x0 :: xs) (1 :: zs) x = 1) :
    pmod x P = pmod x0 P := by
  set y := pmod x P with hy
  have hy0 : 0 ≤ y := pmod_nonneg _ _ hP
  have hyP : y < P := pmod_lt _ _ hP
  set rest := List.zipWith (fun x y => (pmod x P, y)) xs zs with hrest
  set raw := List.zipWith (fun x y => (pmod x P, y)) (x0 :: xs) (1 :: zs) with hrawdef
  have hraw : raw = (pmod x0 P, 1) :: rest := rfl
  have hrestne : rest ≠ [] := by
    rcases xs with _ | ⟨a, xs⟩
    · exact absurd rfl hxs
    rcases zs with _ | ⟨b, zs⟩
    · exact absurd rfl hzs
    simp [hrest]
  have hrest0 : ∀ p ∈ rest, p.2 = 0 := by
    intro p hp
    obtain ⟨i, hi, rfl⟩ := List.getElem_of_mem hp
    simp only [hrest, List.getElem_zipWith]
    exact hz _ (List.getElem_mem _)
  have hrange : ∀ p ∈ raw, 0 ≤ p.1 ∧ p.1 < P := by
    intro p hp
    obtain ⟨i, hi, rfl⟩ := List.getElem_of_mem hp
    simp only [hrawdef, List.getElem_zipWith]
    exact ⟨pmod_nonneg _ _ hP, pmod_lt _ _ hP⟩
  have hperm := sortKnots_perm raw
  have hcount : (sortKnots raw).countP (fun k => decide (k.2 = 1)) = 1 := by
    rw [hperm.countP_eq, hraw, List.countP_cons]
    have : rest.countP (fun k => decide (k.2 = 1)) = 0 := by
      rw [List.countP_eq_zero]
      intro p hp
      simp [hrest0 p hp]
    simp [this]
  have hlen : (sortKnots raw).length = rest.length + 1 := by
    rw [hperm.length_eq, hraw]; rfl
  have hmem : ∀ k ∈ sortKnots raw, k = (pmod x0 P, (1 : ℝ)) ∨ k ∈ rest := by
    intro k hk
    have := hperm.mem_iff.mp hk
    rw [hraw] at this
    exact List.mem_cons.mp this
  have hval : ∀ k ∈ sortKnots raw, k.2 = 0 ∨ k.2 = 1 := by
    intro k hk
    rcases hmem k hk with rfl | hk
    · exact Or.inr rfl
    · exact Or.inl (hrest0 k hk)
  have hrg : ∀ k ∈ sortKnots raw, 0 ≤ k.1 ∧ k.1 < P := fun k hk => hrange k (hperm.mem_iff.mp hk)
  -- shape of the sorted table
  have hrl : 0 < rest.length := List.length_pos_iff.mpr hrestne
  rcases hks : sortKnots raw with _ | ⟨k0, tl⟩
  · rw [hks] at hlen; simp at hlen
  rw [hks] at hcount hlen hmem hval hrg
  have htl : tl ≠ [] := by
    intro e; rw [e] at hlen
    have : rest.length + 1 = 1 := hlen.symm
    omega
  have hne : (k0 :: tl) ≠ [] := by simp
  set kl := (k0 :: tl).getLast hne with hkl
  have hkl_tl : kl ∈ tl := by
    rw [hkl, List.getLast_cons htl]; exact List.getLast_mem htl
  have hkl_mem : kl ∈ k0 :: tl := List.mem_cons_of_mem _ hkl_tl
  have hpk : periodicKnots P (x0 :: xs) (1 :: zs)
      = (kl.1 - P, kl.2) :: ((k0 :: tl) ++ [(k0.1 + P, k0.2)]) := by
    unfold periodicKnots
    simp only [← hrawdef, hks, List.getLast?_eq_some_getLast hne]
    rfl
  have hends : notBothOne kl k0 := by
    rintro ⟨hl1, h01⟩
    have hpos : 0 < tl.countP (fun k => decide (k.2 = 1)) :=
      List.countP_pos_iff.mpr ⟨kl, hkl_tl, by simp [hl1]⟩
    rw [List.countP_cons] at hcount
    simp only [h01, decide_true, if_true] at hcount
    omega
  have hchain : ((kl.1 - P, kl.2) :: ((k0 :: tl) ++ [(k0.1 + P, k0.2)])).IsChain notBothOne := by
    rw [List.isChain_cons]
    refine ⟨?_, ?_⟩
    · intro q hq
      simp only [List.cons_append, List.head?_cons, Option.mem_def, Option.some.injEq] at hq
      subst hq
      exact hends
    · rw [List.isChain_append]
      refine ⟨isChain_of_countP_le_one _ (le_of_eq hcount), List.isChain_singleton _, ?_⟩
      intro a ha b hb
      rw [List.getLast?_eq_some_getLast hne] at ha
      simp only [Option.mem_def, Option.some.injEq, List.head?_cons] at ha hb
      subst ha; subst hb
      exact hends
  unfold interpPeriodic at h
  rw [hpk] at h
  have hvalT : ∀ k ∈ (kl.1 - P, kl.2) :: ((k0 :: tl) ++ [(k0.1 + P, k0.2)]), k.2 = 0 ∨ k.2 = 1 := by
    intro k hk
    rcases List.mem_cons.mp hk with rfl | hk
    · exact hval kl hkl_mem
    · rcases List.mem_append.mp hk with hk | hk
      · exact hval k hk
      · rw [List.mem_singleton] at hk; subst hk
        exact hval k0 (by simp)
  have hklr := hrg kl hkl_mem
  have hk0r := hrg k0 (by simp)
  obtain ⟨k, hk, hk1, hk2⟩ := interpSorted_eq_one_core _ _ y hvalT hchain
    (by simp only; linarith)
    ⟨(k0.1 + P, k0.2), by simp, by simp only; linarith⟩ h
  rcases List.mem_cons.mp hk with rfl | hk
  · simp only at hk1; linarith
  · rcases List.mem_append.mp hk with hk | hk
    · rcases hmem k hk with rfl | hk'
      · exact hk1.symm
      · have := hrest0 k hk'
        rw [this] at hk2; norm_num at hk2
    · rw [List.mem_singleton] at hk; subst hk
      simp only at hk1; linarith

/-- unit impulse at knot 0 -/
def impulse (n : Nat) : List ℝ := (List.range n).map (fun j => if j = 0 then (1 : ℝ) else 0)

theorem impulse_succ (n : Nat) :
    impulse (n + 1) = 1 :: (List.range n).map (fun _ => (0 : ℝ)) := by
  simp [impulse, List.range_succ_eq_map, Function.comp_def]

theorem interp_impulse_eq_one (P : ℝ) (hP : 0 < P) (xp : List ℝ) (n : Nat) (hn : 2 ≤ n)
    (hxp : xp.length = n) (x : ℝ)
    (h : interpPeriodic P xp (impulse n) x = 1) :
    pmod x P = pmod (xp.getD 0 0) P := by
  obtain ⟨m, rfl⟩ : ∃ m, n = m + 2 := ⟨n - 2, by omega⟩
  rcases xp with _ | ⟨x0, xs⟩
  · simp at hxp
  have hxs : xs.length = m + 1 := by simpa using hxp
  rw [impulse_succ] at h
  have hxsne : xs ≠ [] := by
    intro e; rw [e] at hxs; simp at hxs
  have hzsne : (List.range (m + 1)).map (fun _ => (0 : ℝ)) ≠ [] := by
    simp
  have hz : ∀ z ∈ (List.range (m + 1)).map (fun _ => (0 : ℝ)), z = 0 := by
    intro z hz
    obtain ⟨_, _, rfl⟩ := List.mem_map.mp hz
    rfl
  simpa using interp_impulse_general P hP x0 xs _ hz hxsne hzsne x h

end PyrexR.Nz
