import PyrexVerif.R.Noise
import Mathlib.Tactic.LinearCombination
import Mathlib.Tactic.Ring
import Mathlib.Tactic.FieldSimp
import Mathlib.Tactic.Linarith
import Mathlib.Tactic.Positivity
import Mathlib.Algebra.Order.Floor.Ring
import Mathlib.Data.List.Perm.Basic
/-! Helper lemmas for C17: `x % P`, the stable key sort, linear interpolation at a knot, the knot
table of `np.interp(period=P)`. -/
namespace PyrexR.Nz
theorem pmod_eq (x P : ℝ) : pmod x P = x - P * (⌊x / P⌋ : ℝ) := rfl

theorem pmod_nonneg (x P : ℝ) (hP : 0 < P) : 0 ≤ pmod x P := by
  rw [pmod_eq]
  have := Int.floor_le (x / P)
  have h2 : (⌊x / P⌋ : ℝ) * P ≤ x := by
    calc (⌊x / P⌋ : ℝ) * P ≤ x / P * P := mul_le_mul_of_nonneg_right this hP.le
      _ = x := by field_simp
  linarith

theorem pmod_lt (x P : ℝ) (hP : 0 < P) : pmod x P < P := by
  rw [pmod_eq]
  have := Int.lt_floor_add_one (x / P)
  have h2 : x < ((⌊x / P⌋ : ℝ) + 1) * P := by
    calc x = x / P * P := by field_simp
      _ < ((⌊x / P⌋ : ℝ) + 1) * P := mul_lt_mul_of_pos_right this hP
  linarith

theorem pmod_add_int_mul (x P : ℝ) (hP : 0 < P) (m : ℤ) : pmod (x + m * P) P = pmod x P := by
  rw [pmod_eq, pmod_eq]
  have : (x + m * P) / P = x / P + m := by field_simp
  rw [this, Int.floor_add_intCast]
  push_cast; ring

/-- equal residues differ by a whole number of periods -/
theorem pmod_eq_imp (x y P : ℝ) (h : pmod x P = pmod y P) : ∃ z : ℤ, x - y = z * P := by
  rw [pmod_eq, pmod_eq] at h
  exact ⟨⌊x / P⌋ - ⌊y / P⌋, by push_cast; linarith⟩

/-! ### sort -/

theorem insertKnot_perm (a : ℝ × ℝ) (l : List (ℝ × ℝ)) : (insertKnot a l).Perm (a :: l) := by
  induction l with
  | nil => simp [insertKnot]
  | cons b l ih =>
    unfold insertKnot
    split_ifs
    · exact List.Perm.refl _
    · exact (List.Perm.cons b ih).trans (List.Perm.swap a b l)

theorem sortKnots_perm (l : List (ℝ × ℝ)) : (sortKnots l).Perm l := by
  induction l with
  | nil => exact List.Perm.refl _
  | cons a l ih => exact (insertKnot_perm a _).trans (List.Perm.cons a ih)

theorem insertKnot_sorted (a : ℝ × ℝ) (l : List (ℝ × ℝ))
    (h : l.Pairwise (fun p q => p.1 ≤ q.1)) : (insertKnot a l).Pairwise (fun p q => p.1 ≤ q.1) := by
  induction l with
  | nil => simp [insertKnot]
  | cons b l ih =>
    unfold insertKnot
    rw [List.pairwise_cons] at h
    split_ifs with hab
    · refine List.Pairwise.cons ?_ (List.Pairwise.cons h.1 h.2)
      intro c hc
      rcases List.mem_cons.mp hc with rfl | hc
      · exact hab
      · exact le_trans hab (h.1 c hc)
    · refine List.Pairwise.cons ?_ (ih h.2)
      intro c hc
      have := (insertKnot_perm a l).mem_iff.mp hc
      rcases List.mem_cons.mp this with rfl | hc
      · exact le_of_lt (not_le.mp hab)
      · exact h.1 c hc

theorem sortKnots_sorted (l : List (ℝ × ℝ)) : (sortKnots l).Pairwise (fun p q => p.1 ≤ q.1) := by
  induction l with
  | nil => exact List.Pairwise.nil
  | cons a l ih => exact insertKnot_sorted a _ ih

/-- with pairwise distinct keys the sorted list is strictly sorted -/
theorem sortKnots_strict (l : List (ℝ × ℝ)) (hd : l.Pairwise (fun p q => p.1 ≠ q.1)) :
    (sortKnots l).Pairwise (fun p q => p.1 < q.1) := by
  have h1 := sortKnots_sorted l
  have h2 : (sortKnots l).Pairwise (fun p q => p.1 ≠ q.1) :=
    ((sortKnots_perm l).pairwise_iff (fun {a b} (h : a.1 ≠ b.1) => h.symm)).mpr hd
  exact (h1.and h2).imp (fun {a b} h => lt_of_le_of_ne h.1 h.2)

/-! ### interpolation at a knot -/

theorem interpSorted_at_knot (l : List (ℝ × ℝ)) (hs : l.Pairwise (fun p q => p.1 < q.1))
    (k : ℝ × ℝ) (hk : k ∈ l) : interpSorted l k.1 = k.2 := by
  induction l with
  | nil => simp at hk
  | cons k0 l ih =>
    cases l with
    | nil =>
      simp only [List.mem_singleton] at hk
      subst hk; rfl
    | cons k1 rest =>
      rw [List.pairwise_cons] at hs
      unfold interpSorted
      rcases List.mem_cons.mp hk with rfl | hk'
      · have : k.1 < k1.1 := hs.1 k1 (by simp)
        simp [this]
      · have hge : ¬ k.1 < k1.1 := by
          rcases List.mem_cons.mp hk' with rfl | h3
          · exact lt_irrefl _
          · exact not_lt.mpr (le_of_lt ((List.pairwise_cons.mp hs.2).1 k h3))
        simp only [hge, if_false]
        exact ih hs.2 hk'

/-- the knot table of `np.interp(period=P)` is strictly sorted and contains every reduced knot,
provided the reduced abscissae are pairwise distinct -/
theorem periodicKnots_spec (P : ℝ) (hP : 0 < P) (xp fp : List ℝ)
    (hd : (List.zipWith (fun x y => (pmod x P, y)) xp fp).Pairwise (fun p q => p.1 ≠ q.1)) :
    (periodicKnots P xp fp).Pairwise (fun p q => p.1 < q.1) ∧
    ∀ k ∈ List.zipWith (fun x y => (pmod x P, y)) xp fp, k ∈ periodicKnots P xp fp := by
  set raw := List.zipWith (fun x y => (pmod x P, y)) xp fp with hraw
  have hstrict := sortKnots_strict raw hd
  have hperm := sortKnots_perm raw
  have hrange : ∀ k ∈ sortKnots raw, 0 ≤ k.1 ∧ k.1 < P := by
    intro k hk
    have hk' := hperm.mem_iff.mp hk
    rw [hraw] at hk'
    obtain ⟨i, hi, rfl⟩ := List.getElem_of_mem hk'
    simp only [List.getElem_zipWith]
    exact ⟨pmod_nonneg _ _ hP, pmod_lt _ _ hP⟩
  cases hks : sortKnots raw with
  | nil =>
    have hpk : periodicKnots P xp fp = [] := by
      unfold periodicKnots; simp [← hraw, hks]
    rw [hpk]
    refine ⟨List.Pairwise.nil, ?_⟩
    intro k hk
    have := hperm.mem_iff.mpr hk
    rw [hks] at this; exact this
  | cons k0 tl =>
    have hne : (k0 :: tl) ≠ [] := by simp
    have hpk : periodicKnots P xp fp
        = (((k0 :: tl).getLast hne).1 - P, ((k0 :: tl).getLast hne).2) :: (k0 :: tl) ++ [(k0.1 + P, k0.2)] := by
      unfold periodicKnots
      simp only [← hraw, hks, List.getLast?_eq_some_getLast hne]
    rw [hpk]
    rw [hks] at hstrict hrange hperm
    have hlast_mem : (k0 :: tl).getLast hne ∈ k0 :: tl := List.getLast_mem hne
    refine ⟨?_, ?_⟩
    · refine List.Pairwise.cons ?_ ?_
      · intro c hc
        have hc' : c ∈ (k0 :: tl) ++ [(k0.1 + P, k0.2)] := hc
        have hl := hrange _ hlast_mem
        rcases List.mem_append.mp hc' with hc | hc
        · have := (hrange c hc).1; simp only; linarith
        · rw [List.mem_singleton] at hc; subst hc
          have := (hrange k0 (by simp)).1; simp only; linarith
      · show List.Pairwise _ ((k0 :: tl) ++ [(k0.1 + P, k0.2)])
        rw [List.pairwise_append]
        refine ⟨hstrict, by simp, ?_⟩
        intro c hc d hd'
        simp only [List.mem_singleton] at hd'
        subst hd'
        have := (hrange c hc).2
        have := (hrange k0 (by simp)).1
        simp only; linarith
    · intro k hk
      have := hperm.mem_iff.mpr hk
      exact List.mem_cons_of_mem _ (List.mem_append_left _ this)


/-- `np.interp(period=P)` returns the knot value at every knot shifted by whole periods -/
theorem interpPeriodic_at_knot (P : ℝ) (hP : 0 < P) (xp fp : List ℝ) (hlen : xp.length = fp.length)
    (hd : (List.zipWith (fun x y => (pmod x P, y)) xp fp).Pairwise (fun p q => p.1 ≠ q.1))
    (i : Nat) (hi : i < xp.length) (m : ℤ) :
    interpPeriodic P xp fp (xp[i] + m * P) = fp[i]'(hlen ▸ hi) := by
  obtain ⟨hs, hmem⟩ := periodicKnots_spec P hP xp fp hd
  unfold interpPeriodic
  rw [pmod_add_int_mul _ _ hP]
  have hk : (pmod xp[i] P, fp[i]'(hlen ▸ hi)) ∈ List.zipWith (fun x y => (pmod x P, y)) xp fp := by
    refine List.mem_iff_getElem.mpr ⟨i, by simp [← hlen, hi], by simp⟩
  exact interpSorted_at_knot _ hs _ (hmem _ hk)

theorem linspaceClosed_length (a b : ℝ) (n : Nat) : (linspaceClosed a b n).length = n := by
  simp [linspaceClosed]

theorem linspaceClosed_getElem (a d : ℝ) (n i : Nat) (hi : i < n) :
    (linspaceClosed a (a + ((n : ℝ) - 1) * d) n)[i]'(by simp [linspaceClosed, hi]) = a + (i : ℝ) * d := by
  simp only [linspaceClosed, List.getElem_map, List.getElem_range, RofNat]
  split_ifs with h
  · have : (i : ℝ) = (n : ℝ) - 1 := by
      have : i + 1 = n := h.1
      rw [← this]; push_cast; ring
    rw [this]
  · by_cases h1 : n = 1
    · subst h1
      have : i = 0 := by omega
      subst this; simp
    · have hn1 : ((n - 1 : Nat) : ℝ) = (n : ℝ) - 1 := by
        rw [Nat.cast_sub (by omega)]; simp
      have hne : (n : ℝ) - 1 ≠ 0 := by
        have : (2 : ℝ) ≤ n := by exact_mod_cast (show 2 ≤ n by omega)
        linarith
      rw [hn1]; field_simp; ring

/-- on a regular grid of `n` knots with step `dt`, interpolation with period `n·dt` returns at
every grid time of every period the value of the knot it is congruent to -/
theorem interp_regular_grid (start dt : ℝ) (hdt : 0 < dt) (n : Nat) (hn : 0 < n) (g : List ℝ)
    (hg : g.length = n) (i : ℤ) :
    interpPeriodic ((n : ℝ) * dt) (linspaceClosed start (start + ((n : ℝ) - 1) * dt) n) g
        (start + (i : ℝ) * dt)
      = g.getD (i % (n : ℤ)).toNat 0 := by
  have hnR : (0 : ℝ) < n := by exact_mod_cast hn
  have hP : 0 < (n : ℝ) * dt := mul_pos hnR hdt
  set xp := linspaceClosed start (start + ((n : ℝ) - 1) * dt) n with hxp
  have hxl : xp.length = n := linspaceClosed_length _ _ _
  have hlen : xp.length = g.length := by rw [hxl, hg]
  have hget : ∀ (j : Nat) (hj : j < n), xp[j]'(by rw [hxl]; exact hj) = start + (j : ℝ) * dt :=
    fun j hj => linspaceClosed_getElem start dt n j hj
  have hd : (List.zipWith (fun x y => (pmod x ((n : ℝ) * dt), y)) xp g).Pairwise
      (fun p q => p.1 ≠ q.1) := by
    rw [List.pairwise_iff_getElem]
    intro a b ha hb hab
    simp only [List.length_zipWith, hxl, hg, min_self] at ha hb
    simp only [List.getElem_zipWith, hget a ha, hget b hb]
    intro heq
    obtain ⟨z, hz⟩ := pmod_eq_imp _ _ _ heq
    have h1 : ((a : ℝ) - b) * dt = (z * n) * dt := by linarith
    have h2 : (a : ℝ) - b = z * n := mul_right_cancel₀ (ne_of_gt hdt) h1
    have h3 : (a : ℤ) - b = z * n := by exact_mod_cast h2
    have hz0 : z = 0 := by
      by_contra hne
      rcases lt_or_gt_of_ne hne with hneg | hpos
      · have : z * (n : ℤ) ≤ -1 * n := Int.mul_le_mul_of_nonneg_right (by omega) (by omega)
        omega
      · have : 1 * (n : ℤ) ≤ z * n := Int.mul_le_mul_of_nonneg_right (by omega) (by omega)
        omega
    rw [hz0] at h3
    omega
  -- i = j + n * q
  set j := (i % (n : ℤ)).toNat with hj
  have hjnn : 0 ≤ i % (n : ℤ) := Int.emod_nonneg _ (by omega)
  have hjlt : i % (n : ℤ) < n := Int.emod_lt_of_pos _ (by omega)
  have hjn : j < n := by omega
  have hji : (j : ℤ) = i % (n : ℤ) := by omega
  have hdecomp : (i : ℝ) = (j : ℝ) + ((i / (n : ℤ) : ℤ) : ℝ) * (n : ℝ) := by
    have := Int.emod_add_mul_ediv i (n : ℤ)
    have h' : i = (j : ℤ) + (i / (n : ℤ)) * n := by rw [hji]; linarith
    exact_mod_cast h'
  have hx : start + (i : ℝ) * dt = xp[j]'(by rw [hxl]; exact hjn) + ((i / (n : ℤ) : ℤ) : ℝ) * ((n : ℝ) * dt) := by
    rw [hget j hjn, hdecomp]; ring
  rw [hx, interpPeriodic_at_knot _ hP xp g hlen hd j (by rw [hxl]; exact hjn)]
  simp [List.getD_eq_getElem?_getD, hg, hjn]

/-- the unrepaired period `(n−1)·dt` (here `n = 2`): the first and last knot collide and sample 0
reads the other knot's value -/
theorem interp_collision (t0 dt g0 g1 : ℝ) (hdt : 0 < dt) :
    interpPeriodic dt [t0, t0 + dt] [g0, g1] t0 = g1 := by
  have h1 : pmod (t0 + dt) dt = pmod t0 dt := by
    have := pmod_add_int_mul t0 dt hdt 1
    simpa using this
  unfold interpPeriodic periodicKnots
  simp only [List.zipWith_cons_cons, List.zipWith_nil_right, h1, sortKnots, insertKnot, le_refl,
    if_true, List.getLast?_cons_cons, List.getLast?_singleton, List.cons_append, List.nil_append]
  unfold interpSorted
  have a1 : ¬ pmod t0 dt < pmod t0 dt := lt_irrefl _
  simp only [a1, if_false]
  unfold interpSorted
  simp only [a1, if_false]
  unfold interpSorted
  have a2 : pmod t0 dt < pmod t0 dt + dt := by linarith
  simp [a2]

end PyrexR.Nz