import Mathlib.Analysis.SpecialFunctions.Complex.Log
import Mathlib.Algebra.Field.GeomSum
import Mathlib.Algebra.BigOperators.Ring.Finset
import Mathlib.Algebra.BigOperators.Field
import Mathlib.Analysis.SpecialFunctions.Sqrt
import Mathlib.Tactic.Ring
import Mathlib.Tactic.Linarith
import Mathlib.Tactic.FieldSimp
import Mathlib.Tactic.LinearCombination

/-! Discrete orthogonality of cosines on the harmonics of one period (used by `C17_unit_amp_rms`). -/
namespace PyrexNoise
open Finset

/-- the geometric sum of a non-trivial `n`-th root of unity vanishes -/
theorem root_geom_sum_eq_zero (n : ℕ) (m : ℤ) (hn : 0 < n) (hm : ¬ ((n : ℤ) ∣ m)) :
    ∑ j ∈ Finset.range n,
      Complex.exp (2 * (Real.pi : ℂ) * Complex.I * ((m : ℂ) / (n : ℂ))) ^ j = 0 := by
  have hnC : (n : ℂ) ≠ 0 := by exact_mod_cast hn.ne'
  have hne : Complex.exp (2 * (Real.pi : ℂ) * Complex.I * ((m : ℂ) / (n : ℂ))) ≠ 1 := by
    intro h
    rw [Complex.exp_eq_one_iff] at h
    obtain ⟨q, hq⟩ := h
    have hpi : (2 * (Real.pi : ℂ) * Complex.I) ≠ 0 := Complex.two_pi_I_ne_zero
    have h2 : (m : ℂ) / (n : ℂ) = (q : ℂ) := by
      apply mul_left_cancel₀ hpi
      rw [hq]; ring
    have h3 : (m : ℂ) = (q : ℂ) * (n : ℂ) := by
      rw [← h2]; field_simp
    apply hm
    refine ⟨q, ?_⟩
    have : ((m : ℤ) : ℂ) = (((n : ℤ) * q : ℤ) : ℂ) := by
      push_cast; rw [h3]; ring
    exact_mod_cast this
  have hpow : Complex.exp (2 * (Real.pi : ℂ) * Complex.I * ((m : ℂ) / (n : ℂ))) ^ n = 1 := by
    rw [← Complex.exp_nat_mul, Complex.exp_eq_one_iff]
    refine ⟨m, ?_⟩
    field_simp
  rw [geom_sum_eq hne, hpow, sub_self, zero_div]

/-- Σ_{j<n} cos(2π·j·m/n + a) = 0 when n ∤ m -/
theorem cos_sum_eq_zero (n : ℕ) (m : ℤ) (hn : 0 < n) (hm : ¬ ((n : ℤ) ∣ m)) (a : ℝ) :
    ∑ j ∈ Finset.range n, Real.cos (2 * Real.pi * ((j : ℝ) * (m : ℝ)) / (n : ℝ) + a) = 0 := by
  have key : ∀ j : ℕ, Real.cos (2 * Real.pi * ((j : ℝ) * (m : ℝ)) / (n : ℝ) + a)
      = (Complex.exp ((a : ℂ) * Complex.I)
          * Complex.exp (2 * (Real.pi : ℂ) * Complex.I * ((m : ℂ) / (n : ℂ))) ^ j).re := by
    intro j
    rw [← Complex.exp_ofReal_mul_I_re, ← Complex.exp_nat_mul, ← Complex.exp_add]
    congr 2
    push_cast
    ring
  rw [Finset.sum_congr rfl (fun j _ => key j), ← Complex.re_sum, ← Finset.mul_sum,
    root_geom_sum_eq_zero n m hn hm, mul_zero, Complex.zero_re]

/-- discrete orthogonality for harmonics strictly between DC and Nyquist -/
theorem cos_orthogonality (n k l : ℕ) (hk : 0 < k) (hl : 0 < l) (hkn : 2 * k < n) (hln : 2 * l < n)
    (a b : ℝ) :
    ∑ j ∈ Finset.range n, Real.cos (2 * Real.pi * (((j * k : ℕ) : ℝ)) / (n : ℝ) - a)
        * Real.cos (2 * Real.pi * (((j * l : ℕ) : ℝ)) / (n : ℝ) - b)
      = if k = l then (n : ℝ) / 2 * Real.cos (a - b) else 0 := by
  have hn : 0 < n := by omega
  -- product to sum
  have prod : ∀ j : ℕ,
      Real.cos (2 * Real.pi * (((j * k : ℕ) : ℝ)) / (n : ℝ) - a)
        * Real.cos (2 * Real.pi * (((j * l : ℕ) : ℝ)) / (n : ℝ) - b)
      = (Real.cos (2 * Real.pi * ((j : ℝ) * (((k : ℤ) - (l : ℤ) : ℤ) : ℝ)) / (n : ℝ) + (b - a))
        + Real.cos (2 * Real.pi * ((j : ℝ) * (((k : ℤ) + (l : ℤ) : ℤ) : ℝ)) / (n : ℝ) + (-a - b)))
          / 2 := by
    intro j
    have e1 : 2 * Real.pi * ((j : ℝ) * (((k : ℤ) - (l : ℤ) : ℤ) : ℝ)) / (n : ℝ) + (b - a)
        = (2 * Real.pi * (((j * k : ℕ) : ℝ)) / (n : ℝ) - a)
          - (2 * Real.pi * (((j * l : ℕ) : ℝ)) / (n : ℝ) - b) := by
      push_cast; ring
    have e2 : 2 * Real.pi * ((j : ℝ) * (((k : ℤ) + (l : ℤ) : ℤ) : ℝ)) / (n : ℝ) + (-a - b)
        = (2 * Real.pi * (((j * k : ℕ) : ℝ)) / (n : ℝ) - a)
          + (2 * Real.pi * (((j * l : ℕ) : ℝ)) / (n : ℝ) - b) := by
      push_cast; ring
    rw [e1, e2]
    generalize 2 * Real.pi * (((j * k : ℕ) : ℝ)) / (n : ℝ) - a = x
    generalize 2 * Real.pi * (((j * l : ℕ) : ℝ)) / (n : ℝ) - b = y
    rw [Real.cos_sub, Real.cos_add]
    ring
  rw [Finset.sum_congr rfl (fun j _ => prod j), ← Finset.sum_div, Finset.sum_add_distrib]
  have hplus : ¬ ((n : ℤ) ∣ ((k : ℤ) + (l : ℤ))) := by
    intro h
    have := Int.le_of_dvd (by omega) h
    omega
  rw [cos_sum_eq_zero n _ hn hplus, add_zero]
  split_ifs with hkl
  · subst hkl
    simp only [sub_self, Int.cast_zero, mul_zero, zero_div, zero_add, Finset.sum_const,
      Finset.card_range, nsmul_eq_mul]
    rw [show b - a = -(a - b) by ring, Real.cos_neg]
    ring
  · have hminus : ¬ ((n : ℤ) ∣ ((k : ℤ) - (l : ℤ))) := by
      intro h
      rcases lt_or_gt_of_ne hkl with h' | h'
      · have h2 : (n : ℤ) ∣ ((l : ℤ) - (k : ℤ)) := by
          have := (dvd_neg.mpr h); simpa using this
        have := Int.le_of_dvd (by omega) h2
        omega
      · have := Int.le_of_dvd (by omega) h
        omega
    rw [cos_sum_eq_zero n _ hn hminus, zero_div]

/-- unit amplitudes on distinct harmonics strictly between DC and Nyquist: the mean square over
one period of `c·√(2/N)·Σ_i cos(2π·j·k_i/n − φ_i)` is `c²` -/
theorem mean_square_unit {ι : Type} [Fintype ι] [DecidableEq ι] (n : ℕ) (k : ι → ℕ)
    (hinj : Function.Injective k) (hk : ∀ i, 0 < k i ∧ 2 * k i < n) (φ : ι → ℝ) (c : ℝ)
    (hN : 0 < Fintype.card ι) :
    (1 / (n : ℝ)) * ∑ j ∈ Finset.range n,
        (c * Real.sqrt (2 / (Fintype.card ι : ℝ))
          * ∑ i, Real.cos (2 * Real.pi * (((j * k i : ℕ) : ℝ)) / (n : ℝ) - φ i)) ^ 2 = c ^ 2 := by
  obtain ⟨i0⟩ : Nonempty ι := Fintype.card_pos_iff.mp hN
  have hn : 0 < n := by have := hk i0; omega
  have hnR : (n : ℝ) ≠ 0 := by exact_mod_cast hn.ne'
  have hNR : (Fintype.card ι : ℝ) ≠ 0 := by exact_mod_cast hN.ne'
  have hsq : Real.sqrt (2 / (Fintype.card ι : ℝ)) ^ 2 = 2 / (Fintype.card ι : ℝ) :=
    Real.sq_sqrt (by positivity)
  have hdouble : ∑ j ∈ Finset.range n,
      (∑ i, Real.cos (2 * Real.pi * (((j * k i : ℕ) : ℝ)) / (n : ℝ) - φ i)) ^ 2
      = (Fintype.card ι : ℝ) * ((n : ℝ) / 2) := by
    simp_rw [sq, Finset.sum_mul_sum]
    rw [Finset.sum_comm]
    have : ∀ i ∈ (Finset.univ : Finset ι), ∑ j ∈ Finset.range n, ∑ i' : ι,
        Real.cos (2 * Real.pi * (((j * k i : ℕ) : ℝ)) / (n : ℝ) - φ i)
          * Real.cos (2 * Real.pi * (((j * k i' : ℕ) : ℝ)) / (n : ℝ) - φ i') = (n : ℝ) / 2 := by
      intro i _
      rw [Finset.sum_comm]
      have : ∀ i' ∈ (Finset.univ : Finset ι), ∑ j ∈ Finset.range n,
          Real.cos (2 * Real.pi * (((j * k i : ℕ) : ℝ)) / (n : ℝ) - φ i)
            * Real.cos (2 * Real.pi * (((j * k i' : ℕ) : ℝ)) / (n : ℝ) - φ i')
          = if i = i' then (n : ℝ) / 2 else 0 := by
        intro i' _
        rw [cos_orthogonality n (k i) (k i') (hk i).1 (hk i').1 (hk i).2 (hk i').2]
        by_cases h : i = i'
        · subst h; simp
        · have : k i ≠ k i' := fun e => h (hinj e)
          simp [h, this]
      rw [Finset.sum_congr rfl this]
      simp
    rw [Finset.sum_congr rfl this]
    simp
  simp_rw [mul_pow]
  rw [← Finset.mul_sum, hdouble, hsq]
  field_simp

end PyrexNoise
