import Mathlib.Analysis.SpecialFunctions.Integrals.Basic
import Mathlib.Analysis.SpecialFunctions.Sqrt
import Mathlib.Algebra.BigOperators.Ring.Finset
import Mathlib.Algebra.BigOperators.Field
import Mathlib.Tactic.Ring
import Mathlib.Tactic.Linarith
import Mathlib.Tactic.FieldSimp
import Mathlib.Tactic.LinearCombination

/-! Continuous-time orthogonality of cosines on distinct positive harmonics of `1/T` and the
resulting mean-square identity over one period. -/
namespace PyrexNoise
open Finset

/-- ∫₀ᵀ cos(2π·m·t/T + a) dt = 0 for a non-zero integer m -/
theorem integral_cos_harmonic (T : ℝ) (hT : 0 < T) (m : ℤ) (hm : m ≠ 0) (a : ℝ) :
    ∫ t in (0:ℝ)..T, Real.cos (2 * Real.pi * (m : ℝ) * t / T + a) = 0 := by
  have hmR : (m : ℝ) ≠ 0 := by exact_mod_cast hm
  have hc : (2 * Real.pi * (m : ℝ) / T) ≠ 0 := by
    have := Real.pi_pos
    positivity
  have h1 : ∀ t : ℝ, Real.cos (2 * Real.pi * (m : ℝ) * t / T + a)
      = Real.cos ((2 * Real.pi * (m : ℝ) / T) * t + a) := by
    intro t; congr 1; ring
  simp only [h1]
  rw [intervalIntegral.integral_comp_mul_add (fun x => Real.cos x) hc a, integral_cos]
  have h2 : 2 * Real.pi * (m : ℝ) / T * T + a = a + (m : ℝ) * (2 * Real.pi) := by
    field_simp; ring
  rw [h2, Real.sin_add_int_mul_two_pi]
  simp

/-- orthogonality over one period -/
theorem integral_cos_mul_cos_harmonic (T : ℝ) (hT : 0 < T) (k l : ℕ) (hk : 0 < k) (hl : 0 < l)
    (a b : ℝ) :
    ∫ t in (0:ℝ)..T, Real.cos (2 * Real.pi * ((k : ℝ) / T) * t + a)
        * Real.cos (2 * Real.pi * ((l : ℝ) / T) * t + b)
      = if k = l then T / 2 * Real.cos (a - b) else 0 := by
  have hT' : T ≠ 0 := hT.ne'
  have hprod : ∀ t : ℝ, Real.cos (2 * Real.pi * ((k : ℝ) / T) * t + a)
        * Real.cos (2 * Real.pi * ((l : ℝ) / T) * t + b)
      = (1 / 2 : ℝ) * (Real.cos (2 * Real.pi * (((k : ℤ) - (l : ℤ) : ℤ) : ℝ) * t / T + (a - b))
          + Real.cos (2 * Real.pi * (((k : ℤ) + (l : ℤ) : ℤ) : ℝ) * t / T + (a + b))) := by
    intro t
    have e1 : 2 * Real.pi * (((k : ℤ) - (l : ℤ) : ℤ) : ℝ) * t / T + (a - b)
        = (2 * Real.pi * ((k : ℝ) / T) * t + a) - (2 * Real.pi * ((l : ℝ) / T) * t + b) := by
      push_cast; ring
    have e2 : 2 * Real.pi * (((k : ℤ) + (l : ℤ) : ℤ) : ℝ) * t / T + (a + b)
        = (2 * Real.pi * ((k : ℝ) / T) * t + a) + (2 * Real.pi * ((l : ℝ) / T) * t + b) := by
      push_cast; ring
    rw [e1, e2]
    generalize 2 * Real.pi * ((k : ℝ) / T) * t + a = x
    generalize 2 * Real.pi * ((l : ℝ) / T) * t + b = y
    rw [Real.cos_sub, Real.cos_add]; ring
  simp only [hprod]
  rw [intervalIntegral.integral_const_mul, intervalIntegral.integral_add
    (Continuous.intervalIntegrable (by fun_prop) _ _)
    (Continuous.intervalIntegrable (by fun_prop) _ _)]
  have hsum : ((k : ℤ) + (l : ℤ)) ≠ 0 := by omega
  rw [integral_cos_harmonic T hT _ hsum]
  by_cases hkl : k = l
  · subst hkl
    simp only [sub_self, Int.cast_zero, mul_zero, zero_mul, zero_div, zero_add, if_true,
      intervalIntegral.integral_const, sub_zero, smul_eq_mul, add_zero]
    ring
  · have hdiff : ((k : ℤ) - (l : ℤ)) ≠ 0 := by omega
    rw [integral_cos_harmonic T hT _ hdiff, if_neg hkl]
    ring

/-- unit amplitudes on distinct positive harmonics of 1/T: the mean square over one period of
`c·√(2/N)·Σ_i cos(2π·(k_i/T)·t + φ_i)` is `c²` -/
theorem mean_square_unit_cont {ι : Type} [Fintype ι] [DecidableEq ι] (T : ℝ) (hT : 0 < T)
    (k : ι → ℕ) (hinj : Function.Injective k) (hk : ∀ i, 0 < k i) (φ : ι → ℝ) (c : ℝ)
    (hN : 0 < Fintype.card ι) :
    (1 / T) * ∫ t in (0:ℝ)..T,
        (c * Real.sqrt (2 / (Fintype.card ι : ℝ))
          * ∑ i, Real.cos (2 * Real.pi * ((k i : ℝ) / T) * t + φ i)) ^ 2
      = c ^ 2 := by
  have hNR : (0 : ℝ) < (Fintype.card ι : ℝ) := by exact_mod_cast hN
  have hsq : Real.sqrt (2 / (Fintype.card ι : ℝ)) ^ 2 = 2 / (Fintype.card ι : ℝ) :=
    Real.sq_sqrt (by positivity)
  have hexp : ∀ t : ℝ,
      (c * Real.sqrt (2 / (Fintype.card ι : ℝ))
          * ∑ i, Real.cos (2 * Real.pi * ((k i : ℝ) / T) * t + φ i)) ^ 2
      = (c ^ 2 * (2 / (Fintype.card ι : ℝ))) *
          ∑ i, ∑ j, Real.cos (2 * Real.pi * ((k i : ℝ) / T) * t + φ i)
            * Real.cos (2 * Real.pi * ((k j : ℝ) / T) * t + φ j) := by
    intro t
    rw [mul_pow, mul_pow, hsq, ← Finset.sum_mul_sum, ← sq]
  simp only [hexp]
  rw [intervalIntegral.integral_const_mul,
    intervalIntegral.integral_finsetSum (fun i _ =>
      Continuous.intervalIntegrable (by fun_prop) _ _)]
  have hinner : ∀ i : ι, (∫ t in (0:ℝ)..T,
      ∑ j, Real.cos (2 * Real.pi * ((k i : ℝ) / T) * t + φ i)
            * Real.cos (2 * Real.pi * ((k j : ℝ) / T) * t + φ j)) = T / 2 := by
    intro i
    rw [intervalIntegral.integral_finsetSum (fun j _ =>
      Continuous.intervalIntegrable (by fun_prop) _ _)]
    simp only [integral_cos_mul_cos_harmonic T hT _ _ (hk _) (hk _)]
    rw [Finset.sum_eq_single i]
    · simp
    · intro j _ hji
      have : k i ≠ k j := fun h => hji (hinj h).symm
      simp [this]
    · intro h; exact absurd (Finset.mem_univ i) h
  simp only [hinner]
  rw [Finset.sum_const, Finset.card_univ, nsmul_eq_mul]
  field_simp


end PyrexNoise
