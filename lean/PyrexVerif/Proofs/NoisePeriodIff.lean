import PyrexVerif.Proofs.NoisePeriodSuff
import PyrexVerif.Proofs.NoiseImpulse
/-! C17: for which periods is `np.interp(period=P)` consistent with the grid at every grid time? -/
namespace PyrexR.Nz

/-- consistent with the grid: at every grid time of every period the interpolant returns the grid
value it is congruent to, whatever the data -/
def GridConsistent (P t0 dt : ℝ) (n : Nat) : Prop :=
  ∀ g : List ℝ, g.length = n → ∀ i : ℤ,
    interpPeriodic P (linspaceClosed t0 (t0 + ((n : ℝ) - 1) * dt) n) g (t0 + (i : ℝ) * dt)
      = g.getD (i % (n : ℤ)).toNat 0

theorem period_iff
    (P t0 dt : ℝ) (hP : 0 < P) (hdt : 0 < dt) (n : Nat) (hn : 2 ≤ n) :
    GridConsistent P t0 dt n ↔ ∃ q : Nat, 0 < q ∧ Nat.Coprime q n ∧ (n : ℝ) * dt = (q : ℝ) * P := by
  have hnR : (0 : ℝ) < n := by exact_mod_cast (show 0 < n by omega)
  constructor
  · intro hc
    have himpl : (impulse n).length = n := by simp [impulse]
    have hval : ∀ m : Nat, m < n → (impulse n).getD m 0 = if m = 0 then 1 else 0 := by
      intro m hm
      simp [impulse, List.getD_eq_getElem?_getD, hm]
    set xp := linspaceClosed t0 (t0 + ((n : ℝ) - 1) * dt) n with hxp
    have hxl : xp.length = n := linspaceClosed_length _ _ _
    have hx0 : xp.getD 0 0 = t0 := by
      have h0 : 0 < xp.length := by rw [hxl]; omega
      have := linspaceClosed_getElem t0 dt n 0 (by omega)
      simp only [List.getD_eq_getElem?_getD, List.getElem?_eq_getElem h0, Option.getD_some]
      simpa using this
    -- the interpolant only sees the residue
    have hres : ∀ (g : List ℝ) (x y : ℝ), pmod x P = pmod y P →
        interpPeriodic P xp g x = interpPeriodic P xp g y := by
      intro g x y h; unfold interpPeriodic; rw [h]
    -- step 1: sample n must read knot 0
    have h1 := hc (impulse n) himpl (n : ℤ)
    have hmod : ((n : ℤ) % (n : ℤ)).toNat = 0 := by simp
    rw [hmod, hval 0 (by omega), if_pos rfl] at h1
    have h2 := interp_impulse_eq_one P hP xp n hn hxl _ h1
    rw [hx0] at h2
    obtain ⟨z, hz⟩ := pmod_eq_imp _ _ _ h2
    have hzP : (n : ℝ) * dt = (z : ℝ) * P := by push_cast at hz; linarith
    have hzpos : 0 < z := by
      have : (0 : ℝ) < (z : ℝ) * P := by rw [← hzP]; exact mul_pos hnR hdt
      have : (0 : ℝ) < (z : ℝ) := by
        by_contra hle
        have hle' : (z : ℝ) ≤ 0 := not_lt.mp hle
        have : (z : ℝ) * P ≤ 0 := mul_nonpos_of_nonpos_of_nonneg hle' hP.le
        linarith
      exact_mod_cast this
    refine ⟨z.toNat, by omega, ?_, ?_⟩
    · -- step 2: a common factor makes two knots with different impulse values collide
      by_contra hnc
      set q := z.toNat with hq
      have hqz : (q : ℤ) = z := by omega
      set d := Nat.gcd q n with hd
      have hd1 : d ≠ 1 := hnc
      have hdpos : 0 < d := Nat.gcd_pos_of_pos_right _ (by omega)
      have hd2 : 2 ≤ d := by omega
      obtain ⟨m, hm⟩ : d ∣ n := Nat.gcd_dvd_right q n
      obtain ⟨q', hq'⟩ : d ∣ q := Nat.gcd_dvd_left q n
      have hmpos : 0 < m := by
        rcases Nat.eq_zero_or_pos m with h | h
        · rw [h] at hm; omega
        · exact h
      have hmlt : m < n := by
        rw [hm]; nlinarith
      have hdR : (0 : ℝ) < d := by exact_mod_cast hdpos
      have hcol : (m : ℝ) * dt = (q' : ℝ) * P := by
        have hqR : (z : ℝ) = (q : ℝ) := by exact_mod_cast hqz.symm
        have e1 : ((d * m : Nat) : ℝ) * dt = ((d * q' : Nat) : ℝ) * P := by
          rw [← hm, ← hq', ← hqR]; exact hzP
        push_cast at e1
        have : (d : ℝ) * ((m : ℝ) * dt) = (d : ℝ) * ((q' : ℝ) * P) := by linarith
        exact mul_left_cancel₀ (ne_of_gt hdR) this
      have hsame : pmod (t0 + ((m : ℤ) : ℝ) * dt) P = pmod (t0 + ((0 : ℤ) : ℝ) * dt) P := by
        have := pmod_add_int_mul t0 P hP (q' : ℤ)
        push_cast at this ⊢
        rw [hcol, zero_mul, add_zero]; exact this
      have ha := hc (impulse n) himpl (m : ℤ)
      have hb := hc (impulse n) himpl (0 : ℤ)
      rw [hres _ _ _ hsame, hb] at ha
      have hm1 : ((m : ℤ) % (n : ℤ)).toNat = m := by
        rw [Int.emod_eq_of_lt (by omega) (by omega)]; simp
      have hm0 : ((0 : ℤ) % (n : ℤ)).toNat = 0 := by simp
      rw [hm1, hm0, hval 0 (by omega), hval m hmlt, if_pos rfl, if_neg (by omega)] at ha
      norm_num at ha
    · have : ((z.toNat : Nat) : ℝ) = (z : ℝ) := by
        have : ((z.toNat : Nat) : ℤ) = z := by omega
        exact_mod_cast this
      rw [this]; exact hzP
  · rintro ⟨q, hq, hcop, hqP⟩ g hg i
    have hqR : (0 : ℝ) < q := by exact_mod_cast hq
    have hPe : P = (n : ℝ) * dt / (q : ℝ) := by
      field_simp; linarith
    rw [hPe]
    exact interp_regular_grid_div t0 dt hdt n (by omega) q hq hcop g hg i


theorem period_unique
    (P t0 dt : ℝ) (hP : 0 < P) (hdt : 0 < dt) (n : Nat) (hn : 2 ≤ n)
    (hspan : ((n : ℝ) - 1) * dt ≤ P) :
    GridConsistent P t0 dt n ↔ P = (n : ℝ) * dt := by
  rw [period_iff P t0 dt hP hdt n hn]
  constructor
  · rintro ⟨q, hq, hcop, hqP⟩
    have hn2 : (2 : ℝ) ≤ n := by exact_mod_cast hn
    rcases Nat.lt_or_ge q 2 with h1 | h2
    · have : q = 1 := by omega
      subst this; simp at hqP; linarith
    · exfalso
      rcases Nat.lt_or_ge q 3 with h3 | h3
      · have hq2 : q = 2 := by omega
        subst hq2
        -- 2P = n dt ≥ 2(n-1)dt forces n = 2, but 2 is not coprime to 2
        have : (n : ℝ) * dt ≥ 2 * (((n : ℝ) - 1) * dt) := by push_cast at hqP; linarith
        have hle : (n : ℝ) ≤ 2 := by nlinarith
        have hn' : n = 2 := by
          have : n ≤ 2 := by exact_mod_cast hle
          omega
        subst hn'
        simp [Nat.Coprime] at hcop
      · have hq3 : (3 : ℝ) ≤ q := by exact_mod_cast h3
        have h1 : (n : ℝ) * dt ≥ 3 * (((n : ℝ) - 1) * dt) := by
          rw [hqP]; nlinarith
        nlinarith
  · intro h
    exact ⟨1, by omega, Nat.coprime_one_left n, by rw [h]; simp⟩

end PyrexR.Nz
