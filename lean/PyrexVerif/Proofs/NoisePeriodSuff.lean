import PyrexVerif.Proofs.NoiseInterp
import Mathlib.Data.Int.GCD
/-! C17: every period `P = n·dt/q` with `q` coprime to `n` is consistent at the grid times (the
knots stay distinct mod `P` and a whole grid period is `q` interpolation periods). -/
namespace PyrexR.Nz

theorem interp_regular_grid_div (start dt : ℝ) (hdt : 0 < dt) (n : Nat) (hn : 0 < n) (q : Nat)
    (hq : 0 < q) (hcop : Nat.Coprime q n) (g : List ℝ) (hg : g.length = n) (i : ℤ) :
    interpPeriodic ((n : ℝ) * dt / (q : ℝ)) (linspaceClosed start (start + ((n : ℝ) - 1) * dt) n) g
        (start + (i : ℝ) * dt)
      = g.getD (i % (n : ℤ)).toNat 0 := by
  have hnR : (0 : ℝ) < n := by exact_mod_cast hn
  have hqR : (0 : ℝ) < q := by exact_mod_cast hq
  have hP : 0 < (n : ℝ) * dt / (q : ℝ) := div_pos (mul_pos hnR hdt) hqR
  set xp := linspaceClosed start (start + ((n : ℝ) - 1) * dt) n with hxp
  have hxl : xp.length = n := linspaceClosed_length _ _ _
  have hlen : xp.length = g.length := by rw [hxl, hg]
  have hget : ∀ (j : Nat) (hj : j < n), xp[j]'(by rw [hxl]; exact hj) = start + (j : ℝ) * dt :=
    fun j hj => linspaceClosed_getElem start dt n j hj
  have hd : (List.zipWith (fun x y => (pmod x ((n : ℝ) * dt / (q : ℝ)), y)) xp g).Pairwise
      (fun p q => p.1 ≠ q.1) := by
    rw [List.pairwise_iff_getElem]
    intro a b ha hb hab
    simp only [List.length_zipWith, hxl, hg, min_self] at ha hb
    simp only [List.getElem_zipWith, hget a ha, hget b hb]
    intro heq
    obtain ⟨z, hz⟩ := pmod_eq_imp _ _ _ heq
    have h2 : (q : ℝ) * ((a : ℝ) - b) = z * n := by
      have : ((a : ℝ) - b) * dt = z * ((n : ℝ) * dt / (q : ℝ)) := by linarith
      field_simp at this
      linarith
    have h3 : (q : ℤ) * ((a : ℤ) - b) = z * n := by exact_mod_cast h2
    have hdvd : (n : ℤ) ∣ (q : ℤ) * ((a : ℤ) - b) := ⟨z, by rw [h3]; ring⟩
    have hgcd : Int.gcd (n : ℤ) (q : ℤ) = 1 := by
      rw [Int.gcd_natCast_natCast, Nat.gcd_comm]; exact hcop
    obtain ⟨w, hw⟩ := Int.dvd_of_dvd_mul_right_of_gcd_one hdvd hgcd
    have hw0 : w = 0 := by
      by_contra hne
      rcases lt_or_gt_of_ne hne with hneg | hpos
      · have : (n : ℤ) * w ≤ n * (-1) := Int.mul_le_mul_of_nonneg_left (by omega) (by omega)
        omega
      · have : (n : ℤ) * 1 ≤ n * w := Int.mul_le_mul_of_nonneg_left (by omega) (by omega)
        omega
    rw [hw0] at hw
    omega
  set j := (i % (n : ℤ)).toNat with hj
  have hjnn : 0 ≤ i % (n : ℤ) := Int.emod_nonneg _ (by omega)
  have hjlt : i % (n : ℤ) < n := Int.emod_lt_of_pos _ (by omega)
  have hjn : j < n := by omega
  have hji : (j : ℤ) = i % (n : ℤ) := by omega
  have hdecomp : (i : ℝ) = (j : ℝ) + ((i / (n : ℤ) : ℤ) : ℝ) * (n : ℝ) := by
    have := Int.emod_add_mul_ediv i (n : ℤ)
    have h' : i = (j : ℤ) + (i / (n : ℤ)) * n := by rw [hji]; linarith
    exact_mod_cast h'
  have hx : start + (i : ℝ) * dt
      = xp[j]'(by rw [hxl]; exact hjn) + (((i / (n : ℤ)) * (q : ℤ) : ℤ) : ℝ) * ((n : ℝ) * dt / (q : ℝ)) := by
    rw [hget j hjn, hdecomp]; push_cast; field_simp; ring
  rw [hx, interpPeriodic_at_knot _ hP xp g hlen hd j (by rw [hxl]; exact hjn)]
  simp [List.getD_eq_getElem?_getD, hg, hjn]

end PyrexR.Nz
