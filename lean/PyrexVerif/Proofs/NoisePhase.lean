import Mathlib.Analysis.SpecialFunctions.Integrals.Basic
import Mathlib.MeasureTheory.Integral.Pi
import Mathlib.MeasureTheory.Constructions.Pi
import Mathlib.MeasureTheory.Integral.IntervalIntegral.Basic
import Mathlib.Tactic.Linarith
import Mathlib.Tactic.Ring
import Mathlib.Tactic.FieldSimp

/-! Averages over independent uniform phases (used by `C17_rayleigh_mean_square`). -/
namespace PyrexNoise
open MeasureTheory Real

/-- (1/2π)∫₀^{2π} cos(α+φ) dφ = 0 -/
theorem phase_avg_cos (α : ℝ) :
    (1 / (2 * Real.pi)) * ∫ φ in (0:ℝ)..(2 * Real.pi), Real.cos (α + φ) = 0 := by
  rw [intervalIntegral.integral_comp_add_left (fun x => Real.cos x) α, integral_cos]
  simp [Real.sin_add_two_pi]

/-- (1/2π)∫₀^{2π} cos²(α+φ) dφ = 1/2 -/
theorem phase_avg_cos_sq (α : ℝ) :
    (1 / (2 * Real.pi)) * ∫ φ in (0:ℝ)..(2 * Real.pi), Real.cos (α + φ) ^ 2 = 1 / 2 := by
  rw [intervalIntegral.integral_comp_add_left (fun x => Real.cos x ^ 2) α, integral_cos_sq]
  rw [Real.cos_add_two_pi, Real.sin_add_two_pi]
  have hpi : Real.pi ≠ 0 := Real.pi_ne_zero
  field_simp
  ring_nf

/-- the uniform probability measure on one turn of phase -/
noncomputable def phaseMeasure : MeasureTheory.Measure ℝ :=
  (ENNReal.ofReal (1 / (2 * Real.pi))) •
    MeasureTheory.volume.restrict (Set.Ioc 0 (2 * Real.pi))

instance : MeasureTheory.IsProbabilityMeasure phaseMeasure := by
  constructor
  have h2 : (0:ℝ) ≤ 2 * Real.pi := by positivity
  have h1 : (0:ℝ) ≤ 1 / (2 * Real.pi) := by positivity
  simp only [phaseMeasure, Measure.smul_apply, Measure.restrict_apply MeasurableSet.univ,
    Set.univ_inter, Real.volume_Ioc, smul_eq_mul, sub_zero]
  rw [← ENNReal.ofReal_mul h1, ← ENNReal.ofReal_one]
  congr 1
  have hpi : Real.pi ≠ 0 := Real.pi_ne_zero
  field_simp

/-- integral against `phaseMeasure` is the normalised interval integral -/
theorem integral_phaseMeasure (f : ℝ → ℝ) :
    ∫ x, f x ∂phaseMeasure = (1 / (2 * Real.pi)) * ∫ φ in (0:ℝ)..(2 * Real.pi), f φ := by
  have h2 : (0:ℝ) ≤ 2 * Real.pi := by positivity
  have h1 : (0:ℝ) ≤ 1 / (2 * Real.pi) := by positivity
  rw [phaseMeasure, integral_smul_measure, intervalIntegral.integral_of_le h2,
    ENNReal.toReal_ofReal h1, smul_eq_mul]

theorem phaseMeasure_cos (α : ℝ) : ∫ x, Real.cos (α + x) ∂phaseMeasure = 0 := by
  rw [integral_phaseMeasure]; exact phase_avg_cos α

theorem phaseMeasure_cos_sq (α : ℝ) : ∫ x, Real.cos (α + x) ^ 2 ∂phaseMeasure = 1 / 2 := by
  rw [integral_phaseMeasure]; exact phase_avg_cos_sq α

section Pi

variable {ι : Type} [Fintype ι]

/-- the product of independent uniform phases -/
noncomputable abbrev phasePi (ι : Type) [Fintype ι] : Measure (ι → ℝ) :=
  Measure.pi (fun _ : ι => phaseMeasure)

/-- functions of two different coordinates are uncorrelated under the product measure -/
theorem phasePi_integral_mul [DecidableEq ι] {i j : ι} (hij : i ≠ j) (g h : ℝ → ℝ) :
    ∫ x : ι → ℝ, g (x i) * h (x j) ∂(phasePi ι)
      = (∫ x, g x ∂phaseMeasure) * ∫ x, h x ∂phaseMeasure := by
  let f : ι → ℝ → ℝ := fun k => if k = i then g else if k = j then h else fun _ => 1
  have hfi : f i = g := by simp [f]
  have hfj : f j = h := by simp [f, hij.symm]
  have hfk : ∀ k, k ≠ i ∧ k ≠ j → f k = fun _ => 1 := by
    intro k hk; simp [f, hk.1, hk.2]
  have hprod : ∀ x : ι → ℝ, ∏ k, f k (x k) = g (x i) * h (x j) := by
    intro x
    rw [Finset.prod_eq_mul i j hij (fun k _ hk => by rw [hfk k hk])
      (fun hi => absurd (Finset.mem_univ i) hi) (fun hj => absurd (Finset.mem_univ j) hj),
      hfi, hfj]
  have hint : ∏ k, ∫ x, f k x ∂phaseMeasure
      = (∫ x, g x ∂phaseMeasure) * ∫ x, h x ∂phaseMeasure := by
    rw [Finset.prod_eq_mul i j hij (fun k _ hk => by rw [hfk k hk]; simp)
      (fun hi => absurd (Finset.mem_univ i) hi) (fun hj => absurd (Finset.mem_univ j) hj),
      hfi, hfj]
  rw [← hint, ← integral_fintype_prod_eq_prod (μ := fun _ : ι => phaseMeasure) f]
  exact integral_congr_ae (Filter.Eventually.of_forall fun x => (hprod x).symm)

theorem phasePi_cos (α : ℝ) (i : ι) :
    ∫ x : ι → ℝ, Real.cos (α + x i) ∂(phasePi ι) = 0 := by
  rw [integral_comp_eval (μ := fun _ : ι => phaseMeasure) (i := i)
    (f := fun x => Real.cos (α + x)) (by fun_prop : Continuous fun x => Real.cos (α + x)).aestronglyMeasurable]
  exact phaseMeasure_cos α

theorem phasePi_cos_sq (α : ℝ) (i : ι) :
    ∫ x : ι → ℝ, Real.cos (α + x i) ^ 2 ∂(phasePi ι) = 1 / 2 := by
  rw [integral_comp_eval (μ := fun _ : ι => phaseMeasure) (i := i)
    (f := fun x => Real.cos (α + x) ^ 2)
    (by fun_prop : Continuous fun x => Real.cos (α + x) ^ 2).aestronglyMeasurable]
  exact phaseMeasure_cos_sq α

theorem phasePi_cos_mul_cos [DecidableEq ι] (α β : ℝ) {i j : ι} (hij : i ≠ j) :
    ∫ x : ι → ℝ, Real.cos (α + x i) * Real.cos (β + x j) ∂(phasePi ι) = 0 := by
  rw [phasePi_integral_mul hij (fun x => Real.cos (α + x)) (fun x => Real.cos (β + x)),
    phaseMeasure_cos, zero_mul]

theorem phasePi_integrable_term (a α : ι → ℝ) (i j : ι) :
    Integrable (fun φ : ι → ℝ =>
      (a i * Real.cos (α i + φ i)) * (a j * Real.cos (α j + φ j))) (phasePi ι) := by
  refine Integrable.of_bound (C := |a i| * |a j|) ?_ ?_
  · exact (by fun_prop : Continuous fun φ : ι → ℝ =>
      (a i * Real.cos (α i + φ i)) * (a j * Real.cos (α j + φ j))).aestronglyMeasurable
  · refine Filter.Eventually.of_forall fun φ => ?_
    rw [Real.norm_eq_abs, abs_mul, abs_mul, abs_mul]
    have h1 := Real.abs_cos_le_one (α i + φ i)
    have h2 := Real.abs_cos_le_one (α j + φ j)
    have := abs_nonneg (a i)
    have := abs_nonneg (a j)
    have := abs_nonneg (Real.cos (α i + φ i))
    have := abs_nonneg (Real.cos (α j + φ j))
    gcongr <;> nlinarith

end Pi

/-- independent uniform phases: E[(Σ_i a_i cos(α_i + φ_i))²] = ½ Σ_i a_i² -/
theorem phase_mean_square {ι : Type} [Fintype ι] [DecidableEq ι] (a α : ι → ℝ) :
    ∫ φ : ι → ℝ, (∑ i, a i * Real.cos (α i + φ i)) ^ 2
        ∂(MeasureTheory.Measure.pi (fun _ : ι => phaseMeasure))
      = (1 / 2) * ∑ i, a i ^ 2 := by
  have hexp : ∀ φ : ι → ℝ, (∑ i, a i * Real.cos (α i + φ i)) ^ 2
      = ∑ i, ∑ j, (a i * Real.cos (α i + φ i)) * (a j * Real.cos (α j + φ j)) := by
    intro φ; rw [sq, Finset.sum_mul_sum]
  simp_rw [hexp]
  rw [integral_finsetSum _ (fun i _ => integrable_finsetSum _
    (fun j _ => phasePi_integrable_term a α i j))]
  rw [Finset.mul_sum]
  refine Finset.sum_congr rfl fun i _ => ?_
  rw [integral_finsetSum _ (fun j _ => phasePi_integrable_term a α i j)]
  rw [Finset.sum_eq_single i]
  · have : ∀ φ : ι → ℝ, (a i * Real.cos (α i + φ i)) * (a i * Real.cos (α i + φ i))
        = a i ^ 2 * Real.cos (α i + φ i) ^ 2 := fun φ => by ring
    simp_rw [this]
    rw [integral_const_mul]
    have := phasePi_cos_sq (ι := ι) (α i) i
    rw [phasePi] at this
    rw [this]; ring
  · intro j _ hji
    have : ∀ φ : ι → ℝ, (a i * Real.cos (α i + φ i)) * (a j * Real.cos (α j + φ j))
        = (a i * a j) * (Real.cos (α i + φ i) * Real.cos (α j + φ j)) := fun φ => by ring
    simp_rw [this]
    rw [integral_const_mul]
    have := phasePi_cos_mul_cos (ι := ι) (α i) (α j) (Ne.symm hji)
    rw [phasePi] at this
    rw [this, mul_zero]
  · intro hi; exact absurd (Finset.mem_univ i) hi

end PyrexNoise
