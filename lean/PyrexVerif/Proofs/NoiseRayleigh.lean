import Mathlib.MeasureTheory.Integral.Gamma
import Mathlib.Analysis.SpecialFunctions.Gamma.Basic
import Mathlib.Analysis.SpecialFunctions.Pow.Real
import Mathlib.Analysis.SpecialFunctions.Sqrt

/-!
# The Rayleigh law: total mass and second moment

The Rayleigh distribution with scale `σ > 0` has density
`x ↦ (x/σ²)·exp(−x²/(2σ²))` on `(0, ∞)`.  It is a probability density and its
second moment is `2σ²`; for `σ = 1/√2` (the scale that
`numpy.random.rayleigh(1/np.sqrt(2))` uses) the second moment is `1`.
-/

namespace PyrexNoise

open MeasureTheory Set Real

/-- the Rayleigh density -/
noncomputable def rayleighPdf (σ x : ℝ) : ℝ := x / σ ^ 2 * Real.exp (-(x ^ 2) / (2 * σ ^ 2))

/-- `∫₀^∞ x·exp(−b·x²) dx = 1/(2b)`. -/
theorem integral_id_mul_exp_neg_mul_sq (b : ℝ) (hb : 0 < b) :
    ∫ x in Set.Ioi (0 : ℝ), x * Real.exp (-b * x ^ 2) = 1 / (2 * b) := by
  have h := integral_rpow_mul_exp_neg_mul_rpow (p := 2) (q := 1) (b := b)
    (by norm_num) (by norm_num) hb
  have e1 : (-(1 + 1 : ℝ) / 2) = -1 := by norm_num
  have e2 : ((1 + 1 : ℝ) / 2) = 1 := by norm_num
  rw [e1, e2, Real.Gamma_one, Real.rpow_neg_one] at h
  have hcongr : ∫ x in Set.Ioi (0 : ℝ), x * Real.exp (-b * x ^ 2)
      = ∫ x in Set.Ioi (0 : ℝ), x ^ (1 : ℝ) * Real.exp (-b * x ^ (2 : ℝ)) := by
    refine setIntegral_congr_fun measurableSet_Ioi (fun x _ => ?_)
    simp only [Real.rpow_one, Real.rpow_two]
  rw [hcongr, h]
  field_simp

/-- `∫₀^∞ x³·exp(−b·x²) dx = 1/(2b²)`. -/
theorem integral_cube_mul_exp_neg_mul_sq (b : ℝ) (hb : 0 < b) :
    ∫ x in Set.Ioi (0 : ℝ), x ^ 3 * Real.exp (-b * x ^ 2) = 1 / (2 * b ^ 2) := by
  have h := integral_rpow_mul_exp_neg_mul_rpow (p := 2) (q := 3) (b := b)
    (by norm_num) (by norm_num) hb
  have e1 : (-(3 + 1 : ℝ) / 2) = -2 := by norm_num
  have e2 : ((3 + 1 : ℝ) / 2) = 2 := by norm_num
  have hG : Real.Gamma 2 = 1 := by
    have := Real.Gamma_add_one (s := 1) one_ne_zero
    rw [Real.Gamma_one, one_add_one_eq_two, mul_one] at this
    exact this
  rw [e1, e2, hG, Real.rpow_neg hb.le, Real.rpow_two] at h
  have hcongr : ∫ x in Set.Ioi (0 : ℝ), x ^ 3 * Real.exp (-b * x ^ 2)
      = ∫ x in Set.Ioi (0 : ℝ), x ^ (3 : ℝ) * Real.exp (-b * x ^ (2 : ℝ)) := by
    refine setIntegral_congr_fun measurableSet_Ioi (fun x _ => ?_)
    simp only [Real.rpow_two]
    rw [show (3 : ℝ) = ((3 : ℕ) : ℝ) by norm_num, Real.rpow_natCast]
  rw [hcongr, h]
  field_simp

/-- The Rayleigh density is non-negative on `[0, ∞)`. -/
theorem rayleighPdf_nonneg (σ x : ℝ) (hx : 0 ≤ x) : 0 ≤ rayleighPdf σ x := by
  unfold rayleighPdf
  positivity

/-- The Rayleigh density integrates to one. -/
theorem rayleigh_total_mass (σ : ℝ) (hσ : 0 < σ) :
    ∫ x in Set.Ioi (0 : ℝ), rayleighPdf σ x = 1 := by
  have hb : 0 < 1 / (2 * σ ^ 2) := by positivity
  have hcongr : ∫ x in Set.Ioi (0 : ℝ), rayleighPdf σ x
      = ∫ x in Set.Ioi (0 : ℝ),
          (1 / σ ^ 2) * (x * Real.exp (-(1 / (2 * σ ^ 2)) * x ^ 2)) := by
    refine setIntegral_congr_fun measurableSet_Ioi (fun x _ => ?_)
    simp only [rayleighPdf]
    have : -(x ^ 2) / (2 * σ ^ 2) = -(1 / (2 * σ ^ 2)) * x ^ 2 := by ring
    rw [this]; ring
  rw [hcongr, integral_const_mul, integral_id_mul_exp_neg_mul_sq _ hb]
  field_simp

/-- The second moment of the Rayleigh law with scale `σ` is `2σ²`. -/
theorem rayleigh_second_moment (σ : ℝ) (hσ : 0 < σ) :
    ∫ x in Set.Ioi (0 : ℝ), x ^ 2 * rayleighPdf σ x = 2 * σ ^ 2 := by
  have hb : 0 < 1 / (2 * σ ^ 2) := by positivity
  have hcongr : ∫ x in Set.Ioi (0 : ℝ), x ^ 2 * rayleighPdf σ x
      = ∫ x in Set.Ioi (0 : ℝ),
          (1 / σ ^ 2) * (x ^ 3 * Real.exp (-(1 / (2 * σ ^ 2)) * x ^ 2)) := by
    refine setIntegral_congr_fun measurableSet_Ioi (fun x _ => ?_)
    simp only [rayleighPdf]
    have : -(x ^ 2) / (2 * σ ^ 2) = -(1 / (2 * σ ^ 2)) * x ^ 2 := by ring
    rw [this]; ring
  rw [hcongr, integral_const_mul, integral_cube_mul_exp_neg_mul_sq _ hb]
  field_simp

/-- With the scale `1/√2` used by `numpy.random.rayleigh(1/np.sqrt(2))` the second moment is 1. -/
theorem rayleigh_second_moment_numpy :
    ∫ x in Set.Ioi (0 : ℝ), x ^ 2 * rayleighPdf (1 / Real.sqrt 2) x = 1 := by
  have hs : 0 < 1 / Real.sqrt 2 := by positivity
  rw [rayleigh_second_moment _ hs, div_pow, Real.sq_sqrt (by norm_num : (0 : ℝ) ≤ 2)]
  norm_num

end PyrexNoise
