import PyrexVerif.R.Propagate
import Mathlib.Tactic.Linarith
import Mathlib.Tactic.Positivity
import Mathlib.Tactic.Ring
import Mathlib.Tactic.NormNum
/-!
# C03 — `AntarcticIce.attenuation_length`: positive, and not growing with the frequency

Lemmas about `antarcticTempC`, `attenB0/1/2`, `antarcticAttenLength` of `twin/Propagate.body` (ℝ reading).
-/
noncomputable section
namespace PropLemmas
open PyrexR

/-- `b₂ − b₁ = 2.1265 + 0.068714 t + 1.441·10⁻³ t² ≥ 1.3` for **every** temperature -/
lemma attenB2_sub_B1_ge (t : ℝ) : 1.3 ≤ attenB2 t - attenB1 t := by
  unfold attenB2 attenB1
  nlinarith [sq_nonneg (t + 23.84)]

lemma attenB2_sub_B1_pos (t : ℝ) : 0 < attenB2 t - attenB1 t := by
  linarith [attenB2_sub_B1_ge t]

/-- `b₀ − b₁ = −0.5277 + 0.097636 t + 8.89·10⁻⁴ t² < 0` for `−60 ≤ t ≤ 0` (°C) -/
lemma attenB0_sub_B1_neg (t : ℝ) (h1 : -60 ≤ t) (h2 : t ≤ 0) : attenB0 t - attenB1 t < 0 := by
  unfold attenB0 attenB1
  nlinarith [mul_nonneg (neg_nonneg.mpr h2) (by linarith : (0 : ℝ) ≤ t + 60)]

/-- the temperature profile stays in `[−51.07, 0]` °C over the whole ice sheet `−2850 m ≤ z ≤ 0` -/
theorem antarctic_temp_range (z : ℝ) (h1 : -2850 ≤ z) (h2 : z ≤ 0) :
    -51.07 ≤ antarcticTempC z ∧ antarcticTempC z ≤ 0 := by
  unfold antarcticTempC
  have hu0 : 0 ≤ -0.001 * z := by nlinarith
  have hu1 : -0.001 * z ≤ 2.85 := by nlinarith
  generalize -0.001 * z = u at hu0 hu1
  have hi0 : 0 ≤ 2.677 + u * (-0.01591 + u * 1.83415) := by nlinarith [mul_nonneg hu0 hu0]
  have hi1 : 2.677 + u * (-0.01591 + u * 1.83415) ≤ 17.575 := by
    nlinarith [mul_nonneg hu0 hu0, mul_nonneg hu0 (sub_nonneg.mpr hu1)]
  constructor
  · nlinarith [mul_nonneg hu0 hi0]
  · have := mul_le_mul hu1 hi1 hi0 (by norm_num : (0 : ℝ) ≤ 2.85)
    nlinarith

/-- the attenuation length is positive for every depth and frequency -/
theorem L_antarctic_pos (z f : ℝ) : 0 < antarcticAttenLength z f := by
  unfold antarcticAttenLength
  exact Real.exp_pos _

lemma log_1em4_neg : Real.log 1e-4 < 0 := Real.log_neg (by norm_num) (by norm_num)
lemma log_316_pos : 0 < Real.log 3.16 := Real.log_pos (by norm_num)

/-- general form: wherever `b₀(t) ≤ b₁(t)` at the temperature of depth `z`, the attenuation length
does not grow with the frequency (`b₂ − b₁ > 0` holds for every temperature) -/
theorem L_antarctic_mono' (z f₁ f₂ : ℝ)
    (ht : attenB0 (antarcticTempC z) ≤ attenB1 (antarcticTempC z)) (hf1 : 0 < f₁) (hf : f₁ ≤ f₂) :
    antarcticAttenLength z f₂ ≤ antarcticAttenLength z f₁ := by
  unfold antarcticAttenLength
  simp only [Rexp, Rlog]
  generalize antarcticTempC z = t at ht
  have hb0 : 0 ≤ (attenB0 t - attenB1 t) / Real.log 1e-4 :=
    div_nonneg_of_nonpos (sub_nonpos.mpr ht) log_1em4_neg.le
  have hb2 : 0 ≤ (attenB2 t - attenB1 t) / Real.log 3.16 :=
    div_nonneg (attenB2_sub_B1_pos t).le log_316_pos.le
  have hp1 : 0 < f₁ * 1e-9 := by positivity
  have hlog : Real.log (f₁ * 1e-9) ≤ Real.log (f₂ * 1e-9) :=
    Real.log_le_log hp1 (by nlinarith)
  rw [Real.exp_le_exp, neg_le_neg_iff, add_le_add_iff_left]
  by_cases c1 : f₁ < 1e9 <;> by_cases c2 : f₂ < 1e9
  · rw [if_pos c1, if_pos c2]
    exact mul_le_mul_of_nonneg_left hlog hb0
  · rw [if_pos c1, if_neg c2]
    have hl1 : Real.log (f₁ * 1e-9) ≤ 0 := Real.log_nonpos hp1.le (by nlinarith)
    have hl2 : 0 ≤ Real.log (f₂ * 1e-9) := Real.log_nonneg (by nlinarith [not_lt.mp c2])
    nlinarith [mul_nonneg hb0 (neg_nonneg.mpr hl1), mul_nonneg hb2 hl2]
  · exact absurd (lt_of_le_of_lt hf c2) c1
  · rw [if_neg c1, if_neg c2]
    exact mul_le_mul_of_nonneg_left hlog hb2

/-- **A7**: for ice temperatures `−60 °C ≤ t ≤ 0 °C` the attenuation length does not grow with `f` -/
theorem L_antarctic_mono (z f₁ f₂ : ℝ) (ht1 : -60 ≤ antarcticTempC z) (ht2 : antarcticTempC z ≤ 0)
    (hf1 : 0 < f₁) (hf : f₁ ≤ f₂) : antarcticAttenLength z f₂ ≤ antarcticAttenLength z f₁ :=
  L_antarctic_mono' z f₁ f₂ (by linarith [attenB0_sub_B1_neg _ ht1 ht2]) hf1 hf

/-- the same with the hypothesis on the depth: anywhere in the ice sheet -/
theorem L_antarctic_mono_depth (z f₁ f₂ : ℝ) (h1 : -2850 ≤ z) (h2 : z ≤ 0)
    (hf1 : 0 < f₁) (hf : f₁ ≤ f₂) : antarcticAttenLength z f₂ ≤ antarcticAttenLength z f₁ := by
  obtain ⟨ha, hb⟩ := antarctic_temp_range z h1 h2
  exact L_antarctic_mono z f₁ f₂ (by linarith) hb hf1 hf

end PropLemmas
end
