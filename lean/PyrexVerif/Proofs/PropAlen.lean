import PyrexVerif.R.IceAtten
import PyrexVerif.Props.C16
import Mathlib.Tactic.Linarith
import Mathlib.Tactic.Positivity
import Mathlib.Tactic.Ring
import Mathlib.Tactic.NormNum
/-!
# C03 — attenuation lengths of the shipped ices: positive, and not growing with the frequency

About `attenAntarctic`, `attenGreenland`, `attenArasim` of `twin/IceAtten.body`, whose constants and formulas
(`ant_tempC`, `ant_b0/b1/b2`, `ant_w0/w2`, `grn_alenRaw`, `ara_depths`, …) are REGENERATED from
`pyrex/ice_model.py` by `harness/extract/ice_consts.py`: an edited coefficient re-opens these proofs.
-/
noncomputable section
namespace PropLemmas
open PyrexR

/-- `b₂ − b₁ = 2.1265 + 0.068714 t + 1.441·10⁻³ t² ≥ 1.3` for **every** temperature -/
lemma ant_b2_sub_b1_ge (t : ℝ) : 1.3 ≤ ant_b2 t - ant_b1 t := by
  unfold ant_b2 ant_b1
  nlinarith [sq_nonneg (t + 23.84)]

/-- `b₀ − b₁ = −0.5277 + 0.097636 t + 8.89·10⁻⁴ t² < 0` for `−60 ≤ t ≤ 0` (°C) -/
lemma ant_b0_sub_b1_neg (t : ℝ) (h1 : -60 ≤ t) (h2 : t ≤ 0) : ant_b0 t - ant_b1 t < 0 := by
  unfold ant_b0 ant_b1
  nlinarith [mul_nonneg (neg_nonneg.mpr h2) (by linarith : (0 : ℝ) ≤ t + 60)]

/-- the temperature profile stays in `[−51.07, 0]` °C over the whole valid range of the ice model -/
theorem antarctic_temp_range (z : ℝ) (h1 : ant_lo ≤ z) (h2 : z ≤ ant_hi) :
    -51.07 ≤ ant_tempC z ∧ ant_tempC z ≤ 0 := by
  unfold ant_lo at h1
  unfold ant_hi at h2
  unfold ant_tempC
  simp only
  have hu0 : 0 ≤ -0.001 * z := by nlinarith
  have hu1 : -0.001 * z ≤ 2.85 := by nlinarith
  generalize -0.001 * z = u at hu0 hu1
  have hi0 : 0 ≤ 2.677 + u * (-0.01591 + u * 1.83415) := by nlinarith [mul_nonneg hu0 hu0]
  have hi1 : 2.677 + u * (-0.01591 + u * 1.83415) ≤ 17.575 := by
    nlinarith [mul_nonneg hu0 hu0, mul_nonneg hu0 (sub_nonneg.mpr hu1)]
  constructor
  · nlinarith [mul_nonneg hu0 hi0]
  · have := mul_le_mul hu1 hi1 hi0 (by norm_num : (0 : ℝ) ≤ 2.85)
    nlinarith

lemma ant_w0_neg : ant_w0 < 0 := by
  unfold ant_w0; exact Real.log_neg (by norm_num) (by norm_num)
lemma ant_w2_pos : 0 < ant_w2 := by
  unfold ant_w2; exact Real.log_pos (by norm_num)

/-- general form: wherever `b₀(t) ≤ b₁(t)` at the temperature of depth `z`, the attenuation length does not
grow with the frequency (`b₂ − b₁ > 0` holds for every temperature; continuity at the 1 GHz split) -/
theorem L_antarctic_mono' (z f₁ f₂ : ℝ)
    (ht : ant_b0 (ant_tempC z) ≤ ant_b1 (ant_tempC z)) (hf1 : 0 < f₁) (hf : f₁ ≤ f₂) :
    attenAntarctic z f₂ ≤ attenAntarctic z f₁ := by
  unfold attenAntarctic ant_attenOf ant_coefA ant_coefB ant_w ant_fSplit
  simp only [Rexp, Rlog, ite_self]
  generalize ant_tempC z = t at ht
  have hb0 : 0 ≤ (ant_b0 t - ant_b1 t) / ant_w0 :=
    div_nonneg_of_nonpos (sub_nonpos.mpr ht) ant_w0_neg.le
  have hb2 : 0 ≤ (ant_b2 t - ant_b1 t) / ant_w2 :=
    div_nonneg (by linarith [ant_b2_sub_b1_ge t]) ant_w2_pos.le
  have hp1 : 0 < f₁ * 1.0e-9 := by positivity
  have hlog : Real.log (f₁ * 1.0e-9) ≤ Real.log (f₂ * 1.0e-9) :=
    Real.log_le_log hp1 (by nlinarith)
  rw [Real.exp_le_exp, neg_le_neg_iff, add_le_add_iff_left]
  by_cases c1 : f₁ < 1000000000.0 <;> by_cases c2 : f₂ < 1000000000.0
  · rw [if_pos c1, if_pos c2]
    exact mul_le_mul_of_nonneg_left hlog hb0
  · rw [if_pos c1, if_neg c2]
    have hl1 : Real.log (f₁ * 1.0e-9) ≤ 0 := Real.log_nonpos hp1.le (by nlinarith)
    have hl2 : 0 ≤ Real.log (f₂ * 1.0e-9) := Real.log_nonneg (by nlinarith [not_lt.mp c2])
    nlinarith [mul_nonneg hb0 (neg_nonneg.mpr hl1), mul_nonneg hb2 hl2]
  · exact absurd (lt_of_le_of_lt hf c2) c1
  · rw [if_neg c1, if_neg c2]
    exact mul_le_mul_of_nonneg_left hlog hb2

/-- for ice temperatures `−60 °C ≤ t ≤ 0 °C` the attenuation length does not grow with `f` -/
theorem L_antarctic_mono (z f₁ f₂ : ℝ) (ht1 : -60 ≤ ant_tempC z) (ht2 : ant_tempC z ≤ 0)
    (hf1 : 0 < f₁) (hf : f₁ ≤ f₂) : attenAntarctic z f₂ ≤ attenAntarctic z f₁ :=
  L_antarctic_mono' z f₁ f₂ (by linarith [ant_b0_sub_b1_neg _ ht1 ht2]) hf1 hf

/-- **AntarcticIce** (and `UniformIce`, which borrows its attenuation): anywhere in the valid range -/
theorem L_antarctic_mono_depth (z f₁ f₂ : ℝ) (h1 : ant_lo ≤ z) (h2 : z ≤ ant_hi)
    (hf1 : 0 < f₁) (hf : f₁ ≤ f₂) :
    0 < attenAntarctic z f₂ ∧ attenAntarctic z f₂ ≤ attenAntarctic z f₁ := by
  obtain ⟨ha, hb⟩ := antarctic_temp_range z h1 h2
  exact ⟨C16_atten_antarctic_pos z f₂, L_antarctic_mono z f₁ f₂ (by linarith) hb hf1 hf⟩

/-- **GreenlandIce**: `max(min_alen, alen₇₅ − 5.5·10⁻⁷ (f − 75 MHz))` is positive and non-increasing in `f`,
at every depth and for every pair of frequencies -/
theorem L_greenland_mono (z f₁ f₂ : ℝ) (hf : f₁ ≤ f₂) :
    0 < attenGreenland z f₂ ∧ attenGreenland z f₂ ≤ attenGreenland z f₁ := by
  refine ⟨(C16_atten_greenland_floor z f₂).2, ?_⟩
  unfold attenGreenland grn_alenRaw grn_minAlen
  simp only
  generalize grn_alen75 (grn_tempC z) = A
  split_ifs with c2 c1 c1 <;> nlinarith

/-- **ArasimIce**: the attenuation length does not depend on the frequency at all, and is positive on the
valid depth range -/
theorem L_arasim_const (z f₁ f₂ : ℝ) : attenArasim z f₂ = attenArasim z f₁ := rfl

theorem L_arasim_mono (z f₁ f₂ : ℝ) (hz : -2850 ≤ z) :
    0 < attenArasim z f₂ ∧ attenArasim z f₂ ≤ attenArasim z f₁ := by
  refine ⟨by linarith [C16_atten_arasim_pos z f₂ hz], le_of_eq (L_arasim_const z f₁ f₂)⟩

/-- pointwise facts along the sampled depths of a path give the `Forall₂` hypothesis of the
monotonicity theorems `C03_atten_mono_*` -/
lemma forall₂_lengths (att : ℝ → ℝ → ℝ) (f₁ f₂ : ℝ) (zs : List ℝ)
    (h : ∀ z ∈ zs, 0 < att z f₂ ∧ att z f₂ ≤ att z f₁) :
    List.Forall₂ (fun L1 L2 => 0 < L2 ∧ L2 ≤ L1) (zs.map fun z => att z f₁) (zs.map fun z => att z f₂) := by
  induction zs with
  | nil => exact List.Forall₂.nil
  | cons z zs ih =>
    simp only [List.map_cons]
    exact List.Forall₂.cons (h z (by simp)) (ih (fun w hw => h w (List.mem_cons_of_mem _ hw)))

end PropLemmas
end
