import PyrexVerif.R.Propagate
import Mathlib.Tactic.Linarith
import Mathlib.Tactic.Positivity
import Mathlib.Tactic.Ring
import Mathlib.Tactic.NormNum
/-!
# C03 — attenuation: range and monotonicity in the attenuation length

Lemmas about the ℝ reading of `twin/Propagate.body`: `attenuationOf`, `basicAttenuation`,
`uniformAttenuation`, `layeredAttenuation`.
"Same path, other attenuation lengths" is expressed with `List.Forall₂` on the model's own argument
types, so no auxiliary representation is needed.
-/
noncomputable section
namespace PropLemmas
open PyrexR

/-! ## folds are sums / products -/

lemma foldl_add_eq (l : List ℝ) (a : ℝ) : l.foldl (· + ·) a = a + l.sum := by
  induction l generalizing a with
  | nil => simp
  | cons x xs ih => simp [List.foldl_cons, ih, add_assoc]

lemma foldl_mul_eq (l : List ℝ) (a : ℝ) : l.foldl (· * ·) a = a * l.prod := by
  induction l generalizing a with
  | nil => simp
  | cons x xs ih => simp [List.foldl_cons, ih, mul_assoc]

lemma listSum_eq (l : List ℝ) : listSum l = l.sum := by
  simp [listSum, foldl_add_eq]

lemma listProd_eq (l : List ℝ) : listProd l = l.prod := by
  simp [listProd, foldl_mul_eq]

/-! ## generic list facts -/

lemma sum_nonneg_of_mem (l : List ℝ) (h : ∀ x ∈ l, 0 ≤ x) : 0 ≤ l.sum := by
  induction l with
  | nil => simp
  | cons x xs ih =>
    rw [List.sum_cons]
    have h1 := h x (by simp)
    have h2 := ih (fun y hy => h y (List.mem_cons_of_mem _ hy))
    linarith

lemma sum_le_sum_of_forall₂ {l₁ l₂ : List ℝ} (h : List.Forall₂ (· ≤ ·) l₁ l₂) :
    l₁.sum ≤ l₂.sum := by
  induction h with
  | nil => simp
  | cons hab _ ih => rw [List.sum_cons, List.sum_cons]; linarith

lemma prod_range_of_mem (l : List ℝ) (h : ∀ x ∈ l, 0 < x ∧ x ≤ 1) : 0 < l.prod ∧ l.prod ≤ 1 := by
  induction l with
  | nil => simp
  | cons x xs ih =>
    rw [List.prod_cons]
    obtain ⟨hx0, hx1⟩ := h x (by simp)
    obtain ⟨hp0, hp1⟩ := ih (fun y hy => h y (List.mem_cons_of_mem _ hy))
    exact ⟨mul_pos hx0 hp0, by nlinarith⟩

lemma prod_le_prod_of_forall₂ {l₁ l₂ : List ℝ}
    (h : List.Forall₂ (fun a b => 0 ≤ a ∧ a ≤ b) l₁ l₂) : 0 ≤ l₁.prod ∧ l₁.prod ≤ l₂.prod := by
  induction h with
  | nil => simp
  | cons hab _ ih =>
    rw [List.prod_cons, List.prod_cons]
    obtain ⟨ha, hab⟩ := hab
    obtain ⟨hp, hpq⟩ := ih
    exact ⟨mul_nonneg ha hp, mul_le_mul hab hpq hp (le_trans ha hab)⟩

lemma forall₂_zipWith {α β γ : Type} {R : β → β → Prop} {S : γ → γ → Prop}
    (f g : α → β → γ) {l₁ l₂ : List β} (h : List.Forall₂ R l₁ l₂) (cs : List α)
    (hfg : ∀ c ∈ cs, ∀ a b, R a b → S (f c a) (g c b)) :
    List.Forall₂ S (List.zipWith f cs l₁) (List.zipWith g cs l₂) := by
  induction h generalizing cs with
  | nil => simp
  | cons hab _ ih =>
    cases cs with
    | nil => simp
    | cons c cs =>
      simp only [List.zipWith_cons_cons]
      exact List.Forall₂.cons (hfg c (by simp) _ _ hab)
        (ih cs (fun c' hc' => hfg c' (List.mem_cons_of_mem _ hc')))

lemma forall₂_map {α β : Type} {R : α → α → Prop} {S : β → β → Prop} (f g : α → β)
    {l₁ l₂ : List α} (h : List.Forall₂ R l₁ l₂) (hfg : ∀ a b, R a b → S (f a) (g b)) :
    List.Forall₂ S (l₁.map f) (l₂.map g) := by
  induction h with
  | nil => simp
  | cons hab _ ih => exact List.Forall₂.cons (hfg _ _ hab) ih

lemma forall₂_left_mem {α β : Type} {P : α → Prop} {l₁ : List α} {l₂ : List β}
    (h : List.Forall₂ (fun x _ => P x) l₁ l₂) : ∀ x ∈ l₁, P x := by
  induction h with
  | nil => simp
  | cons hab _ ih =>
    intro x hx
    rcases List.mem_cons.mp hx with rfl | hx
    · exact hab
    · exact ih x hx

/-! ## A1 / A2: the range of the attenuation factors -/

/-- the attenuation factor `exp(−|I|)` lies in `(0, 1]` for every value of the path integral -/
theorem atten_range (I : ℝ) : 0 < attenuationOf I ∧ attenuationOf I ≤ 1 := by
  unfold attenuationOf
  refine ⟨Real.exp_pos _, ?_⟩
  rw [Real.exp_le_one_iff]
  have := abs_nonneg I
  simp only [Rabs]
  linarith

/-- `attenuationOf` is antitone on nonnegative path integrals -/
lemma attenuationOf_anti {I₁ I₂ : ℝ} (h0 : 0 ≤ I₁) (h : I₁ ≤ I₂) :
    attenuationOf I₂ ≤ attenuationOf I₁ := by
  unfold attenuationOf
  simp only [Rexp, Rabs]
  rw [Real.exp_le_exp, abs_of_nonneg h0, abs_of_nonneg (le_trans h0 h)]
  linarith

lemma exp_neg_div_range {dp L : ℝ} (hdp : 0 ≤ dp) (hL : 0 < L) :
    0 < Real.exp (-dp / L) ∧ Real.exp (-dp / L) ≤ 1 := by
  refine ⟨Real.exp_pos _, ?_⟩
  rw [Real.exp_le_one_iff]
  have : 0 ≤ dp / L := div_nonneg hdp hL.le
  rw [neg_div]; linarith

lemma uniformSegAtten_range {dp : ℝ} {Ls : List ℝ} (hdp : 0 ≤ dp) (hL : ∀ L ∈ Ls, 0 < L) :
    0 < uniformSegAtten dp Ls ∧ uniformSegAtten dp Ls ≤ 1 := by
  unfold uniformSegAtten
  rw [listProd_eq]
  apply prod_range_of_mem
  intro x hx
  rw [List.mem_map] at hx
  obtain ⟨L, hLm, rfl⟩ := hx
  exact exp_neg_div_range hdp (hL L hLm)

/-- uniform ice: with step lengths `dp ≥ 0` and attenuation lengths `L > 0` the factor is in `(0, 1]` -/
theorem uniform_atten_range (segs : List (ℝ × List ℝ))
    (h : ∀ s ∈ segs, 0 ≤ s.1 ∧ ∀ L ∈ s.2, 0 < L) :
    0 < uniformAttenuation segs ∧ uniformAttenuation segs ≤ 1 := by
  unfold uniformAttenuation
  rw [listProd_eq]
  apply prod_range_of_mem
  intro x hx
  rw [List.mem_map] at hx
  obtain ⟨s, hs, rfl⟩ := hx
  exact uniformSegAtten_range (h s hs).1 (h s hs).2

/-- layered ice: the product of sub-path factors in `(0, 1]` is in `(0, 1]` -/
theorem layered_atten_range (subs : List ℝ) (h : ∀ a ∈ subs, 0 < a ∧ a ≤ 1) :
    0 < layeredAttenuation subs ∧ layeredAttenuation subs ≤ 1 := by
  unfold layeredAttenuation
  rw [listProd_eq]
  exact prod_range_of_mem subs h

/-! ## A3: the general monotonicity principle -/

/-- weights `c ≥ 0`, attenuation lengths pointwise `0 < L₂ ≤ L₁`:
the weighted sum `Σ c/L` grows, the attenuation factor shrinks -/
theorem atten_mono_weighted (cs Ls₁ Ls₂ : List ℝ) (hc : ∀ c ∈ cs, 0 ≤ c)
    (hL : List.Forall₂ (fun L1 L2 => 0 < L2 ∧ L2 ≤ L1) Ls₁ Ls₂) :
    0 ≤ listSum (List.zipWith (fun c L => c / L) cs Ls₁) ∧
    listSum (List.zipWith (fun c L => c / L) cs Ls₁) ≤ listSum (List.zipWith (fun c L => c / L) cs Ls₂) ∧
    attenuationOf (listSum (List.zipWith (fun c L => c / L) cs Ls₂)) ≤
      attenuationOf (listSum (List.zipWith (fun c L => c / L) cs Ls₁)) := by
  have h0 : 0 ≤ listSum (List.zipWith (fun c L => c / L) cs Ls₁) := by
    rw [listSum_eq]
    apply sum_nonneg_of_mem
    have := forall₂_zipWith (S := fun x _ => 0 ≤ x) (fun c L => c / L) (fun c L => c / L) hL cs
      (fun c hcm a b hab => div_nonneg (hc c hcm) (lt_of_lt_of_le hab.1 hab.2).le)
    exact forall₂_left_mem this
  have h1 : listSum (List.zipWith (fun c L => c / L) cs Ls₁) ≤
      listSum (List.zipWith (fun c L => c / L) cs Ls₂) := by
    rw [listSum_eq, listSum_eq]
    apply sum_le_sum_of_forall₂
    exact forall₂_zipWith _ _ hL cs
      (fun c hcm a b hab => div_le_div_of_nonneg_left (hc c hcm) hab.1 hab.2)
  exact ⟨h0, h1, attenuationOf_anti h0 h1⟩

/-! ## A4: `BasicRayTracePath.attenuation` does not grow when the attenuation lengths shrink -/

lemma trapzTermsDx_nonneg {dx : ℝ} (hdx : 0 ≤ dx) :
    ∀ ys : List ℝ, (∀ y ∈ ys, 0 ≤ y) → ∀ t ∈ trapzTermsDx dx ys, 0 ≤ t
  | [], _ => by simp [trapzTermsDx]
  | [_], _ => by simp [trapzTermsDx]
  | y0 :: y1 :: ys, h => by
    intro t ht
    simp only [trapzTermsDx, List.mem_cons] at ht
    rcases ht with rfl | ht
    · have h0 := h y0 (by simp)
      have h1 := h y1 (by simp)
      exact div_nonneg (mul_nonneg hdx (by linarith)) (by norm_num)
    · exact trapzTermsDx_nonneg hdx (y1 :: ys) (fun y hy => h y (List.mem_cons_of_mem _ hy)) t ht

lemma trapzTermsDx_mono {dx : ℝ} (hdx : 0 ≤ dx) {ys₁ ys₂ : List ℝ}
    (h : List.Forall₂ (· ≤ ·) ys₁ ys₂) :
    List.Forall₂ (· ≤ ·) (trapzTermsDx dx ys₁) (trapzTermsDx dx ys₂) := by
  induction h with
  | nil => simp [trapzTermsDx]
  | cons hab h' ih =>
    cases h' with
    | nil => simp [trapzTermsDx]
    | cons hab' h'' =>
      simp only [trapzTermsDx]
      refine List.Forall₂.cons ?_ ih
      have : dx * (_ + _) ≤ dx * (_ + _) := mul_le_mul_of_nonneg_left (add_le_add hab' hab) hdx
      linarith

/-- the trapezoid rule with step `dx ≥ 0` of a nonnegative list is nonnegative -/
lemma trapzDx_nonneg {dx : ℝ} (hdx : 0 ≤ dx) (ys : List ℝ) (h : ∀ y ∈ ys, 0 ≤ y) :
    0 ≤ trapzDx ys dx := by
  unfold trapzDx
  rw [listSum_eq]
  exact sum_nonneg_of_mem _ (trapzTermsDx_nonneg hdx ys h)

/-- the trapezoid rule with step `dx ≥ 0` is monotone in the integrand samples -/
lemma trapzDx_mono {dx : ℝ} (hdx : 0 ≤ dx) {ys₁ ys₂ : List ℝ}
    (h : List.Forall₂ (· ≤ ·) ys₁ ys₂) : trapzDx ys₁ dx ≤ trapzDx ys₂ dx := by
  unfold trapzDx
  rw [listSum_eq, listSum_eq]
  exact sum_le_sum_of_forall₂ (trapzTermsDx_mono hdx h)

lemma secThetaBasic_nonneg (sinT0 n0 nz : ℝ) : 0 ≤ secThetaBasic sinT0 n0 nz := by
  unfold secThetaBasic
  exact div_nonneg zero_le_one (Real.cos_arcsin_nonneg _)

/-- one leg: same depths (`ns`) and step, attenuation lengths pointwise `0 < L₂ ≤ L₁` -/
lemma basicLeg_mono (sinT0 n0 : ℝ) (ns : List ℝ) {Ls₁ Ls₂ : List ℝ} {absDz : ℝ} (hdz : 0 ≤ absDz)
    (hL : List.Forall₂ (fun L1 L2 => 0 < L2 ∧ L2 ≤ L1) Ls₁ Ls₂) :
    0 ≤ basicLeg sinT0 n0 ns Ls₁ absDz ∧
      basicLeg sinT0 n0 ns Ls₁ absDz ≤ basicLeg sinT0 n0 ns Ls₂ absDz := by
  unfold basicLeg
  constructor
  · apply trapzDx_nonneg hdz
    exact forall₂_left_mem (forall₂_zipWith (S := fun x _ => 0 ≤ x)
      (fun n L => secThetaBasic sinT0 n0 n / L) (fun n L => secThetaBasic sinT0 n0 n / L) hL ns
      (fun c _ a b hab => div_nonneg (secThetaBasic_nonneg _ _ _) (lt_of_lt_of_le hab.1 hab.2).le))
  · apply trapzDx_mono hdz
    exact forall₂_zipWith _ _ hL ns
      (fun c _ a b hab => div_le_div_of_nonneg_left (secThetaBasic_nonneg _ _ _) hab.1 hab.2)

/-- the path integral `∫ ds / L` of the basic path: nonnegative, and monotone in `1/L` -/
theorem basic_integral_mono (sinT0 n0 : ℝ) (legs₁ legs₂ : List (List ℝ × List ℝ × ℝ))
    (h : List.Forall₂ (fun l₁ l₂ => l₁.1 = l₂.1 ∧ l₁.2.2 = l₂.2.2 ∧ 0 ≤ l₁.2.2 ∧
      List.Forall₂ (fun L1 L2 => 0 < L2 ∧ L2 ≤ L1) l₁.2.1 l₂.2.1) legs₁ legs₂) :
    0 ≤ listSum (legs₁.map fun l => basicLeg sinT0 n0 l.1 l.2.1 l.2.2) ∧
    listSum (legs₁.map fun l => basicLeg sinT0 n0 l.1 l.2.1 l.2.2) ≤
      listSum (legs₂.map fun l => basicLeg sinT0 n0 l.1 l.2.1 l.2.2) := by
  rw [listSum_eq, listSum_eq]
  constructor
  · apply sum_nonneg_of_mem
    exact forall₂_left_mem (forall₂_map (S := fun x _ => 0 ≤ x) _
      (fun l => basicLeg sinT0 n0 l.1 l.2.1 l.2.2) h
      (fun a b hab => (basicLeg_mono sinT0 n0 a.1 hab.2.2.1 hab.2.2.2).1))
  · apply sum_le_sum_of_forall₂
    refine forall₂_map _ _ h (fun a b hab => ?_)
    obtain ⟨h1, h2, h3, h4⟩ := hab
    have := (basicLeg_mono sinT0 n0 a.1 h3 h4).2
    rw [← h1, ← h2]
    exact this

/-- **A4**: `legs₂` is `legs₁` (same `n(z_i)`, same `|dz| ≥ 0`) with attenuation lengths pointwise
`0 < L₂ ≤ L₁`; then the attenuation factor of `legs₂` is not larger -/
theorem basic_atten_mono (sinT0 n0 : ℝ) (legs₁ legs₂ : List (List ℝ × List ℝ × ℝ))
    (h : List.Forall₂ (fun l₁ l₂ => l₁.1 = l₂.1 ∧ l₁.2.2 = l₂.2.2 ∧ 0 ≤ l₁.2.2 ∧
      List.Forall₂ (fun L1 L2 => 0 < L2 ∧ L2 ≤ L1) l₁.2.1 l₂.2.1) legs₁ legs₂) :
    basicAttenuation sinT0 n0 legs₂ ≤ basicAttenuation sinT0 n0 legs₁ := by
  unfold basicAttenuation
  obtain ⟨h0, h1⟩ := basic_integral_mono sinT0 n0 legs₁ legs₂ h
  exact attenuationOf_anti h0 h1

/-! ## A5: the same for uniform ice -/

lemma uniformSegAtten_mono {dp : ℝ} (hdp : 0 ≤ dp) {Ls₁ Ls₂ : List ℝ}
    (hL : List.Forall₂ (fun L1 L2 => 0 < L2 ∧ L2 ≤ L1) Ls₁ Ls₂) :
    0 ≤ uniformSegAtten dp Ls₂ ∧ uniformSegAtten dp Ls₂ ≤ uniformSegAtten dp Ls₁ := by
  unfold uniformSegAtten
  rw [listProd_eq, listProd_eq]
  apply prod_le_prod_of_forall₂
  refine forall₂_map _ _ hL.flip (fun a b hab => ?_)
  refine ⟨(Real.exp_pos _).le, ?_⟩
  rw [Real.exp_le_exp, neg_div, neg_div, neg_le_neg_iff]
  exact div_le_div_of_nonneg_left hdp hab.1 hab.2

/-- **A5**: `segs₂` is `segs₁` (same step lengths `dp ≥ 0`) with attenuation lengths pointwise
`0 < L₂ ≤ L₁`; then the attenuation factor of `segs₂` is not larger -/
theorem uniform_atten_mono (segs₁ segs₂ : List (ℝ × List ℝ))
    (h : List.Forall₂ (fun s₁ s₂ => s₁.1 = s₂.1 ∧ 0 ≤ s₁.1 ∧
      List.Forall₂ (fun L1 L2 => 0 < L2 ∧ L2 ≤ L1) s₁.2 s₂.2) segs₁ segs₂) :
    uniformAttenuation segs₂ ≤ uniformAttenuation segs₁ := by
  unfold uniformAttenuation
  rw [listProd_eq, listProd_eq]
  refine (prod_le_prod_of_forall₂ ?_).2
  refine forall₂_map _ _ h.flip (fun a b hab => ?_)
  obtain ⟨h1, h2, h3⟩ := hab
  have := uniformSegAtten_mono h2 h3
  rw [← h1]
  exact this

end PropLemmas
end
