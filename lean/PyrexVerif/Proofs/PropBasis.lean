import PyrexVerif.R.Propagate
import Mathlib.Tactic.Linarith
import Mathlib.Tactic.Ring
import Mathlib.Tactic.Positivity
import Mathlib.Tactic.FieldSimp
import Mathlib.Tactic.NormNum
import Mathlib.Tactic.LinearCombination
/-! # C03 — polarisation basis of `propagate`

`polBasis emitted received φ = (u_s, u_p0, u_p1)`:
* general helper lemmas on `dot`, `cross`, `normalize` (orthogonality of the cross product,
  Lagrange identity, `normalize` produces unit vectors and keeps orthogonality);
* `pol_basis` (non-vertical ray), `pol_basis_vertical` (vertical ray, fall-back branch):
  the three vectors are unit vectors, `u_s ⟂ u_p0, u_p1, emitted, received`, `u_p0 ⟂ emitted`,
  `u_p1 ⟂ received`;
* `bessel_pair`: Bessel's inequality for an orthonormal pair. -/
noncomputable section
namespace PropLemmas
open PyrexR

/-! ## vector algebra helpers -/

theorem dot_comm (u v : V3) : dot u v = dot v u := by
  obtain ⟨u1, u2, u3⟩ := u
  obtain ⟨v1, v2, v3⟩ := v
  simp only [dot]
  ring

theorem dot_self_nonneg (v : V3) : 0 ≤ dot v v := by
  obtain ⟨v1, v2, v3⟩ := v
  simp only [dot]
  nlinarith [mul_self_nonneg v1, mul_self_nonneg v2, mul_self_nonneg v3]

theorem dot_vscale_right (s : R) (w v : V3) : dot w (vscale s v) = s * dot w v := by
  obtain ⟨w1, w2, w3⟩ := w
  obtain ⟨v1, v2, v3⟩ := v
  simp only [dot, vscale]
  ring

theorem dot_vscale_left (s : R) (w v : V3) : dot (vscale s v) w = s * dot v w := by
  rw [dot_comm, dot_vscale_right, dot_comm]

/-- `(u × v) · u = 0` -/
theorem dot_cross_left (u v : V3) : dot (cross u v) u = 0 := by
  obtain ⟨u1, u2, u3⟩ := u
  obtain ⟨v1, v2, v3⟩ := v
  simp only [dot, cross]
  ring

/-- `(u × v) · v = 0` -/
theorem dot_cross_right (u v : V3) : dot (cross u v) v = 0 := by
  obtain ⟨u1, u2, u3⟩ := u
  obtain ⟨v1, v2, v3⟩ := v
  simp only [dot, cross]
  ring

/-- Lagrange identity `|u × v|² = |u|²|v|² − (u·v)²` -/
theorem lagrange (u v : V3) :
    dot (cross u v) (cross u v) = dot u u * dot v v - (dot u v) ^ 2 := by
  obtain ⟨u1, u2, u3⟩ := u
  obtain ⟨v1, v2, v3⟩ := v
  simp only [dot, cross]
  ring

/-- the cross product of two orthogonal unit vectors is a unit vector -/
theorem cross_unit (u v : V3) (hu : dot u u = 1) (hv : dot v v = 1) (huv : dot u v = 0) :
    dot (cross u v) (cross u v) = 1 := by
  rw [lagrange, hu, hv, huv]; norm_num

theorem vnorm_pos {v : V3} (h : 0 < dot v v) : 0 < vnorm v := by
  unfold vnorm
  exact Real.sqrt_pos.mpr h

theorem vnorm_sq (v : V3) : vnorm v * vnorm v = dot v v := by
  unfold vnorm
  exact Real.mul_self_sqrt (dot_self_nonneg v)

/-- `normalize` of a non-zero vector is that vector divided by its (positive) norm -/
theorem normalize_of_pos {v : V3} (h : 0 < dot v v) :
    normalize v = vscale (1 / vnorm v) v := by
  unfold PyrexR.normalize
  rw [if_neg (not_le.mpr (vnorm_pos h))]

/-- `normalize v` is a unit vector whenever `v ≠ 0` (stated as `0 < v·v`) -/
theorem dot_normalize_self {v : V3} (h : 0 < dot v v) :
    dot (normalize v) (normalize v) = 1 := by
  have hp := vnorm_pos h
  rw [normalize_of_pos h, dot_vscale_left, dot_vscale_right, ← vnorm_sq v]
  field_simp

/-- the same with the hypothesis `v·v ≠ 0` -/
theorem dot_normalize_self' {v : V3} (h : dot v v ≠ 0) :
    dot (normalize v) (normalize v) = 1 :=
  dot_normalize_self (lt_of_le_of_ne (dot_self_nonneg v) (Ne.symm h))

/-- `normalize` keeps orthogonality (for every `v`, including the zero vector) -/
theorem dot_normalize_right (w v : V3) (h : dot w v = 0) : dot w (normalize v) = 0 := by
  unfold PyrexR.normalize
  split
  · exact h
  · rw [dot_vscale_right, h, mul_zero]

theorem dot_normalize_left (w v : V3) (h : dot v w = 0) : dot (normalize v) w = 0 := by
  rw [dot_comm]; exact dot_normalize_right w v (by rw [dot_comm]; exact h)

/-! ## the s-vector of `polBasis` -/

/-- For a non-vertical emitted direction `e = (a cos φ, a sin φ, c)`, `a ≠ 0`, the s-vector is
`(a/|a|)·(sin φ, −cos φ, 0)`, i.e. `±(sin φ, −cos φ, 0)`. -/
theorem pol_basis_us (a c φ : ℝ) (r : V3) (ha : a ≠ 0) :
    (polBasis (a * Real.cos φ, a * Real.sin φ, c) r φ).1
      = ((a / |a|) * Real.sin φ, -(a / |a|) * Real.cos φ, 0) ∧ (a / |a|) ^ 2 = 1 := by
  have habs : 0 < |a| := abs_pos.mpr ha
  have hn : vnorm (cross (a * Real.cos φ, a * Real.sin φ, c) (0, 0, 1)) = |a| := by
    unfold vnorm
    simp only [dot, cross, Rsqrt]
    rw [← Real.sqrt_sq_eq_abs]
    congr 1
    linear_combination a ^ 2 * Real.sin_sq_add_cos_sq φ
  constructor
  · simp only [polBasis]
    rw [hn, if_neg (not_le.mpr habs)]
    simp only [cross, vscale]
    refine Prod.ext ?_ (Prod.ext ?_ ?_) <;> simp only <;> field_simp <;> ring
  · rw [div_pow, sq_abs]
    exact div_self (pow_ne_zero 2 ha)

/-- For a vertical emitted direction `e = (0, 0, c)` (`a = 0`) the fall-back branch of repair F11 is
taken (because `vnorm (e × ẑ) = 0`): the s-vector is `(sin φ, −cos φ, 0)`. -/
theorem pol_basis_vertical_us (c φ : ℝ) (r : V3) :
    (polBasis (0, 0, c) r φ).1 = (Real.sin φ, -Real.cos φ, 0) := by
  have hn : vnorm (cross ((0, 0, c) : V3) (0, 0, 1)) = 0 := by
    unfold vnorm
    simp only [dot, cross, Rsqrt]
    norm_num
  simp only [polBasis]
  rw [hn, if_pos le_rfl]

/-- the same for the `a = 0` instance written as `(0·cos φ, 0·sin φ, c)` -/
theorem pol_basis_vertical_us' (c φ : ℝ) (r : V3) :
    (polBasis (0 * Real.cos φ, 0 * Real.sin φ, c) r φ).1 = (Real.sin φ, -Real.cos φ, 0) := by
  rw [zero_mul, zero_mul]
  exact pol_basis_vertical_us c φ r

/-! ## the nine orthonormality relations -/

/-- Core: whenever the s-vector is `s·(sin φ, −cos φ, 0)` with `s² = 1` (both branches of
`polBasis`), the triple built from it has the nine properties.  `a` may be zero here. -/
theorem basis_core (s a c a' c' φ : ℝ) (hs : s ^ 2 = 1)
    (hac : a ^ 2 + c ^ 2 = 1) (hac' : a' ^ 2 + c' ^ 2 = 1) :
    let e : V3 := (a * Real.cos φ, a * Real.sin φ, c)
    let r : V3 := (a' * Real.cos φ, a' * Real.sin φ, c')
    let us : V3 := (s * Real.sin φ, -s * Real.cos φ, 0)
    let up0 := normalize (cross us e)
    let up1 := normalize (cross us r)
    dot us us = 1 ∧ dot up0 up0 = 1 ∧ dot up1 up1 = 1 ∧ dot us up0 = 0 ∧ dot us up1 = 0 ∧
      dot us r = 0 ∧ dot up1 r = 0 ∧ dot us e = 0 ∧ dot up0 e = 0 := by
  intro e r us up0 up1
  have hsc := Real.sin_sq_add_cos_sq φ
  have hus : dot us us = 1 := by
    simp only [us, dot]
    linear_combination (Real.sin φ ^ 2 + Real.cos φ ^ 2) * hs + hsc
  have hee : dot e e = 1 := by
    simp only [e, dot]
    linear_combination a ^ 2 * hsc + hac
  have hrr : dot r r = 1 := by
    simp only [r, dot]
    linear_combination a' ^ 2 * hsc + hac'
  have hue : dot us e = 0 := by
    simp only [us, e, dot]; ring
  have hur : dot us r = 0 := by
    simp only [us, r, dot]; ring
  have hce : dot (cross us e) (cross us e) = 1 := cross_unit us e hus hee hue
  have hcr : dot (cross us r) (cross us r) = 1 := cross_unit us r hus hrr hur
  refine ⟨hus, ?_, ?_, ?_, ?_, hur, ?_, hue, ?_⟩
  · exact dot_normalize_self (by rw [hce]; exact one_pos)
  · exact dot_normalize_self (by rw [hcr]; exact one_pos)
  · exact dot_normalize_right us _ (by rw [dot_comm]; exact dot_cross_left us e)
  · exact dot_normalize_right us _ (by rw [dot_comm]; exact dot_cross_left us r)
  · exact dot_normalize_left r _ (dot_cross_right us r)
  · exact dot_normalize_left e _ (dot_cross_right us e)

/-- the second and third component of `polBasis` in terms of the first -/
theorem polBasis_snd (e r : V3) (φ : ℝ) :
    (polBasis e r φ).2.1 = normalize (cross (polBasis e r φ).1 e) ∧
    (polBasis e r φ).2.2 = normalize (cross (polBasis e r φ).1 r) := by
  simp only [polBasis, and_self]

/-- **Lemma 13.** Non-vertical ray: `polBasis` is an orthonormal-type triple:
`u_s, u_p0, u_p1` are unit vectors, `u_s ⟂ u_p0, u_p1, r, e`, `u_p1 ⟂ r`, `u_p0 ⟂ e`. -/
theorem pol_basis (a c a' c' φ : ℝ) (hac : a ^ 2 + c ^ 2 = 1) (ha : a ≠ 0)
    (hac' : a' ^ 2 + c' ^ 2 = 1) :
    let e : V3 := (a * Real.cos φ, a * Real.sin φ, c)
    let r : V3 := (a' * Real.cos φ, a' * Real.sin φ, c')
    let b := polBasis e r φ
    let us := b.1
    let up0 := b.2.1
    let up1 := b.2.2
    dot us us = 1 ∧ dot up0 up0 = 1 ∧ dot up1 up1 = 1 ∧ dot us up0 = 0 ∧ dot us up1 = 0 ∧
      dot us r = 0 ∧ dot up1 r = 0 ∧ dot us e = 0 ∧ dot up0 e = 0 := by
  intro e r b us up0 up1
  obtain ⟨h1, hs⟩ := pol_basis_us a c φ r ha
  obtain ⟨h2, h3⟩ := polBasis_snd e r φ
  have hup0 : up0 = normalize (cross us e) := h2
  have hup1 : up1 = normalize (cross us r) := h3
  have hus : us = ((a / |a|) * Real.sin φ, -(a / |a|) * Real.cos φ, 0) := h1
  rw [hup0, hup1, hus]
  exact basis_core (a / |a|) a c a' c' φ hs hac hac'

/-- **Lemma 14.** Vertical ray (`a = 0`, so `c² = 1`, `e = (0, 0, c)`): the fall-back s-vector
`(sin φ, −cos φ, 0)` still gives the nine relations. -/
theorem pol_basis_vertical (c a' c' φ : ℝ) (hc : c ^ 2 = 1) (hac' : a' ^ 2 + c' ^ 2 = 1) :
    let e : V3 := (0, 0, c)
    let r : V3 := (a' * Real.cos φ, a' * Real.sin φ, c')
    let b := polBasis e r φ
    let us := b.1
    let up0 := b.2.1
    let up1 := b.2.2
    dot us us = 1 ∧ dot up0 up0 = 1 ∧ dot up1 up1 = 1 ∧ dot us up0 = 0 ∧ dot us up1 = 0 ∧
      dot us r = 0 ∧ dot up1 r = 0 ∧ dot us e = 0 ∧ dot up0 e = 0 := by
  intro e r b us up0 up1
  have h1 := pol_basis_vertical_us c φ r
  obtain ⟨h2, h3⟩ := polBasis_snd e r φ
  have hup0 : up0 = normalize (cross us e) := h2
  have hup1 : up1 = normalize (cross us r) := h3
  have hus : us = (1 * Real.sin φ, -1 * Real.cos φ, 0) := by
    rw [one_mul, neg_one_mul]; exact h1
  have he : e = (0 * Real.cos φ, 0 * Real.sin φ, c) := by
    rw [zero_mul, zero_mul]
  rw [hup0, hup1, hus, he]
  exact basis_core 1 0 c a' c' φ (one_pow 2) (by rw [← hc]; ring) hac'

/-- Lemma 14 for the `a = 0` instance written literally as `(0·cos φ, 0·sin φ, c)` -/
theorem pol_basis_vertical' (c a' c' φ : ℝ) (hac : (0 : ℝ) ^ 2 + c ^ 2 = 1)
    (hac' : a' ^ 2 + c' ^ 2 = 1) :
    let e : V3 := (0 * Real.cos φ, 0 * Real.sin φ, c)
    let r : V3 := (a' * Real.cos φ, a' * Real.sin φ, c')
    let b := polBasis e r φ
    let us := b.1
    let up0 := b.2.1
    let up1 := b.2.2
    dot us us = 1 ∧ dot up0 up0 = 1 ∧ dot up1 up1 = 1 ∧ dot us up0 = 0 ∧ dot us up1 = 0 ∧
      dot us r = 0 ∧ dot up1 r = 0 ∧ dot us e = 0 ∧ dot up0 e = 0 := by
  have hc : c ^ 2 = 1 := by rw [← hac]; ring
  have := pol_basis_vertical c a' c' φ hc hac'
  simp only [zero_mul]
  exact this

/-! ## Bessel's inequality -/

/-- **Lemma 15.** For an orthonormal pair `us, up0`: `(p·us)² + (p·up0)² ≤ p·p`
(the polarisation components of `propagate` never carry more than the full amplitude). -/
theorem bessel_pair (us up0 p : V3) (h1 : dot us us = 1) (h2 : dot up0 up0 = 1)
    (h3 : dot us up0 = 0) :
    (dot p us) ^ 2 + (dot p up0) ^ 2 ≤ dot p p := by
  have hw := dot_self_nonneg
    (vsub (vsub p (vscale (dot p us) us)) (vscale (dot p up0) up0))
  have key : dot (vsub (vsub p (vscale (dot p us) us)) (vscale (dot p up0) up0))
        (vsub (vsub p (vscale (dot p us) us)) (vscale (dot p up0) up0))
      = dot p p - (dot p us) ^ 2 - (dot p up0) ^ 2
        + (dot p us) ^ 2 * (dot us us - 1) + (dot p up0) ^ 2 * (dot up0 up0 - 1)
        + 2 * dot p us * dot p up0 * dot us up0 := by
    obtain ⟨s1, s2, s3⟩ := us
    obtain ⟨q1, q2, q3⟩ := up0
    obtain ⟨p1, p2, p3⟩ := p
    simp only [dot, vsub, vscale]
    ring
  rw [key, h1, h2, h3] at hw
  linarith

end PropLemmas
end
