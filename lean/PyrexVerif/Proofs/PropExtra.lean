import PyrexVerif.Proofs.PropPropagate
import PyrexVerif.Proofs.DftExtra
/-!
# C03 extras: degenerate inputs of `propagate`, and the form without polarisation
-/
noncomputable section
namespace PropLemmas
open PyrexR

lemma map_mul_zero (l : List ℝ) : l.map (· * (0 : ℝ)) = List.replicate l.length 0 := by
  induction l with
  | nil => rfl
  | cons a l _ => simp [List.replicate_succ]

lemma map_replicate_zero_mul (n : ℕ) (s : ℝ) :
    (List.replicate n (0 : ℝ)).map (· * s) = List.replicate n 0 := by
  simp

/-- a polarisation without s-amplitude: the s-signal is identically zero **and still lives on the delayed grid**
(no early exit may skip the time shift) -/
theorem propagate_zero_s (times vals : List ℝ) (pol : V3) (tof : ℝ) (e r : V3) (φ : ℝ) (rs rp : Cx)
    (att : ℝ → ℝ) (hlen : vals.length = times.length) (h0 : dot pol (polBasis e r φ).1 = 0) :
    (propagate times vals pol tof e r φ rs rp att).sigS = List.replicate times.length 0
    ∧ (propagate times vals pol tof e r φ rs rp att).times = times.map (· + tof) := by
  refine ⟨?_, rfl⟩
  simp only [propagate, h0]
  rw [map_mul_zero, hlen]
  have := DftExtra.filter_zero (times.map (· + tof)) (fun f => cmul (cofReal (att f)) rs) true true
  simpa using this

theorem propagate_zero_p (times vals : List ℝ) (pol : V3) (tof : ℝ) (e r : V3) (φ : ℝ) (rs rp : Cx)
    (att : ℝ → ℝ) (hlen : vals.length = times.length) (h0 : dot pol (polBasis e r φ).2.1 = 0) :
    (propagate times vals pol tof e r φ rs rp att).sigP = List.replicate times.length 0 := by
  simp only [propagate, h0]
  rw [map_mul_zero, hlen]
  have := DftExtra.filter_zero (times.map (· + tof)) (fun f => cmul (cofReal (att f)) rp) true true
  simpa using this

/-- the all-zero signal propagates to two all-zero signals on the delayed grid -/
theorem propagate_zero_signal (times : List ℝ) (pol : V3) (tof : ℝ) (e r : V3) (φ : ℝ) (rs rp : Cx)
    (att : ℝ → ℝ) :
    (propagate times (List.replicate times.length 0) pol tof e r φ rs rp att).sigS = List.replicate times.length 0
    ∧ (propagate times (List.replicate times.length 0) pol tof e r φ rs rp att).sigP
        = List.replicate times.length 0
    ∧ (propagate times (List.replicate times.length 0) pol tof e r φ rs rp att).times = times.map (· + tof) := by
  refine ⟨?_, ?_, rfl⟩
  · simp only [propagate]
    rw [map_replicate_zero_mul]
    have := DftExtra.filter_zero (times.map (· + tof)) (fun f => cmul (cofReal (att f)) rs) true true
    simpa using this
  · simp only [propagate]
    rw [map_replicate_zero_mul]
    have := DftExtra.filter_zero (times.map (· + tof)) (fun f => cmul (cofReal (att f)) rp) true true
    simpa using this

/-- the form without polarisation (no `force_real`) applies the same factor as the polarised form when the
attenuation is a function of `|f|` only: it equals the s-signal for unit s-amplitude and `r_s = 1` -/
theorem scalar_eq_s_component (times vals : List ℝ) (pol : V3) (tof : ℝ) (e r : V3) (φ : ℝ) (rp : Cx)
    (att : ℝ → ℝ) (heven : ∀ f, att (-f) = att f) (h1 : dot pol (polBasis e r φ).1 = 1) :
    (propagate times vals pol tof e r φ (1, 0) rp att).sigS = (propagateScalar times vals tof att).2 := by
  simp only [propagate, propagateScalar, h1]
  have hv : vals.map (· * (1 : ℝ)) = vals := by simp
  have hH : (fun f => cmul (cofReal (att f)) ((1, 0) : Cx)) = fun f => cofReal (att f) := by
    funext f; simp [cmul, cofReal]
  rw [hv, hH]
  exact DftExtra.force_real_noop_of_hermitian _ _ _ true (fun f => by simp [cofReal, cconj, heven f])

end PropLemmas
end

noncomputable section
namespace PropLemmas
open PyrexR

/-- equal indices on both sides of a boundary (`n₁ = n₂ ≠ 0`, incidence from inside: `cos θ ≥ 0`): nothing is
reflected, both amplitude reflection coefficients vanish -/
theorem reflect_equal_indices (n θ : ℝ) (hn : n ≠ 0) (hc : 0 ≤ Real.cos θ) :
    fresnelReflect n n θ = ((0, 0), (0, 0)) := by
  have h1 : n / n * Real.sin θ = Real.sin θ := by rw [div_self hn, one_mul]
  have h2 : Real.sqrt (1 - Real.sin θ * Real.sin θ) = Real.cos θ := by
    have : 1 - Real.sin θ * Real.sin θ = Real.cos θ ^ 2 := by
      have := Real.sin_sq_add_cos_sq θ; nlinarith
    rw [this, Real.sqrt_sq hc]
  unfold fresnelReflect cosTransmitted
  simp only [Rcos, Rsin, Rsqrt, h1, if_pos (Real.sin_le_one θ), h2]
  simp [cdiv, csub, cadd, cofReal, cscale]

/-- grazing incidence (`cos θ = 0`) below the critical angle: total reflection with a sign flip, `|r| = 1` -/
theorem reflect_grazing_unit (n1 n2 θ : ℝ) (h1 : 0 < n1) (h2 : 0 < n2) (hc : Real.cos θ = 0)
    (hs : n1 / n2 * Real.sin θ < 1) (hs' : -1 < n1 / n2 * Real.sin θ) :
    cnormSq (fresnelReflect n1 n2 θ).1 = 1 ∧ cnormSq (fresnelReflect n1 n2 θ).2 = 1 := by
  have hpos : 0 < 1 - n1 / n2 * Real.sin θ * (n1 / n2 * Real.sin θ) := by nlinarith
  have hq : 0 < Real.sqrt (1 - n1 / n2 * Real.sin θ * (n1 / n2 * Real.sin θ)) := Real.sqrt_pos.mpr hpos
  unfold fresnelReflect cosTransmitted
  simp only [Rcos, Rsin, Rsqrt, hc, if_pos hs.le, mul_zero]
  set q := Real.sqrt (1 - n1 / n2 * Real.sin θ * (n1 / n2 * Real.sin θ)) with hqdef
  constructor
  · simp only [cnormSq, cdiv, csub, cadd, cofReal, cscale]
    have : n2 * q ≠ 0 := by positivity
    field_simp
    ring
  · simp only [cnormSq, cdiv, csub, cadd, cofReal, cscale]
    have : n1 * q ≠ 0 := by positivity
    field_simp
    ring

end PropLemmas
end
