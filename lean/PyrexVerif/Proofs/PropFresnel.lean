import PyrexVerif.R.Propagate
import Mathlib.Tactic.Linarith
import Mathlib.Tactic.Positivity
import Mathlib.Tactic.Ring
import Mathlib.Tactic.FieldSimp
import Mathlib.Tactic.NormNum
/-!
# C03 — Fresnel coefficients: reflection never amplifies, transmission can (K2)

Lemmas about the ℝ reading of `twin/Propagate.body`: `fresnelReflect`, `fresnelTransmit`,
`cosTransmitted`, `uniformFresnel`, `layerTheta`, `layeredStep`, `layeredFresnel`.
Complex numbers are pairs; `cnormSq` is the squared modulus.
-/
noncomputable section
namespace PropLemmas
open PyrexR

/-! ## pair-complex algebra -/

lemma cnormSq_nonneg (a : Cx) : 0 ≤ cnormSq a := by
  unfold cnormSq
  nlinarith [mul_self_nonneg a.1, mul_self_nonneg a.2]

/-- `|a b|² = |a|² |b|²` -/
lemma cnormSq_cmul (a b : Cx) : cnormSq (cmul a b) = cnormSq a * cnormSq b := by
  simp only [cnormSq, cmul]
  ring

/-- `|a / b|² = |a|² / |b|²`; also for `b = 0`, where the model's `cdiv` and Lean's `/` both give `0` -/
lemma cnormSq_cdiv (a b : Cx) : cnormSq (cdiv a b) = cnormSq a / cnormSq b := by
  obtain ⟨a1, a2⟩ := a
  obtain ⟨b1, b2⟩ := b
  simp only [cnormSq, cdiv]
  by_cases h : b1 * b1 + b2 * b2 = 0
  · simp [h]
  · rw [div_mul_div_comm, div_mul_div_comm, ← add_div, div_eq_div_iff (mul_ne_zero h h) h]
    ring

lemma cnormSq_cdiv_le_one {a b : Cx} (h : cnormSq a ≤ cnormSq b) : cnormSq (cdiv a b) ≤ 1 := by
  rw [cnormSq_cdiv]
  exact div_le_one_of_le₀ h (cnormSq_nonneg b)

lemma cnormSq_one : cnormSq ((1, 0) : Cx) = 1 := by
  simp [cnormSq]

/-! ## B8 / B9: the two shapes of the reflection ratio -/

/-- `|(x − y)/(x + y)| ≤ 1` for `x y ≥ 0` (only `0 ≤ x y` is used; `x + y = 0` gives `0`) -/
theorem fresnel_ratio_le_one' (x y : ℝ) (hxy : 0 ≤ x * y) :
    cnormSq (cdiv (csub (cofReal x) (cofReal y)) (cadd (cofReal x) (cofReal y))) ≤ 1 := by
  apply cnormSq_cdiv_le_one
  simp only [cnormSq, csub, cadd, cofReal]
  nlinarith

theorem fresnel_ratio_le_one (x y : ℝ) (hx : 0 ≤ x) (hy : 0 ≤ y) :
    cnormSq (cdiv (csub (cofReal x) (cofReal y)) (cadd (cofReal x) (cofReal y))) ≤ 1 :=
  fresnel_ratio_le_one' x y (mul_nonneg hx hy)

/-- the form used by `fresnelReflect` below the critical angle: `n₂ cos θ₂ = cscale n (c, 0)` -/
theorem fresnel_ratio_le_one_cscale (x n c : ℝ) (h : 0 ≤ x * (n * c)) :
    cnormSq (cdiv (csub (cofReal x) (cscale n (c, 0))) (cadd (cofReal x) (cscale n (c, 0)))) ≤ 1 := by
  apply cnormSq_cdiv_le_one
  simp only [cnormSq, csub, cadd, cofReal, cscale]
  nlinarith

/-- `|(x − i y)/(x + i y)| = 1` for `y ≠ 0` -/
theorem fresnel_tir_unit (x y : ℝ) (hy : y ≠ 0) :
    cnormSq (cdiv (csub (cofReal x) (0, y)) (cadd (cofReal x) (0, y))) = 1 := by
  rw [cnormSq_cdiv]
  simp only [cnormSq, csub, cadd, cofReal]
  have : 0 < y * y := mul_self_pos.mpr hy
  have hne : (x + 0) * (x + 0) + (0 + y) * (0 + y) ≠ 0 := by nlinarith [mul_self_nonneg x]
  rw [div_eq_one_iff_eq hne]
  ring

/-- the same with the scaling as it appears in the model -/
theorem fresnel_tir_unit_cscale (x n y : ℝ) (hn : n ≠ 0) (hy : y ≠ 0) :
    cnormSq (cdiv (csub (cofReal x) (cscale n (0, y))) (cadd (cofReal x) (cscale n (0, y)))) = 1 := by
  rw [cnormSq_cdiv]
  simp only [cnormSq, csub, cadd, cofReal, cscale]
  have : 0 < (n * y) * (n * y) := mul_self_pos.mpr (mul_ne_zero hn hy)
  have hne : (x + n * 0) * (x + n * 0) + (0 + n * y) * (0 + n * y) ≠ 0 := by
    nlinarith [mul_self_nonneg x]
  rw [div_eq_one_iff_eq hne]
  ring

/-! ## B10: `fresnelReflect` -/

/-- one component of `fresnelReflect`, either branch of `cosTransmitted` -/
lemma reflect_ratio_le_one (p n s : ℝ) (h : 0 ≤ p * n) :
    cnormSq (cdiv (csub (cofReal p) (cscale n (cosTransmitted s)))
      (cadd (cofReal p) (cscale n (cosTransmitted s)))) ≤ 1 := by
  unfold cosTransmitted
  split_ifs
  · apply fresnel_ratio_le_one_cscale
    have := mul_nonneg h (Real.sqrt_nonneg (1 - s * s))
    simp only [Rsqrt]
    nlinarith
  · apply cnormSq_cdiv_le_one
    simp only [cnormSq, csub, cadd, cofReal, cscale]
    nlinarith

/-- one component of `fresnelReflect` above the critical angle -/
lemma reflect_ratio_tir (p n s : ℝ) (hs : 1 < s) (hn : n ≠ 0) :
    cnormSq (cdiv (csub (cofReal p) (cscale n (cosTransmitted s)))
      (cadd (cofReal p) (cscale n (cosTransmitted s)))) = 1 := by
  unfold cosTransmitted
  rw [if_neg (not_le.mpr hs)]
  apply fresnel_tir_unit_cscale _ _ _ hn
  have : 0 < s * s - 1 := by nlinarith
  exact (Real.sqrt_pos.mpr this).ne'

/-- reflection never amplifies: only `0 ≤ n₁ n₂ cos θ` is needed -/
theorem fresnelReflect_le_one' (n1 n2 θ : ℝ) (h : 0 ≤ n1 * n2 * Real.cos θ) :
    cnormSq (fresnelReflect n1 n2 θ).1 ≤ 1 ∧ cnormSq (fresnelReflect n1 n2 θ).2 ≤ 1 := by
  unfold fresnelReflect
  constructor
  · apply reflect_ratio_le_one
    simp only [Rcos]
    nlinarith
  · apply reflect_ratio_le_one
    simp only [Rcos]
    nlinarith

/-- **B10**: for positive indices and incidence angle with `cos θ ≥ 0` both amplitude reflection
coefficients have modulus `≤ 1` (both branches of `cosTransmitted`) -/
theorem fresnelReflect_le_one (n1 n2 θ : ℝ) (h1 : 0 < n1) (h2 : 0 < n2) (hc : 0 ≤ Real.cos θ) :
    cnormSq (fresnelReflect n1 n2 θ).1 ≤ 1 ∧ cnormSq (fresnelReflect n1 n2 θ).2 ≤ 1 :=
  fresnelReflect_le_one' n1 n2 θ (mul_nonneg (mul_pos h1 h2).le hc)

/-- total internal reflection: above the critical angle both coefficients have modulus exactly 1
(no sign hypotheses: `1 < n₁/n₂ · sin θ` already forces `n₁ ≠ 0`, `n₂ ≠ 0`) -/
theorem fresnelReflect_tir_unit (n1 n2 θ : ℝ) (h : 1 < n1 / n2 * Real.sin θ) :
    cnormSq (fresnelReflect n1 n2 θ).1 = 1 ∧ cnormSq (fresnelReflect n1 n2 θ).2 = 1 := by
  have hn2 : n2 ≠ 0 := by
    rintro rfl
    simp at h
    linarith
  have hn1 : n1 ≠ 0 := by
    rintro rfl
    simp at h
    linarith
  unfold fresnelReflect
  exact ⟨reflect_ratio_tir _ _ _ h hn2, reflect_ratio_tir _ _ _ h hn1⟩

/-! ## B11: uniform ice, product over the reflections -/

lemma uniformFresnel_fold_le_one (n0 : ℝ) (refl : List (ℝ × ℝ × ℝ))
    (h : ∀ r ∈ refl, 0 ≤ n0 * r.1) (acc : Cx × Cx)
    (h1 : cnormSq acc.1 ≤ 1) (h2 : cnormSq acc.2 ≤ 1) :
    cnormSq (refl.foldl (fun acc r =>
      let f := fresnelReflect n0 r.1 (Ratan (r.2.1 / r.2.2))
      (cmul acc.1 f.1, cmul acc.2 f.2)) acc).1 ≤ 1 ∧
    cnormSq (refl.foldl (fun acc r =>
      let f := fresnelReflect n0 r.1 (Ratan (r.2.1 / r.2.2))
      (cmul acc.1 f.1, cmul acc.2 f.2)) acc).2 ≤ 1 := by
  induction refl generalizing acc with
  | nil => exact ⟨h1, h2⟩
  | cons r rs ih =>
    rw [List.foldl_cons]
    apply ih (fun r' hr' => h r' (List.mem_cons_of_mem _ hr'))
    all_goals
      simp only [cnormSq_cmul]
      have hf := fresnelReflect_le_one' n0 r.1 (Ratan (r.2.1 / r.2.2))
        (mul_nonneg (h r (by simp)) (Real.cos_arctan_pos _).le)
    · exact mul_le_one₀ h1 (cnormSq_nonneg _) hf.1
    · exact mul_le_one₀ h2 (cnormSq_nonneg _) hf.2

/-- weak-hypothesis form: `0 ≤ n₀ n₂` for every reflecting boundary -/
theorem uniform_fresnel_prod_le_one' (n0 : ℝ) (refl : List (ℝ × ℝ × ℝ))
    (h : ∀ r ∈ refl, 0 ≤ n0 * r.1) :
    cnormSq (uniformFresnel n0 refl).1 ≤ 1 ∧ cnormSq (uniformFresnel n0 refl).2 ≤ 1 := by
  unfold uniformFresnel
  exact uniformFresnel_fold_le_one n0 refl h _ (by simp [cnormSq]) (by simp [cnormSq])

/-- **B11**: `UniformRayTracePath.fresnel` has modulus `≤ 1` in both polarisations -/
theorem uniform_fresnel_prod_le_one (n0 : ℝ) (refl : List (ℝ × ℝ × ℝ)) (h0 : 0 < n0)
    (h : ∀ r ∈ refl, 0 < r.1) :
    cnormSq (uniformFresnel n0 refl).1 ≤ 1 ∧ cnormSq (uniformFresnel n0 refl).2 ≤ 1 :=
  uniform_fresnel_prod_le_one' n0 refl (fun r hr => (mul_pos h0 (h r hr)).le)

/-! ## B12: layered ice -/

/-- the incidence angle at a layer boundary is in `[0, π/2]`: its cosine is `≥ 0` for every `recvZ` -/
lemma cos_layerTheta_nonneg (z : ℝ) : 0 ≤ Real.cos (layerTheta z) := by
  unfold layerTheta
  split_ifs with hz
  · simp only [Rpi, Racos, Real.cos_pi_sub]
    have : Real.cos (Real.arccos z) ≤ 0 := by
      apply Real.cos_nonpos_of_pi_div_two_le_of_le
      · exact not_lt.mp (fun h => absurd (Real.arccos_lt_pi_div_two.mp h) (not_lt.mpr hz.le))
      · linarith [Real.arccos_le_pi z, Real.pi_pos]
    linarith
  · simp only [Racos]
    apply Real.cos_nonneg_of_neg_pi_div_two_le_of_le
    · linarith [Real.arccos_nonneg z, Real.pi_pos]
    · exact Real.arccos_le_pi_div_two.mpr (not_lt.mp hz)

/-- for a unit direction the cosine of the incidence angle is `|recvZ|` -/
lemma cos_layerTheta (z : ℝ) (h1 : -1 ≤ z) (h2 : z ≤ 1) : Real.cos (layerTheta z) = |z| := by
  unfold layerTheta
  split_ifs with hz
  · simp only [Rpi, Racos, Real.cos_pi_sub, Real.cos_arccos h1 h2]
    rw [abs_of_neg hz]
  · simp only [Racos, Real.cos_arccos h1 h2]
    rw [abs_of_nonneg (not_lt.mp hz)]

/-- **B12**: reflection at a layer boundary never amplifies (the range hypothesis on `recvZ` is not
even needed: `cos (layerTheta z) ≥ 0` always) -/
theorem layered_reflection_le_one' (n1 n2 recvZ : ℝ) (h : 0 ≤ n1 * n2) :
    cnormSq (fresnelReflect n1 n2 (layerTheta recvZ)).1 ≤ 1 ∧
      cnormSq (fresnelReflect n1 n2 (layerTheta recvZ)).2 ≤ 1 :=
  fresnelReflect_le_one' n1 n2 _ (mul_nonneg h (cos_layerTheta_nonneg recvZ))

theorem layered_reflection_le_one (n1 n2 recvZ : ℝ) (_hz1 : -1 ≤ recvZ) (_hz2 : recvZ ≤ 1)
    (h1 : 0 < n1) (h2 : 0 < n2) :
    cnormSq (fresnelReflect n1 n2 (layerTheta recvZ)).1 ≤ 1 ∧
      cnormSq (fresnelReflect n1 n2 (layerTheta recvZ)).2 ≤ 1 :=
  layered_reflection_le_one' n1 n2 recvZ (mul_pos h1 h2).le

/-- a reflecting `layeredStep` keeps both moduli `≤ 1` when the accumulated value and the next
sub-path's coefficients are `≤ 1` -/
theorem layeredStep_reflect_le_one (acc : Cx × Cx) (n1 n2 recvZ : ℝ) (nxt : Cx × Cx)
    (h : 0 ≤ n1 * n2) (ha1 : cnormSq acc.1 ≤ 1) (ha2 : cnormSq acc.2 ≤ 1)
    (hn1 : cnormSq nxt.1 ≤ 1) (hn2 : cnormSq nxt.2 ≤ 1) :
    cnormSq (layeredStep acc (true, n1, n2, recvZ, nxt)).1 ≤ 1 ∧
      cnormSq (layeredStep acc (true, n1, n2, recvZ, nxt)).2 ≤ 1 := by
  have hf := layered_reflection_le_one' n1 n2 recvZ h
  simp only [layeredStep, if_true, cnormSq_cmul]
  exact ⟨mul_le_one₀ (mul_le_one₀ ha1 (cnormSq_nonneg _) hf.1) (cnormSq_nonneg _) hn1,
    mul_le_one₀ (mul_le_one₀ ha2 (cnormSq_nonneg _) hf.2) (cnormSq_nonneg _) hn2⟩

/-- `LayeredRayTracePath.fresnel` of a path whose boundaries are all reflections -/
theorem layered_fresnel_reflections_le_one (first : Cx × Cx)
    (bounds : List (Bool × ℝ × ℝ × ℝ × (Cx × Cx)))
    (hf1 : cnormSq first.1 ≤ 1) (hf2 : cnormSq first.2 ≤ 1)
    (hb : ∀ b ∈ bounds, b.1 = true ∧ 0 ≤ b.2.1 * b.2.2.1 ∧
      cnormSq b.2.2.2.2.1 ≤ 1 ∧ cnormSq b.2.2.2.2.2 ≤ 1) :
    cnormSq (layeredFresnel first bounds).1 ≤ 1 ∧ cnormSq (layeredFresnel first bounds).2 ≤ 1 := by
  unfold layeredFresnel
  induction bounds generalizing first with
  | nil => exact ⟨hf1, hf2⟩
  | cons b bs ih =>
    rw [List.foldl_cons]
    obtain ⟨hb1, hb2, hb3, hb4⟩ := hb b (by simp)
    obtain ⟨refl?, n1, n2, z, nxt⟩ := b
    simp only at hb1 hb2 hb3 hb4
    subst hb1
    have := layeredStep_reflect_le_one first n1 n2 z nxt hb2 hf1 hf2 hb3 hb4
    exact ih _ this.1 this.2 (fun b' hb' => hb b' (List.mem_cons_of_mem _ hb'))

/-- **known finding K2**: the amplitude *transmission* coefficient can exceed 1
(normal incidence from `n = 1.78` into `n = 1.3`: `t = 2·1.78/3.08 ≈ 1.156`) -/
theorem transmit_can_exceed_one :
    ∃ n1 n2 θ : ℝ, 0 < n1 ∧ 0 < n2 ∧ 1 < cnormSq (fresnelTransmit n1 n2 θ).1 := by
  refine ⟨1.78, 1.3, 0, by norm_num, by norm_num, ?_⟩
  unfold fresnelTransmit
  simp only [Rcos, Rsin, Real.cos_zero, Real.sin_zero, mul_zero, cosTransmitted]
  rw [if_pos (by norm_num), cnormSq_cdiv]
  simp only [cnormSq, cadd, cofReal, cscale, Rsqrt]
  norm_num

end PropLemmas
end
