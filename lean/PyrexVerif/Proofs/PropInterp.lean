import PyrexVerif.R.Propagate
import Mathlib.Tactic.Linarith
import Mathlib.Tactic.Ring
import Mathlib.Tactic.Positivity
import Mathlib.Tactic.FieldSimp
import Mathlib.Tactic.NormNum
/-! # C03 — np.interp model: bounds, monotonicity, nodes

All statements are about `PyrexR.interp` / `PyrexR.interpAux` (`PyrexVerif/R/Propagate.lean`).

It turns out that neither strict monotonicity of `xs` nor `xs.length = ys.length` is needed for the
bound and monotonicity statements: `interpAux x x0 y0 …` is only ever entered with `x0 ≤ x`, and the
branch `x < x1` then forces `x0 < x1`, so every segment that is actually evaluated is non-degenerate
and evaluated inside `[x0, x1)`.  The hypotheses are therefore the weakest ones under which the
statements are true; versions with the "natural" (stronger) hypotheses are given as corollaries
(`…_of_sorted`).  Only `interp_at_node` needs `xs` strictly increasing. -/
noncomputable section
namespace PropLemmas
open PyrexR

/-! ## unfolding lemmas -/

theorem interpAux_nil_left (x x0 y0 : R) (ys : List R) : interpAux x x0 y0 [] ys = y0 := by
  simp [interpAux]

theorem interpAux_nil_right (x x0 y0 : R) (xs : List R) : interpAux x x0 y0 xs [] = y0 := by
  cases xs <;> simp [interpAux]

theorem interpAux_cons (x x0 y0 x1 y1 : R) (xs ys : List R) :
    interpAux x x0 y0 (x1 :: xs) (y1 :: ys) =
      if x < x1 then (y1 - y0) / (x1 - x0) * (x - x0) + y0 else interpAux x x1 y1 xs ys := by
  simp [interpAux]

theorem interp_cons (x x0 y0 : R) (xs ys : List R) :
    interp x (x0 :: xs) (y0 :: ys) = if x ≤ x0 then y0 else interpAux x x0 y0 xs ys := by
  simp [interp]

/-! ## one segment -/

/-- the interpolation parameter `t = (x - x0)/(x1 - x0)` form of a segment -/
theorem seg_eq (x0 x1 x y0 y1 : R) :
    (y1 - y0) / (x1 - x0) * (x - x0) + y0 = (y1 - y0) * ((x - x0) / (x1 - x0)) + y0 := by
  ring

theorem seg_param {x0 x1 x : R} (h0 : x0 ≤ x) (h1 : x < x1) :
    0 ≤ (x - x0) / (x1 - x0) ∧ (x - x0) / (x1 - x0) ≤ 1 := by
  have hd : 0 < x1 - x0 := by linarith
  refine ⟨div_nonneg (by linarith) hd.le, ?_⟩
  rw [div_le_one hd]; linarith

theorem seg_le {x0 x1 x y0 y1 hi : R} (h0 : x0 ≤ x) (h1 : x < x1) (hy0 : y0 ≤ hi)
    (hy1 : y1 ≤ hi) : (y1 - y0) / (x1 - x0) * (x - x0) + y0 ≤ hi := by
  obtain ⟨ht0, ht1⟩ := seg_param h0 h1
  rw [seg_eq]
  nlinarith [mul_nonneg ht0 (sub_nonneg.2 hy1), mul_nonneg (sub_nonneg.2 ht1) (sub_nonneg.2 hy0)]

theorem le_seg {x0 x1 x y0 y1 lo : R} (h0 : x0 ≤ x) (h1 : x < x1) (hy0 : lo ≤ y0)
    (hy1 : lo ≤ y1) : lo ≤ (y1 - y0) / (x1 - x0) * (x - x0) + y0 := by
  obtain ⟨ht0, ht1⟩ := seg_param h0 h1
  rw [seg_eq]
  nlinarith [mul_nonneg ht0 (sub_nonneg.2 hy1), mul_nonneg (sub_nonneg.2 ht1) (sub_nonneg.2 hy0)]

/-- a segment with non-positive rise is antitone -/
theorem seg_anti {x0 x1 x x' y0 y1 : R} (h0 : x0 ≤ x) (hxx : x ≤ x') (h1 : x' < x1)
    (hy : y1 ≤ y0) :
    (y1 - y0) / (x1 - x0) * (x' - x0) + y0 ≤ (y1 - y0) / (x1 - x0) * (x - x0) + y0 := by
  have hd : 0 < x1 - x0 := by linarith
  have hs : (y1 - y0) / (x1 - x0) ≤ 0 := div_nonpos_of_nonpos_of_nonneg (by linarith) hd.le
  nlinarith [mul_nonneg (neg_nonneg.2 hs) (sub_nonneg.2 hxx)]

/-! ## 1. bounds -/

/-- upper bound for `interpAux`; only `x0 ≤ x` is needed -/
theorem interpAux_le {x hi : R} : ∀ (xs ys : List R) (x0 y0 : R), x0 ≤ x → y0 ≤ hi →
    (∀ y ∈ ys, y ≤ hi) → interpAux x x0 y0 xs ys ≤ hi
  | [], ys, x0, y0, _, hy0, _ => by rw [interpAux_nil_left]; exact hy0
  | _ :: _, [], x0, y0, _, hy0, _ => by rw [interpAux_nil_right]; exact hy0
  | x1 :: xs, y1 :: ys, x0, y0, h0, hy0, hys => by
    rw [interpAux_cons]
    have hy1 : y1 ≤ hi := hys y1 (by simp)
    split_ifs with h1
    · exact seg_le h0 h1 hy0 hy1
    · exact interpAux_le xs ys x1 y1 (not_lt.1 h1) hy1
        (fun y hy => hys y (List.mem_cons_of_mem _ hy))

/-- lower bound for `interpAux`; only `x0 ≤ x` is needed -/
theorem le_interpAux {x lo : R} : ∀ (xs ys : List R) (x0 y0 : R), x0 ≤ x → lo ≤ y0 →
    (∀ y ∈ ys, lo ≤ y) → lo ≤ interpAux x x0 y0 xs ys
  | [], ys, x0, y0, _, hy0, _ => by rw [interpAux_nil_left]; exact hy0
  | _ :: _, [], x0, y0, _, hy0, _ => by rw [interpAux_nil_right]; exact hy0
  | x1 :: xs, y1 :: ys, x0, y0, h0, hy0, hys => by
    rw [interpAux_cons]
    have hy1 : lo ≤ y1 := hys y1 (by simp)
    split_ifs with h1
    · exact le_seg h0 h1 hy0 hy1
    · exact le_interpAux xs ys x1 y1 (not_lt.1 h1) hy1
        (fun y hy => hys y (List.mem_cons_of_mem _ hy))

/-- `np.interp` stays inside the range of its values.  Needed: both lists non-empty (otherwise the
totalised model returns `0`) and the bound on `ys`.  Not needed: sortedness of `xs`, equal lengths. -/
theorem interp_keeps_bounds {lo hi : R} (x : R) (xs ys : List R) (hxs : xs ≠ []) (hys : ys ≠ [])
    (hb : ∀ y ∈ ys, lo ≤ y ∧ y ≤ hi) : lo ≤ interp x xs ys ∧ interp x xs ys ≤ hi := by
  match xs, ys, hxs, hys, hb with
  | x0 :: xs, y0 :: ys, _, _, hb =>
    rw [interp_cons]
    have hy0 := hb y0 (by simp)
    split_ifs with h
    · exact hy0
    · have h0 : x0 ≤ x := (not_le.1 h).le
      exact ⟨le_interpAux xs ys x0 y0 h0 hy0.1 (fun y hy => (hb y (List.mem_cons_of_mem _ hy)).1),
        interpAux_le xs ys x0 y0 h0 hy0.2 (fun y hy => (hb y (List.mem_cons_of_mem _ hy)).2)⟩

/-- the statement with the natural (stronger) hypotheses -/
theorem interp_keeps_bounds_of_sorted {lo hi : R} (x : R) (xs ys : List R)
    (_hsorted : List.Pairwise (· < ·) xs) (hlen : xs.length = ys.length) (hxs : xs ≠ [])
    (hb : ∀ y ∈ ys, lo ≤ y ∧ y ≤ hi) : lo ≤ interp x xs ys ∧ interp x xs ys ≤ hi := by
  refine interp_keeps_bounds x xs ys hxs ?_ hb
  rintro rfl
  exact hxs (List.length_eq_zero_iff.1 (by simpa using hlen))

/-! ## 2. monotonicity -/

/-- `interpAux` is antitone in `x` (for `x0 ≤ x`) when `y0 :: ys` is non-increasing -/
theorem interpAux_anti {x x' : R} (hxx : x ≤ x') : ∀ (xs ys : List R) (x0 y0 : R), x0 ≤ x →
    List.Pairwise (· ≥ ·) (y0 :: ys) → interpAux x' x0 y0 xs ys ≤ interpAux x x0 y0 xs ys
  | [], ys, x0, y0, _, _ => by simp [interpAux_nil_left]
  | _ :: _, [], x0, y0, _, _ => by simp [interpAux_nil_right]
  | x1 :: xs, y1 :: ys, x0, y0, h0, hp => by
    rw [interpAux_cons, interpAux_cons]
    rw [List.pairwise_cons] at hp
    obtain ⟨hy0, hp1⟩ := hp
    have hy1 : y1 ≤ y0 := hy0 y1 (by simp)
    by_cases h1 : x < x1
    · rw [if_pos h1]
      by_cases h1' : x' < x1
      · rw [if_pos h1']
        exact seg_anti h0 hxx h1' hy1
      · rw [if_neg h1']
        have hup : interpAux x' x1 y1 xs ys ≤ y1 :=
          interpAux_le xs ys x1 y1 (not_lt.1 h1') le_rfl
            (fun y hy => (List.pairwise_cons.1 hp1).1 y hy)
        exact hup.trans (le_seg h0 h1 hy1 le_rfl)
    · have h1' : ¬ x' < x1 := fun h => h1 (lt_of_le_of_lt hxx h)
      rw [if_neg h1, if_neg h1']
      exact interpAux_anti hxx xs ys x1 y1 (not_lt.1 h1) hp1

/-- `np.interp` of non-increasing values is non-increasing.  Needed: only `ys` non-increasing.
Not needed: sortedness of `xs`, equal lengths, non-emptiness. -/
theorem interp_keeps_mono {x x' : R} (xs ys : List R) (hys : List.Pairwise (· ≥ ·) ys)
    (hxx : x ≤ x') : interp x' xs ys ≤ interp x xs ys := by
  match xs, ys, hys with
  | [], _, _ => simp [interp]
  | _ :: _, [], _ => simp [interp]
  | x0 :: xs, y0 :: ys, hys =>
    rw [interp_cons, interp_cons]
    by_cases h : x ≤ x0
    · rw [if_pos h]
      by_cases h' : x' ≤ x0
      · rw [if_pos h']
      · rw [if_neg h']
        exact interpAux_le xs ys x0 y0 (not_le.1 h').le le_rfl
          (fun y hy => (List.pairwise_cons.1 hys).1 y hy)
    · have h' : ¬ x' ≤ x0 := fun hh => h (hxx.trans hh)
      rw [if_neg h, if_neg h']
      exact interpAux_anti hxx xs ys x0 y0 (not_le.1 h).le hys

/-- negating the values negates the interpolant -/
theorem interpAux_neg (x : R) : ∀ (xs ys : List R) (x0 y0 : R),
    interpAux x x0 (-y0) xs (ys.map Neg.neg) = -interpAux x x0 y0 xs ys
  | [], ys, x0, y0 => by simp [interpAux_nil_left]
  | _ :: _, [], x0, y0 => by simp [interpAux_nil_right]
  | x1 :: xs, y1 :: ys, x0, y0 => by
    rw [List.map_cons, interpAux_cons, interpAux_cons]
    split_ifs with h
    · ring
    · exact interpAux_neg x xs ys x1 y1

theorem interp_neg (x : R) (xs ys : List R) :
    interp x xs (ys.map Neg.neg) = -interp x xs ys := by
  match xs, ys with
  | [], _ => simp [interp]
  | _ :: _, [] => simp [interp]
  | x0 :: xs, y0 :: ys =>
    rw [List.map_cons, interp_cons, interp_cons]
    split_ifs with h
    · rfl
    · exact interpAux_neg x xs ys x0 y0

/-- `np.interp` of non-decreasing values is non-decreasing.  Needed: only `ys` non-decreasing. -/
theorem interp_keeps_mono_incr {x x' : R} (xs ys : List R) (hys : List.Pairwise (· ≤ ·) ys)
    (hxx : x ≤ x') : interp x xs ys ≤ interp x' xs ys := by
  have hneg : List.Pairwise (· ≥ ·) (ys.map Neg.neg) := by
    rw [List.pairwise_map]
    exact hys.imp (fun {a b} hab => neg_le_neg hab)
  have h := interp_keeps_mono (x := x) (x' := x') xs (ys.map Neg.neg) hneg hxx
  rw [interp_neg, interp_neg] at h
  exact neg_le_neg_iff.1 h

/-- the statements with the natural (stronger) hypotheses -/
theorem interp_keeps_mono_of_sorted {x x' : R} (xs ys : List R)
    (_hsorted : List.Pairwise (· < ·) xs) (_hlen : xs.length = ys.length) (_hxs : xs ≠ [])
    (hys : List.Pairwise (· ≥ ·) ys) (hxx : x ≤ x') : interp x' xs ys ≤ interp x xs ys :=
  interp_keeps_mono xs ys hys hxx

theorem interp_keeps_mono_incr_of_sorted {x x' : R} (xs ys : List R)
    (_hsorted : List.Pairwise (· < ·) xs) (_hlen : xs.length = ys.length) (_hxs : xs ≠ [])
    (hys : List.Pairwise (· ≤ ·) ys) (hxx : x ≤ x') : interp x xs ys ≤ interp x' xs ys :=
  interp_keeps_mono_incr xs ys hys hxx

/-! ## 3. nodes -/

/-- at its own left node `interpAux` returns the node value, if the next abscissa is larger -/
theorem interpAux_self (x0 y0 : R) (xs ys : List R) (h : ∀ a ∈ xs.head?, x0 < a) :
    interpAux x0 x0 y0 xs ys = y0 := by
  match xs, ys with
  | [], _ => exact interpAux_nil_left ..
  | _ :: _, [] => exact interpAux_nil_right ..
  | x1 :: xs, y1 :: ys =>
    rw [interpAux_cons, if_pos (h x1 (by simp))]
    simp

theorem interpAux_at_node : ∀ (xs ys : List R) (x0 y0 : R) (j : ℕ) (hj : j < xs.length)
    (hj' : j < ys.length), List.Pairwise (· < ·) (x0 :: xs) →
    interpAux (xs[j]) x0 y0 xs ys = ys[j]
  | x1 :: xs, y1 :: ys, x0, y0, 0, _, _, hp => by
    simp only [List.getElem_cons_zero]
    rw [interpAux_cons, if_neg (lt_irrefl _)]
    have hp1 := (List.pairwise_cons.1 hp).2
    refine interpAux_self x1 y1 xs ys ?_
    intro a ha
    exact (List.pairwise_cons.1 hp1).1 a (List.mem_of_mem_head? ha)
  | x1 :: xs, y1 :: ys, x0, y0, j + 1, hj, hj', hp => by
    simp only [List.getElem_cons_succ]
    have hp1 := (List.pairwise_cons.1 hp).2
    have hj1 : j < xs.length := by simpa using hj
    have hlt : x1 < xs[j] := (List.pairwise_cons.1 hp1).1 _ (List.getElem_mem hj1)
    rw [interpAux_cons, if_neg (not_lt.2 hlt.le)]
    exact interpAux_at_node xs ys x1 y1 j hj1 (by simpa using hj') hp1

/-- `np.interp` reproduces the table at the nodes (stated with `getElem` and explicit bound proofs;
`i < ys.length` replaces `xs.length = ys.length`). -/
theorem interp_at_node (xs ys : List R) (hsorted : List.Pairwise (· < ·) xs) (i : ℕ)
    (hi : i < xs.length) (hi' : i < ys.length) : interp (xs[i]) xs ys = ys[i] := by
  match xs, ys, i, hi, hi', hsorted with
  | x0 :: xs, y0 :: ys, 0, _, _, _ =>
    simp only [List.getElem_cons_zero]
    rw [interp_cons, if_pos le_rfl]
  | x0 :: xs, y0 :: ys, i + 1, hi, hi', hp =>
    simp only [List.getElem_cons_succ]
    have hi1 : i < xs.length := by simpa using hi
    have hlt : x0 < xs[i] := (List.pairwise_cons.1 hp).1 _ (List.getElem_mem hi1)
    rw [interp_cons, if_neg (not_le.2 hlt)]
    exact interpAux_at_node xs ys x0 y0 i hi1 (by simpa using hi') hp

/-- the same with `xs.length = ys.length` -/
theorem interp_at_node_of_length (xs ys : List R) (hsorted : List.Pairwise (· < ·) xs)
    (hlen : xs.length = ys.length) (i : ℕ) (hi : i < xs.length) :
    interp (xs[i]) xs ys = ys[i]'(hlen ▸ hi) :=
  interp_at_node xs ys hsorted i hi (hlen ▸ hi)

end PropLemmas
end
