import PyrexVerif.R.Propagate
import PyrexVerif.Proofs.DftProps3
import PyrexVerif.Proofs.PropBasis
import PyrexVerif.Proofs.PropFresnel
/-!
# C03: `propagate` — output grid, linearity, passivity (from the C05 filter theorems and Bessel)
-/
noncomputable section
namespace PropLemmas
open PyrexR

lemma getD_map_mul (l : List ℝ) (s : ℝ) (i : ℕ) : (l.map (· * s)).getD i 0 = l.getD i 0 * s := by
  have h0 : (0 : ℝ) = (fun v : ℝ => v * s) 0 := by simp
  conv_lhs => rw [h0]
  rw [List.getD_map]

lemma sum_sq_map_mul (l : List ℝ) (s : ℝ) :
    ((l.map (· * s)).map (fun v => v ^ 2)).sum = s ^ 2 * (l.map (fun v => v ^ 2)).sum := by
  induction l with
  | nil => simp
  | cons a l ih =>
    simp only [List.map_cons, List.sum_cons] at ih ⊢
    rw [ih]; ring

/-- output times = input times + time of flight; both signals live on that grid -/
theorem propagate_grid (times vals : List ℝ) (pol : V3) (tof : ℝ) (e r : V3) (φ : ℝ) (rs rp : Cx)
    (att : ℝ → ℝ) (hlen : vals.length = times.length) :
    (propagate times vals pol tof e r φ rs rp att).times = times.map (· + tof)
    ∧ (propagate times vals pol tof e r φ rs rp att).sigS.length = times.length
    ∧ (propagate times vals pol tof e r φ rs rp att).sigP.length = times.length := by
  refine ⟨rfl, ?_, ?_⟩
  · simp only [propagate]
    rw [DftModel.length_filterFrequencies _ _ _ _ _ (by simp [hlen])]
    simp [hlen]
  · simp only [propagate]
    rw [DftModel.length_filterFrequencies _ _ _ _ _ (by simp [hlen])]
    simp [hlen]

theorem propagateScalar_grid (times vals : List ℝ) (tof : ℝ) (att : ℝ → ℝ) (hlen : vals.length = times.length) :
    (propagateScalar times vals tof att).1 = times.map (· + tof)
    ∧ (propagateScalar times vals tof att).2.length = times.length := by
  refine ⟨rfl, ?_⟩
  simp only [propagateScalar]
  rw [DftModel.length_filterFrequencies _ _ _ _ _ (by simp [hlen])]
  exact hlen

/-- linear in the signal -/
theorem propagate_linear_signal (times x y : List ℝ) (a b : ℝ) (pol : V3) (tof : ℝ) (e r : V3) (φ : ℝ)
    (rs rp : Cx) (att : ℝ → ℝ) (hx : x.length = times.length) (hy : y.length = times.length) :
    (propagate times (List.zipWith (fun u v => a * u + b * v) x y) pol tof e r φ rs rp att).sigS
      = List.zipWith (fun u v => a * u + b * v) (propagate times x pol tof e r φ rs rp att).sigS
          (propagate times y pol tof e r φ rs rp att).sigS
    ∧ (propagate times (List.zipWith (fun u v => a * u + b * v) x y) pol tof e r φ rs rp att).sigP
      = List.zipWith (fun u v => a * u + b * v) (propagate times x pol tof e r φ rs rp att).sigP
          (propagate times y pol tof e r φ rs rp att).sigP := by
  have hxy : x.length = y.length := by omega
  constructor <;>
  · simp only [propagate]
    apply DftProps.filter_linear_aux
    · simp [hx]
    · simp [hy]
    · simp; omega
    · intro i
      rw [getD_map_mul, getD_map_mul, getD_map_mul, DftProps.getD_zipWith_lin a b x y hxy]
      ring

lemma dot_lin (a b : ℝ) (p q u : V3) :
    dot (a * p.1 + b * q.1, a * p.2.1 + b * q.2.1, a * p.2.2 + b * q.2.2) u = a * dot p u + b * dot q u := by
  simp only [dot]; ring

/-- linear in the polarisation vector -/
theorem propagate_linear_pol (times x : List ℝ) (a b : ℝ) (p q : V3) (tof : ℝ) (e r : V3) (φ : ℝ)
    (rs rp : Cx) (att : ℝ → ℝ) (hx : x.length = times.length) :
    (propagate times x (a * p.1 + b * q.1, a * p.2.1 + b * q.2.1, a * p.2.2 + b * q.2.2) tof e r φ rs rp att).sigS
      = List.zipWith (fun u v => a * u + b * v) (propagate times x p tof e r φ rs rp att).sigS
          (propagate times x q tof e r φ rs rp att).sigS
    ∧ (propagate times x (a * p.1 + b * q.1, a * p.2.1 + b * q.2.1, a * p.2.2 + b * q.2.2) tof e r φ rs rp att).sigP
      = List.zipWith (fun u v => a * u + b * v) (propagate times x p tof e r φ rs rp att).sigP
          (propagate times x q tof e r φ rs rp att).sigP := by
  constructor <;>
  · simp only [propagate]
    apply DftProps.filter_linear_aux
    · simp [hx]
    · simp [hx]
    · simp [hx]
    · intro i
      rw [getD_map_mul, getD_map_mul, getD_map_mul, dot_lin]
      ring

lemma cnormSq_att_mul (t : ℝ) (c : Cx) (ht : 0 ≤ t ∧ t ≤ 1) (hc : cnormSq c ≤ 1) :
    cnormSq (cmul (cofReal t) c) ≤ 1 := by
  rw [cnormSq_cmul]
  have h1 : cnormSq (cofReal t) = t ^ 2 := by simp [cnormSq, cofReal]; ring
  rw [h1]
  have h2 : t ^ 2 ≤ 1 := by nlinarith [ht.1, ht.2]
  have h3 := cnormSq_nonneg c
  nlinarith [sq_nonneg t]

/-- **passivity**: with an attenuation in `[0,1]`, Fresnel coefficients of modulus ≤ 1 and an orthonormal pair
`(u_s0, u_p0)`, the two output signals together carry at most `|pol|²` times the input energy -/
theorem propagate_passive (times vals : List ℝ) (pol : V3) (tof : ℝ) (e r : V3) (φ : ℝ) (rs rp : Cx)
    (att : ℝ → ℝ) (hlen : vals.length = times.length) (hatt : ∀ f, 0 ≤ att f ∧ att f ≤ 1)
    (hrs : cnormSq rs ≤ 1) (hrp : cnormSq rp ≤ 1)
    (hb : dot (polBasis e r φ).1 (polBasis e r φ).1 = 1 ∧ dot (polBasis e r φ).2.1 (polBasis e r φ).2.1 = 1
      ∧ dot (polBasis e r φ).1 (polBasis e r φ).2.1 = 0) :
    ((propagate times vals pol tof e r φ rs rp att).sigS.map (fun v => v ^ 2)).sum
      + ((propagate times vals pol tof e r φ rs rp att).sigP.map (fun v => v ^ 2)).sum
      ≤ dot pol pol * (vals.map (fun v => v ^ 2)).sum := by
  simp only [propagate]
  have hS := DftProps.filter_passive (times.map (· + tof)) (vals.map (· * dot pol (polBasis e r φ).1))
    (fun f => cmul (cofReal (att f)) rs) true true (by simp [hlen])
    (fun f => cnormSq_att_mul _ _ (hatt f) hrs)
  have hP := DftProps.filter_passive (times.map (· + tof)) (vals.map (· * dot pol (polBasis e r φ).2.1))
    (fun f => cmul (cofReal (att f)) rp) true true (by simp [hlen])
    (fun f => cnormSq_att_mul _ _ (hatt f) hrp)
  rw [sum_sq_map_mul] at hS hP
  have hbes := bessel_pair (polBasis e r φ).1 (polBasis e r φ).2.1 pol hb.1 hb.2.1 hb.2.2
  have hE : 0 ≤ (vals.map (fun v => v ^ 2)).sum := by
    apply List.sum_nonneg
    intro v hv
    obtain ⟨w, _, rfl⟩ := List.mem_map.mp hv
    positivity
  nlinarith [hS, hP, hbes, hE]

/-- the same for a physical ray: emitted and received directions are unit vectors with the azimuth `φ`
(`a = sin θ₀` may vanish: vertical ray, repair F11) -/
theorem propagate_passive_ray (times vals : List ℝ) (pol : V3) (tof : ℝ) (a c a' c' φ : ℝ) (rs rp : Cx)
    (att : ℝ → ℝ) (hlen : vals.length = times.length) (hatt : ∀ f, 0 ≤ att f ∧ att f ≤ 1)
    (hrs : cnormSq rs ≤ 1) (hrp : cnormSq rp ≤ 1) (hac : a ^ 2 + c ^ 2 = 1) (hac' : a' ^ 2 + c' ^ 2 = 1) :
    ((propagate times vals pol tof (a * Real.cos φ, a * Real.sin φ, c) (a' * Real.cos φ, a' * Real.sin φ, c')
        φ rs rp att).sigS.map (fun v => v ^ 2)).sum
      + ((propagate times vals pol tof (a * Real.cos φ, a * Real.sin φ, c) (a' * Real.cos φ, a' * Real.sin φ, c')
        φ rs rp att).sigP.map (fun v => v ^ 2)).sum
      ≤ dot pol pol * (vals.map (fun v => v ^ 2)).sum := by
  apply propagate_passive _ _ _ _ _ _ _ _ _ _ hlen hatt hrs hrp
  by_cases ha : a = 0
  · subst ha
    have h := pol_basis_vertical' c a' c' φ hac hac'
    exact ⟨h.1, h.2.1, h.2.2.2.1⟩
  · have h := pol_basis a c a' c' φ hac ha hac'
    exact ⟨h.1, h.2.1, h.2.2.2.1⟩

end PropLemmas
end
