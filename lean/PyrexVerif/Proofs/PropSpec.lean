import PyrexVerif.Proofs.PropAtten
/-!
# C03 — `SpecializedRayTracePath.attenuation`: monotone in the attenuation lengths

Both numerical branches of `specializedLeg`:
* `plain = true`: `trapz(sec θ / L, x = z)` with the depths `zs` ascending;
* `plain = false`: the change of variable `u = sqrt(1 − (β/n)²)`; with `k a ≥ 0` and positive, descending
  `ns` (what ascending depths give in an exponential profile) the new abscissae descend and the integrand
  `n³/β²/(−k a e^{a z}) / L` is `≤ 0`, so every trapezoid term is again `≥ 0` and monotone in `1/L`.
-/
noncomputable section
namespace PropLemmas
open PyrexR

lemma trapzTermsX_nil_right (xs : List ℝ) : trapzTermsX xs [] = [] := by
  cases xs with
  | nil => rfl
  | cons x xs => cases xs <;> rfl

lemma trapzTermsX_single_right (xs : List ℝ) (y : ℝ) : trapzTermsX xs [y] = [] := by
  cases xs with
  | nil => rfl
  | cons x xs => cases xs <;> rfl

/-- ascending abscissae: the terms are monotone in the ordinates -/
lemma trapzTermsX_mono {ys₁ ys₂ : List ℝ} (h : List.Forall₂ (· ≤ ·) ys₁ ys₂) (xs : List ℝ)
    (hx : List.Pairwise (· ≤ ·) xs) :
    List.Forall₂ (· ≤ ·) (trapzTermsX xs ys₁) (trapzTermsX xs ys₂) := by
  induction h generalizing xs with
  | nil => simp [trapzTermsX_nil_right]
  | cons hab h' ih =>
    cases h' with
    | nil => simp [trapzTermsX_single_right]
    | cons hab' h'' =>
      match xs, hx with
      | [], _ => simp [trapzTermsX]
      | [_], _ => simp [trapzTermsX]
      | x0 :: x1 :: xs, hx =>
        simp only [trapzTermsX]
        rw [List.pairwise_cons] at hx
        refine List.Forall₂.cons ?_ (ih (x1 :: xs) hx.2)
        have h01 : 0 ≤ x1 - x0 := sub_nonneg.mpr (hx.1 x1 (by simp))
        have := mul_le_mul_of_nonneg_left (add_le_add hab' hab) h01
        linarith

/-- descending abscissae: the terms are antitone in the ordinates -/
lemma trapzTermsX_anti {ys₁ ys₂ : List ℝ} (h : List.Forall₂ (fun a b => b ≤ a) ys₁ ys₂)
    (xs : List ℝ) (hx : List.Pairwise (· ≥ ·) xs) :
    List.Forall₂ (· ≤ ·) (trapzTermsX xs ys₁) (trapzTermsX xs ys₂) := by
  induction h generalizing xs with
  | nil => simp [trapzTermsX_nil_right]
  | cons hab h' ih =>
    cases h' with
    | nil => simp [trapzTermsX_single_right]
    | cons hab' h'' =>
      match xs, hx with
      | [], _ => simp [trapzTermsX]
      | [_], _ => simp [trapzTermsX]
      | x0 :: x1 :: xs, hx =>
        simp only [trapzTermsX]
        rw [List.pairwise_cons] at hx
        refine List.Forall₂.cons ?_ (ih (x1 :: xs) hx.2)
        have h01 : 0 ≤ x0 - x1 := sub_nonneg.mpr (hx.1 x1 (by simp))
        have := mul_le_mul_of_nonneg_left (add_le_add hab' hab) h01
        linarith

lemma trapzTermsX_nonneg_of_asc : ∀ (xs ys : List ℝ), List.Pairwise (· ≤ ·) xs →
    (∀ y ∈ ys, 0 ≤ y) → ∀ t ∈ trapzTermsX xs ys, 0 ≤ t
  | x0 :: x1 :: xs, y0 :: y1 :: ys, hx, hy => by
    intro t ht
    simp only [trapzTermsX, List.mem_cons] at ht
    rw [List.pairwise_cons] at hx
    rcases ht with rfl | ht
    · have h01 : 0 ≤ x1 - x0 := sub_nonneg.mpr (hx.1 x1 (by simp))
      have h0 := hy y0 (by simp)
      have h1 := hy y1 (by simp)
      exact div_nonneg (mul_nonneg h01 (by linarith)) (by norm_num)
    · exact trapzTermsX_nonneg_of_asc (x1 :: xs) (y1 :: ys) hx.2
        (fun y hy' => hy y (List.mem_cons_of_mem _ hy')) t ht
  | [], _, _, _ => by simp [trapzTermsX]
  | [_], _, _, _ => by simp [trapzTermsX]
  | _ :: _ :: _, [], _, _ => by simp [trapzTermsX]
  | _ :: _ :: _, [_], _, _ => by simp [trapzTermsX]

lemma trapzTermsX_nonneg_of_desc : ∀ (xs ys : List ℝ), List.Pairwise (· ≥ ·) xs →
    (∀ y ∈ ys, y ≤ 0) → ∀ t ∈ trapzTermsX xs ys, 0 ≤ t
  | x0 :: x1 :: xs, y0 :: y1 :: ys, hx, hy => by
    intro t ht
    simp only [trapzTermsX, List.mem_cons] at ht
    rw [List.pairwise_cons] at hx
    rcases ht with rfl | ht
    · have h01 : x1 - x0 ≤ 0 := sub_nonpos.mpr (hx.1 x1 (by simp))
      have h0 := hy y0 (by simp)
      have h1 := hy y1 (by simp)
      exact div_nonneg (mul_nonneg_of_nonpos_of_nonpos h01 (by linarith)) (by norm_num)
    · exact trapzTermsX_nonneg_of_desc (x1 :: xs) (y1 :: ys) hx.2
        (fun y hy' => hy y (List.mem_cons_of_mem _ hy')) t ht
  | [], _, _, _ => by simp [trapzTermsX]
  | [_], _, _, _ => by simp [trapzTermsX]
  | _ :: _ :: _, [], _, _ => by simp [trapzTermsX]
  | _ :: _ :: _, [_], _, _ => by simp [trapzTermsX]

lemma secTheta_nonneg (beta nz : ℝ) : 0 ≤ secTheta beta nz := by
  unfold secTheta
  exact div_nonneg zero_le_one (Real.cos_arcsin_nonneg _)

/-- **A6, plain branch** (`deep` or `β ≈ 0`): depths `zs` ascending, attenuation lengths pointwise
`0 < L₂ ≤ L₁`: the leg integral is `≥ 0` and does not decrease -/
theorem specialized_leg_mono (beta k a : ℝ) (zs ns : List ℝ) {Ls₁ Ls₂ : List ℝ}
    (hz : List.Pairwise (· ≤ ·) zs)
    (hL : List.Forall₂ (fun L1 L2 => 0 < L2 ∧ L2 ≤ L1) Ls₁ Ls₂) :
    0 ≤ specializedLeg true beta k a zs ns Ls₁ ∧
      specializedLeg true beta k a zs ns Ls₁ ≤ specializedLeg true beta k a zs ns Ls₂ := by
  simp only [specializedLeg, if_true, trapzX]
  rw [listSum_eq, listSum_eq]
  constructor
  · apply sum_nonneg_of_mem
    apply trapzTermsX_nonneg_of_asc _ _ hz
    exact forall₂_left_mem (forall₂_zipWith (S := fun x _ => 0 ≤ x)
      (fun n L => secTheta beta n / L) (fun n L => secTheta beta n / L) hL ns
      (fun c _ a b hab => div_nonneg (secTheta_nonneg _ _) (lt_of_lt_of_le hab.1 hab.2).le))
  · apply sum_le_sum_of_forall₂
    apply trapzTermsX_mono _ zs hz
    exact forall₂_zipWith _ _ hL ns
      (fun c _ a b hab => div_le_div_of_nonneg_left (secTheta_nonneg _ _) hab.1 hab.2)

/-- `n ↦ sqrt(1 − (β/n)²)` is monotone on `n > 0` -/
lemma covVar_mono (beta : ℝ) {n m : ℝ} (hn : 0 < n) (hnm : n ≤ m) :
    Real.sqrt (1 - (beta / n) * (beta / n)) ≤ Real.sqrt (1 - (beta / m) * (beta / m)) := by
  apply Real.sqrt_le_sqrt
  have hm : 0 < m := lt_of_lt_of_le hn hnm
  have h1 : |beta / m| ≤ |beta / n| := by
    rw [abs_div, abs_div, abs_of_pos hn, abs_of_pos hm]
    exact div_le_div_of_nonneg_left (abs_nonneg _) hn hnm
  have h2 := mul_self_le_mul_self (abs_nonneg _) h1
  rw [abs_mul_abs_self, abs_mul_abs_self] at h2
  linarith

/-- the integrand factor of the change of variable is `≤ 0` for `n > 0`, `k a ≥ 0` -/
lemma covFactor_nonpos (beta k a z n : ℝ) (hka : 0 ≤ k * a) (hn : 0 < n) :
    n * n * n / (beta * beta) / (-k * a * Real.exp (a * z)) ≤ 0 := by
  apply div_nonpos_of_nonneg_of_nonpos
  · exact div_nonneg (by positivity) (mul_self_nonneg _)
  · have := mul_nonneg hka (Real.exp_pos (a * z)).le
    nlinarith

/-- **A6, change-of-variable branch**: `k a ≥ 0`, the indices `ns` positive and descending (depths
ascending in an exponential profile), attenuation lengths pointwise `0 < L₂ ≤ L₁`:
the leg integral is `≥ 0` and does not decrease.  (No hypothesis on `zs` or `β` is needed.) -/
theorem specialized_leg_mono_cov (beta k a : ℝ) (zs ns : List ℝ) {Ls₁ Ls₂ : List ℝ}
    (hka : 0 ≤ k * a) (hn : ∀ n ∈ ns, 0 < n) (hns : List.Pairwise (· ≥ ·) ns)
    (hL : List.Forall₂ (fun L1 L2 => 0 < L2 ∧ L2 ≤ L1) Ls₁ Ls₂) :
    0 ≤ specializedLeg false beta k a zs ns Ls₁ ∧
      specializedLeg false beta k a zs ns Ls₁ ≤ specializedLeg false beta k a zs ns Ls₂ := by
  simp only [specializedLeg, Bool.false_eq_true, if_false, trapzX, Rsqrt, Rexp]
  rw [listSum_eq, listSum_eq]
  have hu : List.Pairwise (· ≥ ·)
      (ns.map fun n => Real.sqrt (1 - (beta / n) * (beta / n))) := by
    rw [List.pairwise_map]
    refine List.Pairwise.imp_of_mem (fun {x y} hx hy hxy => ?_) hns
    exact covVar_mono beta (hn y hy) hxy
  have hmem : ∀ zn ∈ List.zip zs ns, 0 < zn.2 := by
    intro zn hzn
    obtain ⟨z, n⟩ := zn
    exact hn n (List.of_mem_zip hzn).2
  constructor
  · apply sum_nonneg_of_mem
    apply trapzTermsX_nonneg_of_desc _ _ hu
    exact forall₂_left_mem (forall₂_zipWith (S := fun x _ => x ≤ 0)
      (fun (zn : ℝ × ℝ) L =>
        zn.2 * zn.2 * zn.2 / (beta * beta) / (-k * a * Real.exp (a * zn.1)) / L)
      (fun (zn : ℝ × ℝ) L =>
        zn.2 * zn.2 * zn.2 / (beta * beta) / (-k * a * Real.exp (a * zn.1)) / L)
      hL (List.zip zs ns)
      (fun zn hzn a' b' hab => div_nonpos_of_nonpos_of_nonneg
        (covFactor_nonpos beta k a zn.1 zn.2 hka (hmem zn hzn)) (lt_of_lt_of_le hab.1 hab.2).le))
  · apply sum_le_sum_of_forall₂
    apply trapzTermsX_anti _ _ hu
    refine forall₂_zipWith _ _ hL (List.zip zs ns) (fun zn hzn L1 L2 hab => ?_)
    have hc := covFactor_nonpos beta k a zn.1 zn.2 hka (hmem zn hzn)
    have hL1 : 0 < L1 := lt_of_lt_of_le hab.1 hab.2
    show _ / L2 ≤ _ / L1
    rw [div_le_div_iff₀ hab.1 hL1]
    nlinarith [mul_nonneg (neg_nonneg.mpr hc) (sub_nonneg.mpr hab.2)]

/-- `SpecializedRayTracePath.attenuation`: `legs₂` is `legs₁` (same branch flag, depths, indices) with
attenuation lengths pointwise `0 < L₂ ≤ L₁`; plain legs have ascending depths, change-of-variable legs
positive descending indices and `k a ≥ 0`.  Then the factor of `legs₂` is not larger. -/
theorem specialized_atten_mono (beta k a : ℝ)
    (legs₁ legs₂ : List (Bool × List ℝ × List ℝ × List ℝ))
    (h : List.Forall₂ (fun l₁ l₂ => l₁.1 = l₂.1 ∧ l₁.2.1 = l₂.2.1 ∧ l₁.2.2.1 = l₂.2.2.1 ∧
      (l₁.1 = true → List.Pairwise (· ≤ ·) l₁.2.1) ∧
      (l₁.1 = false → 0 ≤ k * a ∧ (∀ n ∈ l₁.2.2.1, 0 < n) ∧ List.Pairwise (· ≥ ·) l₁.2.2.1) ∧
      List.Forall₂ (fun L1 L2 => 0 < L2 ∧ L2 ≤ L1) l₁.2.2.2 l₂.2.2.2) legs₁ legs₂) :
    specializedAttenuation beta k a legs₂ ≤ specializedAttenuation beta k a legs₁ := by
  unfold specializedAttenuation
  have key : ∀ l₁ l₂ : Bool × List ℝ × List ℝ × List ℝ,
      (l₁.1 = l₂.1 ∧ l₁.2.1 = l₂.2.1 ∧ l₁.2.2.1 = l₂.2.2.1 ∧
      (l₁.1 = true → List.Pairwise (· ≤ ·) l₁.2.1) ∧
      (l₁.1 = false → 0 ≤ k * a ∧ (∀ n ∈ l₁.2.2.1, 0 < n) ∧ List.Pairwise (· ≥ ·) l₁.2.2.1) ∧
      List.Forall₂ (fun L1 L2 => 0 < L2 ∧ L2 ≤ L1) l₁.2.2.2 l₂.2.2.2) →
      0 ≤ specializedLeg l₁.1 beta k a l₁.2.1 l₁.2.2.1 l₁.2.2.2 ∧
      specializedLeg l₁.1 beta k a l₁.2.1 l₁.2.2.1 l₁.2.2.2 ≤
        specializedLeg l₂.1 beta k a l₂.2.1 l₂.2.2.1 l₂.2.2.2 := by
    rintro ⟨p, zs, ns, Ls₁⟩ ⟨p', zs', ns', Ls₂⟩ ⟨h1, h2, h3, h4, h5, h6⟩
    simp only at h1 h2 h3 h4 h5 h6 ⊢
    subst h1 h2 h3
    cases p with
    | true => exact specialized_leg_mono beta k a zs ns (h4 rfl) h6
    | false =>
      obtain ⟨a1, a2, a3⟩ := h5 rfl
      exact specialized_leg_mono_cov beta k a zs ns a1 a2 a3 h6
  apply attenuationOf_anti
  · rw [listSum_eq]
    apply sum_nonneg_of_mem
    exact forall₂_left_mem (forall₂_map (S := fun x _ => 0 ≤ x) _
      (fun l => specializedLeg l.1 beta k a l.2.1 l.2.2.1 l.2.2.2) h
      (fun l₁ l₂ hl => (key l₁ l₂ hl).1))
  · rw [listSum_eq, listSum_eq]
    apply sum_le_sum_of_forall₂
    exact forall₂_map _ _ h (fun l₁ l₂ hl => (key l₁ l₂ hl).2)

end PropLemmas
end
