import PyrexVerif.R.Ray
import PyrexVerif.Props.C16
import PyrexVerif.Proofs.RayDeriv
import Mathlib.Analysis.SpecialFunctions.Trigonometric.Inverse
import Mathlib.Tactic.Linarith
import Mathlib.Tactic.Positivity
import Mathlib.Tactic.FieldSimp
import Mathlib.Tactic.Ring
/-!
# C01 helper lemmas: Snell invariant, ray angle vs. integrands, deep branch, turning point,
direct rays, launch-angle conversion, uniform-correction bookkeeping
-/
open PyrexR PyrexR.Ray

namespace RayProofs

/-! ## the ray angle: `sin θ = β/n`  ⇒  `tan θ = β/√(n²−β²)`, `sec θ = n/√(n²−β²)` -/
lemma sqrt_one_sub_sq_div (n β : ℝ) (hn : 0 < n) :
    Real.sqrt (1 - (β / n) ^ 2) = Real.sqrt (n * n - β * β) / n := by
  have h : 1 - (β / n) ^ 2 = (n * n - β * β) / n ^ 2 := by field_simp
  rw [h, Real.sqrt_div' _ (by positivity), Real.sqrt_sq hn.le]

lemma tan_arcsin_div (n β : ℝ) (hn : 0 < n) (h : β * β < n * n) :
    Real.tan (Real.arcsin (β / n)) = β / Real.sqrt (n * n - β * β) := by
  rw [Real.tan_arcsin, sqrt_one_sub_sq_div n β hn]
  have : Real.sqrt (n * n - β * β) ≠ 0 := ne_of_gt (Real.sqrt_pos.mpr (by linarith))
  field_simp

lemma sec_arcsin_div (n β : ℝ) (hn : 0 < n) (h : β * β < n * n) :
    1 / Real.cos (Real.arcsin (β / n)) = n / Real.sqrt (n * n - β * β) := by
  rw [Real.cos_arcsin, sqrt_one_sub_sq_div n β hn]
  have : Real.sqrt (n * n - β * β) ≠ 0 := ne_of_gt (Real.sqrt_pos.mpr (by linarith))
  field_simp

/-! ## Snell -/
lemma snell (I : Ice) (zFrom θ0 z : ℝ) (hn : 0 < I.index z)
    (hβ : |pathBeta I zFrom θ0| ≤ I.index z) :
    I.index z * Real.sin (theta I zFrom θ0 z) = pathBeta I zFrom θ0 := by
  unfold theta pathBeta at *
  simp only [Rasin, Rsin] at *
  have hx : |Real.sin θ0 * I.index zFrom / I.index z| ≤ 1 := by
    rw [abs_div, abs_of_pos hn, div_le_one hn, mul_comm]; exact hβ
  rw [Real.sin_arcsin (neg_le_of_abs_le hx) (le_of_abs_le hx)]
  field_simp

/-! ## deep branch -/
section deep
variable (I : Ice) (β : ℝ)

lemma distInt_deep_hasDerivAt (z : ℝ) :
    HasDerivAt (fun y => distInt I y β true) (β / Real.sqrt (alphaT I β)) z := by
  unfold distInt
  simp only [if_true, Rsqrt]
  have h := ((hasDerivAt_id z).const_mul β).div_const (Real.sqrt (alphaT I β))
  simpa using h

lemma pathInt_deep_hasDerivAt (z : ℝ) :
    HasDerivAt (fun y => pathInt I y β true) (I.n0 / Real.sqrt (alphaT I β)) z := by
  unfold pathInt
  simp only [if_true, Rsqrt]
  have h := ((hasDerivAt_id z).const_mul I.n0).div_const (Real.sqrt (alphaT I β))
  simpa using h

lemma tofInt_deep_hasDerivAt (z : ℝ) (ha : I.a ≠ 0) :
    HasDerivAt (fun y => tofInt I y β true)
      (I.n0 * nzT I z / (Real.sqrt (alphaT I β) * cLight)) z := by
  unfold tofInt
  simp only [if_true, Rsqrt]
  have h1 : HasDerivAt (fun y => I.a * y - 1) I.a z := by
    simpa using ((hasDerivAt_id z).const_mul I.a).sub_const 1
  have h2 := (((hasDerivAt_nzT I z).add (h1.const_mul I.n0)).const_mul I.n0).div_const
    (I.a * Real.sqrt (alphaT I β) * cLight)
  refine h2.congr_deriv ?_
  by_cases hs : Real.sqrt (alphaT I β) = 0
  · simp [hs]
  · have hc : cLight ≠ 0 := ne_of_gt cLight_pos
    field_simp
    ring

/-- value of `uniformity_factor` read from the regenerated constants -/
lemma uniformityFactor_val : uniformityFactor = (99999 : ℝ) / 100000 := by
  unfold uniformityFactor
  simp only [RofNat, RayConstants.uniformityFactorNum, RayConstants.uniformityFactorDen]
  norm_num

/-- below `z_uniform` the true index differs from `n0` by at most the factor `uniformity_factor` -/
lemma deep_index_bound (hk : 0 < I.k) (ha : 0 < I.a) (hn0 : 0 < I.n0) (z : ℝ)
    (hz : z ≤ Real.log ((I.n0 - I.n0 * uniformityFactor) / I.k) / I.a) :
    I.n0 * uniformityFactor ≤ nzT I z ∧ nzT I z < I.n0 := by
  refine ⟨?_, nzT_lt_n0 I hk z⟩
  have hpos : 0 < (I.n0 - I.n0 * uniformityFactor) / I.k := by
    apply div_pos _ hk
    rw [uniformityFactor_val]; nlinarith
  have h1 : I.a * z ≤ Real.log ((I.n0 - I.n0 * uniformityFactor) / I.k) := by
    have := mul_le_mul_of_nonneg_left hz ha.le
    rwa [mul_div_cancel₀ _ (ne_of_gt ha)] at this
  have h2 : Real.exp (I.a * z) ≤ (I.n0 - I.n0 * uniformityFactor) / I.k := by
    calc Real.exp (I.a * z) ≤ Real.exp (Real.log ((I.n0 - I.n0 * uniformityFactor) / I.k)) :=
          Real.exp_le_exp.mpr h1
      _ = _ := Real.exp_log hpos
  have h3 : I.k * Real.exp (I.a * z) ≤ I.n0 - I.n0 * uniformityFactor := by
    have := mul_le_mul_of_nonneg_left h2 hk.le
    rwa [mul_div_cancel₀ _ (ne_of_gt hk)] at this
  unfold nzT; simp only [Rexp]; linarith

end deep

/-! ## turning point -/
lemma turn_or_reflect (I : Ice) (hk : 0 < I.k) (ha : 0 < I.a) (hlh : I.lo ≤ I.hi) (β : ℝ)
    (h2 : β ≤ I.index I.lo) (h3 : β < I.n0) :
    (I.index I.hi ≤ β → I.index (I.depthWithIndex β) = β) ∧
    (β < I.index I.hi → I.depthWithIndex β = I.hi) := by
  have h := C16_index_of_depth I hk ha hlh β
  exact ⟨fun h1 => h.1 h1 h2 h3, h.2.1⟩

/-! ## tracer endpoints -/
lemma tracerZ0_le_tracerZ1 (zFrom zTo : ℝ) : tracerZ0 zFrom zTo ≤ tracerZ1 zFrom zTo := by
  unfold tracerZ0 tracerZ1
  split_ifs with h
  · exact le_of_lt h
  · exact not_lt.mp h

lemma tracerZ0_mem (zFrom zTo : ℝ) : tracerZ0 zFrom zTo = zFrom ∨ tracerZ0 zFrom zTo = zTo := by
  unfold tracerZ0; split_ifs <;> simp

/-! ## `_z_int_uniform_correction` bookkeeping -/
section zint
variable (F : Ice → ℝ → ℝ → Bool → ℝ) (I : Ice) (z0 z1 zu β : ℝ)

lemma zIntUniform_shallow (h0 : zu ≤ z0) (h1 : zu ≤ z1) :
    zIntUniform F I z0 z1 zu β = F I z1 β false - F I z0 β false := by
  unfold zIntUniform
  simp [not_lt.mpr h0, not_lt.mpr h1]

lemma zIntUniform_deep (h0 : z0 < zu) (h1 : z1 < zu) :
    zIntUniform F I z0 z1 zu β = F I z1 β true - F I z0 β true := by
  unfold zIntUniform
  simp [h0, h1]

lemma zIntUniform_cross_up (h0 : z0 < zu) (h1 : zu ≤ z1) :
    zIntUniform F I z0 z1 zu β
      = (F I zu β true - F I z0 β true) + (F I z1 β false - F I zu β false) := by
  unfold zIntUniform
  have h01 : z0 < z1 := lt_of_lt_of_le h0 h1
  simp [h0, not_lt.mpr h1, h01]
  ring

lemma zIntUniform_cross_down (h0 : zu ≤ z0) (h1 : z1 < zu) :
    zIntUniform F I z0 z1 zu β
      = (F I zu β false - F I z0 β false) + (F I z1 β true - F I zu β true) := by
  unfold zIntUniform
  have h01 : ¬ z0 < z1 := not_lt.mpr (le_of_lt (lt_of_lt_of_le h1 h0))
  simp [h1, not_lt.mpr h0, h01]
  ring

end zint

end RayProofs
