import PyrexVerif.Proofs.RayTrap
import Mathlib.Analysis.Calculus.Deriv.MeanValue
/-!
# C01 helper lemmas: the part of an indirect leg that the numeric tracer cuts off

`BasicRayTracer._indirect_r` integrates each leg only up to `ze = z_turn − dz/10`.  The omitted piece
`∫_{ze}^{z_turn} tan θ` is bounded here (refractive turn-over: `√`-singularity, bound `∝ √(dz/10)`;
surface reflection: bound `(dz/10)·tan θ(hi)`), and the trapezoid grid is reversed (`z_turn → z1` leg).
-/
open PyrexR PyrexR.Ray Set MeasureTheory

namespace RayProofs

/-- reversing the grid negates the signed trapezoid sum -/
lemma trapSigned_reverse (f : ℝ → ℝ) (a b : ℝ) (n : ℕ) :
    trapSigned f b a n = -trapSigned f a b n := by
  rcases Nat.eq_zero_or_pos n with rfl | hn
  · simp [trapSigned]
  rw [trapSigned_eq_sum, trapSigned_eq_sum, ← Finset.sum_range_reflect, ← Finset.sum_neg_distrib]
  apply Finset.sum_congr rfl
  intro i hi
  have hi' : i < n := Finset.mem_range.mp hi
  have hnR : (n : ℝ) ≠ 0 := Nat.cast_ne_zero.mpr (Nat.pos_iff_ne_zero.mp hn)
  have hcast : ((n - 1 - i : ℕ) : ℝ) = (n : ℝ) - 1 - i := by
    rw [Nat.cast_sub (by omega), Nat.cast_sub (by omega)]; simp
  have e1 : b + ((n - 1 - i : ℕ) : ℝ) * ((a - b) / n) = a + ((i + 1 : ℕ) : ℝ) * ((b - a) / n) := by
    rw [hcast]; push_cast; field_simp; ring
  have e2 : b + (((n - 1 - i : ℕ) + 1 : ℕ) : ℝ) * ((a - b) / n) = a + (i : ℝ) * ((b - a) / n) := by
    push_cast; rw [hcast]; field_simp; ring
  rw [e1, e2]; ring

section cut
variable (I : Ice) (β : ℝ)

lemma continuousOn_distInt (hk : 0 < I.k) (ha : 0 < I.a) (hβ : betaTolerance < β) {z0 z1 : ℝ}
    (h1 : β ≤ nzT I z1) : ContinuousOn (fun y => distInt I y β false) (Icc z0 z1) := by
  have hβ0 : 0 < β := lt_trans betaTolerance_pos hβ
  have hβa : betaTolerance < |β| := by rwa [abs_of_pos hβ0]
  have : ContinuousOn
      (fun y => β / Real.sqrt (alphaT I β) * (-y + Real.log (log1U I β y) / I.a)) (Icc z0 z1) :=
    (continuousOn_core I β hk ha hβ0 h1).const_smul (β / Real.sqrt (alphaT I β)) |>.congr
      (fun x _ => by simp [smul_eq_mul])
  refine this.congr (fun x hx => ?_)
  exact distInt_shallow_eq I β x hβa (seg_facts I β hk ha hβ0 h1 hx.2).2.1

/-- `γ(z) ≥ 2 β m (z_t − z)` on `[ze, z_t]` with `m = k a e^{a ze}` when `n(z_t) = β` -/
lemma gamma_lower (hk : 0 < I.k) (ha : 0 < I.a) (hβ : 0 < β) {ze zt z : ℝ} (hturn : nzT I zt = β)
    (hz1 : ze ≤ z) (hz2 : z ≤ zt) :
    2 * β * (I.k * I.a * Real.exp (I.a * ze)) * (zt - z) ≤ gU I β z := by
  have hexp : Real.exp (I.a * z) * (I.a * (zt - z)) ≤ Real.exp (I.a * zt) - Real.exp (I.a * z) := by
    have h := Real.add_one_le_exp (I.a * zt - I.a * z)
    have hE : Real.exp (I.a * zt) = Real.exp (I.a * z) * Real.exp (I.a * zt - I.a * z) := by
      rw [← Real.exp_add]; ring_nf
    have hp := Real.exp_pos (I.a * z)
    rw [hE]; nlinarith
  have hmono : Real.exp (I.a * ze) ≤ Real.exp (I.a * z) :=
    Real.exp_le_exp.mpr (mul_le_mul_of_nonneg_left hz1 ha.le)
  have hd : 0 ≤ zt - z := by linarith
  have hnb : I.k * I.a * Real.exp (I.a * ze) * (zt - z) ≤ nzT I z - β := by
    rw [← hturn]; unfold nzT; simp only [Rexp]
    have h1 : I.k * I.a * Real.exp (I.a * ze) * (zt - z) ≤ I.k * (Real.exp (I.a * z) * (I.a * (zt - z))) := by
      have := mul_le_mul_of_nonneg_right hmono (mul_nonneg ha.le hd)
      nlinarith [mul_le_mul_of_nonneg_left this hk.le]
    have h2 := mul_le_mul_of_nonneg_left hexp hk.le
    linarith
  have hm0 : 0 ≤ I.k * I.a * Real.exp (I.a * ze) * (zt - z) :=
    mul_nonneg (mul_nonneg (mul_nonneg hk.le ha.le) (Real.exp_pos _).le) hd
  have hnge : β ≤ nzT I z := by linarith
  unfold gU
  nlinarith

/-- refractive turn-over: the cut-off piece is at most `2β √(z_t − ze) / √(2 β k a e^{a ze})` -/
theorem cut_bound_turn (hk : 0 < I.k) (ha : 0 < I.a) (hβ : betaTolerance < β) {ze zt : ℝ}
    (hturn : nzT I zt = β) (he : ze < zt) :
    0 ≤ distInt I zt β false - distInt I ze β false ∧
    distInt I zt β false - distInt I ze β false
      ≤ 2 * β * Real.sqrt (zt - ze) / Real.sqrt (2 * β * (I.k * I.a * Real.exp (I.a * ze))) := by
  have hβ0 : 0 < β := lt_trans betaTolerance_pos hβ
  have hβa : betaTolerance < |β| := by rwa [abs_of_pos hβ0]
  set m := I.k * I.a * Real.exp (I.a * ze) with hm
  have hmpos : 0 < m := mul_pos (mul_pos hk ha) (Real.exp_pos _)
  have hM : 0 < 2 * β * m := by positivity
  set C := β / Real.sqrt (2 * β * m) with hC
  have hCpos : 0 < C := div_pos hβ0 (Real.sqrt_pos.mpr hM)
  have hFc := continuousOn_distInt I β hk ha hβ (z0 := ze) (z1 := zt) (le_of_eq hturn.symm)
  have hFd : ∀ x ∈ Ioo ze zt, HasDerivAt (fun y => distInt I y β false) (β / Real.sqrt (gU I β x)) x := by
    intro x hx
    have f := seg_facts I β hk ha hβ0 (le_of_eq hturn.symm) hx.2.le
    exact distInt_hasDerivAt I β x hk ha f.1 (f.2.2 hx.2) hβa
  -- monotonicity of F
  have hFmono : MonotoneOn (fun y => distInt I y β false) (Icc ze zt) := by
    apply monotoneOn_of_deriv_nonneg (convex_Icc ze zt) hFc
    · rw [interior_Icc]; intro x hx; exact (hFd x hx).differentiableAt.differentiableWithinAt
    · rw [interior_Icc]; intro x hx
      rw [(hFd x hx).deriv]; exact div_nonneg hβ0.le (Real.sqrt_nonneg _)
  have h0 := hFmono (left_mem_Icc.mpr he.le) (right_mem_Icc.mpr he.le) he.le
  refine ⟨by simpa using sub_nonneg.mpr h0, ?_⟩
  -- comparison function G(z) = −2 C √(z_t − z)
  have hGd : ∀ x ∈ Ioo ze zt, HasDerivAt (fun y => -(2 * C) * Real.sqrt (zt - y))
      (C / Real.sqrt (zt - x)) x := by
    intro x hx
    have hpos : 0 < zt - x := by linarith [hx.2]
    have h1 : HasDerivAt (fun y => zt - y) (-1) x := by
      simpa using (hasDerivAt_id x).const_sub zt
    have h2 := (h1.sqrt (ne_of_gt hpos)).const_mul (-(2 * C))
    refine h2.congr_deriv ?_
    have : Real.sqrt (zt - x) ≠ 0 := ne_of_gt (Real.sqrt_pos.mpr hpos)
    field_simp
  have hGc : ContinuousOn (fun y => -(2 * C) * Real.sqrt (zt - y)) (Icc ze zt) := by
    apply Continuous.continuousOn; fun_prop
  have hDmono : MonotoneOn (fun y => -(2 * C) * Real.sqrt (zt - y) - distInt I y β false) (Icc ze zt) := by
    apply monotoneOn_of_deriv_nonneg (convex_Icc ze zt) (hGc.sub hFc)
    · rw [interior_Icc]; intro x hx
      exact ((hGd x hx).sub (hFd x hx)).differentiableAt.differentiableWithinAt
    · rw [interior_Icc]; intro x hx
      rw [((hGd x hx).sub (hFd x hx)).deriv, sub_nonneg]
      have hpos : 0 < zt - x := by linarith [hx.2]
      have hg := gamma_lower I β hk ha hβ0 hturn hx.1.le hx.2.le
      have hprod : 0 < 2 * β * m * (zt - x) := mul_pos hM hpos
      have hsq : Real.sqrt (2 * β * m) * Real.sqrt (zt - x) ≤ Real.sqrt (gU I β x) := by
        rw [← Real.sqrt_mul hM.le]; exact Real.sqrt_le_sqrt hg
      have hden : 0 < Real.sqrt (2 * β * m) * Real.sqrt (zt - x) :=
        mul_pos (Real.sqrt_pos.mpr hM) (Real.sqrt_pos.mpr hpos)
      calc β / Real.sqrt (gU I β x) ≤ β / (Real.sqrt (2 * β * m) * Real.sqrt (zt - x)) :=
            div_le_div_of_nonneg_left hβ0.le hden hsq
        _ = C / Real.sqrt (zt - x) := by rw [hC, div_div]
  have h1 := hDmono (left_mem_Icc.mpr he.le) (right_mem_Icc.mpr he.le) he.le
  simp only [sub_self, Real.sqrt_zero, mul_zero, zero_sub] at h1
  have : distInt I zt β false - distInt I ze β false ≤ 2 * C * Real.sqrt (zt - ze) := by linarith
  calc distInt I zt β false - distInt I ze β false ≤ 2 * C * Real.sqrt (zt - ze) := this
    _ = 2 * β * Real.sqrt (zt - ze) / Real.sqrt (2 * β * m) := by rw [hC]; ring

/-- surface reflection (`β < n(z_t)`): the cut-off piece is at most `(z_t − ze) tan θ(z_t)` -/
theorem cut_bound_reflect (hk : 0 < I.k) (ha : 0 < I.a) (hβ : betaTolerance < β) {ze zt : ℝ}
    (h1 : β < nzT I zt) (he : ze ≤ zt) :
    0 ≤ distInt I zt β false - distInt I ze β false ∧
    distInt I zt β false - distInt I ze β false
      ≤ (zt - ze) * Real.tan (Real.arcsin (β / nzT I zt)) := by
  have hβ0 : 0 < β := lt_trans betaTolerance_pos hβ
  rw [dist_eq_integral I β hk ha hβ he h1.le]
  have hmono := tanTheta_monotoneOn I β hk ha hβ0 (z0 := ze) h1
  have hint : IntervalIntegrable (fun z => Real.tan (Real.arcsin (β / nzT I z))) volume ze zt :=
    (hmono.mono (by rw [uIcc_of_le he])).intervalIntegrable
  constructor
  · apply intervalIntegral.integral_nonneg he
    intro z hz
    have f := seg_facts I β hk ha hβ0 h1.le hz.2
    have hg : 0 < gU I β z := by
      rcases eq_or_lt_of_le hz.2 with rfl | hlt
      · unfold gU; nlinarith
      · exact f.2.2 hlt
    rw [tan_arcsin_div _ β f.1 (by unfold gU at hg; linarith)]
    exact div_nonneg hβ0.le (Real.sqrt_nonneg _)
  · have := intervalIntegral.integral_mono_on he hint
      (intervalIntegrable_const (c := Real.tan (Real.arcsin (β / nzT I zt))))
      (fun t ht => hmono ht (right_mem_Icc.mpr he) ht.2)
    simpa [intervalIntegral.integral_const, smul_eq_mul] using this


/-- numeric indirect path (two trapezoid legs up to the cut depth `ze`) vs. the exact two-leg distance up
to the turning depth `zt`, given any bound `c` on the cut-off piece of one leg -/
theorem indirect_error (hk : 0 < I.k) (ha : 0 < I.a) (hβ : betaTolerance < β) {z0 z1 ze zt c : ℝ}
    (h0 : z0 ≤ ze) (h1 : z1 ≤ ze) (he : β < nzT I ze)
    (hcut : 0 ≤ distInt I zt β false - distInt I ze β false ∧
      distInt I zt β false - distInt I ze β false ≤ c)
    (n1 n2 : ℕ) (hn1 : 0 < n1) (hn2 : 0 < n2) :
    |(trapSigned (fun z => Real.tan (Real.arcsin (β / nzT I z))) z0 ze n1
        + -(trapSigned (fun z => Real.tan (Real.arcsin (β / nzT I z))) ze z1 n2))
      - ((distInt I zt β false - distInt I z0 β false) + (distInt I zt β false - distInt I z1 β false))|
    ≤ (ze - z0) / n1 * (Real.tan (Real.arcsin (β / nzT I ze)) - Real.tan (Real.arcsin (β / nzT I z0))) / 2
      + (ze - z1) / n2 * (Real.tan (Real.arcsin (β / nzT I ze)) - Real.tan (Real.arcsin (β / nzT I z1))) / 2
      + 2 * c := by
  have hβ0 : 0 < β := lt_trans betaTolerance_pos hβ
  set f := fun z => Real.tan (Real.arcsin (β / nzT I z)) with hf
  have hm0 := tanTheta_monotoneOn I β hk ha hβ0 (z0 := z0) he
  have hm1 := tanTheta_monotoneOn I β hk ha hβ0 (z0 := z1) he
  have b0 := trap_monotone_error f h0 n1 hn1 hm0
  have b1 := trap_monotone_error f h1 n2 hn2 hm1
  rw [← dist_eq_integral I β hk ha hβ h0 he.le] at b0
  rw [← dist_eq_integral I β hk ha hβ h1 he.le] at b1
  rw [trapSigned_reverse f z1 ze n2, neg_neg]
  rw [abs_le] at b0 b1 ⊢
  obtain ⟨c0, c1⟩ := hcut
  constructor <;> linarith [b0.1, b0.2, b1.1, b1.2]


/-- the deep branch is NOT exact: with `β > 0` and the ray existing on `[z0,z1]` the uniform-index distance
`β Δz/√α` is strictly smaller than the true `∫ tan θ` (because `n(z) < n0`) -/
theorem deep_dist_lt_true (hk : 0 < I.k) (ha : 0 < I.a) (hβ : 0 < β) {z0 z1 : ℝ} (h01 : z0 < z1)
    (h1 : β < nzT I z1) :
    distInt I z1 β true - distInt I z0 β true
      < ∫ z in z0..z1, Real.tan (Real.arcsin (β / nzT I z)) := by
  rw [dist_deep_eq_integral I β z0 z1]
  have gpos : ∀ z, z ≤ z1 → 0 < nzT I z ∧ 0 < gU I β z := by
    intro z hz
    have f := seg_facts I β hk ha hβ h1.le hz
    refine ⟨f.1, ?_⟩
    rcases eq_or_lt_of_le hz with rfl | hlt
    · unfold gU; nlinarith
    · exact f.2.2 hlt
  have hval : ∀ z ∈ Icc z0 z1, Real.tan (Real.arcsin (β / nzT I z)) = β / Real.sqrt (gU I β z) := by
    intro z hz
    have g := gpos z hz.2
    rw [tan_arcsin_div _ β g.1 (by have := g.2; unfold gU at this; linarith)]; rfl
  have hgc : ContinuousOn (fun z => Real.tan (Real.arcsin (β / nzT I z))) (Icc z0 z1) := by
    have : ContinuousOn (fun z => β / Real.sqrt (gU I β z)) (Icc z0 z1) := by
      apply ContinuousOn.div continuousOn_const
        (Real.continuous_sqrt.comp (continuous_gU I β)).continuousOn
      intro z hz
      exact ne_of_gt (Real.sqrt_pos.mpr (gpos z hz.2).2)
    exact this.congr hval
  have hpt : ∀ z ∈ Icc z0 z1, β / Real.sqrt (alphaT I β) < Real.tan (Real.arcsin (β / nzT I z)) := by
    intro z hz
    rw [hval z hz]
    have g := gpos z hz.2
    have hlt := alpha_gt_gamma I β z hk g.1
    exact div_lt_div_of_pos_left hβ (Real.sqrt_pos.mpr g.2) (Real.sqrt_lt_sqrt g.2.le hlt)
  exact intervalIntegral.integral_lt_integral_of_continuousOn_of_le_of_exists_lt h01 continuousOn_const hgc
    (fun x hx => (hpt x ⟨hx.1.le, hx.2⟩).le) ⟨z0, left_mem_Icc.mpr h01.le, hpt z0 (left_mem_Icc.mpr h01.le)⟩

end cut
end RayProofs
