import PyrexVerif.R.Ray
import Mathlib.Analysis.SpecialFunctions.ExpDeriv
import Mathlib.Analysis.SpecialFunctions.Log.Deriv
import Mathlib.Analysis.SpecialFunctions.Sqrt
import Mathlib.Tactic.Linarith
import Mathlib.Tactic.Positivity
import Mathlib.Tactic.FieldSimp
import Mathlib.Tactic.LinearCombination
import Mathlib.Tactic.Ring
/-!
# C01 helper lemmas: the closed-form z-integrals are antiderivatives of the ray integrands

Everything is about the ℝ reading `PyrexR` of `twin/Ray.body`.
Notation: `n = nzT I z`, `α = alphaT I β`, `γ = n² − β²` (`gammaT` where it is positive),
`n' = a (n − n0)`.
-/
open PyrexR PyrexR.Ray Filter Topology

namespace RayProofs

/-- unclamped `gamma` -/
noncomputable def gU (I : Ice) (β z : ℝ) : ℝ := nzT I z * nzT I z - β * β

lemma nzT_lt_n0 (I : Ice) (hk : 0 < I.k) (z : ℝ) : nzT I z < I.n0 := by
  unfold nzT
  have : 0 < I.k * Real.exp (I.a * z) := mul_pos hk (Real.exp_pos _)
  simp only [Rexp]; linarith

lemma hasDerivAt_nzT (I : Ice) (z : ℝ) : HasDerivAt (nzT I) (I.a * (nzT I z - I.n0)) z := by
  unfold nzT
  have h1 : HasDerivAt (fun z => I.a * z) I.a z := by
    simpa using (hasDerivAt_id z).const_mul I.a
  have h3 : HasDerivAt (fun y => I.n0 - I.k * Real.exp (I.a * y))
      (0 - I.k * (Real.exp (I.a * z) * I.a)) z := (hasDerivAt_const z I.n0).sub ((h1.exp).const_mul I.k)
  exact h3.congr_deriv (by simp only [Rexp]; ring)

lemma continuous_nzT (I : Ice) : Continuous (nzT I) := by
  unfold nzT; simp only [Rexp]; fun_prop

lemma hasDerivAt_gU (I : Ice) (β z : ℝ) :
    HasDerivAt (gU I β) (2 * nzT I z * (I.a * (nzT I z - I.n0))) z := by
  unfold gU
  have h := ((hasDerivAt_nzT I z).mul (hasDerivAt_nzT I z)).sub (hasDerivAt_const z (β * β))
  exact h.congr_deriv (by ring)

lemma continuous_gU (I : Ice) (β : ℝ) : Continuous (gU I β) := by
  unfold gU; have := continuous_nzT I; fun_prop

lemma gammaT_eq_of_nonneg (I : Ice) (β z : ℝ) (h : 0 ≤ gU I β z) : gammaT I z β = gU I β z := by
  unfold gammaT gU at *
  simp only [not_lt.mpr h, if_false]

lemma gammaT_nonneg (I : Ice) (β z : ℝ) : 0 ≤ gammaT I z β := by
  unfold gammaT
  simp only
  split_ifs with h
  · exact le_refl _
  · exact not_lt.mp h

/-- where `γ > 0`, it stays positive nearby -/
lemma eventually_gU_pos (I : Ice) (β z : ℝ) (h : 0 < gU I β z) : ∀ᶠ y in 𝓝 z, 0 < gU I β y :=
  (continuous_gU I β).continuousAt.eventually (lt_mem_nhds h)

/-! ## positivity facts -/
section pos
variable (I : Ice) (β z : ℝ)

lemma alpha_gt_gamma (hk : 0 < I.k) (hn : 0 < nzT I z) : gU I β z < alphaT I β := by
  unfold gU alphaT
  have := nzT_lt_n0 I hk z
  nlinarith

/-- `(n0 n − β²)² − α γ = β² (n0 − n)²` -/
lemma log1_identity :
    (I.n0 * nzT I z - β * β) ^ 2 - alphaT I β * gU I β z = β ^ 2 * (I.n0 - nzT I z) ^ 2 := by
  unfold alphaT gU; ring

lemma log1_pos (hk : 0 < I.k) (hn : 0 < nzT I z) (hγ : 0 ≤ gU I β z) (hβ : β ≠ 0) :
    0 < I.n0 * nzT I z - β * β - Real.sqrt (alphaT I β * gU I β z) := by
  have hlt := nzT_lt_n0 I hk z
  have hA : 0 < I.n0 * nzT I z - β * β := by unfold gU at hγ; nlinarith
  have hid := log1_identity I β z
  have hpos : 0 < β ^ 2 * (I.n0 - nzT I z) ^ 2 := by
    have : 0 < I.n0 - nzT I z := by linarith
    positivity
  have : Real.sqrt (alphaT I β * gU I β z) < I.n0 * nzT I z - β * β := by
    rw [Real.sqrt_lt' hA]; linarith
  linarith

end pos

/-! ## the algebra behind the three derivatives -/
/-- with `s = √α`, `g = √γ`, `n' = a (n − n0)`: `log1'/(a·log1) − 1 = s/g` -/
lemma core_alg (n n0 β s g a : ℝ) (hs : s ^ 2 = n0 ^ 2 - β ^ 2) (hg : g ^ 2 = n ^ 2 - β ^ 2)
    (hspos : 0 < s) (hgpos : 0 < g) (hL : n0 * n - β ^ 2 - s * g ≠ 0) (ha : a ≠ 0) :
    (n0 * (a * (n - n0)) - (s ^ 2 * (2 * n * (a * (n - n0)))) / (2 * (s * g))) / (n0 * n - β ^ 2 - s * g) / a
      = 1 + s / g := by
  have hs' : s ≠ 0 := ne_of_gt hspos
  have hg' : g ≠ 0 := ne_of_gt hgpos
  rw [div_div, div_eq_iff (mul_ne_zero hL ha)]
  field_simp
  linear_combination (g) * hs + (s) * hg


/-! ## unclamped closed forms and their derivatives -/
section deriv
variable (I : Ice) (β : ℝ)

/-- `log_term_1` with the unclamped `γ` -/
noncomputable def log1U (z : ℝ) : ℝ := I.n0 * nzT I z - β * β - Real.sqrt (alphaT I β * gU I β z)
/-- `log_term_2` with the unclamped `γ` -/
noncomputable def log2U (z : ℝ) : ℝ := nzT I z + Real.sqrt (gU I β z)

lemma sqrt_alpha_gamma (z : ℝ) (hα : 0 ≤ alphaT I β) :
    Real.sqrt (alphaT I β * gU I β z) = Real.sqrt (alphaT I β) * Real.sqrt (gU I β z) :=
  Real.sqrt_mul hα _

lemma hasDerivAt_sqrt_gU (z : ℝ) (hγ : 0 < gU I β z) :
    HasDerivAt (fun y => Real.sqrt (gU I β y))
      (nzT I z * (I.a * (nzT I z - I.n0)) / Real.sqrt (gU I β z)) z := by
  have h := (hasDerivAt_gU I β z).sqrt (ne_of_gt hγ)
  refine h.congr_deriv ?_
  have : Real.sqrt (gU I β z) ≠ 0 := ne_of_gt (Real.sqrt_pos.mpr hγ)
  field_simp

lemma hasDerivAt_log1U (z : ℝ) (hα : 0 < alphaT I β) (hγ : 0 < gU I β z) :
    HasDerivAt (log1U I β)
      (I.n0 * (I.a * (nzT I z - I.n0))
        - (alphaT I β * (2 * nzT I z * (I.a * (nzT I z - I.n0))))
          / (2 * Real.sqrt (alphaT I β * gU I β z))) z := by
  unfold log1U
  have hprod : alphaT I β * gU I β z ≠ 0 := ne_of_gt (mul_pos hα hγ)
  have h1 : HasDerivAt (fun y => alphaT I β * gU I β y)
      (alphaT I β * (2 * nzT I z * (I.a * (nzT I z - I.n0)))) z :=
    (hasDerivAt_gU I β z).const_mul _
  have h2 := h1.sqrt hprod
  have h3 := (((hasDerivAt_nzT I z).const_mul I.n0).sub (hasDerivAt_const z (β * β))).sub h2
  exact h3.congr_deriv (by ring)

/-- the key derivative: `d/dz [ −z + log(log1)/a ] = √α / √γ` -/
lemma hasDerivAt_core (z : ℝ) (hk : 0 < I.k) (ha : 0 < I.a) (hn : 0 < nzT I z)
    (hγ : 0 < gU I β z) (hβ : β ≠ 0) :
    HasDerivAt (fun y => -y + Real.log (log1U I β y) / I.a)
      (Real.sqrt (alphaT I β) / Real.sqrt (gU I β z)) z := by
  have hα : 0 < alphaT I β := lt_trans hγ (alpha_gt_gamma I β z hk hn)
  have hL : 0 < log1U I β z := log1_pos I β z hk hn hγ.le hβ
  have h1 := (hasDerivAt_log1U I β z hα hγ).log (ne_of_gt hL)
  have h2 := ((hasDerivAt_id z).neg).add (h1.div_const I.a)
  refine h2.congr_deriv ?_
  -- algebra
  set s := Real.sqrt (alphaT I β) with hs_def
  set g := Real.sqrt (gU I β z) with hg_def
  have hspos : 0 < s := Real.sqrt_pos.mpr hα
  have hgpos : 0 < g := Real.sqrt_pos.mpr hγ
  have hs : s ^ 2 = I.n0 ^ 2 - β ^ 2 := by
    rw [hs_def, Real.sq_sqrt hα.le]; unfold alphaT; ring
  have hg : g ^ 2 = nzT I z ^ 2 - β ^ 2 := by
    rw [hg_def, Real.sq_sqrt hγ.le]; unfold gU; ring
  have hsg : Real.sqrt (alphaT I β * gU I β z) = s * g := sqrt_alpha_gamma I β z hα.le
  have hLne : I.n0 * nzT I z - β ^ 2 - s * g ≠ 0 := by
    have := hL; unfold log1U at this; rw [hsg] at this
    have h' : I.n0 * nzT I z - β ^ 2 - s * g = I.n0 * nzT I z - β * β - s * g := by ring
    rw [h']; exact ne_of_gt this
  have hα' : alphaT I β = s ^ 2 := by rw [hs_def, Real.sq_sqrt hα.le]
  have key := core_alg (nzT I z) I.n0 β s g I.a hs hg hspos hgpos hLne (ne_of_gt ha)
  unfold log1U
  rw [hsg]
  have e1 : I.n0 * nzT I z - β * β - s * g = I.n0 * nzT I z - β ^ 2 - s * g := by ring
  rw [e1, hα']
  rw [key]; ring

end deriv

/-! ## the twin's closed forms (shallow branch) -/
section twin
variable (I : Ice) (β : ℝ)

/-- the model constant `betaTolerance` is `1/200` (read from the regenerated constants) -/
lemma betaTolerance_pos : (0 : ℝ) < betaTolerance := by
  unfold betaTolerance
  simp only [RofNat, RayConstants.betaToleranceNum, RayConstants.betaToleranceDen]
  norm_num

lemma cLight_pos : (0 : ℝ) < cLight := by
  unfold cLight
  simp only [RofNat, RayConstants.cLightNum, RayConstants.cLightDen]
  norm_num

lemma betaIsSmall_false (h : betaTolerance < |β|) : betaIsSmall β = false := by
  unfold betaIsSmall
  simp only [Rabs, decide_eq_false_iff_not, not_le]; exact h

lemma beta_ne_zero_of_large (h : betaTolerance < |β|) : β ≠ 0 := by
  intro h0; rw [h0, abs_zero] at h; exact absurd h (not_lt.mpr betaTolerance_pos.le)

lemma log1T_eq (z : ℝ) (h : 0 ≤ gU I β z) : log1T I z β = log1U I β z := by
  unfold log1T log1U; rw [gammaT_eq_of_nonneg I β z h]

lemma log2T_eq (z : ℝ) (h : 0 ≤ gU I β z) : log2T I z β = log2U I β z := by
  unfold log2T log2U; rw [gammaT_eq_of_nonneg I β z h]; simp only [Rsqrt]; ring

/-- shallow branch of `distInt` where `γ ≥ 0` -/
lemma distInt_shallow_eq (z : ℝ) (hβ : betaTolerance < |β|) (h : 0 ≤ gU I β z) :
    distInt I z β false = β / Real.sqrt (alphaT I β) * (-z + Real.log (log1U I β z) / I.a) := by
  unfold distInt
  simp only [betaIsSmall_false β hβ, log1T_eq I β z h, Rsqrt, Rlog]
  simp

lemma pathInt_shallow_eq (z : ℝ) (hβ : betaTolerance < |β|) (h : 0 ≤ gU I β z) :
    pathInt I z β false = I.n0 / Real.sqrt (alphaT I β) * (-z + Real.log (log1U I β z) / I.a)
      + Real.log (log2U I β z) / I.a := by
  unfold pathInt
  simp only [betaIsSmall_false β hβ, log1T_eq I β z h, log2T_eq I β z h, Rsqrt, Rlog]
  simp

lemma tofInt_shallow_eq (z : ℝ) (hβ : betaTolerance < |β|) (h : 0 ≤ gU I β z) :
    tofInt I z β false = (((Real.sqrt (gU I β z) + I.n0 * Real.log (log2U I β z)
          + I.n0 * I.n0 * Real.log (log1U I β z) / Real.sqrt (alphaT I β)) / I.a)
        - z * (I.n0 * I.n0) / Real.sqrt (alphaT I β)) / cLight := by
  unfold tofInt
  simp only [betaIsSmall_false β hβ, log1T_eq I β z h, log2T_eq I β z h, gammaT_eq_of_nonneg I β z h,
    Rsqrt, Rlog]
  simp

lemma log2U_pos (z : ℝ) (hn : 0 < nzT I z) : 0 < log2U I β z := by
  unfold log2U; have := Real.sqrt_nonneg (gU I β z); linarith

lemma hasDerivAt_log_log2U (z : ℝ) (hn : 0 < nzT I z) (hγ : 0 < gU I β z) :
    HasDerivAt (fun y => Real.log (log2U I β y))
      (I.a * (nzT I z - I.n0) / Real.sqrt (gU I β z)) z := by
  have hg : 0 < Real.sqrt (gU I β z) := Real.sqrt_pos.mpr hγ
  have h1 : HasDerivAt (log2U I β) _ z := (hasDerivAt_nzT I z).add (hasDerivAt_sqrt_gU I β z hγ)
  have h2 := h1.log (ne_of_gt (log2U_pos I β z hn))
  refine h2.congr_deriv ?_
  unfold log2U
  have : nzT I z + Real.sqrt (gU I β z) ≠ 0 := by positivity
  field_simp
  ring

/-- `d/dz distInt = β/√γ` -/
theorem distInt_hasDerivAt (z : ℝ) (hk : 0 < I.k) (ha : 0 < I.a) (hn : 0 < nzT I z)
    (hγ : 0 < gU I β z) (hβ : betaTolerance < |β|) :
    HasDerivAt (fun y => distInt I y β false) (β / Real.sqrt (gU I β z)) z := by
  have hb0 := beta_ne_zero_of_large β hβ
  have hα : 0 < alphaT I β := lt_trans hγ (alpha_gt_gamma I β z hk hn)
  have hs : Real.sqrt (alphaT I β) ≠ 0 := ne_of_gt (Real.sqrt_pos.mpr hα)
  have hcore := (hasDerivAt_core I β z hk ha hn hγ hb0).const_mul (β / Real.sqrt (alphaT I β))
  have hEq : (fun y => distInt I y β false) =ᶠ[𝓝 z]
      fun y => β / Real.sqrt (alphaT I β) * (-y + Real.log (log1U I β y) / I.a) := by
    filter_upwards [eventually_gU_pos I β z hγ] with y hy
    exact distInt_shallow_eq I β y hβ hy.le
  refine (hcore.congr_of_eventuallyEq hEq).congr_deriv ?_
  field_simp

/-- `d/dz pathInt = n/√γ` -/
theorem pathInt_hasDerivAt (z : ℝ) (hk : 0 < I.k) (ha : 0 < I.a) (hn : 0 < nzT I z)
    (hγ : 0 < gU I β z) (hβ : betaTolerance < |β|) :
    HasDerivAt (fun y => pathInt I y β false) (nzT I z / Real.sqrt (gU I β z)) z := by
  have hb0 := beta_ne_zero_of_large β hβ
  have hα : 0 < alphaT I β := lt_trans hγ (alpha_gt_gamma I β z hk hn)
  have hs : Real.sqrt (alphaT I β) ≠ 0 := ne_of_gt (Real.sqrt_pos.mpr hα)
  have hg : Real.sqrt (gU I β z) ≠ 0 := ne_of_gt (Real.sqrt_pos.mpr hγ)
  have hcore := ((hasDerivAt_core I β z hk ha hn hγ hb0).const_mul (I.n0 / Real.sqrt (alphaT I β))).add
    ((hasDerivAt_log_log2U I β z hn hγ).div_const I.a)
  have hEq : (fun y => pathInt I y β false) =ᶠ[𝓝 z]
      fun y => I.n0 / Real.sqrt (alphaT I β) * (-y + Real.log (log1U I β y) / I.a)
        + Real.log (log2U I β y) / I.a := by
    filter_upwards [eventually_gU_pos I β z hγ] with y hy
    exact pathInt_shallow_eq I β y hβ hy.le
  refine (hcore.congr_of_eventuallyEq hEq).congr_deriv ?_
  have ha' : I.a ≠ 0 := ne_of_gt ha
  field_simp
  ring

/-- `d/dz tofInt = n²/(c √γ)` -/
theorem tofInt_hasDerivAt (z : ℝ) (hk : 0 < I.k) (ha : 0 < I.a) (hn : 0 < nzT I z)
    (hγ : 0 < gU I β z) (hβ : betaTolerance < |β|) :
    HasDerivAt (fun y => tofInt I y β false)
      (nzT I z * nzT I z / (cLight * Real.sqrt (gU I β z))) z := by
  have hb0 := beta_ne_zero_of_large β hβ
  have hα : 0 < alphaT I β := lt_trans hγ (alpha_gt_gamma I β z hk hn)
  have hs : Real.sqrt (alphaT I β) ≠ 0 := ne_of_gt (Real.sqrt_pos.mpr hα)
  have hg : Real.sqrt (gU I β z) ≠ 0 := ne_of_gt (Real.sqrt_pos.mpr hγ)
  have hc : cLight ≠ 0 := ne_of_gt cLight_pos
  have ha' : I.a ≠ 0 := ne_of_gt ha
  -- tof = (n0²/√α · core + (√γ + n0 log log2)/a) / c   with core = −z + log(log1)/a
  have hcore := (hasDerivAt_core I β z hk ha hn hγ hb0).const_mul (I.n0 * I.n0 / Real.sqrt (alphaT I β))
  have h2 := ((hasDerivAt_sqrt_gU I β z hγ).add ((hasDerivAt_log_log2U I β z hn hγ).const_mul I.n0)).div_const I.a
  have h3 := (hcore.add h2).div_const cLight
  have hEq : (fun y => tofInt I y β false) =ᶠ[𝓝 z]
      fun y => (I.n0 * I.n0 / Real.sqrt (alphaT I β) * (-y + Real.log (log1U I β y) / I.a)
        + (Real.sqrt (gU I β y) + I.n0 * Real.log (log2U I β y)) / I.a) / cLight := by
    filter_upwards [eventually_gU_pos I β z hγ] with y hy
    rw [tofInt_shallow_eq I β y hβ hy.le]
    field_simp
    ring
  refine (h3.congr_of_eventuallyEq hEq).congr_deriv ?_
  field_simp
  ring

end twin
end RayProofs
