import PyrexVerif.Proofs.RayBasic
import Mathlib.MeasureTheory.Integral.IntervalIntegral.FundThmCalculus
/-!
# C01 helper lemmas: closed forms = line integrals (fundamental theorem of calculus)

The shallow closed forms are continuous up to the turning depth (where `γ = 0`) and have a
non-negative derivative on the open interval, so the FTC for non-negative derivatives gives the
identity *including the improper integral at the turning point*.
-/
open PyrexR PyrexR.Ray Set MeasureTheory

namespace RayProofs

/-- FTC for a function continuous on `[a,b]` with non-negative derivative on `(a,b)` -/
lemma ftc_nonneg {f f' : ℝ → ℝ} {a b : ℝ} (hab : a ≤ b) (hcont : ContinuousOn f (Icc a b))
    (hderiv : ∀ x ∈ Ioo a b, HasDerivAt f (f' x) x) (hpos : ∀ x ∈ Ioo a b, 0 ≤ f' x) :
    ∫ y in a..b, f' y = f b - f a := by
  have hint : IntervalIntegrable f' volume a b := by
    apply intervalIntegral.intervalIntegrable_deriv_of_nonneg (g := f)
    · rwa [uIcc_of_le hab]
    · rwa [min_eq_left hab, max_eq_right hab]
    · rwa [min_eq_left hab, max_eq_right hab]
  exact intervalIntegral.integral_eq_sub_of_hasDerivAt_of_le hab hcont hderiv hint

section shallow
variable (I : Ice) (β : ℝ)

lemma nzT_strictAnti (hk : 0 < I.k) (ha : 0 < I.a) {x y : ℝ} (h : x < y) : nzT I y < nzT I x := by
  unfold nzT; simp only [Rexp]
  have : Real.exp (I.a * x) < Real.exp (I.a * y) := Real.exp_lt_exp.mpr (mul_lt_mul_of_pos_left h ha)
  have := mul_lt_mul_of_pos_left this hk
  linarith

/-- on `[z0, z1]` with `0 < β ≤ n(z1)`: `n > 0`, `γ ≥ 0`, and `γ > 0` below `z1` -/
lemma seg_facts (hk : 0 < I.k) (ha : 0 < I.a) (hβ : 0 < β) {z1 : ℝ} (h1 : β ≤ nzT I z1) {z : ℝ}
    (hz : z ≤ z1) : 0 < nzT I z ∧ 0 ≤ gU I β z ∧ (z < z1 → 0 < gU I β z) := by
  have hmono : nzT I z1 ≤ nzT I z := by
    rcases eq_or_lt_of_le hz with rfl | hlt
    · exact le_refl _
    · exact (nzT_strictAnti I hk ha hlt).le
  have hn : 0 < nzT I z := by linarith
  refine ⟨hn, ?_, ?_⟩
  · unfold gU; nlinarith
  · intro hlt
    have := nzT_strictAnti I hk ha hlt
    unfold gU; nlinarith

lemma continuous_log1U : Continuous (log1U I β) := by
  unfold log1U
  have h1 := continuous_nzT I
  have h2 := continuous_gU I β
  fun_prop

lemma continuous_log2U : Continuous (log2U I β) := by
  unfold log2U
  have h1 := continuous_nzT I
  have h2 := continuous_gU I β
  fun_prop

lemma continuousOn_core (hk : 0 < I.k) (ha : 0 < I.a) (hβ : 0 < β) {z0 z1 : ℝ}
    (h1 : β ≤ nzT I z1) :
    ContinuousOn (fun y => -y + Real.log (log1U I β y) / I.a) (Icc z0 z1) := by
  have hα : 0 ≤ alphaT I β := by
    have := (seg_facts I β hk ha hβ h1 (le_refl z1))
    exact le_of_lt (lt_of_le_of_lt this.2.1 (alpha_gt_gamma I β z1 hk this.1))
  have hlog : ContinuousOn (fun y => Real.log (log1U I β y)) (Icc z0 z1) := by
    apply ContinuousOn.log (continuous_log1U I β).continuousOn
    intro x hx
    have f := seg_facts I β hk ha hβ h1 hx.2
    exact ne_of_gt (log1_pos I β x hk f.1 f.2.1 (ne_of_gt hβ))
  exact (continuous_neg.continuousOn).add (hlog.div_const _)

lemma continuousOn_log_log2U (hk : 0 < I.k) (ha : 0 < I.a) (hβ : 0 < β) {z0 z1 : ℝ}
    (h1 : β ≤ nzT I z1) :
    ContinuousOn (fun y => Real.log (log2U I β y)) (Icc z0 z1) := by
  apply ContinuousOn.log (continuous_log2U I β).continuousOn
  intro x hx
  have f := seg_facts I β hk ha hβ h1 hx.2
  exact ne_of_gt (log2U_pos I β x f.1)

/-- radial distance: `F(z1) − F(z0) = ∫ tan θ(z) dz`, valid up to the turning depth -/
theorem dist_eq_integral (hk : 0 < I.k) (ha : 0 < I.a) (hβ : betaTolerance < β) {z0 z1 : ℝ}
    (h01 : z0 ≤ z1) (h1 : β ≤ nzT I z1) :
    distInt I z1 β false - distInt I z0 β false
      = ∫ z in z0..z1, Real.tan (Real.arcsin (β / nzT I z)) := by
  have hβ0 : 0 < β := lt_trans betaTolerance_pos hβ
  have hβa : betaTolerance < |β| := by rwa [abs_of_pos hβ0]
  have hcont : ContinuousOn (fun y => distInt I y β false) (Icc z0 z1) := by
    have : ContinuousOn
        (fun y => β / Real.sqrt (alphaT I β) * (-y + Real.log (log1U I β y) / I.a)) (Icc z0 z1) :=
      (continuousOn_core I β hk ha hβ0 h1).const_smul (β / Real.sqrt (alphaT I β)) |>.congr
        (fun x _ => by simp [smul_eq_mul])
    refine this.congr (fun x hx => ?_)
    exact distInt_shallow_eq I β x hβa (seg_facts I β hk ha hβ0 h1 hx.2).2.1
  have hder : ∀ x ∈ Ioo z0 z1, HasDerivAt (fun y => distInt I y β false)
      (Real.tan (Real.arcsin (β / nzT I x))) x := by
    intro x hx
    have f := seg_facts I β hk ha hβ0 h1 hx.2.le
    have hγ := f.2.2 hx.2
    have h := distInt_hasDerivAt I β x hk ha f.1 hγ hβa
    rw [tan_arcsin_div (nzT I x) β f.1 (by unfold gU at hγ; linarith)]
    exact h
  have hpos : ∀ x ∈ Ioo z0 z1, 0 ≤ Real.tan (Real.arcsin (β / nzT I x)) := by
    intro x hx
    have f := seg_facts I β hk ha hβ0 h1 hx.2.le
    have hγ := f.2.2 hx.2
    rw [tan_arcsin_div (nzT I x) β f.1 (by unfold gU at hγ; linarith)]
    exact div_nonneg hβ0.le (Real.sqrt_nonneg _)
  rw [ftc_nonneg h01 hcont hder hpos]

/-- path length: `F(z1) − F(z0) = ∫ sec θ(z) dz` -/
theorem path_eq_integral (hk : 0 < I.k) (ha : 0 < I.a) (hβ : betaTolerance < β) {z0 z1 : ℝ}
    (h01 : z0 ≤ z1) (h1 : β ≤ nzT I z1) :
    pathInt I z1 β false - pathInt I z0 β false
      = ∫ z in z0..z1, 1 / Real.cos (Real.arcsin (β / nzT I z)) := by
  have hβ0 : 0 < β := lt_trans betaTolerance_pos hβ
  have hβa : betaTolerance < |β| := by rwa [abs_of_pos hβ0]
  have hcont : ContinuousOn (fun y => pathInt I y β false) (Icc z0 z1) := by
    have : ContinuousOn
        (fun y => I.n0 / Real.sqrt (alphaT I β) * (-y + Real.log (log1U I β y) / I.a)
          + Real.log (log2U I β y) / I.a) (Icc z0 z1) :=
      (((continuousOn_core I β hk ha hβ0 h1).const_smul (I.n0 / Real.sqrt (alphaT I β))).congr
        (fun x _ => by simp [smul_eq_mul])).add
        ((continuousOn_log_log2U I β hk ha hβ0 h1).div_const _)
    refine this.congr (fun x hx => ?_)
    exact pathInt_shallow_eq I β x hβa (seg_facts I β hk ha hβ0 h1 hx.2).2.1
  have hder : ∀ x ∈ Ioo z0 z1, HasDerivAt (fun y => pathInt I y β false)
      (1 / Real.cos (Real.arcsin (β / nzT I x))) x := by
    intro x hx
    have f := seg_facts I β hk ha hβ0 h1 hx.2.le
    have hγ := f.2.2 hx.2
    rw [sec_arcsin_div (nzT I x) β f.1 (by unfold gU at hγ; linarith)]
    exact pathInt_hasDerivAt I β x hk ha f.1 hγ hβa
  have hpos : ∀ x ∈ Ioo z0 z1, 0 ≤ 1 / Real.cos (Real.arcsin (β / nzT I x)) := by
    intro x hx
    have f := seg_facts I β hk ha hβ0 h1 hx.2.le
    have hγ := f.2.2 hx.2
    rw [sec_arcsin_div (nzT I x) β f.1 (by unfold gU at hγ; linarith)]
    exact div_nonneg f.1.le (Real.sqrt_nonneg _)
  rw [ftc_nonneg h01 hcont hder hpos]

/-- time of flight: `F(z1) − F(z0) = ∫ n(z) sec θ(z) / c dz` -/
theorem tof_eq_integral (hk : 0 < I.k) (ha : 0 < I.a) (hβ : betaTolerance < β) {z0 z1 : ℝ}
    (h01 : z0 ≤ z1) (h1 : β ≤ nzT I z1) :
    tofInt I z1 β false - tofInt I z0 β false
      = ∫ z in z0..z1, nzT I z / cLight / Real.cos (Real.arcsin (β / nzT I z)) := by
  have hβ0 : 0 < β := lt_trans betaTolerance_pos hβ
  have hβa : betaTolerance < |β| := by rwa [abs_of_pos hβ0]
  have hc : cLight ≠ 0 := ne_of_gt cLight_pos
  have hcont : ContinuousOn (fun y => tofInt I y β false) (Icc z0 z1) := by
    have hsq : ContinuousOn (fun y => Real.sqrt (gU I β y)) (Icc z0 z1) :=
      (Real.continuous_sqrt.comp (continuous_gU I β)).continuousOn
    have : ContinuousOn
        (fun y => (I.n0 * I.n0 / Real.sqrt (alphaT I β) * (-y + Real.log (log1U I β y) / I.a)
          + (Real.sqrt (gU I β y) + I.n0 * Real.log (log2U I β y)) / I.a) / cLight) (Icc z0 z1) := by
      have c1 := ((continuousOn_core I β hk ha hβ0 h1).const_smul (I.n0 * I.n0 / Real.sqrt (alphaT I β))).congr
        (fun x _ => by simp [smul_eq_mul] : ∀ x ∈ Icc z0 z1,
          I.n0 * I.n0 / Real.sqrt (alphaT I β) * (-x + Real.log (log1U I β x) / I.a) = _)
      have c2 := ((continuousOn_log_log2U I β hk ha hβ0 h1).const_smul I.n0).congr
        (fun x _ => by simp [smul_eq_mul] : ∀ x ∈ Icc z0 z1, I.n0 * Real.log (log2U I β x) = _)
      exact (c1.add ((hsq.add c2).div_const _)).div_const _
    refine this.congr (fun x hx => ?_)
    have f := seg_facts I β hk ha hβ0 h1 hx.2
    have hα : 0 < alphaT I β := lt_of_le_of_lt f.2.1 (alpha_gt_gamma I β x hk f.1)
    have hs : Real.sqrt (alphaT I β) ≠ 0 := ne_of_gt (Real.sqrt_pos.mpr hα)
    have ha' : I.a ≠ 0 := ne_of_gt ha
    rw [tofInt_shallow_eq I β x hβa f.2.1]
    field_simp
    ring
  have hval : ∀ x ∈ Ioo z0 z1, nzT I x / cLight / Real.cos (Real.arcsin (β / nzT I x))
      = nzT I x * nzT I x / (cLight * Real.sqrt (gU I β x)) := by
    intro x hx
    have f := seg_facts I β hk ha hβ0 h1 hx.2.le
    have hγ := f.2.2 hx.2
    have hsec := sec_arcsin_div (nzT I x) β f.1 (by unfold gU at hγ; linarith)
    have hg : Real.sqrt (gU I β x) ≠ 0 := ne_of_gt (Real.sqrt_pos.mpr hγ)
    have : nzT I x / cLight / Real.cos (Real.arcsin (β / nzT I x))
        = nzT I x / cLight * (1 / Real.cos (Real.arcsin (β / nzT I x))) := by ring
    rw [this, hsec]
    unfold gU at hg ⊢
    field_simp
  have hder : ∀ x ∈ Ioo z0 z1, HasDerivAt (fun y => tofInt I y β false)
      (nzT I x / cLight / Real.cos (Real.arcsin (β / nzT I x))) x := by
    intro x hx
    have f := seg_facts I β hk ha hβ0 h1 hx.2.le
    rw [hval x hx]
    exact tofInt_hasDerivAt I β x hk ha f.1 (f.2.2 hx.2) hβa
  have hpos : ∀ x ∈ Ioo z0 z1, 0 ≤ nzT I x / cLight / Real.cos (Real.arcsin (β / nzT I x)) := by
    intro x hx
    have f := seg_facts I β hk ha hβ0 h1 hx.2.le
    rw [hval x hx]
    exact div_nonneg (mul_self_nonneg _) (mul_nonneg cLight_pos.le (Real.sqrt_nonneg _))
  rw [ftc_nonneg h01 hcont hder hpos]

end shallow

/-! ## deep branch: the closed forms are the integrals of the uniform-index integrands -/
section deepint
variable (I : Ice) (β : ℝ)

theorem dist_deep_eq_integral (z0 z1 : ℝ) :
    distInt I z1 β true - distInt I z0 β true = ∫ _z in z0..z1, β / Real.sqrt (alphaT I β) := by
  rw [intervalIntegral.integral_eq_sub_of_hasDerivAt (fun x _ => distInt_deep_hasDerivAt I β x)
    intervalIntegrable_const]

theorem path_deep_eq_integral (z0 z1 : ℝ) :
    pathInt I z1 β true - pathInt I z0 β true = ∫ _z in z0..z1, I.n0 / Real.sqrt (alphaT I β) := by
  rw [intervalIntegral.integral_eq_sub_of_hasDerivAt (fun x _ => pathInt_deep_hasDerivAt I β x)
    intervalIntegrable_const]

theorem tof_deep_eq_integral (ha : I.a ≠ 0) (z0 z1 : ℝ) :
    tofInt I z1 β true - tofInt I z0 β true
      = ∫ z in z0..z1, I.n0 * nzT I z / (Real.sqrt (alphaT I β) * cLight) := by
  rw [intervalIntegral.integral_eq_sub_of_hasDerivAt (fun x _ => tofInt_deep_hasDerivAt I β x ha)]
  apply Continuous.intervalIntegrable
  have := continuous_nzT I
  fun_prop

end deepint
end RayProofs
