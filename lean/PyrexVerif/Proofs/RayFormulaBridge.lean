import PyrexVerif.R.Ray
import PyrexVerif.R.RayFormulas
import Mathlib.Tactic.Ring
/-!
# C01 formula bridge: the formulas translated node by node from `pyrex/ray_tracing.py`
(`twin/RayFormulas.body`, regenerated on every run by `harness/extract/ray_formulas.py`) are the
hand-written definitions of `twin/Ray.body` that the C01 theorems are about.  A changed sign, factor
or term in the source breaks one of these proofs (re-association / commutation that `ring` can
undo does not).
-/
open PyrexR PyrexR.Ray

namespace RayProofs

theorem bridge_alpha (I : Ice) (z β : ℝ) : RayGen.int_terms_0 I z β = alphaT I β := rfl
theorem bridge_nz (I : Ice) (z β : ℝ) : RayGen.int_terms_1 I z β = nzT I z := rfl
theorem bridge_gamma (I : Ice) (z β : ℝ) : RayGen.int_terms_2 I z β = gammaT I z β := rfl
theorem bridge_log1 (I : Ice) (z β : ℝ) : RayGen.int_terms_3 I z β = log1T I z β := rfl
theorem bridge_log2 (I : Ice) (z β : ℝ) : RayGen.int_terms_4 I z β = log2T I z β := rfl

theorem bridge_dist (I : Ice) (z β : ℝ) (deep : Bool) :
    RayGen.distance_integral I z β deep = distInt I z β deep := by
  unfold RayGen.distance_integral distInt betaIsSmall
  simp only [bridge_alpha, bridge_log1, decide_eq_true_eq]
  try (split_ifs <;> ring)

theorem bridge_path (I : Ice) (z β : ℝ) (deep : Bool) :
    RayGen.pathlen_integral I z β deep = pathInt I z β deep := by
  unfold RayGen.pathlen_integral pathInt betaIsSmall
  simp only [bridge_alpha, bridge_log1, bridge_log2, decide_eq_true_eq]
  try (split_ifs <;> ring)

theorem bridge_tof (I : Ice) (z β : ℝ) (deep : Bool) :
    RayGen.tof_integral I z β deep = tofInt I z β deep := by
  unfold RayGen.tof_integral tofInt betaIsSmall
  simp only [bridge_alpha, bridge_nz, bridge_gamma, bridge_log1, bridge_log2, decide_eq_true_eq]
  try (split_ifs <;> ring)

end RayProofs
