import PyrexVerif.R.Geom
import Mathlib.Analysis.SpecialFunctions.Complex.Arg
import Mathlib.Analysis.Complex.Norm
import Mathlib.Tactic.LinearCombination
import Mathlib.Tactic.Linarith
import Mathlib.Tactic.Positivity
/-! Helper lemmas for C02: the horizontal separation as a complex number, its norm and argument. -/
open PyrexR PyrexR.Geo

namespace PyrexProofs

/-- the horizontal separation as a complex number -/
noncomputable def sep (p q : P3) : ℂ := ⟨q.x - p.x, q.y - p.y⟩

theorem rho_eq_norm (p q : P3) : rho p q = ‖sep p q‖ := by
  rw [Complex.norm_eq_sqrt_sq_add_sq]
  simp only [rho, Rsqrt, sep, sq]

theorem phi_eq_arg (p q : P3) : phi p q = Complex.arg (sep p q) := rfl

theorem sep_ne_zero {p q : P3} (h : rho p q ≠ 0) : sep p q ≠ 0 := by
  intro h0; apply h; rw [rho_eq_norm, h0, norm_zero]

theorem sep_rigid (c s tx ty : ℝ) (p q : P3) :
    sep (rigid c s tx ty p) (rigid c s tx ty q) = (⟨c, s⟩ : ℂ) * sep p q := by
  apply Complex.ext <;> simp [sep, rigid, shiftH, rotZ] <;> ring

theorem norm_cs (c s : ℝ) (h : c ^ 2 + s ^ 2 = 1) : ‖(⟨c, s⟩ : ℂ)‖ = 1 := by
  rw [Complex.norm_eq_sqrt_sq_add_sq]; simp [h]

theorem sep_swap (p q : P3) : sep q p = - sep p q := by
  apply Complex.ext <;> simp [sep]

theorem cos_phi (p q : P3) (h : rho p q ≠ 0) : Real.cos (phi p q) = (q.x - p.x) / rho p q := by
  rw [phi_eq_arg, Complex.cos_arg (sep_ne_zero h), rho_eq_norm]; rfl

theorem sin_phi (p q : P3) : Real.sin (phi p q) = (q.y - p.y) / rho p q := by
  rw [phi_eq_arg, Complex.sin_arg, rho_eq_norm]; rfl

end PyrexProofs
