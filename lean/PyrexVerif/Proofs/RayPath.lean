import PyrexVerif.Proofs.RayFTC
/-!
# C01 helper lemmas: direct rays never turn, launch-angle conversion, directions, near-vertical branch
-/
open PyrexR PyrexR.Ray Set MeasureTheory

namespace RayProofs

/-! ## directions -/
lemma received_horizontal (I : Ice) (zFrom zTo θ0 φ : ℝ) (direct : Bool) (hn : 0 < I.index zTo)
    (hβ : |pathBeta I zFrom θ0| ≤ I.index zTo) :
    (receivedDir I zFrom zTo θ0 φ direct).x = pathBeta I zFrom θ0 / I.index zTo * Real.cos φ ∧
    (receivedDir I zFrom zTo θ0 φ direct).y = pathBeta I zFrom θ0 / I.index zTo * Real.sin φ := by
  have hs := snell I zFrom θ0 zTo hn hβ
  have hs' : Real.sin (theta I zFrom θ0 zTo) = pathBeta I zFrom θ0 / I.index zTo := by
    field_simp; linarith
  unfold receivedDir
  cases direct <;> simp [Rsin, Rcos, hs']

lemma emitted_horizontal (I : Ice) (zFrom θ0 φ : ℝ) (hn : 0 < I.index zFrom) :
    (emittedDir θ0 φ).x = pathBeta I zFrom θ0 / I.index zFrom * Real.cos φ ∧
    (emittedDir θ0 φ).y = pathBeta I zFrom θ0 / I.index zFrom * Real.sin φ := by
  unfold emittedDir pathBeta
  simp only [Rsin, Rcos]
  constructor <;> field_simp

/-! ## direct rays never turn -/
lemma index_eq_nzT (I : Ice) (z : ℝ) (h1 : I.lo ≤ z) (h2 : z ≤ I.hi) : I.index z = nzT I z := by
  rw [C16_index_inside I z h1 h2]; unfold nzT; simp [Rexp]

lemma index_antitone (I : Ice) (hk : 0 < I.k) (ha : 0 < I.a) {x y : ℝ} (hx : I.lo ≤ x) (hxy : x ≤ y)
    (hy : y ≤ I.hi) : I.index y ≤ I.index x := by
  rcases eq_or_lt_of_le hxy with rfl | hlt
  · exact le_refl _
  · exact (C16_index_strict_anti I hk ha x y hx hlt hy).le

/-- a direct ray launched upward from `z0` at an angle `≤ max_angle` keeps `β ≤ n(z)` on `[z0,z1]`,
strictly below `z1`: it reaches `z1` without turning over -/
theorem direct_never_turns (I : Ice) (hk : 0 < I.k) (ha : 0 < I.a) {z0 z1 : ℝ} (h0 : I.lo ≤ z0)
    (h01 : z0 ≤ z1) (h1 : z1 ≤ I.hi) (hpos : 0 < I.index z1) {angle : ℝ} (hang0 : 0 ≤ angle)
    (hang : angle ≤ Real.arcsin (I.index z1 / I.index z0)) :
    ∀ z, z0 ≤ z → z ≤ z1 →
      I.index z0 * Real.sin angle ≤ I.index z ∧ (z < z1 → I.index z0 * Real.sin angle < I.index z) := by
  have hn10 : I.index z1 ≤ I.index z0 := index_antitone I hk ha h0 h01 h1
  have hpos0 : 0 < I.index z0 := lt_of_lt_of_le hpos hn10
  have hratio1 : I.index z1 / I.index z0 ≤ 1 := (div_le_one hpos0).mpr hn10
  have hratio0 : -1 ≤ I.index z1 / I.index z0 := by
    have : 0 ≤ I.index z1 / I.index z0 := div_nonneg hpos.le hpos0.le
    linarith
  have hsin : Real.sin angle ≤ I.index z1 / I.index z0 := by
    have h := Real.sin_le_sin_of_le_of_le_pi_div_two (x := angle) (y := Real.arcsin (I.index z1 / I.index z0))
      (by linarith [Real.pi_pos]) (Real.arcsin_le_pi_div_two _) hang
    rwa [Real.sin_arcsin hratio0 hratio1] at h
  have hβ : I.index z0 * Real.sin angle ≤ I.index z1 := by
    have := mul_le_mul_of_nonneg_left hsin hpos0.le
    rwa [mul_div_cancel₀ _ (ne_of_gt hpos0)] at this
  intro z hz0 hz1
  refine ⟨le_trans hβ (index_antitone I hk ha (le_trans h0 hz0) hz1 h1), fun hlt => ?_⟩
  exact lt_of_le_of_lt hβ (C16_index_strict_anti I hk ha z z1 (le_trans h0 hz0) hlt h1)

/-! ## launch-angle conversion -/
theorem true_angle_same_beta (I : Ice) (zFrom zTo angle : ℝ) (hn : 0 < I.index zFrom)
    (hβ : |I.index (tracerZ0 zFrom zTo) * Real.sin angle| ≤ I.index zFrom) :
    I.index zFrom * Real.sin (trueDirectAngle I zFrom zTo angle)
        = I.index (tracerZ0 zFrom zTo) * Real.sin angle ∧
    I.index zFrom * Real.sin (trueIndirectAngle I zFrom zTo angle)
        = I.index (tracerZ0 zFrom zTo) * Real.sin angle ∧
    (zFrom > zTo → Real.cos (trueDirectAngle I zFrom zTo angle)
        = -Real.cos (convertAngle I zFrom zTo angle)) ∧
    (¬ zFrom > zTo → trueDirectAngle I zFrom zTo angle = convertAngle I zFrom zTo angle) ∧
    0 ≤ Real.cos (convertAngle I zFrom zTo angle) := by
  have hx : |Real.sin angle * I.index (tracerZ0 zFrom zTo) / I.index zFrom| ≤ 1 := by
    rw [abs_div, abs_of_pos hn, div_le_one hn, mul_comm]; exact hβ
  have hconv : I.index zFrom * Real.sin (convertAngle I zFrom zTo angle)
      = I.index (tracerZ0 zFrom zTo) * Real.sin angle := by
    unfold convertAngle; simp only [Rasin, Rsin]
    rw [Real.sin_arcsin (neg_le_of_abs_le hx) (le_of_abs_le hx)]
    field_simp
  refine ⟨?_, hconv, ?_, ?_, ?_⟩
  · unfold trueDirectAngle
    split_ifs with h
    · simp only [Rpi]; rw [Real.sin_pi_sub]; exact hconv
    · exact hconv
  · intro h; unfold trueDirectAngle; simp only [h, if_true, Rpi]; rw [Real.cos_pi_sub]
  · intro h; unfold trueDirectAngle; simp only [h, if_false]
  · unfold convertAngle; simp only [Rasin]; exact Real.cos_arcsin_nonneg _

/-! ## near-vertical branch (`|β| ≤ beta_tolerance`, known finding K3) -/
section vertical
variable (I : Ice) (β : ℝ)

lemma betaIsSmall_true (h : |β| ≤ betaTolerance) : betaIsSmall β = true := by
  unfold betaIsSmall; simp only [Rabs, decide_eq_true_eq]; exact h

/-- what the model (and the code) returns in the near-vertical branch -/
theorem near_vertical_values (h : |β| ≤ betaTolerance) (z : ℝ) :
    distInt I z β false = 0 ∧ pathInt I z β false = z ∧
    tofInt I z β false = ((nzT I z - I.n0) / I.a + I.n0 * z) / cLight := by
  unfold distInt pathInt tofInt
  simp [betaIsSmall_true β h]

/-- the true radial distance of such a ray: `0 ≤ ∫ tan θ ≤ β Δz / √(n_min² − β²)` -/
theorem near_vertical_dist_bound (hβ0 : 0 ≤ β) {z0 z1 nmin : ℝ} (h01 : z0 ≤ z1)
    (hmin : β < nmin) (hn : ∀ z ∈ Icc z0 z1, nmin ≤ nzT I z) :
    0 ≤ ∫ z in z0..z1, Real.tan (Real.arcsin (β / nzT I z)) ∧
    ∫ z in z0..z1, Real.tan (Real.arcsin (β / nzT I z))
      ≤ β * (z1 - z0) / Real.sqrt (nmin * nmin - β * β) := by
  have hnm : 0 < nmin := lt_of_le_of_lt hβ0 hmin
  have hgmin : 0 < nmin * nmin - β * β := by nlinarith
  have hval : ∀ z ∈ Icc z0 z1, Real.tan (Real.arcsin (β / nzT I z))
      = β / Real.sqrt (gU I β z) := by
    intro z hz
    have h1 := hn z hz
    rw [tan_arcsin_div _ β (lt_of_lt_of_le hnm h1) (by nlinarith)]; rfl
  have hg : ∀ z ∈ Icc z0 z1, nmin * nmin - β * β ≤ gU I β z := by
    intro z hz; have := hn z hz; unfold gU; nlinarith
  have hcont : ContinuousOn (fun z => Real.tan (Real.arcsin (β / nzT I z))) (Icc z0 z1) := by
    have : ContinuousOn (fun z => β / Real.sqrt (gU I β z)) (Icc z0 z1) := by
      apply ContinuousOn.div continuousOn_const
        (Real.continuous_sqrt.comp (continuous_gU I β)).continuousOn
      intro z hz
      exact ne_of_gt (Real.sqrt_pos.mpr (lt_of_lt_of_le hgmin (hg z hz)))
    exact this.congr hval
  have hint : IntervalIntegrable (fun z => Real.tan (Real.arcsin (β / nzT I z))) volume z0 z1 :=
    ContinuousOn.intervalIntegrable (by rwa [uIcc_of_le h01])
  constructor
  · apply intervalIntegral.integral_nonneg h01
    intro z hz
    rw [hval z hz]; exact div_nonneg hβ0 (Real.sqrt_nonneg _)
  · have hle := intervalIntegral.integral_mono_on h01 hint
      (intervalIntegrable_const (c := β / Real.sqrt (nmin * nmin - β * β)))
      (fun z hz => by
        rw [hval z hz]
        exact div_le_div_of_nonneg_left hβ0 (Real.sqrt_pos.mpr hgmin) (Real.sqrt_le_sqrt (hg z hz)))
    have hc : ∫ _z in z0..z1, β / Real.sqrt (nmin * nmin - β * β)
        = β * (z1 - z0) / Real.sqrt (nmin * nmin - β * β) := by
      rw [intervalIntegral.integral_const, smul_eq_mul]; ring
    linarith

end vertical
end RayProofs
