import PyrexVerif.R.Geom
import PyrexVerif.R.Ray
import Mathlib.Tactic.Linarith
/-! The stratified medium of `SpecializedRayTracer` as an instance of `Geo.GradMedium`: path length and time of flight
are the closed forms of `twin/Ray.body` (property C01), which take only `(z_from, z_to, theta0, direct)`. -/
open PyrexR PyrexR.Geo

namespace PyrexProofs

/-- `root` (brentq), `imax` (needs the peak-angle search) and `att` (numerical integral) stay abstract -/
noncomputable def specMedium (I : Ice) (root : Nat → ℝ → ℝ → ℝ → Option ℝ) (imax : ℝ → ℝ → ℝ)
    (att : ℝ → ℝ → ℝ → Bool → ℝ → ℝ) : GradMedium :=
  { index := I.index, contains := fun z => I.contains z,
    dmax := fun z0 z1 => Ray.specDirectRMax I z0 z1, imax := imax, root := root,
    len := Ray.specPathLength I, tof := Ray.specTof I, att := att }

theorem sgn_eq_Rsign (x : ℝ) : sgn x = Ray.Rsign x := by
  unfold sgn Ray.Rsign
  split_ifs <;> first | rfl | (exfalso; linarith)

end PyrexProofs
