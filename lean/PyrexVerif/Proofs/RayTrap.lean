import PyrexVerif.Proofs.RayFTC
import Mathlib.MeasureTheory.Integral.IntervalIntegral.Basic
import Mathlib.Algebra.BigOperators.Intervals
/-!
# C01 helper lemmas: composite trapezoid rule on a monotone integrand

`|T_n − ∫_a^b f| ≤ h (f b − f a)/2`, `h = (b−a)/n`, for `f` monotone on `[a,b]` — the error of the
numeric tracer's `linspace` + `trapz` on a direct segment, for every step size.
-/
open PyrexR PyrexR.Ray Set MeasureTheory

namespace RayProofs

lemma foldl_add_eq_sum (g : ℕ → ℝ) (n : ℕ) :
    (List.range n).foldl (fun acc i => acc + g i) 0 = ∑ i ∈ Finset.range n, g i := by
  induction n with
  | zero => simp
  | succ n ih => rw [List.range_succ, List.foldl_append, ih, Finset.sum_range_succ]; simp

lemma foldl_congr_range (g g' : ℕ → ℝ) (n : ℕ) (h : ∀ i, i < n → g i = g' i) :
    (List.range n).foldl (fun acc i => acc + g i) 0 = (List.range n).foldl (fun acc i => acc + g' i) 0 := by
  rw [foldl_add_eq_sum, foldl_add_eq_sum]
  exact Finset.sum_congr rfl (fun i hi => h i (Finset.mem_range.mp hi))

/-- over ℝ the exact last sample `b` of `np.linspace` is the grid point `a + n·step` -/
lemma gridPoint_eq (a b : ℝ) (n i : ℕ) (hi : i ≤ n) (hn : 0 < n) :
    gridPoint a b n i = a + i * ((b - a) / n) := by
  unfold gridPoint
  simp only [RofNat]
  split_ifs with h
  · subst h
    have : (i : ℝ) ≠ 0 := Nat.cast_ne_zero.mpr (Nat.pos_iff_ne_zero.mp hn)
    field_simp; ring
  · rfl

lemma trapSigned_eq_sum (f : ℝ → ℝ) (a b : ℝ) (n : ℕ) :
    trapSigned f a b n = ∑ i ∈ Finset.range n,
      (b - a) / n * (f (a + i * ((b - a) / n)) + f (a + ((i + 1 : ℕ) : ℝ) * ((b - a) / n))) / 2 := by
  unfold trapSigned
  simp only [RofNat]
  rw [← foldl_add_eq_sum]
  apply foldl_congr_range
  intro i hi
  have hn : 0 < n := lt_of_le_of_lt (Nat.zero_le i) hi
  rw [gridPoint_eq a b n i hi.le hn, gridPoint_eq a b n (i + 1) hi hn]

/-- one cell: both the trapezoid value and the integral lie between `h f(x)` and `h f(y)` -/
lemma cell_bound (f : ℝ → ℝ) {x y : ℝ} (hxy : x ≤ y) (hf : MonotoneOn f (Icc x y)) :
    |(y - x) * (f x + f y) / 2 - ∫ t in x..y, f t| ≤ (y - x) * (f y - f x) / 2 := by
  have hint : IntervalIntegrable f volume x y :=
    (hf.mono (by rw [uIcc_of_le hxy])).intervalIntegrable
  have hlo : (y - x) * f x ≤ ∫ t in x..y, f t := by
    have := intervalIntegral.integral_mono_on hxy (intervalIntegrable_const (c := f x)) hint
      (fun t ht => hf (left_mem_Icc.mpr hxy) ht ht.1)
    simpa [intervalIntegral.integral_const, smul_eq_mul] using this
  have hhi : ∫ t in x..y, f t ≤ (y - x) * f y := by
    have := intervalIntegral.integral_mono_on hxy hint (intervalIntegrable_const (c := f y))
      (fun t ht => hf ht (right_mem_Icc.mpr hxy) ht.2)
    simpa [intervalIntegral.integral_const, smul_eq_mul] using this
  rw [abs_le]
  constructor <;> linarith

/-- composite trapezoid rule, monotone integrand: `|T − ∫| ≤ h (f b − f a) / 2` -/
theorem trap_monotone_error (f : ℝ → ℝ) {a b : ℝ} (hab : a ≤ b) (n : ℕ) (hn : 0 < n)
    (hf : MonotoneOn f (Icc a b)) :
    |trapSigned f a b n - ∫ x in a..b, f x| ≤ (b - a) / n * (f b - f a) / 2 := by
  set h : ℝ := (b - a) / n with hh
  have hnR : (0 : ℝ) < n := Nat.cast_pos.mpr hn
  have hh0 : 0 ≤ h := div_nonneg (by linarith) hnR.le
  set x : ℕ → ℝ := fun i => a + i * h with hx
  have hx0 : x 0 = a := by simp [hx]
  have hxn : x n = b := by simp only [hx, hh]; field_simp; ring
  have hxmono : ∀ i, x i ≤ x (i + 1) := by
    intro i; simp only [hx]; push_cast; nlinarith
  have hxmem : ∀ i, i ≤ n → x i ∈ Icc a b := by
    intro i hi
    have hi' : (i : ℝ) ≤ n := Nat.cast_le.mpr hi
    constructor
    · simp only [hx]; nlinarith [mul_nonneg (Nat.cast_nonneg (α := ℝ) i) hh0]
    · rw [← hxn]; simp only [hx]; nlinarith [mul_le_mul_of_nonneg_right hi' hh0]
  have hcellmono : ∀ i, i < n → MonotoneOn f (Icc (x i) (x (i + 1))) := by
    intro i hi
    exact hf.mono (Icc_subset_Icc (hxmem i hi.le).1 (hxmem (i + 1) hi).2)
  have hsplit : ∫ t in a..b, f t = ∑ i ∈ Finset.range n, ∫ t in x i..x (i + 1), f t := by
    rw [← hx0, ← hxn]
    symm
    apply intervalIntegral.sum_integral_adjacent_intervals
    intro k hk
    exact ((hcellmono k hk).mono (by rw [uIcc_of_le (hxmono k)])).intervalIntegrable
  have hT : trapSigned f a b n = ∑ i ∈ Finset.range n, (x (i + 1) - x i) * (f (x i) + f (x (i + 1))) / 2 := by
    rw [trapSigned_eq_sum]
    apply Finset.sum_congr rfl
    intro i _
    simp only [hx]; push_cast; ring
  rw [hT, hsplit, ← Finset.sum_sub_distrib]
  calc |∑ i ∈ Finset.range n, ((x (i + 1) - x i) * (f (x i) + f (x (i + 1))) / 2 - ∫ t in x i..x (i + 1), f t)|
      ≤ ∑ i ∈ Finset.range n, |(x (i + 1) - x i) * (f (x i) + f (x (i + 1))) / 2 - ∫ t in x i..x (i + 1), f t| :=
        Finset.abs_sum_le_sum_abs _ _
    _ ≤ ∑ i ∈ Finset.range n, h * (f (x (i + 1)) - f (x i)) / 2 := by
        apply Finset.sum_le_sum
        intro i hi
        have := cell_bound f (hxmono i) (hcellmono i (Finset.mem_range.mp hi))
        have hstep : x (i + 1) - x i = h := by simp only [hx]; push_cast; ring
        rw [hstep] at this ⊢
        exact this
    _ = h * (f b - f a) / 2 := by
        have : ∑ i ∈ Finset.range n, h * (f (x (i + 1)) - f (x i)) / 2
            = h / 2 * ∑ i ∈ Finset.range n, (f (x (i + 1)) - f (x i)) := by
          rw [Finset.mul_sum]; apply Finset.sum_congr rfl; intro i _; ring
        rw [this, Finset.sum_range_sub (fun i => f (x i)), hx0, hxn]; ring

/-- `trapz(..., dx=|step|)` coincides with the signed version on an ascending grid -/
lemma trapAbs_eq_trapSigned (f : ℝ → ℝ) {a b : ℝ} (hab : a ≤ b) (n : ℕ) :
    trapAbs f a b n = trapSigned f a b n := by
  unfold trapAbs trapSigned
  have : |(b - a) / RofNat n| = (b - a) / RofNat n :=
    abs_of_nonneg (div_nonneg (by linarith) (Nat.cast_nonneg n))
  simp only [Rabs, this]

/-- the ray integrand `tan θ(z) = tan(arcsin(β/n(z)))` increases with `z` below the turning depth -/
lemma tanTheta_monotoneOn (I : Ice) (β : ℝ) (hk : 0 < I.k) (ha : 0 < I.a) (hβ : 0 < β) {z0 z1 : ℝ}
    (h1 : β < nzT I z1) :
    MonotoneOn (fun z => Real.tan (Real.arcsin (β / nzT I z))) (Icc z0 z1) := by
  intro x hx y hy hxy
  have fx := seg_facts I β hk ha hβ h1.le hx.2
  have fy := seg_facts I β hk ha hβ h1.le hy.2
  have gpos : ∀ z, z ≤ z1 → 0 < gU I β z := by
    intro z hz
    rcases eq_or_lt_of_le hz with rfl | hlt
    · unfold gU; nlinarith
    · exact (seg_facts I β hk ha hβ h1.le hz).2.2 hlt
  have hgx := gpos x hx.2
  have hgy := gpos y hy.2
  simp only
  rw [tan_arcsin_div _ β fx.1 (by unfold gU at hgx; linarith),
    tan_arcsin_div _ β fy.1 (by unfold gU at hgy; linarith)]
  have hmono : nzT I y ≤ nzT I x := by
    rcases eq_or_lt_of_le hxy with rfl | hlt
    · exact le_refl _
    · exact (nzT_strictAnti I hk ha hlt).le
  have hle : nzT I y * nzT I y - β * β ≤ nzT I x * nzT I x - β * β := by nlinarith [fy.1]
  have hsq := Real.sqrt_le_sqrt hle
  have hpy : 0 < Real.sqrt (nzT I y * nzT I y - β * β) := Real.sqrt_pos.mpr (by unfold gU at hgy; exact hgy)
  exact div_le_div_of_nonneg_left hβ.le hpy hsq

end RayProofs
