import PyrexVerif.D.Signals
set_option linter.unusedSimpArgs false
/-! Heap lemmas, the well-formedness predicate and the global invariant of the C04 object-graph
model, with the generic preservation lemmas (`push`, `rebind`, `setCell`, `setAll`, `ext`). -/
namespace Sig

/-! ## heap -/
@[simp] theorem allocs_next (h : Heap) (cs : List Arr) : (h.allocs cs).next = h.next + cs.length := rfl
@[simp] theorem set_next (h : Heap) (i : Nat) (a : Arr) : (h.set i a).next = h.next := rfl
@[simp] theorem setAll_next (h : Heap) (ids : List Nat) (f : Arr → Arr) : (h.setAll ids f).next = h.next := rfl

theorem allocs_cell_old {h : Heap} {cs : List Arr} {i : Nat} (hi : i < h.next) :
    (h.allocs cs).cell i = h.cell i := by
  simp only [Heap.allocs]; split
  · omega
  · rfl

theorem allocs_cell_new {h : Heap} {cs : List Arr} {k : Nat} (hk : k < cs.length) :
    (h.allocs cs).cell (h.next + k) = cs.getD k [] := by
  simp only [Heap.allocs]; split
  · congr 1; omega
  · omega

theorem set_cell_eq (h : Heap) (i : Nat) (a : Arr) : (h.set i a).cell i = a := by simp [Heap.set]
theorem set_cell_ne {h : Heap} {i j : Nat} (a : Arr) (hne : j ≠ i) : (h.set i a).cell j = h.cell j := by
  simp [Heap.set, hne]
theorem setAll_cell_mem {h : Heap} {ids : List Nat} {f : Arr → Arr} {j : Nat} (hj : j ∈ ids) :
    (h.setAll ids f).cell j = f (h.cell j) := by simp [Heap.setAll, hj]
theorem setAll_cell_not_mem {h : Heap} {ids : List Nat} {f : Arr → Arr} {j : Nat} (hj : j ∉ ids) :
    (h.setAll ids f).cell j = h.cell j := by simp [Heap.setAll, hj]

@[simp] theorem push_objs (st : St) (h : Heap) (s : Sig) :
    (st.push h s).1.objs = fun i => if i = st.nobj then some s else st.objs i := rfl
@[simp] theorem push_nobj (st : St) (h : Heap) (s : Sig) : (st.push h s).1.nobj = st.nobj + 1 := rfl
@[simp] theorem push_heap (st : St) (h : Heap) (s : Sig) : (st.push h s).1.heap = h := rfl
@[simp] theorem push_exts (st : St) (h : Heap) (s : Sig) : (st.push h s).1.exts = st.exts := rfl
@[simp] theorem push_reply (st : St) (h : Heap) (s : Sig) : (st.push h s).2 = .obj st.nobj := rfl
@[simp] theorem rebind_objs (st : St) (h : Heap) (k : Nat) (s : Sig) :
    (st.rebind h k s).objs = fun i => if i = k then some s else st.objs i := rfl
@[simp] theorem rebind_nobj (st : St) (h : Heap) (k : Nat) (s : Sig) : (st.rebind h k s).nobj = st.nobj := rfl
@[simp] theorem rebind_heap (st : St) (h : Heap) (k : Nat) (s : Sig) : (st.rebind h k s).heap = h := rfl
@[simp] theorem rebind_exts (st : St) (h : Heap) (k : Nat) (s : Sig) : (st.rebind h k s).exts = st.exts := rfl

/-! ## well-formed objects -/
/-- one value per time sample; an `EmptySignal` holds zeros; the five component lists of a
function-backed signal have one entry per component -/
def WF (h : Heap) (s : Sig) : Prop :=
  match s.body with
  | .arr v => (h.cell v).length = (h.cell s.times).length ∧ (s.cls = .empty → ∀ x ∈ h.cell v, x = 0)
  | .fn a b _ d _ bi fi =>
      (h.cell a).length = bi.length ∧ (h.cell b).length = bi.length ∧ (h.cell d).length = bi.length ∧
      fi.length = bi.length

theorem WF_congr {h h' : Heap} {s : Sig} (hc : ∀ id ∈ s.reach, h'.cell id = h.cell id) :
    WF h' s ↔ WF h s := by
  unfold WF
  cases hb : s.body with
  | arr v =>
    have h1 := hc s.times (by simp [Sig.reach])
    have h2 := hc v (by simp [Sig.reach, hb])
    simp [h1, h2]
  | fn a b c d e bi fi =>
    have h1 := hc a (by simp [Sig.reach, hb])
    have h2 := hc b (by simp [Sig.reach, hb])
    have h3 := hc d (by simp [Sig.reach, hb])
    simp [h1, h2, h3]

/-! ## the invariant -/
structure Inv (st : St) : Prop where
  bound : ∀ i s, st.objs i = some s → i < st.nobj
  lt : ∀ i s, st.objs i = some s → ∀ id ∈ s.reach, id < st.heap.next
  nodup : ∀ i s, st.objs i = some s → s.reach.Nodup
  disj : ∀ i j si sj, st.objs i = some si → st.objs j = some sj → i ≠ j → ∀ id ∈ si.reach, id ∉ sj.reach
  extLt : ∀ e ∈ st.exts, e < st.heap.next
  extDisj : ∀ e ∈ st.exts, ∀ i s, st.objs i = some s → e ∉ s.reach
  wf : ∀ i s, st.objs i = some s → WF st.heap s

theorem Inv.init : Inv St.init := by
  constructor <;> simp [St.init]

/-- a freshly allocated object: all its identities come from one `allocs` -/
def FreshObj (h : Heap) (p : Heap × Sig) : Prop :=
  ∃ cs, p.1 = h.allocs cs ∧ (∀ id ∈ p.2.reach, h.next ≤ id ∧ id < h.next + cs.length) ∧
    p.2.reach.Nodup ∧ WF p.1 p.2

theorem FreshObj.vt {h : Heap} {p : Heap × Sig} (hf : FreshObj h p) (vt : VT) :
    FreshObj h (p.1, { p.2 with vt := vt }) := by
  obtain ⟨cs, h1, h2, h3, h4⟩ := hf
  exact ⟨cs, h1, h2, h3, h4⟩

theorem Inv.push {st : St} (hinv : Inv st) {p : Heap × Sig} (hf : FreshObj st.heap p) :
    Inv (st.push p.1 p.2).1 := by
  obtain ⟨cs, h1, h2, h3, h4⟩ := hf
  have hold : ∀ i s, st.objs i = some s → ∀ id ∈ s.reach, p.1.cell id = st.heap.cell id := by
    intro i s hs id hid
    rw [h1]; exact allocs_cell_old (hinv.lt i s hs id hid)
  constructor
  · intro i s hs
    simp only [push_objs, push_nobj, push_heap, push_exts] at hs ⊢
    split at hs
    · omega
    · have := hinv.bound i s hs; omega
  · intro i s hs id hid
    simp only [push_objs, push_nobj, push_heap, push_exts] at hs ⊢
    rw [h1, allocs_next]
    split at hs
    · cases hs; have := h2 id hid; omega
    · have := hinv.lt i s hs id hid; omega
  · intro i s hs
    simp only [push_objs] at hs
    split at hs
    · cases hs; exact h3
    · exact hinv.nodup i s hs
  · intro i j si sj hi hj hne id hid
    simp only [push_objs] at hi hj
    split at hi <;> split at hj
    · omega
    · cases hi; intro hc
      have := h2 id hid; have := hinv.lt j sj hj id hc; omega
    · cases hj; intro hc
      have := h2 id hc; have := hinv.lt i si hi id hid; omega
    · exact hinv.disj i j si sj hi hj hne id hid
  · intro e he
    simp only [push_exts, push_heap] at he ⊢
    rw [h1, allocs_next]; have := hinv.extLt e he; omega
  · intro e he i s hs
    simp only [push_exts, push_objs] at he hs
    split at hs
    · cases hs; intro hc; have := h2 e hc; have := hinv.extLt e he; omega
    · exact hinv.extDisj e he i s hs
  · intro i s hs
    simp only [push_objs, push_nobj, push_heap, push_exts] at hs ⊢
    split at hs
    · cases hs; exact h4
    · exact (WF_congr (hold i s hs)).2 (hinv.wf i s hs)

/-- rebinding one attribute of object `k` to freshly allocated cells -/
theorem Inv.rebind {st : St} (hinv : Inv st) {k : Nat} {o s : Sig} (cs : List Arr)
    (ho : st.objs k = some o)
    (hr : ∀ id ∈ s.reach, (st.heap.next ≤ id ∧ id < st.heap.next + cs.length) ∨ id ∈ o.reach)
    (hnd : s.reach.Nodup) (hwf : WF (st.heap.allocs cs) s) :
    Inv (st.rebind (st.heap.allocs cs) k s) := by
  have hold : ∀ i s, st.objs i = some s → ∀ id ∈ s.reach, (st.heap.allocs cs).cell id = st.heap.cell id := by
    intro i s hs id hid
    exact allocs_cell_old (hinv.lt i s hs id hid)
  constructor
  · intro i s' hs
    simp only [rebind_objs, rebind_nobj, rebind_heap, rebind_exts] at hs ⊢
    split at hs
    · subst_vars; exact hinv.bound _ o ho
    · exact hinv.bound i s' hs
  · intro i s' hs id hid
    simp only [rebind_objs, rebind_nobj, rebind_heap, rebind_exts] at hs ⊢
    rw [allocs_next]
    split at hs
    · cases hs
      rcases hr id hid with h | h
      · omega
      · have := hinv.lt k o ho id h; omega
    · have := hinv.lt i s' hs id hid; omega
  · intro i s' hs
    simp only [rebind_objs] at hs
    split at hs
    · cases hs; exact hnd
    · exact hinv.nodup i s' hs
  · intro i j si sj hi hj hne id hid
    simp only [rebind_objs] at hi hj
    split at hi <;> split at hj
    · omega
    · cases hi; intro hc
      rcases hr id hid with h | h
      · have := hinv.lt j sj hj id hc; omega
      · subst_vars; exact hinv.disj _ j o sj ho hj hne id h hc
    · cases hj; intro hc
      rcases hr id hc with h | h
      · have := hinv.lt i si hi id hid; omega
      · subst_vars; exact hinv.disj i _ si o hi ho hne id hid h
    · exact hinv.disj i j si sj hi hj hne id hid
  · intro e he
    simp only [rebind_exts, rebind_heap] at he ⊢
    rw [allocs_next]; have := hinv.extLt e he; omega
  · intro e he i s' hs
    simp only [rebind_exts, rebind_objs] at he hs
    split at hs
    · cases hs; intro hc
      rcases hr e hc with h | h
      · have := hinv.extLt e he; omega
      · exact hinv.extDisj e he k o ho h
    · exact hinv.extDisj e he i s' hs
  · intro i s' hs
    simp only [rebind_objs, rebind_nobj, rebind_heap, rebind_exts] at hs ⊢
    split at hs
    · cases hs; exact hwf
    · exact (WF_congr (hold i s' hs)).2 (hinv.wf i s' hs)

/-- in-place update of cells that all belong to object `k` -/
theorem Inv.setCells {st : St} (hinv : Inv st) {k : Nat} {o : Sig} (h' : Heap)
    (ho : st.objs k = some o) (hn : h'.next = st.heap.next)
    (hc : ∀ id, id ∉ o.reach → h'.cell id = st.heap.cell id)
    (hwf : WF h' o) :
    Inv { st with heap := h' } := by
  constructor
  · exact hinv.bound
  · intro i s hs id hid; simp only [hn]; exact hinv.lt i s hs id hid
  · exact hinv.nodup
  · exact hinv.disj
  · intro e he; simp only [hn]; exact hinv.extLt e he
  · exact hinv.extDisj
  · intro i s hs
    by_cases hik : i = k
    · subst hik; rw [ho] at hs; cases hs; exact hwf
    · refine (WF_congr ?_).2 (hinv.wf i s hs)
      intro id hid
      exact hc id (fun hmem => hinv.disj i k s o hs ho hik id hid hmem)

theorem Inv.ext {st : St} (hinv : Inv st) (a : Arr) :
    Inv { st with heap := st.heap.allocs [a], exts := st.heap.next :: st.exts } := by
  constructor
  · exact hinv.bound
  · intro i s hs id hid; have := hinv.lt i s hs id hid; simp; omega
  · exact hinv.nodup
  · exact hinv.disj
  · intro e he
    simp only [List.mem_cons] at he
    rcases he with rfl | he
    · simp
    · have := hinv.extLt e he; simp; omega
  · intro e he i s hs
    simp only [List.mem_cons] at he
    rcases he with rfl | he
    · intro hc; have := hinv.lt i s hs _ hc; omega
    · exact hinv.extDisj e he i s hs
  · intro i s hs
    refine (WF_congr ?_).2 (hinv.wf i s hs)
    intro id hid; exact allocs_cell_old (hinv.lt i s hs id hid)

end Sig
