import PyrexVerif.Proofs.SignalsPure
set_option linter.unusedSimpArgs false
/-! `interp0` (the model of `np.interp(x, xp, fp, left=0, right=0)`) on strictly increasing grids. -/
namespace Sig

theorem interpAux_at_sample :
    ∀ (xp fp : Arr) (i : Nat) (x y : Rat), xp.Pairwise (· < ·) → xp.length = fp.length →
      xp[i]? = some x → fp[i]? = some y → interpAux xp fp x = y := by
  intro xp
  induction xp with
  | nil => intro fp i x y _ _ hx; simp at hx
  | cons x0 rest ih =>
    intro fp i x y hs hl hx hy
    cases fp with
    | nil => simp at hl
    | cons y0 ys =>
    cases rest with
    | nil =>
      cases ys with
      | nil =>
        cases i with
        | zero => simp at hx hy; subst hx hy; simp [interpAux]
        | succ j => simp at hx
      | cons _ _ => simp at hl
    | cons x1 xs =>
      cases ys with
      | nil => simp at hl
      | cons y1 ys =>
        rw [List.pairwise_cons] at hs
        cases i with
        | zero =>
          simp at hx hy; subst hx hy
          have : x0 < x1 := hs.1 x1 (by simp)
          simp [interpAux, this]
        | succ j =>
          simp only [List.getElem?_cons_succ] at hx hy
          have hmem : x ∈ x1 :: xs := List.mem_of_getElem? hx
          have hge : ¬ x < x1 := by
            rcases List.mem_cons.1 hmem with rfl | hm
            · exact Rat.lt_irrefl
            · have := (List.pairwise_cons.1 hs.2).1 x hm
              exact Rat.not_lt.2 (Rat.le_of_lt this)
          simp only [interpAux, hge, if_false]
          exact ih (y1 :: ys) j x y hs.2 (by simpa using hl) hx hy

theorem interpAux_between :
    ∀ (xp fp : Arr) (i : Nat) (a b ya yb x : Rat), xp.Pairwise (· < ·) → xp.length = fp.length →
      xp[i]? = some a → xp[i+1]? = some b → fp[i]? = some ya → fp[i+1]? = some yb →
      a < x → x < b → interpAux xp fp x = (yb - ya) / (b - a) * (x - a) + ya := by
  intro xp
  induction xp with
  | nil => intro fp i a b ya yb x _ _ hx; simp at hx
  | cons x0 rest ih =>
    intro fp i a b ya yb x hs hl ha hb hya hyb hax hxb
    cases fp with
    | nil => simp at hl
    | cons y0 ys =>
    cases rest with
    | nil => simp at hb
    | cons x1 xs =>
      cases ys with
      | nil => simp at hl
      | cons y1 ys =>
        rw [List.pairwise_cons] at hs
        cases i with
        | zero =>
          simp at ha hb hya hyb; subst ha hb hya hyb
          have hne : ¬ x = x0 := fun h => by subst h; exact Rat.lt_irrefl hax
          simp [interpAux, hxb, hne]
        | succ j =>
          simp only [List.getElem?_cons_succ] at ha hb hya hyb
          have hmem : a ∈ x1 :: xs := List.mem_of_getElem? ha
          have hle : x1 ≤ a := by
            rcases List.mem_cons.1 hmem with rfl | hm
            · exact Rat.le_refl
            · exact Rat.le_of_lt ((List.pairwise_cons.1 hs.2).1 a hm)
          have hge : ¬ x < x1 := by grind
          simp only [interpAux, hge, if_false]
          exact ih (y1 :: ys) j a b ya yb x hs.2 (by simpa using hl) ha hb hya hyb hax hxb

theorem interpAux_right :
    ∀ (xp fp : Arr) (x : Rat), (∀ t ∈ xp, t < x) → interpAux xp fp x = 0 := by
  intro xp
  induction xp with
  | nil => intro fp x _; simp [interpAux]
  | cons x0 rest ih =>
    intro fp x h
    cases rest with
    | nil =>
      cases fp with
      | nil => simp [interpAux]
      | cons y0 ys =>
        cases ys with
        | nil =>
          have : ¬ x = x0 := fun e => by subst e; exact Rat.lt_irrefl (h x (by simp))
          simp [interpAux, this]
        | cons _ _ => simp [interpAux]
    | cons x1 xs =>
      cases fp with
      | nil => simp [interpAux]
      | cons y0 ys =>
        cases ys with
        | nil => simp [interpAux]
        | cons y1 ys =>
          have h1 : x1 < x := h x1 (by simp)
          have hge : ¬ x < x1 := by grind
          simp only [interpAux, hge, if_false]
          exact ih (y1 :: ys) x (fun t ht => h t (by simp [ht]))

private theorem head_le_of_mem {x0 x : Rat} {rest : Arr} (hs : (x0 :: rest).Pairwise (· < ·))
    (hm : x ∈ x0 :: rest) : ¬ x < x0 := by
  rcases List.mem_cons.1 hm with rfl | hm
  · exact Rat.lt_irrefl
  · have := (List.pairwise_cons.1 hs).1 x hm
    grind

/-- at a sample time the stored value is returned -/
theorem interp0_at_sample {xp fp : Arr} {i : Nat} {x y : Rat} (hs : xp.Pairwise (· < ·))
    (hl : xp.length = fp.length) (hx : xp[i]? = some x) (hy : fp[i]? = some y) :
    interp0 xp fp x = y := by
  cases xp with
  | nil => simp at hx
  | cons x0 rest =>
    have := head_le_of_mem hs (List.mem_of_getElem? hx)
    simp only [interp0, this, if_false]
    exact interpAux_at_sample _ _ i x y hs hl hx hy

/-- strictly between two neighbouring samples: linear interpolation -/
theorem interp0_between {xp fp : Arr} {i : Nat} {a b ya yb x : Rat} (hs : xp.Pairwise (· < ·))
    (hl : xp.length = fp.length) (ha : xp[i]? = some a) (hb : xp[i+1]? = some b)
    (hya : fp[i]? = some ya) (hyb : fp[i+1]? = some yb) (hax : a < x) (hxb : x < b) :
    interp0 xp fp x = ya + (yb - ya) / (b - a) * (x - a) := by
  cases xp with
  | nil => simp at ha
  | cons x0 rest =>
    have h0 := head_le_of_mem hs (List.mem_of_getElem? ha)
    have : ¬ x < x0 := by grind
    simp only [interp0, this, if_false]
    rw [interpAux_between _ _ i a b ya yb x hs hl ha hb hya hyb hax hxb]
    grind

/-- outside the span of the grid: zero -/
theorem interp0_outside {xp fp : Arr} {x : Rat} (h : (∀ t ∈ xp, x < t) ∨ (∀ t ∈ xp, t < x)) :
    interp0 xp fp x = 0 := by
  cases xp with
  | nil => rfl
  | cons x0 rest =>
    rcases h with h | h
    · exact interp0_left (h x0 (by simp))
    · have h00 := h x0 (by simp)
      have : ¬ x < x0 := by grind
      simp only [interp0, this, if_false]
      exact interpAux_right _ _ x h

end Sig
