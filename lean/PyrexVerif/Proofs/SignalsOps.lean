import PyrexVerif.Proofs.SignalsHeap
import PyrexVerif.Proofs.SignalsPure
set_option linter.unusedSimpArgs false
set_option linter.unusedVariables false
/-! Allocation lemmas (`allocEager`, `allocF`, `copySig` produce fresh, well-formed objects) and
the classification of every operation of the C04 model as refusing / creating / in-place. -/
namespace Sig

/-! ## allocation of whole objects -/
theorem allocEager_cells (h : Heap) (cls : Cls) (vt : VT) (ts vs : Arr) :
    (allocEager h cls vt ts vs).1.cell h.next = ts ∧ (allocEager h cls vt ts vs).1.cell (h.next + 1) = vs := by
  constructor
  · have := allocs_cell_new (h := h) (cs := [ts, vs]) (k := 0) (by simp)
    simpa [allocEager] using this
  · have := allocs_cell_new (h := h) (cs := [ts, vs]) (k := 1) (by simp)
    simpa [allocEager] using this

theorem freshObj_allocEager (h : Heap) (cls : Cls) (vt : VT) {ts vs : Arr} (hl : vs.length = ts.length)
    (hz : cls = .empty → ∀ x ∈ vs, x = 0) : FreshObj h (allocEager h cls vt ts vs) := by
  refine ⟨[ts, vs], rfl, ?_, ?_, ?_⟩
  · intro id hid
    simp [allocEager, Sig.reach] at hid ⊢
    omega
  · simp [allocEager, Sig.reach]
  · have hc := allocEager_cells h cls vt ts vs
    simp only [WF, allocEager] at hc ⊢
    rw [hc.1, hc.2]
    exact ⟨hl, hz⟩

theorem valuesOf_allocEager (h : Heap) (cls : Cls) (vt : VT) (ts vs : Arr) :
    valuesOf (allocEager h cls vt ts vs).1 (allocEager h cls vt ts vs).2 = some vs := by
  have hc := allocEager_cells h cls vt ts vs
  simp only [valuesOf, allocEager] at hc ⊢
  rw [hc.2]

theorem times_allocEager (h : Heap) (cls : Cls) (vt : VT) (ts vs : Arr) :
    (allocEager h cls vt ts vs).1.cell (allocEager h cls vt ts vs).2.times = ts :=
  (allocEager_cells h cls vt ts vs).1

/-- the cells written by `allocF` -/
def fCells (d : FData) : List Arr := [d.ts, d.fns, d.t0s, [], d.facs, []] ++ d.bufs ++ d.filts

theorem allocF_reach (h : Heap) (cls : Cls) (vt : VT) (d : FData) :
    (allocF h cls vt d).2.reach = List.range' h.next (fCells d).length := by
  simp only [allocF, Sig.reach, fCells, List.length_append, List.length_cons, List.length_nil]
  have e1 : List.range' h.next (0 + 1 + 1 + 1 + 1 + 1 + 1 + d.bufs.length + d.filts.length)
      = List.range' h.next 6 ++ (List.range' (h.next + 6) d.bufs.length ++
          List.range' (h.next + 6 + d.bufs.length) d.filts.length) := by
    rw [List.range'_append_1, List.range'_append_1]
    congr 1; omega
  rw [e1]
  simp [List.range']

theorem allocF_cell (h : Heap) (cls : Cls) (vt : VT) (d : FData) {k : Nat} (hk : k < (fCells d).length) :
    (allocF h cls vt d).1.cell (h.next + k) = (fCells d).getD k [] := by
  have := allocs_cell_new (h := h) (cs := fCells d) (k := k) hk
  simpa [allocF, fCells] using this

theorem freshObj_allocF (h : Heap) (cls : Cls) (vt : VT) {d : FData}
    (h1 : d.fns.length = d.bufs.length) (h2 : d.t0s.length = d.bufs.length)
    (h3 : d.facs.length = d.bufs.length) (h4 : d.filts.length = d.bufs.length) :
    FreshObj h (allocF h cls vt d) := by
  refine ⟨fCells d, rfl, ?_, ?_, ?_⟩
  · intro id hid
    rw [allocF_reach] at hid
    rw [List.mem_range'_1] at hid; exact hid
  · rw [allocF_reach]; exact List.nodup_range'
  · have hlen : 6 ≤ (fCells d).length := by simp [fCells] <;> omega
    have c1 := allocF_cell h cls vt d (k := 1) (by omega)
    have c2 := allocF_cell h cls vt d (k := 2) (by omega)
    have c4 := allocF_cell h cls vt d (k := 4) (by omega)
    simp only [fCells, List.cons_append, List.getD_cons_succ, List.getD_cons_zero] at c1 c2 c4
    simp only [WF, allocF] at c1 c2 c4 ⊢
    rw [c1, c2, c4]
    simp [h1, h2, h3, h4]

theorem map_cell_range' (h : Heap) (cls : Cls) (vt : VT) (d : FData) (off : Nat) (l : List Arr)
    (hsub : ∀ i, i < l.length → (fCells d).getD (off + i) [] = l.getD i [])
    (hlen : off + l.length ≤ (fCells d).length) :
    (List.range' (h.next + off) l.length).map (allocF h cls vt d).1.cell = l := by
  apply List.ext_getElem
  · simp
  · intro i h1 h2
    simp only [List.getElem_map, List.getElem_range']
    have hi : i < l.length := by simpa using h2
    have := allocF_cell h cls vt d (k := off + i) (by omega)
    rw [show h.next + off + 1 * i = h.next + (off + i) by omega, this, hsub i hi]
    simp [List.getD_eq_getElem?_getD, hi]

theorem readF_allocF (h : Heap) (cls : Cls) (vt : VT) (d : FData) :
    readF (allocF h cls vt d).1 (allocF h cls vt d).2 = d := by
  have hlen : 6 ≤ (fCells d).length := by simp [fCells] <;> omega
  have c0 := allocF_cell h cls vt d (k := 0) (by omega)
  have c1 := allocF_cell h cls vt d (k := 1) (by omega)
  have c2 := allocF_cell h cls vt d (k := 2) (by omega)
  have c4 := allocF_cell h cls vt d (k := 4) (by omega)
  have cb := map_cell_range' h cls vt d 6 d.bufs (by
      intro i hi
      rw [show 6 + i = i + 6 by omega]
      simp [fCells, List.getD_eq_getElem?_getD, List.getElem?_append, hi]) (by simp [fCells] <;> omega)
  have cf := map_cell_range' h cls vt d (6 + d.bufs.length) d.filts (by
      intro i hi
      simp only [fCells, List.cons_append, List.nil_append, List.getD_eq_getElem?_getD]
      rw [show 6 + d.bufs.length + i = (d.bufs.length + i) + 6 by omega]
      simp [List.getElem?_append, hi]) (by simp [fCells] <;> omega)
  simp only [fCells, List.cons_append, List.getD_cons_succ, List.getD_cons_zero, Nat.add_zero] at c0 c1 c2 c4
  cases d with
  | mk ts fns t0s facs bufs filts =>
    simp only [readF, allocF] at c0 c1 c2 c4 cb cf ⊢
    simp only [← Nat.add_assoc] at cf
    rw [c0, c1, c2, c4, cb, cf]

theorem valuesOf_allocF (h : Heap) (cls : Cls) (vt : VT) (d : FData) :
    valuesOf (allocF h cls vt d).1 (allocF h cls vt d).2 = fnValues d := by
  have := readF_allocF h cls vt d
  simp only [valuesOf] at this ⊢
  conv => lhs; simp only [allocF]
  simp only [allocF] at this
  rw [this]

theorem times_allocF (h : Heap) (cls : Cls) (vt : VT) (d : FData) :
    (allocF h cls vt d).1.cell (allocF h cls vt d).2.times = d.ts := by
  have := readF_allocF h cls vt d
  have h2 : (readF (allocF h cls vt d).1 (allocF h cls vt d).2).ts = d.ts := by rw [this]
  simpa [readF, allocF] using h2

/-- lengths of the content read from a well-formed function-backed object -/
theorem readF_lengths {h : Heap} {s : Sig} (hw : WF h s) (hf : s.isFunc = true) :
    (readF h s).fns.length = (readF h s).bufs.length ∧ (readF h s).t0s.length = (readF h s).bufs.length ∧
    (readF h s).facs.length = (readF h s).bufs.length ∧ (readF h s).filts.length = (readF h s).bufs.length := by
  unfold WF at hw; unfold readF
  cases hb : s.body with
  | arr v => simp [Sig.isFunc, hb] at hf
  | fn a b c d e bi fi =>
    rw [hb] at hw
    simp [hw.1, hw.2.1, hw.2.2.1, hw.2.2.2]

theorem freshObj_copySig {h : Heap} {s : Sig} (hw : WF h s) : FreshObj h (copySig h s) := by
  unfold copySig
  cases hb : s.body with
  | arr v =>
    simp only
    split
    · exact freshObj_allocEager h _ _ (by simp) (fun _ x hx => by simpa [zeros] using (List.eq_of_mem_replicate hx))
    · exact freshObj_allocEager h _ _ (fit_length _ _) (fun hc => by cases hc)
  | fn a b c d e bi fi =>
    simp only
    have hf : s.isFunc = true := by simp [Sig.isFunc, hb]
    obtain ⟨h1, h2, h3, h4⟩ := readF_lengths hw hf
    exact freshObj_allocF h _ _ h1 h2 h3 h4

/-! ## classification of results -/
def Reply.isErr : Reply → Bool
  | .errTimes | .errTypes | .typeError | .raise | .bad => true
  | _ => false

/-- the operation either refused (state unchanged) or installed one freshly allocated object -/
def Creates (st : St) (r : St × Reply) : Prop :=
  (r.1 = st ∧ r.2.isErr = true) ∨ ∃ p, FreshObj st.heap p ∧ r = st.pushP p

theorem Creates.err {st : St} {e : Reply} (he : e.isErr = true) : Creates st (st, e) := Or.inl ⟨rfl, he⟩
theorem Creates.mk {st : St} {p : Heap × Sig} (hf : FreshObj st.heap p) : Creates st (st.pushP p) :=
  Or.inr ⟨p, hf, rfl⟩

theorem Creates.inv {st : St} {r : St × Reply} (hinv : Inv st) (hc : Creates st r) : Inv r.1 := by
  rcases hc with ⟨h1, _⟩ | ⟨p, hf, rfl⟩
  · rw [h1]; exact hinv
  · exact hinv.push hf

theorem addSig_creates {st : St} {a b : Sig} (ha : WF st.heap a) (hb : WF st.heap b) :
    Creates st (addSig st a b) := by
  unfold addSig
  simp only
  split
  · exact Creates.err rfl
  · rename_i htimes
    split
    · exact Creates.err rfl
    · rename_i vt hvt
      split
      · rename_i haf
        split
        · rename_i hbf
          obtain ⟨a1, a2, a3, a4⟩ := readF_lengths ha haf
          obtain ⟨b1, b2, b3, b4⟩ := readF_lengths hb hbf
          apply Creates.mk
          apply freshObj_allocF <;> simp [FData.append, *]
        · split
          · exact Creates.mk ((freshObj_copySig ha).vt vt)
          · split
            · rename_i va vb hva hvb
              exact Creates.mk (freshObj_allocEager _ _ _ (fit_length _ _) (fun hc => by cases hc))
            · exact Creates.err rfl
      · split
        · exact Creates.mk ((freshObj_copySig hb).vt vt)
        · split
          · exact Creates.mk (freshObj_allocEager _ _ _ (fit_length _ _) (fun hc => by cases hc))
          · exact Creates.err rfl

theorem scaleSig_creates {st : St} {s : Sig} (q : Rat) (hw : WF st.heap s) :
    Creates st (scaleSig st s q) := by
  unfold scaleSig
  cases hb : s.body with
  | arr v =>
    simp only
    exact Creates.mk (freshObj_allocEager _ _ _ (fit_length _ _) (fun hc => by cases hc))
  | fn a b c d e bi fi =>
    simp only
    have hf : s.isFunc = true := by simp [Sig.isFunc, hb]
    obtain ⟨h1, h2, h3, h4⟩ := readF_lengths hw hf
    apply Creates.mk
    apply freshObj_allocF <;> simp [*]

theorem withTimesSig_creates {st : St} {s : Sig} (t : Nat) (hw : WF st.heap s) :
    Creates st (withTimesSig st s t) := by
  unfold withTimesSig
  cases hb : s.body with
  | arr v =>
    simp only
    split
    · exact Creates.mk (freshObj_allocEager _ _ _ (by simp)
        (fun _ x hx => by simpa [zeros] using (List.eq_of_mem_replicate hx)))
    · split
      · exact Creates.err rfl
      · exact Creates.mk (freshObj_allocEager _ _ _ (fit_length _ _) (fun hc => by cases hc))
  | fn a b c d e bi fi =>
    simp only
    have hf : s.isFunc = true := by simp [Sig.isFunc, hb]
    obtain ⟨h1, h2, h3, h4⟩ := readF_lengths hw hf
    split
    · apply Creates.mk
      apply freshObj_allocF
      all_goals (simp only []; split <;> simp [*])
    · exact Creates.err rfl

end Sig
