import PyrexVerif.D.Signals
set_option linter.unusedSimpArgs false
/-! Pure list lemmas for the C04 model: padding, pointwise sums, the evaluation of function-backed
signals and `interp0`. -/
namespace Sig

@[simp] theorem zeros_length (n : Nat) : (zeros n).length = n := by simp [zeros]

theorem fit_length (n : Nat) (vs : Arr) : (fit n vs).length = n := by
  unfold fit; split
  · simp; omega
  · simp; omega

theorem fit_of_length {n : Nat} {vs : Arr} (h : vs.length = n) : fit n vs = vs := by
  unfold fit; rw [if_neg (by omega)]; simp [← h]

theorem fit_pad {n : Nat} {vs : Arr} (h : vs.length < n) : fit n vs = vs ++ zeros (n - vs.length) := by
  simp [fit, h]

theorem fit_truncate {n : Nat} {vs : Arr} (h : n ≤ vs.length) : fit n vs = vs.take n := by
  unfold fit; rw [if_neg (by omega)]

@[simp] theorem scale_length (k : Rat) (a : Arr) : (scale k a).length = a.length := by simp [scale]

theorem addArr_length (a b : Arr) : (addArr a b).length = min a.length b.length := by
  simp [addArr]

theorem addArr_assoc (a b c : Arr) : addArr (addArr a b) c = addArr a (addArr b c) := by
  induction a generalizing b c with
  | nil => simp [addArr]
  | cons x xs ih =>
    cases b with
    | nil => simp [addArr]
    | cons y ys =>
      cases c with
      | nil => simp [addArr]
      | cons z zs =>
        have := ih ys zs
        simp only [addArr, List.zipWith_cons_cons] at this ⊢
        rw [this]; congr 1; grind

theorem addArr_comm (a b : Arr) : addArr a b = addArr b a := by
  induction a generalizing b with
  | nil => cases b <;> simp [addArr]
  | cons x xs ih =>
    cases b with
    | nil => simp [addArr]
    | cons y ys =>
      have := ih ys
      simp only [addArr, List.zipWith_cons_cons] at this ⊢
      rw [this]; congr 1; grind

theorem addArr_zeros_right {a : Arr} {n : Nat} (h : a.length ≤ n) : addArr a (zeros n) = a := by
  induction a generalizing n with
  | nil => simp [addArr]
  | cons x xs ih =>
    cases n with
    | zero => simp at h
    | succ m =>
      have := ih (n := m) (by simp at h; omega)
      simp only [addArr, zeros, List.replicate_succ, List.zipWith_cons_cons] at this ⊢
      rw [this]; congr 1; grind

theorem addArr_zeros_left {a : Arr} {n : Nat} (h : a.length ≤ n) : addArr (zeros n) a = a := by
  rw [addArr_comm]; exact addArr_zeros_right h

theorem addArr_all_zero {a b : Arr} (ha : ∀ x ∈ a, x = 0) (hl : a.length = b.length) : addArr a b = b := by
  induction a generalizing b with
  | nil => cases b <;> simp_all [addArr]
  | cons x xs ih =>
    cases b with
    | nil => simp at hl
    | cons y ys =>
      have hx : x = 0 := ha x (by simp)
      have := ih (b := ys) (fun z hz => ha z (by simp [hz])) (by simpa using hl)
      simp only [addArr, List.zipWith_cons_cons] at this ⊢
      rw [this, hx]; congr 1; grind

theorem foldl_addArr_shift (x y : Arr) (ws : List Arr) :
    ws.foldl addArr (addArr x y) = addArr x (ws.foldl addArr y) := by
  induction ws generalizing y with
  | nil => rfl
  | cons w ws ih => simp only [List.foldl_cons]; rw [addArr_assoc, ih]

theorem foldl_addArr_length_le (z : Arr) (ws : List Arr) : (ws.foldl addArr z).length ≤ z.length := by
  induction ws generalizing z with
  | nil => simp
  | cons w ws ih =>
    simp only [List.foldl_cons]
    have := ih (addArr z w); rw [addArr_length] at this; omega

theorem foldl_addArr_length {z : Arr} {ws : List Arr} (h : ∀ w ∈ ws, w.length = z.length) :
    (ws.foldl addArr z).length = z.length := by
  induction ws generalizing z with
  | nil => simp
  | cons w ws ih =>
    simp only [List.foldl_cons]
    have hw : w.length = z.length := h w (by simp)
    have hl : (addArr z w).length = z.length := by rw [addArr_length]; omega
    rw [ih (z := addArr z w) (fun u hu => by rw [hl]; exact h u (by simp [hu])), hl]

/-- the sum over the windows of two component lists is the pointwise sum of the two sums -/
theorem foldl_addArr_append (n : Nat) (ws1 ws2 : List Arr) :
    (ws1 ++ ws2).foldl addArr (zeros n) =
      addArr (ws1.foldl addArr (zeros n)) (ws2.foldl addArr (zeros n)) := by
  rw [List.foldl_append]
  have hle : (ws1.foldl addArr (zeros n)).length ≤ n := by
    have := foldl_addArr_length_le (zeros n) ws1; simpa using this
  conv => lhs; rw [← addArr_zeros_right hle]
  exact foldl_addArr_shift _ _ _

/-! ## evaluation of function-backed signals -/
theorem compVals_length {ts : Arr} {fn t0 fac : Rat} {buf filt w : Arr}
    (h : compVals ts fn t0 fac buf filt = some w) : w.length = ts.length := by
  unfold compVals at h
  split at h
  · rename_i ta tb rest
    simp only at h
    split at h
    · cases h
    · split at h
      · cases h
      · cases h
        simp only [List.length_take, List.length_drop, List.length_map, List.length_append,
          List.length_range, List.length_cons]
        omega
  · cases h

theorem compWindows_length {ts : Arr} :
    ∀ {fns t0s facs : Arr} {bufs filts ws : List Arr},
      compWindows ts fns t0s facs bufs filts = some ws → ∀ w ∈ ws, w.length = ts.length := by
  intro fns
  induction fns with
  | nil => intro t0s facs bufs filts ws h w hw; simp [compWindows] at h; subst h; simp at hw
  | cons fn fns ih =>
    intro t0s facs bufs filts ws h w hw
    cases t0s with
    | nil => simp [compWindows] at h; subst h; simp at hw
    | cons t0 t0s =>
    cases facs with
    | nil => simp [compWindows] at h; subst h; simp at hw
    | cons fac facs =>
    cases bufs with
    | nil => simp [compWindows] at h; subst h; simp at hw
    | cons buf bufs =>
    cases filts with
    | nil => simp [compWindows] at h; subst h; simp at hw
    | cons filt filts =>
      simp only [compWindows] at h
      split at h
      · rename_i w0 ws0 h1 h2
        cases h
        simp only [List.mem_cons] at hw
        rcases hw with rfl | hw
        · exact compVals_length h1
        · exact ih h2 w hw
      · cases h

theorem fnValues_length {d : FData} {vs : Arr} (h : fnValues d = some vs) : vs.length = d.ts.length := by
  unfold fnValues at h
  split at h
  · split at h
    · rename_i ws hws
      cases h
      rw [foldl_addArr_length]
      · simp
      · intro w hw; rw [compWindows_length hws w hw]; simp
    · cases h
  · cases h

/-! ## interp0 -/
theorem interp0_nil (fp : Arr) (x : Rat) : interp0 [] fp x = 0 := rfl

/-- left of the grid: 0 -/
theorem interp0_left {x0 : Rat} {xs fp : Arr} {x : Rat} (h : x < x0) : interp0 (x0 :: xs) fp x = 0 := by
  simp [interp0, h]

end Sig
