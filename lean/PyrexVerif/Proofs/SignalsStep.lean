import PyrexVerif.Proofs.SignalsOps
set_option linter.unusedSimpArgs false
set_option linter.unusedVariables false
/-! Every operation of the C04 model preserves the invariant; creating operations return fresh
objects. -/
namespace Sig

theorem binAdd_creates_or_same {st : St} (hinv : Inv st) (l r : Operand) :
    Creates st (binAdd st l r) ∨ (∃ k, binAdd st l r = (st, .obj k) ∧ l = .num 0 ∧ r = .obj k ∧ (st.objs k).isSome) := by
  cases l with
  | obj i =>
    cases r with
    | obj j =>
      left
      simp only [binAdd]
      cases hi : st.objs i with
      | none => exact Creates.err rfl
      | some a =>
        cases hj : st.objs j with
        | none => exact Creates.err rfl
        | some b =>
          simp only [raddObj, ite_self]
          exact addSig_creates (hinv.wf i a hi) (hinv.wf j b hj)
    | num q =>
      left
      simp only [binAdd]
      cases st.objs i <;> exact Creates.err rfl
  | num q =>
    cases r with
    | obj j =>
      simp only [binAdd]
      cases hj : st.objs j with
      | none => left; exact Creates.err rfl
      | some b =>
        simp only [raddNum]
        by_cases hq : q = 0
        · right; subst hq; exact ⟨j, by simp, rfl, rfl, by simp [hj]⟩
        · left; simp [hq]; exact Creates.err rfl
    | num _ => left; exact Creates.err rfl

theorem binAdd_inv {st : St} (hinv : Inv st) (l r : Operand) : Inv (binAdd st l r).1 := by
  rcases binAdd_creates_or_same hinv l r with h | ⟨k, h, _⟩
  · exact h.inv hinv
  · rw [h]; exact hinv

/-- facts about the identities of a function-backed object, from `reach.Nodup` -/
theorem fn_nodup_facts {s : Sig} {a b c d e : Nat} {bi fi : List Nat} (hb : s.body = .fn a b c d e bi fi)
    (hn : s.reach.Nodup) :
    a ∉ bi ∧ b ∉ bi ∧ d ∉ bi ∧ a ∉ fi ∧ b ∉ fi ∧ d ∉ fi ∧ s.times ∉ bi ∧ s.times ∉ fi ∧
    s.times ≠ a ∧ s.times ≠ b ∧ s.times ≠ d ∧ a ≠ b ∧ a ≠ d ∧ b ≠ d := by
  simp only [Sig.reach, hb] at hn
  simp only [List.nodup_cons, List.nodup_append, List.mem_cons, List.mem_append, List.cons_append,
    List.nil_append] at hn
  grind

theorem iscaleSig_inv {st : St} (hinv : Inv st) {k : Nat} {s : Sig} (hs : st.objs k = some s) (q : Rat) :
    Inv (iscaleSig st k s q).1 := by
  unfold iscaleSig
  have hwf := hinv.wf k s hs
  have hnd := hinv.nodup k s hs
  cases hb : s.body with
  | arr v =>
    simp only
    apply hinv.setCells (st.heap.set v (scale q (st.heap.cell v))) hs rfl
    · intro id hid
      apply set_cell_ne
      intro h; subst h; apply hid; simp [Sig.reach, hb]
    · have hne : s.times ≠ v := by
        simp only [Sig.reach, hb] at hnd; simp at hnd; exact hnd
      simp only [WF, hb] at hwf ⊢
      rw [set_cell_eq, set_cell_ne _ hne]
      refine ⟨by simpa using hwf.1, ?_⟩
      intro hc x hx
      simp only [scale, List.mem_map] at hx
      obtain ⟨y, hy, rfl⟩ := hx
      rw [hwf.2 hc y hy]; grind
  | fn a b c d e bi fi =>
    simp only
    have hlt := hinv.lt k s hs
    have facts := fn_nodup_facts hb hnd
    apply hinv.rebind [scale q (st.heap.cell d)] hs
    · intro id hid
      simp only [Sig.reach, hb] at hid ⊢
      simp only [List.mem_cons, List.mem_append, List.cons_append, List.nil_append, List.length_cons,
        List.length_nil] at hid ⊢
      grind
    · have hd : st.heap.next ∉ s.reach := fun hm => by have := hlt _ hm; omega
      simp only [Sig.reach, hb] at hnd hd ⊢
      simp only [List.nodup_cons, List.nodup_append, List.mem_cons, List.mem_append, List.cons_append,
        List.nil_append, not_or] at hnd hd ⊢
      grind
    · have la := hlt a (by simp [Sig.reach, hb])
      have lb := hlt b (by simp [Sig.reach, hb])
      have hnew := allocs_cell_new (h := st.heap) (cs := [scale q (st.heap.cell d)]) (k := 0) (by simp)
      simp only [WF, hb] at hwf ⊢
      rw [allocs_cell_old la, allocs_cell_old lb]
      simp only [Nat.add_zero] at hnew
      rw [hnew]
      simpa using hwf

theorem shift_inv {st : St} (hinv : Inv st) {k : Nat} {s : Sig} (hs : st.objs k = some s) (dq : Rat) :
    Inv (step st (.shift k dq)).1 := by
  simp only [step, hs]
  have hwf := hinv.wf k s hs
  have hnd := hinv.nodup k s hs
  -- first the in-place update of `times`
  have h1 : Inv { st with heap := st.heap.set s.times ((st.heap.cell s.times).map (· + dq)) } := by
    apply hinv.setCells (st.heap.set s.times ((st.heap.cell s.times).map (· + dq))) hs rfl
    · intro id hid
      apply set_cell_ne
      intro h; subst h; apply hid; simp [Sig.reach]
    · cases hb : s.body with
      | arr v =>
        have hne : v ≠ s.times := by
          simp only [Sig.reach, hb] at hnd; simp at hnd; exact fun h => hnd h.symm
        simp only [WF, hb] at hwf ⊢
        rw [set_cell_eq, set_cell_ne _ hne]
        exact ⟨by simpa using hwf.1, hwf.2⟩
      | fn a b c d e bi fi =>
        have facts := fn_nodup_facts hb hnd
        simp only [WF, hb] at hwf ⊢
        rw [set_cell_ne _ (Ne.symm facts.2.2.2.2.2.2.2.2.1), set_cell_ne _ (Ne.symm facts.2.2.2.2.2.2.2.2.2.1),
          set_cell_ne _ (Ne.symm facts.2.2.2.2.2.2.2.2.2.2.1)]
        exact hwf
  cases hb : s.body with
  | arr v => simpa using h1
  | fn a b c d e bi fi =>
    simp only
    have hs1 : ({ st with heap := st.heap.set s.times ((st.heap.cell s.times).map (· + dq)) } : St).objs k = some s := hs
    have hlt := h1.lt k s hs1
    have hwf1 := h1.wf k s hs1
    have := h1.rebind (s := { s with body := .fn a (st.heap.set s.times ((st.heap.cell s.times).map (· + dq))).next c d e bi fi })
      [((st.heap.set s.times ((st.heap.cell s.times).map (· + dq))).cell b).map (· + dq)] hs1 ?_ ?_ ?_
    · exact this
    · intro id hid
      simp only [Sig.reach, hb] at hid ⊢
      simp only [List.mem_cons, List.mem_append, List.cons_append, List.nil_append, List.length_cons,
        List.length_nil, set_next] at hid ⊢
      grind
    · have hd : st.heap.next ∉ s.reach := fun hm => by have := hlt _ hm; simp at this
      simp only [Sig.reach, hb] at hnd hd ⊢
      simp only [List.nodup_cons, List.nodup_append, List.mem_cons, List.mem_append, List.cons_append,
        List.nil_append, not_or, set_next] at hnd hd ⊢
      grind
    · have la := hlt a (by simp [Sig.reach, hb])
      have ld := hlt d (by simp [Sig.reach, hb])
      have hnew := allocs_cell_new (h := st.heap.set s.times ((st.heap.cell s.times).map (· + dq)))
        (cs := [((st.heap.set s.times ((st.heap.cell s.times).map (· + dq))).cell b).map (· + dq)]) (k := 0) (by simp)
      simp only [WF, hb] at hwf1 ⊢
      rw [allocs_cell_old la, allocs_cell_old ld]
      simp only [Nat.add_zero] at hnew
      rw [hnew]
      simpa using hwf1

theorem setAll_inv {st : St} (hinv : Inv st) {k : Nat} {s : Sig} (hs : st.objs k = some s)
    {a b c d e : Nat} {bi fi : List Nat} (hb : s.body = .fn a b c d e bi fi) (ids : List Nat) (f : Arr → Arr)
    (hids : ids = bi ∨ ids = fi) :
    Inv { st with heap := st.heap.setAll ids f } := by
  have hwf := hinv.wf k s hs
  have facts := fn_nodup_facts hb (hinv.nodup k s hs)
  apply hinv.setCells (st.heap.setAll ids f) hs rfl
  · intro id hid
    apply setAll_cell_not_mem
    intro hm; apply hid
    rcases hids with rfl | rfl <;> simp [Sig.reach, hb, hm]
  · simp only [WF, hb] at hwf ⊢
    have ha : a ∉ ids := by rcases hids with rfl | rfl <;> simp [facts]
    have hb' : b ∉ ids := by rcases hids with rfl | rfl <;> simp [facts]
    have hd : d ∉ ids := by rcases hids with rfl | rfl <;> simp [facts]
    rw [setAll_cell_not_mem ha, setAll_cell_not_mem hb', setAll_cell_not_mem hd]
    exact hwf

/-- every operation preserves the invariant -/
theorem step_inv {st : St} (hinv : Inv st) (op : Op) : Inv (step st op).1 := by
  cases op with
  | ext a => exact hinv.ext a
  | mk cls t v vt =>
    simp only [step]
    split
    · rename_i hc
      refine (Creates.mk (freshObj_allocEager _ _ _ (fit_length _ _) ?_)).inv hinv
      intro he; subst he; simp at hc
    · exact hinv
  | mkEmpty t vt =>
    simp only [step]
    split
    · exact (Creates.mk (freshObj_allocEager _ _ _ (by simp)
        (fun _ x hx => by simpa [zeros] using (List.eq_of_mem_replicate hx)))).inv hinv
    · exact hinv
  | mkFunc cls t fn vt =>
    simp only [step]
    split
    · exact (Creates.mk (freshObj_allocF _ _ _ (by simp) (by simp) (by simp) (by simp))).inv hinv
    · exact hinv
  | copy k =>
    simp only [step]
    cases hs : st.objs k with
    | none => exact hinv
    | some s => exact (Creates.mk (freshObj_copySig (hinv.wf k s hs))).inv hinv
  | add l r => exact binAdd_inv hinv l r
  | mul k q =>
    simp only [step]
    cases hs : st.objs k with
    | none => exact hinv
    | some s => exact (scaleSig_creates q (hinv.wf k s hs)).inv hinv
  | rmul q k =>
    simp only [step]
    cases hs : st.objs k with
    | none => exact hinv
    | some s => exact (scaleSig_creates q (hinv.wf k s hs)).inv hinv
  | div k q =>
    simp only [step]
    cases hs : st.objs k with
    | none => exact hinv
    | some s =>
      simp only
      split
      · split <;> exact hinv
      · exact (scaleSig_creates _ (hinv.wf k s hs)).inv hinv
  | imul k q =>
    simp only [step]
    cases hs : st.objs k with
    | none => exact hinv
    | some s => exact iscaleSig_inv hinv hs q
  | idiv k q =>
    simp only [step]
    cases hs : st.objs k with
    | none => exact hinv
    | some s =>
      simp only
      split
      · split <;> exact hinv
      · exact iscaleSig_inv hinv hs _
  | withTimes k t =>
    simp only [step]
    cases hs : st.objs k with
    | none => exact hinv
    | some s =>
      simp only
      split
      · exact (withTimesSig_creates t (hinv.wf k s hs)).inv hinv
      · exact hinv
  | shift k d =>
    cases hs : st.objs k with
    | none => simp only [step, hs]; exact hinv
    | some s => exact shift_inv hinv hs d
  | filter k c =>
    cases hs : st.objs k with
    | none => simp only [step, hs]; exact hinv
    | some s =>
      cases hb : s.body with
      | arr v => simp only [step, hs, hb]; split <;> exact hinv
      | fn a b c' d e bi fi =>
        simp only [step, hs, hb]
        exact setAll_inv hinv hs hb fi _ (Or.inr rfl)
  | setBuffers k lead trail force =>
    cases hs : st.objs k with
    | none => simp only [step, hs]; exact hinv
    | some s =>
      cases hb : s.body with
      | arr v => simp only [step, hs, hb]; exact hinv
      | fn a b c' d e bi fi =>
        simp only [step, hs, hb]
        split
        · exact hinv
        · split
          · exact setAll_inv hinv hs hb bi _ (Or.inl rfl)
          · exact setAll_inv hinv hs hb bi _ (Or.inl rfl)

theorem run_inv {st : St} (hinv : Inv st) (ops : List Op) : Inv (run st ops) := by
  induction ops generalizing st with
  | nil => exact hinv
  | cons o os ih => exact ih (step_inv hinv o)

end Sig
