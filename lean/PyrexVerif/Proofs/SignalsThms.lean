import PyrexVerif.Proofs.SignalsValues
import PyrexVerif.Proofs.SignalsInterp
set_option linter.unusedSimpArgs false
set_option linter.unusedVariables false
/-! Step-level consequences used by `Props/C04.lean`. -/
namespace Sig

/-- operations that return a new signal object when they succeed -/
def Op.creating : Op → Bool
  | .mk .. | .mkEmpty .. | .mkFunc .. | .copy _ | .mul .. | .rmul .. | .div .. | .withTimes .. => true
  | .add (.obj _) (.obj _) => true
  | _ => false

theorem step_creates {st : St} (hinv : Inv st) {op : Op} (hc : op.creating = true) :
    Creates st (step st op) := by
  cases op with
  | ext a => simp [Op.creating] at hc
  | mk cls t v vt =>
    simp only [step]
    split
    · rename_i hcond
      refine Creates.mk (freshObj_allocEager _ _ _ (fit_length _ _) ?_)
      intro he; subst he; simp at hcond
    · exact Creates.err rfl
  | mkEmpty t vt =>
    simp only [step]
    split
    · exact Creates.mk (freshObj_allocEager _ _ _ (by simp)
        (fun _ x hx => by simpa [zeros] using (List.eq_of_mem_replicate hx)))
    · exact Creates.err rfl
  | mkFunc cls t fn vt =>
    simp only [step]
    split
    · exact Creates.mk (freshObj_allocF _ _ _ (by simp) (by simp) (by simp) (by simp))
    · exact Creates.err rfl
  | copy k =>
    simp only [step]
    cases hs : st.objs k with
    | none => exact Creates.err rfl
    | some s => exact Creates.mk (freshObj_copySig (hinv.wf k s hs))
  | add l r =>
    cases l with
    | num q => simp [Op.creating] at hc
    | obj i =>
      cases r with
      | num q => simp [Op.creating] at hc
      | obj j =>
        rcases binAdd_creates_or_same hinv (.obj i) (.obj j) with h | ⟨k, _, h, _⟩
        · exact h
        · cases h
  | mul k q =>
    simp only [step]
    cases hs : st.objs k with
    | none => exact Creates.err rfl
    | some s => exact scaleSig_creates q (hinv.wf k s hs)
  | rmul q k =>
    simp only [step]
    cases hs : st.objs k with
    | none => exact Creates.err rfl
    | some s => exact scaleSig_creates q (hinv.wf k s hs)
  | div k q =>
    simp only [step]
    cases hs : st.objs k with
    | none => exact Creates.err rfl
    | some s =>
      simp only
      split
      · split <;> exact Creates.err rfl
      · exact scaleSig_creates _ (hinv.wf k s hs)
  | imul k q => simp [Op.creating] at hc
  | idiv k q => simp [Op.creating] at hc
  | withTimes k t =>
    simp only [step]
    cases hs : st.objs k with
    | none => exact Creates.err rfl
    | some s =>
      simp only
      split
      · exact withTimesSig_creates t (hinv.wf k s hs)
      · exact Creates.err rfl
  | shift k d => simp [Op.creating] at hc
  | filter k c => simp [Op.creating] at hc
  | setBuffers k l t f => simp [Op.creating] at hc

/-- what a successful creating operation guarantees -/
structure FreshResult (st st' : St) (k : Nat) : Prop where
  isNew : k = st.nobj
  count : st'.nobj = st.nobj + 1
  others : ∀ i, i ≠ k → st'.objs i = st.objs i
  cells : ∀ id, id < st.heap.next → st'.heap.cell id = st.heap.cell id
  exts : st'.exts = st.exts
  fresh : ∃ s, st'.objs k = some s ∧ ∀ id ∈ s.reach, st.heap.next ≤ id

theorem Creates.fresh {st st' : St} {k : Nat} (hc : Creates st (st', .obj k)) : FreshResult st st' k := by
  rcases hc with ⟨_, h2⟩ | ⟨p, ⟨cs, h1, h2, h3, h4⟩, heq⟩
  · simp [Reply.isErr] at h2
  · simp only [St.pushP, St.push, Prod.mk.injEq, Reply.obj.injEq] at heq
    obtain ⟨rfl, rfl⟩ := heq
    refine ⟨rfl, rfl, ?_, ?_, rfl, ⟨p.2, by simp, fun id hid => (h2 id hid).1⟩⟩
    · intro i hi; simp [hi]
    · intro id hid; simp only; rw [h1]; exact allocs_cell_old hid

/-! ## values of copies -/
theorem all_zero_eq_zeros {l : Arr} (h : ∀ x ∈ l, x = 0) : l = zeros l.length := by
  simp only [zeros]; exact List.eq_replicate_iff.2 ⟨rfl, h⟩

theorem valuesOf_copySig {h : Heap} {s : Sig} (hw : WF h s) :
    valuesOf (copySig h s).1 (copySig h s).2 = valuesOf h s := by
  unfold copySig
  cases hb : s.body with
  | arr v =>
    simp only [WF, hb] at hw
    simp only
    split
    · rename_i he
      rw [valuesOf_allocEager]
      have hcls : s.cls = .empty := by
        simp only [Sig.isEmpty, Bool.and_eq_true, beq_iff_eq] at he; exact he.1
      simp only [valuesOf, hb]
      rw [← hw.1]; congr 1; exact (all_zero_eq_zeros (hw.2 hcls)).symm
    · rw [valuesOf_allocEager, fit_of_length hw.1]; simp [valuesOf, hb]
  | fn a b c d e bi fi =>
    simp only
    rw [valuesOf_allocF]; simp [valuesOf, hb]

theorem times_copySig (h : Heap) (s : Sig) :
    (copySig h s).1.cell (copySig h s).2.times = h.cell s.times := by
  unfold copySig
  cases hb : s.body with
  | arr v => simp only; split <;> exact times_allocEager _ _ _ _ _
  | fn a b c d e bi fi => simp only; rw [times_allocF]; simp [readF, hb]

theorem vt_copySig (h : Heap) (s : Sig) : (copySig h s).2.vt = s.vt := by
  unfold copySig
  cases hb : s.body with
  | arr v => simp only; split <;> rfl
  | fn a b c d e bi fi => rfl

/-- class of `x.copy()` -/
def copyCls (s : Sig) : Cls := if s.isFunc then .func else if s.isEmpty then .empty else .signal

theorem cls_copySig (h : Heap) (s : Sig) : (copySig h s).2.cls = copyCls s := by
  unfold copySig copyCls
  cases hb : s.body with
  | arr v => simp only [Sig.isFunc, hb]; split <;> simp_all [allocEager]
  | fn a b c d e bi fi => simp [Sig.isFunc, hb, allocF]

/-- class of `a + b` -/
def addCls (a b : Sig) : Cls :=
  if a.isFunc then (if b.isFunc || b.isEmpty then .func else .signal)
  else if a.isEmpty then copyCls b else .signal

/-- the complete description of a successful `a.__add__(b)` -/
theorem addSig_spec {st : St} {a b : Sig} {vt : VT} {va vb : Arr} (ha : WF st.heap a) (hb : WF st.heap b)
    (ht : st.heap.cell a.times = st.heap.cell b.times) (hvt : coerce a.vt b.vt = some vt)
    (hva : valuesOf st.heap a = some va) (hvb : valuesOf st.heap b = some vb) :
    ∃ p, FreshObj st.heap p ∧ addSig st a b = st.pushP p ∧ valuesOf p.1 p.2 = some (addArr va vb) ∧
      p.2.vt = vt ∧ p.1.cell p.2.times = st.heap.cell a.times ∧ p.2.cls = addCls a b := by
  have la := valuesOf_length ha hva
  have lb := valuesOf_length hb hvb
  have hlen : va.length = vb.length := by rw [la, lb, ht]
  have hne : ¬ (st.heap.cell a.times ≠ st.heap.cell b.times) := by simp [ht]
  unfold addSig addCls
  simp only [if_neg hne, hvt]
  by_cases haf : a.isFunc = true
  · simp only [haf, if_true]
    by_cases hbf : b.isFunc = true
    · simp only [hbf, if_true, Bool.true_or]
      obtain ⟨a1, a2, a3, a4⟩ := readF_lengths ha haf
      obtain ⟨b1, b2, b3, b4⟩ := readF_lengths hb hbf
      refine ⟨_, ?_, rfl, ?_, rfl, ?_, rfl⟩
      · apply freshObj_allocF <;> simp [FData.append, *]
      · rw [valuesOf_allocF]
        have hva' : fnValues (readF st.heap a) = some va := by
          cases hba : a.body with
          | arr v => simp [Sig.isFunc, hba] at haf
          | fn => simpa [valuesOf, hba] using hva
        have hvb' : fnValues (readF st.heap b) = some vb := by
          cases hbb : b.body with
          | arr v => simp [Sig.isFunc, hbb] at hbf
          | fn => simpa [valuesOf, hbb] using hvb
        have hts : (readF st.heap a).ts = (readF st.heap b).ts := by
          cases hba : a.body <;> cases hbb : b.body <;> simp [readF, hba, hbb, ht]
        exact fnValues_append hts (by omega) (by omega) (by omega) (by omega) hva' hvb'
      · rw [times_allocF]
        cases hba : a.body <;> simp [FData.append, readF, hba]
    · simp only [hbf, Bool.false_eq_true, if_false, Bool.false_or]
      by_cases hbe : b.isEmpty = true
      · simp only [hbe, if_true]
        refine ⟨_, (freshObj_copySig ha).vt vt, rfl, ?_, rfl, ?_, ?_⟩
        · show valuesOf (copySig st.heap a).1 { (copySig st.heap a).2 with vt := vt } = _
          have := valuesOf_copySig ha
          have e : valuesOf (copySig st.heap a).1 { (copySig st.heap a).2 with vt := vt }
              = valuesOf (copySig st.heap a).1 (copySig st.heap a).2 := rfl
          rw [e, this, hva]
          congr 1
          have hz : ∀ x ∈ vb, x = 0 := by
            cases hbb : b.body with
            | fn => simp [Sig.isFunc, hbb] at hbf
            | arr v =>
              simp only [WF, hbb] at hb
              simp only [valuesOf, hbb, Option.some.injEq] at hvb
              subst hvb
              apply hb.2
              simp only [Sig.isEmpty, Bool.and_eq_true, beq_iff_eq] at hbe; exact hbe.1
          rw [addArr_comm, addArr_all_zero hz hlen.symm]
        · show (copySig st.heap a).1.cell (copySig st.heap a).2.times = _
          exact times_copySig _ _
        · show (copySig st.heap a).2.cls = _
          rw [cls_copySig]; simp [copyCls, haf]
      · simp only [hbe, Bool.false_eq_true, if_false, hva, hvb]
        refine ⟨_, freshObj_allocEager _ _ _ (fit_length _ _) (fun hc => by cases hc), rfl, ?_, rfl, ?_, rfl⟩
        · rw [valuesOf_allocEager, fit_of_length]
          rw [addArr_length, ← hlen, Nat.min_self, la]
        · exact times_allocEager _ _ _ _ _
  · simp only [haf, Bool.false_eq_true, if_false]
    by_cases hae : a.isEmpty = true
    · simp only [hae, if_true]
      refine ⟨_, (freshObj_copySig hb).vt vt, rfl, ?_, rfl, ?_, ?_⟩
      · show valuesOf (copySig st.heap b).1 { (copySig st.heap b).2 with vt := vt } = _
        have := valuesOf_copySig hb
        have e : valuesOf (copySig st.heap b).1 { (copySig st.heap b).2 with vt := vt }
            = valuesOf (copySig st.heap b).1 (copySig st.heap b).2 := rfl
        rw [e, this, hvb]
        congr 1
        have hz : ∀ x ∈ va, x = 0 := by
          cases hba : a.body with
          | fn => simp [Sig.isFunc, hba] at haf
          | arr v =>
            simp only [WF, hba] at ha
            simp only [valuesOf, hba, Option.some.injEq] at hva
            subst hva
            apply ha.2
            simp only [Sig.isEmpty, Bool.and_eq_true, beq_iff_eq] at hae; exact hae.1
        rw [addArr_all_zero hz hlen]
      · show (copySig st.heap b).1.cell (copySig st.heap b).2.times = _
        rw [ht]; exact times_copySig _ _
      · show (copySig st.heap b).2.cls = _
        rw [cls_copySig]
    · simp only [hae, Bool.false_eq_true, if_false, hva, hvb]
      refine ⟨_, freshObj_allocEager _ _ _ (fit_length _ _) (fun hc => by cases hc), rfl, ?_, rfl, ?_, rfl⟩
      · rw [valuesOf_allocEager, fit_of_length]
        rw [addArr_length, ← hlen, Nat.min_self, la]
      · exact times_allocEager _ _ _ _ _

/-- refusals of `a.__add__(b)`: nothing is allocated -/
theorem addSig_refuses_times {st : St} {a b : Sig} (ht : st.heap.cell a.times ≠ st.heap.cell b.times) :
    addSig st a b = (st, .errTimes) := by
  unfold addSig; simp [ht]

theorem addSig_refuses_types {st : St} {a b : Sig} (ht : st.heap.cell a.times = st.heap.cell b.times)
    (hvt : coerce a.vt b.vt = none) : addSig st a b = (st, .errTypes) := by
  unfold addSig; simp [ht, hvt]

/-- the complete description of `x * q` -/
theorem scaleSig_spec {st : St} {s : Sig} {vs : Arr} (q : Rat) (hw : WF st.heap s)
    (hv : valuesOf st.heap s = some vs) :
    ∃ p, FreshObj st.heap p ∧ scaleSig st s q = st.pushP p ∧ valuesOf p.1 p.2 = some (scale q vs) ∧
      p.2.vt = s.vt ∧ p.1.cell p.2.times = st.heap.cell s.times := by
  unfold scaleSig
  cases hb : s.body with
  | arr v =>
    simp only
    have hvs : vs = st.heap.cell v := by simpa [valuesOf, hb] using hv.symm
    refine ⟨_, freshObj_allocEager _ _ _ (fit_length _ _) (fun hc => by cases hc), rfl, ?_, rfl,
      times_allocEager _ _ _ _ _⟩
    rw [valuesOf_allocEager, fit_of_length, hvs]
    simp only [WF, hb] at hw
    simpa using hw.1
  | fn a b c d e bi fi =>
    simp only
    have hf : s.isFunc = true := by simp [Sig.isFunc, hb]
    obtain ⟨h1, h2, h3, h4⟩ := readF_lengths hw hf
    have hv' : fnValues (readF st.heap s) = some vs := by simpa [valuesOf, hb] using hv
    refine ⟨_, ?_, rfl, ?_, rfl, ?_⟩
    · apply freshObj_allocF <;> simp [*]
    · rw [valuesOf_allocF]; exact fnValues_scale q hv'
    · rw [times_allocF]; simp [readF, hb]

/-! ## direct evaluation of function-backed signals -/
/-- the components evaluated directly on `ts`; the buffer list only contributes its length -/
def directWindows (ts : Arr) : Arr → Arr → Arr → List Arr → List Arr → List Arr
  | fn :: fns, t0 :: t0s, fac :: facs, _ :: bufs, filt :: filts =>
      compDirect ts fn t0 fac filt :: directWindows ts fns t0s facs bufs filts
  | _, _, _, _, _ => []

/-- Σ over the components of `factor · gains · f(t − t0)` on the signal's own times -/
def directValues (d : FData) : Arr :=
  (directWindows d.ts d.fns d.t0s d.facs d.bufs d.filts).foldl addArr (zeros d.ts.length)

theorem compWindows_direct {ts : Arr} :
    ∀ {fns t0s facs : Arr} {bufs filts ws : List Arr},
      compWindows ts fns t0s facs bufs filts = some ws → ws = directWindows ts fns t0s facs bufs filts := by
  intro fns
  induction fns with
  | nil => intro t0s facs bufs filts ws h; simp [compWindows] at h; subst h; simp [directWindows]
  | cons fn fns ih =>
    intro t0s facs bufs filts ws h
    cases t0s with
    | nil => simp [compWindows] at h; subst h; simp [directWindows]
    | cons t0 t0s =>
    cases facs with
    | nil => simp [compWindows] at h; subst h; simp [directWindows]
    | cons fac facs =>
    cases bufs with
    | nil => simp [compWindows] at h; subst h; simp [directWindows]
    | cons buf bufs =>
    cases filts with
    | nil => simp [compWindows] at h; subst h; simp [directWindows]
    | cons filt filts =>
      simp only [compWindows] at h
      split at h
      · rename_i w0 ws0 h1 h2
        cases h
        simp only [directWindows]
        rw [compVals_direct h1, ih h2]
      · cases h

theorem fnValues_direct {d : FData} {vs : Arr} (h : fnValues d = some vs) : vs = directValues d := by
  unfold fnValues at h
  split at h
  · split at h
    · rename_i ws hws
      cases h
      rw [compWindows_direct hws]; rfl
    · cases h
  · cases h

theorem directWindows_bufs (ts : Arr) :
    ∀ (fns t0s facs : Arr) (bufs bufs' filts : List Arr), bufs.length = bufs'.length →
      directWindows ts fns t0s facs bufs filts = directWindows ts fns t0s facs bufs' filts := by
  intro fns
  induction fns with
  | nil => intro t0s facs bufs bufs' filts _; simp [directWindows]
  | cons fn fns ih =>
    intro t0s facs bufs bufs' filts hl
    cases t0s with
    | nil => simp [directWindows]
    | cons t0 t0s =>
    cases facs with
    | nil => simp [directWindows]
    | cons fac facs =>
    cases bufs with
    | nil => cases bufs' with
      | nil => rfl
      | cons _ _ => simp at hl
    | cons buf bufs =>
    cases bufs' with
    | nil => simp at hl
    | cons buf' bufs' =>
    cases filts with
    | nil => simp [directWindows]
    | cons filt filts =>
      simp only [directWindows]
      rw [ih t0s facs bufs bufs' filts (by simpa using hl)]

/-- `FunctionSignal.with_times`: the result holds the same components on the new times (only the
buffers may have grown) -/
theorem withTimesSig_fn_spec {st : St} {s : Sig} {t : Nat} {a b c d e : Nat} {bi fi : List Nat}
    (hw : WF st.heap s) (hb : s.body = .fn a b c d e bi fi)
    (h1 : st.heap.cell t ≠ []) (h2 : st.heap.cell s.times ≠ []) :
    ∃ p bufs', FreshObj st.heap p ∧ withTimesSig st s t = st.pushP p ∧ bufs'.length = (readF st.heap s).bufs.length ∧
      readF p.1 p.2 = { readF st.heap s with ts := st.heap.cell t, bufs := bufs' } ∧
      p.2.vt = s.vt ∧ p.2.cls = .func ∧ p.1.cell p.2.times = st.heap.cell t ∧ p.2.isFunc = true := by
  have hf : s.isFunc = true := by simp [Sig.isFunc, hb]
  obtain ⟨l1, l2, l3, l4⟩ := readF_lengths hw hf
  unfold withTimesSig
  simp only [hb]
  have hts : (readF st.heap s).ts = st.heap.cell s.times := by simp [readF, hb]
  cases hnt : st.heap.cell t with
  | nil => exact absurd hnt h1
  | cons n0 nrest =>
    cases hot : (readF st.heap s).ts with
    | nil => rw [hts] at hot; exact absurd hot h2
    | cons o0 orest =>
      have hb' : s.body = .fn a b c d e bi fi := hb
      simp only [← hb', hot]
      refine ⟨_, _, ?_, rfl, ?_, readF_allocF _ _ _ _, rfl, rfl, times_allocF _ _ _ _, rfl⟩
      · apply freshObj_allocF
        all_goals (simp only []; split <;> simp [*])
      · split <;> simp

/-- `Signal.with_times` of a sampled signal -/
theorem withTimesSig_arr_spec {st : St} {s : Sig} {t v : Nat}
    (hb : s.body = .arr v) (he : s.isEmpty = false)
    (h : st.heap.cell s.times ≠ [] ∨ st.heap.cell t = []) :
    ∃ p, FreshObj st.heap p ∧ withTimesSig st s t = st.pushP p ∧
      valuesOf p.1 p.2 = some ((st.heap.cell t).map (interp0 (st.heap.cell s.times) (st.heap.cell v))) ∧
      p.2.vt = s.vt ∧ p.2.cls = .signal ∧ p.1.cell p.2.times = st.heap.cell t := by
  unfold withTimesSig
  simp only [hb, he, Bool.false_eq_true, if_false]
  split
  · rename_i h1 h2
    rcases h with h | h
    · exact absurd h1 h
    · rw [h] at h2; cases h2
  · refine ⟨_, freshObj_allocEager _ _ _ (fit_length _ _) (fun hc => by cases hc), rfl, ?_, rfl, rfl,
      times_allocEager _ _ _ _ _⟩
    rw [valuesOf_allocEager, fit_of_length (by simp)]

theorem withTimesSig_empty_spec {st : St} {s : Sig} {t v : Nat} (hb : s.body = .arr v) (he : s.isEmpty = true) :
    ∃ p, FreshObj st.heap p ∧ withTimesSig st s t = st.pushP p ∧
      valuesOf p.1 p.2 = some (zeros (st.heap.cell t).length) ∧
      p.2.vt = s.vt ∧ p.2.cls = .empty ∧ p.1.cell p.2.times = st.heap.cell t := by
  unfold withTimesSig
  simp only [hb, he, if_true]
  exact ⟨_, freshObj_allocEager _ _ _ (by simp)
    (fun _ x hx => by simpa [zeros] using (List.eq_of_mem_replicate hx)), rfl, valuesOf_allocEager _ _ _ _ _,
    rfl, rfl, times_allocEager _ _ _ _ _⟩

/-- shifting the times and every time offset by the same amount leaves a component unchanged -/
theorem compDirect_shift (ts : Arr) (fn t0 fac : Rat) (filt : Arr) (δ : Rat) :
    compDirect (ts.map (· + δ)) fn (t0 + δ) fac filt = compDirect ts fn t0 fac filt := by
  simp only [compDirect, List.map_map]
  apply List.map_congr_left
  intro t _
  simp only [Function.comp]
  have : t + δ - (t0 + δ) = t - t0 := by grind
  rw [this]

theorem directWindows_shift (ts : Arr) (δ : Rat) :
    ∀ (fns t0s facs : Arr) (bufs filts : List Arr),
      directWindows (ts.map (· + δ)) fns (t0s.map (· + δ)) facs bufs filts = directWindows ts fns t0s facs bufs filts := by
  intro fns
  induction fns with
  | nil => intro t0s facs bufs filts; simp [directWindows]
  | cons fn fns ih =>
    intro t0s facs bufs filts
    cases t0s with
    | nil => simp [directWindows]
    | cons t0 t0s =>
    cases facs with
    | nil => simp [directWindows]
    | cons fac facs =>
    cases bufs with
    | nil => simp [directWindows]
    | cons buf bufs =>
    cases filts with
    | nil => simp [directWindows]
    | cons filt filts =>
      simp only [List.map_cons, directWindows]
      rw [compDirect_shift, ih]

/-- `shift`: the direct values do not change (the signal moves with its grid) -/
theorem directValues_shift (d : FData) (δ : Rat) :
    directValues { d with ts := d.ts.map (· + δ), t0s := d.t0s.map (· + δ) } = directValues d := by
  simp only [directValues, List.length_map]
  rw [directWindows_shift]

theorem binAdd_obj_obj {st : St} {i j : Nat} {a b : Sig} (hi : st.objs i = some a) (hj : st.objs j = some b) :
    binAdd st (.obj i) (.obj j) = addSig st a b := by
  simp [binAdd, hi, hj, raddObj]

/-- pushing a fresh object: what the new state looks like -/
theorem pushP_view (st : St) (p : Heap × Sig) :
    (st.pushP p).2 = .obj st.nobj ∧ (st.pushP p).1.objs st.nobj = some p.2 ∧ (st.pushP p).1.heap = p.1 := by
  simp [St.pushP, St.push]

end Sig
