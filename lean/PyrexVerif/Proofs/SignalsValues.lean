import PyrexVerif.Proofs.SignalsStep
set_option linter.unusedSimpArgs false
set_option linter.unusedVariables false
/-! Values of function-backed signals: direct form (buffers are irrelevant for scalar-gain filters),
additivity over component lists, homogeneity in the factors. -/
namespace Sig

theorem valuesOf_length {h : Heap} {s : Sig} {vs : Arr} (hw : WF h s) (hv : valuesOf h s = some vs) :
    vs.length = (h.cell s.times).length := by
  unfold valuesOf at hv; unfold WF at hw
  cases hb : s.body with
  | arr v => rw [hb] at hv hw; simp at hv; rw [← hv]; exact hw.1
  | fn a b c d e bi fi =>
    rw [hb] at hv; simp only at hv
    have := fnValues_length hv
    simpa [readF, hb] using this

/-- one component, evaluated directly on the signal's own times -/
def compDirect (ts : Arr) (fn t0 fac : Rat) (filt : Arr) : Arr :=
  ts.map (fun t => fnEval (code fn) (t - t0) * fac * gainProd filt)

/-- the window of the buffer-extended evaluation is the direct evaluation on `times`:
buffers only matter with frequency-dependent filters -/
theorem compVals_direct {ts : Arr} {fn t0 fac : Rat} {buf filt w : Arr}
    (h : compVals ts fn t0 fac buf filt = some w) : w = compDirect ts fn t0 fac filt := by
  unfold compVals at h
  split at h
  · rename_i ta tb rest
    simp only at h
    split at h
    · cases h
    · split at h
      · cases h
      · cases h
        simp only [List.map_append, List.map_map, compDirect]
        rw [List.drop_append_of_le_length (by simp), List.drop_append_of_le_length (by simp)]
        simp only [List.length_map, List.length_range, List.drop_length, List.nil_append, List.drop_of_length_le,
          Nat.le_refl]
        rw [List.take_append_of_le_length (by simp)]
        simp only [List.length_cons, List.length_map, List.take_length]
        rw [List.take_of_length_le (by simp)]
        apply List.map_congr_left
        intro t _
        simp [Function.comp]
  · cases h

theorem compVals_scale {ts : Arr} {fn t0 fac : Rat} {buf filt w : Arr} (q : Rat)
    (h : compVals ts fn t0 fac buf filt = some w) :
    compVals ts fn t0 (fac * q) buf filt = some (scale q w) := by
  have hw := compVals_direct h
  unfold compVals at h ⊢
  split at h
  · rename_i ta tb rest
    simp only at h ⊢
    split at h
    · cases h
    · rename_i hdt
      rw [if_neg hdt]
      split at h
      · cases h
      · rename_i hneg
        rw [if_neg hneg]
        cases h
        congr 1
        simp only [scale, List.map_take, List.map_drop]
        congr 2
        simp only [List.map_map]
        apply List.map_congr_left
        intro t _
        simp only [Function.comp]
        grind
  · cases h

theorem scale_cons (q x : Rat) (xs : Arr) : scale q (x :: xs) = x * q :: scale q xs := rfl

theorem compWindows_append {ts : Arr} :
    ∀ {f1 t1 c1 : Arr} {b1 l1 : List Arr} (f2 t2 c2 : Arr) (b2 l2 : List Arr),
      t1.length = f1.length → c1.length = f1.length → b1.length = f1.length → l1.length = f1.length →
      compWindows ts (f1 ++ f2) (t1 ++ t2) (c1 ++ c2) (b1 ++ b2) (l1 ++ l2) =
        match compWindows ts f1 t1 c1 b1 l1, compWindows ts f2 t2 c2 b2 l2 with
        | some w1, some w2 => some (w1 ++ w2)
        | _, _ => none := by
  intro f1
  induction f1 with
  | nil =>
    intro t1 c1 b1 l1 f2 t2 c2 b2 l2 h1 h2 h3 h4
    simp at h1 h2 h3 h4; subst h1 h2 h3 h4
    simp only [List.nil_append, compWindows]
    cases compWindows ts f2 t2 c2 b2 l2 <;> rfl
  | cons fn f1 ih =>
    intro t1 c1 b1 l1 f2 t2 c2 b2 l2 h1 h2 h3 h4
    cases t1 with
    | nil => simp at h1
    | cons t0 t1 =>
    cases c1 with
    | nil => simp at h2
    | cons fac c1 =>
    cases b1 with
    | nil => simp at h3
    | cons buf b1 =>
    cases l1 with
    | nil => simp at h4
    | cons filt l1 =>
      simp only [List.cons_append, compWindows]
      rw [ih f2 t2 c2 b2 l2 (by simpa using h1) (by simpa using h2) (by simpa using h3) (by simpa using h4)]
      cases compVals ts fn t0 fac buf filt <;> cases compWindows ts f1 t1 c1 b1 l1 <;>
        cases compWindows ts f2 t2 c2 b2 l2 <;> rfl

theorem compWindows_scale {ts : Arr} (q : Rat) :
    ∀ {fns t0s facs : Arr} {bufs filts ws : List Arr},
      compWindows ts fns t0s facs bufs filts = some ws →
      compWindows ts fns t0s (scale q facs) bufs filts = some (ws.map (scale q)) := by
  intro fns
  induction fns with
  | nil => intro t0s facs bufs filts ws h; simp [compWindows] at h ⊢; subst h; rfl
  | cons fn fns ih =>
    intro t0s facs bufs filts ws h
    cases t0s with
    | nil => simp [compWindows] at h ⊢; subst h; rfl
    | cons t0 t0s =>
    cases facs with
    | nil => simp [compWindows, scale] at h ⊢; subst h; rfl
    | cons fac facs =>
    cases bufs with
    | nil => simp [compWindows, scale] at h ⊢; subst h; rfl
    | cons buf bufs =>
    cases filts with
    | nil => simp [compWindows, scale] at h ⊢; subst h; rfl
    | cons filt filts =>
      simp only [compWindows] at h
      split at h
      · rename_i w0 ws0 h1 h2
        cases h
        have e1 := compVals_scale q h1
        have e2 := ih h2
        rw [scale_cons]
        simp only [compWindows, e1, e2, List.map_cons]
      · cases h

theorem scale_addArr (q : Rat) (a b : Arr) : scale q (addArr a b) = addArr (scale q a) (scale q b) := by
  induction a generalizing b with
  | nil => simp [addArr, scale]
  | cons x xs ih =>
    cases b with
    | nil => simp [addArr, scale]
    | cons y ys =>
      have := ih ys
      simp only [addArr, scale, List.zipWith_cons_cons, List.map_cons] at this ⊢
      rw [this]; congr 1; grind

theorem scale_zeros (q : Rat) (n : Nat) : scale q (zeros n) = zeros n := by
  simp only [scale, zeros, List.map_replicate]; congr 1; grind

theorem foldl_addArr_scale (q : Rat) (z : Arr) (ws : List Arr) :
    (ws.map (scale q)).foldl addArr (scale q z) = scale q (ws.foldl addArr z) := by
  induction ws generalizing z with
  | nil => rfl
  | cons w ws ih => simp only [List.map_cons, List.foldl_cons]; rw [← scale_addArr, ih]

/-- `values` is homogeneous in the factors -/
theorem fnValues_scale {d : FData} {vs : Arr} (q : Rat) (h : fnValues d = some vs) :
    fnValues { d with facs := scale q d.facs } = some (scale q vs) := by
  obtain ⟨ts, fns, t0s, facs, bufs, filts⟩ := d
  cases ts with
  | nil => simp [fnValues] at h
  | cons x ts =>
  cases ts with
  | nil => simp [fnValues] at h
  | cons y r =>
    simp only [fnValues] at h ⊢
    split at h
    · rename_i ws hws
      cases h
      rw [compWindows_scale q hws]
      simp only
      rw [← foldl_addArr_scale, scale_zeros]
    · cases h

/-- `values` of the concatenated component lists is the pointwise sum -/
theorem fnValues_append {d e : FData} {va vb : Arr} (hts : d.ts = e.ts)
    (h1 : d.t0s.length = d.fns.length) (h2 : d.facs.length = d.fns.length)
    (h3 : d.bufs.length = d.fns.length) (h4 : d.filts.length = d.fns.length)
    (ha : fnValues d = some va) (hb : fnValues e = some vb) :
    fnValues (d.append e) = some (addArr va vb) := by
  obtain ⟨ts, fns, t0s, facs, bufs, filts⟩ := d
  obtain ⟨ts', fns', t0s', facs', bufs', filts'⟩ := e
  simp only at hts h1 h2 h3 h4
  subst hts
  cases ts with
  | nil => simp [fnValues] at ha
  | cons x ts =>
  cases ts with
  | nil => simp [fnValues] at ha
  | cons y r =>
    simp only [fnValues, FData.append] at ha hb ⊢
    split at ha
    · rename_i w1 hw1
      cases ha
      split at hb
      · rename_i w2 hw2
        cases hb
        rw [compWindows_append _ _ _ _ _ h1 h2 h3 h4, hw1, hw2]
        simp only
        rw [foldl_addArr_append]
      · cases hb
    · cases ha

end Sig
