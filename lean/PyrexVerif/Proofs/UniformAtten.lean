import PyrexVerif.R.Uniform
import PyrexVerif.Proofs.UniformImage
import Mathlib.Tactic.Linarith
import Mathlib.Tactic.FieldSimp
import Mathlib.Tactic.Ring
/-! Reciprocity defect of the left Riemann sum used for the attenuation of straight segments. -/
open PyrexR PyrexR.Geo PyrexR.Uni

namespace PyrexProofs

theorem sum_range_succ_map (f : ℕ → ℝ) (n : ℕ) :
    ((List.range (n + 1)).map f).sum = ((List.range n).map f).sum + f n := by
  rw [List.range_succ, List.map_append, List.sum_append]; simp

theorem sum_telescope (a : ℕ → ℝ) : ∀ n : ℕ,
    ((List.range n).map a).sum - ((List.range n).map (fun k => a (k + 1))).sum = a 0 - a n := by
  intro n
  induction n with
  | zero => simp
  | succ n ih => rw [sum_range_succ_map, sum_range_succ_map]; linarith

theorem sum_reflect (a : ℕ → ℝ) : ∀ n : ℕ,
    ((List.range n).map (fun k => a (n - k))).sum = ((List.range n).map (fun k => a (k + 1))).sum := by
  intro n
  induction n with
  | zero => simp
  | succ n ih =>
    rw [sum_range_succ_map (fun k => a (k + 1)), List.range_succ_eq_map, List.map_cons, List.map_map,
      List.sum_cons]
    have : ((fun k => a (n + 1 - k)) ∘ Nat.succ) = fun k => a (n - k) := by
      funext k; simp [Nat.succ_sub_succ]
    rw [this, ih]; simp; ring

/-- forward minus backward exponent of one segment: exactly `step × (1/L(z_start) − 1/L(z_end))` -/
theorem attenExpSeg_swap (invL : ℝ → ℝ) (z1 z2 len : ℝ) (n : ℕ) (hn : 0 < n) :
    attenExpSeg invL z1 z2 len n - attenExpSeg invL z2 z1 len n = len / n * (invL z1 - invL z2) := by
  by_cases h : z1 = z2
  · subst h; simp [attenExpSeg, eqR]
  · have e1 : ¬ eqR z1 z2 := fun hh => h (le_antisymm hh.1 hh.2)
    have e2 : ¬ eqR z2 z1 := fun hh => h (le_antisymm hh.2 hh.1)
    have hn' : (n : ℝ) ≠ 0 := by exact_mod_cast (Nat.pos_iff_ne_zero.mp hn)
    simp only [attenExpSeg, e1, e2, if_false, attenNodes, listSum_eq_sum, List.map_map, RofNat]
    set a : ℕ → ℝ := fun j => len / n * invL (z1 + j * ((z2 - z1) / n)) with ha
    have hf : ((fun z => len / (n : ℝ) * invL z) ∘ fun k : ℕ => z1 + (k : ℝ) * ((z2 - z1) / n)) = a := rfl
    have hb : ∀ k ∈ List.range n,
        ((fun z => len / (n : ℝ) * invL z) ∘ fun k : ℕ => z2 + (k : ℝ) * ((z1 - z2) / n)) k = a (n - k) := by
      intro k hk
      have hk' : k ≤ n := le_of_lt (List.mem_range.mp hk)
      simp only [Function.comp, ha]
      congr 2
      rw [Nat.cast_sub hk']
      field_simp; ring
    rw [hf, List.map_congr_left hb, sum_reflect a n, sum_telescope a n]
    simp only [ha, Nat.cast_zero, zero_mul, add_zero]
    have : z1 + (n : ℝ) * ((z2 - z1) / n) = z2 := by field_simp; ring
    rw [this]; ring

theorem rev_sum (invL : ℝ → ℝ) (segs : List Seg) :
    attenExpPath invL (revPath segs) = ((segs.map Seg.rev).map
      (fun s => attenExpSeg invL s.z1 s.z2 s.len s.n)).sum := by
  simp only [attenExpPath, revPath, listSum_eq_sum, List.map_reverse, List.sum_reverse]

/-- whole path: forward minus backward exponent = Σ stepᵢ (1/L(start of i) − 1/L(end of i)) -/
theorem attenExpPath_swap (invL : ℝ → ℝ) (segs : List Seg) (hn : ∀ s ∈ segs, 0 < s.n) :
    attenExpPath invL segs - attenExpPath invL (revPath segs) =
      (segs.map (fun s => s.len / s.n * (invL s.z1 - invL s.z2))).sum := by
  rw [rev_sum]
  simp only [attenExpPath, listSum_eq_sum]
  induction segs with
  | nil => simp
  | cons s rest ih =>
    have h1 := attenExpSeg_swap invL s.z1 s.z2 s.len s.n (hn s (by simp))
    have ih' := ih (fun t ht => hn t (by simp [ht]))
    simp only [List.map_cons, List.sum_cons, Seg.rev] at ih' ⊢
    linarith

theorem abs_sum_le (l : List ℝ) : |l.sum| ≤ (l.map (fun x => |x|)).sum := by
  induction l with
  | nil => simp
  | cons x xs ih =>
    simp only [List.sum_cons, List.map_cons]
    exact le_trans (abs_add_le _ _) (by linarith)

end PyrexProofs
