import PyrexVerif.R.Uniform
import PyrexVerif.Proofs.RayGeom
import Mathlib.Tactic.LinearCombination
import Mathlib.Tactic.Linarith
import Mathlib.Tactic.Ring
import Mathlib.Tactic.FieldSimp
/-! Helper lemmas about the uniform-ice image construction (`uMid`, `uPointsDir`, `uniformSolutions`). -/
open PyrexR PyrexR.Geo PyrexR.Uni

namespace PyrexProofs

theorem rho_shift (tx ty : ℝ) (p q : P3) : rho (shiftH tx ty p) (shiftH tx ty q) = rho p q := by
  simp [rho, shiftH]

theorem phi_shift (tx ty : ℝ) (p q : P3) : phi (shiftH tx ty p) (shiftH tx ty q) = phi p q := by
  simp [phi, shiftH]

theorem uMid_shift (tx ty px py c s lo hi : ℝ) (l : List ℝ) :
    ∀ (acc : ℝ) (up : Bool), uMid (px + tx) (py + ty) c s lo hi acc up l =
      (uMid px py c s lo hi acc up l).map (shiftH tx ty) := by
  induction l with
  | nil => intro acc up; simp [uMid]
  | cons d rest ih =>
    intro acc up
    simp only [uMid, List.map_cons, ih]
    congr 1
    simp only [shiftH]
    congr 1 <;> ring

/-- rotating the source and the azimuth rotates every intermediate point -/
theorem uMid_rot (c s px py cp sp lo hi : ℝ) (l : List ℝ) :
    ∀ (acc : ℝ) (up : Bool),
      uMid (c * px - s * py) (s * px + c * py) (c * cp - s * sp) (s * cp + c * sp) lo hi acc up l =
      (uMid px py cp sp lo hi acc up l).map (rotZ c s) := by
  induction l with
  | nil => intro acc up; simp [uMid]
  | cons d rest ih =>
    intro acc up
    simp only [uMid, List.map_cons, ih]
    congr 1
    simp only [rotZ]
    congr 1 <;> ring

/-- with vanishing horizontal shares the intermediate points do not depend on the azimuth -/
theorem uMid_zero (px py c s c' s' lo hi : ℝ) (l : List ℝ) (hl : ∀ d ∈ l, d = 0) :
    ∀ (up : Bool), uMid px py c s lo hi 0 up l = uMid px py c' s' lo hi 0 up l := by
  induction l with
  | nil => intro up; simp [uMid]
  | cons d rest ih =>
    intro up
    have hd : d = 0 := hl d (by simp)
    subst hd
    simp only [uMid, add_zero, zero_mul]
    rw [ih (fun d hd => hl d (by simp [hd]))]

theorem uReflected_length_le (I : UIce) (p q : P3) (k : Nat) : (uReflected I p q k).length ≤ 2 := by
  unfold uReflected; split_ifs <;> simp

theorem flatMap_length_le {α : Type} (f : Nat → List α) (b : Nat) (h : ∀ k, (f k).length ≤ b) (m : Nat) :
    ((List.range m).flatMap f).length ≤ b * m := by
  induction m with
  | zero => simp
  | succ m ih =>
    rw [List.range_succ, List.flatMap_append, List.length_append]
    simp only [List.flatMap_cons, List.flatMap_nil, List.append_nil]
    have := h m
    rw [Nat.mul_succ]; omega

theorem flatMap_length_const {α : Type} (f : Nat → List α) (b : Nat) (h : ∀ k, (f k).length = b) (m : Nat) :
    ((List.range m).flatMap f).length = b * m := by
  induction m with
  | zero => simp
  | succ m ih =>
    rw [List.range_succ, List.flatMap_append, List.length_append]
    simp only [List.flatMap_cons, List.flatMap_nil, List.append_nil]
    rw [h m, Nat.mul_succ]; omega

/-- reflected paths when exactly one side may reflect: only the single reflection off that side -/
theorem flatMap_length_first {α : Type} (f : Nat → List α) (h0 : (f 0).length = 1)
    (h : ∀ k, 0 < k → (f k).length = 0) (m : Nat) :
    ((List.range m).flatMap f).length = min m 1 := by
  induction m with
  | zero => simp
  | succ m ih =>
    rw [List.range_succ, List.flatMap_append, List.length_append]
    simp only [List.flatMap_cons, List.flatMap_nil, List.append_nil]
    rcases Nat.eq_zero_or_pos m with rfl | hm
    · simp [h0]
    · rw [ih, h m hm]; omega

end PyrexProofs

namespace PyrexProofs

/-! ## the image-source argument -/

theorem foldl_add (l : List ℝ) : ∀ a : ℝ, l.foldl (· + ·) a = a + l.sum := by
  induction l with
  | nil => intro a; simp
  | cons x xs ih => intro a; simp only [List.foldl_cons, List.sum_cons, ih]; ring

theorem listSum_eq_sum (l : List ℝ) : listSum l = l.sum := by simp [listSum, foldl_add]

/-- consecutive pairs of a point list -/
def pairs : List P3 → List (P3 × P3)
  | a :: b :: rest => (a, b) :: pairs (b :: rest)
  | _ => []

/-- a leg whose horizontal displacement is `k·|Δz|` in the direction `(c, s)` -/
def slopeOK (k c s : ℝ) (ab : P3 × P3) : Prop :=
  ab.2.x - ab.1.x = k * |ab.2.z - ab.1.z| * c ∧ ab.2.y - ab.1.y = k * |ab.2.z - ab.1.z| * s

theorem dist_of_slope (k c s : ℝ) (hcs : c ^ 2 + s ^ 2 = 1) (a b : P3) (h : slopeOK k c s (a, b)) :
    dist3 a b = Real.sqrt (k ^ 2 + 1) * |b.z - a.z| := by
  obtain ⟨hx, hy⟩ := h
  simp only at hx hy
  have hd : (b.z - a.z) * (b.z - a.z) = |b.z - a.z| ^ 2 := by rw [sq_abs]; ring
  unfold dist3
  simp only [Rsqrt]
  rw [hx, hy, hd]
  have : k * |b.z - a.z| * c * (k * |b.z - a.z| * c) + k * |b.z - a.z| * s * (k * |b.z - a.z| * s)
      + |b.z - a.z| ^ 2 = (k ^ 2 + 1) * |b.z - a.z| ^ 2 := by
    linear_combination (k ^ 2 * |b.z - a.z| ^ 2) * hcs
  rw [this, Real.sqrt_mul (by positivity), Real.sqrt_sq (abs_nonneg _)]

theorem pathLen_of_slopes (k c s : ℝ) (hcs : c ^ 2 + s ^ 2 = 1) :
    ∀ pts : List P3, (∀ ab ∈ pairs pts, slopeOK k c s ab) →
      pathLen pts = Real.sqrt (k ^ 2 + 1) * ((pairs pts).map (fun ab => |ab.2.z - ab.1.z|)).sum := by
  intro pts
  induction pts with
  | nil => intro _; simp [pathLen, segLens, pairs, listSum]
  | cons a rest ih =>
    cases rest with
    | nil => intro _; simp [pathLen, segLens, pairs, listSum]
    | cons b rest' =>
      intro h
      have h1 : slopeOK k c s (a, b) := h (a, b) (by simp [pairs])
      have h2 : ∀ ab ∈ pairs (b :: rest'), slopeOK k c s ab := fun ab hab => h ab (by simp [pairs, hab])
      have ih' := ih h2
      simp only [pathLen, listSum_eq_sum] at ih' ⊢
      simp only [segLens, pairs, List.sum_cons, List.map_cons, ih', dist_of_slope k c s hcs a b h1]
      ring

/-- vertical bookkeeping of the legs: from depth `zc` heading `up`, each leg ends on the boundary it heads to and
has the listed vertical extent; the last leg ends at the receiver depth -/
def vert (lo hi : ℝ) : ℝ → Bool → List ℝ → ℝ → ℝ → Prop
  | zc, _, [], dl, zq => |zq - zc| = dl
  | zc, up, d :: ds, dl, zq =>
    |(if up then hi else lo) - zc| = d ∧ vert lo hi (if up then hi else lo) (!up) ds dl zq

/-- main induction: every leg of the zigzag has the same slope and the vertical extents add up -/
theorem zigzag (px py c s lo hi k dl xq yq zq : ℝ) :
    ∀ (l : List ℝ) (acc : ℝ) (up : Bool) (zc : ℝ),
      vert lo hi zc up l dl zq →
      xq = px + (acc + k * (l.sum + dl)) * c → yq = py + (acc + k * (l.sum + dl)) * s →
      (∀ ab ∈ pairs ((⟨px + acc * c, py + acc * s, zc⟩ : P3) ::
          (uMid px py c s lo hi acc up (l.map (fun d => k * d)) ++ [⟨xq, yq, zq⟩])), slopeOK k c s ab) ∧
      ((pairs ((⟨px + acc * c, py + acc * s, zc⟩ : P3) ::
          (uMid px py c s lo hi acc up (l.map (fun d => k * d)) ++ [⟨xq, yq, zq⟩]))).map
            (fun ab => |ab.2.z - ab.1.z|)).sum = l.sum + dl := by
  intro l
  induction l with
  | nil =>
    intro acc up zc hv hx hy
    simp only [vert] at hv
    simp only [List.map_nil, uMid, List.nil_append, pairs, List.mem_singleton, forall_eq, slopeOK,
      List.map_cons, List.sum_cons, List.sum_nil, add_zero, zero_add, hv]
    refine ⟨⟨?_, ?_⟩, trivial⟩
    · rw [hx]; simp only [List.sum_nil, zero_add]; ring
    · rw [hy]; simp only [List.sum_nil, zero_add]; ring
  | cons d ds ih =>
    intro acc up zc hv hx hy
    obtain ⟨hv1, hv2⟩ := hv
    have hx' : xq = px + (acc + k * d + k * (ds.sum + dl)) * c := by
      rw [hx, List.sum_cons]; ring
    have hy' : yq = py + (acc + k * d + k * (ds.sum + dl)) * s := by
      rw [hy, List.sum_cons]; ring
    obtain ⟨ih1, ih2⟩ := ih (acc + k * d) (!up) (if up then hi else lo) hv2 hx' hy'
    simp only [List.map_cons, uMid, List.cons_append, pairs, List.mem_cons, List.sum_cons]
    refine ⟨?_, ?_⟩
    · intro ab hab
      rcases hab with rfl | hab
      · simp only [slopeOK, hv1]
        constructor <;> ring
      · exact ih1 ab hab
    · rw [ih2]; simp only [hv1]; ring

/-- `u` flipped `m` times -/
def flipN : Nat → Bool → Bool
  | 0, u => u
  | m + 1, u => flipN m (!u)

theorem flipN_parity : ∀ (n : Nat) (u : Bool), flipN n u = if n % 2 = 0 then u else !u := by
  intro n
  induction n with
  | zero => intro u; simp [flipN]
  | succ m ih =>
    intro u
    rw [flipN, ih]
    rcases Nat.mod_two_eq_zero_or_one m with h | h
    · have : (m + 1) % 2 = 1 := by omega
      simp [h, this]
    · have : (m + 1) % 2 = 0 := by omega
      simp [h, this]

theorem vert_replicate (lo hi : ℝ) (hlh : lo ≤ hi) (dl zq : ℝ) :
    ∀ (m : Nat) (u : Bool),
      vert lo hi (if u then lo else hi) u (List.replicate m (hi - lo)) dl zq ↔
        |zq - (if flipN m u then lo else hi)| = dl := by
  intro m
  induction m with
  | zero => intro u; simp only [List.replicate_zero, vert, flipN]; exact Iff.rfl
  | succ m ih =>
    intro u
    simp only [List.replicate_succ, vert, flipN]
    have h1 : |(if u then hi else lo) - (if u then lo else hi)| = hi - lo := by
      cases u
      · simp only [Bool.false_eq_true, if_false]; rw [abs_sub_comm, abs_of_nonneg (by linarith)]
      · simp only [if_true]; rw [abs_of_nonneg (by linarith)]
    have h2 : (if u then hi else lo) = (if (!u) = true then lo else hi) := by cases u <;> simp
    rw [h2, ih (!u)]
    constructor
    · exact fun h => h.2
    · intro h; refine ⟨?_, h⟩
      rw [← h2]; exact h1

theorem sum_replicate (m : Nat) (x : ℝ) : (List.replicate m x).sum = m * x := by
  induction m with
  | zero => simp
  | succ m ih => simp [List.replicate_succ, ih]; ring

theorem x_of_polar (p q : P3) : q.x = p.x + rho p q * Real.cos (phi p q) ∧ q.y = p.y + rho p q * Real.sin (phi p q) := by
  by_cases h : rho p q = 0
  · have h0 : (q.x - p.x) * (q.x - p.x) + (q.y - p.y) * (q.y - p.y) ≤ 0 := by
      have := h; simp only [rho, Rsqrt] at this; exact Real.sqrt_eq_zero'.mp this
    have hx : q.x - p.x = 0 := by nlinarith [mul_self_nonneg (q.x - p.x), mul_self_nonneg (q.y - p.y)]
    have hy : q.y - p.y = 0 := by nlinarith [mul_self_nonneg (q.x - p.x), mul_self_nonneg (q.y - p.y)]
    rw [h]; constructor <;> linarith
  · rw [cos_phi p q h, sin_phi]
    constructor <;> field_simp <;> ring

end PyrexProofs

namespace PyrexProofs

/-- vertical extent of the first leg -/
noncomputable def firstLeg (I : UIce) (z0 : ℝ) (up : Bool) : ℝ := if up then I.hi - z0 else z0 - I.lo
/-- vertical extent of the last leg of a path with `n` reflections -/
noncomputable def lastLeg (I : UIce) (z1 : ℝ) (n : Nat) (up : Bool) : ℝ :=
  if (if n % 2 = 0 then up else !up) then z1 - I.lo else I.hi - z1

theorem uDzs_succ (I : UIce) (z0 z1 : ℝ) (m : Nat) (up : Bool) :
    uDzs I z0 z1 (m + 1) up =
      (firstLeg I z0 up :: List.replicate m (I.hi - I.lo)) ++ [lastLeg I z1 (m + 1) up] := by
  simp [uDzs, firstLeg, lastLeg]

theorem sum_uDzs (I : UIce) (z0 z1 : ℝ) (m : Nat) (up : Bool) :
    listSum (uDzs I z0 z1 (m + 1) up) = firstLeg I z0 up + m * (I.hi - I.lo) + lastLeg I z1 (m + 1) up := by
  rw [listSum_eq_sum, uDzs_succ, List.sum_append, List.sum_cons, sum_replicate]; simp

theorem uPointsDir_succ (I : UIce) (p q : P3) (m : Nat) (up : Bool) :
    uPointsDir I p q (m + 1) up =
      p :: (uMid p.x p.y (Real.cos (phi p q)) (Real.sin (phi p q)) I.lo I.hi 0 up
        ((firstLeg I p.z up :: List.replicate m (I.hi - I.lo)).map
          (fun d => rho p q / listSum (uDzs I p.z q.z (m + 1) up) * d)) ++ [q]) := by
  unfold uPointsDir
  simp only [Nat.succ_ne_zero, if_false, Rcos, Rsin]
  congr 3
  rw [← List.map_dropLast, uDzs_succ, List.dropLast_concat]
  apply List.map_congr_left
  intro d _
  rw [← uDzs_succ, mul_div_right_comm]

/-- the legs of `uPointsDir` all have slope `k = rho/S`, and their vertical extents add up to `S` -/
theorem image_main (I : UIce) (p q : P3) (m : Nat) (up : Bool)
    (hlh : I.lo ≤ I.hi) (hp0 : I.lo ≤ p.z) (hp1 : p.z ≤ I.hi) (hq0 : I.lo ≤ q.z) (hq1 : q.z ≤ I.hi)
    (hS : listSum (uDzs I p.z q.z (m + 1) up) ≠ 0) :
    (∀ ab ∈ pairs (uPointsDir I p q (m + 1) up),
      slopeOK (rho p q / listSum (uDzs I p.z q.z (m + 1) up)) (Real.cos (phi p q)) (Real.sin (phi p q)) ab) ∧
    ((pairs (uPointsDir I p q (m + 1) up)).map (fun ab => |ab.2.z - ab.1.z|)).sum =
      listSum (uDzs I p.z q.z (m + 1) up) := by
  set S := listSum (uDzs I p.z q.z (m + 1) up) with hSdef
  set k := rho p q / S with hk
  have hsum : (firstLeg I p.z up :: List.replicate m (I.hi - I.lo)).sum + lastLeg I q.z (m + 1) up = S := by
    rw [hSdef, sum_uDzs, List.sum_cons, sum_replicate]
  have hkS : k * S = rho p q := by rw [hk]; field_simp
  obtain ⟨hxq, hyq⟩ := x_of_polar p q
  -- vertical bookkeeping
  have hv : vert I.lo I.hi p.z up (firstLeg I p.z up :: List.replicate m (I.hi - I.lo))
      (lastLeg I q.z (m + 1) up) q.z := by
    refine ⟨?_, ?_⟩
    · cases up
      · simp only [Bool.false_eq_true, if_false, firstLeg]; rw [abs_sub_comm, abs_of_nonneg (by linarith)]
      · simp only [if_true, firstLeg]; rw [abs_of_nonneg (by linarith)]
    · have h2 : (if up then I.hi else I.lo) = (if (!up) = true then I.lo else I.hi) := by cases up <;> simp
      rw [h2, vert_replicate I.lo I.hi hlh _ _ m (!up)]
      have hf : flipN m (!up) = (if (m + 1) % 2 = 0 then up else !up) := by
        rw [← flipN_parity (m + 1) up]; rfl
      rw [hf]
      unfold lastLeg
      by_cases hfu : (if (m + 1) % 2 = 0 then up else !up) = true
      · simp only [hfu, if_true]; rw [abs_of_nonneg (by linarith)]
      · simp only [hfu]
        simp only [Bool.not_eq_true] at hfu
        simp only [Bool.false_eq_true, if_false]
        rw [abs_sub_comm, abs_of_nonneg (by linarith)]
  have hz := zigzag p.x p.y (Real.cos (phi p q)) (Real.sin (phi p q)) I.lo I.hi k (lastLeg I q.z (m + 1) up)
    q.x q.y q.z (firstLeg I p.z up :: List.replicate m (I.hi - I.lo)) 0 up p.z hv
    (by rw [hsum, zero_add, hkS]; exact hxq) (by rw [hsum, zero_add, hkS]; exact hyq)
  have hp : (⟨p.x + 0 * Real.cos (phi p q), p.y + 0 * Real.sin (phi p q), p.z⟩ : P3) = p := by
    simp
  rw [hp] at hz
  rw [uPointsDir_succ]
  rw [hsum] at hz
  exact hz

theorem image_length (I : UIce) (p q : P3) (m : Nat) (up : Bool)
    (hlh : I.lo ≤ I.hi) (hp0 : I.lo ≤ p.z) (hp1 : p.z ≤ I.hi) (hq0 : I.lo ≤ q.z) (hq1 : q.z ≤ I.hi)
    (hS : 0 < listSum (uDzs I p.z q.z (m + 1) up)) :
    pathLen (uPointsDir I p q (m + 1) up) =
      Real.sqrt (rho p q ^ 2 + listSum (uDzs I p.z q.z (m + 1) up) ^ 2) := by
  obtain ⟨h1, h2⟩ := image_main I p q m up hlh hp0 hp1 hq0 hq1 (ne_of_gt hS)
  have hcs : Real.cos (phi p q) ^ 2 + Real.sin (phi p q) ^ 2 = 1 := by
    rw [add_comm]; exact Real.sin_sq_add_cos_sq _
  rw [pathLen_of_slopes _ _ _ hcs _ h1, h2]
  set S := listSum (uDzs I p.z q.z (m + 1) up)
  have : (rho p q / S) ^ 2 + 1 = (rho p q ^ 2 + S ^ 2) / S ^ 2 := by field_simp
  rw [this, Real.sqrt_div (by positivity), Real.sqrt_sq (le_of_lt hS)]
  field_simp

end PyrexProofs

namespace PyrexProofs

/-- depth of the receiver mirrored `n` times: the first reflection plane is the boundary the ray initially heads
to; the remaining `n` reflections (starting in the opposite direction) are unfolded first -/
noncomputable def mirrorZ (lo hi : ℝ) : Bool → Nat → ℝ → ℝ
  | _, 0, z => z
  | up, n + 1, z => 2 * (if up then hi else lo) - mirrorZ lo hi (!up) n z

theorem mirrorZ_add_two (lo hi : ℝ) (up : Bool) (n : Nat) (z : ℝ) :
    mirrorZ lo hi up (n + 2) z = mirrorZ lo hi up n z + (if up then 2 * (hi - lo) else -(2 * (hi - lo))) := by
  simp only [mirrorZ, Bool.not_not]
  cases up <;> simp <;> ring

theorem lastLeg_add_two (I : UIce) (z1 : ℝ) (n : Nat) (up : Bool) :
    lastLeg I z1 (n + 2) up = lastLeg I z1 n up := by
  simp [lastLeg, Nat.add_mod_right]

/-- the vertical extents add up to the (signed) vertical distance from the source to the mirrored receiver -/
theorem image_depth (I : UIce) (z0 z1 : ℝ) (m : Nat) : ∀ up : Bool,
    listSum (uDzs I z0 z1 (m + 1) up) =
      (if up then 1 else -1) * (mirrorZ I.lo I.hi up (m + 1) z1 - z0) := by
  induction m using Nat.twoStepInduction with
  | zero =>
    intro up
    rw [sum_uDzs]
    cases up <;> simp [firstLeg, lastLeg, mirrorZ] <;> ring
  | one =>
    intro up
    rw [sum_uDzs]
    cases up <;> simp [firstLeg, lastLeg, mirrorZ] <;> ring
  | more m ih _ =>
    intro up
    have h := ih up
    rw [sum_uDzs] at h ⊢
    rw [show m + 2 + 1 = (m + 1) + 2 by omega, lastLeg_add_two, mirrorZ_add_two]
    push_cast
    cases up
    · simp only [Bool.false_eq_true, if_false] at h ⊢; linarith
    · simp only [if_true] at h ⊢; linarith

/-- the alternating boundary depths, starting with the boundary the ray heads to -/
noncomputable def altZ (lo hi : ℝ) : Bool → Nat → List ℝ
  | _, 0 => []
  | up, n + 1 => (if up then hi else lo) :: altZ lo hi (!up) n

theorem uMid_z (px py c s lo hi : ℝ) : ∀ (l : List ℝ) (acc : ℝ) (up : Bool),
    (uMid px py c s lo hi acc up l).map (fun P => P.z) = altZ lo hi up l.length := by
  intro l
  induction l with
  | nil => intro acc up; simp [uMid, altZ]
  | cons d ds ih => intro acc up; simp [uMid, altZ, ih]

theorem normalize_scale (t : ℝ) (ht : 0 < t) (v : P3) :
    PyrexR.Uni.normalize ⟨t * v.x, t * v.y, t * v.z⟩ = PyrexR.Uni.normalize v := by
  have hm : Real.sqrt (t * v.x * (t * v.x) + t * v.y * (t * v.y) + t * v.z * (t * v.z)) =
      t * Real.sqrt (v.x * v.x + v.y * v.y + v.z * v.z) := by
    have : t * v.x * (t * v.x) + t * v.y * (t * v.y) + t * v.z * (t * v.z) =
        t ^ 2 * (v.x * v.x + v.y * v.y + v.z * v.z) := by ring
    rw [this, Real.sqrt_mul (by positivity), Real.sqrt_sq (le_of_lt ht)]
  unfold PyrexR.Uni.normalize
  simp only [Rsqrt, hm]
  set w := Real.sqrt (v.x * v.x + v.y * v.y + v.z * v.z) with hw
  have hw0 : 0 ≤ w := Real.sqrt_nonneg _
  by_cases h0 : w = 0
  · have hsum : v.x * v.x + v.y * v.y + v.z * v.z ≤ 0 := Real.sqrt_eq_zero'.mp h0
    have hx : v.x = 0 := by nlinarith [mul_self_nonneg v.x, mul_self_nonneg v.y, mul_self_nonneg v.z]
    have hy : v.y = 0 := by nlinarith [mul_self_nonneg v.x, mul_self_nonneg v.y, mul_self_nonneg v.z]
    have hz : v.z = 0 := by nlinarith [mul_self_nonneg v.x, mul_self_nonneg v.y, mul_self_nonneg v.z]
    have e1 : eqR (t * w) 0 := by rw [h0]; simp [eqR]
    have e2 : eqR w 0 := by rw [h0]; simp [eqR]
    simp only [e1, e2, if_true]
    cases v with
    | mk vx vy vz =>
      simp only at hx hy hz
      subst hx hy hz
      simp
  · have hpos : 0 < w := lt_of_le_of_ne hw0 (Ne.symm h0)
    have e1 : ¬ eqR (t * w) 0 := by
      intro h; have := h.1; nlinarith
    have e2 : ¬ eqR w 0 := by
      intro h; exact h0 (le_antisymm h.1 h.2)
    simp only [e1, e2, if_false]
    congr 1 <;> field_simp

end PyrexProofs

namespace PyrexProofs

/-! ## the last leg -/

theorem flipN_not : ∀ (m : Nat) (u : Bool), flipN m (!u) = !(flipN m u) := by
  intro m
  induction m with
  | zero => intro u; simp [flipN]
  | succ m ih => intro u; simp only [flipN]; rw [ih (!u)]

theorem lastTwo_concat (q : P3) : ∀ (l : List P3) (a : P3), lastTwo ((a :: l) ++ [q]) =
    some ((a :: l).getLast (by simp), q) := by
  intro l
  induction l with
  | nil => intro a; simp [lastTwo]
  | cons b rest ih =>
    intro a
    have h := ih b
    simp only [List.cons_append] at h ⊢
    cases rest with
    | nil => simp [lastTwo]
    | cons c rest' =>
      simp only [List.cons_append] at h ⊢
      rw [lastTwo]
      · rw [h]; simp
      · intro x y; simp at y

theorem uMid_getLast (px py c s lo hi : ℝ) : ∀ (l : List ℝ) (d : ℝ) (acc : ℝ) (up : Bool),
    (uMid px py c s lo hi acc up (d :: l)).getLast? =
      some ⟨px + (acc + (d :: l).sum) * c, py + (acc + (d :: l).sum) * s,
        if flipN l.length up then hi else lo⟩ := by
  intro l
  induction l with
  | nil => intro d acc up; simp [uMid, flipN]
  | cons d' rest ih =>
    intro d acc up
    rw [uMid, List.getLast?_cons, ih d' (acc + d) (!up)]
    simp only [Option.getD_some, List.sum_cons, List.length_cons, flipN, Option.some.injEq]
    congr 1 <;> ring

end PyrexProofs

namespace PyrexProofs

theorem neg_one_pow_ite (n : ℕ) : (-1 : ℝ) ^ n = if n % 2 = 0 then 1 else -1 := by
  rcases Nat.even_or_odd n with h | h
  · rw [h.neg_one_pow, if_pos (Nat.even_iff.mp h)]
  · rw [h.neg_one_pow, if_neg (by rw [Nat.odd_iff.mp h]; decide)]

theorem sum_map_mul (k : ℝ) (l : List ℝ) : (l.map (fun d => k * d)).sum = k * l.sum := by
  induction l with
  | nil => simp
  | cons x xs ih => simp only [List.map_cons, List.sum_cons, ih]; ring

/-- the received direction is the direction of the last leg: horizontal part of the line to the mirrored receiver,
vertical part reversed once per reflection -/
theorem received_main (I : UIce) (p q : P3) (m : Nat) (up : Bool)
    (hS : 0 < listSum (uDzs I p.z q.z (m + 1) up)) (hl : 0 < lastLeg I q.z (m + 1) up) :
    uReceived p q (m + 1) (uPointsDir I p q (m + 1) up) =
      PyrexR.Uni.normalize ⟨q.x - p.x, q.y - p.y,
        (-1) ^ (m + 1) * (mirrorZ I.lo I.hi up (m + 1) q.z - p.z)⟩ := by
  set S := listSum (uDzs I p.z q.z (m + 1) up) with hSdef
  set k := rho p q / S with hk
  set dl := lastLeg I q.z (m + 1) up with hdl
  set σ : ℝ := if up then 1 else -1 with hσ
  set σf : ℝ := if (if (m + 1) % 2 = 0 then up else !up) then 1 else -1 with hσf
  have hdepth : mirrorZ I.lo I.hi up (m + 1) q.z - p.z = σ * S := by
    have h := image_depth I p.z q.z m up
    rw [← hSdef, ← hσ] at h
    rw [h]; cases up <;> simp [hσ]
  have hτ : (-1 : ℝ) ^ (m + 1) * σ = σf := by
    rw [neg_one_pow_ite, hσ, hσf]
    by_cases hpar : (m + 1) % 2 = 0 <;> cases up <;> simp [hpar]
  obtain ⟨hxq, hyq⟩ := x_of_polar p q
  have hkS : S * k = rho p q := by rw [hk]; field_simp
  have hsumS : firstLeg I p.z up + m * (I.hi - I.lo) + dl = S := by rw [hSdef, sum_uDzs]
  -- the right-hand side
  have hR : (⟨q.x - p.x, q.y - p.y, (-1) ^ (m + 1) * (mirrorZ I.lo I.hi up (m + 1) q.z - p.z)⟩ : P3) =
      ⟨S * (k * Real.cos (phi p q)), S * (k * Real.sin (phi p q)), S * σf⟩ := by
    rw [hdepth, ← mul_assoc, hτ]
    congr 1
    · rw [← mul_assoc, hkS]; linarith
    · rw [← mul_assoc, hkS]; linarith
    · ring
  -- the last leg
  have hz : q.z - (if flipN m up then I.hi else I.lo) = dl * σf := by
    have hf : (if (m + 1) % 2 = 0 then up else !up) = !(flipN m up) := by
      rw [← flipN_parity (m + 1) up, flipN, flipN_not]
    rw [hσf, hdl, lastLeg, hf]
    cases flipN m up <;> simp
  have hL : uReceived p q (m + 1) (uPointsDir I p q (m + 1) up) =
      PyrexR.Uni.normalize ⟨dl * (k * Real.cos (phi p q)), dl * (k * Real.sin (phi p q)), dl * σf⟩ := by
    rw [uPointsDir_succ]
    simp only [uReceived, Nat.succ_ne_zero, false_and, if_false, List.map_cons]
    rw [← List.cons_append, lastTwo_concat]
    simp only [sub3]
    have hlast := uMid_getLast p.x p.y (Real.cos (phi p q)) (Real.sin (phi p q)) I.lo I.hi
      ((List.replicate m (I.hi - I.lo)).map (fun d => rho p q / S * d)) (rho p q / S * firstLeg I p.z up) 0 up
    have hne : (p :: uMid p.x p.y (Real.cos (phi p q)) (Real.sin (phi p q)) I.lo I.hi 0 up
        (rho p q / S * firstLeg I p.z up :: (List.replicate m (I.hi - I.lo)).map (fun d => rho p q / S * d))) ≠ [] := by
      simp
    have hg := List.getLast?_eq_some_getLast hne
    rw [List.getLast?_cons, hlast] at hg
    simp only [Option.getD_some, Option.some.injEq, List.length_map, List.length_replicate] at hg
    rw [← hg]
    simp only [List.sum_cons, sum_map_mul, sum_replicate, ← hk]
    rw [← hz]
    congr 1
    congr 1
    · rw [hxq]
      have : k * firstLeg I p.z up + k * (m * (I.hi - I.lo)) = rho p q - k * dl := by
        rw [← hkS, ← hsumS]; ring
      rw [this]; ring
    · rw [hyq]
      have : k * firstLeg I p.z up + k * (m * (I.hi - I.lo)) = rho p q - k * dl := by
        rw [← hkS, ← hsumS]; ring
      rw [this]; ring
  rw [hL, hR]
  rw [normalize_scale dl hl ⟨k * Real.cos (phi p q), k * Real.sin (phi p q), σf⟩,
    normalize_scale S hS ⟨k * Real.cos (phi p q), k * Real.sin (phi p q), σf⟩]

/-- reversing the vertical component commutes with normalisation -/
theorem normalize_flipz (t : ℝ) (ht : t * t = 1) (v : P3) :
    PyrexR.Uni.normalize ⟨v.x, v.y, t * v.z⟩ =
      ⟨(PyrexR.Uni.normalize v).x, (PyrexR.Uni.normalize v).y, t * (PyrexR.Uni.normalize v).z⟩ := by
  have hm : v.x * v.x + v.y * v.y + t * v.z * (t * v.z) = v.x * v.x + v.y * v.y + v.z * v.z := by
    have : t * v.z * (t * v.z) = (t * t) * (v.z * v.z) := by ring
    rw [this, ht, one_mul]
  unfold PyrexR.Uni.normalize
  simp only [Rsqrt, hm]
  split_ifs
  · rfl
  · simp only [P3.mk.injEq, true_and]; ring

end PyrexProofs
