import PyrexVerif.R.Ray
import PyrexVerif.Proofs.RayDeriv
import PyrexVerif.Proofs.RayBasic
import PyrexVerif.Proofs.RayFTC
import PyrexVerif.Proofs.RayTrap
import PyrexVerif.Proofs.RayPath
import PyrexVerif.Proofs.RayCut
import PyrexVerif.Proofs.RayFormulaBridge
/-!
# C01 — every ray-trace solution is a true ray joining its two endpoints

Theorems about the ℝ-reading `PyrexR` of `twin/Ray.body` (the Float reading of the same text is what
`Drivers/C01.lean` runs against `pyrex.ray_tracing`).  Standing hypotheses `0 < k`, `0 < a`
(exponential profile `n(z) = n0 − k e^{a z}`, examples at the end for the shipped Antarctic ice).

Reading guide.  A ray with Snell invariant `β = n sin θ` has `tan θ(z) = tan(arcsin(β/n(z)))`,
`sec θ(z) = 1/cos(arcsin(β/n(z)))`; radial distance, path length and time of flight between two
depths are `∫ tan θ dz`, `∫ sec θ dz = ∫ ds`, `∫ n sec θ / c dz = ∫ n ds / c`.  `nzT I z` is the raw
profile used by `_int_terms`; inside the valid range it is `I.index z` (`C01_theta_eq`).
`betaTolerance`, `uniformityFactor`, `cLight` are regenerated from the source (`Gen/RayConstants`).
-/
open PyrexR PyrexR.Ray Set MeasureTheory RayProofs

/-! ## regenerated constants -/

/-- the constants regenerated from `pyrex/ray_tracing.py` (and `scipy.constants.c`) have the values the
bounds below and the recorded known findings K3/K8 refer to; editing one in the source re-opens this -/
theorem C01_constants :
    betaTolerance = 1 / 200 ∧ uniformityFactor = 99999 / 100000 ∧ proximityDivisor = 10 ∧
    linkRange = 1 / 1000000 ∧ cLight = 299792458 := by
  unfold betaTolerance uniformityFactor proximityDivisor linkRange cLight
  simp only [RofNat, RayConstants.betaToleranceNum, RayConstants.betaToleranceDen,
    RayConstants.uniformityFactorNum, RayConstants.uniformityFactorDen,
    RayConstants.proximityDivisorNum, RayConstants.proximityDivisorDen,
    RayConstants.linkRangeNum, RayConstants.linkRangeDen,
    RayConstants.cLightNum, RayConstants.cLightDen]
  norm_num

/-- formula-level tie: the expressions translated node by node from `pyrex/ray_tracing.py`
(`twin/RayFormulas.body`, regenerated on every run) are the hand-written model definitions the theorems
below are about; a changed sign, factor or term in `_int_terms` or in any branch of the three indefinite
integrals breaks this proof -/
theorem C01_formula_bridge (I : Ice) (z β : ℝ) (deep : Bool) :
    RayGen.int_terms_0 I z β = alphaT I β ∧ RayGen.int_terms_1 I z β = nzT I z ∧
    RayGen.int_terms_2 I z β = gammaT I z β ∧ RayGen.int_terms_3 I z β = log1T I z β ∧
    RayGen.int_terms_4 I z β = log2T I z β ∧
    RayGen.distance_integral I z β deep = distInt I z β deep ∧
    RayGen.pathlen_integral I z β deep = pathInt I z β deep ∧
    RayGen.tof_integral I z β deep = tofInt I z β deep :=
  ⟨bridge_alpha I z β, bridge_nz I z β, bridge_gamma I z β, bridge_log1 I z β, bridge_log2 I z β,
    bridge_dist I z β deep, bridge_path I z β deep, bridge_tof I z β deep⟩

/-! ## Snell invariant -/

/-- `n(z) sin θ(z) = β` wherever the ray can exist (`|β| ≤ n(z)`) -/
theorem C01_snell_invariant (I : Ice) (zFrom θ0 z : ℝ) (hn : 0 < I.index z)
    (hβ : |pathBeta I zFrom θ0| ≤ I.index z) :
    I.index z * Real.sin (theta I zFrom θ0 z) = pathBeta I zFrom θ0 :=
  snell I zFrom θ0 z hn hβ

/-- inside the valid range the model's `theta` is `arcsin(β / n(z))` with the raw profile -/
theorem C01_theta_eq (I : Ice) (zFrom θ0 z : ℝ) (h1 : I.lo ≤ z) (h2 : z ≤ I.hi) :
    theta I zFrom θ0 z = Real.arcsin (pathBeta I zFrom θ0 / nzT I z) := by
  unfold theta pathBeta
  rw [index_eq_nzT I z h1 h2]
  simp only [Rasin, Rsin]
  ring_nf

/-- `n sin θ` is the same at launch and at reception, and the received direction has horizontal
magnitude `β/n(z_to)` along the same azimuth `φ` as the emitted one (for both solution types) -/
theorem C01_launch_reception_invariant (I : Ice) (zFrom zTo θ0 φ : ℝ) (direct : Bool)
    (hnf : 0 < I.index zFrom) (hnt : 0 < I.index zTo) (hβ : |pathBeta I zFrom θ0| ≤ I.index zTo) :
    I.index zFrom * Real.sin θ0 = I.index zTo * Real.sin (theta I zFrom θ0 zTo) ∧
    (emittedDir θ0 φ).x = pathBeta I zFrom θ0 / I.index zFrom * Real.cos φ ∧
    (emittedDir θ0 φ).y = pathBeta I zFrom θ0 / I.index zFrom * Real.sin φ ∧
    (receivedDir I zFrom zTo θ0 φ direct).x = pathBeta I zFrom θ0 / I.index zTo * Real.cos φ ∧
    (receivedDir I zFrom zTo θ0 φ direct).y = pathBeta I zFrom θ0 / I.index zTo * Real.sin φ := by
  have h1 := snell I zFrom θ0 zTo hnt hβ
  have h2 := emitted_horizontal I zFrom θ0 φ hnf
  have h3 := received_horizontal I zFrom zTo θ0 φ direct hnt hβ
  exact ⟨by rw [h1]; rfl, h2.1, h2.2, h3.1, h3.2⟩

/-! ## the closed forms are antiderivatives of the ray integrands (shallow branch) -/

/-- `d/dz _distance_integral = tan θ(z)` -/
theorem C01_distInt_hasDerivAt (I : Ice) (β z : ℝ) (hk : 0 < I.k) (ha : 0 < I.a) (hn : 0 < nzT I z)
    (hγ : β * β < nzT I z * nzT I z) (hβ : betaTolerance < |β|) :
    HasDerivAt (fun y => distInt I y β false) (Real.tan (Real.arcsin (β / nzT I z))) z := by
  rw [tan_arcsin_div _ β hn hγ]
  exact distInt_hasDerivAt I β z hk ha hn (by unfold gU; linarith) hβ

/-- `d/dz _pathlen_integral = sec θ(z)` -/
theorem C01_pathInt_hasDerivAt (I : Ice) (β z : ℝ) (hk : 0 < I.k) (ha : 0 < I.a) (hn : 0 < nzT I z)
    (hγ : β * β < nzT I z * nzT I z) (hβ : betaTolerance < |β|) :
    HasDerivAt (fun y => pathInt I y β false) (1 / Real.cos (Real.arcsin (β / nzT I z))) z := by
  rw [sec_arcsin_div _ β hn hγ]
  exact pathInt_hasDerivAt I β z hk ha hn (by unfold gU; linarith) hβ

/-- `d/dz _tof_integral = n(z) sec θ(z) / c` -/
theorem C01_tofInt_hasDerivAt (I : Ice) (β z : ℝ) (hk : 0 < I.k) (ha : 0 < I.a) (hn : 0 < nzT I z)
    (hγ : β * β < nzT I z * nzT I z) (hβ : betaTolerance < |β|) :
    HasDerivAt (fun y => tofInt I y β false)
      (nzT I z / cLight * (1 / Real.cos (Real.arcsin (β / nzT I z)))) z := by
  rw [sec_arcsin_div _ β hn hγ]
  have h := tofInt_hasDerivAt I β z hk ha hn (by unfold gU; linarith) hβ
  refine h.congr_deriv ?_
  have hc : cLight ≠ 0 := ne_of_gt cLight_pos
  have hg : Real.sqrt (nzT I z * nzT I z - β * β) ≠ 0 := ne_of_gt (Real.sqrt_pos.mpr (by linarith))
  unfold gU
  field_simp

/-! ## deep branch (`z < z_uniform`): uniform-index integrands, and how far `n0` is from `n(z)` -/

/-- in the deep branch the derivatives are `β/√α`, `n0/√α`, `n0 n(z)/(c √α)` with `α = n0² − β²`:
the ray angle of a medium with constant index `n0` -/
theorem C01_deep_hasDerivAt (I : Ice) (β z : ℝ) (ha : I.a ≠ 0) :
    HasDerivAt (fun y => distInt I y β true) (β / Real.sqrt (alphaT I β)) z ∧
    HasDerivAt (fun y => pathInt I y β true) (I.n0 / Real.sqrt (alphaT I β)) z ∧
    HasDerivAt (fun y => tofInt I y β true) (I.n0 * nzT I z / (Real.sqrt (alphaT I β) * cLight)) z :=
  ⟨distInt_deep_hasDerivAt I β z, pathInt_deep_hasDerivAt I β z, tofInt_deep_hasDerivAt I β z ha⟩

/-- below `z_uniform` (the depth where `n = n0 · uniformity_factor`) the index is within the factor
`uniformity_factor = 0.99999` of `n0`: relative error of the uniform-index treatment `≤ 1e-5` -/
theorem C01_deep_index_bound (I : Ice) (hk : 0 < I.k) (ha : 0 < I.a) (hn0 : 0 < I.n0) (z : ℝ)
    (hz : z ≤ Real.log ((I.n0 - I.n0 * uniformityFactor) / I.k) / I.a) :
    I.n0 * uniformityFactor ≤ nzT I z ∧ nzT I z < I.n0 ∧ (I.n0 - nzT I z) / I.n0 ≤ 1 / 100000 := by
  have h := deep_index_bound I hk ha hn0 z hz
  refine ⟨h.1, h.2, ?_⟩
  rw [div_le_iff₀ hn0]
  have := h.1
  rw [uniformityFactor_val] at this
  linarith

/-- `z_uniform` is that depth whenever `n0 · uniformity_factor` lies in the ice's index range -/
theorem C01_zUniform_eq (I : Ice) (h1 : I.index I.hi ≤ I.n0 * uniformityFactor)
    (h2 : I.n0 * uniformityFactor ≤ I.index I.lo) :
    zUniform I = Real.log ((I.n0 - I.n0 * uniformityFactor) / I.k) / I.a := by
  unfold zUniform Ice.depthWithIndex
  simp [not_lt.mpr h1, not_lt.mpr h2, Rlog]

/-! ## closed form = line integral (fundamental theorem of calculus) -/

/-- On any segment above `z_uniform` on which the ray exists (`β ≤ n` at the upper end; equality =
the upper end is the turning depth, where the integrands have an integrable singularity) the three
definite closed forms of `_z_int_uniform_correction` are the line integrals of `tan θ`, `sec θ` and
`n sec θ / c`: radial distance, `∫ ds` and `∫ n ds / c` of the ray with invariant `β`. -/
theorem C01_closed_form_eq_integral (I : Ice) (β : ℝ) (hk : 0 < I.k) (ha : 0 < I.a)
    (hβ : betaTolerance < β) (z0 z1 zu : ℝ) (hu0 : zu ≤ z0) (hu1 : zu ≤ z1)
    (h1 : β ≤ nzT I (max z0 z1)) :
    zIntUniform distInt I z0 z1 zu β = ∫ z in z0..z1, Real.tan (Real.arcsin (β / nzT I z)) ∧
    zIntUniform pathInt I z0 z1 zu β = ∫ z in z0..z1, 1 / Real.cos (Real.arcsin (β / nzT I z)) ∧
    zIntUniform tofInt I z0 z1 zu β
      = ∫ z in z0..z1, nzT I z / cLight / Real.cos (Real.arcsin (β / nzT I z)) := by
  rw [zIntUniform_shallow _ I z0 z1 zu β hu0 hu1, zIntUniform_shallow _ I z0 z1 zu β hu0 hu1,
    zIntUniform_shallow _ I z0 z1 zu β hu0 hu1]
  rcases le_total z0 z1 with h | h
  · rw [max_eq_right h] at h1
    exact ⟨dist_eq_integral I β hk ha hβ h h1, path_eq_integral I β hk ha hβ h h1,
      tof_eq_integral I β hk ha hβ h h1⟩
  · rw [max_eq_left h] at h1
    refine ⟨?_, ?_, ?_⟩
    · rw [intervalIntegral.integral_symm, ← dist_eq_integral I β hk ha hβ h h1]; ring
    · rw [intervalIntegral.integral_symm, ← path_eq_integral I β hk ha hβ h h1]; ring
    · rw [intervalIntegral.integral_symm, ← tof_eq_integral I β hk ha hβ h h1]; ring

/-- both ends below `z_uniform`: the closed forms are the integrals of the uniform-index integrands -/
theorem C01_closed_form_eq_integral_deep (I : Ice) (β : ℝ) (ha : I.a ≠ 0) (z0 z1 zu : ℝ)
    (hu0 : z0 < zu) (hu1 : z1 < zu) :
    zIntUniform distInt I z0 z1 zu β = ∫ _z in z0..z1, β / Real.sqrt (alphaT I β) ∧
    zIntUniform pathInt I z0 z1 zu β = ∫ _z in z0..z1, I.n0 / Real.sqrt (alphaT I β) ∧
    zIntUniform tofInt I z0 z1 zu β
      = ∫ z in z0..z1, I.n0 * nzT I z / (Real.sqrt (alphaT I β) * cLight) := by
  rw [zIntUniform_deep _ I z0 z1 zu β hu0 hu1, zIntUniform_deep _ I z0 z1 zu β hu0 hu1,
    zIntUniform_deep _ I z0 z1 zu β hu0 hu1]
  exact ⟨dist_deep_eq_integral I β z0 z1, path_deep_eq_integral I β z0 z1,
    tof_deep_eq_integral I β ha z0 z1⟩

/-- a segment crossing `z_uniform`: the `int_diff` bookkeeping is exactly "deep closed form up to
`z_uniform` + shallow closed form from `z_uniform`", hence the sum of the two one-sided integrals -/
theorem C01_crossing_uniform_additive (I : Ice) (β : ℝ) (hk : 0 < I.k) (ha : 0 < I.a)
    (hβ : betaTolerance < β) (z0 z1 zu : ℝ) (h0 : z0 < zu) (h1 : zu ≤ z1) (hb : β ≤ nzT I z1)
    (F : Ice → ℝ → ℝ → Bool → ℝ) :
    zIntUniform F I z0 z1 zu β = zIntUniform F I z0 zu (zu + 1) β + zIntUniform F I zu z1 zu β ∧
    zIntUniform F I z1 z0 zu β = -zIntUniform F I z0 z1 zu β ∧
    zIntUniform distInt I z0 z1 zu β
      = (∫ _z in z0..zu, β / Real.sqrt (alphaT I β))
        + ∫ z in zu..z1, Real.tan (Real.arcsin (β / nzT I z)) := by
  have hzu : zu < zu + 1 := by linarith
  refine ⟨?_, ?_, ?_⟩
  · rw [zIntUniform_cross_up F I z0 z1 zu β h0 h1,
      zIntUniform_deep F I z0 zu (zu + 1) β (by linarith) hzu,
      zIntUniform_shallow F I zu z1 zu β (le_refl _) h1]
  · rw [zIntUniform_cross_up F I z0 z1 zu β h0 h1, zIntUniform_cross_down F I z1 z0 zu β h1 h0]; ring
  · rw [zIntUniform_cross_up distInt I z0 z1 zu β h0 h1, dist_deep_eq_integral I β z0 zu,
      dist_eq_integral I β hk ha hβ h1 hb]

/-- all three integrals of a segment that crosses `z_uniform` upward: uniform-index integral below it plus the
exact line integral above it (the deep endpoint case of direct and indirect paths) -/
theorem C01_crossing_integrals (I : Ice) (β : ℝ) (hk : 0 < I.k) (ha : 0 < I.a)
    (hβ : betaTolerance < β) (z0 z1 zu : ℝ) (h0 : z0 < zu) (h1 : zu ≤ z1) (hb : β ≤ nzT I z1) :
    zIntUniform distInt I z0 z1 zu β
      = (∫ _z in z0..zu, β / Real.sqrt (alphaT I β))
        + ∫ z in zu..z1, Real.tan (Real.arcsin (β / nzT I z)) ∧
    zIntUniform pathInt I z0 z1 zu β
      = (∫ _z in z0..zu, I.n0 / Real.sqrt (alphaT I β))
        + ∫ z in zu..z1, 1 / Real.cos (Real.arcsin (β / nzT I z)) ∧
    zIntUniform tofInt I z0 z1 zu β
      = (∫ z in z0..zu, I.n0 * nzT I z / (Real.sqrt (alphaT I β) * cLight))
        + ∫ z in zu..z1, nzT I z / cLight / Real.cos (Real.arcsin (β / nzT I z)) := by
  refine ⟨?_, ?_, ?_⟩
  · rw [zIntUniform_cross_up distInt I z0 z1 zu β h0 h1, dist_deep_eq_integral I β z0 zu,
      dist_eq_integral I β hk ha hβ h1 hb]
  · rw [zIntUniform_cross_up pathInt I z0 z1 zu β h0 h1, path_deep_eq_integral I β z0 zu,
      path_eq_integral I β hk ha hβ h1 hb]
  · rw [zIntUniform_cross_up tofInt I z0 z1 zu β h0 h1, tof_deep_eq_integral I β (ne_of_gt ha) z0 zu,
      tof_eq_integral I β hk ha hβ h1 hb]

/-- NEGATION of exactness below `z_uniform` (known finding K26): for every ray with `β > 0` that exists on a
deep segment `z0 < z1` the radial distance the code computes there (uniform index `n0`) is strictly smaller
than the true `∫ tan θ` of the ice — the returned launch angle is therefore never exactly that of a ray
through the receiver; the defect grows without bound for nearly horizontal rays (`β → n(z1)`) -/
theorem C01_deep_branch_not_exact (I : Ice) (β : ℝ) (hk : 0 < I.k) (ha : 0 < I.a) (hβ : 0 < β)
    (z0 z1 zu : ℝ) (h01 : z0 < z1) (h1u : z1 < zu) (h1 : β < nzT I z1) :
    zIntUniform distInt I z0 z1 zu β < ∫ z in z0..z1, Real.tan (Real.arcsin (β / nzT I z)) := by
  rw [zIntUniform_deep distInt I z0 z1 zu β (lt_trans h01 h1u) h1u]
  exact deep_dist_lt_true I β hk ha hβ h01 h1

/-- An indirect path above `z_uniform`: its radial distance / length / time of flight (`z_integral`
over `z_from → z_turn` and `z_to → z_turn`) are the line integrals along both legs *up to the turning
depth itself* (improper integrals when the ray turns over refractively, `n(z_turn) = β`). -/
theorem C01_closed_form_to_turn (I : Ice) (hk : 0 < I.k) (ha : 0 < I.a) (zFrom zTo θ0 : ℝ)
    (hβ : betaTolerance < pathBeta I zFrom θ0)
    (huF : zUniform I ≤ zFrom) (huT : zUniform I ≤ zTo)
    (hF : zFrom ≤ pathZTurn I zFrom θ0) (hT : zTo ≤ pathZTurn I zFrom θ0)
    (hturn : pathBeta I zFrom θ0 ≤ nzT I (pathZTurn I zFrom θ0)) :
    zIntegral distInt I zFrom zTo θ0 false
      = (∫ z in zFrom..pathZTurn I zFrom θ0, Real.tan (Real.arcsin (pathBeta I zFrom θ0 / nzT I z)))
        + ∫ z in zTo..pathZTurn I zFrom θ0, Real.tan (Real.arcsin (pathBeta I zFrom θ0 / nzT I z)) ∧
    zIntegral pathInt I zFrom zTo θ0 false
      = (∫ z in zFrom..pathZTurn I zFrom θ0, 1 / Real.cos (Real.arcsin (pathBeta I zFrom θ0 / nzT I z)))
        + ∫ z in zTo..pathZTurn I zFrom θ0, 1 / Real.cos (Real.arcsin (pathBeta I zFrom θ0 / nzT I z)) ∧
    zIntegral tofInt I zFrom zTo θ0 false
      = (∫ z in zFrom..pathZTurn I zFrom θ0,
            nzT I z / cLight / Real.cos (Real.arcsin (pathBeta I zFrom θ0 / nzT I z)))
        + ∫ z in zTo..pathZTurn I zFrom θ0,
            nzT I z / cLight / Real.cos (Real.arcsin (pathBeta I zFrom θ0 / nzT I z)) := by
  set β := pathBeta I zFrom θ0 with hβdef
  set zt := pathZTurn I zFrom θ0 with hzt
  have hut : zUniform I ≤ zt := le_trans huF hF
  have e1 := C01_closed_form_eq_integral I β hk ha hβ zFrom zt (zUniform I) huF hut
    (by rw [max_eq_right hF]; exact hturn)
  have e2 := C01_closed_form_eq_integral I β hk ha hβ zTo zt (zUniform I) huT hut
    (by rw [max_eq_right hT]; exact hturn)
  unfold zIntegral
  simp only [Bool.false_eq_true, if_false, ← hβdef, ← hzt]
  exact ⟨by rw [e1.1, e2.1], by rw [e1.2.1, e2.2.1], by rw [e1.2.2, e2.2.2]⟩

/-! ## turning point, direct paths, launch angle -/

/-- `z_turn = depth_with_index(β)`: either the ray turns over refractively inside the ice
(`n(z_turn) = β`, i.e. `θ = π/2` there) or `β < n(hi)` and it reaches the surface (`z_turn = hi`) -/
theorem C01_turn_or_reflect (I : Ice) (hk : 0 < I.k) (ha : 0 < I.a) (hlh : I.lo ≤ I.hi) (β : ℝ)
    (h2 : β ≤ I.index I.lo) (h3 : β < I.n0) :
    (I.index I.hi ≤ β → I.index (I.depthWithIndex β) = β) ∧
    (β < I.index I.hi → I.depthWithIndex β = I.hi) :=
  turn_or_reflect I hk ha hlh β h2 h3

/-- a direct solution (launch angle at the lower endpoint in `[0, max_angle]`) has `β ≤ n(z)` on the
whole segment, strictly below the upper endpoint: it reaches the receiver depth without turning, so
its `z_integral` is the plain integral over `[z0, z1]`; and the vertical sense of the received
direction is that of the emitted one -/
theorem C01_direct_monotone (I : Ice) (hk : 0 < I.k) (ha : 0 < I.a) (zFrom zTo : ℝ)
    (h0 : I.lo ≤ tracerZ0 zFrom zTo) (h1 : tracerZ1 zFrom zTo ≤ I.hi)
    (hpos : 0 < I.index (tracerZ1 zFrom zTo)) (angle : ℝ) (hang0 : 0 ≤ angle)
    (hang : angle ≤ maxAngle I zFrom zTo) :
    (∀ z, tracerZ0 zFrom zTo ≤ z → z ≤ tracerZ1 zFrom zTo →
      I.index (tracerZ0 zFrom zTo) * Real.sin angle ≤ I.index z ∧
      (z < tracerZ1 zFrom zTo → I.index (tracerZ0 zFrom zTo) * Real.sin angle < I.index z)) ∧
    (∀ θ0 φ, (receivedDir I zFrom zTo θ0 φ true).z
        = Rsign (Real.cos θ0) * Real.cos (theta I zFrom θ0 zTo) ∧
      0 ≤ Real.cos (theta I zFrom θ0 zTo)) := by
  refine ⟨direct_never_turns I hk ha h0 (tracerZ0_le_tracerZ1 zFrom zTo) h1 hpos hang0 hang, ?_⟩
  intro θ0 φ
  refine ⟨by simp [receivedDir, Rcos], ?_⟩
  unfold theta; simp only [Rasin]; exact Real.cos_arcsin_nonneg _

/-- the angle handed to the path (`_get_launch_angle`, `direct_angle`) has the same `β` as the angle
found at the lower endpoint, points downward (`cos < 0` reversed) exactly when the source is the
higher point of a direct path, and upward for indirect paths -/
theorem C01_true_launch_angle (I : Ice) (zFrom zTo angle : ℝ) (hn : 0 < I.index zFrom)
    (hβ : |I.index (tracerZ0 zFrom zTo) * Real.sin angle| ≤ I.index zFrom) :
    pathBeta I zFrom (trueDirectAngle I zFrom zTo angle)
        = I.index (tracerZ0 zFrom zTo) * Real.sin angle ∧
    pathBeta I zFrom (trueIndirectAngle I zFrom zTo angle)
        = I.index (tracerZ0 zFrom zTo) * Real.sin angle ∧
    (zFrom > zTo → Real.cos (trueDirectAngle I zFrom zTo angle)
        = -Real.cos (convertAngle I zFrom zTo angle)) ∧
    (¬ zFrom > zTo → trueDirectAngle I zFrom zTo angle = convertAngle I zFrom zTo angle) ∧
    0 ≤ Real.cos (convertAngle I zFrom zTo angle) ∧
    0 ≤ Real.cos (trueIndirectAngle I zFrom zTo angle) := by
  have h := true_angle_same_beta I zFrom zTo angle hn hβ
  exact ⟨h.1, h.2.1, h.2.2.1, h.2.2.2.1, h.2.2.2.2, h.2.2.2.2⟩

/-! ## `expected_solutions` decision table -/

/-- the decision table of `expected_solutions`: an endpoint outside the ice gives no solution; otherwise
either none or exactly two solutions are expected, the last one always indirect (`[direct, indirect₁,
indirect₂]`): a direct one together with the low-angle indirect one when `ρ < direct_r_max`, the two
indirect ones when `direct_r_max ≤ ρ < indirect_r_max` -/
theorem C01_expected_solutions_table (cf ct : Bool) (ρ dmax imax : ℝ) :
    (¬ (cf = true ∧ ct = true) → expectedSolutions cf ct ρ dmax imax = [false, false, false]) ∧
    (cf = true → ct = true → ρ < dmax → expectedSolutions cf ct ρ dmax imax = [true, false, true]) ∧
    (cf = true → ct = true → dmax ≤ ρ → ρ < imax →
      expectedSolutions cf ct ρ dmax imax = [false, true, true]) ∧
    (cf = true → ct = true → dmax ≤ ρ → imax ≤ ρ →
      expectedSolutions cf ct ρ dmax imax = [false, false, false]) ∧
    ((expectedSolutions cf ct ρ dmax imax).count true = 0 ∨
      (expectedSolutions cf ct ρ dmax imax).count true = 2) := by
  unfold expectedSolutions
  refine ⟨?_, ?_, ?_, ?_, ?_⟩
  · intro h
    cases cf <;> cases ct <;> simp_all
  · intro h1 h2 h3; simp [h1, h2, h3]
  · intro h1 h2 h3 h4; simp [h1, h2, not_lt.mpr h3, h4]
  · intro h1 h2 h3 h4; simp [h1, h2, not_lt.mpr h3, not_lt.mpr h4]
  · split_ifs <;> simp

/-! ## numeric tracer: trapezoid rule on a monotone integrand -/

/-- composite trapezoid rule on `n` cells of width `h = (b−a)/n`, monotone integrand:
`|T − ∫| ≤ h (f b − f a)/2` -/
theorem C01_trap_monotone_error (f : ℝ → ℝ) (a b : ℝ) (hab : a ≤ b) (n : ℕ) (hn : 0 < n)
    (hf : MonotoneOn f (Icc a b)) :
    |trapSigned f a b n - ∫ x in a..b, f x| ≤ (b - a) / n * (f b - f a) / 2 ∧
    trapAbs f a b n = trapSigned f a b n :=
  ⟨trap_monotone_error f hab n hn hf, trapAbs_eq_trapSigned f hab n⟩

/-- instance for the numeric tracer's radial distance on a direct segment `[z0, z1]` (`β < n(z1)`):
the trapezoid sum of `tan θ` differs from the exact closed-form distance by at most
`h (tan θ(z1) − tan θ(z0))/2`, for every cell count (every `dz`) -/
theorem C01_basic_direct_r_error (I : Ice) (β : ℝ) (hk : 0 < I.k) (ha : 0 < I.a)
    (hβ : betaTolerance < β) (z0 z1 : ℝ) (h01 : z0 ≤ z1) (h1 : β < nzT I z1) (n : ℕ) (hn : 0 < n) :
    |trapSigned (fun z => Real.tan (Real.arcsin (β / nzT I z))) z0 z1 n
        - (distInt I z1 β false - distInt I z0 β false)|
      ≤ (z1 - z0) / n * (Real.tan (Real.arcsin (β / nzT I z1))
          - Real.tan (Real.arcsin (β / nzT I z0))) / 2 := by
  rw [dist_eq_integral I β hk ha hβ h01 h1.le]
  exact trap_monotone_error _ h01 n hn
    (tanTheta_monotoneOn I β hk ha (lt_trans betaTolerance_pos hβ) h1)

/-- `BasicRayTracer._indirect_r` is "trapezoid leg `z0 → ze` minus signed trapezoid leg `ze → z1`" with
the cut depth `ze = z_turn − dz/10` (definitional unfolding of the model) -/
theorem C01_basicIndirectR_unfold (I : Ice) (zFrom zTo angle dz : ℝ) :
    basicIndirectR I zFrom zTo angle dz =
      trapSigned (basicTan I zFrom zTo angle) (tracerZ0 zFrom zTo)
          (I.depthWithIndex (I.index (tracerZ0 zFrom zTo) * Real.sin angle) - dz / proximityDivisor)
          (nCells ((I.depthWithIndex (I.index (tracerZ0 zFrom zTo) * Real.sin angle) - dz / proximityDivisor
            - tracerZ0 zFrom zTo) / dz) 1)
        + -(trapSigned (basicTan I zFrom zTo angle)
          (I.depthWithIndex (I.index (tracerZ0 zFrom zTo) * Real.sin angle) - dz / proximityDivisor)
          (tracerZ1 zFrom zTo)
          (nCells ((I.depthWithIndex (I.index (tracerZ0 zFrom zTo) * Real.sin angle) - dz / proximityDivisor
            - tracerZ1 zFrom zTo) / dz) 1)) := rfl

/-- numeric *indirect* path, refractive turn-over (`n(z_t) = β`): the two trapezoid legs up to the cut
depth `ze < z_t` differ from the exact two-leg radial distance up to the turning depth by at most the two
monotone-trapezoid bounds plus twice the cut-off piece, which is `≤ 2β√(z_t − ze)/√(2β k a e^{a ze})`
(`z_t − ze = dz/10` in the code, so the cut costs `O(√dz)`) -/
theorem C01_basic_indirect_error (I : Ice) (β : ℝ) (hk : 0 < I.k) (ha : 0 < I.a)
    (hβ : betaTolerance < β) (z0 z1 ze zt : ℝ) (h0 : z0 ≤ ze) (h1 : z1 ≤ ze) (he : ze < zt)
    (hturn : nzT I zt = β) (n1 n2 : ℕ) (hn1 : 0 < n1) (hn2 : 0 < n2) :
    |(trapSigned (fun z => Real.tan (Real.arcsin (β / nzT I z))) z0 ze n1
        + -(trapSigned (fun z => Real.tan (Real.arcsin (β / nzT I z))) ze z1 n2))
      - ((distInt I zt β false - distInt I z0 β false) + (distInt I zt β false - distInt I z1 β false))|
    ≤ (ze - z0) / n1 * (Real.tan (Real.arcsin (β / nzT I ze)) - Real.tan (Real.arcsin (β / nzT I z0))) / 2
      + (ze - z1) / n2 * (Real.tan (Real.arcsin (β / nzT I ze)) - Real.tan (Real.arcsin (β / nzT I z1))) / 2
      + 2 * (2 * β * Real.sqrt (zt - ze) / Real.sqrt (2 * β * (I.k * I.a * Real.exp (I.a * ze)))) := by
  have hlt : β < nzT I ze := by rw [← hturn]; exact nzT_strictAnti I hk ha he
  exact indirect_error I β hk ha hβ h0 h1 hlt (cut_bound_turn I β hk ha hβ hturn he) n1 n2 hn1 hn2

/-- numeric indirect path, surface reflection (`β < n(z_t)`, `z_t = hi`): same, the cut-off piece is
`≤ (z_t − ze) tan θ(z_t)` (`O(dz)`) -/
theorem C01_basic_indirect_error_reflect (I : Ice) (β : ℝ) (hk : 0 < I.k) (ha : 0 < I.a)
    (hβ : betaTolerance < β) (z0 z1 ze zt : ℝ) (h0 : z0 ≤ ze) (h1 : z1 ≤ ze) (he : ze ≤ zt)
    (hrefl : β < nzT I zt) (n1 n2 : ℕ) (hn1 : 0 < n1) (hn2 : 0 < n2) :
    |(trapSigned (fun z => Real.tan (Real.arcsin (β / nzT I z))) z0 ze n1
        + -(trapSigned (fun z => Real.tan (Real.arcsin (β / nzT I z))) ze z1 n2))
      - ((distInt I zt β false - distInt I z0 β false) + (distInt I zt β false - distInt I z1 β false))|
    ≤ (ze - z0) / n1 * (Real.tan (Real.arcsin (β / nzT I ze)) - Real.tan (Real.arcsin (β / nzT I z0))) / 2
      + (ze - z1) / n2 * (Real.tan (Real.arcsin (β / nzT I ze)) - Real.tan (Real.arcsin (β / nzT I z1))) / 2
      + 2 * ((zt - ze) * Real.tan (Real.arcsin (β / nzT I zt))) := by
  have hlt : β < nzT I ze := by
    rcases eq_or_lt_of_le he with rfl | h
    · exact hrefl
    · exact lt_trans hrefl (nzT_strictAnti I hk ha h)
  exact indirect_error I β hk ha hβ h0 h1 hlt (cut_bound_reflect I β hk ha hβ hrefl he) n1 n2 hn1 hn2

/-! ## near-vertical branch (known finding K3) -/

/-- for `|β| ≤ beta_tolerance` the code (and the model) returns distance `0`, length `z`, and the
vertical time of flight; the true radial distance of such a ray over `[z0, z1]` is between `0` and
`β Δz/√(n_min² − β²) ≤ tol Δz/√(n_min² − tol²)`: the size of the approximation behind K3 -/
theorem C01_near_vertical_branch (I : Ice) (β : ℝ) (hβ0 : 0 ≤ β) (hβ : β ≤ betaTolerance)
    (z0 z1 nmin : ℝ) (h01 : z0 ≤ z1) (hmin : betaTolerance < nmin)
    (hn : ∀ z ∈ Icc z0 z1, nmin ≤ nzT I z) :
    (∀ z, distInt I z β false = 0 ∧ pathInt I z β false = z ∧
      tofInt I z β false = ((nzT I z - I.n0) / I.a + I.n0 * z) / cLight) ∧
    0 ≤ ∫ z in z0..z1, Real.tan (Real.arcsin (β / nzT I z)) ∧
    ∫ z in z0..z1, Real.tan (Real.arcsin (β / nzT I z))
      ≤ betaTolerance * (z1 - z0) / Real.sqrt (nmin * nmin - betaTolerance * betaTolerance) := by
  have habs : |β| ≤ betaTolerance := by rwa [abs_of_nonneg hβ0]
  have hb := near_vertical_dist_bound I β hβ0 h01 (lt_of_le_of_lt hβ hmin) hn
  refine ⟨fun z => near_vertical_values I β habs z, hb.1, le_trans hb.2 ?_⟩
  have hnm : 0 < nmin := lt_trans betaTolerance_pos hmin
  have hg : 0 < nmin * nmin - betaTolerance * betaTolerance := by nlinarith [betaTolerance_pos]
  have hsq : Real.sqrt (nmin * nmin - betaTolerance * betaTolerance)
      ≤ Real.sqrt (nmin * nmin - β * β) := Real.sqrt_le_sqrt (by nlinarith)
  have hz : 0 ≤ z1 - z0 := by linarith
  calc β * (z1 - z0) / Real.sqrt (nmin * nmin - β * β)
      ≤ β * (z1 - z0) / Real.sqrt (nmin * nmin - betaTolerance * betaTolerance) :=
        div_le_div_of_nonneg_left (mul_nonneg hβ0 hz) (Real.sqrt_pos.mpr hg) hsq
    _ ≤ betaTolerance * (z1 - z0) / Real.sqrt (nmin * nmin - betaTolerance * betaTolerance) := by
        apply div_le_div_of_nonneg_right _ (Real.sqrt_nonneg _)
        exact mul_le_mul_of_nonneg_right hβ hz

/-! ## non-vacuity: the shipped Antarctic parameters meet the hypotheses -/
private def antarctic : Ice := ⟨1.78, 0.43, 0.0132, -2850, 0, some 1, none⟩

private lemma antarctic_nz_ge (z : ℝ) (hz : z ≤ 0) : (1.35 : ℝ) ≤ nzT antarctic z := by
  unfold nzT antarctic
  simp only [Rexp]
  have : Real.exp (0.0132 * z) ≤ 1 := Real.exp_le_one_iff.mpr (by nlinarith)
  nlinarith

/-- derivative theorems: `β = 1` at depth −100 m -/
example : 0 < antarctic.k ∧ 0 < antarctic.a ∧ 0 < nzT antarctic (-100) ∧
    (1 : ℝ) * 1 < nzT antarctic (-100) * nzT antarctic (-100) ∧ betaTolerance < |(1 : ℝ)| := by
  have h := antarctic_nz_ge (-100) (by norm_num)
  refine ⟨by simp only [antarctic]; norm_num, by simp only [antarctic]; norm_num, by linarith,
    by nlinarith, ?_⟩
  rw [abs_one]; unfold betaTolerance
  simp only [RofNat, RayConstants.betaToleranceNum, RayConstants.betaToleranceDen]; norm_num

/-- FTC theorem: the segment [−300, −100] with `β = 1`, any `z_uniform ≤ −300` -/
example : betaTolerance < (1 : ℝ) ∧ (-400 : ℝ) ≤ -300 ∧ (-400 : ℝ) ≤ -100 ∧
    (1 : ℝ) ≤ nzT antarctic (max (-300) (-100)) := by
  have h := antarctic_nz_ge (max (-300) (-100)) (by simp)
  refine ⟨?_, by norm_num, by norm_num, by linarith⟩
  unfold betaTolerance
  simp only [RofNat, RayConstants.betaToleranceNum, RayConstants.betaToleranceDen]; norm_num

/-- near-vertical theorem: `β = 0.004`, `n_min = 1.35` on [−500, −100] -/
example : (0 : ℝ) ≤ 0.004 ∧ (0.004 : ℝ) ≤ betaTolerance ∧ betaTolerance < (1.35 : ℝ) ∧
    ∀ z ∈ Icc (-500 : ℝ) (-100), (1.35 : ℝ) ≤ nzT antarctic z := by
  refine ⟨by norm_num, ?_, ?_, fun z hz => antarctic_nz_ge z (by linarith [hz.2])⟩ <;>
  · unfold betaTolerance
    simp only [RofNat, RayConstants.betaToleranceNum, RayConstants.betaToleranceDen]; norm_num

/-- trapezoid theorem: a monotone integrand and a positive cell count exist -/
example : MonotoneOn (fun x : ℝ => x) (Icc 0 1) ∧ (0 : ℕ) < 4 := ⟨fun _ _ _ _ h => h, by norm_num⟩

/-- numeric-indirect theorem: a turning ray exists (`β = n(−100)` turns at −100 m; legs from −300/−200 up to
the cut depth −100.1) -/
example : betaTolerance < nzT antarctic (-100) ∧ (-300 : ℝ) ≤ -100.1 ∧ (-200 : ℝ) ≤ -100.1 ∧
    (-100.1 : ℝ) < -100 ∧ nzT antarctic (-100) = nzT antarctic (-100) := by
  have h := antarctic_nz_ge (-100) (by norm_num)
  refine ⟨?_, by norm_num, by norm_num, by norm_num, rfl⟩
  have : betaTolerance < (1.35 : ℝ) := by
    unfold betaTolerance
    simp only [RofNat, RayConstants.betaToleranceNum, RayConstants.betaToleranceDen]; norm_num
  linarith

/-- Snell / launch-reception theorems: a ray launched downward (2.5 rad) from −100 m, received at −300 m -/
example : 0 < antarctic.index (-100) ∧ 0 < antarctic.index (-300) ∧
    |pathBeta antarctic (-100) 2.5| ≤ antarctic.index (-300) := by
  have i1 : antarctic.index (-300) = nzT antarctic (-300) :=
    index_eq_nzT antarctic (-300) (by simp only [antarctic]; norm_num) (by simp only [antarctic]; norm_num)
  have i2 : antarctic.index (-100) = nzT antarctic (-100) :=
    index_eq_nzT antarctic (-100) (by simp only [antarctic]; norm_num) (by simp only [antarctic]; norm_num)
  have h1 := antarctic_nz_ge (-300) (by norm_num)
  have h2 := antarctic_nz_ge (-100) (by norm_num)
  have hmono : nzT antarctic (-100) < nzT antarctic (-300) :=
    nzT_strictAnti antarctic (by simp only [antarctic]; norm_num) (by simp only [antarctic]; norm_num)
      (by norm_num : (-300 : ℝ) < -100)
  refine ⟨by rw [i2]; linarith, by rw [i1]; linarith, ?_⟩
  unfold pathBeta
  rw [i1, i2, abs_mul, abs_of_pos (by linarith : 0 < nzT antarctic (-100))]
  have hs : |Real.sin (2.5 : ℝ)| ≤ 1 := Real.abs_sin_le_one _
  calc nzT antarctic (-100) * |Real.sin (2.5 : ℝ)| ≤ nzT antarctic (-100) * 1 :=
        mul_le_mul_of_nonneg_left hs (by linarith)
    _ ≤ nzT antarctic (-300) := by linarith

/-- deep-index bound: hypotheses hold for the Antarctic ice (the bound depth exists: take it itself) -/
example : 0 < antarctic.k ∧ 0 < antarctic.a ∧ 0 < antarctic.n0 ∧
    ∃ z : ℝ, z ≤ Real.log ((antarctic.n0 - antarctic.n0 * uniformityFactor) / antarctic.k) / antarctic.a :=
  ⟨by simp only [antarctic]; norm_num, by simp only [antarctic]; norm_num, by simp only [antarctic]; norm_num,
    ⟨_, le_refl _⟩⟩

/-- crossing theorem: `z0 = −900 < z_u = −765 ≤ z1 = −100`, `β = 1` -/
example : betaTolerance < (1 : ℝ) ∧ (-900 : ℝ) < -765 ∧ (-765 : ℝ) ≤ -100 ∧ (1 : ℝ) ≤ nzT antarctic (-100) := by
  have h := antarctic_nz_ge (-100) (by norm_num)
  refine ⟨?_, by norm_num, by norm_num, by linarith⟩
  unfold betaTolerance
  simp only [RofNat, RayConstants.betaToleranceNum, RayConstants.betaToleranceDen]; norm_num

/-- turning-point dichotomy: `β = 1.2 < n(hi) = 1.35` reflects at the surface of the Antarctic ice -/
example : 0 < antarctic.k ∧ 0 < antarctic.a ∧ antarctic.lo ≤ antarctic.hi ∧
    (1.2 : ℝ) ≤ antarctic.index antarctic.lo ∧ (1.2 : ℝ) < antarctic.n0 ∧ (1.2 : ℝ) < antarctic.index antarctic.hi := by
  have ilo : antarctic.index antarctic.lo = nzT antarctic antarctic.lo :=
    index_eq_nzT antarctic _ (le_refl _) (by simp only [antarctic]; norm_num)
  have ihi : antarctic.index antarctic.hi = nzT antarctic antarctic.hi :=
    index_eq_nzT antarctic _ (by simp only [antarctic]; norm_num) (le_refl _)
  have h1 := antarctic_nz_ge antarctic.lo (by simp only [antarctic]; norm_num)
  have h2 := antarctic_nz_ge antarctic.hi (by simp only [antarctic]; norm_num)
  refine ⟨by simp only [antarctic]; norm_num, by simp only [antarctic]; norm_num,
    by simp only [antarctic]; norm_num, by rw [ilo]; linarith, by simp only [antarctic]; norm_num,
    by rw [ihi]; linarith⟩

/-- direct-path theorem: from −300 m up to −100 m, launch angle 0 ≤ max_angle -/
example : antarctic.lo ≤ tracerZ0 (-300) (-100) ∧ tracerZ1 (-300) (-100) ≤ antarctic.hi ∧
    0 < antarctic.index (tracerZ1 (-300) (-100)) ∧ (0 : ℝ) ≤ maxAngle antarctic (-300) (-100) := by
  have hz0 : tracerZ0 (-300 : ℝ) (-100) = -300 := by unfold tracerZ0; norm_num
  have hz1 : tracerZ1 (-300 : ℝ) (-100) = -100 := by unfold tracerZ1; norm_num
  have i1 : antarctic.index (-300) = nzT antarctic (-300) :=
    index_eq_nzT antarctic (-300) (by simp only [antarctic]; norm_num) (by simp only [antarctic]; norm_num)
  have i2 : antarctic.index (-100) = nzT antarctic (-100) :=
    index_eq_nzT antarctic (-100) (by simp only [antarctic]; norm_num) (by simp only [antarctic]; norm_num)
  have h1 := antarctic_nz_ge (-300) (by norm_num)
  have h2 := antarctic_nz_ge (-100) (by norm_num)
  refine ⟨by rw [hz0]; simp only [antarctic]; norm_num, by rw [hz1]; simp only [antarctic]; norm_num,
    by rw [hz1, i2]; linarith, ?_⟩
  unfold maxAngle; rw [hz0, hz1, i1, i2]; simp only [Rasin]
  exact Real.arcsin_nonneg.mpr (div_nonneg (by linarith) (by linarith))

/-- launch-angle conversion: low-to-high angle 0 from the higher point −100 m towards −300 m -/
example : 0 < antarctic.index (-100) ∧
    |antarctic.index (tracerZ0 (-100) (-300)) * Real.sin 0| ≤ antarctic.index (-100) := by
  have i2 : antarctic.index (-100) = nzT antarctic (-100) :=
    index_eq_nzT antarctic (-100) (by simp only [antarctic]; norm_num) (by simp only [antarctic]; norm_num)
  have h2 := antarctic_nz_ge (-100) (by norm_num)
  refine ⟨by rw [i2]; linarith, ?_⟩
  rw [Real.sin_zero, mul_zero, abs_zero, i2]; linarith

/-- witness for `C01_deep_branch_not_exact` / `C01_crossing_integrals`: Antarctic ice, `β = 1`, the deep
segment [−1000, −900] below `z_u = −765` resp. the crossing segment [−1000, −100] -/
example : 0 < antarctic.k ∧ 0 < antarctic.a ∧ (0 : ℝ) < 1 ∧ (-1000 : ℝ) < -900 ∧ (-900 : ℝ) < -765 ∧
    (1 : ℝ) < nzT antarctic (-900) ∧ (-1000 : ℝ) < -765 ∧ (-765 : ℝ) ≤ -100 ∧ (1 : ℝ) ≤ nzT antarctic (-100) := by
  have h1 := antarctic_nz_ge (-900) (by norm_num)
  have h2 := antarctic_nz_ge (-100) (by norm_num)
  refine ⟨by simp only [antarctic]; norm_num, by simp only [antarctic]; norm_num, by norm_num, by norm_num,
    by norm_num, by linarith, by norm_num, by norm_num, by linarith⟩
