import PyrexVerif.R.Geom
import PyrexVerif.R.Uniform
import PyrexVerif.Proofs.RayGeom
import PyrexVerif.Proofs.UniformImage
import PyrexVerif.Proofs.UniformAtten
import PyrexVerif.Proofs.RaySpec
import Mathlib.Analysis.SpecialFunctions.Trigonometric.Inverse
import Mathlib.Analysis.SpecialFunctions.Trigonometric.Angle
import Mathlib.Tactic.LinearCombination
import Mathlib.Tactic.Linarith
import Mathlib.Tactic.FieldSimp
/-!
# C02 — ray solution sets respect reciprocity and the symmetries of stratified ice

Theorems about the ℝ-reading of `twin/Geom.body` and `twin/Uniform.body`; the Float reading of the same
text is what `Drivers/C02.lean` runs against the four tracers.  A rigid motion of the stratified medium is
`rigid c s tx ty` with `c² + s² = 1` (rotation about the vertical, then a horizontal shift).
-/
open PyrexR PyrexR.Geo PyrexR.Uni PyrexProofs

/-- the radial separation is invariant under rotations about the vertical and horizontal translations -/
theorem C02_rho_rigid (c s tx ty : ℝ) (h : c ^ 2 + s ^ 2 = 1) (p q : P3) :
    rho (rigid c s tx ty p) (rigid c s tx ty q) = rho p q := by
  rw [rho_eq_norm, rho_eq_norm, sep_rigid, norm_mul, norm_cs c s h, one_mul]

/-- the horizontal unit vector `(cos φ, sin φ)` of the separation is rotated with the geometry -/
theorem C02_phi_rigid (c s tx ty : ℝ) (h : c ^ 2 + s ^ 2 = 1) (p q : P3) (hne : rho p q ≠ 0) :
    Real.cos (phi (rigid c s tx ty p) (rigid c s tx ty q)) = c * Real.cos (phi p q) - s * Real.sin (phi p q) ∧
    Real.sin (phi (rigid c s tx ty p) (rigid c s tx ty q)) = s * Real.cos (phi p q) + c * Real.sin (phi p q) := by
  have hr := C02_rho_rigid c s tx ty h p q
  have hne' : rho (rigid c s tx ty p) (rigid c s tx ty q) ≠ 0 := by rw [hr]; exact hne
  rw [cos_phi _ _ hne', sin_phi, cos_phi _ _ hne, sin_phi, hr]
  constructor <;> (simp only [rigid, shiftH, rotZ]; field_simp; ring)

/-- the depths and the vertical separation are untouched by a rigid motion -/
theorem C02_rigid_keeps_depth (c s tx ty : ℝ) (p : P3) : (rigid c s tx ty p).z = p.z := rfl

/-! ## a gradient-index solution set factors through `(z_from, z_to, rho)` -/

/-- lengths, times, attenuations and vertical direction components are those of the scalar solution computed from
`(z_from, z_to, rho)`; horizontal components are `(cos φ, sin φ)` times a function of the same triple -/
theorem C02_solution_factors (M : GradMedium) (p q : P3) :
    gradSolve M p q = (gradScalar M p.z q.z (rho p q)).map (place (phi p q)) ∧
    ∀ (ph : ℝ) (s : ScalarSol),
      (place ph s).len = s.len ∧ (place ph s).tof = s.tof ∧ (place ph s).att = s.att ∧
      (place ph s).emitted.z = s.ez ∧ (place ph s).received.z = s.rz ∧
      (place ph s).emitted.x = s.eh * Real.cos ph ∧ (place ph s).emitted.y = s.eh * Real.sin ph ∧
      (place ph s).received.x = s.rh * Real.cos ph ∧ (place ph s).received.y = s.rh * Real.sin ph :=
  ⟨rfl, fun _ _ => ⟨rfl, rfl, rfl, rfl, rfl, rfl, rfl, rfl, rfl⟩⟩

/-- … hence two endpoint pairs with the same depths and the same radial separation have solution sets that differ
only by the azimuth at which they are placed -/
theorem C02_same_triple_same_scalars (M : GradMedium) (p q p' q' : P3)
    (hp : p'.z = p.z) (hq : q'.z = q.z) (hr : rho p' q' = rho p q) :
    ∃ ss : List ScalarSol, gradSolve M p q = ss.map (place (phi p q)) ∧
      gradSolve M p' q' = ss.map (place (phi p' q')) :=
  ⟨gradScalar M p.z q.z (rho p q), rfl, by simp [gradSolve, hp, hq, hr]⟩

/-- rigid-motion covariance of the whole solution set: same scalar solutions (lengths, times, attenuations, vertical
components), horizontal components rotated -/
theorem C02_rigid_covariance (M : GradMedium) (c s tx ty : ℝ) (h : c ^ 2 + s ^ 2 = 1) (p q : P3)
    (hne : rho p q ≠ 0) :
    ∃ ss : List ScalarSol, gradSolve M p q = ss.map (place (phi p q)) ∧
      gradSolve M (rigid c s tx ty p) (rigid c s tx ty q) =
        ss.map (place (phi (rigid c s tx ty p) (rigid c s tx ty q))) ∧
      ∀ sol ∈ ss,
        (place (phi (rigid c s tx ty p) (rigid c s tx ty q)) sol).emitted =
          rotZ c s (place (phi p q) sol).emitted ∧
        (place (phi (rigid c s tx ty p) (rigid c s tx ty q)) sol).received =
          rotZ c s (place (phi p q) sol).received := by
  obtain ⟨ss, h1, h2⟩ := C02_same_triple_same_scalars M p q (rigid c s tx ty p) (rigid c s tx ty q) rfl rfl
    (C02_rho_rigid c s tx ty h p q)
  refine ⟨ss, h1, h2, ?_⟩
  intro sol _
  obtain ⟨hc, hs⟩ := C02_phi_rigid c s tx ty h p q hne
  simp only [place, rotZ, Rcos, Rsin, hc, hs]
  constructor <;> (congr 1 <;> ring)

/-- the abstract medium instantiated with the closed forms of property C01 (`twin/Ray.body`): every solution of the
Specialized tracer carries `Ray.specPathLength` / `Ray.specTof` of `(z_from, z_to, theta0, direct)` — functions that do
not see x, y — and its directions are `Ray.emittedDir` / `Ray.receivedDir` at the azimuth of the pair; so the rigid-motion
and same-triple theorems above apply verbatim to the model C01 is proved about -/
theorem C02_specialized_instance (I : Ice) (root : Nat → ℝ → ℝ → ℝ → Option ℝ) (imax : ℝ → ℝ → ℝ)
    (att : ℝ → ℝ → ℝ → Bool → ℝ → ℝ) (p q : P3) :
    ∀ s ∈ gradScalar (specMedium I root imax att) p.z q.z (rho p q),
      (place (phi p q) s).len = Ray.specPathLength I p.z q.z s.theta0 s.direct ∧
      (place (phi p q) s).tof = Ray.specTof I p.z q.z s.theta0 s.direct ∧
      ((place (phi p q) s).emitted.x = (Ray.emittedDir s.theta0 (phi p q)).x ∧
       (place (phi p q) s).emitted.y = (Ray.emittedDir s.theta0 (phi p q)).y ∧
       (place (phi p q) s).emitted.z = (Ray.emittedDir s.theta0 (phi p q)).z) ∧
      ((place (phi p q) s).received.x = (Ray.receivedDir I p.z q.z s.theta0 (phi p q) s.direct).x ∧
       (place (phi p q) s).received.y = (Ray.receivedDir I p.z q.z s.theta0 (phi p q) s.direct).y ∧
       (place (phi p q) s).received.z = (Ray.receivedDir I p.z q.z s.theta0 (phi p q) s.direct).z) := by
  intro s hs
  unfold gradScalar at hs
  simp only [List.mem_map] at hs
  obtain ⟨g, _, rfl⟩ := hs
  refine ⟨rfl, rfl, ⟨rfl, rfl, ?_⟩, ?_⟩
  · simp [place, scalarSol, emitted, dirOf, Ray.emittedDir]
  · simp only [place, scalarSol, received, thetaAt, Ray.receivedDir, Ray.theta, specMedium, sgn_eq_Rsign]
    cases g.direct <;> simp

/-! ## reciprocity -/

/-- swapping the endpoints leaves the root problem of the tracer (`z0 = min`, `z1 = max`, `rho`) unchanged -/
theorem C02_reciprocity_root_problem (p q : P3) :
    zLow q p = zLow p q ∧ zHigh q p = zHigh p q ∧ rho q p = rho p q := by
  refine ⟨?_, ?_, ?_⟩
  · unfold zLow; split_ifs <;> linarith
  · unfold zHigh; split_ifs <;> linarith
  · rw [rho_eq_norm, rho_eq_norm, sep_swap, norm_neg]

/-- `φ(q,p) = φ(p,q) + π` (as angles), i.e. the horizontal unit vector is reversed -/
theorem C02_reciprocity_phi (p q : P3) (hne : rho p q ≠ 0) :
    ((phi q p : ℝ) : Real.Angle) = (phi p q : ℝ) + Real.pi ∧
    Real.cos (phi q p) = - Real.cos (phi p q) ∧ Real.sin (phi q p) = - Real.sin (phi p q) := by
  have hr := (C02_reciprocity_root_problem p q).2.2
  have hne' : rho q p ≠ 0 := by rw [hr]; exact hne
  refine ⟨?_, ?_, ?_⟩
  · rw [phi_eq_arg, phi_eq_arg, sep_swap]; exact Complex.arg_neg_coe_angle (sep_ne_zero hne)
  · rw [cos_phi _ _ hne', cos_phi _ _ hne, hr]; ring
  · rw [sin_phi, sin_phi, hr]; ring

/-- both directions of travel have the same Snell invariant `β = n(z_low) sin a`, `a` the root of the common
low-to-high problem -/
theorem C02_reciprocity_beta (i : Nat) (fromHigher : Bool) (a nLow nFrom : ℝ) (hn : 0 < nFrom)
    (h1 : -1 ≤ Real.sin a * nLow / nFrom) (h2 : Real.sin a * nLow / nFrom ≤ 1) :
    betaOf nFrom (launchAngle i fromHigher a nLow nFrom) = nLow * Real.sin a := by
  have hs : Real.sin (Real.arcsin (Real.sin a * nLow / nFrom)) = Real.sin a * nLow / nFrom :=
    Real.sin_arcsin h1 h2
  have key : nFrom * (Real.sin a * nLow / nFrom) = nLow * Real.sin a := by field_simp
  unfold betaOf launchAngle directAngle trueLaunch
  split_ifs <;> simp only [Rsin, Rasin, Rpi, Real.sin_pi_sub, hs, key]

/-- the path integrals (`z_integral` then `abs`) are symmetric under the swap when the one-sided integral is
antisymmetric (closed forms `F b − F a`) or symmetric (trapezoid sums with `abs(dz)`) -/
theorem C02_reciprocity_integrals (G : ℝ → ℝ → ℝ) (direct : Bool) (zf zt zturn : ℝ)
    (hG : (∀ a b, G a b = - G b a) ∨ (∀ a b, G a b = G b a)) :
    pathQuantity G direct zf zt zturn = pathQuantity G direct zt zf zturn := by
  unfold pathQuantity
  cases direct
  · simp only [Bool.false_eq_true, if_false, add_comm]
  · simp only [if_true, Rabs]
    rcases hG with h | h
    · rw [h zf zt, abs_neg]
    · rw [h zf zt]

/-- emitted and received directions are exchanged and reversed.  `a ∈ [0, π/2)` is the root of the low-to-high
problem, `nl`/`nh` the indices at the lower/higher endpoint, `ph'` the azimuth of the reversed pair. -/
theorem C02_reciprocity_directions (i : Nat) (a nl nh ph ph' : ℝ) (ha0 : 0 ≤ a) (ha1 : a < Real.pi / 2)
    (hnl : 0 < nl) (hnh : 0 < nh) (hx : Real.sin a * nl / nh < 1)
    (hc : Real.cos ph' = - Real.cos ph) (hs : Real.sin ph' = - Real.sin ph) :
    emitted (launchAngle i true a nl nh) ph' =
      (received (decide (i = 0)) (launchAngle i false a nl nl) nl nh ph).neg ∧
    received (decide (i = 0)) (launchAngle i true a nl nh) nh nl ph' =
      (emitted (launchAngle i false a nl nl) ph).neg := by
  have hsin0 : 0 ≤ Real.sin a := Real.sin_nonneg_of_nonneg_of_le_pi ha0 (by linarith [Real.pi_pos])
  have hcosa : 0 < Real.cos a := Real.cos_pos_of_mem_Ioo ⟨by linarith [Real.pi_pos], ha1⟩
  set x := Real.sin a * nl / nh with hxdef
  have hx0 : 0 ≤ x := by positivity
  have hsx : Real.sin (Real.arcsin x) = x := Real.sin_arcsin (by linarith) (le_of_lt hx)
  have hcx : Real.cos (Real.arcsin x) = Real.sqrt (1 - x ^ 2) := Real.cos_arcsin x
  have hsq : 0 < Real.sqrt (1 - x ^ 2) := Real.sqrt_pos.mpr (by nlinarith)
  have hself : Real.sin a * nl / nl = Real.sin a := by field_simp
  have hasin : Real.arcsin (Real.sin a) = a :=
    Real.arcsin_sin (by linarith [Real.pi_pos]) (le_of_lt ha1)
  have hback : x * nh / nl = Real.sin a := by rw [hxdef]; field_simp
  by_cases hi : i = 0
  · subst hi
    simp only [launchAngle, directAngle, trueLaunch, emitted, received, dirOf, thetaAt, P3.neg, sgn,
      Rsin, Rcos, Rasin, Rpi, if_true, decide_true, hself, hasin, ← hxdef, Real.sin_pi_sub,
      Real.cos_pi_sub, hsx, hcx, hback, hc, hs, hcosa, Bool.false_eq_true, if_false]
    have hneg : ¬ (0 < -Real.sqrt (1 - x ^ 2)) := by linarith
    have hneg' : -Real.sqrt (1 - x ^ 2) < 0 := by linarith
    simp only [hneg, hneg', if_true, if_false]
    constructor <;> (congr 1 <;> ring)
  · simp only [launchAngle, hi, directAngle, trueLaunch, emitted, received, dirOf, thetaAt, P3.neg,
      Rsin, Rcos, Rasin, if_false, decide_false, hself, hasin, ← hxdef, hsx, hcx, hback, hc, hs,
      Bool.false_eq_true]
    constructor <;> (congr 1 <;> ring)

/-! ## existence and count -/

/-- `expected_solutions` only takes the values FFF, TFT, FTT -/
theorem C02_expected_table (cf ct : Bool) (rh dmax imax : ℝ) :
    expectedSolutions cf ct rh dmax imax = (false, false, false) ∨
    expectedSolutions cf ct rh dmax imax = (true, false, true) ∨
    expectedSolutions cf ct rh dmax imax = (false, true, true) := by
  unfold expectedSolutions; split_ifs <;> simp

/-- a gradient-index tracer whose root finder returns an angle whenever one is expected reports no solution or two -/
theorem C02_zero_or_two (M : GradMedium) (zf zt rh : ℝ)
    (htotal : ∀ i z0 z1 r, (M.root i z0 z1 r).isSome = true) :
    (gradScalar M zf zt rh).length = 0 ∨ (gradScalar M zf zt rh).length = 2 := by
  unfold gradScalar
  simp only [List.length_map]
  set zl := (if zt < zf then zt else zf)
  set zh := (if zf < zt then zt else zf)
  have r0 := htotal 0 zl zh rh
  have r1 := htotal 1 zl zh rh
  have r2 := htotal 2 zl zh rh
  obtain ⟨v0, h0⟩ := Option.isSome_iff_exists.mp r0
  obtain ⟨v1, h1⟩ := Option.isSome_iff_exists.mp r1
  obtain ⟨v2, h2⟩ := Option.isSome_iff_exists.mp r2
  rcases C02_expected_table (M.contains zf) (M.contains zt) rh (M.dmax zl zh) (M.imax zl zh) with h | h | h <;>
    simp [h, gradSolutions, h0, h1, h2]

/-- `exists` (`True in expected_solutions`) holds exactly when the solution list is non-empty -/
theorem C02_exists_iff_nonempty (M : GradMedium) (zf zt rh : ℝ)
    (htotal : ∀ i z0 z1 r, (M.root i z0 z1 r).isSome = true) :
    existsOf (expectedSolutions (M.contains zf) (M.contains zt) rh
        (M.dmax (if zt < zf then zt else zf) (if zf < zt then zt else zf))
        (M.imax (if zt < zf then zt else zf) (if zf < zt then zt else zf))) = true ↔
      gradScalar M zf zt rh ≠ [] := by
  unfold gradScalar
  set zl := (if zt < zf then zt else zf)
  set zh := (if zf < zt then zt else zf)
  obtain ⟨v0, h0⟩ := Option.isSome_iff_exists.mp (htotal 0 zl zh rh)
  obtain ⟨v1, h1⟩ := Option.isSome_iff_exists.mp (htotal 1 zl zh rh)
  obtain ⟨v2, h2⟩ := Option.isSome_iff_exists.mp (htotal 2 zl zh rh)
  rcases C02_expected_table (M.contains zf) (M.contains zt) rh (M.dmax zl zh) (M.imax zl zh) with h | h | h <;>
    simp [h, existsOf, gradSolutions, h0, h1, h2]

/-- the number of reported solutions is the number of expected ones whatever the VALUES of the launch angles are —
in particular a launch angle of exactly `0` (an exactly vertical pair, `rho = 0`) is a solution like any other -/
theorem C02_count_independent_of_angle_value (cf ct : Bool) (rh dmax imax a0 a1 a2 : ℝ) :
    (gradSolutions (expectedSolutions cf ct rh dmax imax) (some a0) (some a1) (some a2)).length =
      countOf (expectedSolutions cf ct rh dmax imax) := by
  rcases C02_expected_table cf ct rh dmax imax with h | h | h <;> simp [h, gradSolutions, countOf]

/-- exactly vertical pairs: `rho = 0` exactly when the endpoints share x and y; the launch angles `0` and `π` then
give the directions straight up and straight down, at any azimuth -/
theorem C02_vertical_pairs (p q : P3) (ph : ℝ) :
    (rho p q = 0 ↔ (q.x = p.x ∧ q.y = p.y)) ∧
    emitted 0 ph = ⟨0, 0, 1⟩ ∧ emitted Real.pi ph = ⟨0, 0, -1⟩ := by
  refine ⟨?_, ?_, ?_⟩
  · constructor
    · intro h
      have h0 : (q.x - p.x) * (q.x - p.x) + (q.y - p.y) * (q.y - p.y) ≤ 0 := by
        simp only [rho, Rsqrt] at h; exact Real.sqrt_eq_zero'.mp h
      constructor <;> nlinarith [mul_self_nonneg (q.x - p.x), mul_self_nonneg (q.y - p.y)]
    · rintro ⟨hx, hy⟩
      simp [rho, Rsqrt, hx, hy]
  · simp [emitted, dirOf, Rsin, Rcos]
  · simp [emitted, dirOf, Rsin, Rcos]

/-- the case `rho = 0` excluded from `C02_phi_rigid` / `C02_rigid_covariance`: a solution without horizontal components
(vertical ray: launch angle 0 or π) is placed identically at every azimuth, so nothing depends on the (arbitrary)
value of `phi` there -/
theorem C02_vertical_placement (s : ScalarSol) (ph ph' : ℝ) (he : s.eh = 0) (hr : s.rh = 0) :
    (place ph s).emitted = (place ph' s).emitted ∧ (place ph s).received = (place ph' s).received := by
  simp [place, he, hr]

/-! ## uniform ice (the repaired code: reflection points are offset by the source position) -/

/-- a horizontal translation of both endpoints translates every point of every path … -/
theorem C02_uniform_translation (I : UIce) (tx ty : ℝ) (p q : P3) (n : Nat) (up : Bool) :
    uPointsDir I (shiftH tx ty p) (shiftH tx ty q) n up = (uPointsDir I p q n up).map (shiftH tx ty) := by
  unfold uPointsDir
  by_cases hn : n = 0
  · simp [hn]
  · simp only [hn, if_false, rho_shift, phi_shift, List.map_cons, List.map_append, List.map_nil]
    have : (shiftH tx ty p).z = p.z := rfl
    have : (shiftH tx ty q).z = q.z := rfl
    simp only [*]
    congr 2
    exact uMid_shift tx ty p.x p.y _ _ I.lo I.hi _ 0 up

/-- … and leaves the list of solutions (reflection counts, initial directions, launch angles) unchanged -/
theorem C02_uniform_translation_solutions (I : UIce) (m : Nat) (tx ty : ℝ) (p q : P3) :
    uniformSolutions I m (shiftH tx ty p) (shiftH tx ty q) = uniformSolutions I m p q := by
  have hz : (shiftH tx ty p).z = p.z := rfl
  have hz' : (shiftH tx ty q).z = q.z := rfl
  unfold uniformSolutions uExists uReflected uTheta
  simp only [rho_shift, hz, hz']

/-- a rotation about the vertical rotates every point of every path -/
theorem C02_uniform_rotation (I : UIce) (c s : ℝ) (h : c ^ 2 + s ^ 2 = 1) (p q : P3) (n : Nat) (up : Bool) :
    uPointsDir I (rotZ c s p) (rotZ c s q) n up = (uPointsDir I p q n up).map (rotZ c s) := by
  have hrho : rho (rotZ c s p) (rotZ c s q) = rho p q := by
    have := C02_rho_rigid c s 0 0 h p q
    simpa [rigid, shiftH] using this
  have hz : (rotZ c s p).z = p.z := rfl
  have hz' : (rotZ c s q).z = q.z := rfl
  unfold uPointsDir
  by_cases hn : n = 0
  · simp [hn]
  · simp only [hn, if_false, hrho, hz, hz', List.map_cons, List.map_append, List.map_nil]
    congr 2
    by_cases hne : rho p q = 0
    · -- vertical pair: all horizontal shares vanish, the azimuth is irrelevant
      have hzero : ∀ d ∈ (List.map (fun dz => rho p q * dz / listSum (uDzs I p.z q.z n up))
          (uDzs I p.z q.z n up)).dropLast, d = 0 := by
        intro d hd
        have hd' := List.dropLast_subset _ hd
        simp only [List.mem_map] at hd'
        obtain ⟨dz, _, rfl⟩ := hd'
        simp [hne]
      rw [uMid_zero _ _ _ _ (c * Rcos (phi p q) - s * Rsin (phi p q)) (s * Rcos (phi p q) + c * Rsin (phi p q))
        _ _ _ hzero]
      exact uMid_rot c s p.x p.y _ _ I.lo I.hi _ 0 up
    · have hphi := C02_phi_rigid c s 0 0 h p q hne
      simp only [rigid, shiftH, add_zero] at hphi
      have e1 : (⟨(rotZ c s p).x, (rotZ c s p).y, (rotZ c s p).z⟩ : P3) = rotZ c s p := rfl
      have e2 : (⟨(rotZ c s q).x, (rotZ c s q).y, (rotZ c s q).z⟩ : P3) = rotZ c s q := rfl
      rw [e1, e2] at hphi
      simp only [Rcos, Rsin, hphi.1, hphi.2]
      exact uMid_rot c s p.x p.y _ _ I.lo I.hi _ 0 up

/-- `exists` ⇔ both endpoints inside the range ⇔ the solution list is non-empty -/
theorem C02_uniform_exists_iff (I : UIce) (m : Nat) (p q : P3) :
    (uExists I p q = true ↔ (I.lo ≤ p.z ∧ p.z ≤ I.hi) ∧ (I.lo ≤ q.z ∧ q.z ≤ I.hi)) ∧
    (uniformSolutions I m p q ≠ [] ↔ uExists I p q = true) := by
  constructor
  · simp [uExists, UIce.contains]
  · unfold uniformSolutions; split_ifs with h <;> simp [h]

/-- number of solutions: at most `2N+1`; exactly `2N+1` when both outside indices are given, `1 + min N 1` when
exactly one of them is `None`, `1` when both are -/
theorem C02_uniform_count (I : UIce) (m : Nat) (p q : P3) (hex : uExists I p q = true) :
    (uniformSolutions I m p q).length ≤ 2 * m + 1 ∧
    (I.above.isSome = true → I.below.isSome = true → (uniformSolutions I m p q).length = 2 * m + 1) ∧
    (I.above.isSome = true → I.below.isNone = true → (uniformSolutions I m p q).length = 1 + min m 1) ∧
    (I.above.isNone = true → I.below.isSome = true → (uniformSolutions I m p q).length = 1 + min m 1) ∧
    (I.above.isNone = true → I.below.isNone = true → (uniformSolutions I m p q).length = 1) := by
  unfold uniformSolutions
  simp only [hex, if_true, List.length_cons]
  refine ⟨?_, ?_, ?_, ?_, ?_⟩
  · have := flatMap_length_le (uReflected I p q) 2 (uReflected_length_le I p q) m
    omega
  · intro ha hb
    have hk : ∀ k, (uReflected I p q k).length = 2 := by
      intro k
      have ha' : I.above.isNone = false := by cases hA : I.above <;> simp_all
      have hb' : I.below.isNone = false := by cases hB : I.below <;> simp_all
      simp [uReflected, uAllowed, ha', hb']
    rw [flatMap_length_const _ 2 hk m]
  · intro ha hb
    have ha' : I.above.isNone = false := by cases hA : I.above <;> simp_all
    have h0 : (uReflected I p q 0).length = 1 := by simp [uReflected, uAllowed, ha', hb]
    have hk : ∀ k, 0 < k → (uReflected I p q k).length = 0 := by
      intro k hk
      have : k + 1 > 1 := by omega
      simp [uReflected, uAllowed, ha', hb, this]
    rw [flatMap_length_first _ h0 hk m]; omega
  · intro ha hb
    have hb' : I.below.isNone = false := by cases hB : I.below <;> simp_all
    have h0 : (uReflected I p q 0).length = 1 := by simp [uReflected, uAllowed, hb', ha]
    have hk : ∀ k, 0 < k → (uReflected I p q k).length = 0 := by
      intro k hk
      have : k + 1 > 1 := by omega
      simp [uReflected, uAllowed, hb', ha, this]
    rw [flatMap_length_first _ h0 hk m]; omega
  · intro ha hb
    have hk : ∀ k, (uReflected I p q k).length = 0 := by
      intro k; simp [uReflected, uAllowed, ha, hb]
    rw [flatMap_length_const _ 0 hk m]; omega

/-! ## attenuation of uniform / layered paths: a left Riemann sum, reciprocal up to step × variation of 1/L_att -/

/-- the number of steps of a segment does not depend on the direction of travel and is at least 2 -/
theorem C02_atten_steps_symmetric (z1 z2 dz : ℝ) : nSteps z1 z2 dz = nSteps z2 z1 dz ∧ 0 < nSteps z1 z2 dz := by
  constructor
  · simp only [nSteps, Rabs]; rw [abs_sub_comm]
  · simp [nSteps]

/-- the attenuation exponents (`−log` of the attenuation factor) of a path of straight segments travelled in the two
directions differ by exactly `Σ stepᵢ · (1/L(start of segment i) − 1/L(end of segment i))`, hence by at most
`Σ stepᵢ · |Δᵢ(1/L_att)|` ≤ (largest step) × (total variation of `1/L_att` along the path) — the tolerance the
correspondence run uses.  `invL z = 1/L_att(z, f)` is arbitrary. -/
theorem C02_uniform_atten_reciprocity (invL : ℝ → ℝ) (segs : List Seg) (hn : ∀ s ∈ segs, 0 < s.n)
    (hlen : ∀ s ∈ segs, 0 ≤ s.len) :
    attenExpPath invL segs - attenExpPath invL (revPath segs) =
      (segs.map (fun s => s.len / s.n * (invL s.z1 - invL s.z2))).sum ∧
    |attenExpPath invL segs - attenExpPath invL (revPath segs)| ≤
      (segs.map (fun s => s.len / s.n * |invL s.z1 - invL s.z2|)).sum := by
  have h := attenExpPath_swap invL segs hn
  refine ⟨h, ?_⟩
  rw [h]
  refine le_trans (abs_sum_le _) (le_of_eq ?_)
  rw [List.map_map]
  congr 1
  apply List.map_congr_left
  intro s hs
  simp only [Function.comp]
  rw [abs_mul, abs_of_nonneg (div_nonneg (hlen s hs) (Nat.cast_nonneg _))]

/-! ## non-vacuity -/

/-- a rotation by 0.6/0.8 satisfies the hypothesis of the rigid-motion theorems, the pair has `rho = 5 ≠ 0` -/
example : (0.6 : ℝ) ^ 2 + (0.8 : ℝ) ^ 2 = 1 ∧ rho ⟨0, 0, -100⟩ ⟨3, 4, -50⟩ ≠ 0 := by
  constructor
  · norm_num
  · have : rho ⟨0, 0, -100⟩ ⟨3, 4, -50⟩ = 5 := by
      simp only [rho, Rsqrt]
      rw [show ((3:ℝ) - 0) * (3 - 0) + (4 - 0) * (4 - 0) = 5 ^ 2 by norm_num]
      exact Real.sqrt_sq (by norm_num)
    rw [this]; norm_num

/-- the hypotheses of `C02_reciprocity_directions` are met by a vertical-ish ray in ice getting lighter upward -/
example : (0:ℝ) ≤ 0 ∧ (0:ℝ) < Real.pi / 2 ∧ (0:ℝ) < 1.78 ∧ (0:ℝ) < 1.5 ∧ Real.sin 0 * 1.78 / 1.5 < 1 := by
  refine ⟨le_refl _, by positivity, by norm_num, by norm_num, by simp⟩

/-- a total root oracle exists (so `C02_zero_or_two` / `C02_exists_iff_nonempty` are not vacuous) -/
example : ∃ M : GradMedium, ∀ i z0 z1 r, (M.root i z0 z1 r).isSome = true :=
  ⟨⟨fun _ => 1.5, fun _ => true, fun _ _ => 10, fun _ _ => 20, fun _ _ _ _ => some 0.3,
    fun _ _ _ _ => 1, fun _ _ _ _ => 1, fun _ _ _ _ _ => 1⟩, fun _ _ _ _ => rfl⟩

/-- antisymmetric one-sided integrals exist: `G a b = F b − F a` -/
example (F : ℝ → ℝ) : ∀ a b, (fun a b => F b - F a) a b = - (fun a b => F b - F a) b a := by
  intro a b; simp

/-- the uniform-ice counts are about a non-empty situation -/
example : uExists ⟨1.5, -100, 0, some 1, none⟩ ⟨0, 0, -30⟩ ⟨10, 0, -60⟩ = true := by
  simp [uExists, UIce.contains]; norm_num

/-- a two-segment path with positive step counts and lengths (hypotheses of `C02_uniform_atten_reciprocity`) -/
example : let segs : List Seg := [⟨-30, 0, 40, 32⟩, ⟨0, -60, 70, 62⟩]
    (∀ s ∈ segs, 0 < s.n) ∧ (∀ s ∈ segs, (0 : ℝ) ≤ s.len) := by
  simp

/-- hypotheses of `C02_reciprocity_beta`: a 30-degree launch from n = 1.78 seen from n = 1.5 -/
example : (0 : ℝ) < 1.5 ∧ -1 ≤ Real.sin (Real.pi / 6) * 1.78 / 1.5 ∧ Real.sin (Real.pi / 6) * 1.78 / 1.5 ≤ 1 := by
  rw [Real.sin_pi_div_six]; norm_num
