import PyrexVerif.Proofs.PropAtten
import PyrexVerif.Proofs.PropSpec
import PyrexVerif.Proofs.PropAlen
import PyrexVerif.Proofs.PropFresnel
import PyrexVerif.Proofs.PropBasis
import PyrexVerif.Proofs.PropInterp
import PyrexVerif.Proofs.PropPropagate
import PyrexVerif.Proofs.PropExtra
/-!
# C03 — ray propagation is passive, delays by the time of flight, polarisation transverse

Theorems about the ℝ-reading (`PyrexR`) of `twin/Propagate.body` (which builds on `twin/Dft.body`);
the Float reading of the same text is what `Drivers/C03.lean` runs against the path classes of
`pyrex.ray_tracing` and `pyrex.custom.layered_ice.ray_tracing`.
Complex numbers are pairs `(re, im)`, `cnormSq` is the squared modulus, vectors are triples.
-/
open PyrexR

/-! ## attenuation `exp(−|I|)` -/

/-- the attenuation factor of any path integral lies in `(0, 1]` (basic and specialized paths) -/
theorem C03_atten_range (I : ℝ) : 0 < attenuationOf I ∧ attenuationOf I ≤ 1 :=
  PropLemmas.atten_range I

/-- uniform ice: the product `Π exp(−dp/L)` lies in `(0, 1]` -/
theorem C03_uniform_atten_range (segs : List (ℝ × List ℝ))
    (h : ∀ s ∈ segs, 0 ≤ s.1 ∧ ∀ L ∈ s.2, 0 < L) :
    0 < uniformAttenuation segs ∧ uniformAttenuation segs ≤ 1 :=
  PropLemmas.uniform_atten_range segs h

/-- layered ice: a product of sub-path factors in `(0, 1]` lies in `(0, 1]` -/
theorem C03_layered_atten_range (subs : List ℝ) (h : ∀ a ∈ subs, 0 < a ∧ a ≤ 1) :
    0 < layeredAttenuation subs ∧ layeredAttenuation subs ≤ 1 :=
  PropLemmas.layered_atten_range subs h

/-- monotonicity principle: non-negative weights, attenuation lengths that do not grow (`0 < L₂ ≤ L₁`
pointwise): the integral grows and the attenuation factor does not -/
theorem C03_atten_mono (cs Ls₁ Ls₂ : List ℝ) (hc : ∀ c ∈ cs, 0 ≤ c)
    (hL : List.Forall₂ (fun L1 L2 => 0 < L2 ∧ L2 ≤ L1) Ls₁ Ls₂) :
    0 ≤ listSum (List.zipWith (fun c L => c / L) cs Ls₁) ∧
    listSum (List.zipWith (fun c L => c / L) cs Ls₁) ≤ listSum (List.zipWith (fun c L => c / L) cs Ls₂) ∧
    attenuationOf (listSum (List.zipWith (fun c L => c / L) cs Ls₂))
      ≤ attenuationOf (listSum (List.zipWith (fun c L => c / L) cs Ls₁)) :=
  PropLemmas.atten_mono_weighted cs Ls₁ Ls₂ hc hL

/-- `BasicRayTracePath.attenuation` does not grow with `|f|` when `L_att(z,·)` does not: `legs₂` are the
legs of the same path (same `n(z_i)`, same step) with attenuation lengths pointwise `0 < L₂ ≤ L₁` -/
theorem C03_atten_mono_basic (sinT0 n0 : ℝ) (legs₁ legs₂ : List (List ℝ × List ℝ × ℝ))
    (h : List.Forall₂ (fun l₁ l₂ => l₁.1 = l₂.1 ∧ l₁.2.2 = l₂.2.2 ∧ 0 ≤ l₁.2.2 ∧
      List.Forall₂ (fun L1 L2 => 0 < L2 ∧ L2 ≤ L1) l₁.2.1 l₂.2.1) legs₁ legs₂) :
    basicAttenuation sinT0 n0 legs₂ ≤ basicAttenuation sinT0 n0 legs₁ :=
  PropLemmas.basic_atten_mono sinT0 n0 legs₁ legs₂ h

/-- `SpecializedRayTracePath.attenuation`: the same, for legs integrated over `z` (sorted depths) and for
legs integrated in the variable `sqrt(1−(β/n)²)` near the turning point (`k a ≥ 0`, indices positive and
decreasing along the leg) -/
theorem C03_atten_mono_specialized (beta k a : ℝ)
    (legs₁ legs₂ : List (Bool × List ℝ × List ℝ × List ℝ))
    (h : List.Forall₂ (fun l₁ l₂ => l₁.1 = l₂.1 ∧ l₁.2.1 = l₂.2.1 ∧ l₁.2.2.1 = l₂.2.2.1 ∧
      (l₁.1 = true → List.Pairwise (· ≤ ·) l₁.2.1) ∧
      (l₁.1 = false → 0 ≤ k * a ∧ (∀ n ∈ l₁.2.2.1, 0 < n) ∧ List.Pairwise (· ≥ ·) l₁.2.2.1) ∧
      List.Forall₂ (fun L1 L2 => 0 < L2 ∧ L2 ≤ L1) l₁.2.2.2 l₂.2.2.2) legs₁ legs₂) :
    specializedAttenuation beta k a legs₂ ≤ specializedAttenuation beta k a legs₁ :=
  PropLemmas.specialized_atten_mono beta k a legs₁ legs₂ h

/-- `UniformRayTracePath.attenuation`: the same -/
theorem C03_atten_mono_uniform (segs₁ segs₂ : List (ℝ × List ℝ))
    (h : List.Forall₂ (fun s₁ s₂ => s₁.1 = s₂.1 ∧ 0 ≤ s₁.1 ∧
      List.Forall₂ (fun L1 L2 => 0 < L2 ∧ L2 ≤ L1) s₁.2 s₂.2) segs₁ segs₂) :
    uniformAttenuation segs₂ ≤ uniformAttenuation segs₁ :=
  PropLemmas.uniform_atten_mono segs₁ segs₂ h

/-! ### the hypothesis "`L_att(z,·)` does not grow with `f`" for the three shipped ices.
The attenuation-length functions and all their constants are regenerated from `pyrex/ice_model.py` on every run
(`harness/extract/ice_consts.py` → `twin/IceFormulas.body`), so an edited coefficient re-opens these proofs. -/

/-- Antarctic ice: on the valid depth range the temperature stays in `[−51.07 °C, 0 °C]` … -/
theorem C03_antarctic_temp_range (z : ℝ) (h1 : ant_lo ≤ z) (h2 : z ≤ ant_hi) :
    -51.07 ≤ ant_tempC z ∧ ant_tempC z ≤ 0 :=
  PropLemmas.antarctic_temp_range z h1 h2

/-- … and `AntarcticIce.attenuation_length` (also used by `UniformIce`) is positive and does not grow with the
frequency (two quadratic inequalities in the temperature, continuity at the 1 GHz split) -/
theorem C03_L_antarctic_mono (z f₁ f₂ : ℝ) (h1 : ant_lo ≤ z) (h2 : z ≤ ant_hi) (hf1 : 0 < f₁) (hf : f₁ ≤ f₂) :
    0 < attenAntarctic z f₂ ∧ attenAntarctic z f₂ ≤ attenAntarctic z f₁ :=
  PropLemmas.L_antarctic_mono_depth z f₁ f₂ h1 h2 hf1 hf

/-- `GreenlandIce.attenuation_length` (linear in `f`, floored at `min_alen`): at every depth -/
theorem C03_L_greenland_mono (z f₁ f₂ : ℝ) (hf : f₁ ≤ f₂) :
    0 < attenGreenland z f₂ ∧ attenGreenland z f₂ ≤ attenGreenland z f₁ :=
  PropLemmas.L_greenland_mono z f₁ f₂ hf

/-- `ArasimIce.attenuation_length` does not depend on the frequency … -/
theorem C03_L_arasim_const (z f₁ f₂ : ℝ) : attenArasim z f₂ = attenArasim z f₁ :=
  PropLemmas.L_arasim_const z f₁ f₂

/-- … and is positive on the valid depth range -/
theorem C03_L_arasim_mono (z f₁ f₂ : ℝ) (hz : -2850 ≤ z) :
    0 < attenArasim z f₂ ∧ attenArasim z f₂ ≤ attenArasim z f₁ :=
  PropLemmas.L_arasim_mono z f₁ f₂ hz

/-- hence, along the sampled depths `zs` of any path inside the valid range, the attenuation lengths at
`f₁ ≤ f₂` satisfy exactly the `Forall₂` hypothesis of `C03_atten_mono`, `C03_atten_mono_basic`,
`C03_atten_mono_specialized`, `C03_atten_mono_uniform` — for all three shipped ices -/
theorem C03_atten_lengths_shipped_ices (f₁ f₂ : ℝ) (hf1 : 0 < f₁) (hf : f₁ ≤ f₂) (zs : List ℝ) :
    ((∀ z ∈ zs, ant_lo ≤ z ∧ z ≤ ant_hi) →
      List.Forall₂ (fun L1 L2 => 0 < L2 ∧ L2 ≤ L1)
        (zs.map fun z => attenAntarctic z f₁) (zs.map fun z => attenAntarctic z f₂))
    ∧ List.Forall₂ (fun L1 L2 => 0 < L2 ∧ L2 ≤ L1)
        (zs.map fun z => attenGreenland z f₁) (zs.map fun z => attenGreenland z f₂)
    ∧ ((∀ z ∈ zs, -2850 ≤ z) →
      List.Forall₂ (fun L1 L2 => 0 < L2 ∧ L2 ≤ L1)
        (zs.map fun z => attenArasim z f₁) (zs.map fun z => attenArasim z f₂)) :=
  ⟨fun h => PropLemmas.forall₂_lengths attenAntarctic f₁ f₂ zs
      (fun z hz => PropLemmas.L_antarctic_mono_depth z f₁ f₂ (h z hz).1 (h z hz).2 hf1 hf),
   PropLemmas.forall₂_lengths attenGreenland f₁ f₂ zs (fun z _ => PropLemmas.L_greenland_mono z f₁ f₂ hf),
   fun h => PropLemmas.forall₂_lengths attenArasim f₁ f₂ zs
      (fun z hz => PropLemmas.L_arasim_mono z f₁ f₂ (h z hz))⟩

/-! ## Fresnel coefficients -/

/-- `|(x−y)/(x+y)| ≤ 1` for `x, y ≥ 0` -/
theorem C03_fresnel_le_one (x y : ℝ) (hx : 0 ≤ x) (hy : 0 ≤ y) :
    cnormSq (cdiv (csub (cofReal x) (cofReal y)) (cadd (cofReal x) (cofReal y))) ≤ 1 :=
  PropLemmas.fresnel_ratio_le_one x y hx hy

/-- `|(x − i y)/(x + i y)| = 1` (total internal reflection) -/
theorem C03_fresnel_tir_unit (x y : ℝ) (hy : y ≠ 0) :
    cnormSq (cdiv (csub (cofReal x) (0, y)) (cadd (cofReal x) (0, y))) = 1 :=
  PropLemmas.fresnel_tir_unit x y hy

/-- both amplitude reflection coefficients of the model have modulus ≤ 1, in the real branch and in the
total-internal-reflection branch … -/
theorem C03_reflect_le_one (n1 n2 θ : ℝ) (h1 : 0 < n1) (h2 : 0 < n2) (hc : 0 ≤ Real.cos θ) :
    cnormSq (fresnelReflect n1 n2 θ).1 ≤ 1 ∧ cnormSq (fresnelReflect n1 n2 θ).2 ≤ 1 :=
  PropLemmas.fresnelReflect_le_one n1 n2 θ h1 h2 hc

/-- … where it is exactly 1 -/
theorem C03_reflect_tir_unit (n1 n2 θ : ℝ) (h : 1 < n1 / n2 * Real.sin θ) :
    cnormSq (fresnelReflect n1 n2 θ).1 = 1 ∧ cnormSq (fresnelReflect n1 n2 θ).2 = 1 :=
  PropLemmas.fresnelReflect_tir_unit n1 n2 θ h

/-- boundary value `n₁ = n₂`: nothing is reflected (incidence from inside, `cos θ ≥ 0`) -/
theorem C03_reflect_equal_indices (n θ : ℝ) (hn : n ≠ 0) (hc : 0 ≤ Real.cos θ) :
    fresnelReflect n n θ = ((0, 0), (0, 0)) :=
  PropLemmas.reflect_equal_indices n θ hn hc

/-- boundary value grazing incidence (`cos θ = 0`, below the critical angle): `|r_s| = |r_p| = 1` -/
theorem C03_reflect_grazing_unit (n1 n2 θ : ℝ) (h1 : 0 < n1) (h2 : 0 < n2) (hc : Real.cos θ = 0)
    (hs : n1 / n2 * Real.sin θ < 1) (hs' : -1 < n1 / n2 * Real.sin θ) :
    cnormSq (fresnelReflect n1 n2 θ).1 = 1 ∧ cnormSq (fresnelReflect n1 n2 θ).2 = 1 :=
  PropLemmas.reflect_grazing_unit n1 n2 θ h1 h2 hc hs hs'

/-- `BasicRayTracePath.fresnel` / `SpecializedRayTracePath.fresnel` -/
theorem C03_basic_fresnel_le_one (I : Ice) (direct : Bool) (θ₀ z₀ : ℝ)
    (h1 : 0 < I.index I.hi) (h2 : 0 < I.indexAbove) :
    cnormSq (basicFresnel I direct θ₀ z₀).1 ≤ 1 ∧ cnormSq (basicFresnel I direct θ₀ z₀).2 ≤ 1 := by
  unfold basicFresnel
  simp only
  split_ifs
  · simp [cnormSq]
  · simp [cnormSq]
  · exact PropLemmas.fresnelReflect_le_one _ _ _ h1 h2 (Real.cos_arcsin_nonneg _)

/-- `UniformRayTracePath.fresnel`: the product over the reflections -/
theorem C03_uniform_fresnel_prod_le_one (n0 : ℝ) (refl : List (ℝ × ℝ × ℝ)) (h0 : 0 < n0)
    (h : ∀ r ∈ refl, 0 < r.1) :
    cnormSq (uniformFresnel n0 refl).1 ≤ 1 ∧ cnormSq (uniformFresnel n0 refl).2 ≤ 1 :=
  PropLemmas.uniform_fresnel_prod_le_one n0 refl h0 h

/-- `LayeredRayTracePath.fresnel`: every reflection coefficient at a layer boundary has modulus ≤ 1 … -/
theorem C03_layered_reflection_le_one (n1 n2 recvZ : ℝ) (hz1 : -1 ≤ recvZ) (hz2 : recvZ ≤ 1)
    (h1 : 0 < n1) (h2 : 0 < n2) :
    cnormSq (fresnelReflect n1 n2 (layerTheta recvZ)).1 ≤ 1
      ∧ cnormSq (fresnelReflect n1 n2 (layerTheta recvZ)).2 ≤ 1 :=
  PropLemmas.layered_reflection_le_one n1 n2 recvZ hz1 hz2 h1 h2

/-- … so a layered path made of reflections only (and sub-paths with factors ≤ 1) has factors ≤ 1.
The transmission factor is stated without a bound (known finding K2, next theorem). -/
theorem C03_layered_fresnel_reflections_le_one (first : Cx × Cx)
    (bounds : List (Bool × ℝ × ℝ × ℝ × (Cx × Cx)))
    (hf1 : cnormSq first.1 ≤ 1) (hf2 : cnormSq first.2 ≤ 1)
    (hb : ∀ b ∈ bounds, b.1 = true ∧ 0 ≤ b.2.1 * b.2.2.1 ∧
      cnormSq b.2.2.2.2.1 ≤ 1 ∧ cnormSq b.2.2.2.2.2 ≤ 1) :
    cnormSq (layeredFresnel first bounds).1 ≤ 1 ∧ cnormSq (layeredFresnel first bounds).2 ≤ 1 :=
  PropLemmas.layered_fresnel_reflections_le_one first bounds hf1 hf2 hb

/-- **known finding K2, proved of the model**: an amplitude transmission coefficient exceeds 1 on entering
a lower index (normal incidence `n = 1.78 → 1.3`: `t ≈ 1.156`) -/
theorem C03_transmission_can_exceed_one :
    ∃ n1 n2 θ : ℝ, 0 < n1 ∧ 0 < n2 ∧ 1 < cnormSq (fresnelTransmit n1 n2 θ).1 :=
  PropLemmas.transmit_can_exceed_one

/-! ## interpolated attenuation -/

/-- piecewise-linear interpolation of a bounded table is bounded (so the interpolated attenuation stays in
`(0,1]` for every interpolation step) -/
theorem C03_interp_keeps_bounds {lo hi : ℝ} (x : ℝ) (xs ys : List ℝ) (hxs : xs ≠ []) (hys : ys ≠ [])
    (hb : ∀ y ∈ ys, lo ≤ y ∧ y ≤ hi) : lo ≤ interp x xs ys ∧ interp x xs ys ≤ hi :=
  PropLemmas.interp_keeps_bounds x xs ys hxs hys hb

/-- piecewise-linear interpolation of a non-increasing table is non-increasing -/
theorem C03_interp_keeps_mono {x x' : ℝ} (xs ys : List ℝ) (hys : List.Pairwise (· ≥ ·) ys)
    (hxx : x ≤ x') : interp x' xs ys ≤ interp x xs ys :=
  PropLemmas.interp_keeps_mono xs ys hys hxx

/-- at the tabulated frequencies the interpolation returns the tabulated value -/
theorem C03_interp_at_node (xs ys : List ℝ) (hsorted : List.Pairwise (· < ·) xs) (i : ℕ)
    (hi : i < xs.length) (hi' : i < ys.length) : interp (xs[i]) xs ys = ys[i] :=
  PropLemmas.interp_at_node xs ys hsorted i hi hi'

/-! ## the polarisation basis -/

/-- emitted direction `(a cos φ, a sin φ, c)` not vertical (`a ≠ 0`), received direction with the same azimuth:
`u_s0`, `u_p0`, `u_p1` are unit vectors, `u_s0 ⟂ u_p0`, `u_s0 ⟂ u_p1`, both returned vectors are perpendicular
to the received direction (and `u_s0`, `u_p0` to the emitted one) -/
theorem C03_pol_basis (a c a' c' φ : ℝ) (hac : a ^ 2 + c ^ 2 = 1) (ha : a ≠ 0)
    (hac' : a' ^ 2 + c' ^ 2 = 1) :
    let e : V3 := (a * Real.cos φ, a * Real.sin φ, c)
    let r : V3 := (a' * Real.cos φ, a' * Real.sin φ, c')
    let b := polBasis e r φ
    let us := b.1
    let up0 := b.2.1
    let up1 := b.2.2
    dot us us = 1 ∧ dot up0 up0 = 1 ∧ dot up1 up1 = 1 ∧ dot us up0 = 0 ∧ dot us up1 = 0 ∧
      dot us r = 0 ∧ dot up1 r = 0 ∧ dot us e = 0 ∧ dot up0 e = 0 :=
  PropLemmas.pol_basis a c a' c' φ hac ha hac'

/-- the exactly vertical ray (repair F11): the fall-back `u_s0 = (sin φ, −cos φ, 0)` gives the same relations -/
theorem C03_pol_basis_vertical (c a' c' φ : ℝ) (hc : c ^ 2 = 1) (hac' : a' ^ 2 + c' ^ 2 = 1) :
    let e : V3 := (0, 0, c)
    let r : V3 := (a' * Real.cos φ, a' * Real.sin φ, c')
    let b := polBasis e r φ
    let us := b.1
    let up0 := b.2.1
    let up1 := b.2.2
    dot us us = 1 ∧ dot up0 up0 = 1 ∧ dot up1 up1 = 1 ∧ dot us up0 = 0 ∧ dot us up1 = 0 ∧
      dot us r = 0 ∧ dot up1 r = 0 ∧ dot us e = 0 ∧ dot up0 e = 0 :=
  PropLemmas.pol_basis_vertical c a' c' φ hc hac'

/-! ## propagate -/

/-- the output signals live on the input time grid delayed by the time of flight -/
theorem C03_propagate_grid (times vals : List ℝ) (pol : V3) (tof : ℝ) (e r : V3) (φ : ℝ) (rs rp : Cx)
    (att : ℝ → ℝ) (hlen : vals.length = times.length) :
    (propagate times vals pol tof e r φ rs rp att).times = times.map (· + tof)
    ∧ (propagate times vals pol tof e r φ rs rp att).sigS.length = times.length
    ∧ (propagate times vals pol tof e r φ rs rp att).sigP.length = times.length :=
  PropLemmas.propagate_grid times vals pol tof e r φ rs rp att hlen

/-- linear in the signal -/
theorem C03_propagate_linear (times x y : List ℝ) (a b : ℝ) (pol : V3) (tof : ℝ) (e r : V3) (φ : ℝ)
    (rs rp : Cx) (att : ℝ → ℝ) (hx : x.length = times.length) (hy : y.length = times.length) :
    (propagate times (List.zipWith (fun u v => a * u + b * v) x y) pol tof e r φ rs rp att).sigS
      = List.zipWith (fun u v => a * u + b * v) (propagate times x pol tof e r φ rs rp att).sigS
          (propagate times y pol tof e r φ rs rp att).sigS
    ∧ (propagate times (List.zipWith (fun u v => a * u + b * v) x y) pol tof e r φ rs rp att).sigP
      = List.zipWith (fun u v => a * u + b * v) (propagate times x pol tof e r φ rs rp att).sigP
          (propagate times y pol tof e r φ rs rp att).sigP :=
  PropLemmas.propagate_linear_signal times x y a b pol tof e r φ rs rp att hx hy

/-- linear in the polarisation vector -/
theorem C03_propagate_linear_pol (times x : List ℝ) (a b : ℝ) (p q : V3) (tof : ℝ) (e r : V3) (φ : ℝ)
    (rs rp : Cx) (att : ℝ → ℝ) (hx : x.length = times.length) :
    (propagate times x (a * p.1 + b * q.1, a * p.2.1 + b * q.2.1, a * p.2.2 + b * q.2.2) tof e r φ rs rp att).sigS
      = List.zipWith (fun u v => a * u + b * v) (propagate times x p tof e r φ rs rp att).sigS
          (propagate times x q tof e r φ rs rp att).sigS
    ∧ (propagate times x (a * p.1 + b * q.1, a * p.2.1 + b * q.2.1, a * p.2.2 + b * q.2.2) tof e r φ rs rp att).sigP
      = List.zipWith (fun u v => a * u + b * v) (propagate times x p tof e r φ rs rp att).sigP
          (propagate times x q tof e r φ rs rp att).sigP :=
  PropLemmas.propagate_linear_pol times x a b p q tof e r φ rs rp att hx

/-- **passivity**: attenuation in `[0,1]`, Fresnel coefficients of modulus ≤ 1, emitted and received unit
directions sharing the azimuth (vertical rays included): `Σ out_s² + Σ out_p² ≤ |pol|² Σ in²`
(from `C05_filter_passive` and Bessel's inequality for the orthonormal pair `(u_s0, u_p0)`) -/
theorem C03_propagate_passive (times vals : List ℝ) (pol : V3) (tof : ℝ) (a c a' c' φ : ℝ) (rs rp : Cx)
    (att : ℝ → ℝ) (hlen : vals.length = times.length) (hatt : ∀ f, 0 ≤ att f ∧ att f ≤ 1)
    (hrs : cnormSq rs ≤ 1) (hrp : cnormSq rp ≤ 1) (hac : a ^ 2 + c ^ 2 = 1) (hac' : a' ^ 2 + c' ^ 2 = 1) :
    ((propagate times vals pol tof (a * Real.cos φ, a * Real.sin φ, c) (a' * Real.cos φ, a' * Real.sin φ, c')
        φ rs rp att).sigS.map (fun v => v ^ 2)).sum
      + ((propagate times vals pol tof (a * Real.cos φ, a * Real.sin φ, c) (a' * Real.cos φ, a' * Real.sin φ, c')
        φ rs rp att).sigP.map (fun v => v ^ 2)).sum
      ≤ dot pol pol * (vals.map (fun v => v ^ 2)).sum :=
  PropLemmas.propagate_passive_ray times vals pol tof a c a' c' φ rs rp att hlen hatt hrs hrp hac hac'

/-- degenerate polarisation: without s-amplitude the s-signal is identically zero **and still on the grid delayed by
the time of flight** (an "optimisation" that skips such a component may not skip the time shift) -/
theorem C03_propagate_zero_s (times vals : List ℝ) (pol : V3) (tof : ℝ) (e r : V3) (φ : ℝ) (rs rp : Cx)
    (att : ℝ → ℝ) (hlen : vals.length = times.length) (h0 : dot pol (polBasis e r φ).1 = 0) :
    (propagate times vals pol tof e r φ rs rp att).sigS = List.replicate times.length 0
    ∧ (propagate times vals pol tof e r φ rs rp att).times = times.map (· + tof) :=
  PropLemmas.propagate_zero_s times vals pol tof e r φ rs rp att hlen h0

theorem C03_propagate_zero_p (times vals : List ℝ) (pol : V3) (tof : ℝ) (e r : V3) (φ : ℝ) (rs rp : Cx)
    (att : ℝ → ℝ) (hlen : vals.length = times.length) (h0 : dot pol (polBasis e r φ).2.1 = 0) :
    (propagate times vals pol tof e r φ rs rp att).sigP = List.replicate times.length 0 :=
  PropLemmas.propagate_zero_p times vals pol tof e r φ rs rp att hlen h0

/-- the all-zero signal propagates to two all-zero signals on the delayed grid -/
theorem C03_propagate_zero_signal (times : List ℝ) (pol : V3) (tof : ℝ) (e r : V3) (φ : ℝ) (rs rp : Cx)
    (att : ℝ → ℝ) :
    (propagate times (List.replicate times.length 0) pol tof e r φ rs rp att).sigS = List.replicate times.length 0
    ∧ (propagate times (List.replicate times.length 0) pol tof e r φ rs rp att).sigP
        = List.replicate times.length 0
    ∧ (propagate times (List.replicate times.length 0) pol tof e r φ rs rp att).times = times.map (· + tof) :=
  PropLemmas.propagate_zero_signal times pol tof e r φ rs rp att

/-- `propagate(signal)` without polarisation (no `force_real`, negative frequencies are looked up) applies the same
factor as the polarised form whenever the attenuation depends on `|f|` only: it is the s-signal for unit
s-amplitude and `r_s = 1` -/
theorem C03_scalar_eq_s_component (times vals : List ℝ) (pol : V3) (tof : ℝ) (e r : V3) (φ : ℝ) (rp : Cx)
    (att : ℝ → ℝ) (heven : ∀ f, att (-f) = att f) (h1 : dot pol (polBasis e r φ).1 = 1) :
    (propagate times vals pol tof e r φ (1, 0) rp att).sigS = (propagateScalar times vals tof att).2 :=
  PropLemmas.scalar_eq_s_component times vals pol tof e r φ rp att heven h1

/-! ### non-vacuity -/

/-- a non-vertical and a vertical emitted direction meeting the hypotheses of the basis theorems -/
example : (0.6 : ℝ) ^ 2 + 0.8 ^ 2 = 1 ∧ (0.6 : ℝ) ≠ 0 ∧ (1 : ℝ) ^ 2 = 1 := by norm_num

/-- the shipped Antarctic surface indices meet the hypotheses of `C03_basic_fresnel_le_one` -/
example : (0 : ℝ) < 1.78 - 0.43 ∧ (0 : ℝ) < 1 := by norm_num

/-- a two-sample table meets the hypotheses of the interpolation theorems -/
example : ([0, 1] : List ℝ) ≠ [] ∧ List.Pairwise (· ≥ ·) ([1, 0.5] : List ℝ)
    ∧ ∀ y ∈ ([1, 0.5] : List ℝ), (0.5 : ℝ) ≤ y ∧ y ≤ 1 := by
  refine ⟨by simp, by simp; norm_num, ?_⟩
  intro y hy
  simp at hy
  rcases hy with rfl | rfl <;> norm_num

/-- attenuation lengths 500 m → 400 m on a two-point leg meet the hypothesis of the monotonicity theorems -/
example : List.Forall₂ (fun L1 L2 : ℝ => 0 < L2 ∧ L2 ≤ L1) [500, 500] [400, 450] := by
  refine List.Forall₂.cons (by norm_num) (List.Forall₂.cons (by norm_num) List.Forall₂.nil)

/-- a depth and two frequencies meeting the hypotheses of `C03_L_antarctic_mono` / `C03_L_arasim_mono` -/
example : ant_lo ≤ (-100 : ℝ) ∧ (-100 : ℝ) ≤ ant_hi ∧ (0 : ℝ) < 1e8 ∧ (1e8 : ℝ) ≤ 1e9 ∧ (-2850 : ℝ) ≤ -100 := by
  unfold ant_lo ant_hi; norm_num

/-- total internal reflection occurs: grazing incidence from ice into air (`C03_reflect_tir_unit`) -/
example : (1 : ℝ) < 1.78 / 1 * Real.sin (Real.pi / 2) := by rw [Real.sin_pi_div_two]; norm_num

/-- an attenuation in `[0,1]` that depends on `|f|` only, unit Fresnel coefficients (`C03_propagate_passive`,
`C03_scalar_eq_s_component`) -/
example : (∀ f : ℝ, 0 ≤ (fun f : ℝ => 1 / (1 + f ^ 2)) f ∧ (fun f : ℝ => 1 / (1 + f ^ 2)) f ≤ 1)
    ∧ (∀ f : ℝ, (fun f : ℝ => 1 / (1 + f ^ 2)) (-f) = (fun f : ℝ => 1 / (1 + f ^ 2)) f)
    ∧ cnormSq ((1, 0) : Cx) ≤ 1 := by
  refine ⟨fun f => ⟨by positivity, ?_⟩, fun f => by simp, by simp [cnormSq]⟩
  have : (0 : ℝ) < 1 + f ^ 2 := by positivity
  rw [div_le_one this]; nlinarith [sq_nonneg f]

/-- a polarisation with exactly zero s-amplitude exists for a non-vertical ray: the vertical polarisation
(`C03_propagate_zero_s`) — `u_s0` has no z-component -/
example (a c φ : ℝ) (r : V3) (ha : a ≠ 0) :
    dot ((0, 0, 1) : V3) (polBasis (a * Real.cos φ, a * Real.sin φ, c) r φ).1 = 0 := by
  rw [(PropLemmas.pol_basis_us a c φ r ha).1]; simp [dot]

/-- segments of positive step and positive attenuation lengths (`C03_uniform_atten_range`), positive indices
(`C03_uniform_fresnel_prod_le_one`, `C03_layered_reflection_le_one`) -/
example : (∀ s ∈ ([(1.0, [500, 450])] : List (ℝ × List ℝ)), 0 ≤ s.1 ∧ ∀ L ∈ s.2, (0 : ℝ) < L)
    ∧ (0 : ℝ) < 1.78 ∧ (0 : ℝ) < 1.3 ∧ (-1 : ℝ) ≤ 0.5 ∧ (0.5 : ℝ) ≤ 1 := by
  refine ⟨?_, by norm_num, by norm_num, by norm_num, by norm_num⟩
  intro s hs; simp at hs; subst hs
  refine ⟨by norm_num, ?_⟩
  intro L hL; simp at hL; rcases hL with rfl | rfl <;> norm_num

/-- grazing incidence onto a denser medium meets the hypotheses of `C03_reflect_grazing_unit` -/
example : Real.cos (Real.pi / 2) = 0 ∧ (1 : ℝ) / 1.5 * Real.sin (Real.pi / 2) < 1
    ∧ -1 < (1 : ℝ) / 1.5 * Real.sin (Real.pi / 2) := by
  rw [Real.cos_pi_div_two, Real.sin_pi_div_two]; norm_num
