import PyrexVerif.Proofs.SignalsThms
import PyrexVerif.Proofs.FnAlgebra
set_option linter.unusedVariables false
set_option linter.unusedSimpArgs false
/-!
# C04 — signals keep times and values aligned, copy independently and combine pointwise

The theorems are about the executable model `Sig.step` (`PyrexVerif/D/Signals.lean`), which the
correspondence run of `harness/props/C04.py` compares with `pyrex.signals` step by step (values,
classes, value types and the complete alias partition).  `Sig.Inv` is the global invariant of the
object graph; `Sig.run Sig.St.init ops` is the state after an arbitrary operation history.
-/
open Sig

/-! ## one value per time sample -/

/-- constructor: short value arrays are zero-padded … -/
theorem C04_mk_pads (n : Nat) (vs : Arr) (h : vs.length < n) : fit n vs = vs ++ zeros (n - vs.length) :=
  fit_pad h

/-- … long ones truncated … -/
theorem C04_mk_truncates (n : Nat) (vs : Arr) (h : n ≤ vs.length) : fit n vs = vs.take n :=
  fit_truncate h

/-- … so the stored array always has one entry per time sample. -/
theorem C04_mk_length (n : Nat) (vs : Arr) : (fit n vs).length = n := fit_length n vs

/-- every constructor and operation preserves the invariant of the object graph -/
theorem C04_step_preserves_invariant (st : St) (op : Op) (h : Inv st) : Inv (step st op).1 :=
  step_inv h op

/-- after any operation history every live signal (sampled, empty or function-backed) reports
exactly one value per time sample -/
theorem C04_len_values_eq_len_times (ops : List Op) (i : Nat) (s : Sig.Sig) (vs : Arr)
    (hs : (run St.init ops).objs i = some s) (hv : valuesOf (run St.init ops).heap s = some vs) :
    vs.length = ((run St.init ops).heap.cell s.times).length :=
  valuesOf_length ((run_inv Inv.init ops).wf i s hs) hv

/-! ## results share nothing with operands and arguments -/

/-- `copy`, `with_times`, `a + b`, `*`, reflected `*`, `/` and the constructors: when they succeed
the result is a new object, every array/list identity reachable from it was allocated by this very
call, and nothing that existed before (objects, cells, caller-owned arrays) was modified. -/
theorem C04_fresh (st st' : St) (op : Op) (k : Nat) (hinv : Inv st) (hc : op.creating = true)
    (h : step st op = (st', .obj k)) : FreshResult st st' k := by
  have := step_creates hinv hc
  rw [h] at this
  exact this.fresh

/-- hence the result is disjoint from everything reachable from any operand or argument -/
theorem C04_fresh_disjoint (st st' : St) (op : Op) (k : Nat) (hinv : Inv st) (hc : op.creating = true)
    (h : step st op = (st', .obj k)) :
    ∃ r, st'.objs k = some r ∧
      (∀ i o, st.objs i = some o → ∀ id ∈ r.reach, id ∉ o.reach) ∧ (∀ id ∈ r.reach, id ∉ st.exts) := by
  obtain ⟨r, hr, hfresh⟩ := (C04_fresh st st' op k hinv hc h).fresh
  refine ⟨r, hr, ?_, ?_⟩
  · intro i o ho id hid hmem
    have := hinv.lt i o ho id hmem
    have := hfresh id hid
    omega
  · intro id hid hmem
    have := hinv.extLt id hmem
    have := hfresh id hid
    omega

/-- nothing is remembered between calls: a creating operation (copy / with_times / + / * / ÷ /
constructors) leaves every object that existed before with the same times, the same stored cells and
the same `values` - so re-gridding or adding the same object again later gives the same answer as it
would have given before -/
theorem C04_creating_op_preserves_old_objects (st st' : St) (op : Op) (k i : Nat) (o : Sig.Sig) (hinv : Inv st)
    (hc : op.creating = true) (h : step st op = (st', .obj k)) (ho : st.objs i = some o) :
    st'.objs i = some o ∧ (∀ id ∈ o.reach, st'.heap.cell id = st.heap.cell id) ∧
    valuesOf st'.heap o = valuesOf st.heap o := by
  have hf := C04_fresh st st' op k hinv hc h
  have hne : i ≠ k := by
    have := hinv.bound i o ho; rw [hf.isNew]; omega
  have hcells : ∀ id ∈ o.reach, st'.heap.cell id = st.heap.cell id :=
    fun id hid => hf.cells id (hinv.lt i o ho id hid)
  exact ⟨by rw [hf.others i hne]; exact ho, hcells, valuesOf_congr hcells⟩

/-- a refused operation allocates nothing and changes nothing -/
theorem C04_refusal_changes_nothing (st st' : St) (op : Op) (r : Reply) (hinv : Inv st)
    (hc : op.creating = true) (h : step st op = (st', r)) (he : r.isErr = true) : st' = st := by
  have := step_creates hinv hc
  rw [h] at this
  rcases this with ⟨h1, _⟩ | ⟨p, _, heq⟩
  · exact h1
  · have : r = .obj st.nobj := by
      have := congrArg Prod.snd heq; simpa [St.pushP, St.push] using this
    subst this; simp [Reply.isErr] at he

/-- the one exception: adding the number 0 (as `sum` does) returns the signal itself -/
theorem C04_radd0_identity (st : St) (k : Nat) (s : Sig.Sig) (hs : st.objs k = some s) :
    step st (.add (.num 0) (.obj k)) = (st, .obj k) := by
  simp [step, binAdd, hs, raddNum]

/-- any other number is refused, in either position -/
theorem C04_add_number_refused (st : St) (k : Nat) (s : Sig.Sig) (q : Rat) (hs : st.objs k = some s) :
    (q ≠ 0 → step st (.add (.num q) (.obj k)) = (st, .typeError)) ∧
    step st (.add (.obj k) (.num q)) = (st, .typeError) := by
  constructor
  · intro hq; simp [step, binAdd, hs, raddNum, hq]
  · simp [step, binAdd, hs]

/-- Python's reflected-operand priority never changes the outcome: `a + b` is `a.__add__(b)` -/
theorem C04_add_dispatch (st : St) (i j : Nat) (a b : Sig.Sig) (hi : st.objs i = some a)
    (hj : st.objs j = some b) : step st (.add (.obj i) (.obj j)) = addSig st a b := by
  simp only [step]; exact binAdd_obj_obj hi hj

/-- history theorem: after any sequence of operations two distinct live signals share no array or
list, and no signal shares anything with an array owned by the caller (the same *object* is
returned only by `0 + s`, see `C04_radd0_identity`) -/
theorem C04_no_sharing_reachable (ops : List Op) :
    (∀ i j si sj, (run St.init ops).objs i = some si → (run St.init ops).objs j = some sj → i ≠ j →
        ∀ id ∈ si.reach, id ∉ sj.reach) ∧
    (∀ e ∈ (run St.init ops).exts, ∀ i s, (run St.init ops).objs i = some s → e ∉ s.reach) ∧
    (∀ i s, (run St.init ops).objs i = some s → s.reach.Nodup) :=
  ⟨(run_inv Inv.init ops).disj, (run_inv Inv.init ops).extDisj, (run_inv Inv.init ops).nodup⟩

/-! ## addition -/

/-- for every pair of operand classes: if the grids agree and the value types are compatible, the
sum is a new signal on the same grid whose values are the pointwise sums, whose value type is the
coerced one and whose class is given by `addCls` -/
theorem C04_add_pointwise (st : St) (i j : Nat) (a b : Sig.Sig) (vt : VT) (va vb : Arr) (hinv : Inv st)
    (hi : st.objs i = some a) (hj : st.objs j = some b)
    (ht : st.heap.cell a.times = st.heap.cell b.times) (hvt : coerce a.vt b.vt = some vt)
    (hva : valuesOf st.heap a = some va) (hvb : valuesOf st.heap b = some vb) :
    ∃ st' r, step st (.add (.obj i) (.obj j)) = (st', .obj st.nobj) ∧ st'.objs st.nobj = some r ∧
      valuesOf st'.heap r = some (addArr va vb) ∧ (addArr va vb).length = va.length ∧
      r.vt = vt ∧ st'.heap.cell r.times = st.heap.cell a.times ∧ r.cls = addCls a b := by
  obtain ⟨p, hf, heq, hv, hvt', htm, hcls⟩ :=
    addSig_spec (hinv.wf i a hi) (hinv.wf j b hj) ht hvt hva hvb
  have hview := pushP_view st p
  refine ⟨(st.pushP p).1, p.2, ?_, hview.2.1, ?_, ?_, hvt', ?_, hcls⟩
  · rw [C04_add_dispatch st i j a b hi hj, heq]; exact Prod.ext rfl hview.1
  · rw [hview.2.2]; exact hv
  · have la := valuesOf_length (hinv.wf i a hi) hva
    have lb := valuesOf_length (hinv.wf j b hj) hvb
    rw [addArr_length, la, lb, ht, Nat.min_self]
  · rw [hview.2.2]; exact htm

/-- different time grids are refused; equal grids with two different defined value types are
refused; in both cases nothing is allocated and the state is unchanged -/
theorem C04_add_refuses (st : St) (i j : Nat) (a b : Sig.Sig) (hi : st.objs i = some a)
    (hj : st.objs j = some b) :
    (st.heap.cell a.times ≠ st.heap.cell b.times → step st (.add (.obj i) (.obj j)) = (st, .errTimes)) ∧
    (st.heap.cell a.times = st.heap.cell b.times → a.vt ≠ .undefined → b.vt ≠ .undefined → a.vt ≠ b.vt →
      step st (.add (.obj i) (.obj j)) = (st, .errTypes)) := by
  rw [C04_add_dispatch st i j a b hi hj]
  refine ⟨addSig_refuses_times, ?_⟩
  intro ht h1 h2 h3
  exact addSig_refuses_types ht (by simp [coerce, h1, h2, h3])

/-- the undefined value type is neutral -/
theorem C04_add_neutral_undefined (t : VT) : coerce .undefined t = some t ∧ coerce t .undefined = some t := by
  cases t <;> decide

/-- the complete value-type table (it is the same for all 3×3 operand class pairs, see
`C04_add_pointwise`): `none` = refused -/
theorem C04_coercion_table :
    [VT.undefined, .voltage, .field, .power].map (fun a => [VT.undefined, .voltage, .field, .power].map (coerce a)) =
    [[some .undefined, some .voltage, some .field, some .power],
     [some .voltage, some .voltage, none, none],
     [some .field, none, some .field, none],
     [some .power, none, none, some .power]] := by decide

/-- the class of the sum, for all 3×3 kinds of operands (sampled / empty / function-backed) -/
theorem C04_add_class_table (a b : Sig.Sig) :
    addCls a b =
      if a.isFunc then (if b.isFunc || b.isEmpty then Cls.func else Cls.signal)
      else if a.isEmpty then (if b.isFunc then Cls.func else if b.isEmpty then Cls.empty else Cls.signal)
      else Cls.signal := by
  simp [addCls, copyCls]

/-- the empty signal is neutral: `empty + b` has `b`'s values, `a + empty` has `a`'s -/
theorem C04_add_neutral_empty (st : St) (i j : Nat) (a b : Sig.Sig) (vt : VT) (va vb : Arr) (hinv : Inv st)
    (hi : st.objs i = some a) (hj : st.objs j = some b)
    (ht : st.heap.cell a.times = st.heap.cell b.times) (hvt : coerce a.vt b.vt = some vt)
    (hva : valuesOf st.heap a = some va) (hvb : valuesOf st.heap b = some vb) :
    (a.isEmpty = true → addArr va vb = vb) ∧ (b.isEmpty = true → addArr va vb = va) := by
  have la := valuesOf_length (hinv.wf i a hi) hva
  have lb := valuesOf_length (hinv.wf j b hj) hvb
  have hlen : va.length = vb.length := by rw [la, lb, ht]
  have zero_of_empty : ∀ (k : Nat) (s : Sig.Sig) (vs : Arr), st.objs k = some s → s.isEmpty = true →
      valuesOf st.heap s = some vs → ∀ x ∈ vs, x = 0 := by
    intro k s vs hs he hv
    have hw := hinv.wf k s hs
    cases hb : s.body with
    | fn => simp [Sig.isEmpty, Sig.isFunc, hb] at he
    | arr v =>
      simp only [WF, hb] at hw
      simp only [valuesOf, hb, Option.some.injEq] at hv
      subst hv
      apply hw.2
      simp only [Sig.isEmpty, Bool.and_eq_true, beq_iff_eq] at he; exact he.1
  constructor
  · intro he; exact addArr_all_zero (zero_of_empty i a va hi he hva) hlen
  · intro he; rw [addArr_comm]; exact addArr_all_zero (zero_of_empty j b vb hj he hvb) hlen.symm

/-! ## scaling -/

/-- `s * q` (and `q * s`): a new signal on the same grid, same value type, every value multiplied
(for function-backed signals: every factor, hence every value) -/
theorem C04_mul_pointwise (st : St) (k : Nat) (s : Sig.Sig) (q : Rat) (vs : Arr) (hinv : Inv st)
    (hs : st.objs k = some s) (hv : valuesOf st.heap s = some vs) :
    ∃ st' r, step st (.mul k q) = (st', .obj st.nobj) ∧ step st (.rmul q k) = (st', .obj st.nobj) ∧
      st'.objs st.nobj = some r ∧ valuesOf st'.heap r = some (vs.map (· * q)) ∧ r.vt = s.vt ∧
      st'.heap.cell r.times = st.heap.cell s.times := by
  obtain ⟨p, hf, heq, hval, hvt, htm⟩ := scaleSig_spec q (hinv.wf k s hs) hv
  have hview := pushP_view st p
  refine ⟨(st.pushP p).1, p.2, ?_, ?_, hview.2.1, ?_, hvt, ?_⟩
  · simp only [step, hs]; rw [heq]; exact Prod.ext rfl hview.1
  · simp only [step, hs]; rw [heq]; exact Prod.ext rfl hview.1
  · rw [hview.2.2]; exact hval
  · rw [hview.2.2]; exact htm

/-- `s / q` for `q ≠ 0`: every value divided -/
theorem C04_div_pointwise (st : St) (k : Nat) (s : Sig.Sig) (q : Rat) (vs : Arr) (hinv : Inv st) (hq : q ≠ 0)
    (hs : st.objs k = some s) (hv : valuesOf st.heap s = some vs) :
    ∃ st' r, step st (.div k q) = (st', .obj st.nobj) ∧ st'.objs st.nobj = some r ∧
      valuesOf st'.heap r = some (vs.map (· / q)) ∧ r.vt = s.vt ∧
      st'.heap.cell r.times = st.heap.cell s.times := by
  obtain ⟨p, hf, heq, hval, hvt, htm⟩ := scaleSig_spec (1 / q) (hinv.wf k s hs) hv
  have hview := pushP_view st p
  refine ⟨(st.pushP p).1, p.2, ?_, hview.2.1, ?_, hvt, ?_⟩
  · simp only [step, hs, hq, if_false]; rw [heq]; exact Prod.ext rfl hview.1
  · rw [hview.2.2, hval]; congr 1
    simp only [scale]; apply List.map_congr_left; intro x _; grind
  · rw [hview.2.2]; exact htm

/-- `s *= q` on a sampled signal works in place: same object, every stored value multiplied,
times untouched -/
theorem C04_imul_in_place (st : St) (k v : Nat) (s : Sig.Sig) (q : Rat) (hinv : Inv st)
    (hs : st.objs k = some s) (hb : s.body = .arr v) :
    (step st (.imul k q)).2 = .obj k ∧ (step st (.imul k q)).1.objs = st.objs ∧
    (step st (.imul k q)).1.heap.cell v = (st.heap.cell v).map (· * q) ∧
    (step st (.imul k q)).1.heap.cell s.times = st.heap.cell s.times := by
  have hne : s.times ≠ v := by
    have := hinv.nodup k s hs; simp only [Sig.reach, hb] at this; simp at this; exact this
  simp only [step, hs, iscaleSig, hb]
  simp [Heap.set, scale, hne]

/-! ## shifting -/

/-- `shift` moves the times (in place) and leaves the stored values alone -/
theorem C04_shift_sampled (st : St) (k v : Nat) (s : Sig.Sig) (d : Rat) (hinv : Inv st)
    (hs : st.objs k = some s) (hb : s.body = .arr v) :
    (step st (.shift k d)).1.objs = st.objs ∧
    (step st (.shift k d)).1.heap.cell s.times = (st.heap.cell s.times).map (· + d) ∧
    (step st (.shift k d)).1.heap.cell v = st.heap.cell v := by
  have hne : v ≠ s.times := by
    have := hinv.nodup k s hs; simp only [Sig.reach, hb] at this; simp at this; exact fun h => this h.symm
  simp only [step, hs, hb]
  simp [Heap.set, hne]

/-! ## re-gridding -/

/-- at a shared sample time the stored value is returned -/
theorem C04_interp0_at_samples (xp fp : Arr) (i : Nat) (x y : Rat) (hs : xp.Pairwise (· < ·))
    (hl : xp.length = fp.length) (hx : xp[i]? = some x) (hy : fp[i]? = some y) : interp0 xp fp x = y :=
  interp0_at_sample hs hl hx hy

/-- strictly between two neighbouring samples: linear interpolation -/
theorem C04_interp0_between (xp fp : Arr) (i : Nat) (a b ya yb x : Rat) (hs : xp.Pairwise (· < ·))
    (hl : xp.length = fp.length) (ha : xp[i]? = some a) (hb : xp[i+1]? = some b)
    (hya : fp[i]? = some ya) (hyb : fp[i+1]? = some yb) (hax : a < x) (hxb : x < b) :
    interp0 xp fp x = ya + (yb - ya) / (b - a) * (x - a) :=
  interp0_between hs hl ha hb hya hyb hax hxb

/-- outside the original span: zero -/
theorem C04_interp0_outside (xp fp : Arr) (x : Rat) (h : (∀ t ∈ xp, x < t) ∨ (∀ t ∈ xp, t < x)) :
    interp0 xp fp x = 0 :=
  interp0_outside h

/-- `Signal.with_times`: a new signal on (a copy of) the requested grid whose values are `interp0`
of the stored samples -/
theorem C04_with_times_sampled (st : St) (k t v : Nat) (s : Sig.Sig) (hinv : Inv st)
    (hs : st.objs k = some s) (hb : s.body = .arr v) (he : s.isEmpty = false) (ht : t ∈ st.exts)
    (hne : st.heap.cell s.times ≠ [] ∨ st.heap.cell t = []) :
    ∃ st' r, step st (.withTimes k t) = (st', .obj st.nobj) ∧ st'.objs st.nobj = some r ∧
      valuesOf st'.heap r = some ((st.heap.cell t).map (interp0 (st.heap.cell s.times) (st.heap.cell v))) ∧
      st'.heap.cell r.times = st.heap.cell t ∧ r.times ≠ t ∧ r.vt = s.vt ∧ r.cls = .signal := by
  obtain ⟨p, hf, heq, hval, hvt, hcls, htm⟩ := withTimesSig_arr_spec (st := st) (t := t) hb he hne
  have hview := pushP_view st p
  refine ⟨(st.pushP p).1, p.2, ?_, hview.2.1, ?_, ?_, ?_, hvt, hcls⟩
  · simp only [step, hs, ht, if_true]; rw [heq]; exact Prod.ext rfl hview.1
  · rw [hview.2.2]; exact hval
  · rw [hview.2.2]; exact htm
  · obtain ⟨cs, _, h2, _, _⟩ := hf
    have := h2 p.2.times (by simp [Sig.reach])
    have := hinv.extLt t ht
    omega

/-- `EmptySignal.with_times`: empty ↦ empty -/
theorem C04_with_times_empty (st : St) (k t v : Nat) (s : Sig.Sig) (hinv : Inv st)
    (hs : st.objs k = some s) (hb : s.body = .arr v) (he : s.isEmpty = true) (ht : t ∈ st.exts) :
    ∃ st' r, step st (.withTimes k t) = (st', .obj st.nobj) ∧ st'.objs st.nobj = some r ∧
      valuesOf st'.heap r = some (zeros (st.heap.cell t).length) ∧
      st'.heap.cell r.times = st.heap.cell t ∧ r.cls = .empty ∧ r.vt = s.vt := by
  obtain ⟨p, hf, heq, hval, hvt, hcls, htm⟩ := withTimesSig_empty_spec (st := st) (t := t) hb he
  have hview := pushP_view st p
  refine ⟨(st.pushP p).1, p.2, ?_, hview.2.1, ?_, ?_, hcls, hvt⟩
  · simp only [step, hs, ht, if_true]; rw [heq]; exact Prod.ext rfl hview.1
  · rw [hview.2.2]; exact hval
  · rw [hview.2.2]; exact htm

/-- values of a function-backed signal, whenever they are defined, are the direct evaluation
`Σ factorᵢ · gainsᵢ · fᵢ(t − t0ᵢ)` on its own times: the buffers do not enter -/
theorem C04_fn_values_direct (d : FData) (vs : Arr) (h : fnValues d = some vs) : vs = directValues d :=
  fnValues_direct h

/-- `FunctionSignal.with_times` re-evaluates exactly: the result carries the same functions, time
offsets, factors and filters on (a copy of) the new grid, so its values are the direct evaluation
of the *same definition* on the new times — not an interpolation of the old samples -/
theorem C04_fn_with_times_exact (st : St) (k t : Nat) (s : Sig.Sig) (a b c d e : Nat) (bi fi : List Nat)
    (hinv : Inv st) (hs : st.objs k = some s) (hb : s.body = .fn a b c d e bi fi) (ht : t ∈ st.exts)
    (h1 : st.heap.cell t ≠ []) (h2 : st.heap.cell s.times ≠ []) :
    ∃ st' r, step st (.withTimes k t) = (st', .obj st.nobj) ∧ st'.objs st.nobj = some r ∧
      st'.heap.cell r.times = st.heap.cell t ∧ r.times ≠ t ∧ r.cls = .func ∧ r.vt = s.vt ∧
      ∀ vs, valuesOf st'.heap r = some vs →
        vs = directValues { readF st.heap s with ts := st.heap.cell t } := by
  obtain ⟨p, bufs', hf, heq, hlen, hread, hvt, hcls, htm, hfn⟩ :=
    withTimesSig_fn_spec (st := st) (t := t) (hinv.wf k s hs) hb h1 h2
  have hview := pushP_view st p
  refine ⟨(st.pushP p).1, p.2, ?_, hview.2.1, ?_, ?_, hcls, hvt, ?_⟩
  · simp only [step, hs, ht, if_true]; rw [heq]; exact Prod.ext rfl hview.1
  · rw [hview.2.2]; exact htm
  · obtain ⟨cs, _, h2', _, _⟩ := hf
    have := h2' p.2.times (by simp [Sig.reach])
    have := hinv.extLt t ht
    omega
  · intro vs hv
    rw [hview.2.2] at hv
    have hv' : fnValues (readF p.1 p.2) = some vs := by
      cases hpb : p.2.body with
      | arr v => simp [Sig.isFunc, hpb] at hfn
      | fn => simpa [valuesOf, hpb] using hv
    rw [hread] at hv'
    rw [fnValues_direct hv']
    simp only [directValues]
    rw [directWindows_bufs _ _ _ _ bufs' (readF st.heap s).bufs _ hlen]

/-! ## the inputs the real code rejects: error branches of the model

The theorems above carry hypotheses (`values` defined, non-empty grids, `q ≠ 0`).  At the excluded
points the real code raises; the model rejects in the same way and leaves the state unchanged (the
correspondence run compares the exception class).  Strictly increasing grids in the `interp0`
theorems are a restriction the property text itself makes ("between samples", "outside the original
span" presuppose ordered sample times); what the real code does on other grids is recorded as an
observation outside the claim in `harness/props/C04.py`. -/

/-- re-gridding a sampled signal that has NO samples onto a non-empty grid raises (`np.interp`:
"array of sample points is empty"); nothing is allocated -/
theorem C04_with_times_no_samples_raises (st : St) (k t v : Nat) (s : Sig.Sig) (x : Rat) (xs : Arr)
    (hs : st.objs k = some s) (hb : s.body = .arr v) (he : s.isEmpty = false) (ht : t ∈ st.exts)
    (h0 : st.heap.cell s.times = []) (h1 : st.heap.cell t = x :: xs) :
    step st (.withTimes k t) = (st, .raise) := by
  simp [step, hs, ht, withTimesSig, hb, he, h0, h1]

/-- `FunctionSignal.with_times` with an empty new grid, or on a signal without samples, raises
(`IndexError` on `new_times[0]` / `self.times[0]`) -/
theorem C04_fn_with_times_empty_raises (st : St) (k t : Nat) (s : Sig.Sig) (a b c d e : Nat) (bi fi : List Nat)
    (hs : st.objs k = some s) (hb : s.body = .fn a b c d e bi fi) (ht : t ∈ st.exts)
    (h : st.heap.cell t = [] ∨ st.heap.cell s.times = []) :
    step st (.withTimes k t) = (st, .raise) := by
  have hts : (readF st.heap s).ts = st.heap.cell s.times := by simp [readF, hb]
  simp only [step, hs, ht, if_true, withTimesSig, hb]
  rcases h with h | h
  · rw [h]
  · rw [hts, h]; cases st.heap.cell t <;> rfl

/-- adding a sampled signal and a function-backed one whose `values` cannot be evaluated (fewer
than two samples: `dt is None`, known finding K15; `dt = 0`) is refused with nothing allocated -/
theorem C04_add_undefined_values_refused (st : St) (i j : Nat) (a b : Sig.Sig) (vt : VT)
    (hi : st.objs i = some a) (hj : st.objs j = some b) (haf : a.isFunc = false) (hae : a.isEmpty = false)
    (ht : st.heap.cell a.times = st.heap.cell b.times) (hvt : coerce a.vt b.vt = some vt)
    (hvb : valuesOf st.heap b = none) :
    step st (.add (.obj i) (.obj j)) = (st, .typeError) := by
  rw [C04_add_dispatch st i j a b hi hj]
  have hne : ¬ (st.heap.cell a.times ≠ st.heap.cell b.times) := by simp [ht]
  unfold addSig
  simp only [if_neg hne, hvt, haf, hae, Bool.false_eq_true, if_false, hvb]
  cases valuesOf st.heap a <;> rfl

/-- a function-backed signal whose grid has fewer than two samples, or two equal first samples,
has no `values` (the real code raises `TypeError` resp. `ValueError`) -/
theorem C04_fn_values_undefined (d : FData) (h : d.ts.length < 2 ∨ ∃ x r, d.ts = x :: x :: r ∧ d.fns ≠ [] ∧
    d.t0s ≠ [] ∧ d.facs ≠ [] ∧ d.bufs ≠ [] ∧ d.filts ≠ []) : fnValues d = none := by
  obtain ⟨ts, fns, t0s, facs, bufs, filts⟩ := d
  rcases h with h | ⟨x, r, h, h1, h2, h3, h4, h5⟩
  · cases ts with
    | nil => rfl
    | cons a ts => cases ts with
      | nil => rfl
      | cons b ts => simp at h; omega
  · simp only at h h1 h2 h3 h4 h5
    subst h
    cases fns with
    | nil => exact absurd rfl h1
    | cons f fns =>
    cases t0s with
    | nil => exact absurd rfl h2
    | cons t0 t0s =>
    cases facs with
    | nil => exact absurd rfl h3
    | cons fc facs =>
    cases bufs with
    | nil => exact absurd rfl h4
    | cons bf bufs =>
    cases filts with
    | nil => exact absurd rfl h5
    | cons fl filts =>
      have : compVals (x :: x :: r) f t0 fc bf fl = none := by
        simp [compVals, Rat.sub_self]
      simp [fnValues, compWindows, this]

/-- dividing a function-backed signal by zero raises (`ZeroDivisionError` on its factors) and changes
nothing; for a sampled signal numpy yields inf/nan, which lies outside the rational model -/
theorem C04_div_zero_function_raises (st : St) (k : Nat) (s : Sig.Sig) (hs : st.objs k = some s)
    (hf : s.isFunc = true) :
    step st (.div k 0) = (st, .raise) ∧ step st (.idiv k 0) = (st, .raise) := by
  simp [step, hs, hf]

/-- a DECREASING grid is not an excluded input for function-backed signals: they are evaluated on it -/
theorem C04_fn_values_decreasing_grid :
    fnValues ⟨[2, 1, 0], [3], [0], [1], [[0, 0]], [[]]⟩ = some [5, 3, 1] := by decide +kernel

/-! ## stateful generating functions

`Sig.step` treats generating functions as immutable codes.  For callable OBJECTS with mutable state
the unchanged code promises independence through `copy.deepcopy(self._functions)` in `copy()` (and
hence in `with_times`, `*`, `/`, reflected `*`, sums with an `EmptySignal`) and
`copy.deepcopy(other._functions)` in `FunctionSignal.__add__`.  The small model `Sig.deepcopyFns`
carries that promise; it is tied to the code by the search oracle (function objects are poked in
place and all other signals watched), not by the correspondence run. -/

/-- the deep copy of a function list has the same length, evaluates like the original (plain
functions are kept, callable objects duplicated with their current state) and every state cell of
the copy is freshly allocated -/
theorem C04_fn_objects_deepcopied (fs : List FnRef) (h : Heap) (hlt : ∀ f ∈ fs, ∀ c ∈ f.stateIds, c < h.next) :
    (deepcopyFns h fs).2.length = fs.length ∧
    (∀ f ∈ (deepcopyFns h fs).2, ∀ c ∈ f.stateIds, h.next ≤ c ∧ c < (deepcopyFns h fs).1.next) ∧
    (∀ (i : Nat) (t : Rat), ((deepcopyFns h fs).2[i]?).map (fun f => fnRefEval (deepcopyFns h fs).1 f t) =
            (fs[i]?).map (fun f => fnRefEval h f t)) :=
  deepcopyFns_spec fs h hlt

/-- neither side follows the other: changing the state of any function object of the ORIGINAL in
place (any cell that existed before the copy) leaves every function of the COPY unchanged, and
changing a state cell of the copy leaves every original function unchanged -/
theorem C04_fn_objects_independent (fs : List FnRef) (h : Heap) (hlt : ∀ f ∈ fs, ∀ c ∈ f.stateIds, c < h.next)
    (c : Nat) (a : Arr) (t : Rat) :
    (c < h.next → ∀ f ∈ (deepcopyFns h fs).2,
        fnRefEval ((deepcopyFns h fs).1.set c a) f t = fnRefEval (deepcopyFns h fs).1 f t) ∧
    (h.next ≤ c → ∀ f ∈ fs,
        fnRefEval ((deepcopyFns h fs).1.set c a) f t = fnRefEval h f t) := by
  have hs := deepcopyFns_spec fs h hlt
  have hm := deepcopyFns_mono fs h
  constructor
  · intro hc f hf
    apply fnRefEval_congr
    intro c' hc'
    have := (hs.2.1 f hf c' hc').1
    exact set_cell_ne a (by omega)
  · intro hc f hf
    apply fnRefEval_congr
    intro c' hc'
    have hlt' := hlt f hf c' hc'
    rw [set_cell_ne a (by omega)]
    exact hm.2 c' hlt'

/-! ## filtering a function-backed signal (mixed histories: filtered function signals + sampled ones) -/

/-- `FunctionSignal.filter_frequencies` works in place on the inner filter lists only: same object,
every `_filters[i]` grown by the new filter, every other cell untouched, and (scalar-gain filters)
every value multiplied by the gain - so that a later `function + sampled` addition
(`C04_add_pointwise`) adds the filtered values -/
theorem C04_filter_in_place (st : St) (k g : Nat) (s : Sig.Sig) (a b c d e : Nat) (bi fi : List Nat) (vs : Arr)
    (hinv : Inv st) (hs : st.objs k = some s) (hb : s.body = .fn a b c d e bi fi)
    (hv : valuesOf st.heap s = some vs) :
    (step st (.filter k g)).2 = .unit ∧ (step st (.filter k g)).1.objs = st.objs ∧
    (∀ id, id ∉ fi → (step st (.filter k g)).1.heap.cell id = st.heap.cell id) ∧
    (∀ id ∈ fi, (step st (.filter k g)).1.heap.cell id = st.heap.cell id ++ [(g : Rat)]) ∧
    valuesOf (step st (.filter k g)).1.heap s = some (scale (gain g) vs) :=
  filter_step_spec hinv hs hb g hv

/-! ## non-vacuity: concrete histories meet the hypotheses and exhibit each case -/

/-- a concrete history: two caller arrays, a padded `Signal`, an `EmptySignal`, a `FunctionSignal`,
`sig + empty`, `0 + sig`, a scaled copy and a re-gridded signal -/
def C04_demo : List Op :=
  [.ext [0, 1, 2], .ext [5, 7], .mk .signal 0 1 .voltage, .mkEmpty 0 .undefined, .mkFunc .func 0 3 .undefined,
   .add (.obj 0) (.obj 1), .add (.num 0) (.obj 0), .mul 0 (1/2), .ext [1/2, 1, 5], .withTimes 0 18,
   .add (.obj 2) (.obj 0)]

example : (run St.init C04_demo).nobj = 7 := by decide +kernel
-- padding: [5, 7] on three samples
example : ((run St.init C04_demo).objs 0).map (valuesOf (run St.init C04_demo).heap) = some (some [5, 7, 0]) := by
  decide +kernel
-- sig + empty = sig (pointwise), type coerced from undefined
example : ((run St.init C04_demo).objs 3).map (fun s => (valuesOf (run St.init C04_demo).heap s, s.vt)) =
    some (some [5, 7, 0], VT.voltage) := by decide +kernel
-- re-gridding: interpolated between samples, stored value at a sample, zero outside
example : ((run St.init C04_demo).objs 5).map (valuesOf (run St.init C04_demo).heap) = some (some [6, 7, 0]) := by
  decide +kernel
-- function-backed (2t+1) + sampled
example : ((run St.init C04_demo).objs 6).map (valuesOf (run St.init C04_demo).heap) = some (some [6, 10, 5]) := by
  decide +kernel
-- refusals on concrete inputs
example : (step (run St.init C04_demo) (.add (.obj 0) (.obj 5))).2 = .errTimes := by decide +kernel
example : (step (run St.init [.ext [0, 1], .mkEmpty 0 .voltage, .mkEmpty 0 .field]) (.add (.obj 0) (.obj 1))).2
    = .errTypes := by decide +kernel
example : Inv (run St.init C04_demo) := run_inv Inv.init _
-- the hypotheses of the interp0 theorems are satisfiable: a strictly increasing grid, a shared sample,
-- a point between two samples, points outside
example : interp0 [0, 1, 3] [5, 7, 1] 1 = 7 :=
  C04_interp0_at_samples [0, 1, 3] [5, 7, 1] 1 1 7 (by decide +kernel) rfl rfl rfl
example : interp0 [0, 1, 3] [5, 7, 1] 2 = 7 + (1 - 7) / (3 - 1) * (2 - 1) :=
  C04_interp0_between [0, 1, 3] [5, 7, 1] 1 1 3 7 1 2 (by decide +kernel) rfl rfl rfl rfl rfl
    (by decide +kernel) (by decide +kernel)
example : interp0 [0, 1, 3] [5, 7, 1] 4 = 0 ∧ interp0 [0, 1, 3] [5, 7, 1] (-1) = 0 := by decide +kernel
-- padding and truncation on concrete arrays
example : fit 4 [1, 2] = [1, 2, 0, 0] ∧ fit 1 [1, 2] = [1] := by decide +kernel
-- a stateful template (amplitude 2, offset 1 in cell 0) next to a plain function: the copy gets a new
-- state cell and evaluates alike; poking the original's cell afterwards does not reach the copy
example : (deepcopyFns ⟨fun _ => [2, 1], 1⟩ [.object 3 0, .plain 1]).2 = [.object 3 1, .plain 1] := rfl
example : fnRefEval ((deepcopyFns ⟨fun _ => [2, 1], 1⟩ [.object 3 0, .plain 1]).1.set 0 [9, 9]) (.object 3 1) 2 = 11 := by
  decide +kernel
-- the value-type refusal and the neutral cases
example : coerce .voltage .field = none ∧ coerce .undefined .power = some .power := by decide
-- re-gridding the same object twice gives the same answer (nothing is remembered between calls)
example : ((run St.init (C04_demo ++ [.withTimes 0 18])).objs 7).map
      (valuesOf (run St.init (C04_demo ++ [.withTimes 0 18])).heap) =
    ((run St.init C04_demo).objs 5).map (valuesOf (run St.init C04_demo).heap) := by decide +kernel
-- a filtered function-backed signal (2t+1, gain 1/2) added to a sampled one
example : ((run St.init (C04_demo ++ [.filter 2 0, .add (.obj 0) (.obj 2)])).objs 7).map
    (valuesOf (run St.init (C04_demo ++ [.filter 2 0, .add (.obj 0) (.obj 2)])).heap) =
    some (some [11/2, 17/2, 5/2]) := by decide +kernel
