import PyrexVerif.Proofs.DftProps3
import PyrexVerif.Proofs.DftApply
import PyrexVerif.Proofs.DftExtra
/-!
# C05 — frequency filtering is linear, real-preserving, passive and free of wrap-around

Theorems about the ℝ-reading `PyrexR.filterFrequencies` (`Signal.filter_frequencies`) of `twin/Dft.body`;
the Float reading of the same text is what `Drivers/C05.lean` runs against `pyrex.signals`.
`times`/`x` are the signal's `times`/`values` (`N = x.length` samples), `H : ℝ → Cx` the response
function (complex numbers are pairs `(re, im)`), `fr` = `force_real`, `vec` = "the response function is
vectorised" (`false` = the scalar fall-back loop).  `toC (re, im) = re + im·I`.
-/
open PyrexR
open scoped ZMod

/-- **bridge**: under `(re,im) ↦ re + im·I` the model's naive pair-DFT *is* Mathlib's `ZMod.dft` … -/
theorem C05_dft_bridge {M : ℕ} [NeZero M] (xs : List Cx) (hM : xs.length = M) :
    (fun j : ZMod M => DftBridge.toC ((PyrexR.dft xs).getD j.val 0))
      = 𝓕 (fun j : ZMod M => DftBridge.toC (xs.getD j.val 0)) :=
  DftBridge.dft_bridge xs hM

/-- … and the pair-IDFT is its inverse -/
theorem C05_idft_bridge {M : ℕ} [NeZero M] (xs : List Cx) (hM : xs.length = M) :
    (fun j : ZMod M => DftBridge.toC ((PyrexR.idft xs).getD j.val 0))
      = 𝓕⁻ (fun j : ZMod M => DftBridge.toC (xs.getD j.val 0)) :=
  DftBridge.idft_bridge xs hM

/-- the filtered signal lives on the same grid -/
theorem C05_filter_length (times x : List ℝ) (H : ℝ → Cx) (fr vec : Bool)
    (hx : x.length = times.length) : (filterFrequencies times x H fr vec).length = times.length := by
  rw [DftModel.length_filterFrequencies _ _ _ _ _ hx.symm, hx]

/-- linear in the signal -/
theorem C05_filter_linear (times x y : List ℝ) (a b : ℝ) (H : ℝ → Cx) (fr vec : Bool)
    (hx : x.length = times.length) (hy : y.length = times.length) :
    filterFrequencies times (List.zipWith (fun u v => a * u + b * v) x y) H fr vec
      = List.zipWith (fun u v => a * u + b * v)
          (filterFrequencies times x H fr vec) (filterFrequencies times y H fr vec) :=
  DftProps.filter_linear times x y a b H fr vec hx hy

/-- homogeneous in the response (real factor: the real part is taken after filtering) -/
theorem C05_filter_homog (times x : List ℝ) (c : ℝ) (H : ℝ → Cx) (fr vec : Bool)
    (hx : x.length = times.length) :
    filterFrequencies times x (fun f => cscale c (H f)) fr vec
      = (filterFrequencies times x H fr vec).map (fun v => c * v) :=
  DftProps.filter_homog times x c H fr vec hx

/-- the unit response is the identity (`dft` inverse, `crop ∘ pad`) -/
theorem C05_filter_one (times x : List ℝ) (fr vec : Bool) (hx : x.length = times.length) :
    filterFrequencies times x (fun _ => ((1, 0) : Cx)) fr vec = x :=
  DftProps.filter_one times x fr vec hx

/-- the result depends on `times` only through `dt` and the number of samples -/
theorem C05_filter_offset_free (times times' x : List ℝ) (H : ℝ → Cx) (fr vec : Bool)
    (hl : times.length = times'.length) (hdt : sigDt times = sigDt times') :
    filterFrequencies times x H fr vec = filterFrequencies times' x H fr vec :=
  DftProps.filter_offset_free times times' x H fr vec hl hdt

/-- in particular a translated grid gives the same values -/
theorem C05_filter_offset_free_shift (times x : List ℝ) (t₀ : ℝ) (H : ℝ → Cx) (fr vec : Bool)
    (h2 : 2 ≤ times.length) :
    filterFrequencies (times.map (· + t₀)) x H fr vec = filterFrequencies times x H fr vec := by
  apply DftProps.filter_offset_free
  · simp
  · match times, h2 with
    | a :: b :: r, _ => simp [sigDt]

/-- `force_real` yields exactly the real signal of the Hermitian-symmetrised response: filtering with the
`force_real` table whose self-conjugate bins (DC, Nyquist) are replaced by their real parts gives a complex
sequence with zero imaginary part whose real part is the `force_real` output … -/
theorem C05_force_real_hermitian (times x : List ℝ) (H : ℝ → Cx) (vec : Bool)
    (hx : x.length = times.length) (hdt : sigDt times ≠ 0) (k : ℕ) (hk : k < x.length) :
    (filterCore x (DftProps.hermTable x.length
        (getFilterResponse (fftfreqs (2 * x.length) (sigDt times)) H true vec))).getD k 0
      = ((filterFrequencies times x H true vec).getD k 0, 0) :=
  DftProps.force_real_hermitian times x H vec hx hdt k hk

/-- … and that table is Hermitian: bin `2N−m` is the conjugate of bin `m` (bins `0` and `N` are real) -/
theorem C05_force_real_table_hermitian (times : List ℝ) (N : ℕ) (H : ℝ → Cx) (vec : Bool) (hN : 0 < N)
    (hdt : sigDt times ≠ 0) (m : ℕ) (hm : m < 2 * N) :
    (DftProps.hermTable N (getFilterResponse (fftfreqs (2 * N) (sigDt times)) H true vec)).getD
        ((2 * N - m) % (2 * N)) 0
      = cconj ((DftProps.hermTable N
          (getFilterResponse (fftfreqs (2 * N) (sigDt times)) H true vec)).getD m 0) :=
  DftProps.hermTable_hermitian times N H vec hN hdt m hm

/-- Parseval for the model's transform (from character orthogonality) -/
theorem C05_parseval (xs : List Cx) (hpos : 0 < xs.length) :
    ((PyrexR.dft xs).map cnormSq).sum = (xs.length : ℝ) * (xs.map cnormSq).sum :=
  DftProps.parseval_list xs hpos

/-- a response of magnitude at most 1 never increases the signal's energy -/
theorem C05_filter_passive (times x : List ℝ) (H : ℝ → Cx) (fr vec : Bool)
    (hx : x.length = times.length) (hH : ∀ f, cnormSq (H f) ≤ 1) :
    ((filterFrequencies times x H fr vec).map (fun v => v ^ 2)).sum ≤ (x.map (fun v => v ^ 2)).sum :=
  DftProps.filter_passive times x H fr vec hx hH

/-- a pure delay `H(f) = exp(−2πi f·d·dt)` of `d ≤ N` whole samples moves the samples later by `d` and drops
what leaves the window -/
theorem C05_delay_shifts (times x : List ℝ) (d : ℕ) (fr vec : Bool)
    (hx : x.length = times.length) (hdt : sigDt times ≠ 0) (hd : d ≤ x.length)
    (k : ℕ) (hk : k < x.length) :
    (filterFrequencies times x (fun f => cis (-(2 * Rpi * f * (RofNat d * sigDt times)))) fr vec).getD k 0
      = if d ≤ k then x.getD (k - d) 0 else 0 := by
  rw [DftProps.filter_delay_general times x d fr vec hx hdt (by omega) k hk]
  split_ifs <;> first | rfl | omega

/-- **known finding K1, proved of the model**: a delay of `N < d < 2N` samples does not drop everything;
the samples `x[2N−d .. N−1]` re-enter at the start of the window (`out[k] = x[k+2N−d]` for `k < d−N`, and
`0` for `d−N ≤ k < N`).  (DESIGN.md wrote the index range the other way round; this is what the model — and
the code — do.) -/
theorem C05_delay_wraps_beyond_window (times x : List ℝ) (d : ℕ) (fr vec : Bool)
    (hx : x.length = times.length) (hdt : sigDt times ≠ 0) (hd1 : x.length < d) (hd2 : d < 2 * x.length)
    (k : ℕ) (hk : k < x.length) :
    (filterFrequencies times x (fun f => cis (-(2 * Rpi * f * (RofNat d * sigDt times)))) fr vec).getD k 0
      = if k < d - x.length then x.getD (k + 2 * x.length - d) 0 else 0 := by
  rw [DftProps.filter_delay_general times x d fr vec hx hdt (by omega) k hk]
  have h1 : ¬ d ≤ k := by omega
  rw [if_neg h1]
  by_cases h2 : k < d - x.length
  · rw [if_pos h2, if_pos (by omega), show 2 * x.length + k - d = k + 2 * x.length - d by omega]
  · rw [if_neg h2, if_neg (by omega)]

/-- evaluating the response one frequency at a time (the `except (TypeError, ValueError)` fall-back) gives
the same table, hence the same filtered signal, as the vectorised call -/
theorem C05_scalar_fallback_eq (freqs times x : List ℝ) (H : ℝ → Cx) (fr : Bool) :
    respScalar H freqs = respVec H freqs
    ∧ getFilterResponse freqs H fr false = getFilterResponse freqs H fr true
    ∧ filterFrequencies times x H fr false = filterFrequencies times x H fr true := by
  refine ⟨DftModel.respScalar_eq_respVec H freqs, ?_, ?_⟩
  · rw [DftModel.getFilterResponse_vec_irrelevant]
  · simp only [filterFrequencies]
    rw [DftModel.getFilterResponse_vec_irrelevant]

/-- `FunctionSignal._apply_filters` with a single filter computes exactly `Signal.filter_frequencies` … -/
theorem C05_apply_filters_single (times vals : List ℝ) (H : ℝ → Cx) (fr vec : Bool)
    (ht : times.length = vals.length) :
    applyFilters vals (sigDt times) [(H, fr, vec)] = filterFrequencies times vals H fr vec :=
  DftApply.apply_filters_single times vals H fr vec ht

/-- … and with several stacked filters sharing the `force_real` flag it computes `filter_frequencies` for the
PRODUCT of the response functions (the code multiplies the response tables), so every theorem above holds for
function-backed signals with any number of such filters -/
theorem C05_apply_filters_stacked (times vals : List ℝ) (filters : List ((ℝ → Cx) × Bool × Bool)) (fr : Bool)
    (hfr : ∀ flt ∈ filters, flt.2.1 = fr) (ht : times.length = vals.length) :
    applyFilters vals (sigDt times) filters
      = filterFrequencies times vals
          (fun f => filters.foldl (fun a flt => cmul a (flt.1 f)) ((1, 0) : Cx)) fr true :=
  DftApply.apply_filters_stacked times vals filters fr hfr ht

/-- without `force_real` the filter is homogeneous in the response for COMPLEX factors before the real part is
taken: every sample of the complex output for `c·H` is `c` times that for `H` -/
theorem C05_filter_homog_complex (x : List ℝ) (c : Cx) (H : ℝ → Cx) (dt : ℝ) (vec : Bool) (k : ℕ)
    (hk : k < 2 * x.length) :
    (filterCore x (getFilterResponse (fftfreqs (2 * x.length) dt) (fun f => cmul c (H f)) false vec)).getD k 0
      = cmul c ((filterCore x (getFilterResponse (fftfreqs (2 * x.length) dt) H false vec)).getD k 0) :=
  DftApply.filter_homog_complex x c H dt vec k hk

/-- the all-zero signal is mapped to the all-zero signal (a degenerate input needs no special treatment) -/
theorem C05_filter_zero (times : List ℝ) (H : ℝ → Cx) (fr vec : Bool) :
    filterFrequencies times (List.replicate times.length (0 : ℝ)) H fr vec
      = List.replicate times.length (0 : ℝ) :=
  DftExtra.filter_zero times H fr vec

/-- for a response that is already Hermitian (`H(−f) = conj H(f)`, e.g. any real even gain) `force_real` changes
nothing — the filter applies one and the same factor to `+f` and `−f` either way -/
theorem C05_force_real_noop_of_hermitian (times x : List ℝ) (H : ℝ → Cx) (vec : Bool)
    (hH : ∀ f, H (-f) = cconj (H f)) :
    filterFrequencies times x H true vec = filterFrequencies times x H false vec :=
  DftExtra.force_real_noop_of_hermitian times x H vec hH

/-! ### non-vacuity: concrete instances of the hypotheses and of the K1 wrap-around -/

example : ([1, 0, 0.5] : List ℝ).length = ([0, 2, 4] : List ℝ).length ∧ sigDt [0, 2, 4] ≠ 0 := by
  constructor
  · rfl
  · simp [sigDt]

/-- the recorded K1 input (N = 8, d = 12): the model puts `x[7] = 0.5` at index 3 -/
example : (filterFrequencies [0, 1, 2, 3, 4, 5, 6, 7] [1, 0, 0, 0, 0, 0, 0, 0.5]
    (fun f => cis (-(2 * Rpi * f * (RofNat 12 * sigDt [0, 1, 2, 3, 4, 5, 6, 7])))) false true).getD 3 0 = 0.5 := by
  rw [C05_delay_wraps_beyond_window [0, 1, 2, 3, 4, 5, 6, 7] [1, 0, 0, 0, 0, 0, 0, 0.5] 12 false true
    (by simp) (by simp [sigDt]) (by simp) (by simp) 3 (by simp)]
  simp

/-- the constant response 1/2 meets the hypothesis of `C05_filter_passive` -/
example : ∀ f : ℝ, cnormSq ((fun _ => ((0.5, 0) : Cx)) f) ≤ 1 := by
  intro f; simp [cnormSq]; norm_num

/-- a real even gain is Hermitian (hypothesis of `C05_force_real_noop_of_hermitian`) -/
example : ∀ f : ℝ, (fun f : ℝ => ((1 / (1 + f ^ 2), 0) : Cx)) (-f) = cconj ((fun f : ℝ => ((1 / (1 + f ^ 2), 0) : Cx)) f) := by
  intro f; simp [cconj]

/-- two stacked filters sharing the `force_real` flag (hypothesis of `C05_apply_filters_stacked`) -/
example : ∀ flt ∈ ([((fun _ => ((0.5, 0) : Cx)), true, true), ((fun f => cis f), true, false)] :
    List ((ℝ → Cx) × Bool × Bool)), flt.2.1 = true := by
  intro flt h; simp at h; rcases h with rfl | rfl <;> rfl

/-- a list of positive length (hypothesis of `C05_parseval`), a bin index below `2N` (`C05_filter_homog_complex`) -/
example : 0 < ([(1, 0), (0, 1)] : List Cx).length ∧ 3 < 2 * ([1, 2] : List ℝ).length := by simp
