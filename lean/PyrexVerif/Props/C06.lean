import PyrexVerif.Proofs.LazyLemmas
import PyrexVerif.Proofs.SignalsThms
import PyrexVerif.Proofs.FnAlgebra
import PyrexVerif.Gen.LazyOps
import PyrexVerif.Gen.LazyDeps
set_option linter.unusedVariables false
/-!
# C06 — lazily evaluated signals and ray objects never serve stale values

`Lazy.Coherent compute o`: every cached lazy value of `o` equals what a freshly constructed object
with the same attributes computes.  The generic theorems are about the state machine of
`PyrexVerif/D/Lazy.lean`; `C06_all_methods_coherent` and `C06_deps_clearing` apply them to the tables
that `harness/extract/lazy_ops.py` REGENERATES from the pyrex sources on every run
(`Gen/LazyOps.lean`, `Gen/LazyDeps.lean`), so that e.g. removing `self._clear_cache()` from
`set_buffers`/`filter_frequencies`, dropping a name from a `static_attributes` list or reverting the
class-level clause of `LazyMutableClass.__setattr__` breaks a proof.

Assumed about the translator (trusted base): a lazy property's value is a function of the attributes
listed for it (`Respects compute deps`), and a method performs on `self` a step sequence whose effects
are the extracted ones.
-/
open Lazy

/-- assigning a clearing (static) attribute leaves an empty, hence coherent, cache — whatever the
state before -/
theorem C06_assign_static_coherent (compute : Name → (Name → Val) → Val) (o : Obj) (n : Name) (v : Val)
    (hn : n ∈ o.static) :
    Coherent compute (step compute o (.assign n v)) ∧ CacheEmpty (step compute o (.assign n v)) :=
  assign_static_coherent o n v hn

/-- reading keeps coherence, and the value served is the fresh value -/
theorem C06_read_coherent (compute : Name → (Name → Val) → Val) (o : Obj) (p : Name) (h : Coherent compute o) :
    Coherent compute (step compute o (.read p)) ∧
    (step compute o (.read p)).cache p = some (compute p o.attrs) :=
  ⟨read_coherent o p h, read_value o p h⟩

theorem C06_clear_coherent (compute : Name → (Name → Val) → Val) (o : Obj) :
    Coherent compute (step compute o .clear) ∧ CacheEmpty (step compute o .clear) :=
  clear_coherent o

/-- generic method lemma: a step list that passes `safe` (every in-place mutation of an attribute
some lazy property depends on happens while the cache is known empty; every assigned non-clearing
name is not a dependency) preserves coherence -/
theorem C06_safe_preserves (compute : Name → (Name → Val) → Val) (deps : List Name)
    (hr : Respects compute deps) (m : List Step) (e : Bool) (o : Obj)
    (hs : safe o.static deps e (m.map Step.eff) = true) (he : e = true → CacheEmpty o)
    (hc : Coherent compute o) : Coherent compute (run compute o m) :=
  safe_preserves hr m e o hs he hc

/-- in-place mutation without a clear does lose coherence (why the effect table matters):
read, then mutate `_buffers` in place, and the cached value is stale -/
theorem C06_mutate_breaks :
    Coherent demoCompute (run demoCompute demoObj [.read "values"]) ∧
    ¬ Coherent demoCompute (run demoCompute demoObj [.read "values", .mutate "_buffers" (· + 1)]) :=
  mutate_breaks_demo

/-- the unsafe shapes are rejected by the check: `set_buffers` without its `_clear_cache()` (the
tree before repair F2), and `+=` on an element of `_t0s` -/
theorem C06_safe_rejects :
    safe ["times", "_t0s", "_buffers"] ["times", "_t0s", "_buffers"] false [.mutate "_buffers"] = false ∧
    safe ["times", "_t0s", "_buffers"] ["times", "_t0s", "_buffers"] false [.clear, .read "values", .mutate "_t0s"] = false ∧
    safe ["times", "_t0s", "_buffers"] ["times", "_t0s", "_buffers"] false [.clear, .mutate "_buffers"] = true := by
  decide

/-! ## augmented assignment / assigning the same object back

`rt.to_point += d`, `sig.times += 0.5` and `p = rt.from_point; p[2] = z; rt.from_point = p` mutate an
array in place and then hand the *same object* to `__setattr__`.  The model treats this as
`mutate n f` followed by `assign n v`: `__setattr__` decides on the attribute *name*, never on the
value, so the assignment clears.  (The translator emits `assign` for an augmented assignment to an
attribute of self; `C06_augassign_is_assign` shows that nothing is lost.) -/

/-- in-place mutation followed by the assignment of a clearing attribute is exactly the assignment -/
theorem C06_augassign_is_assign (compute : Name → (Name → Val) → Val) (o : Obj) (n : Name) (f : Val → Val)
    (v : Val) (hn : n ∈ o.static) :
    step compute (step compute o (.mutate n f)) (.assign n v) = step compute o (.assign n v) :=
  mutate_assign_eq_assign o n f v hn

/-- assigning the value the attribute already holds still leaves an empty cache -/
theorem C06_assign_same_object_clears (compute : Name → (Name → Val) → Val) (o : Obj) (n : Name)
    (hn : n ∈ o.static) : CacheEmpty (step compute o (.assign n (o.attrs n))) :=
  assign_same_value_clears o n hn

/-- a `__setattr__` that skipped the clear when "the same object" is assigned would serve a stale
value after read / in-place mutation / assign-back; the real one does not -/
theorem C06_identity_shortcut_breaks :
    let o1 := step demoCompute (step demoCompute demoObj (.read "values")) (.mutate "_buffers" (· + 1))
    ¬ Coherent demoCompute (stepShortcut demoCompute o1 (.assign "_buffers" (o1.attrs "_buffers"))) ∧
    Coherent demoCompute (step demoCompute o1 (.assign "_buffers" (o1.attrs "_buffers"))) :=
  identity_shortcut_breaks

/-! ## early exits and several live handles -/

/-- a method that raises or returns early has performed a PREFIX of its extracted effects; the safety
check is closed under prefixes, so `C06_all_methods_coherent` also covers every aborted call
(e.g. `set_buffers(leading=1, trailing=-1)`, which raises after the leading buffers were written) -/
theorem C06_safe_prefix (clearing deps : List Name) (l : List Eff) (e : Bool) (k : Nat)
    (h : safe clearing deps e l = true) : safe clearing deps e (l.take k) = true :=
  safe_take clearing deps l e k h

/-- two handles that store the SAME attribute object (a ray path keeps the endpoint arrays of its
tracer): an augmented assignment through the first handle clears only the first handle's cache, and
the second handle serves a stale value.  This is known finding K19 - the model shows why no
`__setattr__`-based scheme can see it. -/
theorem C06_shared_attribute_breaks :
    let a := step demoCompute demoObj (.read "values")
    let b := step demoCompute demoObj (.read "values")
    Coherent demoCompute a ∧ Coherent demoCompute b ∧
    Coherent demoCompute (sharedAugAssign demoCompute a b "_buffers" (· + 1)).1 ∧
    ¬ Coherent demoCompute (sharedAugAssign demoCompute a b "_buffers" (· + 1)).2 :=
  shared_attribute_breaks

/-! ## exception safety of a lazy read -/

/-- a read whose evaluation raises leaves the cache as it was, apart from the lazy properties that
were read successfully on the way: coherence is kept, and with no nested reads the object is
literally unchanged - so the next read behaves like a read on a fresh object in the same state -/
theorem C06_failed_read_coherent (compute : Name → (Name → Val) → Val) (o : Obj) (qs : List Name)
    (h : Coherent compute o) :
    Coherent compute (failedRead compute o qs) ∧ failedRead compute o [] = o :=
  ⟨failedRead_coherent o qs h, rfl⟩

/-- a `lazy_property` that reserved the cache slot before evaluating and left the marker behind on
failure would serve the marker on the next read: not coherent -/
theorem C06_marker_on_failure_breaks :
    Coherent demoCompute demoObj ∧ ¬ Coherent demoCompute (failedReadMarker demoObj "values") :=
  failedReadMarker_breaks

/-! ## the regenerated tables -/

/-- the two generated tables describe the same classes in the same order -/
theorem C06_tables_aligned :
    Gen.LazyDeps.classes.map (·.name) = Gen.LazyOps.table.map (·.1) := by decide +kernel

/-- every dependency of every lazy property of every class derived from `LazyMutableClass` is a
clearing name (constructor static attribute or public class-level name) or private -/
theorem C06_deps_clearing :
    Gen.LazyDeps.classes.all (·.depsClearing Gen.LazyDeps.classLevelClears) = true := by decide +kernel

/-- every method of every such class passes the safety check against the class's own clearing set
and dependency set -/
theorem C06_all_methods_safe :
    (List.zip Gen.LazyDeps.classes Gen.LazyOps.table).all
      (fun x => methodsSafe x.1 Gen.LazyDeps.classLevelClears x.2.2) = true := by decide +kernel

/-- hence: for every class of the regenerated table, every method entry, every step sequence with
those effects, and every `compute` that reads only the extracted dependencies, the method preserves
coherence (methods that run on a freshly created object start from an empty cache) -/
theorem C06_all_methods_coherent (compute : Name → (Name → Val) → Val)
    (c : ClassInfo) (ms : List Method) (hcm : (c, (c.name, ms)) ∈ List.zip Gen.LazyDeps.classes Gen.LazyOps.table)
    (hr : Respects compute c.allDeps) (e : Method) (he : e ∈ ms) (m : List Step) (hm : m.map Step.eff = e.effs)
    (o : Obj) (hst : o.static = c.clearing Gen.LazyDeps.classLevelClears)
    (hfresh : e.fresh = true → CacheEmpty o) (hc : Coherent compute o) :
    Coherent compute (run compute o m) := by
  have hall := C06_all_methods_safe
  rw [List.all_eq_true] at hall
  have h1 := hall _ hcm
  simp only [methodsSafe, List.all_eq_true] at h1
  have h2 := h1 e he
  rw [← hm, ← hst] at h2
  exact safe_preserves hr m e.fresh o h2 hfresh hc

/-- history theorem: starting from a coherent object of any class of the table (e.g. a freshly
constructed one, whose cache is empty), any interleaving of method calls, assignments of public
attributes and reads of lazy properties leaves every cached value equal to the fresh value -/
theorem C06_reachable_coherent (compute : Name → (Name → Val) → Val)
    (c : ClassInfo) (ms : List Method) (hcm : (c, (c.name, ms)) ∈ List.zip Gen.LazyDeps.classes Gen.LazyOps.table)
    (hr : Respects compute c.allDeps) (hist : List Action) (o : Obj)
    (hst : o.static = c.clearing Gen.LazyDeps.classLevelClears)
    (hadm : ∀ a ∈ hist, Admissible ms a) (hc : Coherent compute o) :
    Coherent compute (hist.foldl (act compute) o) := by
  have hall := C06_all_methods_safe
  rw [List.all_eq_true] at hall
  have h1 := hall _ hcm
  simp only [methodsSafe, List.all_eq_true] at h1
  have hd := C06_deps_clearing
  rw [List.all_eq_true] at hd
  have hc1 := hd c (List.of_mem_zip hcm).1
  simp only [ClassInfo.depsClearing, List.all_eq_true, Bool.or_eq_true] at hc1
  refine history_coherent hr ms _ h1 ?_ hist o hst hadm hc
  intro d hdm
  simp only [ClassInfo.allDeps, List.mem_flatMap] at hdm
  obtain ⟨p, hp, hdp⟩ := hdm
  rcases hc1 p hp d hdp with h | h
  · left; simpa using h
  · right; exact h

/-- and every read along such a history serves the fresh value -/
theorem C06_reads_are_fresh (compute : Name → (Name → Val) → Val)
    (c : ClassInfo) (ms : List Method) (hcm : (c, (c.name, ms)) ∈ List.zip Gen.LazyDeps.classes Gen.LazyOps.table)
    (hr : Respects compute c.allDeps) (hist : List Action) (o : Obj)
    (hst : o.static = c.clearing Gen.LazyDeps.classLevelClears)
    (hadm : ∀ a ∈ hist, Admissible ms a) (hc : Coherent compute o) (p : Name) :
    (step compute (hist.foldl (act compute) o) (.read p)).cache p =
      some (compute p (hist.foldl (act compute) o).attrs) :=
  read_value _ p (C06_reachable_coherent compute c ms hcm hr hist o hst hadm hc)

/-! ## value algebra of function-backed signals (definitions shared with C04: `Sig.fnValues`) -/

/-- `values` = Σ over the components of crop(filters(factor · f(full_times − t0))); with the scalar
gain filters of the model this is the direct evaluation on the signal's own times -/
theorem C06_values_def (d : Sig.FData) (vs : Sig.Arr) (h : Sig.fnValues d = some vs) :
    vs = Sig.directValues d := Sig.fnValues_direct h

/-- scaling every factor scales every value (`*=`, `/=`, `*`, `/`) -/
theorem C06_values_scale (d : Sig.FData) (vs : Sig.Arr) (q : Rat) (h : Sig.fnValues d = some vs) :
    Sig.fnValues { d with facs := Sig.scale q d.facs } = some (Sig.scale q vs) := Sig.fnValues_scale q h

/-- concatenating the component lists adds the values pointwise (`+` of two function signals) -/
theorem C06_values_add (d e : Sig.FData) (va vb : Sig.Arr) (hts : d.ts = e.ts)
    (h1 : d.t0s.length = d.fns.length) (h2 : d.facs.length = d.fns.length)
    (h3 : d.bufs.length = d.fns.length) (h4 : d.filts.length = d.fns.length)
    (ha : Sig.fnValues d = some va) (hb : Sig.fnValues e = some vb) :
    Sig.fnValues (d.append e) = some (Sig.addArr va vb) := Sig.fnValues_append hts h1 h2 h3 h4 ha hb

/-- `shift(δ)` adds δ to the times and to every time offset: the values move with the grid, i.e.
sample `k` keeps its value -/
theorem C06_values_shift (d : Sig.FData) (δ : Rat) :
    Sig.directValues { d with ts := d.ts.map (· + δ), t0s := d.t0s.map (· + δ) } = Sig.directValues d :=
  Sig.directValues_shift d δ

/-- only the lengths of the buffer list matter for scalar-gain filters -/
theorem C06_buffers_only_matter_with_filters (d : Sig.FData) (bufs' : List Sig.Arr)
    (h : bufs'.length = d.bufs.length) : Sig.directValues { d with bufs := bufs' } = Sig.directValues d := by
  simp only [Sig.directValues]
  rw [Sig.directWindows_bufs _ _ _ _ bufs' d.bufs _ h]

/-! ### filters as abstract linear operators (`Sig.FilterSem`), window counts, appended filters -/

/-- the abstract evaluation instantiated with the scalar-gain semantics is the executable model -/
theorem C06_values_abstract_is_model (d : Sig.FData) : Sig.fnValuesA Sig.gainSem d = Sig.fnValues d :=
  Sig.fnValuesA_gain d

/-- window counts: `n_before = ⌈buffer/dt⌉` (and likewise `n_after`).
This is a statement about EXACT rationals: `Sig.nbuf` is the code's decision
`int(b/dt) + (1 if b % dt else 0)` read over ℚ.  The code takes that decision in floating point, where
it is NOT always the ceiling of the rounded quotient: for `dt = 0.1`, `b = 0.5` the quotient rounds to
`5.0` while `b % dt ≠ 0`, so the code counts 6 points and `ceil(b/dt)` would count 5.  What the
property needs at such boundaries is only that `_full_times` and `_value_window` take the *same*
decision (then the window still has one value per sample and starts at `times[0]`,
`C06_window_length`); that is covered by the correspondence run and the search (sample spacings that
are not binary fractions, buffers on and one ulp next to `k·dt`, comparison with the independent
eager evaluation), not by this theorem. -/
theorem C06_window_counts (b dt : Rat) (hq : 0 ≤ b / dt) : Sig.nbuf b dt = (b / dt).ceil :=
  Sig.nbuf_eq_ceil hq

/-- the value window `[n_before, n_before + len(times))` of the buffer-extended, filtered component
has exactly one value per time sample, for every linear filter semantics -/
theorem C06_window_length (F : Sig.FilterSem) (ts : Sig.Arr) (fn t0 fac : Rat) (buf filt w : Sig.Arr)
    (h : Sig.compValsA F ts fn t0 fac buf filt = some w) : w.length = ts.length :=
  Sig.compValsA_length F h

/-- scaling the factors scales the values, for every linear filter semantics -/
theorem C06_values_scale_linear (F : Sig.FilterSem) (d : Sig.FData) (vs : Sig.Arr) (q : Rat)
    (h : Sig.fnValuesA F d = some vs) :
    Sig.fnValuesA F { d with facs := Sig.scale q d.facs } = some (Sig.scale q vs) :=
  Sig.fnValuesA_scale F q h

/-- concatenating component lists adds the values, for every linear filter semantics -/
theorem C06_values_add_linear (F : Sig.FilterSem) (d e : Sig.FData) (va vb : Sig.Arr) (hts : d.ts = e.ts)
    (h1 : d.t0s.length = d.fns.length) (h2 : d.facs.length = d.fns.length)
    (h3 : d.bufs.length = d.fns.length) (h4 : d.filts.length = d.fns.length)
    (ha : Sig.fnValuesA F d = some va) (hb : Sig.fnValuesA F e = some vb) :
    Sig.fnValuesA F (d.append e) = some (Sig.addArr va vb) :=
  Sig.fnValuesA_append F hts h1 h2 h3 h4 ha hb

/-- a component without filters does not see its buffers, for every filter semantics -/
theorem C06_buffers_irrelevant_without_filters (F : Sig.FilterSem) (ts : Sig.Arr) (fn t0 fac : Rat)
    (buf w : Sig.Arr) (h : Sig.compValsA F ts fn t0 fac buf [] = some w) :
    w = ts.map (fun t => Sig.fnEval (Sig.code fn) (t - t0) * fac) :=
  Sig.compValsA_nil_direct F h

/-- `filter_frequencies(h)` appends `h` to the filter list of *every* component (`Sig.step` on the
object graph: each inner `_filters[i]` list grows in place), and in the scalar-gain model the
values are multiplied by the gain of `h`.
Full statement for frequency-dependent filters (values = Σ crop(F(fsᵢ ++ [h])(factorᵢ·fᵢ))) is the
definition `Sig.fnValuesA F` evaluated on the appended lists; that the product of responses acts
in one pass is property C05. -/
theorem C06_values_filter_append (d : Sig.FData) (vs : Sig.Arr) (c : Rat) (h : Sig.fnValues d = some vs) :
    Sig.fnValues { d with filts := d.filts.map (· ++ [c]) } = some (Sig.scale (Sig.gain (Sig.code c)) vs) :=
  Sig.fnValues_filter_append c h

/-! ## non-vacuity -/
-- the aborted `set_buffers` (clear, leading buffers written, then the exception) is a safe prefix
example : safe ["_buffers"] ["_buffers"] false ([Eff.clear, .mutate "_buffers", .mutate "_buffers"].take 2) = true := by
  decide
-- hypotheses of the generic lemmas on a concrete object: a static name, a coherent non-empty cache
example : "times" ∈ (⟨fun _ => 1, fun _ => none, ["times"]⟩ : Obj).static := by decide
example : Coherent demoCompute (step demoCompute demoObj (.read "values")) ∧
    (step demoCompute demoObj (.read "values")).cache "values" = some 0 :=
  ⟨read_coherent _ _ (coherent_of_empty (fun _ => rfl)), by simp [step, demoObj, demoCompute]⟩
-- value algebra on a concrete two-component signal with a filter
example : Sig.fnValues ⟨[0, 1, 2], [3, 0], [0, 1], [1, 2], [[0, 0], [1, 0]], [[0], []]⟩ = some [-3/2, 3/2, 9/2] := by
  decide +kernel
example : 0 ≤ (5 : Rat) / 2 ∧ Sig.nbuf 5 2 = 3 ∧ Sig.nbuf 4 2 = 2 := by decide +kernel
example : Sig.fnValuesA Sig.gainSem ⟨[0, 1, 2], [3], [0], [1], [[2, 0]], [[0]]⟩ = some [1/2, 3/2, 5/2] := by
  decide +kernel
-- the table is not empty and contains the classes the property names
example : Gen.LazyDeps.classes.length = Gen.LazyOps.table.length ∧ 10 ≤ Gen.LazyDeps.classes.length := by
  decide +kernel
example : ["FunctionSignal", "FullThermalNoise", "FFTThermalNoise", "ZHSAskaryanSignal", "AVZAskaryanSignal",
    "ARZAskaryanSignal", "BasicRayTracer", "SpecializedRayTracer", "UniformRayTracer", "LayeredRayTracer",
    "BasicRayTracePath", "SpecializedRayTracePath", "UniformRayTracePath", "LayeredRayTracePath"].all
    (fun n => (Gen.LazyDeps.classes.map (·.name)).contains n) = true := by decide +kernel
-- `set_buffers` and `filter_frequencies` are in the table with their clear-then-mutate shape
example : (Gen.LazyOps.c_FunctionSignal.filter (fun m => m.name == "set_buffers" || m.name == "filter_frequencies")).map
    (fun m => m.effs.take 2) = [[.clear, .mutate "_filters"], [.clear, .mutate "_buffers"]] := by decide +kernel
-- a concrete coherent object and a concrete `compute` respecting the FunctionSignal dependencies
example : Respects (fun _ a => a "times" + a "_t0s") Gen.LazyDeps.c_FunctionSignal.allDeps := by
  intro p a a' h
  have h1 := h "times" (by decide +kernel)
  have h2 := h "_t0s" (by decide +kernel)
  simp [h1, h2]
example : Coherent (fun _ a => a "times" + a "_t0s") ⟨fun _ => 1, fun _ => none, []⟩ :=
  coherent_of_empty (fun _ => rfl)
