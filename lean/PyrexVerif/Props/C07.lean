import PyrexVerif.Proofs.AskaryanZHSMove
import PyrexVerif.Proofs.AskaryanAVZ2
import PyrexVerif.Proofs.AskaryanARZMove3
import PyrexVerif.Proofs.AskaryanRound4
import PyrexVerif.Proofs.AskaryanRound5
import PyrexVerif.Proofs.AskaryanFinite
/-!
# C07 — Askaryan pulses obey their scaling laws and fail gracefully

Theorems about the ℝ-reading (`PyrexR`) of `twin/Askaryan.body`; the Float reading of the same text is
what `Drivers/C07.lean` runs against `pyrex.askaryan`.  `zhsValues / avzValues / arzValues times E emFrac
hadFrac psi dist n t0` are the `.values` of the three signal classes on the grid `times` for a particle of
energy `E` with the given shower fractions, viewing angle `psi`, viewing distance `dist`, index of
refraction `n` at the vertex and shower time `t0`.  `showerSignal` is `ARZAskaryanSignal.shower_signal`
with the profile and the potential as arbitrary functions.
-/
open PyrexR PyrexGen

/-! ## exactly 1/R -/

theorem C07_inv_distance_zhs (times : List ℝ) (E em had psi dist n t0 : ℝ) (_hR : dist ≠ 0) :
    zhsValues times E em had psi dist n t0 = (zhsValues times E em had psi 1 n t0).map (fun v => v / dist) := by
  rw [zhs_scale_dist]; congr 1; funext v; rw [div_eq_inv_mul]

theorem C07_inv_distance_avz (times : List ℝ) (E em had psi dist n t0 : ℝ) (_hR : dist ≠ 0) :
    avzValues times E em had psi dist n t0 = (avzValues times E em had psi 1 n t0).map (fun v => v / dist) := by
  rw [avz_scale_dist]; congr 1; funext v; rw [div_eq_inv_mul]

/-- for every profile and potential function -/
theorem C07_inv_distance_arz_shower (times : List ℝ) (energy : ℝ) (prof rac : ℝ → ℝ → ℝ)
    (theta dist n t0 : ℝ) (_hR : dist ≠ 0) :
    showerSignal times energy prof rac theta dist n t0
      = (showerSignal times energy prof rac theta 1 n t0).map (fun v => v / dist) := by
  rw [showerSignal_dist]; congr 1; funext v; rw [div_eq_inv_mul]

theorem C07_inv_distance_arz (times : List ℝ) (E em had psi dist n t0 : ℝ) (_hR : dist ≠ 0) :
    arzValues times E em had psi dist n t0 = (arzValues times E em had psi 1 n t0).map (fun v => v / dist) := by
  rw [arz_scale_dist]; congr 1; funext v; rw [div_eq_inv_mul]

/-! ## the viewing angle enters through its magnitude only -/

theorem C07_even_in_angle_zhs (times : List ℝ) (E em had psi dist n t0 : ℝ) :
    zhsValues times E em had (-psi) dist n t0 = zhsValues times E em had psi dist n t0 := by
  simp [zhsValues]

theorem C07_even_in_angle_avz (times : List ℝ) (E em had psi dist n t0 : ℝ) :
    avzValues times E em had (-psi) dist n t0 = avzValues times E em had psi dist n t0 := by
  simp [avzValues]

theorem C07_even_in_angle_arz (times : List ℝ) (E em had psi dist n t0 : ℝ) :
    arzValues times E em had (-psi) dist n t0 = arzValues times E em had psi dist n t0 := by
  simp [arzValues]

/-- the constructors raise for `|psi| > π`, symmetrically -/
theorem C07_angle_raises_even (psi : ℝ) : angleRaises (-psi) = angleRaises psi := by
  simp [angleRaises]

/-! ## shifting the grid and the shower time together changes nothing -/

theorem C07_joint_shift_zhs (times : List ℝ) (E em had psi dist n t0 s : ℝ) (h : 2 ≤ times.length) :
    zhsValues (times.map (· + s)) E em had psi dist n (t0 + s) = zhsValues times E em had psi dist n t0 :=
  zhs_joint_shift times E em had psi dist n t0 s h

theorem C07_joint_shift_avz (times : List ℝ) (E em had psi dist n t0 s : ℝ) (h : 2 ≤ times.length) :
    avzValues (times.map (· + s)) E em had psi dist n (t0 + s) = avzValues times E em had psi dist n t0 :=
  avz_joint_shift times E em had psi dist n t0 s h

theorem C07_joint_shift_arz_shower (times : List ℝ) (energy : ℝ) (prof rac : ℝ → ℝ → ℝ)
    (theta dist n t0 s : ℝ) (h : 2 ≤ times.length) :
    showerSignal (times.map (· + s)) energy prof rac theta dist n (t0 + s)
      = showerSignal times energy prof rac theta dist n t0 :=
  showerSignal_joint_shift times energy prof rac theta dist n t0 s h

theorem C07_joint_shift_arz (times : List ℝ) (E em had psi dist n t0 s : ℝ) (h : 2 ≤ times.length) :
    arzValues (times.map (· + s)) E em had psi dist n (t0 + s) = arzValues times E em had psi dist n t0 :=
  arz_joint_shift times E em had psi dist n t0 s h

/-! ## moving only the shower time by whole samples moves the pulse by whole samples

ZHS and AVZ return exact zeros once the placement shift exceeds the trace length (a deliberate cut of
the far tail); the statements are for shower times inside that range: `zhsInRange times t0` is
`¬ |int((t0-times[0])/dt) - N/2| > N`, `avzInRange times t0` is `¬ |⌊(t0-times[0])/dt⌋ - L/2| > L` with `L = 2⌊N/2⌋`
(definitions in `Proofs/AskaryanZHSMove.lean`, `Proofs/AskaryanAVZ2.lean`). -/

/-- DFT shift theorem: `new[j] = old[j-m]` for `m ≤ j < N` -/
theorem C07_whole_sample_move_zhs (times : List ℝ) (E em had psi dist n t0 : ℝ) (m j : ℕ)
    (hdt : gridDt times ≠ 0) (hmj : m ≤ j) (hj : j < times.length)
    (h1 : zhsInRange times t0) (h2 : zhsInRange times (t0 + m * gridDt times)) :
    (zhsValues times E em had psi dist n (t0 + m * gridDt times)).getD j 0
      = (zhsValues times E em had psi dist n t0).getD (j - m) 0 := by
  unfold zhsInRange at h1 h2
  unfold zhsValues
  simp only []
  split_ifs
  · rw [zerosL_getD, zerosL_getD]
  · rw [tab_getD _ _ _ hj, tab_getD _ _ _ (by omega : j - m < times.length)]
    have : t0 + m * gridDt times - times.getD 0 0 = (t0 - times.getD 0 0) + m * gridDt times := by ring
    rw [this, ifftShiftedRe_move times.length (by omega) (gridDt times) hdt _ _ m j hmj]

/-- `⌊x+m⌋ = ⌊x⌋+m`: what makes the repaired AVZ placement (`np.floor`, F7) equivariant … -/
theorem C07_floor_shift_equivariant (x : ℝ) (m : ℤ) : Rfloor (x + m) = Rfloor x + m := by
  simp only [Rfloor]; exact Int.floor_add_intCast x m

/-- … and what the truncation `int()` of the unrepaired code lacks: `x = -1/2`, `m = 1` -/
theorem C07_trunc_not_shift_equivariant : ∃ (x : ℝ) (m : ℤ), Rtrunc (x + m) ≠ Rtrunc x + m := by
  refine ⟨-1 / 2, 1, ?_⟩
  have h1 : Rtrunc ((-1 / 2 : ℝ) + ((1 : ℤ) : ℝ)) = 0 := by
    have : ((-1 / 2 : ℝ) + ((1 : ℤ) : ℝ)) = 1 / 2 := by norm_num
    rw [this]
    simp only [Rtrunc]
    rw [if_pos (by norm_num)]
    rw [Int.floor_eq_iff]; norm_num
  have h2 : Rtrunc (-1 / 2 : ℝ) = 0 := by
    simp only [Rtrunc]
    rw [if_neg (by norm_num)]
    rw [Int.ceil_eq_iff]; norm_num
  rw [h1, h2]; norm_num

/-- roll/crop lemma: `new[i] = old[i-m]` for `m ≤ i < 2⌊N/2⌋` (every sample for even `N`; all but the
extrapolated last sample for odd `N`, which is known finding K5) -/
theorem C07_whole_sample_move_avz (times : List ℝ) (E em had psi dist n t0 : ℝ) (m i : ℕ)
    (hdt : gridDt times ≠ 0) (hmi : m ≤ i) (hi : i < 2 * (times.length / 2))
    (h1 : avzInRange times t0) (h2 : avzInRange times (t0 + m * gridDt times)) :
    (avzValues times E em had psi dist n (t0 + m * gridDt times)).getD i 0
      = (avzValues times E em had psi dist n t0).getD (i - m) 0 :=
  avz_move times E em had psi dist n t0 m i hdt hmi hi h1 h2

/-- K5 made explicit: on an odd-length grid the last AVZ sample is the linear extrapolation of the two
before it, whatever the shower time -/
theorem C07_avz_odd_last_sample_extrapolated (times : List ℝ) (E em had psi dist n t0 : ℝ)
    (hodd : 2 * (times.length / 2) + 1 = times.length) :
    (avzValues times E em had psi dist n t0).getD (times.length - 1) 0
      = 2 * (avzValues times E em had psi dist n t0).getD (times.length - 2) 0
        - (avzValues times E em had psi dist n t0).getD (times.length - 3) 0 := by
  unfold avzValues avzPlace
  simp only [avzCentred_length]
  rw [if_pos hodd]
  set L := 2 * (times.length / 2) with hL
  set placed := (if (Rfloor (askRound6 ((t0 - times.getD 0 0) / gridDt times)) - ((L / 2 : ℕ) : ℤ)).natAbs > L then zerosL L
      else List.take L (askRoll (avzCentred times.length (gridDt times)
        (avzSpectrum (times.length / 2 + 1) (askRfftfreq times.length (gridDt times)) E em had dist (Rabs psi) (thetaC n))
          ++ zerosL L) (Rfloor (askRound6 ((t0 - times.getD 0 0) / gridDt times)) - ((L / 2 : ℕ) : ℤ)))) with hp
  have hpl : placed.length = L := by
    rw [hp]
    split_ifs
    · exact zerosL_length _
    · have := take_askRoll_length (avzCentred times.length (gridDt times)
        (avzSpectrum (times.length / 2 + 1) (askRfftfreq times.length (gridDt times)) E em had dist (Rabs psi) (thetaC n)))
        (Rfloor (askRound6 ((t0 - times.getD 0 0) / gridDt times)) - ((L / 2 : ℕ) : ℤ))
      rw [avzCentred_length] at this
      exact this
  have hN : times.length = L + 1 := by omega
  have hL2 : 2 ≤ L ∨ L = 0 := by omega
  rcases hL2 with hL2 | hL0
  · rw [show times.length - 1 = L by omega, show times.length - 2 = L - 1 by omega,
        show times.length - 3 = L - 2 by omega]
    have g1 : (placed ++ [2 * placed.getD (L - 1) 0 - placed.getD (L - 2) 0]).getD L 0
        = 2 * placed.getD (L - 1) 0 - placed.getD (L - 2) 0 := by
      simp [List.getD_eq_getElem?_getD, ← hpl]
    have g2 : ∀ k, k < L → (placed ++ [2 * placed.getD (L - 1) 0 - placed.getD (L - 2) 0]).getD k 0 = placed.getD k 0 := by
      intro k hk
      simp [List.getD_eq_getElem?_getD, List.getElem?_append_left (by omega : k < placed.length)]
    rw [g1, g2 (L - 1) (by omega), g2 (L - 2) (by omega)]
  · -- N = 1: the single sample is `2·0 - 0`
    have : placed = [] := List.eq_nil_of_length_eq_zero (by omega)
    rw [this, hN, hL0]
    simp

/-! ### ARZ (partial: everything except the zero crossing of `int()`'s argument)

`ArzShowerMoves times e θ n t0 m` (definition in `Proofs/AskaryanARZMove3.lean`) says of one shower: its energy is
zero, **or** it is seen on the cone and the grid is uniform, **or** it is seen off the cone and `ArzMoveHyp`
holds: `dt ≠ 0`, `z_to_t ≠ 0`, the argument `x = (t_start+10 ns)/dz/z_to_t` of `n_shift = int(x)` does not cross
zero under the move (`0 ≤ x - m·dt_divider ∨ x ≤ 0`), neither shower time is cut by the two "skip" tests, and the
potential array is non-empty (`n_RAC ≥ 1`).  Under it `new[i] = old[i-m]` for every `m ≤ i < N`, for arbitrary
profile and potential functions (`_shower_partial`) and for the sum over the two showers that
`get_signal_from_showers` forms (`C07_whole_sample_move_arz_partial`).
What keeps the `_partial`: when `x` crosses zero, `int()` (truncation) keeps one more / one fewer of the ±10 ns
tail samples of RAC and `n_shift` moves by `m·dt_divider ∓ 1`; the two traces then differ by that tail sample
(≤ 4e-5 of the potential's peak) — not an exact equality, and not claimed.
The remaining `_partial_*` theorems below are the ingredients (kept because each is a statement about one stage
of the index bookkeeping). -/

/-- one shower, arbitrary profile and potential -/
theorem C07_whole_sample_move_arz_shower_partial (times : List ℝ) (energy : ℝ) (prof rac : ℝ → ℝ → ℝ)
    (theta dist n t0 : ℝ) (m i : ℕ) (h : ArzShowerMoves times energy theta n t0 m)
    (hmi : m ≤ i) (hi : i < times.length) :
    (showerSignal times energy prof rac theta dist n (t0 + m * gridDt times)).getD i 0
      = (showerSignal times energy prof rac theta dist n t0).getD (i - m) 0 :=
  showerSignal_move times energy prof rac theta dist n t0 m i h hmi hi

/-- the signal class: electromagnetic plus hadronic shower -/
theorem C07_whole_sample_move_arz_partial (times : List ℝ) (E em had psi dist n t0 : ℝ) (m i : ℕ)
    (hem : ArzShowerMoves times (E * em) (Rabs psi) n t0 m)
    (hhad : ArzShowerMoves times (E * had) (Rabs psi) n t0 m) (hmi : m ≤ i) (hi : i < times.length) :
    (arzValues times E em had psi dist n (t0 + m * gridDt times)).getD i 0
      = (arzValues times E em had psi dist n t0).getD (i - m) 0 :=
  arzValues_move times E em had psi dist n t0 m i hem hhad hmi hi

theorem C07_whole_sample_move_arz_partial_oncone (times : List ℝ) (energy : ℝ) (prof rac : ℝ → ℝ → ℝ)
    (theta dist n t0 : ℝ) (m i : ℕ)
    (hgrid : ∀ k, k < times.length → times.getD k 0 = times.getD 0 0 + k * gridDt times)
    (hc : Rabs (theta - Racos (1 / n)) ≤ onconeRange) (hmi : m ≤ i) (hi : i < times.length) :
    (showerSignal times energy prof rac theta dist n (t0 + m * gridDt times)).getD i 0
      = (showerSignal times energy prof rac theta dist n t0).getD (i - m) 0 :=
  showerSignal_oncone_move times energy prof rac theta dist n t0 m i hgrid hc hmi hi

theorem C07_whole_sample_move_arz_partial_rac (i : ℕ) (nShift d : ℤ) (m : ℕ) (dt zToT tStart : ℝ)
    (hd : (d : ℝ) ≠ 0) (hz : zToT ≠ 0) :
    RofInt ((i : ℤ) - (nShift - m * d)) * (dt / RofInt d / zToT) * zToT + (tStart - m * dt)
      = RofInt ((i : ℤ) - nShift) * (dt / RofInt d / zToT) * zToT + tStart :=
  arz_tRAC_invariant i nShift d m dt zToT tStart hd hz

theorem C07_whole_sample_move_arz_partial_trunc (x : ℝ) (k : ℕ) (h : 0 ≤ x - k ∨ x ≤ 0) :
    Rtrunc (x - k) = Rtrunc x - k := rtrunc_sub_nat x k h

/-- the four-way shift / zero-pad / crop: `out[j] = conv[j + s]` inside the convolution, `0` outside;
`h1`, `h2` are the negations of the two "skip" tests, `h3` is `N·dt_divider ≥ 0` -/
theorem C07_arz_placement (conv : Arr) (s e : ℤ) (h1 : s < conv.len) (h2 : -s < conv.len - e)
    (h3 : 0 ≤ (conv.len : ℤ) - e) :
    ((arzPlace conv s e).len : ℤ) = (conv.len : ℤ) - e ∧
    ∀ j : ℕ, (j : ℤ) < conv.len - e →
      (arzPlace conv s e).get j
        = if 0 ≤ (j : ℤ) + s ∧ (j : ℤ) + s < conv.len then conv.get ((j : ℤ) + s).toNat else 0 :=
  ⟨arzPlace_len conv s e h1 h2 h3, fun j hj => arzPlace_get conv s e h1 j hj⟩

theorem C07_whole_sample_move_arz_partial_place (conv : Arr) (s e : ℤ) (k j : ℕ) (h1 : s < conv.len)
    (hkj : k ≤ j) (hj : (j : ℤ) < conv.len - e) :
    (arzPlace conv (s - k) e).get j = (arzPlace conv s e).get (j - k) :=
  arzPlace_move conv s e k j h1 hkj hj

/-- `hlen` is `len(convolution) = N·dt_divider + n_extra`; `hs`, `hs1`, `hs1'` are the negated skip tests -/
theorem C07_whole_sample_move_arz_partial_offcone (ix : ArzIdx) (Q RAC : Arr) (theta dist n zToT : ℝ)
    (N m i : ℕ) (hd : 1 ≤ ix.dtDiv)
    (hlen : ((Q.convolve RAC).len : ℤ) = N * ix.dtDiv + ix.nExtra)
    (hs : ix.nShift + ix.nQneg < (Q.convolve RAC).len)
    (hs1 : -(ix.nShift + ix.nQneg) < N * ix.dtDiv)
    (hs1' : -(ix.nShift - m * ix.dtDiv + ix.nQneg) < N * ix.dtDiv)
    (hmi : m ≤ i) (hi : i + 1 < N) :
    (arzOffCone { ix with nShift := ix.nShift - m * ix.dtDiv } Q RAC theta dist n zToT).getD i 0
      = (arzOffCone ix Q RAC theta dist n zToT).getD (i - m) 0 :=
  arzOffCone_move ix Q RAC theta dist n zToT N m i hd hlen hs hs1 hs1' hmi hi

/-! ## zero shower energy gives an all-zero field of the right length -/

theorem C07_zero_energy_zhs (times : List ℝ) (E em had psi dist n t0 : ℝ) (h : E * (em + had) = 0) :
    zhsValues times E em had psi dist n t0 = List.replicate times.length 0 := by
  unfold zhsValues
  simp [h, zerosL]

theorem C07_zero_energy_avz (times : List ℝ) (E em had psi dist n t0 : ℝ) (h1 : E * em = 0) (h2 : E * had = 0) :
    avzValues times E em had psi dist n t0 = List.replicate times.length 0 :=
  avz_zero_energy times E em had psi dist n t0 h1 h2

theorem C07_zero_energy_arz (times : List ℝ) (E em had psi dist n t0 : ℝ) (h1 : E * em = 0) (h2 : E * had = 0) :
    arzValues times E em had psi dist n t0 = List.replicate times.length 0 :=
  arz_zero_energy times E em had psi dist n t0 h1 h2

/-- the length is right for every energy (AVZ; for ZHS and the ARZ branches it is `tab`/`zeros` of `N`) -/
theorem C07_length_avz (times : List ℝ) (E em had psi dist n t0 : ℝ) :
    (avzValues times E em had psi dist n t0).length = times.length :=
  avzValues_length times E em had psi dist n t0

theorem C07_length_zhs (times : List ℝ) (E em had psi dist n t0 : ℝ) :
    (zhsValues times E em had psi dist n t0).length = times.length := by
  unfold zhsValues
  simp only []
  split_ifs <;> simp [zerosL, tab]

/-! ## finite: every denominator of the models is non-zero -/

/-- ZHS divides by `ν₀`, `1 + 0.4 r²`, `radians(2.4)`, `n`, `2N·dt`, `dt` and the viewing distance -/
theorem C07_finite_zhs (N : ℕ) (dt n r : ℝ) (hN : 0 < N) (hdt : dt ≠ 0) (hn : 1 < n) :
    (Askc.zhs_nu0 : ℝ) ≠ 0 ∧ 0 < 1 + (Askc.zhs_q : ℝ) * (r * r) ∧ askRadians (Askc.zhs_width_deg : ℝ) ≠ 0
      ∧ n ≠ 0 ∧ RofNat (2 * N) * dt ≠ 0 ∧ RofNat (2 * N) ≠ 0 := by
  have h2N : RofNat (2 * N) ≠ 0 := by
    simp only [RofNat]
    have : 0 < 2 * N := by omega
    exact_mod_cast this.ne'
  exact ⟨zhs_nu0_pos.ne', zhs_denominator_pos r, zhs_width_pos.ne', by linarith, mul_ne_zero h2N hdt, h2N⟩

/-- AVZ divides by the frequencies (bins `k ≥ 1`), `f₀`, `1+(f/f₀)^1.44`, `sin θ_c`, the LPM base, the two
widths (the hadronic one only when a branch of `dThetaHad` is taken, i.e. `log10(E_had/1e3) ≥ 0`) -/
theorem C07_finite_avz (N : ℕ) (dt n emE hadE : ℝ) (k : ℕ) (hN : 0 < N) (hdt : 0 < dt) (hn : 1 < n)
    (hk : 0 < k) (hem : 0 ≤ emE) :
    0 < askRfftfreq N dt k ∧ (Askc.avz_f0 : ℝ) ≠ 0
      ∧ (∀ pw, 0 < 1 + Rpow (askRfftfreq N dt k / Askc.avz_f0) pw)
      ∧ Rsin (thetaC n) ≠ 0
      ∧ 0 < avzWidthEM emE (askRfftfreq N dt k)
      ∧ (¬(hadE ≤ 0 ∧ 0 ≤ hadE) → 0 ≤ askLog10 (hadE / Askc.avz_eps_ref) → 0 < avzWidthHad hadE (askRfftfreq N dt k)) := by
  have hf := askRfftfreq_pos N dt k hN hdt hk
  exact ⟨hf, avz_f0_pos.ne', fun pw => avz_denominator_pos _ pw hf, (sin_thetaC_pos n hn).ne',
    avzWidthEM_pos emE _ hem hf, fun h1 h2 => avzWidthHad_pos hadE _ h1 h2 hf⟩

/-- ARZ divides by `c`, `z_to_t` (off the cone), `max_length`, `dt_divider`, `sin θ_c`, `LQ_tot`, `dt`, `R` -/
theorem C07_finite_arz (n theta energy : ℝ) (N : ℕ) (dt tStart maxLen z : ℝ) (hn : 1 < n)
    (h0 : 0 ≤ theta) (hpi : theta ≤ Real.pi) (hoff : ¬ Rabs (theta - Racos (1 / n)) ≤ onconeRange)
    (hE : (Askc.maxlen_crit : ℝ) < energy) :
    cLight ≠ 0 ∧ (1 - n * Rcos theta) / cLight ≠ 0 ∧ 0 < maxLength energy
      ∧ 1 ≤ (arzIdx N dt tStart maxLen z).dtDiv ∧ Rsqrt (1 - 1 / (n * n)) ≠ 0 := by
  refine ⟨cLight_pos.ne', ?_, maxLength_pos energy hE, arzIdx_dtDiv_pos N dt tStart maxLen z,
    (sqrt_thetaC_pos n hn).ne'⟩
  have := zToT_ne_zero n theta hn h0 hpi (by simpa [Rabs, Racos] using hoff) onconeRange_nonneg
  simpa [zToT] using this

/-- `LQ_tot = trapz(Q, dx=dz) ≠ 0` for a non-negative sampled profile with a positive interior sample -/
theorem C07_finite_arz_LQtot (Q : Arr) (dz : ℝ) (hdz : dz ≠ 0) (hQ : ∀ i, i < Q.len → 0 ≤ Q.get i)
    (i0 : ℕ) (hi0 : i0 + 1 < Q.len) (hpos : 0 < Q.get i0) : Q.trapz dz ≠ 0 :=
  trapz_ne_zero Q dz hdz hQ i0 hi0 hpos

/-- the shipped profiles are positive along the shower above the critical energy; the Gaisser-Hillas one
only when `X_max` exceeds the interaction length (shower energy above 2.96 GeV; below: finding K6) -/
theorem C07_finite_arz_profiles (z energy : ℝ) (hz : 0 < z) :
    ((Askc.emprof_crit : ℝ) < energy → 0 < emProfile z energy) ∧
    ((Askc.hadprof_crit : ℝ) < energy →
      (Askc.hadprof_intlen : ℝ) < Askc.hadprof_radlen * Rlog (energy / Askc.hadprof_crit) →
      0 < hadProfile z energy) :=
  ⟨fun h => emProfile_pos z energy hz h, fun h1 h2 => hadProfile_pos z energy hz h1 h2⟩

/-! ## the cone factors are 1 on the cone and fall strictly with the angular distance -/

theorem C07_cone_factor_max_mono (thc : ℝ) :
    (∀ ratio, zhsConeFactor thc thc ratio = 1) ∧
    (∀ ratio t1 t2, 0 < ratio → |t1 - thc| < |t2 - thc| → zhsConeFactor t2 thc ratio < zhsConeFactor t1 thc ratio) ∧
    (∀ w, avzConeFactor thc thc w = 1) ∧
    (∀ w t1 t2, w ≠ 0 → |t1 - thc| < |t2 - thc| → avzConeFactor t2 thc w < avzConeFactor t1 thc w) := by
  refine ⟨?_, ?_, ?_, ?_⟩
  · intro ratio; simp [zhsConeFactor]
  · intro ratio t1 t2 hr h
    unfold zhsConeFactor
    simp only [Rexp]
    apply gauss_strict _ zhs_half_pos
    have hs := zhs_width_pos
    rw [abs_div, abs_div, abs_mul, abs_mul, abs_of_pos hr, abs_of_pos hs]
    apply div_lt_div_of_pos_right _ hs
    exact mul_lt_mul_of_pos_right h hr
  · intro w; simp [avzConeFactor]
  · intro w t1 t2 hw h
    unfold avzConeFactor
    simp only [Rexp, Rlog]
    apply gauss_strict _ (Real.log_pos (by norm_num))
    rw [abs_div, abs_div]
    exact div_lt_div_of_pos_right h (abs_pos.mpr hw)

/-- consequently the ZHS spectral amplitude at every non-zero frequency is largest on the cone and falls
with the angular distance on either side -/
theorem C07_zhs_amplitude_max_on_cone (energy dist thc f t1 t2 : ℝ) (hE : 0 < energy) (hR : 0 < dist)
    (hf : f ≠ 0) (h : |t1 - thc| < |t2 - thc|) :
    zhsAmp energy dist t2 thc f < zhsAmp energy dist t1 thc f := by
  unfold zhsAmp
  simp only []
  have hr : 0 < Rabs f / (Askc.zhs_nu0 : ℝ) := div_pos (abs_pos.mpr hf) zhs_nu0_pos
  have hc := (C07_cone_factor_max_mono thc).2.1 _ t1 t2 hr h
  apply mul_lt_mul_of_pos_left hc
  have hd := zhs_denominator_pos (Rabs f / (Askc.zhs_nu0 : ℝ))
  have ha : (0 : ℝ) < Askc.zhs_amp := by simp only [Askc.zhs_amp]; norm_num
  have hm : (0 : ℝ) < Askc.zhs_mhz := by simp only [Askc.zhs_mhz]; norm_num
  positivity

/-- ARZ (partial): only the time-compression factor `z_to_t = (1 - n cos θ)/c` is treated — it vanishes on
the cone and grows strictly with the angular distance on either side (the pulse is the Cherenkov-angle
potential stretched by it); the sampled amplitude itself is not ordered on coarse grids (finding K7) -/
theorem C07_arz_cone_partial (n : ℝ) (hn : 1 < n) :
    zToT n (thetaC n) = 0 ∧
    (∀ t1 t2, thetaC n ≤ t1 → t1 < t2 → t2 ≤ Real.pi → 0 ≤ zToT n t1 ∧ zToT n t1 < zToT n t2) ∧
    (∀ t1 t2, 0 ≤ t2 → t2 < t1 → t1 ≤ thetaC n → zToT n t2 < zToT n t1 ∧ zToT n t1 ≤ 0) := by
  have hz := zToT_thetaC n hn
  have hm := thetaC_mem n
  refine ⟨hz, ?_, ?_⟩
  · intro t1 t2 h1 h12 h2
    refine ⟨?_, zToT_strictMono n hn t1 t2 (le_trans hm.1 h1) h12 h2⟩
    rcases eq_or_lt_of_le h1 with h | h
    · rw [← h, hz]
    · have := zToT_strictMono n hn (thetaC n) t1 hm.1 h (by linarith)
      rw [hz] at this; exact le_of_lt this
  · intro t1 t2 h2 h21 h1
    refine ⟨zToT_strictMono n hn t2 t1 h2 h21 (le_trans h1 hm.2), ?_⟩
    rcases eq_or_lt_of_le h1 with h | h
    · rw [h, hz]
    · have := zToT_strictMono n hn t1 (thetaC n) (by linarith) h hm.2
      rw [hz] at this; exact le_of_lt this

/-! ## electromagnetic showers seen on the cone: the field is proportional to the shower energy -/

/-- ZHS is linear in the energy at every angle -/
theorem C07_em_on_cone_linear_in_E_zhs (times : List ℝ) (lam E em had psi dist n t0 : ℝ) (hl : lam ≠ 0) :
    zhsValues times (lam * E) em had psi dist n t0
      = (zhsValues times E em had psi dist n t0).map (fun v => lam * v) :=
  zhs_scale_energy times lam E em had psi dist n t0 hl

theorem C07_em_on_cone_linear_in_E_avz (times : List ℝ) (lam E em psi dist n t0 : ℝ)
    (hpsi : Rabs psi = thetaC n) :
    avzValues times (lam * E) em 0 psi dist n t0 = (avzValues times E em 0 psi dist n t0).map (fun v => lam * v) :=
  avz_oncone_linear times lam E em psi dist n t0 hpsi

/-- on the cone the ARZ field is proportional to `E` for every mixture of the two showers (sum included) -/
theorem C07_on_cone_linear_in_E_arz_all_showers (times : List ℝ) (lam E em had psi dist n t0 : ℝ) (hl : lam ≠ 0)
    (hpsi : Rabs psi = thetaC n) :
    arzValues times (lam * E) em had psi dist n t0
      = (arzValues times E em had psi dist n t0).map (fun v => lam * v) :=
  arz_oncone_linear_all times lam E em had psi dist n t0 hl hpsi

theorem C07_em_on_cone_linear_in_E_arz (times : List ℝ) (lam E em psi dist n t0 : ℝ) (hl : lam ≠ 0)
    (hpsi : Rabs psi = thetaC n) :
    arzValues times (lam * E) em 0 psi dist n t0 = (arzValues times E em 0 psi dist n t0).map (fun v => lam * v) :=
  arz_oncone_linear times lam E em psi dist n t0 hl hpsi

/-! ## far-away shower times: ZHS and AVZ return the all-zero trace of the right length -/

/-- outside the placement range (`|int((t0-times[0])/dt) - N/2| > N`) every ZHS sample is zero -/
theorem C07_far_shower_time_zero_zhs (times : List ℝ) (E em had psi dist n t0 : ℝ) (h : ¬ zhsInRange times t0) :
    zhsValues times E em had psi dist n t0 = List.replicate times.length 0 :=
  zhs_far_zero times E em had psi dist n t0 h

/-- outside the placement range (`|⌊(t0-times[0])/dt⌋ - L/2| > L`) every AVZ sample is zero, the extrapolated
last sample of an odd-length grid included -/
theorem C07_far_shower_time_zero_avz (times : List ℝ) (E em had psi dist n t0 : ℝ) (h : ¬ avzInRange times t0) :
    avzValues times E em had psi dist n t0 = List.replicate times.length 0 :=
  avz_far_zero times E em had psi dist n t0 h

/-! ## the zero crossing of `int()` in the ARZ whole-sample move (what `_partial` leaves open, made precise)

When `x = (t_start+10 ns)/(dt/dt_divider)` is positive and not an integer but `x - m·dt_divider` is negative,
`n_shift' = n_shift - m·dt_divider + 1` (`_index`), and the potential is sampled on the old grid advanced by one
sub-sample, `t_RAC'[i+1] = t_RAC[i]` (`_grid`): the moved trace is the old one moved by `m` samples except for the
contribution of the one tail sample (at about -10 ns) that enters and the one (at about +10 ns) that leaves.  No
equality of the traces holds there, and none is claimed. -/

theorem C07_whole_sample_move_arz_zero_crossing_index (x : ℝ) (k : ℕ) (hx : 0 < x) (hxk : x - k < 0)
    (hni : (⌊x⌋ : ℝ) ≠ x) : Rtrunc (x - k) = Rtrunc x - k + 1 :=
  rtrunc_sub_nat_crossing x k hx hxk hni

theorem C07_whole_sample_move_arz_zero_crossing_grid (i : ℕ) (nShift d : ℤ) (m : ℕ) (dt zToT tStart : ℝ)
    (hd : (d : ℝ) ≠ 0) (hz : zToT ≠ 0) :
    RofInt (((i + 1 : ℕ) : ℤ) - (nShift - m * d + 1)) * (dt / RofInt d / zToT) * zToT + (tStart - m * dt)
      = RofInt ((i : ℤ) - nShift) * (dt / RofInt d / zToT) * zToT + tStart :=
  arz_tRAC_crossing i nShift d m dt zToT tStart hd hz

/-! ## any ice model: the Cherenkov angle comes from the index of the *supplied* model at the vertex

All theorems above hold for every index `n > 1`; `zhsValuesIn / avzValuesIn / arzValuesIn I … z …` are the
signal classes for the ice model `I` (the `Ice` of C16: any `n0, k, a`, range and declared outside indices) and
vertex depth `z`. -/

/-- two ice models with the same index at the vertex give the same pulses; nothing else of the ice is read -/
theorem C07_ice_enters_through_vertex_index (I J : Ice) (times : List ℝ) (E em had psi dist z t0 : ℝ)
    (h : I.index z = J.index z) :
    zhsValuesIn I times E em had psi dist z t0 = zhsValuesIn J times E em had psi dist z t0 ∧
    avzValuesIn I times E em had psi dist z t0 = avzValuesIn J times E em had psi dist z t0 ∧
    arzValuesIn I times E em had psi dist z t0 = arzValuesIn J times E em had psi dist z t0 := by
  simp [zhsValuesIn, avzValuesIn, arzValuesIn, h]

/-- for any ice model with index above 1 at the vertex: on *its* cone (`|psi| = arccos(1/I.index z)`) the ARZ
and AVZ fields of an EM shower are proportional to the energy, and ZHS falls off from *its* Cherenkov angle -/
theorem C07_any_ice_model (I : Ice) (times : List ℝ) (lam E em psi dist z t0 : ℝ) (hl : lam ≠ 0)
    (hpsi : Rabs psi = thetaC (I.index z)) :
    arzValuesIn I times (lam * E) em 0 psi dist z t0 = (arzValuesIn I times E em 0 psi dist z t0).map (fun v => lam * v) ∧
    avzValuesIn I times (lam * E) em 0 psi dist z t0 = (avzValuesIn I times E em 0 psi dist z t0).map (fun v => lam * v) ∧
    (∀ energy f t1 t2, 0 < energy → 0 < dist → f ≠ 0 →
      |t1 - thetaC (I.index z)| < |t2 - thetaC (I.index z)| →
      zhsAmp energy dist t2 (thetaC (I.index z)) f < zhsAmp energy dist t1 (thetaC (I.index z)) f) :=
  ⟨arz_oncone_linear times lam E em psi dist (I.index z) t0 hl hpsi,
   avz_oncone_linear times lam E em psi dist (I.index z) t0 hpsi,
   fun energy f t1 t2 hE hR hf h => C07_zhs_amplitude_max_on_cone energy dist (thetaC (I.index z)) f t1 t2 hE hR hf h⟩

/-! ## the excluded points (hypothesis audit): what the model does where the theorems above do not apply -/

/-- repair F21: the AVZ placement floors the sample quotient *rounded to 1e-6*; within half a micro-sample of a
whole sample `k` the pulse is placed at `k` … -/
theorem C07_avz_round_fixes_grid_samples (k : ℤ) (e : ℝ) (h1 : -(5e-7 : ℝ) ≤ e) (h2 : e < 5e-7) :
    Rfloor (askRound6 ((k : ℝ) + e)) = k :=
  floor_askRound6_near_int k e h1 h2

/-- … whereas the floor alone (the code before F21) drops to `k - 1` for an arbitrarily small negative error,
which is what a float quotient `(times[k]-times[0])/dt = k - 1e-16` produces -/
theorem C07_avz_floor_alone_is_fragile (k : ℤ) (e : ℝ) (h1 : 0 < e) (h2 : e ≤ 1) : Rfloor ((k : ℝ) - e) = k - 1 :=
  floor_sub_small k e h1 h2

/-- the rounding commutes with whole-sample moves (used by `C07_whole_sample_move_avz`) -/
theorem C07_avz_round_shift_equivariant (q : ℝ) (m : ℕ) : askRound6 (q + m) = askRound6 q + m :=
  askRound6_add_nat q m

/-- K24 carried by the model: on the two-sample grid `[0, 1]` the shower time 3 is the last inside the ZHS placement
range and `4 = 3 + 1·dt` the first outside; the moved trace is `0` at sample 1 while the original sample 0 is
strictly negative — the whole-sample move FAILS across the cut, for every shower of positive energy -/
theorem C07_zhs_move_fails_across_cut (E em had psi dist n : ℝ) (hE : 0 < E * (em + had)) (hR : 0 < dist) :
    zhsInRange [0, 1] 3 ∧ ¬ zhsInRange [0, 1] 4 ∧
    (zhsValues [0, 1] E em had psi dist n 4).getD 1 0 = 0 ∧
    (zhsValues [0, 1] E em had psi dist n 3).getD (1 - 1) 0 < 0 :=
  zhs_cut_breaks_move E em had psi dist n hE hR

/-- K25 carried by the model: `dt_divider > |100·dt/(max_length·z_to_t)|`, unbounded as `max_length → 0` (shower
energy → 0.0786 GeV) and as `z_to_t → 0` (viewing angle → edge of the on-cone window) … -/
theorem C07_arz_subsample_count_unbounded (N : ℕ) (dt tStart maxLen z : ℝ) :
    Rabs (100 * dt / maxLen / z) < (((arzIdx N dt tStart maxLen z).dtDiv : ℤ) : ℝ) :=
  arzIdx_dtDiv_lower N dt tStart maxLen z

/-- … and exactly at the critical energy `max_length = 0`: the code divides by zero there (OverflowError), the
ℝ-model's totalised `x/0 = 0` says nothing about it; every ARZ theorem about energies is meant above it
(`C07_finite_arz` has the guard `crit < energy`) -/
theorem C07_arz_max_length_zero_at_critical_energy : maxLength (Askc.maxlen_crit : ℝ) = 0 := maxLength_crit

/-- the hypothesis `n_RAC ≥ 1` of `ArzMoveHyp` always holds for `dt > 0` -/
theorem C07_arz_nRAC_ge_two (N : ℕ) (dt tStart maxLen z : ℝ) (hdt : 0 < dt) (hz : z ≠ 0) :
    2 ≤ (arzIdx N dt tStart maxLen z).nRAC :=
  arzIdx_nRAC_ge_two N dt tStart maxLen z hdt hz

/-- index of refraction 1 (vertex above the surface): no Cherenkov cone; `sin θ_c = 0` and `√(1-1/n²) = 0`, the
AVZ/ARZ prefactors are undefined (the code returns NaN without raising) — all theorems assume `n > 1` -/
theorem C07_cone_undefined_at_index_one :
    thetaC 1 = 0 ∧ Rsin (thetaC 1) = 0 ∧ Rsqrt (1 - 1 / ((1 : ℝ) * 1)) = 0 :=
  cone_undefined_at_index_one

/-! ## non-vacuity: concrete instances of the hypotheses -/

/-- a four-sample grid with `dt = 1`, shower time `t0 = 1.5`, moved by one sample: both in range -/
example : gridDt [0, 1, 2, (3 : ℝ)] ≠ 0 ∧ zhsInRange [0, 1, 2, (3 : ℝ)] 1.5
    ∧ zhsInRange [0, 1, 2, (3 : ℝ)] (1.5 + (1 : ℕ) * gridDt [0, 1, 2, (3 : ℝ)]) := by
  have hd : gridDt [0, 1, 2, (3 : ℝ)] = 1 := by simp [gridDt]
  have t1 : Rtrunc (1.5 : ℝ) = 1 := by
    simp only [Rtrunc]; rw [if_pos (by norm_num), Int.floor_eq_iff]; norm_num
  have t2 : Rtrunc (2.5 : ℝ) = 2 := by
    simp only [Rtrunc]; rw [if_pos (by norm_num), Int.floor_eq_iff]; norm_num
  refine ⟨by rw [hd]; norm_num, ?_, ?_⟩
  · unfold zhsInRange; rw [hd]
    have : ((1.5 : ℝ) - [0, 1, 2, (3 : ℝ)].getD 0 0) / 1 = 1.5 := by simp
    rw [this, t1]; decide
  · unfold zhsInRange; rw [hd]
    have : ((1.5 : ℝ) + ((1 : ℕ) : ℝ) * 1 - [0, 1, 2, (3 : ℝ)].getD 0 0) / 1 = 2.5 := by norm_num
    rw [this, t2]; decide

example : avzInRange [0, 1, 2, (3 : ℝ)] 1.5 := by
  have hd : gridDt [0, 1, 2, (3 : ℝ)] = 1 := by simp [gridDt]
  have t1 : Rfloor (askRound6 (1.5 : ℝ)) = 1 := by
    have r : askRound6 (1.5 : ℝ) = 1.5 := by
      unfold askRound6
      simp only [Rfloor, RofInt]
      have : ⌊(1.5 : ℝ) * 1000000 + 0.5⌋ = 1500000 := by rw [Int.floor_eq_iff]; norm_num
      rw [this]; norm_num
    rw [r]; simp only [Rfloor]; rw [Int.floor_eq_iff]; norm_num
  unfold avzInRange; rw [hd]
  have : ((1.5 : ℝ) - [0, 1, 2, (3 : ℝ)].getD 0 0) / 1 = 1.5 := by simp
  rw [this, t1]; decide

/-- deep-ice index and an EM shower of 1 EeV meet the hypotheses of the `finite_*` theorems -/
example : (1 : ℝ) < 1.78 ∧ (Askc.maxlen_crit : ℝ) < 1e9 ∧ (Askc.emprof_crit : ℝ) < 1e9
    ∧ (Askc.hadprof_crit : ℝ) < 1e9 := by
  simp only [Askc.maxlen_crit, Askc.emprof_crit, Askc.hadprof_crit]; norm_num

/-- a uniform grid satisfies `hgrid`, and the cone itself satisfies the on-cone test -/
example : (∀ k, k < [0, 1, 2, (3 : ℝ)].length →
    [0, 1, 2, (3 : ℝ)].getD k 0 = [0, 1, 2, (3 : ℝ)].getD 0 0 + k * gridDt [0, 1, 2, (3 : ℝ)])
    ∧ Rabs (thetaC 1.78 - Racos (1 / 1.78)) ≤ onconeRange := by
  constructor
  · intro k hk
    have hd : gridDt [0, 1, 2, (3 : ℝ)] = 1 := by simp [gridDt]
    rw [hd]
    have : k = 0 ∨ k = 1 ∨ k = 2 ∨ k = 3 := by simp at hk; omega
    rcases this with rfl | rfl | rfl | rfl <;> simp
  · simp only [thetaC, sub_self, Rabs, abs_zero]; exact onconeRange_nonneg

/-- angles at different distances from the cone exist on both sides (hypothesis of `cone_factor_max_mono`) -/
example : |(1.0 : ℝ) - 0.97| < |(0.9 : ℝ) - 0.97| ∧ |(1.0 : ℝ) - 0.97| < |(1.1 : ℝ) - 0.97| := by
  constructor <;> norm_num [abs_lt]

/-- the index hypotheses of `C07_whole_sample_move_arz_partial_offcone` are satisfiable: 3-sample profile,
4-sample potential (convolution length 6 = N·d + n_extra with N = 2, d = 2, n_extra = 2), shift by one sample -/
example : let ix : ArzIdx := ⟨2, 1, 3, 1, 1, 2, 4⟩
    let Q : Arr := ⟨3, fun _ => 1⟩
    let RAC : Arr := ⟨4, fun _ => 1⟩
    (1 : ℤ) ≤ ix.dtDiv ∧ ((Q.convolve RAC).len : ℤ) = (2 : ℕ) * ix.dtDiv + ix.nExtra
      ∧ ix.nShift + ix.nQneg < (Q.convolve RAC).len ∧ -(ix.nShift + ix.nQneg) < (2 : ℕ) * ix.dtDiv
      ∧ -(ix.nShift - (0 : ℕ) * ix.dtDiv + ix.nQneg) < (2 : ℕ) * ix.dtDiv := by
  simp [Arr.convolve]


/-- `ArzShowerMoves` is satisfiable: a shower seen on the cone on a uniform grid (second disjunct) and a zero-energy
shower (first disjunct); the off-cone disjunct `ArzMoveHyp` is evaluated on the Float twin by the correspondence
run, which counts the sampled cases that satisfy it (`arz_move_hyp_holds` in the evidence) -/
example : ArzShowerMoves [0, 1, 2, (3 : ℝ)] 1e9 (thetaC 1.78) 1.78 1.5 1 ∧ ArzShowerMoves [0, 1, 2, (3 : ℝ)] 0 1 1.78 1.5 1 := by
  constructor
  · right; left
    constructor
    · simp only [thetaC, sub_self, Rabs, abs_zero]; exact onconeRange_nonneg
    · intro k hk
      have hd : gridDt [0, 1, 2, (3 : ℝ)] = 1 := by simp [gridDt]
      rw [hd]
      have : k = 0 ∨ k = 1 ∨ k = 2 ∨ k = 3 := by simp at hk; omega
      rcases this with rfl | rfl | rfl | rfl <;> simp
  · left; constructor <;> norm_num

/-- a shower time far outside the window violates `zhsInRange` / `avzInRange` (hypothesis of the far-zero theorems) -/
example : ¬ zhsInRange [0, 1, 2, (3 : ℝ)] 100 ∧ ¬ avzInRange [0, 1, 2, (3 : ℝ)] 100 := by
  have hd : gridDt [0, 1, 2, (3 : ℝ)] = 1 := by simp [gridDt]
  have t1 : Rtrunc (100 : ℝ) = 100 := by
    simp only [Rtrunc]; rw [if_pos (by norm_num), Int.floor_eq_iff]; norm_num
  have t2 : Rfloor (askRound6 (100 : ℝ)) = 100 := by
    have r : askRound6 (100 : ℝ) = 100 := by
      unfold askRound6
      simp only [Rfloor, RofInt]
      have : ⌊(100 : ℝ) * 1000000 + 0.5⌋ = 100000000 := by rw [Int.floor_eq_iff]; norm_num
      rw [this]; norm_num
    rw [r]; simp only [Rfloor]; rw [Int.floor_eq_iff]; norm_num
  have e : ((100 : ℝ) - [0, 1, 2, (3 : ℝ)].getD 0 0) / 1 = 100 := by simp
  constructor
  · unfold zhsInRange; rw [hd, e, t1, not_not]; decide
  · unfold avzInRange; rw [hd, e, t2, not_not]; decide

/-- the zero crossing happens: `x = 2.5`, `k = 4` -/
example : (0 : ℝ) < 2.5 ∧ (2.5 : ℝ) - (4 : ℕ) < 0 ∧ ((⌊(2.5 : ℝ)⌋ : ℤ) : ℝ) ≠ 2.5 := by
  have : ⌊(2.5 : ℝ)⌋ = 2 := by rw [Int.floor_eq_iff]; norm_num
  rw [this]; norm_num

/-- `C07_finite_arz`: the shower axis is off the cone of deep ice, and 1 EeV is above the critical energy -/
example : (1 : ℝ) < 1.78 ∧ (0 : ℝ) ≤ 0 ∧ (0 : ℝ) ≤ Real.pi ∧ ¬ Rabs ((0 : ℝ) - Racos (1 / 1.78)) ≤ onconeRange
    ∧ (Askc.maxlen_crit : ℝ) < 1e9 :=
  ⟨by norm_num, le_refl _, Real.pi_pos.le, offcone_witness, by simp only [Askc.maxlen_crit]; norm_num⟩

/-- `C07_finite_avz` / `C07_finite_zhs`: first frequency bin of a 64-sample, 0.5 ns grid, a 1 PeV hadronic shower -/
example : 0 < 64 ∧ (0 : ℝ) < 5e-10 ∧ 0 < 1 ∧ (0 : ℝ) ≤ 1e6 ∧ ¬((1e6 : ℝ) ≤ 0 ∧ (0 : ℝ) ≤ 1e6) := by norm_num

/-- `C07_finite_arz_LQtot`: a constant positive profile -/
example : let Q : Arr := ⟨3, fun _ => 1⟩
    (∀ i, i < Q.len → 0 ≤ Q.get i) ∧ 0 + 1 < Q.len ∧ 0 < Q.get 0 := by
  simp

/-- `C07_ice_enters_through_vertex_index` / `C07_any_ice_model`: two different ice models that agree at the vertex
(same profile, different declared index above the surface), and one whose index there exceeds 1 -/
example : let I : Ice := ⟨1.78, 0.43, 0.0132, -2850, 0, some 1, none⟩
    let J : Ice := ⟨1.78, 0.43, 0.0132, -2850, 0, some 1.2, none⟩
    I ≠ J ∧ I.index (-100) = J.index (-100) := by
  constructor
  · intro h
    have := congrArg Ice.above h
    norm_num at this
  · simp [Ice.index, Ice.profile]
    norm_num

/-- `C07_avz_round_fixes_grid_samples` / `C07_avz_floor_alone_is_fragile`: the float error of an on-grid quotient -/
example : -(5e-7 : ℝ) ≤ -1e-16 ∧ (-1e-16 : ℝ) < 5e-7 ∧ (0 : ℝ) < 1e-16 ∧ (1e-16 : ℝ) ≤ 1 := by norm_num

/-- `C07_zhs_move_fails_across_cut`, `C07_arz_nRAC_ge_two`: a 1 EeV shower at 100 m; a 0.5 ns step -/
example : (0 : ℝ) < 1e9 * (0.6 + 0.4) ∧ (0 : ℝ) < 100 ∧ (0 : ℝ) < 5e-10 ∧ (1.7e-10 : ℝ) ≠ 0 := by norm_num

