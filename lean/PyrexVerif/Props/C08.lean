import PyrexVerif.Proofs.Antenna
import Mathlib.Analysis.SpecialFunctions.Trigonometric.Inverse
/-!
# C08 — antenna response: linear, rotation-covariant, fields scaled by the antenna factor

Theorems about the ℝ-reading `PyrexR` of `twin/Antenna.body`; the Float reading of the same text is
what `Drivers/C08.lean` runs against `pyrex.antenna` / `pyrex.detector.AntennaSystem`.
The frequency filter is an arbitrary operator `filt`; where linearity is claimed it is assumed
linear (`LinearFilt`, property C05).
-/
open PyrexR PyrexR.Ant

/-- the response is linear in the signal (for a linear frequency filter) -/
theorem C08_response_linear (filt : List ℝ → List ℝ) (hf : LinearFilt filt) (A : Antenna)
    (dg : ℝ → ℝ → ℝ) (pg : Antenna → V3 → ℝ) (vt : VType) (dir pol : Option V3)
    (a b : ℝ) (u v : List ℝ) (hlen : u.length = v.length) :
    A.applyResponse filt dg pg vt (List.zipWith (fun x y => a * x + b * y) u v) dir pol =
      match A.applyResponse filt dg pg vt u dir pol, A.applyResponse filt dg pg vt v dir pol with
      | some ru, some rv => some (List.zipWith (fun x y => a * x + b * y) ru rv)
      | _, _ => none := by
  unfold Antenna.applyResponse
  cases signalFactor A dg pg vt dir pol with
  | none => rfl
  | some f =>
    simp only [hf a b u v hlen, List.map_zipWith, List.zipWith_map]
    congr 2
    funext x y
    ring

/-- the zero-padded DFT filter that the driver (and `Signal.filter_frequencies`) uses for `filt`
is linear for every list of responses, so `C08_response_linear` applies to it -/
theorem C08_dft_filter_linear (H : List (ℝ × ℝ)) : LinearFilt (dftFilter H) := dftFilter_linear H

/-- output = `filter(signal)` × directional gain × polarisation gain × efficiency, additionally
divided by the antenna factor exactly when the input value type is `field` -/
theorem C08_response_factor (filt : List ℝ → List ℝ) (A : Antenna) (dg : ℝ → ℝ → ℝ)
    (pg : Antenna → V3 → ℝ) (vals : List ℝ) (dir pol : Option V3) :
    A.applyResponse filt dg pg VType.voltage vals dir pol
      = some ((filt vals).map (fun v => v * gainProduct A dg pg dir pol)) ∧
    A.applyResponse filt dg pg VType.field vals dir pol
      = some ((filt vals).map (fun v => v * (gainProduct A dg pg dir pol / A.af))) := by
  constructor <;> cases dir <;> cases pol <;>
    simp [Antenna.applyResponse, signalFactor, gainProduct]

/-- value types other than voltage / field are rejected (and only those) -/
theorem C08_response_rejects (filt : List ℝ → List ℝ) (A : Antenna) (dg : ℝ → ℝ → ℝ)
    (pg : Antenna → V3 → ℝ) (vt : VType) (vals : List ℝ) (dir pol : Option V3) :
    A.applyResponse filt dg pg vt vals dir pol = none ↔ (vt = VType.undefined ∨ vt = VType.power) := by
  cases vt <;> simp [Antenna.applyResponse, signalFactor]

/-- rotating the antenna axes and the point (about the antenna position, which may itself move)
by `M ∈ SO(3)` leaves `(r, θ, φ)` unchanged -/
theorem C08_coords_rotation_invariant (M : Mat3) (hM : M.IsRotation) (A : Antenna) (p' v : V3) :
    toAntennaCoords (A.rotate M p') (p'.add (M.mulVec v)) = toAntennaCoords A (A.pos.add v) := by
  unfold toAntennaCoords
  have h1 : (A.rotate M p').pos = p' := rfl
  rw [h1, V3.add_sub_self, V3.add_sub_self, Antenna.frame_rotate hM]

/-- the arrival angles handed to `directional_gain` are unchanged when axes and direction rotate -/
theorem C08_angles_rotation_invariant (M : Mat3) (hM : M.IsRotation) (A : Antenna) (p' d : V3) :
    arrivalAngles (A.rotate M p') (M.mulVec d) = arrivalAngles A d := by
  have h1 : (A.rotate M p').pos = p' := rfl
  dsimp only [arrivalAngles, toAntennaCoords]
  rw [h1, V3.sub_sub_self, V3.sub_sub_self, hM.normalize_mulVec, ← Mat3.mulVec_smul,
    Antenna.frame_rotate hM]

/-- both gains, hence the whole response, are unchanged when the raw axes handed to the
constructor, the arrival direction and the polarisation are rotated by the same `M ∈ SO(3)`;
`dg` is arbitrary, `pg` reads the polarisation through its antenna-frame components -/
theorem C08_response_rotation_invariant (M : Mat3) (hM : M.IsRotation) (filt : List ℝ → List ℝ)
    (dg : ℝ → ℝ → ℝ) (pg : Antenna → V3 → ℝ) (hpg : FrameCovariant pg)
    (p z x : V3) (af eff : ℝ) (vt : VType) (vals : List ℝ) (dir pol : Option V3) :
    (mkAntenna p (M.mulVec z) (M.mulVec x) af eff).map
        (fun A' => A'.applyResponse filt dg pg vt vals (dir.map M.mulVec) (pol.map M.mulVec))
      = (mkAntenna p z x af eff).map (fun A => A.applyResponse filt dg pg vt vals dir pol) := by
  rw [mkAntenna_rotate hM p p z x af eff]
  cases mkAntenna p z x af eff with
  | none => rfl
  | some A =>
    simp only [Option.map_some]
    congr 1
    have hd : ∀ d, arrivalAngles (A.rotate M p) (M.mulVec d) = arrivalAngles A d :=
      fun d => C08_angles_rotation_invariant M hM A p d
    have hp : ∀ q : V3, pg (A.rotate M p) (M.mulVec q).normalize = pg A q.normalize := by
      intro q
      apply hpg
      rw [hM.normalize_mulVec, Antenna.frame_rotate hM]
    have he : (A.rotate M p).eff = A.eff := rfl
    have ha : (A.rotate M p).af = A.af := rfl
    unfold Antenna.applyResponse signalFactor
    cases dir <;> cases pol <;> simp only [Option.map_some, Option.map_none, hd, hp, he, ha]

/-- the dipole's and the base class's polarisation gains are frame-covariant -/
theorem C08_gains_frame_covariant :
    FrameCovariant dipolePolarization ∧ FrameCovariant unitPolarization :=
  ⟨frameCovariant_dipole, frameCovariant_unit⟩

/-- dipole: directional gain `sin θ` with `cos θ = −d̂·ẑ_ant` (orthonormal antenna axes) -/
theorem C08_dipole_directional (A : Antenna) (hx : A.xAxis.dot A.xAxis = 1)
    (hz : A.zAxis.dot A.zAxis = 1) (hzx : A.zAxis.dot A.xAxis = 0) (d : V3) (hd : d.norm ≠ 0) :
    let θ := (arrivalAngles A d).1
    let φ := (arrivalAngles A d).2
    Real.cos θ = -(d.normalize.dot A.zAxis) ∧
    dipoleDirectional θ φ = Real.sin θ ∧
    Real.sin θ = Real.sqrt (1 - (d.normalize.dot A.zAxis) ^ 2) := by
  intro θ φ
  -- components of the arrival point in the antenna frame
  set n := d.normalize with hn
  have hn1 : n.dot n = 1 := V3.normalize_dot_self d hd
  set c := A.frame.mulVec (V3.smul (-1) n) with hc
  have hsum : c.x * c.x + c.y * c.y + c.z * c.z = 1 := by
    have := frame_norm_sq A.xAxis A.zAxis (V3.smul (-1) n) hx hz hzx
    have h2 : (V3.smul (-1) n).dot (V3.smul (-1) n) = 1 := by
      simp only [V3.dot, V3.smul] at *; linarith
    rw [h2] at this
    simpa [hc, Antenna.frame, Mat3.mulVec] using this
  have hcz : c.z = -(n.dot A.zAxis) := by
    simp only [hc, Antenna.frame, Mat3.mulVec, V3.dot, V3.smul]; ring
  have hθ : θ = Real.arccos c.z := by
    show (arrivalAngles A d).1 = _
    dsimp only [arrivalAngles, toAntennaCoords]
    rw [V3.sub_sub_self]
    dsimp only [sphericalOf]
    simp only [← hn, ← hc, hsum, Real.sqrt_one]
    have : ¬ isZero (1 : ℝ) := by rw [isZero_iff]; norm_num
    simp [this]
  have hb : -1 ≤ c.z ∧ c.z ≤ 1 := by
    constructor <;> nlinarith [mul_self_nonneg c.x, mul_self_nonneg c.y, mul_self_nonneg c.z]
  refine ⟨?_, rfl, ?_⟩
  · rw [hθ, Real.cos_arccos hb.1 hb.2, hcz]
  · rw [hθ, Real.sin_arccos, hcz]; congr 1; ring

/-- dipole: polarisation gain = `ẑ_ant · p̂` -/
theorem C08_dipole_polarization (A : Antenna) (dg : ℝ → ℝ → ℝ) (dir : Option V3) (p : V3) :
    gainProduct A dg dipolePolarization dir (some p)
      = (match dir with
          | none => 1
          | some d => dg (arrivalAngles A d).1 (arrivalAngles A d).2)
        * A.zAxis.dot p.normalize * A.eff := rfl

/-- `AntennaSystem.apply_response` / `receive` are the antenna's -/
theorem C08_system_delegates (S : AntennaSystem) (filt : List ℝ → List ℝ) (dg : ℝ → ℝ → ℝ)
    (pg : Antenna → V3 → ℝ) :
    (∀ vt vals dir pol, S.applyResponse filt dg pg vt vals dir pol
        = S.antenna.applyResponse filt dg pg vt vals dir pol) ∧
    (∀ stored sigs dir pols, S.receive filt dg pg stored sigs dir pols
        = S.antenna.receive filt dg pg stored sigs dir pols) :=
  ⟨fun _ _ _ _ => rfl, fun _ _ _ _ => rfl⟩

/-- `receive` stores exactly one new signal: the pointwise sum (in `sum` order) of the responses of
the polarised components, which must share their times array and be accepted one by one -/
theorem C08_receive_sum (filt : List ℝ → List ℝ) (A : Antenna) (dg : ℝ → ℝ → ℝ)
    (pg : Antenna → V3 → ℝ) (stored : List Sig) (g : Nat) (comps : List (Sig × Option V3))
    (dir : Option V3) (rs : List (List ℝ)) (hne : comps ≠ [])
    (hgrid : ∀ c ∈ comps, c.1.grid = g)
    (hrs : comps.map (fun c => A.applyResponse filt dg pg c.1.vt c.1.vals dir c.2) = rs.map some) :
    A.receive filt dg pg stored (comps.map (·.1)) dir (some (comps.map (·.2)))
      = some (stored ++ [⟨g, VType.voltage, addAll rs⟩]) := by
  have hproc : List.zipWith (A.respondSig filt dg pg dir) (comps.map (·.1)) (comps.map (·.2))
      = (rs.map (fun v => (⟨g, VType.voltage, v⟩ : Sig))).map some := by
    clear hne
    induction comps generalizing rs with
    | nil =>
      cases rs with
      | nil => rfl
      | cons r rs => simp at hrs
    | cons c cs ih =>
      cases rs with
      | nil => simp at hrs
      | cons r rs =>
        simp only [List.map_cons, List.cons.injEq] at hrs
        have hg : c.1.grid = g := hgrid c (by simp)
        have := ih rs (fun c' hc' => hgrid c' (by simp [hc'])) hrs.2
        simp only [List.map_cons, List.zipWith_cons_cons, this, List.cons.injEq, and_true]
        simp [Antenna.respondSig, hrs.1, hg]
  unfold Antenna.receive
  simp only [List.length_map, if_true, hproc, allSome_map_some]
  cases rs with
  | nil =>
    cases comps with
    | nil => exact absurd rfl hne
    | cons c cs => simp at hrs
  | cons r rs =>
    simp only [List.map_cons, sumSigs, sumSigs_same_grid, addAll]

/-- sample `j` of the stored signal is the sum over the components of their sample `j` -/
theorem C08_receive_sum_pointwise (r : List ℝ) (rs : List (List ℝ)) (n j : Nat) (hj : j < n)
    (hr : r.length = n) (hrs : ∀ r' ∈ rs, r'.length = n) :
    (addAll (r :: rs)).getD j 0 = ((r :: rs).map (fun r' => r'.getD j 0)).sum := by
  obtain ⟨h, e⟩ := foldl_zipWith_getElem rs r n j hj hr hrs
  have h' : j < (addAll (r :: rs)).length := h
  have e1 : (addAll (r :: rs)).getD j 0 = (addAll (r :: rs))[j] := by
    simp [List.getD_eq_getElem?_getD, h']
  have e2 : r.getD j 0 = r[j]'(by omega) := by simp [List.getD_eq_getElem?_getD, hr, hj]
  rw [e1, List.map_cons, List.sum_cons, e2]
  exact e

/-- a `DipoleAntenna` has an exactly orthonormal frame (for any tape), antenna factor
`1/effective height` and efficiency 1 — so `C08_dipole_directional` applies to it -/
theorem C08_dipole_frame_orthonormal (pos o : V3) (cf bw : ℝ) (eh : Option ℝ) (tape : List V3)
    (A : Antenna) (fl fh : ℝ) (ho : o.norm ≠ 0)
    (hmk : mkDipole pos o cf bw eh tape = some (A, fl, fh)) :
    A.xAxis.dot A.xAxis = 1 ∧ A.zAxis.dot A.zAxis = 1 ∧ A.zAxis.dot A.xAxis = 0 ∧
    A.zAxis = o.normalize ∧ A.eff = 1 ∧
    A.af = 1 / eh.getD (speedOfLight / cf / 2) ∧
    fl = cf - bw / 2 ∧ fh = cf + bw / 2 := by
  unfold mkDipole at hmk
  cases hdo : dipoleOrtho o tape with
  | none => simp [hdo] at hmk
  | some c =>
    obtain ⟨⟨t, ht⟩, hc⟩ := dipoleOrtho_spec o tape c hdo
    simp only [hdo, mkAntenna, setOrientation] at hmk
    split_ifs at hmk with hperp
    simp only [Option.some.injEq, Prod.mk.injEq] at hmk
    obtain ⟨rfl, rfl, rfl⟩ := hmk
    refine ⟨V3.normalize_dot_self c hc, V3.normalize_dot_self o ho, ?_, rfl, rfl, ?_, rfl, rfl⟩
    · show o.normalize.dot c.normalize = 0
      rw [V3.normalize_dot_normalize o c ho hc, ht, V3.dot_cross_self, zero_div]
    · cases eh <;> rfl

/-- an antenna has no hidden state: re-orienting an existing antenna gives exactly the antenna a
fresh construction with the current parameters gives (and `set_orientation` raises exactly when the
constructor would), so every response after any history of `set_orientation` calls and attribute
assignments is the response of a fresh antenna with the current parameters -/
theorem C08_reorient_eq_fresh (A : Antenna) (z x : V3) :
    mkAntenna A.pos z x A.af A.eff
      = (if (A.setOrientation z x).2 then some (A.setOrientation z x).1 else none) ∧
    (A.setOrientation z x).1.pos = A.pos ∧ (A.setOrientation z x).1.af = A.af ∧
    (A.setOrientation z x).1.eff = A.eff ∧
    (A.setOrientation z x).1.zAxis = z.normalize ∧ (A.setOrientation z x).1.xAxis = x.normalize := by
  refine ⟨?_, rfl, rfl, rfl, rfl, rfl⟩
  unfold mkAntenna setOrientation Antenna.setOrientation
  by_cases h : Rabs (z.normalize.dot x.normalize) ≤ 1e-8 <;> simp [h]

/-- rejection does not look at the gains, and an accepted input whose gain product vanishes yields
the zero signal (one zero per filtered sample): an exactly zero gain is no reason to accept
`undefined` / `power`, nor to skip anything observable -/
theorem C08_zero_gain (filt : List ℝ → List ℝ) (A : Antenna) (dg : ℝ → ℝ → ℝ)
    (pg : Antenna → V3 → ℝ) (vals : List ℝ) (dir pol : Option V3)
    (h0 : gainProduct A dg pg dir pol = 0) :
    A.applyResponse filt dg pg VType.undefined vals dir pol = none ∧
    A.applyResponse filt dg pg VType.power vals dir pol = none ∧
    A.applyResponse filt dg pg VType.voltage vals dir pol
      = some (List.replicate (filt vals).length 0) ∧
    A.applyResponse filt dg pg VType.field vals dir pol
      = some (List.replicate (filt vals).length 0) := by
  have hr := C08_response_rejects filt A dg pg
  have hf := C08_response_factor filt A dg pg vals dir pol
  refine ⟨(hr VType.undefined vals dir pol).mpr (Or.inl rfl), (hr VType.power vals dir pol).mpr (Or.inr rfl), ?_, ?_⟩
  · rw [hf.1, h0]; simp [List.map_const']
  · rw [hf.2, h0]; simp [List.map_const']

/-- the three exact ways a dipole's gain product vanishes: polarisation perpendicular to the axis,
arrival exactly along the axis (orthonormal frame), efficiency zero -/
theorem C08_dipole_zero_gain (A : Antenna) (d p : V3) :
    (A.zAxis.dot p.normalize = 0 →
      gainProduct A dipoleDirectional dipolePolarization (some d) (some p) = 0) ∧
    (A.eff = 0 → gainProduct A dipoleDirectional dipolePolarization (some d) (some p) = 0) ∧
    (A.xAxis.dot A.xAxis = 1 → A.zAxis.dot A.zAxis = 1 → A.zAxis.dot A.xAxis = 0 → d.norm ≠ 0 →
      d.normalize.dot A.zAxis = -1 →
      gainProduct A dipoleDirectional dipolePolarization (some d) (some p) = 0) := by
  refine ⟨?_, ?_, ?_⟩
  · intro h; simp [gainProduct, dipolePolarization, h]
  · intro h; simp [gainProduct, h]
  · intro hx hz hzx hd hax
    obtain ⟨_, h2, h3⟩ := C08_dipole_directional A hx hz hzx d hd
    have : dipoleDirectional (arrivalAngles A d).1 (arrivalAngles A d).2 = 0 := by
      rw [h2, h3, hax]; norm_num
    simp [gainProduct, this]

/-- `receive` raises when the number of polarisations differs from the number of signals or no
polarisation sequence is given, whatever the signals and gains -/
theorem C08_receive_count_mismatch (filt : List ℝ → List ℝ) (A : Antenna) (dg : ℝ → ℝ → ℝ)
    (pg : Antenna → V3 → ℝ) (stored sigs : List Sig) (dir : Option V3) (ps : List (Option V3))
    (h : sigs.length ≠ ps.length) :
    A.receive filt dg pg stored sigs dir (some ps) = none ∧
    A.receive filt dg pg stored sigs dir none = none := by
  constructor
  · unfold Antenna.receive; simp [h]
  · rfl

/-- the arrival angles of a zero direction vector (which `normalize` leaves alone) are `(0, 0)`: the
`r == 0` return of `_convert_to_antenna_coordinates`; so the dipole's directional gain is `sin 0 = 0`
and the hypothesis `d.norm ≠ 0` of `C08_dipole_directional` excludes nothing unexplained -/
theorem C08_zero_direction (A : Antenna) (d : V3) (hd : d.norm = 0) :
    arrivalAngles A d = (0, 0) ∧ dipoleDirectional (arrivalAngles A d).1 (arrivalAngles A d).2 = 0 := by
  have hz : isZero d.norm := by rw [isZero_iff]; exact hd
  have hd0 : d.x * d.x + d.y * d.y + d.z * d.z = 0 := by
    have := hd; rw [V3.norm_eq, Real.sqrt_eq_zero d.dot_self_nonneg] at this
    simpa [V3.dot] using this
  have hx : d.x = 0 := by nlinarith [mul_self_nonneg d.x, mul_self_nonneg d.y, mul_self_nonneg d.z]
  have hy : d.y = 0 := by nlinarith [mul_self_nonneg d.x, mul_self_nonneg d.y, mul_self_nonneg d.z]
  have hzz : d.z = 0 := by nlinarith [mul_self_nonneg d.x, mul_self_nonneg d.y, mul_self_nonneg d.z]
  have hn : d.normalize = d := by unfold V3.normalize; simp [hz]
  have h0 : A.frame.mulVec (V3.smul (-1) d) = ⟨0, 0, 0⟩ := by
    ext <;> simp [Antenna.frame, Mat3.mulVec, V3.dot, V3.smul, hx, hy, hzz]
  have hang : arrivalAngles A d = (0, 0) := by
    dsimp only [arrivalAngles, toAntennaCoords]
    rw [hn, V3.sub_sub_self, h0]
    have : isZero (0 : ℝ) := by rw [isZero_iff]
    simp [sphericalOf, this]
  exact ⟨hang, by rw [hang]; simp [dipoleDirectional]⟩

/-- **known finding K21** (negation of the response-factor clause for complex gains): with the gain
product `g = 0.6 + 0.8i` and the identity filter, a plain `Signal` with the single sample 1 yields the
prescribed complex product `(0.6, 0.8)`, while a function-backed signal with the same sample yields
`0.6` only — the imaginary part `0.8 ≠ 0` of filtered × gain is lost.  In general (second part) the
function-backed route returns exactly the real parts of what the sampled route returns whenever the
filter is the identity. -/
theorem C08_complex_gain_function_backed_drops_imaginary :
    scaleSampled [1] ((0.6 : ℝ), (0.8 : ℝ)) = [((0.6 : ℝ), (0.8 : ℝ))] ∧
    scaleFunctionBacked id [1] ((0.6 : ℝ), (0.8 : ℝ)) = [(0.6 : ℝ)] ∧
    (∀ (vals : List ℝ) (g : ℝ × ℝ),
      scaleFunctionBacked id vals g = (scaleSampled vals g).map (fun c => c.1)) ∧
    (∀ (vals : List ℝ) (g : ℝ × ℝ), g.2 ≠ 0 → (∃ v ∈ vals, v ≠ 0) →
      ∃ c ∈ scaleSampled vals g, c.2 ≠ 0) := by
  refine ⟨by simp [scaleSampled], by simp [scaleFunctionBacked], fun _ _ => rfl, ?_⟩
  rintro vals g hg ⟨v, hv, hv0⟩
  exact ⟨(v * g.1, v * g.2), by simp only [scaleSampled, List.mem_map]; exact ⟨v, hv, rfl⟩,
    mul_ne_zero hv0 hg⟩

/-! ## non-vacuity -/

/-- a concrete rotation that is not a coordinate permutation: the rational rotation with rows
`(2,-1,2)/3, (2,2,-1)/3, (-1,2,2)/3` -/
private noncomputable def rotQ : Mat3 := ⟨⟨2/3, -1/3, 2/3⟩, ⟨2/3, 2/3, -1/3⟩, ⟨-1/3, 2/3, 2/3⟩⟩
example : rotQ.IsRotation := by
  constructor <;> simp only [rotQ, Mat3.col1, Mat3.col2, Mat3.col3, Mat3.det, V3.dot, V3.cross] <;> norm_num

/-- a linear filter that is not the identity -/
example : LinearFilt (fun v => v.map (fun x => 2 * x)) := by
  intro a b u v _
  simp only [List.map_zipWith, List.zipWith_map]
  congr 2; funext x y; ring

/-- the constructor accepts an oblique (non-unit) perpendicular pair of axes -/
example : (mkAntenna ⟨1, 2, -30⟩ ⟨0, 0, 2⟩ ⟨3, 0, 0⟩ 2 0.5).isSome = true := by
  have h1 : Real.sqrt (0 * 0 + 0 * 0 + 2 * 2) = 2 := by
    rw [show (0 * 0 + 0 * 0 + 2 * 2 : ℝ) = 2 ^ 2 by norm_num]; exact Real.sqrt_sq (by norm_num)
  have h2 : Real.sqrt (3 * 3 + 0 * 0 + 0 * 0) = 3 := by
    rw [show (3 * 3 + 0 * 0 + 0 * 0 : ℝ) = 3 ^ 2 by norm_num]; exact Real.sqrt_sq (by norm_num)
  have z2 : ¬ isZero (2 : ℝ) := by rw [isZero_iff]; norm_num
  have z3 : ¬ isZero (3 : ℝ) := by rw [isZero_iff]; norm_num
  simp [mkAntenna, setOrientation, V3.normalize, V3.norm, V3.dot, z2, z3]
  norm_num

/-- hypotheses of `C08_dipole_directional` hold for the standard frame and an oblique direction -/
example : (⟨1, 0, 0⟩ : V3).dot ⟨1, 0, 0⟩ = 1 ∧ (⟨0, 0, 1⟩ : V3).dot ⟨0, 0, 1⟩ = 1 ∧
    (⟨0, 0, 1⟩ : V3).dot ⟨1, 0, 0⟩ = 0 ∧ (⟨3, 0, 4⟩ : V3).norm ≠ 0 := by
  refine ⟨by simp [V3.dot], by simp [V3.dot], by simp [V3.dot], ?_⟩
  rw [V3.norm_eq]
  have : (⟨3, 0, 4⟩ : V3).dot ⟨3, 0, 4⟩ = 5 ^ 2 := by simp only [V3.dot]; norm_num
  rw [this, Real.sqrt_sq (by norm_num)]; norm_num

/-- hypotheses of `C08_receive_sum` are satisfiable: two components of different value types on
one grid, both accepted (identity filter, unit gains) -/
example : ∃ (A : Antenna) (comps : List (Sig × Option V3)) (rs : List (List ℝ)),
    comps ≠ [] ∧ (∀ c ∈ comps, c.1.grid = 3) ∧
    comps.map (fun c => A.applyResponse id unitDirectional unitPolarization c.1.vt c.1.vals none c.2)
      = rs.map some := by
  refine ⟨⟨⟨0, 0, 0⟩, ⟨0, 0, 1⟩, ⟨1, 0, 0⟩, 2, 1⟩,
    [(⟨3, VType.voltage, [1, 2]⟩, none), (⟨3, VType.field, [4, 6]⟩, none)], [[1, 2], [2, 3]], by simp, by simp, ?_⟩
  simp [Antenna.applyResponse, signalFactor, unitPolarization]
  norm_num

/-- the hypothesis of `C08_zero_gain` is met by a dipole with a polarisation along its x axis -/
example : gainProduct ⟨⟨0, 0, 0⟩, ⟨0, 0, 1⟩, ⟨1, 0, 0⟩, 2, 1⟩ dipoleDirectional dipolePolarization none
    (some ⟨1, 0, 0⟩) = 0 := by
  have z1 : ¬ isZero (1 : ℝ) := by rw [isZero_iff]; norm_num
  simp [gainProduct, dipolePolarization, V3.normalize, V3.norm, V3.dot, z1]
