import PyrexVerif.Proofs.AntennaBook
import PyrexVerif.Proofs.AntennaInterp
/-!
# C09 — antenna and antenna-system hit bookkeeping is consistent under every history

Property theorems about the model `PyrexVerif/D/AntennaSM.lean` (state machines of
`pyrex.antenna.Antenna` and `pyrex.detector.AntennaSystem`, repaired semantics F10).
`run cfg ops` / `sysRun c ops` is the state after an arbitrary (unbounded) history `ops`, so every
statement below quantifies over all interleavings of receive / queries / make_noise / clear.
The model is tied to the code by the exact differential run of `harness/props/C09.py`.
-/
open Ant

/-! ## refinement: the state *is* the list of signals received since the last clear -/

/-- `antenna.signals` after any history = the signals received since the last `clear`, in order. -/
theorem C09_state_is_received (cfg : Cfg) (ops : List Op) :
    (run cfg ops).signals = received ops := run_signals cfg ops

/-- after any history, `all_waveforms` returns exactly `full_waveform(s.times)` for every received
signal `s`, computed from *all* received signals (never a stale snapshot), and leaves the cache in
that state.  An existing noise realisation is kept. -/
theorem C09_waves_are_full (cfg : Cfg) (ops : List Op) :
    let st := run cfg ops
    let r := step cfg st .qAll
    r.2 = .waves ((received ops).map (fun s => fullWave cfg r.1.master (received ops) (timesOf s))) ∧
    r.1.allWaves = r.1.signals.map (fun s => fullWave cfg r.1.master r.1.signals (timesOf s)) ∧
    r.1.signals = received ops ∧
    (∀ e, st.master = some e → r.1.master = some e) := by
  intro st r
  obtain ⟨_, h2, h3, h4⟩ := refreshAll_spec cfg st (inv_run cfg ops)
  have hs : st.signals = received ops := run_signals cfg ops
  refine ⟨?_, ?_, ?_, h4⟩
  · show Out.waves (refreshAll cfg st).allWaves =
      .waves ((received ops).map (fun s => fullWave cfg (refreshAll cfg st).master (received ops) (timesOf s)))
    rw [h3, hs]
  · show (refreshAll cfg st).allWaves = (refreshAll cfg st).signals.map
      (fun s => fullWave cfg (refreshAll cfg st).master (refreshAll cfg st).signals (timesOf s))
    rw [h3, h2]
  · show (refreshAll cfg st).signals = _
    rw [h2, hs]

/-- one waveform per received signal, each on that signal's own time grid, in reception order. -/
theorem C09_one_wave_per_signal (cfg : Cfg) (ops : List Op) (ws : List Wave)
    (h : (step cfg (run cfg ops) .qAll).2 = .waves ws) :
    ws.length = (received ops).length ∧ ws.map timesOf = (received ops).map timesOf := by
  have h1 : (step cfg (run cfg ops) .qAll).2 = .waves ((received ops).map (fun s =>
      fullWave cfg (step cfg (run cfg ops) .qAll).1.master (received ops) (timesOf s))) :=
    (C09_waves_are_full cfg ops).1
  rw [h1] at h
  injection h with h
  subst h
  refine ⟨by simp, ?_⟩
  rw [List.map_map]
  apply List.map_congr_left
  intro s _
  exact timesOf_fullWave _ _ _ _

/-- `waveforms` = the waveforms that satisfy the trigger, in reception order. -/
theorem C09_triggered_is_filter (cfg : Cfg) (ops : List Op) :
    let r := step cfg (run cfg ops) .qWaves
    r.2 = .waves ((allFull cfg r.1.master ops).filter cfg.trig) ∧
    ((allFull cfg r.1.master ops).filter cfg.trig).Sublist (allFull cfg r.1.master ops) := by
  intro r
  refine ⟨?_, List.filter_sublist⟩
  obtain ⟨h1, h2, h3, _⟩ := refreshAll_spec cfg (run cfg ops) (inv_run cfg ops)
  obtain ⟨_, ht⟩ := refreshTrig_spec cfg _ h1
  show Out.waves (triggeredOf (refreshTrig cfg (refreshAll cfg (run cfg ops))).allWaves
    (refreshTrig cfg (refreshAll cfg (run cfg ops))).triggers) = _
  rw [ht]
  show Out.waves (triggeredOf (refreshAll cfg (run cfg ops)).allWaves _) = _
  rw [triggeredOf_map, h3, run_signals]
  rfl

/-- `is_hit` is true exactly when at least one waveform satisfies the trigger. -/
theorem C09_hit_iff (cfg : Cfg) (ops : List Op) :
    let r := step cfg (run cfg ops) .qHit
    ∃ b, r.2 = .flag b ∧ (b = true ↔ ∃ w ∈ allFull cfg r.1.master ops, cfg.trig w = true) := by
  intro r
  obtain ⟨h1, h2, h3, _⟩ := refreshAll_spec cfg (run cfg ops) (inv_run cfg ops)
  obtain ⟨_, ht⟩ := refreshTrig_spec cfg _ h1
  refine ⟨_, rfl, ?_⟩
  show decide (0 < (triggeredOf (refreshTrig cfg (refreshAll cfg (run cfg ops))).allWaves
    (refreshTrig cfg (refreshAll cfg (run cfg ops))).triggers).length) = true ↔ _
  rw [ht]
  show decide (0 < (triggeredOf (refreshAll cfg (run cfg ops)).allWaves _).length) = true ↔ _
  rw [triggeredOf_map, h3, run_signals]
  show decide (0 < ((allFull cfg _ ops).filter cfg.trig).length) = true ↔ _
  rw [decide_eq_true_iff, List.length_pos_iff_exists_mem]
  constructor
  · rintro ⟨w, hw⟩
    rw [List.mem_filter] at hw
    exact ⟨w, hw.1, hw.2⟩
  · rintro ⟨w, hw, ht'⟩
    exact ⟨w, List.mem_filter.2 ⟨hw, ht'⟩⟩

/-- `is_hit_mc_truth` after any history: it leaves the antenna exactly as `waveforms` does (no further
state), and it is true iff some trigger-satisfying waveform would NOT have triggered on its noise alone
(the current realisation at the same absolute times); a noiseless antenna answers `is_hit`. -/
theorem C09_mc_truth (cfg : Cfg) (ops : List Op) :
    step cfg (run cfg ops) .qHitMC =
      (afterWaveforms cfg ops,
       .flag (if cfg.noisy then
          ((allFull cfg (afterWaveforms cfg ops).master ops).filter cfg.trig).any
            (fun w => !cfg.trig (noiseWave cfg ((afterWaveforms cfg ops).master.getD 0) (timesOf w)))
        else decide (0 < ((allFull cfg (afterWaveforms cfg ops).master ops).filter cfg.trig).length))) ∧
    (step cfg (run cfg ops) .qWaves).1 = afterWaveforms cfg ops := by
  refine ⟨?_, rfl⟩
  obtain ⟨h1, h2, h3, _⟩ := refreshAll_spec cfg (run cfg ops) (inv_run cfg ops)
  obtain ⟨hI, ht⟩ := refreshTrig_spec cfg _ h1
  have hws : triggeredOf (afterWaveforms cfg ops).allWaves (afterWaveforms cfg ops).triggers =
      (allFull cfg (afterWaveforms cfg ops).master ops).filter cfg.trig := by
    show triggeredOf (refreshAll cfg (run cfg ops)).allWaves
      (refreshTrig cfg (refreshAll cfg (run cfg ops))).triggers = _
    rw [ht, triggeredOf_map, h3, run_signals]
    rfl
  rw [step_qHitMC_eq]
  exact mcOut_eq cfg (afterWaveforms cfg ops) hI _ hws

/-- `clear` returns the antenna to the empty state (the noise master is dropped exactly when
`reset_noise` is set); what was received before is forgotten by every later query. -/
theorem C09_clear_is_init (cfg : Cfg) (st : State) (reset : Bool) (ops ops' : List Op) :
    (step cfg st (.clear reset)).1 =
      { init with master := if reset then none else st.master, nextEpoch := st.nextEpoch } ∧
    received (ops ++ [.clear reset] ++ ops') = received ops' := by
  refine ⟨rfl, ?_⟩
  simp only [received, List.foldl_append, List.foldl_cons, List.foldl_nil, recvStep]

/-- the unrepaired loop (before F10) does break the property: query, receive an overlapping signal,
query again — the first waveform is still the old snapshot. -/
theorem C09_stale_witness :
    let cfg : Cfg := ⟨false, alwaysTrig, detNoise⟩
    let s1 : Wave := [(0, 1), (1, 2), (2, 3), (3, 4)]
    let s2 : Wave := [(1, 1/2), (2, 1/2), (3, 1/2)]
    let ops := [Op.recv s1, .qAll, .recv s2, .qAll]
    (runOld cfg ops).allWaves ≠
      (runOld cfg ops).signals.map (fun s => fullWave cfg none (runOld cfg ops).signals (timesOf s)) ∧
    (run cfg ops).allWaves =
      (run cfg ops).signals.map (fun s => fullWave cfg none (run cfg ops).signals (timesOf s)) := by
  decide +kernel

/-! ## the waveform over any window -/

/-- with or without noise: `full_waveform(times)[j]` = noise realisation at the absolute time
`times[j]` + the sum of all received signals interpolated at `times[j]` — for arbitrary grids; the
intermediate long grid and the skip test are invisible. -/
theorem C09_full_is_noise_plus_sum (cfg : Cfg) (m : Option Nat) (sigs : List Wave) (ts : List Time)
    (hts : WF ts) (hs : ∀ s ∈ sigs, (timesOf s).Pairwise (· < ·)) :
    fullWave cfg m sigs ts =
      ts.map (fun t => (t, noiseVal cfg m t + (sigs.map (fun s => interp0 s t)).sum)) :=
  fullWave_eq cfg m sigs ts hts hs

/-- without noise the waveform over any time window is the sum of all received signals
interpolated onto it. -/
theorem C09_full_is_sum (cfg : Cfg) (hn : cfg.noisy = false) (m : Option Nat) (sigs : List Wave)
    (ts : List Time) (hts : WF ts) (hs : ∀ s ∈ sigs, (timesOf s).Pairwise (· < ·)) :
    fullWave cfg m sigs ts = ts.map (fun t => (t, (sigs.map (fun s => interp0 s t)).sum)) := by
  rw [fullWave_eq cfg m sigs ts hts hs]
  apply List.map_congr_left
  intro t _
  simp [noiseVal, hn, sumAt]

/-- for an antenna system with a linear front end (keeps the grid, additive): the waveform over any
window is the sum over the received signals of the front end applied to that signal (on the lead-in
grid), read off on the window. -/
theorem C09_system_full_is_sum (c : SysCfg) (hl : LinearFE c.fe) (hn : c.ant.noisy = false)
    (m : Option Nat) (sigs : List Wave) (ts : List Time) (hts : WF ts)
    (hs : ∀ s ∈ sigs, (timesOf s).Pairwise (· < ·)) :
    sysFull c m sigs ts = ts.map (fun t =>
      (t, (sigs.map (fun s => interp0 (c.fe (withTimes s (leadInTimes c.leadIn ts))) t)).sum)) :=
  sysFull_eq c hl hn m sigs ts hts hs

/-- for EVERY front end, additive or not (clipping amplifiers, envelope circuits, …): the system waveform
over any well-formed window is the front end applied to the antenna's full waveform — noise plus the sum
of all received signals — on the lead-in grid, read off on the window.  This is what the code does; the
"sum of the signals, each passed through the front end" of `C09_system_full_is_sum` follows from it only
for additive front ends. -/
theorem C09_system_full_is_front_end_of_sum (c : SysCfg) (m : Option Nat) (sigs : List Wave)
    (ts : List Time) (hts : WF ts) (hs : ∀ s ∈ sigs, (timesOf s).Pairwise (· < ·)) :
    sysFull c m sigs ts = withTimes (c.fe ((leadInTimes c.leadIn ts).map
      (fun t => (t, noiseVal c.ant m t + (sigs.map (fun s => interp0 s t)).sum)))) ts :=
  sysFull_unconditional c m sigs ts hts hs

/-- why `LinearFE` is needed in `C09_system_full_is_sum`: with a clipping front end (as shipped for ARA
and ARIANNA) and two overlapping signals of 0.8 and 0.7 the system waveform is the clipped sum, 1, whereas
the sum of the separately processed signals (= the sum of `system.signals`) is 1.5.  The electronics act
on the total voltage; the worded clause cannot hold for a non-additive front end. -/
theorem C09_system_sum_fails_for_clipping :
    let c : SysCfg := ⟨⟨false, alwaysTrig, detNoise⟩, 0, clipFe, alwaysTrig⟩
    let s1 : Wave := [(0, 4/5), (1, 4/5), (2, 4/5), (3, 4/5)]
    let s2 : Wave := [(0, 7/10), (1, 7/10), (2, 7/10), (3, 7/10)]
    let ts : List Time := [0, 1, 2, 3]
    sysFull c none [s1, s2] ts = [(0, 1), (1, 1), (2, 1), (3, 1)] ∧
    ts.map (fun t => (t, ([s1, s2].map (fun s => interp0 (c.fe (withTimes s (leadInTimes c.leadIn ts))) t)).sum))
      = [(0, 3/2), (1, 3/2), (2, 3/2), (3, 3/2)] ∧
    WF ts ∧ ¬ (∀ a b : Wave, timesOf a = timesOf b → clipFe (addW a b) = addW (clipFe a) (clipFe b)) := by
  refine ⟨by decide +kernel, by decide +kernel, by decide +kernel, ?_⟩
  intro h
  have := h [(0, 4/5)] [(0, 7/10)] rfl
  revert this
  decide +kernel

/-! ## what the implementation rejects -/

/-- the hypotheses of the theorems above lie inside what the code accepts: a window of at least two
strictly increasing samples and non-empty, time-ordered signals never make `full_waveform` raise; uniform
grids with a non-negative lead-in time never make `_calculate_lead_in_times` raise. -/
theorem C09_hypotheses_are_accepted (sigs : List Wave) (ts : List Time) (hts : WF ts)
    (h : ∀ s ∈ sigs, s ≠ [] ∧ (timesOf s).Pairwise (· < ·))
    (a dt lead : Rat) (L : Nat) (hL : 2 ≤ L) (hdt : 0 < dt) (hlead : 0 ≤ lead) :
    fullWaveRejects sigs ts = false ∧ leadInRejects lead (uniformGrid a dt L) = false :=
  ⟨wf_not_rejected sigs ts hts h, leadIn_uniform_not_rejected a dt lead L hL hdt hlead⟩

/-- and outside them the code raises (each case observed on the real code by the harness): a window of
one sample or none; an empty received signal; repeated first times (division by zero); a window or the
longest signal running backwards; for `all_waveforms` already one received one-sample signal; for the
lead-in grid a negative lead-in time of more than one sample or a first gap larger than the rest. -/
theorem C09_rejected_inputs :
    fullWaveRejects [] [1] = true ∧ fullWaveRejects [] [] = true ∧
    fullWaveRejects [[]] [0, 1, 2] = true ∧ fullWaveRejects [] [1, 1, 2] = true ∧
    fullWaveRejects [[(0, 1), (1, 2), (2, 3)]] [2, 1, 0] = true ∧
    fullWaveRejects [[(2, 1), (1, 2), (0, 3)]] [0, 1, 2] = true ∧
    fullWaveRejects [[(0, 1), (1, 2), (2, 3)], [(1, 5)]] [0, 1, 2] = false ∧
    allWavesRejects [[(0, 1), (1, 2), (2, 3)], [(1, 5)]] = true ∧
    leadInRejects (5/2) [0, 2, 5/2, 3, 7/2, 4] = true ∧ leadInRejects (-5/2) [0, 1, 2, 3] = true ∧
    leadInRejects (-1) [0, 1, 2, 3] = false ∧ leadInRejects 0 [1] = true := by
  decide +kernel

/-- the lead-in grid of a uniform grid (`L ≥ 2` points from `a`, spacing `dt`) keeps the spacing,
ends with the grid itself, and has `n = ⌊lead/dt⌋ + 1 > lead/dt` extra points in front. -/
theorem C09_lead_in_grid (a dt lead : Rat) (L : Nat) (hL : 2 ≤ L) (hdt : 0 < dt) (hlead : 0 ≤ lead) :
    leadInN lead (uniformGrid a dt L) = (lead / dt).floor + 1 ∧
    leadInTimes lead (uniformGrid a dt L) =
      uniformGrid (a - (((lead / dt).floor + 1 : Int) : Rat) * dt) dt (((lead / dt).floor + 1).toNat + L) ∧
    lead / dt < (((lead / dt).floor + 1 : Int) : Rat) ∧ 0 < (lead / dt).floor + 1 :=
  leadIn_uniform a dt lead L hL hdt hlead

/-- on any (not necessarily uniform) well-formed grid the lead-in grid is strictly increasing and
ends with the grid, so re-gridding back onto the grid is exact. -/
theorem C09_lead_in_sorted (lead : Rat) (ts : List Time) (hts : WF ts) :
    WF (leadInTimes lead ts) ∧ ∀ t ∈ ts, t ∈ leadInTimes lead ts :=
  ⟨leadInTimes_sorted lead ts hts, fun t ht => mem_leadInTimes lead ts t ht⟩

/-! ## noise -/

/-- the same noise realisation is seen at the same absolute times until the noise is reset: once a
master exists (epoch `e`), every later history without `clear(reset_noise=True)` keeps it, and both
`make_noise(times)` and the noise part of `full_waveform(times)` are `noise e` at the absolute times,
whatever the grid. -/
theorem C09_noise_absolute (cfg : Cfg) (st : State) (e : Nat) (h : st.master = some e)
    (ops : List Op) (hno : ∀ op ∈ ops, op ≠ .clear true) (ts : List Time) :
    let st' := ops.foldl (fun st op => (step cfg st op).1) st
    st'.master = some e ∧
    (step cfg st' (.makeNoise ts)).2 = .wave (ts.map (fun t => (t, cfg.noise e t))) ∧
    (cfg.noisy = true → ∀ t, noiseVal cfg st'.master t = cfg.noise e t) := by
  intro st'
  have hm : st'.master = some e := by
    show (ops.foldl (fun st op => (step cfg st op).1) st).master = some e
    clear st'
    induction ops generalizing st with
    | nil => exact h
    | cons op r ih =>
      apply ih
      · have hop : op ≠ .clear true := hno op (by simp)
        have hne : st.master ≠ none := by simp [h]
        cases op with
        | recv s => exact h
        | clear reset =>
          cases reset with
          | true => exact absurd rfl hop
          | false => exact h
        | makeNoise ts => show (touch st).master = some e; rw [touch_of_some st hne]; exact h
        | qAll => exact (refreshAll_spec' cfg st e h)
        | qWaves => exact (refreshAll_spec' cfg st e h)
        | qHit => exact (refreshAll_spec' cfg st e h)
        | qFull ts =>
          show (if cfg.noisy then touch st else st).master = some e
          split
          · rw [touch_of_some st hne]; exact h
          · exact h
        | qHitDuring ts =>
          show (if cfg.noisy then touch st else st).master = some e
          split
          · rw [touch_of_some st hne]; exact h
          · exact h
        | qHitMC =>
          have hX : (refreshTrig cfg (refreshAll cfg st)).master = some e := refreshAll_spec' cfg st e h
          show (step cfg st .qHitMC).1.master = some e
          rcases step_qHitMC_fst cfg st with h1 | h1
          · rw [h1]; exact hX
          · rw [h1, touch_of_some _ (by simp [hX])]; exact hX
      · intro op' hop'; exact hno op' (List.mem_cons_of_mem _ hop')
  refine ⟨hm, ?_, ?_⟩
  · show Out.wave (ts.map (fun t => (t, cfg.noise ((touch st').master.getD 0) t))) = _
    rw [touch_of_some st' (by simp [hm]), hm]
    rfl
  · intro hn t
    simp [noiseVal, hn, hm]

/-- `clear(reset_noise=True)` drops the realisation; the next one is new: its index is the number
of realisations created so far, larger than the index of the one in force before the reset. -/
theorem C09_reset_new_epoch (cfg : Cfg) (ops : List Op) (ts : List Time) :
    let st := run cfg ops
    let st1 := (step cfg st (.clear true)).1
    st1.master = none ∧
    (step cfg st1 (.makeNoise ts)).1.master = some st.nextEpoch ∧
    (step cfg st1 (.makeNoise ts)).2 = .wave (ts.map (fun t => (t, cfg.noise st.nextEpoch t))) ∧
    ∀ e, st.master = some e → e < st.nextEpoch := by
  intro st st1
  exact ⟨rfl, rfl, rfl, (inv_run cfg ops).2⟩

/-! ## the antenna system: the same bookkeeping with its own caches -/

/-- `system.all_waveforms` after any history (including queries made directly on the inner
antenna): one `full_waveform` per signal received by the antenna, from all of them. -/
theorem C09_sys_waves_are_full (c : SysCfg) (ops : List SysOp) :
    let st := sysRun c ops
    let r := sysStep c st .qAll
    r.2 = .waves (st.ant.signals.map (fun s => sysFull c r.1.ant.master st.ant.signals (timesOf s))) ∧
    r.1.ant.signals = st.ant.signals ∧
    (∀ ws, r.2 = .waves ws → ws.length = st.ant.signals.length ∧
      ws.map timesOf = st.ant.signals.map timesOf) := by
  intro st r
  obtain ⟨_, h2, _, h4, _⟩ := sysRefreshAll_spec c st (sysInv_run c ops)
  have h1 : r.2 = .waves (st.ant.signals.map
      (fun s => sysFull c r.1.ant.master st.ant.signals (timesOf s))) := by
    show Out.waves (sysRefreshAll c st).allWaves = .waves (st.ant.signals.map
      (fun s => sysFull c (sysRefreshAll c st).ant.master st.ant.signals (timesOf s)))
    rw [h4]
  refine ⟨h1, h2, ?_⟩
  intro ws hws
  rw [h1] at hws
  injection hws with hws
  subst hws
  refine ⟨by simp, ?_⟩
  rw [List.map_map]
  apply List.map_congr_left
  intro s _
  exact timesOf_sysFull _ _ _ _

/-- `system.waveforms` / `system.is_hit`: the trigger-satisfying waveforms in order; hit iff any. -/
theorem C09_sys_triggered_is_filter (c : SysCfg) (ops : List SysOp) :
    let st := sysRun c ops
    let r := sysStep c st .qWaves
    let W := st.ant.signals.map (fun s => sysFull c r.1.ant.master st.ant.signals (timesOf s))
    r.2 = .waves (W.filter c.trig) ∧
    (sysStep c st .qHit).2 = .flag (decide (0 < (W.filter c.trig).length)) ∧
    (0 < (W.filter c.trig).length ↔ ∃ w ∈ W, c.trig w = true) := by
  intro st r W
  obtain ⟨h1, h2, _, h4, _⟩ := sysRefreshAll_spec c st (sysInv_run c ops)
  obtain ⟨_, ht⟩ := sysRefreshTrig_spec c _ h1
  have hW : triggeredOf (sysRefreshTrig c (sysRefreshAll c st)).allWaves
      (sysRefreshTrig c (sysRefreshAll c st)).triggers = W.filter c.trig := by
    rw [ht]
    show triggeredOf (sysRefreshAll c st).allWaves _ = _
    rw [triggeredOf_map, h4]
    rfl
  refine ⟨?_, ?_, ?_⟩
  · show Out.waves (triggeredOf _ _) = _
    rw [hW]
  · show Out.flag (decide (0 < (triggeredOf _ _).length)) = _
    rw [hW]
  · rw [List.length_pos_iff_exists_mem]
    constructor
    · rintro ⟨w, hw⟩
      rw [List.mem_filter] at hw
      exact ⟨w, hw.1, hw.2⟩
    · rintro ⟨w, hw, ht'⟩
      exact ⟨w, List.mem_filter.2 ⟨hw, ht'⟩⟩

/-- `system.signals`: every antenna signal passed through the front end with its lead-in, in order. -/
theorem C09_sys_signals_processed (c : SysCfg) (ops : List SysOp) :
    (sysStep c (sysRun c ops) .qSignals).2 = .waves ((sysRun c ops).ant.signals.map (procSig c)) := by
  obtain ⟨_, _, hs, _⟩ := sysInv_run c ops
  show Out.waves ((sysRun c ops).sigs ++
    ((sysRun c ops).ant.signals.drop (sysRun c ops).sigs.length).map (procSig c)) = _
  have h2 : (sysRun c ops).sigs ++ ((sysRun c ops).ant.signals.drop (sysRun c ops).sigs.length).map (procSig c) =
      ((sysRun c ops).ant.signals.take (sysRun c ops).sigs.length).map (procSig c) ++
      ((sysRun c ops).ant.signals.drop (sysRun c ops).sigs.length).map (procSig c) := by rw [← hs]
  rw [h2, ← List.map_append, List.take_append_drop]

/-- `system.clear` empties all three system caches and clears the inner antenna. -/
theorem C09_sys_clear_is_init (c : SysCfg) (st : SysState) (reset : Bool) :
    (sysStep c st (.clear reset)).1 =
      { sysInit with ant := { init with master := if reset then none else st.ant.master,
                                        nextEpoch := st.ant.nextEpoch } } := rfl

/-! ## non-vacuity: the hypotheses are met by concrete, non-trivial instances -/
private def s1 : Wave := [(0, 1), (1, 2), (2, 3), (3, 4)]
private def s2 : Wave := [(1, 1/2), (3/2, 1), (2, 1/2)]
private def far : Wave := [(40, 1), (41, 1)]
private def cfgT : Cfg := ⟨false, thrTrig (5/2), detNoise⟩
private def cfgN : Cfg := ⟨true, alwaysTrig, detNoise⟩

example : WF [1/2, 1, 3/2, 2] ∧ ∀ s ∈ [s1, s2, far], (timesOf s).Pairwise (· < ·) := by decide +kernel
-- overlapping + nested + far-away (skipped) signals, half-sample query grid
example : fullWave cfgT none [s1, s2, far] [1/2, 1, 3/2, 2] =
    [(1/2, 3/2), (1, 5/2), (3/2, 7/2), (2, 7/2)] := by decide +kernel
example : (step cfgT (run cfgT [.recv s1, .qAll, .recv s2, .qWaves, .recv far]) .qWaves).2 =
    .waves [[(0, 1), (1, 5/2), (2, 7/2), (3, 4)], [(1, 5/2), (3/2, 7/2), (2, 7/2)]] := by decide +kernel
example : (run cfgN [.recv s1, .qAll, .clear true, .recv s2, .qFull [0, 1]]).master = some 1 := by
  decide +kernel
example : LinearFE halfFe ∧ LinearFE idFe := ⟨linearFE_half, linearFE_id⟩
-- is_hit_mc_truth on a noisy threshold antenna: the signal triggers, its noise alone does not
example : (step ⟨true, thrTrig 2, detNoise⟩ (run ⟨true, thrTrig 2, detNoise⟩ [.recv s1]) .qHitMC).2 = .flag true ∧
    (step ⟨true, thrTrig 2, detNoise⟩ (run ⟨true, thrTrig 2, detNoise⟩ [.recv s2]) .qHitMC).2 = .flag false := by
  decide +kernel
example : leadInTimes (5/2) (uniformGrid 0 1 3) = [-3, -2, -1, 0, 1, 2] := by decide +kernel
example : (sysStep ⟨cfgT, 5/2, halfFe, cfgT.trig⟩
    (sysRun ⟨cfgT, 5/2, halfFe, cfgT.trig⟩ [.recv s1, .qAll, .recv s2]) .qAll).2 =
    .waves [[(0, 1/2), (1, 5/4), (2, 7/4), (3, 2)], [(1, 5/4), (3/2, 7/4), (2, 7/4)]] := by decide +kernel
