import PyrexVerif.Proofs.Kernel
import PyrexVerif.Gen.Interfaces
/-!
# C10 — the event kernel delivers one time-aligned signal per ray solution, for any components

Property theorems about the model `PyrexVerif/D/Kernel.lean` (`EventKernel.event` as a fold over
particles × antennas × ray solutions, components as parameters) and about the interface table
`PyrexVerif/Gen/Interfaces.lean`, which is regenerated from the source on every check.
The model is tied to `pyrex/kernel.py` by the recording-stub run (exact) and the run of the real
kernel over the shipped component combinations in `harness/props/C10.py`.
-/
open Kern

/-- closed form of the three nested loops: for every antenna `i`, the received signals, `ray_paths[i]`
and `polarizations[i]` are the concatenation, over the particles passing the weight cut in event
order, of one entry per ray solution in solution order. -/
theorem C10_loops_closed_form (c : Comp) (n : Nat) (ps : List Particle) (i : Nat) (hi : i < n) :
    (loops c n ps).length = n ∧ (loops c n ps)[i]? = some (spec c ps i) :=
  ⟨loops_length c n ps, loops_get c n ps i hi⟩

/-- antenna `i` receives exactly one signal per ray solution of every particle passing the cuts. -/
theorem C10_receive_count (c : Comp) (n : Nat) (ps : List Particle) (i : Nat) (hi : i < n) :
    ∃ a, (loops c n ps)[i]? = some a ∧
      a.received.length = ((passing c ps).map (fun p => (sols c p i).length)).sum := by
  refine ⟨spec c ps i, loops_get c n ps i hi, ?_⟩
  simp [spec, List.length_flatMap]

/-- `ray_paths[i]`, `polarizations[i]` and the received list line up one-to-one: equal lengths, the
`j`-th polarisation belongs to the `j`-th path, and the `j`-th received signal lives on
`signal_times + tof(ray_paths[i][j])` — provided `propagate` delays its input grid by the path's time
of flight (property C03; the recording stubs do so by construction). -/
theorem C10_aligned (c : Comp) (n : Nat) (ps : List Particle) (i : Nat) (hi : i < n)
    (hprop : ∀ path g, c.propGrid path g = shift g path.tof) :
    ∃ a, (loops c n ps)[i]? = some a ∧
      a.received.length = a.rayPaths.length ∧ a.pols.length = a.rayPaths.length ∧
      a.received.map Recv.grid = a.rayPaths.map (fun path => shift c.times path.tof) ∧
      a.pols.map (·.2) = a.rayPaths.map (·.id) := by
  refine ⟨spec c ps i, loops_get c n ps i hi, ?_⟩
  have h3 : (spec c ps i).received.map Recv.grid =
      (spec c ps i).rayPaths.map (fun path => shift c.times path.tof) := by
    simp only [spec, List.map_flatMap, List.map_map]
    congr 1
    funext p
    apply List.map_congr_left
    intro path _
    simp only [Function.comp, recvOf]
    split <;> simp [Recv.grid, hprop]
  have h4 : (spec c ps i).pols.map (·.2) = (spec c ps i).rayPaths.map (·.id) := by
    simp only [spec, List.map_flatMap, List.map_map]
    rfl
  refine ⟨?_, ?_, h3, h4⟩
  · have := congrArg List.length h3
    simpa using this
  · have := congrArg List.length h4
    simpa using this

/-- the off-cone cut and a `ValueError` of the signal model only replace the pulse by an empty signal
on the delayed grid; the solution is never skipped (`C10_receive_count`), and nothing else is emptied. -/
theorem C10_offcone_empty (c : Comp) (p : Particle) (path : Path) :
    (offcone c p path = true ∨ c.sigOk p path = false →
        recvOf c p path = .empty (shift c.times path.tof)) ∧
    (offcone c p path = false ∧ c.sigOk p path = true →
        recvOf c p path = .pulse p.id path.id (c.propGrid path c.times)) ∧
    (offcone c p path = true ↔ c.offconeMax < absR (c.psi p path - c.thetaC p)) := by
  refine ⟨?_, ?_, ?_⟩
  · rintro (h | h) <;> simp [recvOf, h]
  · rintro ⟨h1, h2⟩; simp [recvOf, h1, h2]
  · simp [offcone]

/-- the weight-cut table: a scalar `weight_min` compares the total weight (forced weight, or the
product of the weights that are set); a pair compares survival and interaction weight separately and
never cuts on a weight that is `None`; `weight_min=None` (stored as `0`) cuts only negative weights. -/
theorem C10_weight_cut_table (p : Particle) (w a b : Rat) :
    (skip (.scalar w) p = true ↔ weight p < w) ∧
    (skip (.pair a b) p = true ↔ (∃ s, p.sw = some s ∧ s < a) ∨ (∃ i, p.iw = some i ∧ i < b)) ∧
    (p.forced = none → weight p = (p.sw.getD 1) * (p.iw.getD 1)) ∧
    (∀ f, p.forced = some f → weight p = f) := by
  refine ⟨by simp [skip], ?_, ?_, ?_⟩
  · cases hs : p.sw <;> cases hi : p.iw <;> simp [skip, hs, hi]
  · intro hf
    cases hs : p.sw <;> cases hi : p.iw <;> simp [weight, hf, hs, hi, Rat.one_mul]
  · intro f hf; simp [weight, hf]

/-- a weight of exactly zero (a fully shadowed particle; `exp(-x)` underflowing) is a weight like any
other: with a positive threshold it is cut, in the scalar form (the product is zero) as well as in the
pair form (either component), it is never mistaken for "unset" (`None`, which the pair form never cuts);
a weight exactly equal to the threshold passes; `weight_min=None` (stored as `0`) cuts nothing that
is non-negative. -/
theorem C10_zero_weight_cut (p : Particle) (w a b : Rat) :
    (p.sw = some 0 → 0 < a → skip (.pair a b) p = true) ∧
    (p.iw = some 0 → 0 < b → skip (.pair a b) p = true) ∧
    (p.forced = none → (p.sw = some 0 ∨ p.iw = some 0) → 0 < w → skip (.scalar w) p = true) ∧
    (p.forced = some 0 → 0 < w → skip (.scalar w) p = true) ∧
    (p.sw = none → p.iw = none → skip (.pair a b) p = false) ∧
    (p.sw = some a → p.iw = some b → skip (.pair a b) p = false) ∧
    (weight p = w → skip (.scalar w) p = false) ∧
    (0 ≤ weight p → skip (.scalar 0) p = false) := by
  refine ⟨?_, ?_, ?_, ?_, ?_, ?_, ?_, ?_⟩
  · intro h ha; cases hi : p.iw <;> simp [skip, h, hi, ha]
  · intro h hb; cases hs : p.sw <;> simp [skip, h, hs, hb]
  · intro hf h0 hw
    have : weight p = 0 := by
      rcases h0 with h | h
      · cases hi : p.iw <;> simp [weight, hf, h, hi]
      · cases hs : p.sw <;> simp [weight, hf, h, hs]
    simp [skip, this, hw]
  · intro hf hw; simp [skip, weight, hf, hw]
  · intro hs hi; simp [skip, hs, hi]
  · intro hs hi; simp [skip, hs, hi, Rat.lt_irrefl]
  · intro h; simp [skip, h, Rat.lt_irrefl]
  · intro h; simp only [skip, decide_eq_false_iff_not]; exact Rat.not_lt.2 h

/-- a particle below the cut contributes nothing to any antenna. -/
theorem C10_skipped_contributes_nothing (c : Comp) (ps qs : List Particle) (p : Particle) (i : Nat)
    (h : skip c.weightMin p = true) : spec c (ps ++ p :: qs) i = spec c (ps ++ qs) i := by
  simp [spec, passing, List.filter_append, h]

/-- the trigger result is exactly the supplied function(s) evaluated on the antennas after all
signals were received: a function gives its value, a dict is evaluated key by key and `event()`
returns its `'global'` entry, `None` gives a bare event. -/
theorem C10_trigger_eval (f : TrigFn) (fs : List (String × TrigFn)) (r : List (List Recv)) :
    evalTrig .none r = .none ∧ retOf (evalTrig .none r) = none ∧
    evalTrig (.fn f) r = .single (f r) ∧ retOf (evalTrig (.fn f) r) = some (some (f r)) ∧
    evalTrig (.dict fs) r = .dict (fs.map (fun kf => (kf.1, kf.2 r))) ∧
    (∀ g, fs.find? (fun kf => kf.1 == "global") = some g →
      retOf (evalTrig (.dict fs) r) = some (some (g.2 r))) := by
  refine ⟨rfl, rfl, rfl, rfl, rfl, ?_⟩
  intro g hg
  simp only [evalTrig, retOf, List.find?_map]
  have hcomp : ((fun p : String × Bool => p.1 == "global") ∘
      fun kf : String × TrigFn => (kf.1, kf.2 r)) = fun kf => kf.1 == "global" := rfl
  rw [hcomp, hg]
  rfl

/-- the writer is called once per event with the generator's event, the trigger result, the
per-antenna `ray_paths` / `polarizations` of `C10_loops_closed_form`, and
`events_thrown = gen.count` now minus `gen.count` at the end of the previous call; without a writer
nothing is written; the returned event is the generator's. -/
theorem C10_writer_args {σ : Type} (g : Gen σ) (c : Comp) (n : Nat) (t : Triggers) (k : KState σ) :
    let created := g.create k.gen
    let accs := loops c n created.1.2
    let r := event g c n t true k
    r.1.written = some ⟨created.1.1, evalTrig t (accs.map (·.received)), accs.map (·.rayPaths),
        accs.map (·.pols), (g.count created.2 : Int) - k.genCount⟩ ∧
    r.1.event = created.1.1 ∧ r.2.genCount = g.count created.2 ∧ r.2.gen = created.2 ∧
    (event g c n t false k).1.written = none ∧
    (event g c n t false k).1.accs = accs := by
  intro created accs r
  exact ⟨rfl, rfl, rfl, rfl, rfl, rfl⟩

/-- over any number of successive `event()` calls the `events_thrown` handed to the writer add up to
the total advance of the generator's counter (no throw is lost or counted twice). -/
theorem C10_events_thrown_sum {σ : Type} (g : Gen σ) (c : Comp) (n : Nat) (t : Triggers) (m : Nat)
    (k : KState σ) :
    (((events g c n t true m k).1.filterMap (·.written)).map (·.eventsThrown)).sum =
      ((events g c n t true m k).2.genCount : Int) - k.genCount := by
  induction m generalizing k with
  | zero => simp [events]
  | succ m ih =>
    simp only [events]
    have h1 : (event g c n t true k).1.written = some
        ⟨(g.create k.gen).1.1, evalTrig t ((loops c n (g.create k.gen).1.2).map (·.received)),
         (loops c n (g.create k.gen).1.2).map (·.rayPaths), (loops c n (g.create k.gen).1.2).map (·.pols),
         (g.count (g.create k.gen).2 : Int) - k.genCount⟩ := rfl
    have h2 : (event g c n t true k).2.genCount = g.count (g.create k.gen).2 := rfl
    simp only [List.filterMap_cons, h1, List.map_cons, List.sum_cons, ih, h2]
    omega

/-! ## identity: what the kernel hands over is freshly made -/

/-- every object one `event()` call constructs itself — the `ray_paths[i]` / `polarizations[i]` lists,
one polarisation array per ray solution, one `EmptySignal` per cut solution — is a new object: no id is
used twice (so no two antennas, solutions or writer arguments share one), and every one of them is
distinct from everything the same kernel created in earlier calls (ids at or beyond the counter at
the start of the call).  The harness checks this of the real objects (identity, `shares_memory`,
mutation probes) after every event. -/
theorem C10_fresh_objects (h : Heap) (hw : h.WF) (nAnt : Nat) (cuts : List Bool) :
    (eventHeap h nAnt cuts).WF ∧
    ∃ created, (eventHeap h nAnt cuts).ids = h.ids ++ created ∧ created.Nodup ∧
      (∀ x ∈ created, h.next ≤ x ∧ x ∉ h.ids) := by
  obtain ⟨hw', _, l, hl, hge⟩ := ext_paths cuts h _ (ext_allocN (2 * nAnt) h h (ext_refl h hw))
  refine ⟨hw', l, hl, ?_, ?_⟩
  · have := hw'.1
    rw [hl, List.nodup_append] at this
    exact this.2.1
  · intro x hx
    refine ⟨hge x hx, ?_⟩
    intro hmem
    have := hw.2 x hmem
    have := hge x hx
    omega

/-- over several calls on one kernel the property is inherited: the heap stays well-formed. -/
theorem C10_fresh_objects_across_calls (h : Heap) (hw : h.WF) (nAnt : Nat) (evs : List (List Bool)) :
    (evs.foldl (fun h cuts => eventHeap h nAnt cuts) h).WF := by
  induction evs generalizing h with
  | nil => exact hw
  | cons c r ih => exact ih _ (C10_fresh_objects h hw nAnt c).1

/-! ## interfaces (table regenerated from the source) -/

/-- every call `EventKernel.event` makes on a pluggable collaborator binds, without `TypeError`, to the
signature of *every* shipped class that can stand there: `propagate(signal=, polarization=,
attenuation_interpolation=)` for every ray path class, `(vertex, position, ice_model=)` for every ray
tracer, the five keywords for every Askaryan model, `receive(x)` / `receive(x, direction=,
polarization=)` for every antenna and antenna system, `create_event()`, `writer.add(...)`,
`ice.index(z)`; and the shipped classes named in the property are all in the table. -/
theorem C10_interfaces_ok :
    (Gen.calls.all (fun rc =>
      match Gen.roles.find? (fun r => r.1 == rc.1) with
      | some r => !r.2.isEmpty && r.2.all (fun s => accepts s rc.2)
      | none => false)) = true ∧
    (Gen.roles.all (fun r => Gen.calls.any (fun rc => rc.1 == r.1))) = true ∧
    (["BasicRayTracePath", "SpecializedRayTracePath", "UniformRayTracePath", "LayeredRayTracePath"].all
      (fun nm => Gen.pathPropagate.any (fun s => s.cls == nm))) = true ∧
    (["BasicRayTracer", "SpecializedRayTracer", "UniformRayTracer", "LayeredRayTracer"].all
      (fun nm => Gen.tracerInit.any (fun s => s.cls == nm))) = true ∧
    (["ARZAskaryanSignal", "AVZAskaryanSignal", "ZHSAskaryanSignal"].all
      (fun nm => Gen.signalInit.any (fun s => s.cls == nm))) = true ∧
    (Gen.aliases.all (fun a => Gen.roles.any (fun r => r.2.any (fun s => s.cls == a.2)))) = true := by
  decide +kernel

/-! ## non-vacuity -/
private def p1 : Particle := ⟨1, some 1, some 1, none⟩
private def p2 : Particle := ⟨2, some (1/10), some 1, none⟩     -- below a 0.5 cut
private def p3 : Particle := ⟨3, none, none, some 1⟩
private def cEx : Comp :=
  { times := [0, 1, 2], weightMin := .scalar (1/2), offconeMax := 1/10,
    tracer := fun p i => if i = 2 then none else some [⟨10 * p.id + i, 5⟩, ⟨10 * p.id + i + 100, 7⟩],
    psi := fun _ path => if path.id < 100 then 1 else 2, thetaC := fun _ => 1,
    sigOk := fun p _ => p.id != 3, propGrid := fun path g => shift g path.tof }

example : loops cEx 3 [p1, p2, p3] =
    [⟨[.pulse 1 10 [5, 6, 7], .empty [7, 8, 9], .empty [5, 6, 7], .empty [7, 8, 9]],
      [⟨10, 5⟩, ⟨110, 7⟩, ⟨30, 5⟩, ⟨130, 7⟩], [(1, 10), (1, 110), (3, 30), (3, 130)]⟩,
     ⟨[.pulse 1 11 [5, 6, 7], .empty [7, 8, 9], .empty [5, 6, 7], .empty [7, 8, 9]],
      [⟨11, 5⟩, ⟨111, 7⟩, ⟨31, 5⟩, ⟨131, 7⟩], [(1, 11), (1, 111), (3, 31), (3, 131)]⟩,
     ⟨[], [], []⟩] := by decide +kernel
example : ∀ path g, cEx.propGrid path g = shift g path.tof := fun _ _ => rfl
example : (eventHeap ⟨0, []⟩ 2 [true, false, true]).ids = [0, 1, 2, 3, 4, 5, 6, 7, 8] ∧
    (eventHeap (eventHeap ⟨0, []⟩ 2 [true, false, true]) 2 [false]).ids.length = 14 ∧
    (⟨0, []⟩ : Heap).WF := by
  refine ⟨by decide, by decide, ⟨by simp, by simp⟩⟩
example : skip (.pair (1/2) (1/2)) ⟨4, some 0, some 1, none⟩ = true ∧ skip (.scalar (1/10)) ⟨4, some 1, some 0, none⟩ = true ∧
    skip (.pair (1/2) (1/2)) ⟨4, none, some (1/2), none⟩ = false ∧ skip (.scalar 0) ⟨4, some 0, none, none⟩ = false := by
  decide +kernel
example : skip (.pair (1/2) (1/2)) p2 = true ∧ skip (.pair (1/2) (1/2)) p3 = false ∧
    skip (.scalar 0) p2 = false := by decide +kernel
example : accepts ⟨"X", "propagate", ["signal", "polarization"], 0, [], [], false, false⟩
    ⟨"path.propagate", 0, ["signal", "polarization", "attenuation_interpolation"]⟩ = false := by decide
