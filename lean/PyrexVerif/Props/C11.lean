import PyrexVerif.Proofs.H5Top
/-!
# C11 — HDF5 write/read round trip returns each event's own data for every configuration

Model: `PyrexVerif/D/H5.lean` (writer state machine with cut points, reader through the index table).
All theorems quantify over every history `ops` of accepted adds, rejected adds (cut after any
micro-operation — a superset of the real raise points) and append-mode reopens, over every event
shape (numbers of particles / rays / waveforms, triggered or not, extra trigger keys) and every
option set `o` that records particles (`AlwaysParticles o`: `write_particles` and particles not
trigger-gated — the reading of "option sets that record particles"; without it the reader cannot
even open the file, see `C11_all_gated_untriggered_witness`).  Row *contents* are not part of the
model: a row is identified by (call, position); the correspondence run encodes these in the values.
-/
open H5

/-- every `(start, length)` of the index table addresses rows inside its dataset -/
theorem C11_index_in_bounds (o : Opts) (hA : AlwaysParticles o) (ops : List Op) :
    ∀ ix ∈ (run o ops).index, ∀ t, (ix t).1 + (ix t).2 ≤ ((run o ops).rows t).length := by
  intro ix hix t
  obtain ⟨i, hi, hget⟩ := List.getElem_of_mem hix
  have h : (run o ops).index[i]? = some ix := by rw [List.getElem?_eq_getElem hi, hget]
  rw [← cell_of_getElem? h t]
  exact (inv_run hA ops).inb i t

/-- in every column the events occupy disjoint, increasing row ranges -/
theorem C11_index_monotone (o : Opts) (hA : AlwaysParticles o) (ops : List Op)
    (i j : Nat) (ixi ixj : IxRow) (hij : i < j)
    (hi : (run o ops).index[i]? = some ixi) (hj : (run o ops).index[j]? = some ixj) :
    ∀ t, (ixi t).1 + (ixi t).2 ≤ (ixj t).1 := by
  intro t
  rw [← cell_of_getElem? hi t, ← cell_of_getElem? hj t]
  apply (inv_run hA ops).mono i j t hij
  have := List.getElem?_eq_some_iff.mp hj
  exact this.1

/-- reading the file back yields as many events as were accepted -/
theorem C11_accepted_count (o : Opts) (hA : AlwaysParticles o) (ops : List Op) :
    numEvents (run o ops) = (accepted ops).length :=
  (rt_run hA ops).1

/-- the `i`-th accepted add reads back exactly its own rows in every table the options record for it
and nothing otherwise — whatever else happened before, between or after -/
theorem C11_round_trip (o : Opts) (hA : AlwaysParticles o) (ops : List Op) (i c : Nat) (e : Ev)
    (he : (accepted ops)[i]? = some (c, e)) (t : Tbl) :
    getEvent (run o ops) i t =
      if records o e t then (List.range (e.len t)).map (Row.data c) else [] :=
  (rt_run hA ops).2 i c e he t

/-- a rejected add anywhere in the history (cut after any number `k` of micro-operations) changes
neither the number of events nor what any event reads back (rows compared by their position in
the owning call; that each event owns them is `C11_round_trip`) -/
theorem C11_reject_isolated (o : Opts) (hA : AlwaysParticles o) (ops1 ops2 : List Op) (e : Ev) (k : Nat) :
    numEvents (run o (ops1 ++ .rejected e k :: ops2)) = numEvents (run o (ops1 ++ ops2)) ∧
    (accepted (ops1 ++ .rejected e k :: ops2)).map Prod.snd = (accepted (ops1 ++ ops2)).map Prod.snd ∧
    ∀ i t, (getEvent (run o (ops1 ++ .rejected e k :: ops2)) i t).map Row.pos =
           (getEvent (run o (ops1 ++ ops2)) i t).map Row.pos := by
  have hs := accepted_reject_snd ops1 ops2 e k
  refine ⟨?_, hs, fun i t => rt_same_pos (rt_run hA _) (rt_run hA _) hs i t⟩
  rw [C11_accepted_count o hA, C11_accepted_count o hA]
  have := congrArg List.length hs
  simpa using this

/-- … in particular as the last operation (the F12 repair): nothing at all changes -/
theorem C11_reject_last (o : Opts) (hA : AlwaysParticles o) (ops : List Op) (e : Ev) (k : Nat) :
    numEvents (run o (ops ++ [.rejected e k])) = numEvents (run o ops) ∧
    ∀ i t, getEvent (run o (ops ++ [.rejected e k])) i t = getEvent (run o ops) i t := by
  have hacc : accepted (ops ++ [.rejected e k]) = accepted ops := by
    unfold accepted; rw [acceptedFrom_append]; simp [acceptedFrom]
  have h1 := rt_run hA (ops ++ [.rejected e k])
  rw [hacc] at h1
  exact ⟨by rw [C11_accepted_count o hA, C11_accepted_count o hA, hacc],
         fun i t => rt_same h1 (rt_run hA ops) i t⟩

/-- iterating a file without events yields nothing (and raises nothing) -/
theorem C11_empty_file_iterates_empty (o : Opts) (hA : AlwaysParticles o) (ops : List Op) (sr : Option Int)
    (h : accepted ops = []) : iterAll (run o ops) sr = ([], Err.stop) := by
  have hn : (run o ops).index.length = 0 := by
    have := C11_accepted_count o hA ops; rw [h] at this; exact this
  unfold iterAll; rw [if_pos hn]

/-- rows left behind by rejected adds, and fill rows, are never read: every row of every event is a
row of the accepted call that owns the event -/
theorem C11_orphans_unreachable (o : Opts) (hA : AlwaysParticles o) (ops : List Op) (i : Nat) (t : Tbl)
    (r : Row) (hr : r ∈ getEvent (run o ops) i t) :
    ∃ c e k, (accepted ops)[i]? = some (c, e) ∧ r = Row.data c k ∧ k < e.len t := by
  by_cases hi : i < (accepted ops).length
  · have h1 : (accepted ops)[i]? = some (accepted ops)[i] := List.getElem?_eq_getElem hi
    rw [C11_round_trip o hA ops i _ _ h1 t] at hr
    split at hr
    · obtain ⟨k, hk, rfl⟩ := List.mem_map.mp hr
      exact ⟨_, _, k, h1, rfl, List.mem_range.mp hk⟩
    · simp at hr
  · rw [getEvent_beyond (by rw [(rt_run hA ops).1]; omega)] at hr
    simp at hr

/-- the column list of `/event_indices` only ever grows at the end (any option set) -/
theorem C11_keys_stable (o : Opts) (ops : List Op) (op : Op) :
    ∃ ext, (run o (ops ++ [op])).cols = (run o ops).cols ++ ext := by
  rw [run_snoc]; exact applyOp_cols o _ op

/-! ### Non-vacuity and witnesses -/

/-- default-like options: particles, triggers, rays; `require_trigger=True` -/
def c11Opts : Opts :=
  { write := fun | .particles => true | .triggers => true | .rays => true | _ => false,
    trigOnly := trigOnlyOf (.bool true) }

example : AlwaysParticles c11Opts := ⟨rfl, rfl⟩

def c11Hist : List Op :=
  [.ok ⟨2, true, 2, 2, false, 1⟩, .rejected ⟨3, true, 1, 1, false, 1⟩ 7, .ok ⟨1, false, 0, 1, false, 1⟩,
   .reopen, .ok ⟨3, true, 1, 3, false, 2⟩, .rejected ⟨1, true, 1, 1, false, 1⟩ 9]

/-- the hypotheses of `C11_round_trip` are met by a history with orphans, a reopen and a trailing reject -/
example : (accepted c11Hist)[2]? = some (3, ⟨3, true, 1, 3, false, 2⟩) := by decide
example : getEvent (run c11Opts c11Hist) 2 .particles = [.data 3 0, .data 3 1, .data 3 2] := by decide
example : getEvent (run c11Opts c11Hist) 1 .rays = [] := by decide
example : ((run c11Opts c11Hist).rows .particles).length = 10 ∧ numEvents (run c11Opts c11Hist) = 3 := by decide

/-- every table trigger-gated and nothing triggered: no dataset is ever created and the reader cannot
open the file (outside the claim; reproduced on the real code by the correspondence run) -/
theorem C11_all_gated_untriggered_witness :
    let o : Opts := { write := fun _ => true, trigOnly := trigOnlyOf (.list (fun _ => true)) }
    let f := run o [.ok ⟨1, false, 1, 1, false, 1⟩, .ok ⟨2, false, 0, 0, false, 1⟩]
    numEvents f = 0 ∧ (mkIter f 1 none none none).toOption = none := by decide
