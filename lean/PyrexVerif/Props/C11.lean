import PyrexVerif.Proofs.H5InvG
import PyrexVerif.Proofs.H5Source
import PyrexVerif.Proofs.H5McProofs
/-!
# C11 — HDF5 write/read round trip returns each event's own data for every configuration

Model: `PyrexVerif/D/H5.lean` (writer state machine with cut points, reader through the index table).
All theorems quantify over every history `ops` of accepted adds, rejected adds (cut after any
micro-operation — a superset of the real raise points) and append-mode reopens, over every event
shape (numbers of particles / rays / waveforms, triggered or not, extra trigger keys) and every
option set `o` that records particles (`AlwaysParticles o`: `write_particles` and particles not
trigger-gated — the reading of "option sets that record particles"; without it the reader cannot
even open the file, see `C11_all_gated_untriggered_witness`).  Row *contents* are not part of the
model: a row is identified by (call, position); the correspondence run encodes these in the values.
-/
open H5

/-- every `(start, length)` of the index table addresses rows inside its dataset — for EVERY option
set (also those that do not record particles) -/
theorem C11_index_in_bounds (o : Opts) (ops : List Op) :
    ∀ ix ∈ (run o ops).index, ∀ t, (ix t).1 + (ix t).2 ≤ ((run o ops).rows t).length := by
  intro ix hix t
  obtain ⟨i, hi, hget⟩ := List.getElem_of_mem hix
  have h : (run o ops).index[i]? = some ix := by rw [List.getElem?_eq_getElem hi, hget]
  rw [← cell_of_getElem? h t]
  exact (invG_run o ops).inb i t

/-- in every column the events occupy disjoint, increasing row ranges — for every option set -/
theorem C11_index_monotone (o : Opts) (ops : List Op)
    (i j : Nat) (ixi ixj : IxRow) (hij : i < j)
    (hi : (run o ops).index[i]? = some ixi) (hj : (run o ops).index[j]? = some ixj) :
    ∀ t, (ixi t).1 + (ixi t).2 ≤ (ixj t).1 := by
  intro t
  rw [← cell_of_getElem? hi t, ← cell_of_getElem? hj t]
  apply (invG_run o ops).mono i j t hij
  have := List.getElem?_eq_some_iff.mp hj
  exact this.1

/-- the writer's counters for every option set: a dataset is never longer than its counter and the two
agree except after a `_write_trigger` that raised between its counter increment and the resize
(only possible when triggers are written and not trigger-gated); the index table is never longer
than the event counter and, when shorter, is still empty (events for which nothing was written);
without reopen the event counter is the number of accepted adds -/
theorem C11_counters_any_options (o : Opts) (ops : List Op) :
    (∀ t, ((run o ops).rows t).length ≤ (run o ops).counter t) ∧
    (∀ t, (t = .triggers ∧ o.write .triggers = true ∧ o.trigOnly .triggers = false) ∨
          (run o ops).counter t = ((run o ops).rows t).length) ∧
    numEvents (run o ops) ≤ (run o ops).nEvents ∧
    (numEvents (run o ops) = (run o ops).nEvents ∨ numEvents (run o ops) = 0) ∧
    ((∀ op ∈ ops, isReopen op = false) → (run o ops).nEvents = (accepted ops).length) := by
  have h := invG_run o ops
  refine ⟨h.lenc, h.lenc_eq, h.ixle, h.ixz, fun hno => ?_⟩
  have := nEvents_foldl o ops hno File.empty
  simpa [run, accepted, File.empty] using this

/-- round trip for EVERY option set (also particles trigger-gated or not written), histories without
reopen: the `i`-th accepted add reads back exactly its own rows in every table the options record
for it and nothing otherwise (an event without index row recorded nothing at all); and the file
shows either all accepted events or — while no dataset exists yet — none -/
theorem C11_round_trip_any_options (o : Opts) (ops : List Op) (hno : ∀ op ∈ ops, isReopen op = false) :
    (∀ i c e, (accepted ops)[i]? = some (c, e) → ∀ t, getEvent (run o ops) i t =
        if records o e t then (List.range (e.len t)).map (Row.data c) else []) ∧
    (numEvents (run o ops) = (accepted ops).length ∨ numEvents (run o ops) = 0) := by
  have h := rtg_run o ops hno
  have hz := (invG_run o ops).ixz
  refine ⟨fun i c e he t => h.2 i c e he t, ?_⟩
  rcases hz with hz | hz
  · left; unfold numEvents; rw [hz, h.1]
  · right; exact hz

/-- reading the file back yields as many events as were accepted -/
theorem C11_accepted_count (o : Opts) (hA : AlwaysParticles o) (ops : List Op) :
    numEvents (run o ops) = (accepted ops).length :=
  (rt_run hA ops).1

/-- the `i`-th accepted add reads back exactly its own rows in every table the options record for it
and nothing otherwise — whatever else happened before, between or after -/
theorem C11_round_trip (o : Opts) (hA : AlwaysParticles o) (ops : List Op) (i c : Nat) (e : Ev)
    (he : (accepted ops)[i]? = some (c, e)) (t : Tbl) :
    getEvent (run o ops) i t =
      if records o e t then (List.range (e.len t)).map (Row.data c) else [] :=
  (rt_run hA ops).2 i c e he t

/-- a rejected add anywhere in the history (cut after any number `k` of micro-operations) changes
neither the number of events nor what any event reads back (rows compared by their position in
the owning call; that each event owns them is `C11_round_trip`) -/
theorem C11_reject_isolated (o : Opts) (hA : AlwaysParticles o) (ops1 ops2 : List Op) (e : Ev) (k : Nat) :
    numEvents (run o (ops1 ++ .rejected e k :: ops2)) = numEvents (run o (ops1 ++ ops2)) ∧
    (accepted (ops1 ++ .rejected e k :: ops2)).map Prod.snd = (accepted (ops1 ++ ops2)).map Prod.snd ∧
    ∀ i t, (getEvent (run o (ops1 ++ .rejected e k :: ops2)) i t).map Row.pos =
           (getEvent (run o (ops1 ++ ops2)) i t).map Row.pos := by
  have hs := accepted_reject_snd ops1 ops2 e k
  refine ⟨?_, hs, fun i t => rt_same_pos (rt_run hA _) (rt_run hA _) hs i t⟩
  rw [C11_accepted_count o hA, C11_accepted_count o hA]
  have := congrArg List.length hs
  simpa using this

/-- … in particular as the last operation (the F12 repair): nothing at all changes -/
theorem C11_reject_last (o : Opts) (hA : AlwaysParticles o) (ops : List Op) (e : Ev) (k : Nat) :
    numEvents (run o (ops ++ [.rejected e k])) = numEvents (run o ops) ∧
    ∀ i t, getEvent (run o (ops ++ [.rejected e k])) i t = getEvent (run o ops) i t := by
  have hacc : accepted (ops ++ [.rejected e k]) = accepted ops := by
    unfold accepted; rw [acceptedFrom_append]; simp [acceptedFrom]
  have h1 := rt_run hA (ops ++ [.rejected e k])
  rw [hacc] at h1
  exact ⟨by rw [C11_accepted_count o hA, C11_accepted_count o hA, hacc],
         fun i t => rt_same h1 (rt_run hA ops) i t⟩

/-- iterating a file without events yields nothing (and raises nothing) -/
theorem C11_empty_file_iterates_empty (o : Opts) (hA : AlwaysParticles o) (ops : List Op) (sr : Option Int)
    (h : accepted ops = []) : iterAll (run o ops) sr = ([], Err.stop) := by
  have hn : (run o ops).index.length = 0 := by
    have := C11_accepted_count o hA ops; rw [h] at this; exact this
  unfold iterAll; rw [if_pos hn]

/-- rows left behind by rejected adds, and fill rows, are never read: every row of every event is a
row of the accepted call that owns the event -/
theorem C11_orphans_unreachable (o : Opts) (hA : AlwaysParticles o) (ops : List Op) (i : Nat) (t : Tbl)
    (r : Row) (hr : r ∈ getEvent (run o ops) i t) :
    ∃ c e k, (accepted ops)[i]? = some (c, e) ∧ r = Row.data c k ∧ k < e.len t := by
  by_cases hi : i < (accepted ops).length
  · have h1 : (accepted ops)[i]? = some (accepted ops)[i] := List.getElem?_eq_getElem hi
    rw [C11_round_trip o hA ops i _ _ h1 t] at hr
    split at hr
    · obtain ⟨k, hk, rfl⟩ := List.mem_map.mp hr
      exact ⟨_, _, k, h1, rfl, List.mem_range.mp hk⟩
    · simp at hr
  · rw [getEvent_beyond (by rw [(rt_run hA ops).1]; omega)] at hr
    simp at hr

/-- the column list of `/event_indices` only ever grows at the end (any option set) -/
theorem C11_keys_stable (o : Opts) (ops : List Op) (op : Op) :
    ∃ ext, (run o (ops ++ [op])).cols = (run o ops).cols ++ ext := by
  rw [run_snoc]; exact applyOp_cols o _ op

/-! ### The model's step order is the source's step order (regenerated from `pyrex/io.py` on every run) -/

/-- `_add_event_data` in the source is: preset first, then the gated writers in the order and under
the `_write_data` / `_trig_only` keys the model uses (`Tbl.all`, `records`); the component-trigger
gate is `antenna_triggers` under its own key.  Reordering the writes, changing a gating key or
dropping the preset in `/repo` breaks this theorem. -/
theorem C11_steps_match_source :
    H5Gen.addEventData = modelAddEventData ∧
    H5Gen.includeAntennas = (Opt.antennaTriggers.key, Opt.antennaTriggers.key) ∧
    H5Gen.presetKeys = Tbl.presetOrder.map Tbl.key := by decide

/-- every `_write_*` method increments its counter, resizes and writes its index cell in the order of
the model's micro-operations (`writeTbl`), the particle writer bumps `total_thrown` last, and the
only writer that can raise between increment and resize is `_write_trigger` (`stageOf`) -/
theorem C11_writer_ops_match_source : H5Gen.writerOps = modelWriterOps := by decide

/-- `add` checks its arguments, runs `_add_event_data` inside `try`, on an exception shrinks
`/event_indices` back to `counters['indices']` rows and re-raises (`finishRej`, the F12 repair),
and increments `counters['indices']` only after success (`finishOk`) -/
theorem C11_add_shape_matches_source : H5Gen.addShape = modelAddShape := by decide

/-- what the generated gating keys mean in the model: `records` is the gate of the table's own option,
component triggers are recorded iff triggers are and (antenna triggers are gated in or the trigger
dict has extra keys) -/
theorem C11_records_is_gate (o : Opts) (e : Ev) :
    (∀ t x, t.gateOpt = some x → records o e t = gate o e x) ∧
    records o e .mcTriggers = (gate o e .triggers && (gate o e .antennaTriggers || e.extraTrig)) := by
  refine ⟨fun t x h => ?_, rfl⟩
  cases t <;> simp [Tbl.gateOpt] at h <;> subst h <;> rfl

/-! ### Row content of the component-trigger table (model `PyrexVerif/D/H5Mc.lean`) -/

/-- component flags read back under the names they were recorded under.  For every history of
`_write_trigger` calls (each with `n = max_waves` rows and named flag columns: distinct names, at
most `n` values per column), the event written by the call at any position reads, in its row `j`
and under any column name, exactly the value handed in for that name and waveform — `False` for
names the event did not carry and for waveforms an antenna did not have — whatever columns existed
before in whatever order (e.g. a named key created before the `antenna_*` columns: F16) and whatever
is written afterwards. -/
theorem C11_component_flags_round_trip (pre post : List (Nat × List (String × List Bool))) (n : Nat)
    (cols : List (String × List Bool))
    (hv : ∀ w ∈ pre ++ (n, cols) :: post, H5Mc.ValidWrite w.1 w.2) (j : Nat) (hj : j < n) (name : String) :
    H5Mc.flag (H5Mc.runMc (pre ++ (n, cols) :: post)) ((H5Mc.runMc pre).counter + j) name =
      H5Mc.expectedFlag cols j name :=
  H5Mc.mc_round_trip pre post n cols hv j hj name

/-- the code before the repair ed0aae8 (antenna number used as column number) breaks this: first an
untriggered event with a dict trigger (column `extra` is created first, antenna triggers are gated),
then a triggered event in which antenna 0 triggers — its flag is lost, the repaired code keeps it -/
theorem C11_component_flags_old_code_witness :
    let m0 := H5Mc.writeEvent H5Mc.Mc.empty 1 [("extra", [false])]
    let cols := [("antenna_0", [true]), ("antenna_1", [false]), ("extra", [false])]
    H5Mc.flag (H5Mc.writeEventOld m0 1 2 cols) 1 "antenna_0" = false ∧
    H5Mc.flag (H5Mc.writeEvent m0 1 cols) 1 "antenna_0" = true ∧
    (H5Mc.writeEvent m0 1 cols).keys = ["extra", "antenna_0", "antenna_1"] := by decide

/-- non-vacuity: a valid three-event history with the displaced column layout -/
example : ∀ w ∈ [(1, [("extra", [false])]), (2, [("antenna_0", [true, false]), ("antenna_1", [false]), ("extra", [true, true])]),
                 (1, [("perwave", [true])])], H5Mc.ValidWrite w.1 w.2 := by
  intro w hw
  simp only [List.mem_cons, List.mem_nil_iff, or_false] at hw
  rcases hw with rfl | rfl | rfl <;> exact ⟨by decide, by decide⟩

/-! ### Non-vacuity and witnesses -/

/-- default-like options: particles, triggers, rays; `require_trigger=True` -/
def c11Opts : Opts :=
  { write := fun | .particles => true | .triggers => true | .rays => true | _ => false,
    trigOnly := trigOnlyOf (.bool true) }

example : AlwaysParticles c11Opts := ⟨rfl, rfl⟩

def c11Hist : List Op :=
  [.ok ⟨2, true, 2, 2, false, 1⟩, .rejected ⟨3, true, 1, 1, false, 1⟩ 7, .ok ⟨1, false, 0, 1, false, 1⟩,
   .reopen, .ok ⟨3, true, 1, 3, false, 2⟩, .rejected ⟨1, true, 1, 1, false, 1⟩ 9]

/-- the hypotheses of `C11_round_trip` are met by a history with orphans, a reopen and a trailing reject -/
example : (accepted c11Hist)[2]? = some (3, ⟨3, true, 1, 3, false, 2⟩) := by decide
example : getEvent (run c11Opts c11Hist) 2 .particles = [.data 3 0, .data 3 1, .data 3 2] := by decide
example : getEvent (run c11Opts c11Hist) 1 .rays = [] := by decide
example : ((run c11Opts c11Hist).rows .particles).length = 10 ∧ numEvents (run c11Opts c11Hist) = 3 := by decide

/-- every table trigger-gated and nothing triggered: no dataset is ever created and the reader cannot
open the file (outside the claim; reproduced on the real code by the correspondence run) -/
theorem C11_all_gated_untriggered_witness :
    let o : Opts := { write := fun _ => true, trigOnly := trigOnlyOf (.list (fun _ => true)) }
    let f := run o [.ok ⟨1, false, 1, 1, false, 1⟩, .ok ⟨2, false, 0, 0, false, 1⟩]
    numEvents f = 0 ∧ (mkIter f 1 none none none).toOption = none := by decide

/-- an option set that gates everything: the first (untriggered) add writes nothing, the index table
stays empty while the event counter advances; the next (triggered) add materialises both rows -/
example :
    let o : Opts := { write := fun _ => true, trigOnly := trigOnlyOf (.list (fun _ => true)) }
    numEvents (run o [.ok ⟨1, false, 1, 1, false, 1⟩]) = 0 ∧ (run o [.ok ⟨1, false, 1, 1, false, 1⟩]).nEvents = 1 ∧
    numEvents (run o [.ok ⟨1, false, 1, 1, false, 1⟩, .ok ⟨2, true, 1, 1, false, 1⟩]) = 2 := by decide

/-- `C11_index_in_bounds`, `C11_index_monotone`, `C11_reject_isolated`, `C11_reject_last`,
`C11_orphans_unreachable`, `C11_keys_stable` on the concrete history `c11Hist` (two rejected adds, a
reopen): the raw index, the table lengths and the column list -/
example :
    (run c11Opts c11Hist).index.map (fun ix => (ix .particles, ix .rays)) = [((0, 2), (0, 2)), ((5, 1), (2, 0)), ((6, 3), (2, 3))] ∧
    ((run c11Opts c11Hist).rows .particles).length = 10 ∧ ((run c11Opts c11Hist).rows .rays).length = 5 ∧
    (run c11Opts c11Hist).cols = [.particles, .triggers, .rays] ∧
    numEvents (run c11Opts (c11Hist.take 1 ++ c11Hist.drop 2)) = numEvents (run c11Opts c11Hist) ∧
    (getEvent (run c11Opts c11Hist) 1 .particles).all (fun r => r matches .data 2 _) = true := by decide

/-- `C11_counters_any_options` and `C11_empty_file_iterates_empty`: a history whose only add is
rejected between the counter increment and the resize of `_write_trigger` (the one real "counter
only" cut) — no event, the trigger counter is ahead of its dataset, iteration yields nothing -/
example :
    let o : Opts := { write := fun | .particles => true | .triggers => true | _ => false, trigOnly := trigOnlyOf (.bool false) }
    let f := run o [.rejected ⟨1, false, 0, 0, false, 1⟩ 6]
    accepted [Op.rejected ⟨1, false, 0, 0, false, 1⟩ 6] = [] ∧ f.counter .triggers = 1 ∧ (f.rows .triggers).length = 0 ∧
    numEvents f = 0 ∧ (iterAll f none).1.length = 0 := by decide

/-- `C11_round_trip_any_options` where it matters: particles and triggers trigger-gated; the untriggered
event in the middle reads back empty, the count is right because a dataset existed before it -/
example :
    let o : Opts := { write := fun | .particles => true | .triggers => true | _ => false,
                      trigOnly := trigOnlyOf (.list (fun | .particles => true | .triggers => true | _ => false)) }
    let ops : List Op := [.ok ⟨1, true, 0, 0, false, 1⟩, .ok ⟨2, false, 0, 0, false, 1⟩, .ok ⟨1, true, 0, 0, false, 1⟩]
    numEvents (run o ops) = 3 ∧ getEvent (run o ops) 1 .particles = [] ∧ getEvent (run o ops) 2 .particles = [.data 2 0] := by
  decide
